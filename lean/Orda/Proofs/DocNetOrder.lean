/-
Document ARRAY elements are never duplicated, lost, resurrected or reordered — END TO END (C04 for documents, over the
server log).  Continues namespace `Orda.DNet` of `Proofs/DocNet.lean` (the system `Net`, `Step`, `Reach`, the invariant).

VOCABULARY.  `Holds net i d`: node `i` of `net` exists and its replica state is `.doc d` (`holds_iff`: the same as
`net.nodes[i]?.map (·.r.state) = some (.doc d)`).  `DA.slotIds d p`: the order identifiers of the slots of the array node `p`
of `d`, tombstoned slots included (`[]` when `p` is not an array of `d`).  `slotDead d p o`: the array `p` of `d` has a slot
with order identifier `o` whose child is a tombstone.  `Reaches net net'`: finitely many `Step`s lead from `net` to `net'`.

RESULTS (all for every `Reach cuid n net`, no further hypothesis)
  * `dnet_step_only_adds_slots` — a step never removes or reorders slots of any array on any node
    (`(slotIds d p).Sublist (slotIds d' p)`);
  * `dnet_step_keeps_deleted_slots` — a slot that is deleted on node `i` stays deleted on node `i`;
    `reaches_mono`: both along every continuation `Reaches net net'`;
  * `dnet_can_quiesce` — every reachable state can be continued to a quiescent one (push every buffer: `can_push_all`, then
    pull the whole log everywhere: `can_pull_all`);
  * `dnet_same_relative_order_everywhere` — THE order theorem: at every moment, on any two nodes, for any array node, any two
    slots present on both appear in the same relative order;
  * `dnet_slots_nodup` — the slot identifiers of every array on every node are pairwise distinct.
Nothing of the task is missing.

HOW.  §1: on the abstraction `DC.abs d` the entries of an array are a list `aEnts (abs d) p` of (order id, child, `KeySt`);
`Grow E E'` = the order identifiers of `E` are a sublist of those of `E'` and a dead entry of `E` has a dead entry with the same
identifier in `E'`; every abstract operation (`absOp`, `absE`: `union`, `setKey`, `kill`, `setArr`, `insSlots`, `applySlot`)
grows every array (`agrow_absOp`, `agrow_absE`).  §2: hence (`sim_op`, `abs_applyE`, `applyD_flat`) an applicable remote
operation grows every array of the document (`applyD_slotIds_sublist`, `applyD_slotDead`).  §3: a step changes the document of
a node not at all or by ONE applicable remote operation (`step_node_applies`: `call_cases`, `net_deliveries_exact`).
§4: `Reaches`, `reaches_mono`, `dnet_can_quiesce`.  §5: `asim_slotIds` (`ASim` documents have equal `slotIds`), so at
quiescence (`net_quiescent_converged`) all nodes have the same duplicate-free slot list `L` for `p`; the slot lists of the two
nodes NOW are sublists of `L` (`reaches_mono`), and two sublists of a duplicate-free list order common elements the same way
(`pair_sublist_of_super`).  §6: non-vacuity on `DNet.Ex.midNet`.
-/
import Orda.Proofs.DocNet
set_option linter.unusedSimpArgs false
set_option linter.unusedVariables false
namespace Orda.DNet
open Orda Orda.DC Orda.DA Orda.DM Orda.DR Orda.DCausal

/-! ## 1. arrays in the abstraction: entries are only added, dead entries stay dead -/

/-- the child of slot `o` of the array `p` is a tombstone -/
def slotDead (d : Doc) (p o : Ts) : Prop := ∃ s ∈ slotsOf d p, s.1 = o ∧ d.isTomb s.2 = true

/-- the entries of the array `p` in an abstraction -/
def aEnts (A : Abs) (p : Ts) : List Ent :=
  match A.shape p with
  | some (_, .arr E) => E
  | _ => []

theorem aEnts_abs (d : Doc) (p : Ts) : aEnts (abs d) p = (slotsOf d p).map (entOf d) := by
  unfold aEnts abs shapeOf slotsOf Doc.findArr
  simp only
  cases d.find p with
  | none => rfl
  | some n =>
    obtain ⟨nc, nd, np, nk⟩ := n
    cases nk with
    | elem v => cases nd <;> rfl
    | obj m s => rfl
    | arr sl s => rfl

theorem slotIds_abs (d : Doc) (p : Ts) : slotIds d p = (aEnts (abs d) p).map (·.1) := by
  rw [aEnts_abs, List.map_map]; rfl

theorem slotDead_abs (d : Doc) (p o : Ts) :
    slotDead d p o ↔ ∃ e ∈ aEnts (abs d) p, e.1 = o ∧ e.2.2.tomb = true := by
  rw [aEnts_abs]
  constructor
  · rintro ⟨s, hs, h1, h2⟩
    exact ⟨entOf d s, List.mem_map.mpr ⟨s, hs, rfl⟩, h1, h2⟩
  · rintro ⟨e, he, h1, h2⟩
    obtain ⟨s, hs, rfl⟩ := List.mem_map.mp he
    exact ⟨s, hs, h1, h2⟩

/-- entries are only added (order kept) and dead entries stay dead -/
def Grow (E E' : List Ent) : Prop :=
  (E.map (·.1)).Sublist (E'.map (·.1)) ∧
    ∀ e ∈ E, e.2.2.tomb = true → ∃ e' ∈ E', e'.1 = e.1 ∧ e'.2.2.tomb = true

theorem grow_refl (E : List Ent) : Grow E E := ⟨List.Sublist.refl _, fun e he ht => ⟨e, he, rfl, ht⟩⟩
theorem grow_trans {E1 E2 E3 : List Ent} (h1 : Grow E1 E2) (h2 : Grow E2 E3) : Grow E1 E3 := by
  refine ⟨h1.1.trans h2.1, ?_⟩
  intro e he ht
  obtain ⟨e', he', h3, h4⟩ := h1.2 e he ht
  obtain ⟨e'', he'', h5, h6⟩ := h2.2 e' he' h4
  exact ⟨e'', he'', h5.trans h3, h6⟩
theorem grow_nil (E : List Ent) : Grow [] E := ⟨by simp, by intro e he; cases he⟩
theorem grow_of_sublist {E E' : List Ent} (h : E.Sublist E') : Grow E E' :=
  ⟨h.map _, fun e he ht => ⟨e, h.subset he, rfl, ht⟩⟩

def AGrow (A B : Abs) : Prop := ∀ p, Grow (aEnts A p) (aEnts B p)

theorem agrow_refl (A : Abs) : AGrow A A := fun p => grow_refl _
theorem agrow_trans {A B C : Abs} (h1 : AGrow A B) (h2 : AGrow B C) : AGrow A C :=
  fun p => grow_trans (h1 p) (h2 p)
theorem agrow_of_shape {A B : Abs} (h : ∀ p, A.shape p = B.shape p) : AGrow A B := by
  intro p; unfold aEnts; rw [h p]; exact grow_refl _

theorem agrow_union (A N : Abs) : AGrow A (union A N) := by
  intro p
  unfold aEnts union
  simp only
  cases h : A.shape p with
  | none => exact grow_nil _
  | some x => exact grow_refl _

theorem agrow_kill (A : Abs) (x : Option Ts) : AGrow A (kill A x) := by
  cases x with
  | none => exact agrow_refl A
  | some x =>
    intro p
    unfold aEnts kill
    simp only
    by_cases h : p = x ∧ Shape.isElem (A.shape x) = true
    · rw [if_pos h]
      obtain ⟨rfl, h2⟩ := h
      cases hs : A.shape p with
      | none => exact grow_nil _
      | some y =>
        obtain ⟨par, sh⟩ := y
        cases sh with
        | elem v => exact grow_nil _
        | obj => simp [Shape.isElem, hs] at h2
        | arr E => simp [Shape.isElem, hs] at h2
    · rw [if_neg h]; exact grow_refl _

theorem agrow_setKey (A : Abs) (p : Ts) (k : String) (st : Option KeySt) (ds : Int) : AGrow A (setKey A p k st ds) :=
  agrow_of_shape (fun _ => rfl)

theorem agrow_setArr {A : Abs} {p : Ts} {par par' : Option Ts} {E E' : List Ent} (s : Int)
    (h : A.shape p = some (par, .arr E)) (hg : Grow E E') : AGrow A (setArr A p par' E' s) := by
  intro q
  unfold aEnts setArr
  simp only
  by_cases e : q = p
  · subst e; rw [if_pos rfl, h]; exact hg
  · rw [if_neg e]; exact grow_refl _

theorem agrow_absOp (o : ObjOp) (A : Abs) : AGrow A (absOp o A) := by
  unfold absOp aop applyStep
  exact agrow_trans (agrow_union A _) (agrow_trans (agrow_setKey _ _ _ _ _) (agrow_kill _ _))

theorem agrow_insSlots (A : Abs) (p an : Ts) (cs : List Ts) : AGrow A (insSlots A p an cs) := by
  unfold insSlots
  cases h : A.shape p with
  | none => exact agrow_refl A
  | some x =>
    obtain ⟨par, sh⟩ := x
    cases sh with
    | elem v => exact agrow_refl A
    | obj => exact agrow_refl A
    | arr E =>
      simp only
      cases hi : insertAfterId (fun (e : Ent) => e.1) an (cs.map newEnt) E with
      | none => exact agrow_refl A
      | some E' =>
        exact agrow_setArr _ h (grow_of_sublist (insertAfterId_sublist _ an _ E E' hi))

theorem setEntry_ids (tg c : Ts) (st : KeySt) : ∀ E : List Ent, (setEntry tg c st E).map (·.1) = E.map (·.1)
  | [] => rfl
  | e :: es => by
    unfold setEntry
    split
    · next h => simp [h]
    · simp [setEntry_ids tg c st es]

theorem grow_setEntry {tg c : Ts} {st : KeySt} : ∀ {E : List Ent} {e0 : Ent},
    E.find? (fun e => e.1 = tg) = some e0 → (e0.2.2.tomb = true → st.tomb = true) →
    Grow E (setEntry tg c st E) := by
  intro E e0 hf hst
  refine ⟨by rw [setEntry_ids], ?_⟩
  induction E with
  | nil => intro e he; cases he
  | cons x xs ih =>
    intro e he ht
    unfold setEntry
    by_cases hx : x.1 = tg
    · rw [if_pos hx]
      have : e0 = x := by
        simp only [List.find?_cons, hx, decide_true] at hf
        exact (Option.some.inj hf).symm
      subst this
      rcases List.mem_cons.mp he with rfl | he
      · exact ⟨(tg, c, st), by simp, hx.symm, hst ht⟩
      · exact ⟨e, by simp [he], rfl, ht⟩
    · rw [if_neg hx]
      rcases List.mem_cons.mp he with rfl | he
      · exact ⟨e, by simp, rfl, ht⟩
      · have hf' : xs.find? (fun e => e.1 = tg) = some e0 := by
          simpa only [List.find?_cons, hx, decide_false] using hf
        obtain ⟨e', he', h1, h2⟩ := ih hf' e he ht
        exact ⟨e', List.mem_cons_of_mem _ he', h1, h2⟩

theorem agrow_applySlot (A : Abs) (p tg : Ts) {f : Ts → KeySt → SStep}
    (hf : ∀ c st, st.tomb = true → (f c st).st.tomb = true) : AGrow A (applySlot A p tg f) := by
  unfold applySlot
  cases h : A.shape p with
  | none => exact agrow_refl A
  | some x =>
    obtain ⟨par, sh⟩ := x
    cases sh with
    | elem v => exact agrow_refl A
    | obj => exact agrow_refl A
    | arr E =>
      simp only
      cases hi : E.find? (fun e => e.1 = tg) with
      | none => exact agrow_refl A
      | some e0 =>
        simp only
        exact agrow_trans (agrow_setArr _ h (grow_setEntry hi (hf _ _))) (agrow_kill _ _)

theorem aDelStep_tomb (t c : Ts) (st : KeySt) (h : st.tomb = true) : (aDelStep t c st).st.tomb = true := by
  unfold aDelStep
  split
  · rfl
  · split
    · rfl
    · exact h

theorem aUpdStep_tomb (t c : Ts) (st : KeySt) (h : st.tomb = true) : (aUpdStep t c st).st.tomb = true := by
  unfold aUpdStep
  simp [h]

theorem agrow_absE (e : EOp) (A : Abs) : AGrow A (absE e A) := by
  cases e with
  | ins p an ts vs => exact agrow_trans (agrow_union A _) (agrow_insSlots _ _ _ _)
  | del1 p tg t => exact agrow_applySlot A p tg (aDelStep_tomb t)
  | upd1 p tg t v => exact agrow_trans (agrow_union A _) (agrow_applySlot _ p tg (aUpdStep_tomb t))


/-! ## 2. one remote document operation: slots are only added, dead slots stay dead -/

theorem agrow_applyX {z : Doc} {x : XOp} {l : List XOp} (h : GoodX z (x :: l)) : AGrow (abs z) (abs (applyX z x)) := by
  have hwf := goodX_wf h
  cases x with
  | o a =>
    have ha : OpOK z a := h.1.2.1 a (by simp [xo_cons_o])
    show AGrow (abs z) (abs (applyOp z a))
    rw [sim_op hwf a ha]
    exact agrow_absOp a _
  | e a =>
    have ha : EOK z a := h.2.1.2.1 a (by simp [xe_cons_e])
    show AGrow (abs z) (abs (applyE z a))
    rw [abs_applyE hwf a ha]
    exact agrow_absE a _

theorem agrow_applyAllX : ∀ (l : List XOp) {z : Doc}, GoodX z l → AGrow (abs z) (abs (applyAllX z l))
  | [], z, _ => agrow_refl _
  | x :: l, z, h => agrow_trans (agrow_applyX h) (agrow_applyAllX l (goodX_step h))

theorem agrow_applyD {d : Doc} {x : DOp} (h : GoodD d [x]) : AGrow (abs d) (abs (applyD d x)) := by
  have g := goodX_of_goodD h
  have e : [x].flatMap flatX = flatX x ++ [] := by simp
  rw [e] at g
  have hb : ∀ y, x = .a y → BatchOK y := by
    intro y hy
    subst hy
    exact h.2.2.1 y (by simp [arrs])
  have hd := applyD_flat g hb
  have hs : abs (applyD d x) = abs (applyAllX d (flatX x)) := sim_of_docEq hd
  rw [hs]
  rw [List.append_nil] at g
  exact agrow_applyAllX _ g

/-- an applicable remote operation only ADDS slots to any array (never removes, never reorders) -/
theorem applyD_slotIds_sublist {d : Doc} {x : DOp} (h : GoodD d [x]) (p : Ts) :
    (slotIds d p).Sublist (slotIds (applyD d x) p) := by
  rw [slotIds_abs, slotIds_abs]
  exact (agrow_applyD h p).1

/-- … and a tombstoned slot stays tombstoned -/
theorem applyD_slotDead {d : Doc} {x : DOp} (h : GoodD d [x]) (p o : Ts) (hd : slotDead d p o) :
    slotDead (applyD d x) p o := by
  rw [slotDead_abs] at hd ⊢
  obtain ⟨e, he, h1, h2⟩ := hd
  obtain ⟨e', he', h3, h4⟩ := (agrow_applyD h p).2 e he h2
  exact ⟨e', he', h3.trans h1, h4⟩

/-! ## 3. what a step does to ONE node: nothing, or it applies ONE applicable remote operation -/

/-- node `i` of `net` holds the document `d` -/
def Holds (net : Net) (i : Nat) (d : Doc) : Prop := ∃ nd, net.nodes[i]? = some nd ∧ nd.r.state = .doc d

theorem holds_unique {net : Net} {i : Nat} {d d' : Doc} (h : Holds net i d) (h' : Holds net i d') : d = d' := by
  obtain ⟨nd, h1, h2⟩ := h
  obtain ⟨nd', h1', h2'⟩ := h'
  rw [h1] at h1'
  injection h1' with h1'
  subst h1'
  rw [h2] at h2'
  injection h2'

theorem holds_iff {net : Net} {i : Nat} {d : Doc} :
    Holds net i d ↔ net.nodes[i]?.map (·.r.state) = some (DState.doc d) := by
  constructor
  · rintro ⟨nd, h1, h2⟩
    rw [h1, Option.map_some, h2]
  · intro h
    obtain ⟨nd, h1, h2⟩ := Option.map_eq_some_iff.mp h
    exact ⟨nd, h1, h2⟩

theorem step_node_applies {cuid : Nat → String} {n : Nat} {net net' : Net} (hr : Reach cuid n net)
    (hs : Step net net') (i : Nat) (d d' : Doc) (h1 : Holds net i d) (h2 : Holds net' i d') :
    d' = d ∨ ∃ x, GoodD d [x] ∧ d' = applyD d x := by
  obtain ⟨ap, I⟩ := inv_reach hr
  obtain ⟨nd1, hn1, hs1⟩ := h1
  obtain ⟨nd2, hn2, hs2⟩ := h2
  have same : nd2.r.state = nd1.r.state → d' = d ∨ ∃ x, GoodD d [x] ∧ d' = applyD d x := by
    intro e
    rw [hs1, hs2] at e
    injection e with e
    exact Or.inl e
  cases hs with
  | call k nd c hk hc =>
    rcases getElem?_set_some hn2 with ⟨rfl, rfl⟩ | ⟨hne, hj'⟩
    · rw [hn1] at hk
      injection hk with hk
      subst hk
      have N := I.node i nd1 hn1
      rcases call_cases N.life hs1 hc with e | ⟨o, x, _, _, _, hst, _, hg, _⟩
      · exact same (by rw [e])
      · right
        refine ⟨x, hg, ?_⟩
        have : DState.doc d' = .doc (applyD d x) := by rw [← hs2, ← hst]
        injection this
    · rw [hn1] at hj'
      injection hj' with hj'
      subst hj'
      exact same rfl
  | push k nd o hk ho =>
    rcases getElem?_set_some hn2 with ⟨rfl, rfl⟩ | ⟨hne, hj'⟩
    · rw [hn1] at hk
      injection hk with hk
      subst hk
      exact same rfl
    · rw [hn1] at hj'
      injection hj' with hj'
      subst hj'
      exact same rfl
  | pull k nd a o hk hl =>
    rcases getElem?_set_some hn2 with ⟨rfl, rfl⟩ | ⟨hne, hj'⟩
    · rw [hn1] at hk
      injection hk with hk
      subst hk
      by_cases ha : a = i
      · exact same (by simp only [if_pos ha])
      · simp only [if_neg ha] at hs2
        obtain ⟨x, hx, hg, _, _, hst, _⟩ := net_deliveries_exact net hr i nd1 a o d hn1 hl ha hs1
        right
        refine ⟨x, hg, ?_⟩
        have : DState.doc d' = .doc (applyD d x) := by rw [← hs2, ← hst]
        injection this
    · rw [hn1] at hj'
      injection hj' with hj'
      subst hj'
      exact same rfl

/-- a step never removes or reorders slots of any array on any node -/
theorem dnet_step_only_adds_slots {cuid : Nat → String} {n : Nat} {net net' : Net} :
    Reach cuid n net → Step net net' → ∀ (i : Nat) (d d' : Doc) (p : Ts), Holds net i d → Holds net' i d' →
    (slotIds d p).Sublist (slotIds d' p) := by
  intro hr hs i d d' p h1 h2
  rcases step_node_applies hr hs i d d' h1 h2 with rfl | ⟨x, hg, rfl⟩
  · exact List.Sublist.refl _
  · exact applyD_slotIds_sublist hg p

/-- … and a slot whose element is deleted (tombstone) on node `i` stays deleted on node `i` -/
theorem dnet_step_keeps_deleted_slots {cuid : Nat → String} {n : Nat} {net net' : Net} :
    Reach cuid n net → Step net net' → ∀ (i : Nat) (d d' : Doc) (p o : Ts), Holds net i d → Holds net' i d' →
    slotDead d p o → slotDead d' p o := by
  intro hr hs i d d' p o h1 h2 hd
  rcases step_node_applies hr hs i d d' h1 h2 with rfl | ⟨x, hg, rfl⟩
  · exact hd
  · exact applyD_slotDead hg p o hd


/-! ## 4. runs: monotonicity along any continuation, and every state can be continued to a quiescent one -/

/-- `net'` is reached from `net` by finitely many steps -/
inductive Reaches : Net → Net → Prop
  | refl (net : Net) : Reaches net net
  | step {a b c : Net} : Reaches a b → Step b c → Reaches a c

theorem Reaches.trans {a b c : Net} (h1 : Reaches a b) (h2 : Reaches b c) : Reaches a c := by
  induction h2 with
  | refl => exact h1
  | step _ hs ih => exact .step ih hs

theorem Reaches.single {a b : Net} (h : Step a b) : Reaches a b := .step (.refl a) h

theorem reach_of_reaches {cuid : Nat → String} {n : Nat} {a b : Net} (hr : Reach cuid n a) (h : Reaches a b) :
    Reach cuid n b := by
  induction h with
  | refl => exact hr
  | step _ hs ih => exact .step ih hs

theorem reach_len {cuid : Nat → String} {n : Nat} {net : Net} (hr : Reach cuid n net) : net.nodes.length = n := by
  obtain ⟨ap, I⟩ := inv_reach hr
  exact I.len

/-- every node of a reachable state holds a document -/
theorem reach_holds {cuid : Nat → String} {n : Nat} {net : Net} (hr : Reach cuid n net) {i : Nat} (hi : i < n) :
    ∃ d, Holds net i d := by
  obtain ⟨ap, I⟩ := inv_reach hr
  have hlt : i < net.nodes.length := by rw [I.len]; exact hi
  have h := List.getElem?_eq_getElem hlt
  exact ⟨_, _, h, (I.node i _ h).st⟩

theorem holds_lt {cuid : Nat → String} {n : Nat} {net : Net} (hr : Reach cuid n net) {i : Nat} {d : Doc}
    (h : Holds net i d) : i < n := by
  obtain ⟨nd, h1, _⟩ := h
  have := (List.getElem?_eq_some_iff.mp h1).1
  rw [reach_len hr] at this
  exact this

/-- along ANY continuation, on every node: slots are only added, deleted slots stay deleted -/
theorem reaches_mono {cuid : Nat → String} {n : Nat} {net net' : Net} (hr : Reach cuid n net) (h : Reaches net net')
    (i : Nat) (d : Doc) (h1 : Holds net i d) :
    ∃ d', Holds net' i d' ∧ (∀ p, (slotIds d p).Sublist (slotIds d' p)) ∧
      ∀ p o, slotDead d p o → slotDead d' p o := by
  induction h with
  | refl => exact ⟨d, h1, fun p => List.Sublist.refl _, fun p o h => h⟩
  | step hab hs ih =>
    obtain ⟨d1, hd1, hsub, hdead⟩ := ih
    have hrb := reach_of_reaches hr hab
    obtain ⟨d2, hd2⟩ := reach_holds (.step hrb hs) (holds_lt hr h1)
    refine ⟨d2, hd2, ?_, ?_⟩
    · intro p
      exact (hsub p).trans (dnet_step_only_adds_slots hrb hs i d1 d2 p hd1 hd2)
    · intro p o h
      exact dnet_step_keeps_deleted_slots hrb hs i d1 d2 p o hd1 hd2 (hdead p o h)

theorem sum_map_set {α : Type} (f : α → Nat) : ∀ (l : List α) (i : Nat) (a b : α), l[i]? = some a → f b + 1 = f a →
    ((l.set i b).map f).sum + 1 = (l.map f).sum
  | [], i, a, b, h, _ => by simp at h
  | x :: xs, 0, a, b, h, hf => by
    simp only [List.getElem?_cons_zero, Option.some.injEq] at h
    subst h
    simp only [List.set_cons_zero, List.map_cons, List.sum_cons]
    omega
  | x :: xs, i + 1, a, b, h, hf => by
    simp only [List.getElem?_cons_succ] at h
    have := sum_map_set f xs i a b h hf
    simp only [List.set_cons_succ, List.map_cons, List.sum_cons]
    omega

theorem sum_map_pos {α : Type} (f : α → Nat) : ∀ (l : List α), (l.map f).sum ≠ 0 → ∃ (i : Nat) (a : α), l[i]? = some a ∧ f a ≠ 0
  | [], h => by simp at h
  | x :: xs, h => by
    by_cases hx : f x = 0
    · have : (xs.map f).sum ≠ 0 := by
        simp only [List.map_cons, List.sum_cons, hx, Nat.zero_add] at h
        exact h
      obtain ⟨i, a, h1, h2⟩ := sum_map_pos f xs this
      exact ⟨i + 1, a, by simpa using h1, h2⟩
    · exact ⟨0, x, rfl, hx⟩

theorem sum_map_zero {α : Type} (f : α → Nat) : ∀ (l : List α), (l.map f).sum = 0 → ∀ a ∈ l, f a = 0
  | [], _, a, ha => by cases ha
  | x :: xs, h, a, ha => by
    simp only [List.map_cons, List.sum_cons] at h
    rcases List.mem_cons.mp ha with rfl | ha
    · omega
    · exact sum_map_zero f xs (by omega) a ha

/-- how many issued operations are not yet in the log / how many log entries are not yet consumed -/
def pushDebt (net : Net) : Nat := (net.nodes.map fun nd => nd.r.buffer.length - nd.pushed).sum
def pullDebt (net : Net) : Nat := (net.nodes.map fun nd => net.log.length - nd.pulled).sum

theorem can_push_all {cuid : Nat → String} {n : Nat} : ∀ (m : Nat) (net : Net), Reach cuid n net → pushDebt net = m →
    ∃ net', Reaches net net' ∧ ∀ nd ∈ net'.nodes, nd.pushed = nd.r.buffer.length
  | 0, net, hr, hm => by
    refine ⟨net, .refl net, ?_⟩
    intro nd hnd
    obtain ⟨ap, I⟩ := inv_reach hr
    obtain ⟨i, hi⟩ := List.mem_iff_getElem?.mp hnd
    have N := I.node i nd hi
    have := sum_map_zero _ _ hm nd hnd
    have := N.pushed_le
    omega
  | m + 1, net, hr, hm => by
    obtain ⟨i, nd, hi, hpos⟩ := sum_map_pos _ _ (by unfold pushDebt at hm; rw [hm]; omega)
    have hlt : nd.pushed < nd.r.buffer.length := by omega
    have ho : nd.r.buffer[nd.pushed]? = some nd.r.buffer[nd.pushed] := List.getElem?_eq_getElem hlt
    have hs := Step.push net i nd _ hi ho
    have hm' : pushDebt ⟨net.nodes.set i { nd with pushed := nd.pushed + 1 }, net.log ++ [(i, nd.r.buffer[nd.pushed])]⟩ = m := by
      have := sum_map_set (fun nd : Node => nd.r.buffer.length - nd.pushed) net.nodes i nd
        { nd with pushed := nd.pushed + 1 } hi (by simp only; omega)
      unfold pushDebt at hm ⊢
      simp only
      omega
    obtain ⟨net', h1, h2⟩ := can_push_all m _ (.step hr hs) hm'
    exact ⟨net', (Reaches.single hs).trans h1, h2⟩

theorem can_pull_all {cuid : Nat → String} {n : Nat} : ∀ (m : Nat) (net : Net), Reach cuid n net →
    (∀ nd ∈ net.nodes, nd.pushed = nd.r.buffer.length) → pullDebt net = m →
    ∃ net', Reaches net net' ∧ Quiescent net'
  | 0, net, hr, hp, hm => by
    refine ⟨net, .refl net, ?_⟩
    intro nd hnd
    obtain ⟨ap, I⟩ := inv_reach hr
    obtain ⟨i, hi⟩ := List.mem_iff_getElem?.mp hnd
    have N := I.node i nd hi
    have := sum_map_zero _ _ hm nd hnd
    have := N.pulled_le
    exact ⟨hp nd hnd, by omega⟩
  | m + 1, net, hr, hp, hm => by
    obtain ⟨i, nd, hi, hpos⟩ := sum_map_pos _ _ (by unfold pullDebt at hm; rw [hm]; omega)
    have hlt : nd.pulled < net.log.length := by omega
    have hl : net.log[nd.pulled]? = some (net.log[nd.pulled].1, net.log[nd.pulled].2) := List.getElem?_eq_getElem hlt
    have hs := Step.pull net i nd _ _ hi hl
    generalize net.log[nd.pulled].1 = a at hs
    generalize net.log[nd.pulled].2 = o at hs
    have hm' : pullDebt ⟨net.nodes.set i (Node.mk (if a = i then nd.r else (nd.r.execRemoteBase o).1) nd.pushed (nd.pulled + 1)), net.log⟩ = m := by
      have := sum_map_set (fun nd : Node => net.log.length - nd.pulled) net.nodes i nd
        (Node.mk (if a = i then nd.r else (nd.r.execRemoteBase o).1) nd.pushed (nd.pulled + 1)) hi
        (by simp only; omega)
      unfold pullDebt at hm ⊢
      simp only
      omega
    have hp' : ∀ nd', nd' ∈ (net.nodes.set i (Node.mk (if a = i then nd.r else (nd.r.execRemoteBase o).1) nd.pushed (nd.pulled + 1))) → nd'.pushed = nd'.r.buffer.length := by
      intro nd' hnd'
      rcases List.mem_or_eq_of_mem_set hnd' with h | rfl
      · exact hp nd' h
      · simp only
        have := hp nd (List.mem_of_getElem? hi)
        by_cases ha : a = i
        · rw [if_pos ha]; exact this
        · rw [if_neg ha, execRemoteBase_buffer]; exact this
    obtain ⟨net', h1, h2⟩ := can_pull_all m _ (.step hr hs) hp' hm'
    exact ⟨net', (Reaches.single hs).trans h1, h2⟩

/-- every reachable state can be continued to a quiescent one (push every buffer, then pull the whole log everywhere) -/
theorem dnet_can_quiesce {cuid : Nat → String} {n : Nat} {net : Net} :
    Reach cuid n net → ∃ net', Reaches net net' ∧ Quiescent net' := by
  intro hr
  obtain ⟨net1, h1, hp⟩ := can_push_all (pushDebt net) net hr rfl
  obtain ⟨net2, h2, hq⟩ := can_pull_all (pullDebt net1) net1 (reach_of_reaches hr h1) hp rfl
  exact ⟨net2, h1.trans h2, hq⟩


/-! ## 5. the order theorem -/

/-- `ASim` documents have the same slot order in every array -/
theorem asim_slotIds {a b : Doc} (h : ASim a b) (p : Ts) : slotIds a p = slotIds b p := by
  rw [slotIds_abs, slotIds_abs]
  have hs := h.shape p
  unfold aEnts
  have hna : ∀ (x : Option (Option Ts × Shape)), (∀ par E, x ≠ some (par, .arr E)) →
      (match x with | some (_, .arr E) => E | _ => ([] : List Ent)) = [] := by
    intro x hx
    cases x with
    | none => rfl
    | some y =>
      obtain ⟨par, sh⟩ := y
      cases sh with
      | elem v => rfl
      | obj => rfl
      | arr E => exact absurd rfl (hx par E)
  by_cases hA : ∃ par E, (abs a).shape p = some (par, .arr E)
  · obtain ⟨par, EA, hA⟩ := hA
    obtain ⟨EB, hB, he⟩ := cshape_arr_inv hs hA
    rw [hA, hB]
    simp only
    have := congrArg (List.map (fun e : Ent => e.1)) he
    simpa only [List.map_map, Function.comp_def, erase] using this
  · have hA' : ∀ par E, (abs a).shape p ≠ some (par, .arr E) := fun par E e => hA ⟨par, E, e⟩
    have hB := cshape_not_arr hs hA'
    rw [hB]

/-- no duplicates: the slot identifiers of every array on every node are pairwise distinct -/
theorem dnet_slots_nodup {cuid : Nat → String} {n : Nat} {net : Net} :
    Reach cuid n net → ∀ (i : Nat) (d : Doc) (p : Ts), Holds net i d → (slotIds d p).Nodup := by
  intro hr i d p ⟨nd, hi, hs⟩
  obtain ⟨applied, h⟩ := net_nodes_applied net hr
  obtain ⟨⟨d0, hs0, I, _⟩, _⟩ := h i nd hi
  rw [hs] at hs0
  injection hs0 with hs0
  subst hs0
  unfold slotIds slotsOf
  cases hp : d.findArr p with
  | none => simp
  | some x =>
    obtain ⟨pn, sl, sz⟩ := x
    obtain ⟨h1, h2⟩ := findArr_some_iff.mp hp
    have := I.ordnd p pn h1
    rw [h2] at this
    exact this

theorem pair_sublist_antisymm {α : Type} {x y : α} : ∀ (L : List α), L.Nodup → [x, y].Sublist L → [y, x].Sublist L → False
  | [], _, h, _ => by cases h
  | a :: L, hnd, h1, h2 => by
    obtain ⟨ha, hnd'⟩ := List.nodup_cons.mp hnd
    have mx : x ∈ [x, y] := by simp
    have my : y ∈ [x, y] := by simp
    have mx' : x ∈ [y, x] := by simp
    have my' : y ∈ [y, x] := by simp
    rcases List.sublist_cons_iff.mp h1 with h1' | ⟨r, e1, h1'⟩
    · rcases List.sublist_cons_iff.mp h2 with h2' | ⟨r', e2, h2'⟩
      · exact pair_sublist_antisymm L hnd' h1' h2'
      · injection e2 with e2 _
        subst e2
        exact ha (h1'.subset my)
    · injection e1 with e1 e1'
      subst e1 e1'
      rcases List.sublist_cons_iff.mp h2 with h2' | ⟨r', e2, h2'⟩
      · exact ha (h2'.subset mx')
      · injection e2 with e2 _
        subst e2
        exact ha (h1'.subset (by simp))

theorem pair_sublist_total {α : Type} {x y : α} (hne : x ≠ y) : ∀ (l : List α), x ∈ l → y ∈ l →
    [x, y].Sublist l ∨ [y, x].Sublist l
  | [], hx, _ => by cases hx
  | a :: l, hx, hy => by
    rcases List.mem_cons.mp hx with ex | hx'
    · rcases List.mem_cons.mp hy with ey | hy'
      · exact absurd (ex.trans ey.symm) hne
      · subst ex
        exact Or.inl ((List.singleton_sublist.mpr hy').cons_cons x)
    · rcases List.mem_cons.mp hy with ey | hy'
      · subst ey
        exact Or.inr ((List.singleton_sublist.mpr hx').cons_cons y)
      · rcases pair_sublist_total hne l hx' hy' with h | h
        · exact Or.inl (h.cons a)
        · exact Or.inr (h.cons a)

/-- a sublist of a duplicate-free list orders its elements as the list does -/
theorem pair_sublist_of_super {α : Type} {x y : α} {l L : List α} (hl : l.Sublist L) (hnd : L.Nodup) (hx : x ∈ l)
    (hy : y ∈ l) (h : [x, y].Sublist L) : [x, y].Sublist l := by
  by_cases hne : x = y
  · subst hne
    have := h.nodup hnd
    simp at this
  · rcases pair_sublist_total hne l hx hy with h' | h'
    · exact h'
    · exact absurd (h'.trans hl) (fun h'' => pair_sublist_antisymm L hnd h h'')

/-- THE order theorem: at EVERY moment, on ANY two nodes, for ANY array node `p`, any two slots present on both appear in
    the same relative order -/
theorem dnet_same_relative_order_everywhere {cuid : Nat → String} {n : Nat} {net : Net} :
    Reach cuid n net → ∀ (i j : Nat) (di dj : Doc) (p x y : Ts), Holds net i di → Holds net j dj →
    x ∈ slotIds di p → y ∈ slotIds di p → x ∈ slotIds dj p → y ∈ slotIds dj p →
    ([x, y].Sublist (slotIds di p) ↔ [x, y].Sublist (slotIds dj p)) := by
  intro hr i j di dj p x y hi hj xi yi xj yj
  obtain ⟨net', hrs, hq⟩ := dnet_can_quiesce hr
  have hr' := reach_of_reaches hr hrs
  obtain ⟨di', hi', si, _⟩ := reaches_mono hr hrs i di hi
  obtain ⟨dj', hj', sj, _⟩ := reaches_mono hr hrs j dj hj
  obtain ⟨ni, hni, hsi⟩ := hi'
  obtain ⟨nj, hnj, hsj⟩ := hj'
  obtain ⟨hli, hei⟩ := List.getElem?_eq_some_iff.mp hni
  obtain ⟨hlj, hej⟩ := List.getElem?_eq_some_iff.mp hnj
  have hconv := (net_quiescent_converged net' hr' hq i j hli hlj di' dj' (by rw [hei]; exact hsi)
    (by rw [hej]; exact hsj)).1
  have heq := asim_slotIds hconv p
  have hnd := dnet_slots_nodup hr' i di' p ⟨ni, hni, hsi⟩
  constructor
  · intro h
    have h1 : [x, y].Sublist (slotIds dj' p) := heq ▸ h.trans (si p)
    exact pair_sublist_of_super (sj p) (heq ▸ hnd) xj yj h1
  · intro h
    have h1 : [x, y].Sublist (slotIds di' p) := heq ▸ h.trans (sj p)
    exact pair_sublist_of_super (si p) hnd xi yi h1


/-! ## 6. non-vacuity: the run `DNet.Ex`, in the NON-quiescent state `Ex.midNet` (node 2 has not yet received node 1's insert
    into node 0's array, nor node 0's delete of its head) -/
namespace Ex

def m2 : Doc := docOf (midNet.nodes[2]'(by rw [len_mid]; decide)).r
/-- the two slots node 0 created with its array -/
def sA : Ts := ⟨0, 1, "a", 1⟩
def sB : Ts := ⟨0, 1, "a", 2⟩

theorem holds_m0 : Holds midNet 0 m0 := ⟨_, List.getElem?_eq_getElem (by rw [len_mid]; decide), rfl⟩
theorem holds_m2 : Holds midNet 2 m2 := ⟨_, List.getElem?_eq_getElem (by rw [len_mid]; decide), rfl⟩

/-- the state is not quiescent and the two nodes hold DIFFERENT arrays: four slots (the head deleted) on node 0, two on node 2 -/
example : ¬ Quiescent midNet := by
  unfold Quiescent
  decide
example : slotIds m0 arrId = [sA, ⟨0, 3, "b", 0⟩, ⟨0, 3, "b", 1⟩, sB] ∧ slotIds m2 arrId = [sA, sB] := by decide
example : slotIds m0 arrId ≠ slotIds m2 arrId := by decide

/-- both slots are present on both nodes … -/
theorem sA_m0 : sA ∈ slotIds m0 arrId := by decide
theorem sB_m0 : sB ∈ slotIds m0 arrId := by decide
theorem sA_m2 : sA ∈ slotIds m2 arrId := by decide
theorem sB_m2 : sB ∈ slotIds m2 arrId := by decide

/-- … `dnet_same_relative_order_everywhere` instantiated -/
example : [sA, sB].Sublist (slotIds m0 arrId) ↔ [sA, sB].Sublist (slotIds m2 arrId) :=
  dnet_same_relative_order_everywhere reach_mid 0 2 m0 m2 arrId sA sB holds_m0 holds_m2 sA_m0 sB_m0 sA_m2 sB_m2

/-- … and both sides are true (so neither order is `sB` before `sA`) -/
example : [sA, sB].Sublist (slotIds m2 arrId) ∧ [sA, sB].Sublist (slotIds m0 arrId) := by
  have h : [sA, sB].Sublist (slotIds m2 arrId) := by
    have e : slotIds m2 arrId = [sA, sB] := by decide
    rw [e]
  exact ⟨h, (dnet_same_relative_order_everywhere reach_mid 0 2 m0 m2 arrId sA sB holds_m0 holds_m2 sA_m0 sB_m0 sA_m2
    sB_m2).mpr h⟩

/-- `dnet_slots_nodup` instantiated -/
example : (slotIds m0 arrId).Nodup := dnet_slots_nodup reach_mid 0 m0 arrId holds_m0

/-- the head `sA` is deleted on node 0 and still live on node 2 -/
theorem slots_m0 : slotsOf m0 arrId = [(sA, sA), (⟨0, 3, "b", 0⟩, ⟨0, 3, "b", 0⟩), (⟨0, 3, "b", 1⟩, ⟨0, 3, "b", 1⟩), (sB, sB)] := by
  decide
theorem dead_m0 : slotDead m0 arrId sA := ⟨(sA, sA), by rw [slots_m0]; simp, rfl, by decide⟩
example : ¬ slotDead m2 arrId sA := by
  rintro ⟨s, hs, h1, h2⟩
  have e : slotsOf m2 arrId = [(sA, sA), (sB, sB)] := by decide
  rw [e] at hs
  simp only [List.mem_cons, List.mem_nil_iff, or_false] at hs
  rcases hs with rfl | rfl
  · exact absurd h2 (by decide)
  · exact absurd h1 (by decide)

/-- `dnet_can_quiesce` + `reaches_mono` instantiated: `midNet` can be continued to a quiescent state, in which node 0 still
    has its four slots in this order and `sA` still deleted -/
example : ∃ net' d', Reaches midNet net' ∧ Quiescent net' ∧ Holds net' 0 d' ∧
    (slotIds m0 arrId).Sublist (slotIds d' arrId) ∧ slotDead d' arrId sA := by
  obtain ⟨net', hrs, hq⟩ := dnet_can_quiesce reach_mid
  obtain ⟨d', hd', hsub, hdead⟩ := reaches_mono reach_mid hrs 0 m0 holds_m0
  exact ⟨net', d', hrs, hq, hd', hsub arrId, hdead arrId sA dead_m0⟩

end Ex

end Orda.DNet

