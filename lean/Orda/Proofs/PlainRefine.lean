/-
C03: on a single replica with no remote operations, every public call of the counter, map and list
datatypes behaves like the obvious plain structure (`Spec/Plain`).
-/
import Orda.Spec.Plain
import Orda.Proofs.HashCmp
namespace Orda

/-- everything stored in the state was stamped by an operation of this era with a clock value not
    beyond the replica's current one (so the next local operation is newer than all of it) -/
def stampOk (id : OpId) (t : Ts) : Prop := t.era = id.era ∧ t.lamport ≤ id.lamport

/-- single-replica invariant: stored sizes are the live counts, keys are unique, stamps are old -/
def LocalInv (r : Replica) : Prop :=
  match r.state with
  | .counter v => -2147483648 ≤ v ∧ v < 2147483648
  | .map m => (m.entries.map (·.1)).Nodup ∧
              m.size = ((m.entries.filter (fun e => e.2.v.isSome)).length : Int) ∧
              ∀ e ∈ m.entries, stampOk r.opId e.2.t
  | .list l => l.size = (l.live.length : Int) ∧ ∀ n ∈ l.nodes, stampOk r.opId n.o ∧ stampOk r.opId n.t
  | .doc _ => True

def isDocState : DState → Bool | .doc _ => true | _ => false

/-! ### association lists -/

theorem alFind_eq_none_of_not_mem {α : Type} (k : String) :
    ∀ l : List (String × α), k ∉ l.map (·.1) → alFind k l = none := by
  intro l
  induction l with
  | nil => intro _; rfl
  | cons x xs ih =>
    intro h
    obtain ⟨k', e⟩ := x
    simp only [List.map_cons, List.mem_cons, not_or] at h
    simp only [alFind]
    rw [if_neg (fun hh => h.1 hh.symm)]
    exact ih h.2

theorem alFind_alSet_pr {α : Type} (k k' : String) (e : α) :
    ∀ l : List (String × α), alFind k' (alSet k e l) = if k' = k then some e else alFind k' l := by
  intro l
  induction l with
  | nil =>
    simp only [alSet, alFind]
    by_cases h : k = k' <;> simp [h, eq_comm]
  | cons x xs ih =>
    obtain ⟨k0, e0⟩ := x
    simp only [alSet]
    by_cases h0 : k0 = k
    · subst h0
      simp only [if_true, alFind]
      by_cases h : k0 = k' <;> simp [h, eq_comm]
      intro hh; exact absurd hh.symm h
    · simp only [if_neg h0, alFind, ih]
      by_cases h : k0 = k'
      · subst h; simp [h0]
      · simp [h]

theorem mem_alSet {α : Type} (k : String) (e : α) :
    ∀ (l : List (String × α)) (x : String × α), x ∈ alSet k e l → x = (k, e) ∨ x ∈ l := by
  intro l
  induction l with
  | nil => intro x h; simp [alSet] at h; exact Or.inl h
  | cons y ys ih =>
    intro x h
    obtain ⟨k0, e0⟩ := y
    simp only [alSet] at h
    split at h
    · rcases List.mem_cons.mp h with h | h
      · exact Or.inl h
      · exact Or.inr (List.mem_cons_of_mem _ h)
    · rcases List.mem_cons.mp h with h | h
      · exact Or.inr (h ▸ List.mem_cons_self)
      · rcases ih x h with h | h
        · exact Or.inl h
        · exact Or.inr (List.mem_cons_of_mem _ h)

theorem keys_alSet_mem {α : Type} (k : String) (e : α) :
    ∀ (l : List (String × α)) (x : String), x ∈ (alSet k e l).map (·.1) → x = k ∨ x ∈ l.map (·.1) := by
  intro l x h
  obtain ⟨p, hp, rfl⟩ := List.mem_map.mp h
  rcases mem_alSet k e l p hp with h | h
  · exact Or.inl (by rw [h])
  · exact Or.inr (List.mem_map.mpr ⟨p, h, rfl⟩)

theorem alSet_keys_nodup {α : Type} (k : String) (e : α) :
    ∀ l : List (String × α), (l.map (·.1)).Nodup → ((alSet k e l).map (·.1)).Nodup := by
  intro l
  induction l with
  | nil => intro _; simp [alSet]
  | cons y ys ih =>
    intro h
    obtain ⟨k0, e0⟩ := y
    simp only [List.map_cons, List.nodup_cons] at h
    simp only [alSet]
    split
    · next hk => subst hk; simpa using h
    · next hk =>
      simp only [List.map_cons, List.nodup_cons]
      refine ⟨fun hm => ?_, ih h.2⟩
      rcases keys_alSet_mem k e ys k0 hm with h' | h'
      · exact hk h'
      · exact h.1 h'

theorem alSet_length {α : Type} (k : String) (e : α) :
    ∀ l : List (String × α), (alSet k e l).length = if (alFind k l).isSome then l.length else l.length + 1 := by
  intro l
  induction l with
  | nil => simp [alSet, alFind]
  | cons y ys ih =>
    obtain ⟨k0, e0⟩ := y
    simp only [alSet, alFind]
    split
    · simp
    · simp only [List.length_cons, ih]
      split <;> rfl

theorem alFind_filter_ne {α : Type} (k k' : String) :
    ∀ l : List (String × α), alFind k' (l.filter (fun p => p.1 ≠ k)) = if k' = k then none else alFind k' l := by
  intro l
  induction l with
  | nil => simp [alFind]
  | cons y ys ih =>
    obtain ⟨k0, e0⟩ := y
    by_cases h0 : k0 = k
    · subst h0
      rw [List.filter_cons, if_neg (by simp), ih]
      by_cases h : k' = k0
      · simp [h]
      · have h' : ¬ k0 = k' := fun hh => h hh.symm
        simp [h, h', alFind]
    · rw [List.filter_cons, if_pos (by simpa using h0)]
      simp only [alFind, ih]
      by_cases h : k0 = k'
      · subst h; simp [h0]
      · simp [h]

theorem filter_ne_length {α : Type} (k : String) :
    ∀ (l : List (String × α)) (v : α), (l.map (·.1)).Nodup → alFind k l = some v →
      (l.filter (fun p => p.1 ≠ k)).length + 1 = l.length := by
  intro l
  induction l with
  | nil => intro v _ h; simp [alFind] at h
  | cons y ys ih =>
    intro v hn hf
    obtain ⟨k0, e0⟩ := y
    simp only [List.map_cons, List.nodup_cons] at hn
    by_cases h0 : k0 = k
    · subst h0
      have : ys.filter (fun p => p.1 ≠ k0) = ys := by
        apply List.filter_eq_self.mpr
        intro p hp
        have : p.1 ≠ k0 := fun hh => hn.1 (hh ▸ List.mem_map.mpr ⟨p, hp, rfl⟩)
        simpa using this
      rw [List.filter_cons, if_neg (by simp), this]
      rfl
    · simp only [alFind, if_neg h0] at hf
      have := ih v hn.2 hf
      rw [List.filter_cons, if_pos (by simpa using h0)]
      simp only [List.length_cons]
      omega

/-! ### the live projection of a map -/

def liveE (es : List (String × MEntry)) : List (String × JVal) :=
  es.filterMap (fun (k, e) => e.v.map (fun v => (k, v)))

theorem live_eq_liveE (m : LwwMap) : m.live = liveE m.entries := rfl

theorem liveE_cons (k : String) (e : MEntry) (es : List (String × MEntry)) :
    liveE ((k, e) :: es) = match e.v with | some v => (k, v) :: liveE es | none => liveE es := by
  unfold liveE
  cases h : e.v <;> simp [h]

theorem liveE_keys_sublist : ∀ es : List (String × MEntry),
    ((liveE es).map (·.1)).Sublist (es.map (·.1)) := by
  intro es
  induction es with
  | nil => simp [liveE]
  | cons y ys ih =>
    obtain ⟨k0, e0⟩ := y
    rw [liveE_cons]
    cases h : e0.v with
    | none => simpa using List.Sublist.cons _ ih
    | some v => simpa using ih

theorem liveE_keys_nodup (es : List (String × MEntry)) (h : (es.map (·.1)).Nodup) :
    ((liveE es).map (·.1)).Nodup := (liveE_keys_sublist es).nodup h

theorem alFind_liveE (k : String) : ∀ es : List (String × MEntry), (es.map (·.1)).Nodup →
    alFind k (liveE es) = (alFind k es).bind (·.v) := by
  intro es
  induction es with
  | nil => intro _; rfl
  | cons y ys ih =>
    intro hn
    obtain ⟨k0, e0⟩ := y
    simp only [List.map_cons, List.nodup_cons] at hn
    rw [liveE_cons]
    by_cases h0 : k0 = k
    · subst h0
      cases h : e0.v with
      | none =>
        simp only [alFind, if_true, Option.bind_some, h]
        apply alFind_eq_none_of_not_mem
        exact fun hm => hn.1 ((liveE_keys_sublist ys).subset hm)
      | some v => simp [alFind, h]
    · cases h : e0.v with
      | none => simp only [alFind, if_neg h0]; exact ih hn.2
      | some v => simp only [alFind, if_neg h0]; exact ih hn.2

theorem liveE_length : ∀ es : List (String × MEntry),
    (liveE es).length = (es.filter (fun e => e.2.v.isSome)).length := by
  intro es
  induction es with
  | nil => rfl
  | cons y ys ih =>
    obtain ⟨k0, e0⟩ := y
    rw [liveE_cons]
    cases h : e0.v <;> simp [h, ih]

def liveCount (es : List (String × MEntry)) : Nat := (es.filter (fun e => e.2.v.isSome)).length

theorem liveCount_alSet (k : String) (e : MEntry) : ∀ es : List (String × MEntry),
    liveCount (alSet k e es) + (match alFind k es with | some old => if old.v.isSome then 1 else 0 | none => 0)
      = liveCount es + (if e.v.isSome then 1 else 0) := by
  intro es
  induction es with
  | nil => simp only [alSet, alFind, liveCount, List.filter_cons]; split <;> simp
  | cons y ys ih =>
    obtain ⟨k0, e0⟩ := y
    simp only [alSet, alFind]
    by_cases h0 : k0 = k
    · simp only [if_pos h0, liveCount, List.filter_cons]
      split <;> split <;> simp_all <;> omega
    · simp only [if_neg h0]
      simp only [liveCount, List.filter_cons] at ih ⊢
      split <;> simp_all <;> omega

/-! ### the live projection of a list -/

def lv (ns : List RNode) : List JVal := ns.filterMap (·.v)

theorem live_eq_lv (l : Rga) : l.live = lv l.nodes := rfl

theorem lv_cons_none (x : RNode) (xs : List RNode) (h : x.v = none) : lv (x :: xs) = lv xs := by
  simp [lv, h]

theorem lv_cons_some (x : RNode) (xs : List RNode) (v : JVal) (h : x.v = some v) :
    lv (x :: xs) = v :: lv xs := by
  simp [lv, h]

theorem lv_append (a b : List RNode) : lv (a ++ b) = lv a ++ lv b := List.filterMap_append

theorem insertAtLive_spec (ns : List RNode) : ∀ (nodes : List RNode) (pos : Nat), pos ≤ (lv nodes).length →
    ∃ l, insertAtLive RNode.isLive ns pos nodes = some l ∧
      lv l = (lv nodes).take pos ++ lv ns ++ (lv nodes).drop pos ∧ ∀ n ∈ l, n ∈ ns ∨ n ∈ nodes := by
  intro nodes
  induction nodes with
  | nil =>
    intro pos h
    have : pos = 0 := by simpa [lv] using h
    subst this
    exact ⟨ns ++ [], by simp [insertAtLive], by simp [lv], by intro n hn; simpa using hn⟩
  | cons x xs ih =>
    intro pos h
    cases pos with
    | zero =>
      exact ⟨ns ++ x :: xs, by simp [insertAtLive], by simp [lv_append], fun n hn => List.mem_append.mp hn⟩
    | succ p =>
      cases hv : x.v with
      | none =>
        have hl : x.isLive = false := by simp [RNode.isLive, hv]
        have hlv := lv_cons_none x xs hv
        rw [hlv] at h ⊢
        obtain ⟨l, h1, h2, h3⟩ := ih (p + 1) h
        refine ⟨x :: l, by simp [insertAtLive, hl, h1], by rw [lv_cons_none x l hv]; exact h2, ?_⟩
        intro n hn
        rcases List.mem_cons.mp hn with rfl | hn
        · exact Or.inr List.mem_cons_self
        · rcases h3 n hn with h' | h'
          · exact Or.inl h'
          · exact Or.inr (List.mem_cons_of_mem _ h')
      | some v =>
        have hl : x.isLive = true := by simp [RNode.isLive, hv]
        have hlv := lv_cons_some x xs v hv
        rw [hlv] at h ⊢
        by_cases hp : p = 0
        · subst hp
          refine ⟨x :: (ns ++ xs), by simp [insertAtLive, hl], ?_, ?_⟩
          · rw [lv_cons_some x _ v hv, lv_append]; simp
          · intro n hn
            rcases List.mem_cons.mp hn with rfl | hn
            · exact Or.inr List.mem_cons_self
            · rcases List.mem_append.mp hn with h' | h'
              · exact Or.inl h'
              · exact Or.inr (List.mem_cons_of_mem _ h')
        · obtain ⟨l, h1, h2, h3⟩ := ih p (by simpa using h)
          refine ⟨x :: l, by simp [insertAtLive, hl, hp, h1], ?_, ?_⟩
          · rw [lv_cons_some x l v hv, h2]; simp
          · intro n hn
            rcases List.mem_cons.mp hn with rfl | hn
            · exact Or.inr List.mem_cons_self
            · rcases h3 n hn with h' | h'
              · exact Or.inl h'
              · exact Or.inr (List.mem_cons_of_mem _ h')

theorem nthLive_spec : ∀ (nodes : List RNode) (p : Nat), p < (lv nodes).length →
    ∃ x, nthLive RNode.isLive p nodes = some x := by
  intro nodes
  induction nodes with
  | nil => intro p h; simp [lv] at h
  | cons x xs ih =>
    intro p h
    cases hv : x.v with
    | none =>
      have hl : x.isLive = false := by simp [RNode.isLive, hv]
      rw [lv_cons_none x xs hv] at h
      obtain ⟨y, hy⟩ := ih p h
      exact ⟨y, by simp [nthLive, hl, hy]⟩
    | some v =>
      have hl : x.isLive = true := by simp [RNode.isLive, hv]
      rw [lv_cons_some x xs v hv] at h
      by_cases hp : p = 0
      · exact ⟨x, by simp [nthLive, hl, hp]⟩
      · obtain ⟨y, hy⟩ := ih (p - 1) (by simp at h; omega)
        exact ⟨y, by simp [nthLive, hl, hp, hy]⟩

theorem mapLiveFrom_spec (f : RNode → Ts → RNode) (hf : ∀ x t, (f x t).v = none) (Q : RNode → Prop) :
    ∀ (nodes : List RNode) (p : Nat) (ts : List Ts), p + ts.length ≤ (lv nodes).length →
      (∀ n ∈ nodes, Q n) → (∀ x t, Q x → t ∈ ts → Q (f x t)) →
      ∃ l tc, mapLiveFrom f p ts nodes = some (l, tc) ∧
        lv l = (lv nodes).take p ++ (lv nodes).drop (p + ts.length) ∧
        lv tc = ((lv nodes).drop p).take ts.length ∧ ∀ n ∈ l, Q n := by
  intro nodes
  induction nodes with
  | nil =>
    intro p ts h hq _
    cases ts with
    | nil => exact ⟨[], [], by simp [mapLiveFrom], by simp [lv], by simp [lv], hq⟩
    | cons t ts => simp [lv] at h
  | cons x xs ih =>
    intro p ts h hq hfq
    cases ts with
    | nil => exact ⟨x :: xs, [], by simp [mapLiveFrom], by simp, by simp [lv], hq⟩
    | cons t ts =>
      have hqx : Q x := hq x List.mem_cons_self
      have hqxs : ∀ n ∈ xs, Q n := fun n hn => hq n (List.mem_cons_of_mem _ hn)
      cases hv : x.v with
      | none =>
        have hl : x.isLive = false := by simp [RNode.isLive, hv]
        rw [lv_cons_none x xs hv] at h ⊢
        obtain ⟨l, tc, h1, h2, h3, h4⟩ := ih p (t :: ts) h hqxs hfq
        refine ⟨x :: l, tc, by simp [mapLiveFrom, hl, h1], by rw [lv_cons_none x l hv]; exact h2, h3, ?_⟩
        intro n hn
        rcases List.mem_cons.mp hn with rfl | hn
        · exact hqx
        · exact h4 n hn
      | some v =>
        have hl : x.isLive = true := by simp [RNode.isLive, hv]
        rw [lv_cons_some x xs v hv] at h ⊢
        by_cases hp : p = 0
        · subst hp
          obtain ⟨l, tc, h1, h2, h3, h4⟩ := ih 0 ts (by simp at h ⊢; omega) hqxs
            (fun y t' hy ht' => hfq y t' hy (List.mem_cons_of_mem _ ht'))
          refine ⟨f x t :: l, x :: tc, by simp [mapLiveFrom, hl, h1], ?_, ?_, ?_⟩
          · rw [lv_cons_none _ l (hf x t), h2]; simp
          · rw [lv_cons_some x tc v hv, h3]; simp
          · intro n hn
            rcases List.mem_cons.mp hn with rfl | hn
            · exact hfq x t hqx List.mem_cons_self
            · exact h4 n hn
        · obtain ⟨q, rfl⟩ : ∃ q, p = q + 1 := ⟨p - 1, by omega⟩
          obtain ⟨l, tc, h1, h2, h3, h4⟩ := ih q (t :: ts) (by simp at h ⊢; omega) hqxs hfq
          refine ⟨x :: l, tc, by simp [mapLiveFrom, hl, h1], ?_, ?_, ?_⟩
          · rw [lv_cons_some x l v hv, h2]
            have : q + 1 + (t :: ts).length = (q + (t :: ts).length) + 1 := by omega
            rw [this]; simp
          · rw [h3]; simp
          · intro n hn
            rcases List.mem_cons.mp hn with rfl | hn
            · exact hqx
            · exact h4 n hn

theorem updGo_spec (Q : RNode → Prop) :
    ∀ (nodes : List RNode) (p : Nat) (st : List (Ts × JVal)), p + st.length ≤ (lv nodes).length →
      (∀ n ∈ nodes, Q n) → (∀ x t v, Q x → (t, v) ∈ st → Q { x with v := some v, t := t }) →
      ∃ l tc, Rga.updateLocal.go p st nodes = some (l, tc) ∧
        lv l = (lv nodes).take p ++ st.map (·.2) ++ (lv nodes).drop (p + st.length) ∧
        lv tc = ((lv nodes).drop p).take st.length ∧ ∀ n ∈ l, Q n := by
  intro nodes
  induction nodes with
  | nil =>
    intro p st h hq _
    cases st with
    | nil => exact ⟨[], [], by simp [Rga.updateLocal.go], by simp [lv], by simp [lv], hq⟩
    | cons t ts => simp [lv] at h
  | cons x xs ih =>
    intro p st h hq hfq
    cases st with
    | nil => exact ⟨x :: xs, [], by simp [Rga.updateLocal.go], by simp, by simp [lv], hq⟩
    | cons tv st =>
      obtain ⟨t, w⟩ := tv
      have hqx : Q x := hq x List.mem_cons_self
      have hqxs : ∀ n ∈ xs, Q n := fun n hn => hq n (List.mem_cons_of_mem _ hn)
      cases hv : x.v with
      | none =>
        have hl : x.isLive = false := by simp [RNode.isLive, hv]
        rw [lv_cons_none x xs hv] at h ⊢
        obtain ⟨l, tc, h1, h2, h3, h4⟩ := ih p ((t, w) :: st) h hqxs hfq
        refine ⟨x :: l, tc, by simp [Rga.updateLocal.go, hl, h1], by rw [lv_cons_none x l hv]; exact h2, h3, ?_⟩
        intro n hn
        rcases List.mem_cons.mp hn with rfl | hn
        · exact hqx
        · exact h4 n hn
      | some v =>
        have hl : x.isLive = true := by simp [RNode.isLive, hv]
        rw [lv_cons_some x xs v hv] at h ⊢
        by_cases hp : p = 0
        · subst hp
          obtain ⟨l, tc, h1, h2, h3, h4⟩ := ih 0 st (by simp at h ⊢; omega) hqxs
            (fun y t' v' hy ht' => hfq y t' v' hy (List.mem_cons_of_mem _ ht'))
          refine ⟨{ x with v := some w, t := t } :: l, x :: tc, by simp [Rga.updateLocal.go, hl, h1], ?_, ?_, ?_⟩
          · rw [lv_cons_some _ l w rfl, h2]; simp
          · rw [lv_cons_some x tc v hv, h3]; simp
          · intro n hn
            rcases List.mem_cons.mp hn with rfl | hn
            · exact hfq x t w hqx List.mem_cons_self
            · exact h4 n hn
        · obtain ⟨q, rfl⟩ : ∃ q, p = q + 1 := ⟨p - 1, by omega⟩
          obtain ⟨l, tc, h1, h2, h3, h4⟩ := ih q ((t, w) :: st) (by simp at h ⊢; omega) hqxs hfq
          refine ⟨x :: l, tc, by simp [Rga.updateLocal.go, hl, h1], ?_, ?_, ?_⟩
          · rw [lv_cons_some x l v hv, h2]
            have : q + 1 + ((t, w) :: st).length = (q + ((t, w) :: st).length) + 1 := by omega
            rw [this]; simp
          · rw [h3]; simp
          · intro n hn
            rcases List.mem_cons.mp hn with rfl | hn
            · exact hqx
            · exact h4 n hn

/-! ### fresh nodes and stamps -/

theorem delimSeq_length_pr : ∀ (n : Nat) (ts : Ts), (delimSeq ts n).length = n := by
  intro n
  induction n with
  | zero => intro ts; rfl
  | succ n ih => intro ts; simp [delimSeq, ih]

theorem delimSeq_mem : ∀ (n : Nat) (ts t : Ts), t ∈ delimSeq ts n → t.era = ts.era ∧ t.lamport = ts.lamport := by
  intro n
  induction n with
  | zero => intro ts t h; simp [delimSeq] at h
  | succ n ih =>
    intro ts t h
    simp only [delimSeq, List.mem_cons] at h
    rcases h with rfl | h
    · exact ⟨(by first | rfl | trivial), rfl⟩
    · exact ih ts.nextDelim t h

theorem mkNodes_cons (ts : Ts) (v : JVal) (vs : List JVal) :
    mkNodes ts (v :: vs) = ⟨ts, some v, ts⟩ :: mkNodes ts.nextDelim vs := by
  simp [mkNodes, delimSeq]

theorem lv_mkNodes : ∀ (vs : List JVal) (ts : Ts), lv (mkNodes ts vs) = vs := by
  intro vs
  induction vs with
  | nil => intro ts; rfl
  | cons v vs ih => intro ts; rw [mkNodes_cons, lv_cons_some _ _ v rfl, ih]

theorem mkNodes_mem : ∀ (vs : List JVal) (ts : Ts) (n : RNode), n ∈ mkNodes ts vs →
    (n.o.era = ts.era ∧ n.o.lamport = ts.lamport) ∧ (n.t.era = ts.era ∧ n.t.lamport = ts.lamport) := by
  intro vs
  induction vs with
  | nil => intro ts n h; simp [mkNodes] at h
  | cons v vs ih =>
    intro ts n h
    rw [mkNodes_cons] at h
    rcases List.mem_cons.mp h with rfl | h
    · exact ⟨⟨rfl, rfl⟩, ⟨rfl, rfl⟩⟩
    · exact ih ts.nextDelim n h

/-! ### the invariant on the state alone -/

def StInv (id : OpId) : DState → Prop
  | .counter v => -2147483648 ≤ v ∧ v < 2147483648
  | .map m => (m.entries.map (·.1)).Nodup ∧
              m.size = ((m.entries.filter (fun e => e.2.v.isSome)).length : Int) ∧
              ∀ e ∈ m.entries, stampOk id e.2.t
  | .list l => l.size = (l.live.length : Int) ∧ ∀ n ∈ l.nodes, stampOk id n.o ∧ stampOk id n.t
  | .doc _ => True

theorem localInv_iff (r : Replica) : LocalInv r ↔ StInv r.opId r.state := by
  obtain ⟨typ, opId, state, buffer, cp, rbOpId, rbSnap, rbOps⟩ := r
  cases state <;> exact Iff.rfl

theorem stampOk_next {id : OpId} {t : Ts} (h : stampOk id t) : stampOk id.next t :=
  ⟨h.1, Nat.le_succ_of_le h.2⟩

theorem stampOk_cmp {id : OpId} {t : Ts} (h : stampOk id t) : t.cmp id.next.ts = .lt :=
  cmp_lt_of_lamport_lt _ _ h.1 (Nat.lt_succ_of_le h.2)

theorem stampOk_fresh {id : OpId} {t : Ts} (h1 : t.era = id.next.ts.era) (h2 : t.lamport = id.next.ts.lamport) :
    stampOk id.next t := ⟨h1, Nat.le_of_eq h2⟩

theorem alFind_mem {α : Type} (k : String) : ∀ (l : List (String × α)) (e : α), alFind k l = some e → (k, e) ∈ l := by
  intro l
  induction l with
  | nil => intro e h; simp [alFind] at h
  | cons y ys ih =>
    intro e h
    obtain ⟨k0, e0⟩ := y
    simp only [alFind] at h
    split at h
    · next hk => subst hk; cases h; exact List.mem_cons_self
    · exact List.mem_cons_of_mem _ (ih e h)

/-! ### map -/

theorem put_equiv (k : String) (v : JVal) (ts : Ts) (es : List (String × MEntry)) (hn : (es.map (·.1)).Nodup) :
    Plain.equiv (.map (liveE (alSet k ⟨some v, ts⟩ es))) (.map (Plain.mapPut k v (liveE es))) := by
  have hn' := alSet_keys_nodup k (⟨some v, ts⟩ : MEntry) es hn
  refine ⟨fun k' => ?_, ?_⟩
  · simp only [Plain.mapGet, Plain.mapPut]
    rw [alFind_liveE k' _ hn', alFind_alSet_pr, alFind_alSet_pr, alFind_liveE k' _ hn]
    by_cases h : k' = k <;> simp [h]
  · simp only [Plain.mapPut]
    rw [alSet_length, alFind_liveE k _ hn, liveE_length, liveE_length]
    have := liveCount_alSet k ⟨some v, ts⟩ es
    simp only [liveCount] at this
    cases hf : alFind k es with
    | none => simp [hf] at this ⊢; omega
    | some old =>
      cases hv : old.v with
      | none => simp [hf, hv] at this ⊢; omega
      | some w => simp [hf, hv] at this ⊢; omega

theorem remove_equiv (k : String) (w : JVal) (ts : Ts) (es : List (String × MEntry)) (hn : (es.map (·.1)).Nodup)
    (hf : Plain.mapGet k (liveE es) = some w) :
    Plain.equiv (.map (liveE (alSet k ⟨none, ts⟩ es))) (.map (Plain.mapDel k (liveE es))) := by
  have hn' := alSet_keys_nodup k (⟨none, ts⟩ : MEntry) es hn
  refine ⟨fun k' => ?_, ?_⟩
  · simp only [Plain.mapGet, Plain.mapDel]
    rw [alFind_liveE k' _ hn', alFind_alSet_pr, alFind_filter_ne, alFind_liveE k' _ hn]
    by_cases h : k' = k <;> simp [h]
  · simp only [Plain.mapDel]
    have h1 := filter_ne_length k (liveE es) w (liveE_keys_nodup es hn) hf
    simp only [Plain.mapGet] at hf
    rw [alFind_liveE k _ hn] at hf
    rw [liveE_length] at h1 ⊢
    have := liveCount_alSet k ⟨none, ts⟩ es
    simp only [liveCount] at this
    cases hf' : alFind k es with
    | none => simp [hf'] at hf
    | some old =>
      cases hv : old.v with
      | none => simp [hf', hv] at hf
      | some w' => simp [hf', hv] at this; omega

theorem alSet_stamps (id : OpId) (k : String) (e : MEntry) (es : List (String × MEntry))
    (h : ∀ x ∈ es, stampOk id x.2.t) (he : stampOk id.next e.t) :
    ∀ x ∈ alSet k e es, stampOk id.next x.2.t := by
  intro x hx
  rcases mem_alSet k e es x hx with rfl | hx
  · exact he
  · exact stampOk_next (h x hx)

theorem putCommon_spec (id : OpId) (m : LwwMap) (k : String) (v : JVal) (h : StInv id (.map m)) :
    (m.putCommon k v id.next.ts).2 = Plain.mapGet k m.live ∧
    Plain.equiv (.map (m.putCommon k v id.next.ts).1.live) (.map (Plain.mapPut k v m.live)) ∧
    StInv id.next (.map (m.putCommon k v id.next.ts).1) := by
  obtain ⟨hn, hs, ht⟩ := h
  have hcnt := liveCount_alSet k ⟨some v, id.next.ts⟩ m.entries
  have hfresh : stampOk id.next id.next.ts := stampOk_fresh rfl rfl
  have hget : Plain.mapGet k m.live = (alFind k m.entries).bind (·.v) := alFind_liveE k _ hn
  simp only [liveCount] at hcnt
  unfold LwwMap.putCommon LwwMap.find
  cases hf : alFind k m.entries with
  | none =>
    simp only [hf] at hcnt hget ⊢
    refine ⟨hget.symm, put_equiv k v _ _ hn, alSet_keys_nodup _ _ _ hn, ?_, alSet_stamps id k _ _ ht hfresh⟩
    simp only [hs]
    simp at hcnt
    omega
  | some old =>
    have hcmp : old.t.cmp id.next.ts = .lt := stampOk_cmp (ht _ (alFind_mem k _ _ hf))
    simp only [hf, hcmp, beq_self_eq_true, if_true] at hcnt hget ⊢
    refine ⟨hget.symm, put_equiv k v _ _ hn, alSet_keys_nodup _ _ _ hn, ?_, alSet_stamps id k _ _ ht hfresh⟩
    simp only [hs]
    cases hv : old.v <;> simp [hv] at hcnt ⊢ <;> omega

theorem removeLocal_spec (id : OpId) (m : LwwMap) (k : String) (h : StInv id (.map m)) :
    match Plain.mapGet k m.live with
    | some w => ∃ m', m.removeLocal k id.next.ts = (m', .ok (some w)) ∧
        Plain.equiv (.map m'.live) (.map (Plain.mapDel k m.live)) ∧ StInv id.next (.map m')
    | none => m.removeLocal k id.next.ts = (m, .err Err.noOp) := by
  obtain ⟨hn, hs, ht⟩ := h
  have hcnt := liveCount_alSet k ⟨none, id.next.ts⟩ m.entries
  have hfresh : stampOk id.next id.next.ts := stampOk_fresh rfl rfl
  have hget : Plain.mapGet k m.live = (alFind k m.entries).bind (·.v) := alFind_liveE k _ hn
  simp only [liveCount] at hcnt
  unfold LwwMap.removeLocal LwwMap.find
  cases hf : alFind k m.entries with
  | none => simp only [hf] at hget; simp [hget]
  | some old =>
    have hcmp : old.t.cmp id.next.ts = .lt := stampOk_cmp (ht _ (alFind_mem k _ _ hf))
    cases hv : old.v with
    | none => simp only [hf] at hget; simp [hget, hv]
    | some w =>
      simp only [hf, hv, Option.bind_some] at hget hcnt
      have hget' : Plain.mapGet k (liveE m.entries) = some w := hget
      rw [hget]
      simp only [hv, hcmp, Option.isSome_some, beq_self_eq_true, Bool.and_self, if_true]
      refine ⟨_, rfl, remove_equiv k w _ _ hn hget', alSet_keys_nodup _ _ _ hn, ?_,
        alSet_stamps id k _ _ ht hfresh⟩
      simp only [hs]
      simp at hcnt
      omega

/-! ### list -/

theorem insertLocal_spec (id : OpId) (l : Rga) (pos : Nat) (vs : List JVal) (h : StInv id (.list l))
    (hp : pos ≤ l.live.length) :
    ∃ l' a, l.insertLocal pos id.next.ts vs = .ok (l', a) ∧
      l'.live = l.live.take pos ++ vs ++ l.live.drop pos ∧ StInv id.next (.list l') := by
  obtain ⟨hs, ht⟩ := h
  rw [live_eq_lv] at hp hs ⊢
  obtain ⟨nodes', h1, h2, h3⟩ := insertAtLive_spec (mkNodes id.next.ts vs) l.nodes pos hp
  have ha : ∃ a, l.anchorAt pos = some a := by
    unfold Rga.anchorAt
    by_cases h0 : pos = 0
    · exact ⟨Ts.oldest, by simp [h0]⟩
    · obtain ⟨x, hx⟩ := nthLive_spec l.nodes (pos - 1) (by omega)
      exact ⟨x.o, by simp [h0, hx]⟩
  obtain ⟨a, ha⟩ := ha
  rw [lv_mkNodes] at h2
  refine ⟨⟨nodes', l.size + vs.length⟩, a, by simp [Rga.insertLocal, ha, h1], h2, ?_, ?_⟩
  · show l.size + vs.length = ((lv nodes').length : Int)
    rw [h2, hs]
    simp only [List.length_append, List.length_take, List.length_drop]
    omega
  · intro n hn
    rcases h3 n hn with h | h
    · obtain ⟨⟨a1, a2⟩, ⟨b1, b2⟩⟩ := mkNodes_mem vs _ n h
      exact ⟨stampOk_fresh a1 a2, stampOk_fresh b1 b2⟩
    · exact ⟨stampOk_next (ht n h).1, stampOk_next (ht n h).2⟩

theorem deleteLocal_spec (id : OpId) (l : Rga) (pos num : Nat) (h : StInv id (.list l))
    (hp : pos + num ≤ l.live.length) :
    ∃ l' tg, l.deleteLocal pos num id.next.ts = .ok (l', tg, (l.live.drop pos).take num) ∧
      l'.live = l.live.take pos ++ l.live.drop (pos + num) ∧ StInv id.next (.list l') := by
  obtain ⟨hs, ht⟩ := h
  rw [live_eq_lv] at hp hs ⊢
  have hlen := delimSeq_length_pr num id.next.ts
  obtain ⟨nodes', tc, h1, h2, h3, h4⟩ :=
    mapLiveFrom_spec (fun x t => { x with v := none, t := t }) (fun _ _ => rfl)
      (fun n => stampOk id.next n.o ∧ stampOk id.next n.t) l.nodes pos (delimSeq id.next.ts num)
      (by rw [hlen]; exact hp)
      (fun n hn => ⟨stampOk_next (ht n hn).1, stampOk_next (ht n hn).2⟩)
      (fun x t hx htm => ⟨hx.1, stampOk_fresh (delimSeq_mem _ _ _ htm).1 (delimSeq_mem _ _ _ htm).2⟩)
  rw [hlen] at h2 h3
  refine ⟨⟨nodes', l.size - num⟩, tc.map (·.o), ?_, h2, ?_, h4⟩
  · simp only [Rga.deleteLocal, h1]
    rw [show tc.filterMap (·.v) = lv tc from rfl, h3]
  · show l.size - num = ((lv nodes').length : Int)
    rw [h2, hs]
    simp only [List.length_append, List.length_take, List.length_drop]
    omega

theorem updateLocal_spec (id : OpId) (l : Rga) (pos : Nat) (vs : List JVal) (h : StInv id (.list l))
    (hp : pos + vs.length ≤ l.live.length) :
    ∃ l' tg, l.updateLocal pos id.next.ts vs = .ok (l', tg, (l.live.drop pos).take vs.length) ∧
      l'.live = l.live.take pos ++ vs ++ l.live.drop (pos + vs.length) ∧ StInv id.next (.list l') := by
  obtain ⟨hs, ht⟩ := h
  rw [live_eq_lv] at hp hs ⊢
  have hlen := delimSeq_length_pr vs.length id.next.ts
  have hzl : ((delimSeq id.next.ts vs.length).zip vs).length = vs.length := by
    rw [List.length_zip, hlen]; omega
  have hzs : ((delimSeq id.next.ts vs.length).zip vs).map (·.2) = vs :=
    List.map_snd_zip (by omega)
  obtain ⟨nodes', tc, h1, h2, h3, h4⟩ :=
    updGo_spec (fun n => stampOk id.next n.o ∧ stampOk id.next n.t) l.nodes pos
      ((delimSeq id.next.ts vs.length).zip vs)
      (by rw [hzl]; exact hp)
      (fun n hn => ⟨stampOk_next (ht n hn).1, stampOk_next (ht n hn).2⟩)
      (fun x t v hx htm =>
        have htm' := (List.of_mem_zip htm).1
        ⟨hx.1, stampOk_fresh (delimSeq_mem _ _ _ htm').1 (delimSeq_mem _ _ _ htm').2⟩)
  rw [hzl, hzs] at h2
  rw [hzl] at h3
  refine ⟨⟨nodes', l.size⟩, tc.map (·.o), ?_, h2, ?_, h4⟩
  · simp only [Rga.updateLocal, h1]
    rw [show tc.filterMap (·.v) = lv tc from rfl, h3]
  · show l.size = ((lv nodes').length : Int)
    rw [h2, hs]
    simp only [List.length_append, List.length_take, List.length_drop]
    omega

/-! ### every call, on the state alone -/

/-- the only disagreement with `Plain.step`: a map call with refused arguments issued on a state that
    is not a map reports the argument error (204) where `Plain.step` reports the wrong datatype (205) -/
def argArtifact : DState → Call → Bool
  | .map _, _ => false
  | .doc _, _ => false
  | _, .mput k v => k = "" || v.isNull
  | _, .mremove k => k = ""
  | _, _ => false

def Good (id : OpId) (s : DState) (c : Call) : Prop :=
  match c.prepare s with
  | .done o => (argArtifact s c = false → o = (Plain.step (Plain.abs s) c).2) ∧
               (Plain.step (Plain.abs s) c).1 = Plain.abs s ∧ (∀ w, o ≠ .panic w)
  | .op b post => b.isMeta = false ∧
      match execLocal s id.next.ts b with
      | .ok (s', _, ret) => (Plain.step (Plain.abs s) c).2 = .ok (post ret) ∧
          Plain.equiv (Plain.abs s') (Plain.step (Plain.abs s) c).1 ∧ StInv id.next s' ∧ isDocState s' = false
      | .err e => (Plain.step (Plain.abs s) c).2 = .err e ∧ (Plain.step (Plain.abs s) c).1 = Plain.abs s
      | .panic _ => False

theorem wrap32_range_pr (x : Int) : -2147483648 ≤ wrap32 x ∧ wrap32 x < 2147483648 := by
  unfold wrap32; omega

theorem good_counter (id : OpId) (v : Int) (c : Call) (_h : StInv id (.counter v)) : Good id (.counter v) c := by
  cases c
  case inc d =>
    simp [Good, Call.prepare, execLocal, Plain.step, Plain.abs, OpBody.isMeta, counterIncrease, Plain.equiv,
      StInv, isDocState, wrap32_range_pr]
  case mput k w =>
    by_cases hk : (k = "" || w.isNull) = true
    · simp [Good, Call.prepare, hk, Plain.step, Plain.abs, argArtifact]
    · simp [Good, Call.prepare, hk, Plain.step, Plain.abs, execLocal, OpBody.isMeta, Err.illegalOperation]
  case mremove k =>
    by_cases hk : k = ""
    · simp [Good, Call.prepare, hk, Plain.step, Plain.abs, argArtifact]
    · simp [Good, Call.prepare, hk, Plain.step, Plain.abs, execLocal, OpBody.isMeta, Err.illegalOperation]
  all_goals simp [Good, Call.prepare, Plain.step, Plain.abs, argArtifact]

theorem good_map (id : OpId) (m : LwwMap) (c : Call) (h : StInv id (.map m)) : Good id (.map m) c := by
  cases c
  case inc d =>
    simp [Good, Call.prepare, execLocal, Plain.step, Plain.abs, OpBody.isMeta, Err.illegalOperation]
  case mput k w =>
    by_cases hk : (k = "" || w.isNull) = true
    · simp [Good, Call.prepare, hk, Plain.step, Plain.abs, argArtifact]
    · obtain ⟨h1, h2, h3⟩ := putCommon_spec id m k w h
      simp only [Good, Call.prepare, hk, Plain.step, Plain.abs, execLocal, OpBody.isMeta]
      exact ⟨(by first | rfl | trivial), by rw [h1]; rfl, h2, h3, rfl⟩
  case mremove k =>
    by_cases hk : k = ""
    · simp [Good, Call.prepare, hk, Plain.step, Plain.abs, argArtifact]
    · have h0 := removeLocal_spec id m k h
      simp only [Good, Call.prepare, hk, Plain.step, Plain.abs, execLocal, OpBody.isMeta, if_false]
      cases hg : Plain.mapGet k m.live with
      | none =>
        rw [hg] at h0
        simp only [] at h0
        rw [h0]
        exact ⟨(by first | rfl | trivial), rfl, rfl⟩
      | some w =>
        rw [hg] at h0
        obtain ⟨m', e1, e2, e3⟩ := h0
        rw [e1]
        exact ⟨(by first | rfl | trivial), rfl, e2, e3, rfl⟩
  case mget k =>
    simp [Good, Call.prepare, Plain.step, Plain.abs, argArtifact, LwwMap.get, LwwMap.find, Plain.mapGet]
    rw [live_eq_liveE, alFind_liveE k _ h.1]
    cases alFind k m.entries <;> rfl
  case msize =>
    simp [Good, Call.prepare, Plain.step, Plain.abs, argArtifact]
    rw [h.2.1, live_eq_liveE, liveE_length]
  all_goals simp [Good, Call.prepare, Plain.step, Plain.abs, argArtifact]

theorem validateInsert_eq (l : Rga) (pos : Int) (hs : l.size = (l.live.length : Int)) :
    l.validateInsert pos =
      if (decide (pos < 0) || decide (pos > (l.live.length : Int))) = true then some Err.illegalParameters else none := by
  unfold Rga.validateInsert
  rw [hs]
  by_cases h1 : pos < 0 <;> by_cases h2 : pos > (l.live.length : Int) <;> simp [h1, h2]

theorem validateGet_eq (l : Rga) (pos : Int) (hs : l.size = (l.live.length : Int)) :
    l.validateGet pos =
      if (decide (pos < 0) || decide (pos ≥ (l.live.length : Int))) = true then some Err.illegalParameters else none := by
  unfold Rga.validateGet
  rw [hs]
  by_cases h1 : pos < 0 <;> by_cases h2 : pos ≥ (l.live.length : Int) <;> simp [h1, h2]

theorem validateRange_eq (l : Rga) (pos n : Int) (hs : l.size = (l.live.length : Int)) :
    l.validateRange pos n =
      if (!Plain.inRange pos n (l.live.length : Int)) = true then some Err.illegalParameters else none := by
  unfold Rga.validateRange Plain.inRange
  rw [hs]
  by_cases h1 : pos < 0 <;> by_cases h2 : n < 1 <;> by_cases h3 : (l.live.length : Int) - 1 < pos <;>
    by_cases h4 : pos + n > (l.live.length : Int) <;> simp [h1, h2, h3, h4] <;> omega

theorem inRange_iff (pos n len : Int) : Plain.inRange pos n len = true ↔ 0 ≤ pos ∧ 1 ≤ n ∧ pos ≤ len - 1 ∧ pos + n ≤ len := by
  simp [Plain.inRange, and_assoc]

theorem firstVal_take_one (L : List JVal) : firstVal (.vals (L.take 1)) = .val L.head? := by
  cases L <;> rfl

theorem good_list (id : OpId) (l : Rga) (c : Call) (h : StInv id (.list l)) : Good id (.list l) c := by
  have hs : l.size = (l.live.length : Int) := h.1
  cases c
  case inc d =>
    simp [Good, Call.prepare, execLocal, Plain.step, Plain.abs, OpBody.isMeta, Err.illegalOperation]
  case mput k w =>
    by_cases hk : (k = "" || w.isNull) = true
    · simp [Good, Call.prepare, hk, Plain.step, Plain.abs, argArtifact]
    · simp [Good, Call.prepare, hk, Plain.step, Plain.abs, execLocal, OpBody.isMeta, Err.illegalOperation]
  case mremove k =>
    by_cases hk : k = ""
    · simp [Good, Call.prepare, hk, Plain.step, Plain.abs, argArtifact]
    · simp [Good, Call.prepare, hk, Plain.step, Plain.abs, execLocal, OpBody.isMeta, Err.illegalOperation]
  case linsert pos xs =>
    simp only [Good, Call.prepare, validateInsert_eq l pos hs, Plain.step, Plain.abs]
    by_cases hc : (decide (pos < 0) || decide (pos > (l.live.length : Int))) = true
    · simp [hc, argArtifact]
    · by_cases hn : xs.any JVal.isNull = true
      · simp [hc, hn, argArtifact]
      · simp only [hc, hn, Bool.false_eq_true, ↓reduceIte]
        simp only [Bool.or_eq_true, decide_eq_true_eq, not_or] at hc
        obtain ⟨l', a, e1, e2, e3⟩ := insertLocal_spec id l pos.toNat xs h (by omega)
        simp only [execLocal, e1]
        exact ⟨(by first | rfl | trivial), rfl, e2, e3, rfl⟩
  case ldelete pos =>
    simp only [Good, Call.prepare, validateRange_eq l pos 1 hs, Plain.step, Plain.abs]
    by_cases hc : Plain.inRange pos 1 (l.live.length : Int) = true
    · simp only [hc, Bool.not_true, Bool.false_eq_true, ↓reduceIte]
      have hc' := (inRange_iff _ _ _).mp hc
      obtain ⟨l', tg, e1, e2, e3⟩ := deleteLocal_spec id l pos.toNat 1 h (by omega)
      simp only [execLocal, e1]
      exact ⟨(by first | rfl | trivial), by rw [firstVal_take_one], e2, e3, rfl⟩
    · simp [hc, argArtifact]
  case ldeleteMany pos n =>
    simp only [Good, Call.prepare, validateRange_eq l pos n hs, Plain.step, Plain.abs]
    by_cases hc : Plain.inRange pos n (l.live.length : Int) = true
    · simp only [hc, Bool.not_true, Bool.false_eq_true, ↓reduceIte]
      have hc' := (inRange_iff _ _ _).mp hc
      obtain ⟨l', tg, e1, e2, e3⟩ := deleteLocal_spec id l pos.toNat n.toNat h (by omega)
      simp only [execLocal, e1]
      exact ⟨(by first | rfl | trivial), rfl, e2, e3, rfl⟩
    · simp [hc, argArtifact]
  case lupdate pos xs =>
    simp only [Good, Call.prepare, validateRange_eq l pos xs.length hs, Plain.step, Plain.abs]
    by_cases hc : Plain.inRange pos xs.length (l.live.length : Int) = true
    · by_cases hn : xs.any JVal.isNull = true
      · simp [hc, hn, argArtifact]
      · simp only [hc, hn, Bool.not_true, Bool.false_eq_true, ↓reduceIte]
        have hc' := (inRange_iff _ _ _).mp hc
        obtain ⟨l', tg, e1, e2, e3⟩ := updateLocal_spec id l pos.toNat xs h (by omega)
        simp only [execLocal, e1]
        exact ⟨(by first | rfl | trivial), rfl, e2, e3, rfl⟩
    · simp [hc, argArtifact]
  case lget pos =>
    simp only [Good, Call.prepare, validateGet_eq l pos hs, Plain.step, Plain.abs]
    by_cases hc : (decide (pos < 0) || decide (pos ≥ (l.live.length : Int))) = true
    · simp [hc, argArtifact]
    · simp [hc, argArtifact, liveSlice, List.head?_take]
  case lgetMany pos n =>
    simp only [Good, Call.prepare, validateRange_eq l pos n hs, Plain.step, Plain.abs]
    by_cases hc : Plain.inRange pos n (l.live.length : Int) = true
    · simp [hc, argArtifact, liveSlice]
    · simp [hc, argArtifact]
  case lsize =>
    simp [Good, Call.prepare, Plain.step, Plain.abs, argArtifact, hs]
  all_goals simp [Good, Call.prepare, Plain.step, Plain.abs, argArtifact]

theorem good_all (id : OpId) (s : DState) (c : Call) (h : StInv id s) (hd : isDocState s = false) :
    Good id s c := by
  cases s with
  | counter v => exact good_counter id v c h
  | map m => exact good_map id m c h
  | list l => exact good_list id l c h
  | doc d => simp [isDocState] at hd

/-- the two calls on which `Plain.step` and the model name different refusals -/
theorem artifact_vals (s : DState) (c : Call) (ha : argArtifact s c = true) :
    c.prepare s = .done (.err Err.illegalParameters) ∧
    (Plain.step (Plain.abs s) c).2 = .err Err.illegalOperation := by
  cases s <;> cases c <;> simp_all [argArtifact, Call.prepare, Plain.step, Plain.abs]

/-! ### from the state to the replica -/

theorem next_rollBack_pr (o : OpId) : o.next.rollBack = o := by
  cases o; simp [OpId.next, OpId.rollBack]

theorem callLocal_eq (r : Replica) (b : OpBody) (hb : b.isMeta = false) :
    r.callLocal b =
      match execLocal r.state r.opId.next.ts b with
      | .ok (s', b', ret) =>
        ({ r with opId := r.opId.next, state := s', rbOps := r.rbOps ++ [⟨r.opId.next, b'⟩],
                  buffer := r.buffer ++ [Op.wire ⟨r.opId.next, b'⟩] }, .ok ret)
      | .err e => (r, .err e)
      | .panic w => ({ r with opId := r.opId.next }, .panic w) := by
  unfold Replica.callLocal Replica.execLocalBase
  cases he : execLocal r.state r.opId.next.ts b with
  | ok x => obtain ⟨s', b', ret⟩ := x; simp [hb, he]
  | err e => simp [hb, he, next_rollBack_pr]
  | panic w => simp [hb, he]

theorem equiv_refl (p : Plain.PState) : Plain.equiv p p := by
  cases p
  · rfl
  · exact ⟨fun _ => rfl, rfl⟩
  · rfl

/-- every call is either a read / refusal that leaves the replica untouched, or a successful write that
    consumes the next identifier and queues exactly that operation -/
theorem call_cases (r : Replica) (c : Call) (h : LocalInv r) (hd : isDocState r.state = false) :
    (∃ o, r.call c = (r, o) ∧
        (argArtifact r.state c = false → o = (Plain.step (Plain.abs r.state) c).2) ∧
        (Plain.step (Plain.abs r.state) c).1 = Plain.abs r.state ∧ (∀ w, o ≠ .panic w)) ∨
    (∃ s' b' ret, r.call c =
        ({ r with opId := r.opId.next, state := s', rbOps := r.rbOps ++ [⟨r.opId.next, b'⟩],
                  buffer := r.buffer ++ [Op.wire ⟨r.opId.next, b'⟩] }, .ok ret) ∧
        (Plain.step (Plain.abs r.state) c).2 = .ok ret ∧
        Plain.equiv (Plain.abs s') (Plain.step (Plain.abs r.state) c).1 ∧
        StInv r.opId.next s' ∧ isDocState s' = false) := by
  have g := good_all r.opId r.state c ((localInv_iff r).mp h) hd
  unfold Good at g
  unfold Replica.call
  cases hp : c.prepare r.state with
  | done o =>
    simp only [hp] at g
    exact Or.inl ⟨o, rfl, g⟩
  | op b post =>
    simp only [hp] at g
    obtain ⟨hm, g⟩ := g
    simp only []
    rw [callLocal_eq r b hm]
    cases he : execLocal r.state r.opId.next.ts b with
    | ok x =>
      obtain ⟨s', b', ret⟩ := x
      simp only [he] at g
      exact Or.inr ⟨s', b', post ret, rfl, g⟩
    | err e =>
      simp only [he] at g
      exact Or.inl ⟨.err e, rfl, fun _ => g.1.symm, g.2, by intro w hw; cases hw⟩
    | panic w =>
      simp only [he] at g

/-! ### the requested theorems -/

theorem localInv_new (typ : DtType) (cuid : String) (create : Bool) (h : typ ≠ .document) :
    LocalInv (Replica.new typ cuid create) := by
  cases typ <;> cases create <;>
    simp_all [Replica.new, LocalInv, DState.fresh, LwwMap.empty, Rga.empty, Rga.live]

/-- the invariant is kept by every call (valid or not) -/
theorem localInv_call (r : Replica) (c : Call) (h : LocalInv r) (hd : isDocState r.state = false) :
    LocalInv (r.call c).1 := by
  rcases call_cases r c h hd with ⟨o, e, _⟩ | ⟨s', b', ret, e, _, _, hi, _⟩
  · rw [e]; exact h
  · rw [e]; exact (localInv_iff _).mpr hi

/-- C03, refinement.  The statement without `ha` is false (`call_refines_plain_counterexample`):
    `Plain.step` answers a map call on a counter or list with "wrong datatype" (205) whatever the
    arguments, the model checks the arguments first (204).  Everywhere else they agree. -/
theorem call_refines_plain_partial (r : Replica) (c : Call) (h : LocalInv r) (hd : isDocState r.state = false)
    (ha : argArtifact r.state c = false) :
    (r.call c).2 = (Plain.step (Plain.abs r.state) c).2 ∧
    Plain.equiv (Plain.abs (r.call c).1.state) (Plain.step (Plain.abs r.state) c).1 := by
  rcases call_cases r c h hd with ⟨o, e, h1, h2, _⟩ | ⟨s', b', ret, e, h1, h2, _, _⟩
  · rw [e, h2]; exact ⟨h1 ha, equiv_refl _⟩
  · rw [e]; exact ⟨h1.symm, h2⟩

/-- a call of the datatype's own API -/
def callFits : DState → Call → Bool
  | .counter _, .inc _ => true
  | .map _, .mput _ _ | .map _, .mremove _ | .map _, .mget _ | .map _, .msize => true
  | .list _, .linsert _ _ | .list _, .ldelete _ | .list _, .ldeleteMany _ _ | .list _, .lupdate _ _
  | .list _, .lget _ | .list _, .lgetMany _ _ | .list _, .lsize => true
  | _, _ => false

theorem argArtifact_of_callFits (s : DState) (c : Call) (h : callFits s c = true) : argArtifact s c = false := by
  cases s <;> cases c <;> simp_all [callFits, argArtifact]

/-- C03, refinement, for the calls a typed handle can issue (a Counter has no Put, …) -/
theorem call_refines_plain_typed (r : Replica) (c : Call) (h : LocalInv r) (hd : isDocState r.state = false)
    (hf : callFits r.state c = true) :
    (r.call c).2 = (Plain.step (Plain.abs r.state) c).2 ∧
    Plain.equiv (Plain.abs (r.call c).1.state) (Plain.step (Plain.abs r.state) c).1 :=
  call_refines_plain_partial r c h hd (argArtifact_of_callFits _ _ hf)

/-- C03, refinement, unconditional form: the readable state always follows the plain structure, and the
    results agree except that the two misdirected calls are refused under different codes -/
theorem call_refines_plain_weak (r : Replica) (c : Call) (h : LocalInv r) (hd : isDocState r.state = false) :
    ((r.call c).2 = (Plain.step (Plain.abs r.state) c).2 ∨
      ((r.call c).2 = .err Err.illegalParameters ∧
       (Plain.step (Plain.abs r.state) c).2 = .err Err.illegalOperation ∧ (r.call c).1 = r)) ∧
    Plain.equiv (Plain.abs (r.call c).1.state) (Plain.step (Plain.abs r.state) c).1 := by
  cases ha : argArtifact r.state c with
  | false => exact ⟨Or.inl (call_refines_plain_partial r c h hd ha).1, (call_refines_plain_partial r c h hd ha).2⟩
  | true =>
    obtain ⟨h1, h2⟩ := artifact_vals r.state c ha
    have e : r.call c = (r, .err Err.illegalParameters) := by
      unfold Replica.call; rw [h1]
    rcases call_cases r c h hd with ⟨o, _, _, h3, _⟩ | ⟨s', b', ret, e', _⟩
    · rw [e, h3]; exact ⟨Or.inr ⟨rfl, h2, rfl⟩, equiv_refl _⟩
    · rw [e] at e'; have e'' := congrArg Prod.snd e'; cases e''

/-- the statement of `call_refines_plain` fails on a fresh counter for `Put("", null)` -/
theorem call_refines_plain_counterexample :
    ¬ ∀ (r : Replica) (c : Call), LocalInv r → isDocState r.state = false →
      (r.call c).2 = (Plain.step (Plain.abs r.state) c).2 ∧
      Plain.equiv (Plain.abs (r.call c).1.state) (Plain.step (Plain.abs r.state) c).1 := by
  intro hall
  have h := (hall (Replica.new .counter "c" false) (.mput "" .null)
    (localInv_new _ _ _ (by decide)) rfl).1
  simp [Replica.new, Replica.call, Call.prepare, DState.fresh, Plain.step, Plain.abs,
    Err.illegalParameters, Err.illegalOperation] at h

/-- C03, refused calls: an error changes nothing at all (state, identifiers, queued operations, rollback data) -/
theorem call_err_noop (r : Replica) (c : Call) (h : LocalInv r) (hd : isDocState r.state = false) (e : Nat)
    (he : (r.call c).2 = .err e) : (r.call c).1 = r := by
  rcases call_cases r c h hd with ⟨o, e1, _⟩ | ⟨s', b', ret, e1, _⟩
  · rw [e1]
  · rw [e1] at he; cases he

/-- C03, no panic: under the invariant no call of these datatypes panics -/
theorem call_no_panic (r : Replica) (c : Call) (h : LocalInv r) (hd : isDocState r.state = false) (w : String) :
    (r.call c).2 ≠ .panic w := by
  rcases call_cases r c h hd with ⟨o, e1, _, _, hp⟩ | ⟨s', b', ret, e1, _⟩
  · rw [e1]; exact hp w
  · rw [e1]; intro hh; cases hh

/-- C03/C15: a successful writing call queues exactly one operation, numbered next -/
theorem call_ok_queues_one (r : Replica) (c : Call) (h : LocalInv r) (hd : isDocState r.state = false) (v : Ret)
    (hok : (r.call c).2 = .ok v) :
    (r.call c).1.buffer = r.buffer ∨
    ∃ o : Op, (r.call c).1.buffer = r.buffer ++ [o] ∧ o.id = r.opId.next := by
  rcases call_cases r c h hd with ⟨o, e1, _⟩ | ⟨s', b', ret, e1, _⟩
  · rw [e1]; exact Or.inl rfl
  · rw [e1]; exact Or.inr ⟨_, rfl, rfl⟩

end Orda
