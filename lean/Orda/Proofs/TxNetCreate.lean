/-
Document transactions and PatchByJSON over the server log WITH the creating client and its creation snapshot operation
(C09 + C19 end to end, Document datatype).  Namespace `Orda.TxNetC`.  Types: `DNet.Node`, `DNet.Net`; actions `DTx.Act`.

THE SYSTEM (§1).  `DNetC.initC cuid n`: node 0 is the CREATOR `Replica.new .document (cuid 0) true` (buffer = [snapshot operation]),
the others are fresh subscribers.  `StepC` = `DTx.Step` (`call`, `tx`, `patch`, `pushAll`, `pullAll`) + the guard on `call`, `tx`,
`patch`: a subscriber (`i ≠ 0`) acts only after it has consumed the first log entry (`0 < nd.pulled`).  With `pushAll` the
snapshot operation and later units travel in one push; `Replica.receive` treats the snapshot operation as a unit of ONE
non-header operation (`IsUnit`), hands it to `execRemoteBase`, which leaves the (still empty) document of the subscriber empty.
`ReachC`; `actC`/`runC`/`reachC_run`: the guarded executable form.

RESULTS (§9–§11), no hypothesis beyond `ReachC` (and `CallOK`/`TgtOK`, and the guard where a subscriber's step is taken):
  * `created_dtx_quiescent_converged`; `cdtx_same_operations_same_document`, `cdtx_nodes_applied`, `cdtx_docInv`, `cdtx_can_quiesce`;
  * `created_dtx_failed_transaction_changes_nothing` (ANY node, no guard needed: it is the rollback invariant `RbInv`),
    `cdtx_failed_tx_is_noop(_net)`, `cdtx_tx_never_panics`, `cdtx_committed_tx_is_one_unit`;
  * `created_dtx_committed_transaction_all_or_nothing` (= `cdtx_all_or_nothing`; `_pos`, `cdtx_log_is_units`, `cdtx_log_nodup`,
    `cdtx_receive_ok`): the snapshot operation is a unit of its own;
  * `created_dtx_patch_reaches_target_anywhere` (ANY node, no guard needed), `cdtx_patch_is_one_unit`, `cdtx_patch_propagates`;
  * `created_dtx_log_starts_with_snapshot`; `tx_before_first_pull_diverges` (§13): without the guard convergence is false.

HOW.  Proofs/DocTxNet.lean §3–§10 carried over TEXT FOR TEXT (generated from it) with the header-free side's invariant
`DTx.SInv`/`NInv` replaced by `DNetC.InvC`/`NodeInvC` of Proofs/DocNetCreate.lean (the same invariant with the snapshot entry
allowed in the ghost sequences, + `fresh`, `creator`, `log_head`).  The abstraction `Abs` (erase the transaction headers) is
unchanged: the snapshot operation is not a header, it stays on the header-free side, where `DNetC.InvC.pull` knows how to deliver
it.  Edits: the guard is threaded through `body_sim`, `patch_body_sim`, `tx_cases`, `patch_cases`, `TInvC.call/tx/patch/unit`
(on the header-free side it reads `0 < nd0.pulled`; `guard0` derives it from the real guard because the first log entry is the
snapshot operation, not a header); `pull_oth_step` has the snapshot branch (`DNetC.execRemoteBase_snap`: no panic); `TInvC` has
one more field `head : HeadOK` (real side: the log and the creator's buffer start with the snapshot operation, a subscriber that
has pulled nothing has queued nothing), kept by `HeadOK.set` / `HeadOK.pushAll`; `tinv_initC`.
-/
import Orda.Proofs.DocTxNet
import Orda.Proofs.DocNetCreate
set_option linter.unusedSimpArgs false
set_option linter.unusedVariables false
namespace Orda.TxNetC
open Orda Orda.DC Orda.DA Orda.DM Orda.DR Orda.DCausal Orda.DNet
open Orda.LTx (isHdr IsUnit flatU nh eraseB eraseL UnitsB UnitsL)
open Orda.DNetC (snapOp snapEnt initC EntOKC NodeInvC InvC call_casesC freshIn_denC toDOp_snapOp)
open Orda.DTx (pullOps TgtOK ActOK)

/-! ## 1. the system: `DTx.Step` from `DNetC.initC` (creator + subscribers), with the guard on call / tx / patch -/

inductive StepC : Net → Net → Prop
  | call (net : Net) (i : Nat) (nd : Node) (c : Call) (hi : net.nodes[i]? = some nd) (hc : CallOK c)
      (hg : i ≠ 0 → 0 < nd.pulled) :
      StepC net ⟨net.nodes.set i { nd with r := (nd.r.call c).1 }, net.log⟩
  | tx (net : Net) (i : Nat) (nd : Node) (tag : String) (calls : List Call) (stopOnErr failAtEnd : Bool)
      (hi : net.nodes[i]? = some nd) (hc : ∀ c ∈ calls, CallOK c) (hg : i ≠ 0 → 0 < nd.pulled) :
      StepC net ⟨net.nodes.set i { nd with r := (nd.r.txCalls tag calls stopOnErr failAtEnd).1 }, net.log⟩
  | patch (net : Net) (i : Nat) (nd : Node) (tgt : List (String × JVal)) (hi : net.nodes[i]? = some nd)
      (ht : TgtOK tgt) (hg : i ≠ 0 → 0 < nd.pulled) :
      StepC net ⟨net.nodes.set i { nd with r := (nd.r.patchByJSON (.obj tgt)).1 }, net.log⟩
  | pushAll (net : Net) (i : Nat) (nd : Node) (hi : net.nodes[i]? = some nd) :
      StepC net ⟨net.nodes.set i { nd with pushed := nd.r.buffer.length },
                net.log ++ (nd.r.buffer.drop nd.pushed).map (fun o => (i, o))⟩
  | pullAll (net : Net) (i : Nat) (nd : Node) (hi : net.nodes[i]? = some nd) :
      StepC net ⟨net.nodes.set i { nd with r := (nd.r.receive (pullOps net.log i nd)).1, pulled := net.log.length },
                net.log⟩

/-- reachable from the creator `Replica.new .document (cuid 0) true` and `n - 1` fresh subscribers -/
inductive ReachC (cuid : Nat → String) (n : Nat) : Net → Prop
  | init (hc : CuidsDistinct cuid n) : ReachC cuid n (initC cuid n)
  | step {net net' : Net} : ReachC cuid n net → StepC net net' → ReachC cuid n net'

theorem StepC.toStep {net net' : Net} (h : StepC net net') : DTx.Step net net' := by
  cases h with
  | call i nd c hi hc hg => exact .call net i nd c hi hc
  | tx i nd tag calls s f hi hc hg => exact .tx net i nd tag calls s f hi hc
  | patch i nd tgt hi ht hg => exact .patch net i nd tgt hi ht
  | pushAll i nd hi => exact .pushAll net i nd hi
  | pullAll i nd hi => exact .pullAll net i nd hi

/-- the guard of an action in a state -/
def guardOK (net : Net) (i : Nat) : Bool :=
  match net.nodes[i]? with
  | some nd => decide (i = 0 ∨ 0 < nd.pulled)
  | none => false

/-- the executable form: `DTx.act` + the guard -/
def actC (net : Net) : DTx.Act → Option Net
  | .call i c => if guardOK net i then DTx.act net (.call i c) else none
  | .tx i tag calls s f => if guardOK net i then DTx.act net (.tx i tag calls s f) else none
  | .patch i tgt => if guardOK net i then DTx.act net (.patch i tgt) else none
  | .pushAll i => DTx.act net (.pushAll i)
  | .pullAll i => DTx.act net (.pullAll i)

def runC (net : Net) : List DTx.Act → Option Net
  | [] => some net
  | a :: as => match actC net a with
    | some net' => runC net' as
    | none => none

theorem guard_of_ok {net : Net} {i : Nat} {nd : Node} (hn : net.nodes[i]? = some nd) (h : guardOK net i = true) :
    i ≠ 0 → 0 < nd.pulled := by
  unfold guardOK at h
  rw [hn] at h
  simp only [decide_eq_true_eq] at h
  intro h0
  rcases h with h | h
  · exact absurd h h0
  · exact h

theorem stepC_of_actC {net net' : Net} {a : DTx.Act} (h : actC net a = some net') (hk : ActOK a) : StepC net net' := by
  cases a with
  | call i c =>
    simp only [actC] at h
    by_cases hgd : guardOK net i = true
    · rw [if_pos hgd] at h
      simp only [DTx.act] at h
      cases hn : net.nodes[i]? with
      | none => rw [hn] at h; cases h
      | some nd =>
        rw [hn] at h
        simp only [Option.some.injEq] at h
        subst h
        exact .call net i nd c hn hk (guard_of_ok hn hgd)
    · rw [if_neg hgd] at h; cases h
  | tx i tag calls s f =>
    simp only [actC] at h
    by_cases hgd : guardOK net i = true
    · rw [if_pos hgd] at h
      simp only [DTx.act] at h
      cases hn : net.nodes[i]? with
      | none => rw [hn] at h; cases h
      | some nd =>
        rw [hn] at h
        simp only [Option.some.injEq] at h
        subst h
        exact .tx net i nd tag calls s f hn hk (guard_of_ok hn hgd)
    · rw [if_neg hgd] at h; cases h
  | patch i tgt =>
    simp only [actC] at h
    by_cases hgd : guardOK net i = true
    · rw [if_pos hgd] at h
      simp only [DTx.act] at h
      cases hn : net.nodes[i]? with
      | none => rw [hn] at h; cases h
      | some nd =>
        rw [hn] at h
        simp only [Option.some.injEq] at h
        subst h
        exact .patch net i nd tgt hn hk (guard_of_ok hn hgd)
    · rw [if_neg hgd] at h; cases h
  | pushAll i =>
    simp only [actC, DTx.act] at h
    cases hn : net.nodes[i]? with
    | none => rw [hn] at h; cases h
    | some nd =>
      rw [hn] at h
      simp only [Option.some.injEq] at h
      subst h
      exact .pushAll net i nd hn
  | pullAll i =>
    simp only [actC, DTx.act] at h
    cases hn : net.nodes[i]? with
    | none => rw [hn] at h; cases h
    | some nd =>
      rw [hn] at h
      simp only [Option.some.injEq] at h
      subst h
      exact .pullAll net i nd hn

theorem reachC_run {cuid : Nat → String} {n : Nat} : ∀ (as : List DTx.Act) {net net' : Net}, ReachC cuid n net →
    runC net as = some net' → (∀ a ∈ as, ActOK a) → ReachC cuid n net'
  | [], _, _, hr, h, _ => by
    simp only [runC, Option.some.injEq] at h
    exact h ▸ hr
  | a :: as, net, net', hr, h, hk => by
    simp only [runC] at h
    cases ha : actC net a with
    | none => rw [ha] at h; cases h
    | some net1 =>
      rw [ha] at h
      exact reachC_run as (.step hr (stepC_of_actC ha (hk a (by simp)))) h
        (fun a' h' => hk a' (List.mem_cons_of_mem _ h'))

/-! ## 2. the invariant of the header-free side is `DNetC.InvC` (Proofs/DocNetCreate.lean): `DocNet`'s invariant without
`DR.Life`, with the snapshot entry allowed, `fresh`, `creator`, `log_head`.  What follows is Proofs/DocTxNet.lean §3–§10 over it. -/

/-! ## 3. the invariant under clock bumps, node replacement, many pushes -/

/-- state and buffer untouched, the clock (same client, same era) not lowered -/
def Bump (r r' : Replica) : Prop :=
  r'.state = r.state ∧ r'.buffer = r.buffer ∧ r'.opId.cuid = r.opId.cuid ∧ r'.opId.era = r.opId.era ∧
    r.opId.lamport ≤ r'.opId.lamport

theorem dinv_clock {L L' : OpId} {d : Doc} (he : L'.era = L.era) (hl : L.lamport ≤ L'.lamport)
    (I : DP.DInv L 0 d) : DP.DInv L' 0 d := by
  have key : ∀ t, DP.St L 0 t → DP.St L' 0 t := by
    intro t ht
    refine ⟨ht.1.trans he.symm, Or.inl ?_⟩
    rcases ht.2 with h | h <;> omega
  exact ⟨I.wf, I.acyc, I.root, I.sizes, fun c m hf => by
      obtain ⟨s1, s2, s3⟩ := I.stamps c m hf
      exact ⟨key _ s1, fun t ht => key _ (s2 t ht), fun o ho => key _ (s3 o ho)⟩,
    I.ordnd, I.linked, I.scalar⟩

theorem docInv_bump {r r' : Replica} (h : Bump r r') (hi : DP.DocInv r) : DP.DocInv r' := by
  obtain ⟨d, hs, I, hk⟩ := hi
  exact ⟨d, h.1.trans hs, dinv_clock h.2.2.2.1 h.2.2.2.2 I, hk⟩

/-- the document invariant only reads state and clock -/
theorem docInv_of_core {r r' : Replica} (hs : r'.state = r.state) (hid : r'.opId = r.opId) (hi : DP.DocInv r) :
    DP.DocInv r' := by
  obtain ⟨d, hs0, I, hk⟩ := hi
  exact ⟨d, hs.trans hs0, hid ▸ I, hk⟩

/-- the node invariant only reads state, buffer and clock of the replica, and the clock only from below -/
theorem ninv_bump {cuid : Nat → String} {n : Nat} {log : List LEnt} {i : Nat} {nd : Node} {A : List LEnt}
    (N : NodeInvC cuid n log i nd A) {r' : Replica} (h : Bump nd.r r') : NodeInvC cuid n log i { nd with r := r' } A := by
  have h' := h
  obtain ⟨h1, h2, h3, h4, h5⟩ := h
  exact {
    dinv := docInv_bump h' N.dinv
    hist := N.hist
    fresh := N.fresh
    creator := by intro h0; show r'.buffer.head? = _; rw [h2]; exact N.creator h0
    st := by show r'.state = _; rw [h1]; exact N.st
    valid := N.valid
    pushed_le := by show nd.pushed ≤ r'.buffer.length; rw [h2]; exact N.pushed_le
    pulled_le := N.pulled_le
    own_eq := by show own i A = r'.buffer.map _; rw [h2]; exact N.own_eq
    oth_eq := N.oth_eq
    log_own := by show own i log = (r'.buffer.take nd.pushed).map _; rw [h2]; exact N.log_own
    clock_cuid := by show r'.opId.cuid = _; rw [h3]; exact N.clock_cuid
    clock_era := by show r'.opId.era = _; rw [h4]; exact N.clock_era
    lam_le := by
      intro e he
      show _ ≤ r'.opId.lamport
      exact Nat.le_trans (N.lam_le e he) h5
    ent_ok := N.ent_ok
    buf_sorted := by show r'.buffer.Pairwise _; rw [h2]; exact N.buf_sorted
    keys := N.keys
    causal := N.causal }

theorem sinv_replace {cuid : Nat → String} {n : Nat} {net : Net} {ap : Nat → List LEnt} (I : InvC cuid n net ap)
    {i : Nat} {nd nd' : Node} {A' : List LEnt} (hi : net.nodes[i]? = some nd)
    (N' : NodeInvC cuid n net.log i nd' A') :
    InvC cuid n ⟨net.nodes.set i nd', net.log⟩ (Function.update ap i A') := by
  refine ⟨I.distinct, by simp [I.len], ?_, I.log_auth, I.log_keys, I.log_head⟩
  intro j nd'' hj
  rcases getElem?_set_some hj with ⟨rfl, rfl⟩ | ⟨hne, hj'⟩
  · rw [Function.update_self]; exact N'
  · rw [Function.update_of_ne hne]; exact I.node j nd'' hj'

theorem sinv_bump {cuid : Nat → String} {n : Nat} {net : Net} {ap : Nat → List LEnt} (I : InvC cuid n net ap)
    {i : Nat} {nd : Node} {r' : Replica} (hi : net.nodes[i]? = some nd) (h : Bump nd.r r') :
    ∃ ap', InvC cuid n ⟨net.nodes.set i { nd with r := r' }, net.log⟩ ap' :=
  ⟨_, sinv_replace I hi (ninv_bump (I.node i nd hi) h)⟩

open Orda.LTx (set_self getElem?_set_self')

/-- MANY pushes of `DocNet` in a row: the whole rest of the buffer -/
theorem sinv_pushes {cuid : Nat → String} {n : Nat} {i : Nat} {ap : Nat → List LEnt} : ∀ (k : Nat) (net : Net)
    (nd : Node), InvC cuid n net ap → net.nodes[i]? = some nd → nd.pushed + k = nd.r.buffer.length →
    InvC cuid n ⟨net.nodes.set i { nd with pushed := nd.r.buffer.length },
      net.log ++ (nd.r.buffer.drop nd.pushed).map (fun o => (i, o))⟩ ap
  | 0, net, nd, I, hi, hk => by
    have e1 : ({ nd with pushed := nd.r.buffer.length } : Node) = nd := by
      have : nd.pushed = nd.r.buffer.length := by omega
      cases nd
      simp only at this
      subst this
      rfl
    have e2 : nd.r.buffer.drop nd.pushed = [] := List.drop_eq_nil_of_le (by omega)
    rw [e1, e2, set_self hi]
    simpa using I
  | k + 1, net, nd, I, hi, hk => by
    have hp : nd.pushed < nd.r.buffer.length := by omega
    have ho : nd.r.buffer[nd.pushed]? = some nd.r.buffer[nd.pushed] := List.getElem?_eq_getElem hp
    have I1 := I.push hi ho
    have hi1 : ∀ nd1 : Node, (net.nodes.set i nd1)[i]? = some nd1 := fun nd1 => getElem?_set_self' hi
    have I2 := sinv_pushes k _ _ I1 (hi1 _) (by show nd.pushed + 1 + k = nd.r.buffer.length; omega)
    rw [List.set_set] at I2
    have e : nd.r.buffer.drop nd.pushed = nd.r.buffer[nd.pushed] :: nd.r.buffer.drop (nd.pushed + 1) :=
      (List.drop_eq_getElem_cons hp)
    rw [e, List.map_cons, List.append_cons]
    exact I2



/-! ## 4. erasing the headers: the abstraction to a header-free state (`isHdr`, `eraseB`, `eraseL`, `IsUnit`, `flatU`,
`UnitsB`, `UnitsL` and their lemmas are those of `ListTxNet`: they do not depend on the datatype) -/

open Orda.LTx (eraseB_append eraseL_append eraseL_map filter_drop_len filter_take_len eraseB_all eraseL_snd
  unitsB_nil unitsL_nil unitsB_snoc flatU_append flatU_cons unitsL_append flatU_map_author unitsL_of_B unit_head
  isHdr_false_of wire_hdr applyUnit_single applyUnit_hdr)

theorem toDOp_hdr {o : Op} (h : isHdr o = true) : toDOp o = none := by
  unfold isHdr at h
  unfold toDOp
  split at h
  · rename_i tag k hb; rw [hb]
  · cases h

theorem isHdr_of_toDOp {o : Op} {x : DOp} (h : toDOp o = some x) : isHdr o = false := by
  cases hh : isHdr o
  · rfl
  · rw [toDOp_hdr hh] at h; cases h

theorem filterMap_toDOp_eraseB (b : List Op) : (eraseB b).filterMap toDOp = b.filterMap toDOp := by
  induction b with
  | nil => rfl
  | cons o os ih =>
    unfold eraseB at ih ⊢
    rw [List.filter_cons]
    cases h : isHdr o
    · simp only [nh, h, Bool.not_false, if_true, List.filterMap_cons, ih]
    · simp only [nh, h, Bool.not_true, Bool.false_eq_true, if_false, List.filterMap_cons, toDOp_hdr h, ih]

theorem oth_eraseL (i : Nat) (l : List LEnt) : oth i (eraseL l) = eraseL (oth i l) := by
  unfold oth eraseL
  rw [List.filter_filter, List.filter_filter]
  congr 1
  funext e
  exact Bool.and_comm _ _

theorem oth_map_self (i : Nat) (u : List Op) : oth i (u.map (fun o => ((i, o) : LEnt))) = [] := by
  simp [oth]

theorem oth_map_ne {i a : Nat} (h : a ≠ i) (u : List Op) :
    oth i (u.map (fun o => ((a, o) : LEnt))) = u.map (fun o => (a, o)) := by
  unfold oth
  rw [List.filter_eq_self]
  intro e he
  obtain ⟨o, _, rfl⟩ := List.mem_map.mp he
  simp [h]

theorem own_map_self (i : Nat) (u : List Op) :
    own i (u.map (fun o => ((i, o) : LEnt))) = u.map (fun o => (i, o)) := by
  unfold own
  rw [List.filter_eq_self]
  intro e he
  obtain ⟨o, _, rfl⟩ := List.mem_map.mp he
  simp

theorem own_map_ne {i a : Nat} (h : a ≠ i) (u : List Op) : own i (u.map (fun o => ((a, o) : LEnt))) = [] := by
  unfold own
  rw [List.filter_eq_nil_iff]
  intro e he
  obtain ⟨o, _, rfl⟩ := List.mem_map.mp he
  simp [h]

/-- node `nd0` (header-free) is node `nd` of this system with the headers erased -/
structure AbsNode (log : List LEnt) (nd nd0 : Node) : Prop where
  st : nd0.r.state = nd.r.state
  id : nd0.r.opId = nd.r.opId
  buf : nd0.r.buffer = eraseB nd.r.buffer
  pushed : nd0.pushed = (eraseB (nd.r.buffer.take nd.pushed)).length
  pulled : nd0.pulled = (eraseL (log.take nd.pulled)).length

/-- `net0` is `net` with the headers erased from log and buffers -/
structure Abs (net net0 : Net) : Prop where
  log : net0.log = eraseL net.log
  len : net0.nodes.length = net.nodes.length
  node : ∀ (i : Nat) (nd : Node), net.nodes[i]? = some nd → ∃ nd0, net0.nodes[i]? = some nd0 ∧ AbsNode net.log nd nd0

theorem abs_set {net net0 : Net} (h : Abs net net0) {i : Nat} {nd' nd0' : Node} (hn : AbsNode net.log nd' nd0') :
    Abs ⟨net.nodes.set i nd', net.log⟩ ⟨net0.nodes.set i nd0', net0.log⟩ := by
  refine ⟨h.log, by simp [h.len], ?_⟩
  intro j nd hj
  rcases getElem?_set_some hj with ⟨rfl, rfl⟩ | ⟨hne, hj'⟩
  · have hlt : j < net.nodes.length := by
      have := (List.getElem?_eq_some_iff.mp hj).1
      simpa using this
    refine ⟨nd0', ?_, hn⟩
    show (net0.nodes.set j nd0')[j]? = some nd0'
    rw [List.getElem?_set_self (by rw [h.len]; exact hlt)]
  · obtain ⟨nd0, h1, h2⟩ := h.node j nd hj'
    refine ⟨nd0, ?_, h2⟩
    show (net0.nodes.set i nd0')[j]? = some nd0
    rw [List.getElem?_set_ne (fun e => hne e.symm)]
    exact h1



/-! ## 5. calls and transaction bodies, seen from the header-free side -/

open Orda.LTx (call_view call_of_exec_ok)

theorem call_no_panic {r : Replica} (h : DP.DocInv r) (c : Call) : (r.call c).2.isPanic = false := by
  cases hres : (r.call c).2 with
  | panic w => exact absurd hres (DP.doc_call_no_panic r c h w)
  | ok v => rfl
  | err e => rfl

theorem prepare_done_no_panic {r : Replica} (h : DP.DocInv r) {c : Call} {w : String}
    (hp : c.prepare r.state = .done (.panic w)) : False := by
  have := DP.call_of_done hp
  exact DP.doc_call_no_panic r c h w (by rw [this])

theorem execLocalBase_no_panic {r : Replica} (h : DP.DocInv r) {c : Call} {b : OpBody} {post : Ret → Ret}
    (hp : c.prepare r.state = .op b post) {r' : Replica} {w : String}
    (he : r.execLocalBase b = (r', .panic w)) : False := by
  have := call_eq r c
  rw [hp] at this
  simp only [he] at this
  exact DP.doc_call_no_panic r c h w (by rw [this])

/-- an operation node `i` queues: not a header, carries the client identifier of `i` -/
structure GoodOp (cuid : Nat → String) (i : Nat) (o : Op) : Prop where
  nh : isHdr o = false
  cu : o.id.cuid = cuid i

/-- what a call queues -/
theorem call_new_good {cuid : Nat → String} {n : Nat} {log : List LEnt} {i : Nat} {nd : Node} {A : List LEnt}
    (N : NodeInvC cuid n log i nd A) {c : Call} (hc : CallOK c) {new : List Op}
    (hb : (nd.r.call c).1.buffer = nd.r.buffer ++ new) :
    nd.r.opId.lamport ≤ (nd.r.call c).1.opId.lamport ∧
    (new = [] ∨ ∃ o, new = [o] ∧ GoodOp cuid i o ∧ o.id.lamport = nd.r.opId.lamport + 1 ∧
      (nd.r.call c).1.opId.lamport = nd.r.opId.lamport + 1) := by
  rcases call_casesC N.dinv N.st N.hist hc with h | ⟨o, x, hbuf, hid, hop, hst, hx, hg, hv⟩
  · refine ⟨Nat.le_of_eq (by rw [h]), Or.inl ?_⟩
    rw [h] at hb
    have := congrArg List.length hb
    simp only [List.length_append] at this
    exact List.eq_nil_of_length_eq_zero (by omega)
  · rw [hbuf] at hb
    have hn : new = [o] := (List.append_cancel_left hb).symm
    refine ⟨by rw [hop]; simp [OpId.next], Or.inr ⟨o, hn, ⟨isHdr_of_toDOp hx, ?_⟩, by rw [hid]; rfl, by rw [hop]; rfl⟩⟩
    rw [hid]
    exact N.clock_cuid

/-- **the body of a transaction, seen from the header-free side**: an abstract replica `ar` (same state and clock) that
    issues the successful operations as plain calls stays in the node invariant; the body never panics; the operations it
    records are good and newer than the clock at the start -/
theorem body_sim {cuid : Nat → String} {n : Nat} {log0 : List LEnt} {i pu pl : Nat} (hin : i < n)
    (hgd : i ≠ 0 → 0 < pl) (stop : Bool) :
    ∀ (calls : List Call), (∀ c ∈ calls, CallOK c) →
    ∀ (r : Replica) (acc : List Op) (outs : List (Outcome Ret)) (ar : Replica) (A : List LEnt),
    ar.state = r.state → ar.opId = r.opId → NodeInvC cuid n log0 i ⟨ar, pu, pl⟩ A →
    ∀ {r1 ops outs' stopped pan}, Replica.txCalls.body stop r acc outs calls = (r1, ops, outs', stopped, pan) →
    pan = none ∧ ∃ ar1 A1 new, ops = acc ++ new ∧ ar1.state = r1.state ∧ ar1.opId = r1.opId ∧
      ar1.buffer = ar.buffer ++ new.map Op.wire ∧ NodeInvC cuid n log0 i ⟨ar1, pu, pl⟩ A1 ∧
      (∀ o ∈ new, GoodOp cuid i o.wire ∧ ar.opId.lamport < o.id.lamport) ∧
      ar.opId.lamport ≤ ar1.opId.lamport := by
  intro calls
  induction calls with
  | nil =>
    intro _ r acc outs ar A hs hid N r1 ops outs' stopped pan h
    simp only [Replica.txCalls.body, Prod.mk.injEq] at h
    obtain ⟨h1, h2, _, _, h5⟩ := h
    subst h1 h2 h5
    exact ⟨rfl, ar, A, [], by simp, hs, hid, by simp, N, by simp, Nat.le_refl _⟩
  | cons c cs ih =>
    intro hcs r acc outs ar A hs hid N r1 ops outs' stopped pan h
    have hc : CallOK c := hcs c (by simp)
    have ih := ih (fun c' h' => hcs c' (List.mem_cons_of_mem _ h'))
    have stay : ∀ {r1' ops' outs'' stopped' pan'}, (r1', ops', outs'', stopped', pan') = (r1, ops, outs', stopped, pan) →
        r1' = r → ops' = acc → pan' = none →
        pan = none ∧ ∃ ar1 A1 new, ops = acc ++ new ∧ ar1.state = r1.state ∧ ar1.opId = r1.opId ∧
          ar1.buffer = ar.buffer ++ new.map Op.wire ∧ NodeInvC cuid n log0 i ⟨ar1, pu, pl⟩ A1 ∧
          (∀ o ∈ new, GoodOp cuid i o.wire ∧ ar.opId.lamport < o.id.lamport) ∧
          ar.opId.lamport ≤ ar1.opId.lamport := by
      intro r1' ops' outs'' stopped' pan' e e1 e2 e3
      simp only [Prod.mk.injEq] at e
      obtain ⟨h1, h2, _, _, h5⟩ := e
      subst e1 e2 e3 h1 h2
      exact ⟨h5.symm, ar, A, [], by simp, hs, hid, by simp, N, by simp, Nat.le_refl _⟩
    have hinv : DP.DocInv r := docInv_of_core hs.symm hid.symm N.dinv
    rw [Replica.txCalls.body] at h
    split at h
    · exact ih _ _ _ _ _ hs hid N h
    · split at h
      · exact stay h rfl rfl rfl
      · exact ih _ _ _ _ _ hs hid N h
    · rename_i w hprep
      exact (prepare_done_no_panic hinv hprep).elim
    · rename_i b post hprep
      rcases he : r.execLocalBase b with ⟨r', (⟨op, ret⟩ | e | w)⟩ <;> rw [he] at h <;> simp only [] at h
      · obtain ⟨c1, c2, c3⟩ := call_of_exec_ok hs hid hprep he
        obtain ⟨A', N'⟩ := N.call hin hc hgd
        obtain ⟨hmono, hnew⟩ := call_new_good N hc (new := [op.wire]) c3
        have hgood : GoodOp cuid i op.wire ∧ op.wire.id.lamport = ar.opId.lamport + 1 ∧
            (ar.call c).1.opId.lamport = ar.opId.lamport + 1 := by
          rcases hnew with h0 | ⟨o, h0, g, g1, g2⟩
          · cases h0
          · simp only [List.cons.injEq, and_true] at h0
            subst h0
            exact ⟨g, g1, g2⟩
        obtain ⟨hp, ar1, A1, new, e1, e2, e3, e4, N1, e5, e6⟩ := ih r' (acc ++ [op]) _ (ar.call c).1 A' c1 c2 N' h
        refine ⟨hp, ar1, A1, op :: new, by simp [e1], e2, e3, by simp [e4, c3], N1, ?_, ?_⟩
        · intro o ho
          rcases List.mem_cons.mp ho with rfl | ho
          · exact ⟨hgood.1, by have := hgood.2.1; rw [wire_id] at this; omega⟩
          · obtain ⟨g1, g2⟩ := e5 o ho
            exact ⟨g1, by have := hgood.2.2; omega⟩
        · have := hgood.2.2; omega
      · have := execLocalBase_err he
        subst this
        split at h
        · exact stay h rfl rfl rfl
        · exact ih _ _ _ _ _ hs hid N h
      · exact (execLocalBase_no_panic hinv hprep he).elim



/-! ## 6. the body of a multi-operation patch, seen from the header-free side -/

open Orda.DPatch (Carr GoodV callOf)

theorem callOf_not_empty_insert {hd : Ts} {k : String} {op : PatchOp} {c0 : JVal} {c : Call}
    (h : callOf hd k op c0 = some c) : ∀ h' pos, c ≠ .dinsert h' pos [] := by
  intro h' pos e
  subst e
  cases c0 <;> cases op <;> simp [callOf] at h
  all_goals (try split at h) <;> simp at h

/-- `DPatch.op_step`, also telling that the call is one the system accepts -/
theorem op_step' {L : OpId} {d : Doc} (I : DP.DInv L 0 d) (hk : KeysND d) {op : PatchOp} {t' : JVal}
    (happ : applyAt op op.path d.view.canon = some t') (hgood : Carr GoodV op) :
    ∃ c b post d' bd ret' b', d.patchCall op = .ok (some c) ∧ CallOK c ∧ c.prepare (.doc d) = .op b post ∧
      b.isMeta = false ∧ execLocal (.doc d) L.next.ts b = .ok (.doc d', bd, ret') ∧ d'.view.canon = t' ∧
      DP.DInv L b' d' ∧ KeysND d' := by
  rcases List.eq_nil_or_concat op.path with hnil | ⟨p, k, hpath⟩
  · rw [hnil] at happ
    simp [applyAt] at happ
  · rw [List.concat_eq_append] at hpath
    rw [hpath, PD.applyAt_append] at happ
    cases hg : PD.getAt p d.view.canon with
    | none => simp [hg] at happ
    | some c0 =>
      simp only [hg, Option.bind_some] at happ
      cases ha : applyAt op [k] c0 with
      | none => simp [ha] at happ
      | some c' =>
        simp only [ha, Option.bind_some] at happ
        obtain ⟨π, hd, hloc, hres, hview, hset⟩ := DPatch.resolve_root I hk p c0 hg
        rw [hset c'] at happ
        obtain ⟨hl, _⟩ := DP.loc_of I hk hloc
        have hsub := hl.sub
        rw [hview] at hsub
        obtain ⟨c, hcall, ⟨ret, hstep⟩, hh, hck, hm⟩ := DPatch.step_of_apply hd hsub ha happ hgood
        have hpc := DPatch.patchCall_eq I hk hpath hres (DPatch.alive_located I hloc) hview hcall hgood
        obtain ⟨b, post, d', bd, ret', b', q1, q2, q3, q4, q5, q6⟩ := DPatch.exec_step I hk hloc hh hck hm hstep
        exact ⟨c, b, post, d', bd, ret', b', hpc, ⟨hck, callOf_not_empty_insert hcall⟩, q1, q2, q3, q4, q5, q6⟩

theorem frame_trans {r r' r1 : Replica} (h1 : r'.frame r = r') (h2 : r1.frame r' = r1) : r1.frame r = r1 := by
  obtain ⟨a1, a2, a3, a4, a5, a6⟩ := frame_fields h1
  obtain ⟨b1, b2, b3, b4, b5, b6⟩ := frame_fields h2
  cases r1; cases r
  simp only [Replica.frame] at *
  simp_all

/-- **the body of a multi-operation patch**: every operation of a script that rewrites the view into `tf` and carries good
    values succeeds; on the header-free side the abstract replica issues them as plain calls -/
theorem patch_body_sim {cuid : Nat → String} {n : Nat} {log0 : List LEnt} {i pu pl : Nat} (hin : i < n)
    (hgd : i ≠ 0 → 0 < pl) :
    ∀ (ops : List PatchOp) (r : Replica) (acc : List Op) (d : Doc) (tf : JVal) (ar : Replica) (A : List LEnt),
    r.state = .doc d → applyPatch ops d.view.canon = some tf → (∀ op ∈ ops, Carr GoodV op) →
    ar.state = r.state → ar.opId = r.opId → NodeInvC cuid n log0 i ⟨ar, pu, pl⟩ A →
    ∃ r1 new d1 ar1 A1, Replica.patch.body r acc ops = (r1, acc ++ new, none) ∧ new.length = ops.length ∧
      r1.state = .doc d1 ∧ d1.view.canon = tf ∧ r1.frame r = r1 ∧ Replays r.opId r.state new r1.opId r1.state ∧
      ar1.state = r1.state ∧ ar1.opId = r1.opId ∧ ar1.buffer = ar.buffer ++ new.map Op.wire ∧
      NodeInvC cuid n log0 i ⟨ar1, pu, pl⟩ A1 ∧
      (∀ o ∈ new, GoodOp cuid i o.wire ∧ ar.opId.lamport < o.id.lamport) ∧
      ar.opId.lamport ≤ ar1.opId.lamport := by
  intro ops
  induction ops with
  | nil =>
    intro r acc d tf ar A hs happ _ has hid N
    simp only [applyPatch, Option.some.injEq] at happ
    exact ⟨r, [], d, ar, A, by simp [Replica.patch.body], rfl, hs, happ, rfl, replays_nil _ _, has, hid, by simp, N,
      by simp, Nat.le_refl _⟩
  | cons op rest ih =>
    intro r acc d tf ar A hs happ hgood has hid N
    have hinv : DP.DocInv r := docInv_of_core has.symm hid.symm N.dinv
    obtain ⟨I, hk⟩ := DPatch.inv_of hs hinv
    simp only [applyPatch] at happ
    cases h1 : applyAt op op.path d.view.canon with
    | none => simp [h1] at happ
    | some t1 =>
      simp only [h1, Option.bind_some] at happ
      obtain ⟨c, b, post, d', bd, ret', b', hpc, hcok, hprep, hmeta, hexec, hview, I', hk'⟩ :=
        op_step' I hk h1 (hgood op (by simp))
      have hex : r.execLocalBase b =
          ({ r with opId := r.opId.next, state := .doc d' }, .ok (⟨r.opId.next, bd⟩, ret')) := by
        simp only [Replica.execLocalBase, hmeta, Bool.false_eq_true, if_false, hs, hexec]
      have hprep' : c.prepare r.state = .op b post := by rw [hs]; exact hprep
      obtain ⟨c1, c2, c3⟩ := call_of_exec_ok has hid hprep' hex
      obtain ⟨A', N'⟩ := N.call hin hcok hgd
      obtain ⟨hmono, hnew⟩ := call_new_good N hcok (new := [Op.wire ⟨r.opId.next, bd⟩]) c3
      have hgd : GoodOp cuid i (Op.wire ⟨r.opId.next, bd⟩) ∧
          (Op.wire ⟨r.opId.next, bd⟩).id.lamport = ar.opId.lamport + 1 ∧
          (ar.call c).1.opId.lamport = ar.opId.lamport + 1 := by
        rcases hnew with h0 | ⟨o, h0, g, g1, g2⟩
        · cases h0
        · simp only [List.cons.injEq, and_true] at h0
          subst h0
          exact ⟨g, g1, g2⟩
      rw [← hview] at happ
      obtain ⟨r1, new, d1, ar1, A1, q1, q2, q3, q4, q5, q6, q7, q8, q9, N1, q10, q11⟩ :=
        ih { r with opId := r.opId.next, state := .doc d' } (acc ++ [⟨r.opId.next, bd⟩]) d' tf (ar.call c).1 A' rfl happ
          (fun o ho => hgood o (by simp [ho])) c1 c2 N'
      refine ⟨r1, ⟨r.opId.next, bd⟩ :: new, d1, ar1, A1, ?_, by simp [q2], q3, q4, frame_trans rfl q5,
        replays_append (replays_local _ _ _ _ _ hex) q6, q7, q8, by simp [q9, c3], N1, ?_, ?_⟩
      · rw [Replica.patch.body.eq_2]
        simp only [hs, hpc, hprep, hex]
        rw [q1]
        simp
      · intro o ho
        rcases List.mem_cons.mp ho with rfl | ho
        · have e1 : r.opId.next.lamport = ar.opId.lamport + 1 := hgd.2.1
          exact ⟨hgd.1, by show ar.opId.lamport < r.opId.next.lamport; omega⟩
        · obtain ⟨g1, g2⟩ := q10 o ho
          have e2 : (ar.call c).1.opId.lamport = ar.opId.lamport + 1 := hgd.2.2
          exact ⟨g1, by omega⟩
      · have e2 : (ar.call c).1.opId.lamport = ar.opId.lamport + 1 := hgd.2.2
        omega



/-! ## 7. `receive` of a sequence of units, step by step against the header-free invariant

Unlike for lists, whether a remote document operation can be executed without a panic depends on the STATE (`GoodD`), so the
header-free side is advanced together with `receive`: every executed operation is one `pull` of `DocNet`, and
`InvC.deliver` says that it is applicable there. -/

open Orda.LTx (Le exS exS_state le_exec sync_mono)

/-- the header-free net with node `i` replaced -/
def NetAt (net0 : Net) (i : Nat) (S : Replica) (pu pl : Nat) : Net := ⟨net0.nodes.set i ⟨S, pu, pl⟩, net0.log⟩

theorem netAt_self {net0 : Net} {i : Nat} {nd0 : Node} (hi : net0.nodes[i]? = some nd0) :
    NetAt net0 i nd0.r nd0.pushed nd0.pulled = net0 := by
  unfold NetAt
  have : (⟨nd0.r, nd0.pushed, nd0.pulled⟩ : Node) = nd0 := rfl
  rw [this, set_self hi]

theorem netAt_node {net0 : Net} {i : Nat} (hlt : i < net0.nodes.length) (S : Replica) (pu pl : Nat) :
    (NetAt net0 i S pu pl).nodes[i]? = some ⟨S, pu, pl⟩ := by
  unfold NetAt
  simp [hlt]

theorem netAt_netAt (net0 : Net) (i : Nat) (S S' : Replica) (pu pl pu' pl' : Nat) :
    (⟨(NetAt net0 i S pu pl).nodes.set i ⟨S', pu', pl'⟩, (NetAt net0 i S pu pl).log⟩ : Net) = NetAt net0 i S' pu' pl' := by
  unfold NetAt
  simp only [List.set_set]

theorem drop_cons {α : Type} {l : List α} {p : Nat} {x : α} {t : List α} (h : l.drop p = x :: t) :
    l[p]? = some x ∧ l.drop (p + 1) = t := by
  constructor
  · have : (l.drop p)[0]? = some x := by rw [h]; rfl
    rw [List.getElem?_drop] at this
    simpa using this
  · have : (l.drop p).drop 1 = t := by rw [h]; rfl
    rw [List.drop_drop] at this
    exact this

theorem execRemoteBase_snd {r r' : Replica} (h : r.state = r'.state) (o : Op) :
    (r.execRemoteBase o).2 = (r'.execRemoteBase o).2 := by
  unfold Replica.execRemoteBase
  rw [h]
  cases execRemote r'.state o.id.ts o.body <;> rfl

section steps
variable {cuid : Nat → String} {n : Nat} {net0 : Net} {i : Nat}

/-- node `i` skips an entry of its own -/
theorem pull_own_step (hlt : i < net0.nodes.length) {S : Replica} {pu pl : Nat} {ap : Nat → List LEnt}
    (I : InvC cuid n (NetAt net0 i S pu pl) ap) {o : Op} (hl : net0.log[pl]? = some (i, o)) :
    ∃ ap', InvC cuid n (NetAt net0 i S pu (pl + 1)) ap' := by
  obtain ⟨ap', I'⟩ := I.pull (netAt_node hlt S pu pl) (a := i) (o := o) hl
  simp only [if_true] at I'
  rw [netAt_netAt] at I'
  exact ⟨ap', I'⟩

/-- node `i` executes an entry of another node: applicable, hence no panic -/
theorem pull_oth_step (hlt : i < net0.nodes.length) {S : Replica} {pu pl : Nat} {ap : Nat → List LEnt}
    (I : InvC cuid n (NetAt net0 i S pu pl) ap) {a : Nat} {o : Op} (hl : net0.log[pl]? = some (a, o)) (ha : a ≠ i) :
    (∃ ap', InvC cuid n (NetAt net0 i (exS S o) pu (pl + 1)) ap') ∧ (S.execRemoteBase o).2 = none := by
  have hi := netAt_node hlt S pu pl
  obtain ⟨ap', I'⟩ := I.pull hi (a := a) (o := o) hl
  simp only [if_neg ha] at I'
  rw [netAt_netAt] at I'
  obtain ⟨_, _, hcase⟩ := I.deliver hi (a := a) (o := o) hl ha
  have N := I.node i _ hi
  rcases hcase with ⟨hsnap, _, hA⟩ | ⟨x, hx, hv, hg⟩
  · have ho : o = snapOp cuid := congrArg Prod.snd hsnap
    subst ho
    have hs0 : S.state = .doc Doc.empty := by
      have := N.st
      rw [hA] at this
      exact this
    exact ⟨⟨ap', I'⟩, (DNetC.execRemoteBase_snap S hs0 cuid).2⟩
  · exact ⟨⟨ap', I'⟩, (execRemoteBase_is_applyD S _ N.st o x hx hg).2⟩

theorem state_doc_at (hlt : i < net0.nodes.length) {S : Replica} {pu pl : Nat} {ap : Nat → List LEnt}
    (I : InvC cuid n (NetAt net0 i S pu pl) ap) : ∃ d, S.state = .doc d :=
  ⟨_, (I.node i _ (netAt_node hlt S pu pl)).st⟩

/-- the entries of a unit written by `i` itself are skipped -/
theorem pulls_own (hlt : i < net0.nodes.length) {pu : Nat} : ∀ (es : List Op) (S : Replica) (pl : Nat)
    (ap : Nat → List LEnt) (rest : List LEnt), InvC cuid n (NetAt net0 i S pu pl) ap →
    net0.log.drop pl = es.map (fun o => ((i, o) : LEnt)) ++ rest →
    ∃ ap', InvC cuid n (NetAt net0 i S pu (pl + es.length)) ap'
  | [], S, pl, ap, rest, I, _ => ⟨ap, I⟩
  | o :: os, S, pl, ap, rest, I, hd => by
    obtain ⟨h0, h1⟩ := drop_cons (by simpa using hd)
    obtain ⟨ap1, I1⟩ := pull_own_step hlt I h0
    obtain ⟨ap2, I2⟩ := pulls_own hlt os S (pl + 1) ap1 rest I1 h1
    refine ⟨ap2, ?_⟩
    have : pl + (o :: os).length = pl + 1 + os.length := by simp; omega
    rw [this]
    exact I2

/-- the operations of a foreign unit are executed one after the other, none panics -/
theorem go_sim (hlt : i < net0.nodes.length) {pu : Nat} {a : Nat} (ha : a ≠ i) : ∀ (ops : List Op) (S R : Replica)
    (pl : Nat) (ap : Nat → List LEnt) (rest : List LEnt), InvC cuid n (NetAt net0 i S pu pl) ap → Le S R →
    net0.log.drop pl = ops.map (fun o => ((a, o) : LEnt)) ++ rest →
    ∃ R' ap' S', Replica.applyUnit.go R ops = (R', .ok ()) ∧ InvC cuid n (NetAt net0 i S' pu (pl + ops.length)) ap' ∧
      Le S' R' ∧ S'.buffer = S.buffer
  | [], S, R, pl, ap, rest, I, h, _ => ⟨R, ap, S, by unfold Replica.applyUnit.go; rfl, I, h, rfl⟩
  | o :: os, S, R, pl, ap, rest, I, h, hd => by
    obtain ⟨h0, h1⟩ := drop_cons (by simpa using hd)
    obtain ⟨⟨ap1, I1⟩, hnp⟩ := pull_oth_step hlt I h0 ha
    have hnpR : (R.execRemoteBase o).2 = none := by rw [← execRemoteBase_snd h.st o]; exact hnp
    have e : R.execRemoteBase o = (exS R o, none) := by
      unfold exS
      rw [← hnpR]
    obtain ⟨R', ap2, S', g1, g2, g3, g4⟩ := go_sim hlt ha os (exS S o) _ (pl + 1) ap1 rest I1 (le_exec h o _) h1
    refine ⟨R', ap2, S', ?_, ?_, g3, ?_⟩
    · rw [applyUnit_go_cons, e]
      exact g1
    · have : pl + (o :: os).length = pl + 1 + os.length := by simp; omega
      rw [this]
      exact g2
    · rw [g4]
      exact execRemoteBase_buffer _ _

end steps

theorem execRemote_hdr (d : Doc) (ts : Ts) {o : Op} (ho : isHdr o = true) :
    execRemote (.doc d) ts o.body = .ok (.doc d) := by
  unfold isHdr at ho
  split at ho
  · rename_i tag k hb; rw [hb]; rfl
  · cases ho

theorem le_hdr {S R : Replica} (h : Le S R) {d : Doc} (hs : R.state = .doc d) {o : Op} (ho : isHdr o = true)
    (x : List Op) : Le S { exS R o with rbOps := x } := by
  refine ⟨?_, ?_, ?_, ?_⟩
  · show S.state = (exS R o).state
    rw [exS_state, hs, execRemote_hdr d _ ho, h.st, hs]
  · show S.opId.cuid = (exS R o).opId.cuid
    unfold exS
    rw [execRemoteBase_opId, sync_cuid]; exact h.cu
  · show S.opId.era = (exS R o).opId.era
    unfold exS
    rw [execRemoteBase_opId, sync_era]; exact h.era
  · show S.opId.lamport ≤ (exS R o).opId.lamport
    unfold exS
    rw [execRemoteBase_opId]; exact Nat.le_trans h.lam (sync_lam _ _).1

theorem go_single_hdr {S R : Replica} {d : Doc} (h : Le S R) (hs : R.state = .doc d) {o : Op} (ho : isHdr o = true) :
    ∃ R', Replica.applyUnit.go R [o] = (R', .ok ()) ∧ Le S R' := by
  have hnp : (R.execRemoteBase o).2 = none := by
    unfold Replica.execRemoteBase
    rw [hs, execRemote_hdr d _ ho]
  have e : R.execRemoteBase o = (exS R o, none) := by
    unfold exS
    rw [← hnp]
  refine ⟨{ exS R o with rbOps := (exS R o).rbOps ++ [o] }, ?_, le_hdr h hs ho _⟩
  rw [applyUnit_go_cons, e]
  simp only []
  unfold Replica.applyUnit.go
  rfl

section recv
variable {cuid : Nat → String} {n : Nat} {net0 : Net} {i : Nat}

/-- **one foreign unit**: applied completely, never refused, never a panic; on the header-free side: its plain operations -/
theorem unit_sim (hlt : i < net0.nodes.length) {pu : Nat} {a : Nat} (ha : a ≠ i) {u : List Op} (hu : IsUnit u)
    {S R : Replica} {pl : Nat} {ap : Nat → List LEnt} {rest : List LEnt}
    (I : InvC cuid n (NetAt net0 i S pu pl) ap) (h : Le S R)
    (hd : net0.log.drop pl = (eraseB u).map (fun o => ((a, o) : LEnt)) ++ rest) :
    ∃ R' ap' S', R.applyUnit u = (R', .ok ()) ∧ InvC cuid n (NetAt net0 i S' pu (pl + (eraseB u).length)) ap' ∧
      Le S' R' ∧ S'.buffer = S.buffer := by
  rcases hu with ⟨o, rfl, ho⟩ | ⟨id, tag, ops, rfl, hops⟩
  · rw [applyUnit_single]
    rw [eraseB_all (by simpa using ho)] at hd ⊢
    exact go_sim hlt ha [o] S R pl ap rest I h hd
  · cases ops with
    | nil =>
      rw [applyUnit_single]
      have hh : isHdr (⟨id, .transaction tag ((([] : List Op).length : Int) + 1)⟩ : Op) = true := rfl
      have he : eraseB [(⟨id, .transaction tag ((([] : List Op).length : Int) + 1)⟩ : Op)] = [] := rfl
      rw [he]
      obtain ⟨d, hsd⟩ := state_doc_at hlt I
      obtain ⟨R', g1, g2⟩ := go_single_hdr h (h.st ▸ hsd) hh
      exact ⟨R', ap, S, g1, I, g2, rfl⟩
    | cons o ops =>
      rw [applyUnit_hdr]
      have he : eraseB ((⟨id, .transaction tag (((o :: ops).length : Int) + 1)⟩ : Op) :: o :: ops) = o :: ops := by
        have hh : isHdr (⟨id, .transaction tag (((o :: ops).length : Int) + 1)⟩ : Op) = true := rfl
        show List.filter nh _ = _
        rw [List.filter_cons]
        simp only [nh, hh, Bool.not_true, Bool.false_eq_true, if_false]
        exact eraseB_all hops
      rw [he] at hd ⊢
      exact go_sim hlt ha (o :: ops) S R pl ap rest I h hd

/-- **`receive` of the foreign units of a stretch of the log**: every unit is applied, the result is `.ok ()`; on the
    header-free side the plain entries of the stretch are pulled one by one (own entries skipped) -/
theorem recv_sim (hlt : i < net0.nodes.length) {pu : Nat} : ∀ (units : List (Nat × List Op)),
    (∀ au ∈ units, IsUnit au.2) →
    ∀ (fuel : Nat) (S R : Replica) (pl : Nat) (ap : Nat → List LEnt) (rest : List LEnt),
    InvC cuid n (NetAt net0 i S pu pl) ap → Le S R →
    net0.log.drop pl = eraseL (flatU units) ++ rest →
    ((oth i (flatU units)).map (·.2)).length ≤ fuel →
    ∃ R' ap' S', Replica.receive.go fuel R ((oth i (flatU units)).map (·.2)) = (R', .ok ()) ∧
      InvC cuid n (NetAt net0 i S' pu (pl + (eraseL (flatU units)).length)) ap' ∧ Le S' R' ∧ S'.buffer = S.buffer
  | [], _, fuel, S, R, pl, ap, rest, I, h, _, _ => ⟨R, ap, S, by simp [flatU, oth, receive_go_nil], I, h, rfl⟩
  | (a, u) :: units, hall, fuel, S, R, pl, ap, rest, I, h, hd, hf => by
    have hall' : ∀ au ∈ units, IsUnit au.2 := fun au hau => hall au (List.mem_cons_of_mem _ hau)
    have hu : IsUnit u := hall (a, u) List.mem_cons_self
    rw [flatU_cons, oth_append] at hf
    rw [flatU_cons, oth_append, eraseL_append, eraseL_map] at ⊢
    rw [flatU_cons, eraseL_append, eraseL_map] at hd
    simp only at hd hf ⊢
    rw [List.append_assoc] at hd
    have hlen : pl + ((eraseB u).map (fun o => ((a, o) : LEnt)) ++ eraseL (flatU units)).length =
        pl + (eraseB u).length + (eraseL (flatU units)).length := by simp; omega
    rw [hlen]
    have hd2 : ∀ (l : List LEnt), l.drop pl = (eraseB u).map (fun o => ((a, o) : LEnt)) ++ (eraseL (flatU units) ++ rest) →
        l.drop (pl + (eraseB u).length) = eraseL (flatU units) ++ rest := by
      intro l hl
      rw [← List.drop_drop, hl, List.drop_left' (by simp)]
    by_cases ha : a = i
    · rw [ha] at hd hf hd2 ⊢
      simp only [oth_map_self, List.nil_append] at hf ⊢
      obtain ⟨ap1, I1⟩ := pulls_own hlt (eraseB u) S pl ap _ I hd
      exact recv_sim hlt units hall' fuel S R _ ap1 rest I1 h (hd2 _ hd) hf
    · simp only [oth_map_ne ha, List.map_append, List.map_map] at hf ⊢
      have em : (u.map ((fun e : LEnt => e.2) ∘ fun o => ((a, o) : LEnt))) = u := by
        simp [Function.comp_def]
      rw [em] at hf ⊢
      obtain ⟨o, tl, rfl, hlen', hbad⟩ := unit_head hu
      cases fuel with
      | zero => simp at hf
      | succ fuel =>
        rw [List.cons_append, receive_go_succ, ← List.cons_append]
        rw [hbad _ (by simp)]
        simp only [Bool.false_eq_true, if_false, hlen', List.take_left', List.drop_left']
        obtain ⟨R1, ap1, S1, g1, g2, g3, g4⟩ := unit_sim hlt ha hu I h hd
        rw [g1]
        simp only []
        obtain ⟨R', ap', S', k1, k2, k3, k4⟩ :=
          recv_sim hlt units hall' fuel S1 R1 _ ap1 rest g2 g3 (hd2 _ hd) (by simp at hf ⊢; omega)
        exact ⟨R', ap', S', k1, k2, k3, k4.trans g4⟩

end recv



/-! ## 8. the invariant of the system -/

open Orda.LTx (hdr_safe)

/-- the real (header-carrying) side: the snapshot operation heads the creator's buffer and the log; a subscriber that has
    pulled nothing has queued nothing (the guard) -/
structure HeadOK (cuid : Nat → String) (net : Net) : Prop where
  log_head : ∀ e, net.log[0]? = some e → e = snapEnt cuid
  creator : ∀ nd, net.nodes[0]? = some nd → nd.r.buffer.head? = some (snapOp cuid)
  fresh : ∀ i nd, net.nodes[i]? = some nd → i ≠ 0 → nd.pulled = 0 → nd.r.buffer = []

/-- the guard on the real side gives the guard on the header-free side: the first log entry is not a header -/
theorem guard0 {cuid : Nat → String} {net : Net} (H : HeadOK cuid net) {nd nd0 : Node} (An : AbsNode net.log nd nd0)
    (hg : 0 < nd.pulled) (hle : nd.pulled ≤ net.log.length) : 0 < nd0.pulled := by
  rw [An.pulled]
  cases hlog : net.log with
  | nil => rw [hlog] at hle; simp at hle; omega
  | cons e t =>
    have he := H.log_head e (by rw [hlog]; rfl)
    subst he
    obtain ⟨p, hp⟩ : ∃ p, nd.pulled = p + 1 := ⟨nd.pulled - 1, by omega⟩
    rw [hp, List.take_succ_cons]
    have : nh (snapEnt cuid).2 = true := rfl
    simp only [eraseL, List.filter_cons, this, if_true, List.length_cons]
    omega

namespace HeadOK
variable {cuid : Nat → String} {net : Net}

/-- node `i` appends to its buffer (after its first pull if it is a subscriber) or keeps it; `pulled` does not decrease -/
theorem set (H : HeadOK cuid net) {i : Nat} {nd nd' : Node} (hi : net.nodes[i]? = some nd)
    (hb : ∃ u, nd'.r.buffer = nd.r.buffer ++ u) (hp : nd.pulled ≤ nd'.pulled)
    (hg : (i ≠ 0 → 0 < nd.pulled) ∨ nd'.r.buffer = nd.r.buffer) :
    HeadOK cuid ⟨net.nodes.set i nd', net.log⟩ := by
  refine ⟨H.log_head, ?_, ?_⟩
  · intro nd0 h0
    rcases getElem?_set_some h0 with ⟨h1, rfl⟩ | ⟨hne, h0'⟩
    · subst h1
      obtain ⟨u, hu⟩ := hb
      rw [hu]
      have hc := H.creator nd hi
      cases hbb : nd.r.buffer with
      | nil => rw [hbb] at hc; cases hc
      | cons b0 bt => rw [hbb] at hc; simpa using hc
    · exact H.creator nd0 h0'
  · intro j ndj hj hj0 hpj
    rcases getElem?_set_some hj with ⟨h1, rfl⟩ | ⟨hne, hj'⟩
    · subst h1
      have hp0 : nd.pulled = 0 := by omega
      rcases hg with hg | hg
      · have := hg hj0; omega
      · rw [hg]; exact H.fresh j nd hi hj0 hp0
    · exact H.fresh j ndj hj' hj0 hpj

theorem pushAll (H : HeadOK cuid net) {i : Nat} {nd : Node} (hi : net.nodes[i]? = some nd)
    (hpl : nd.pulled ≤ net.log.length) (hown : own i net.log = (nd.r.buffer.take nd.pushed).map (fun o => (i, o))) :
    HeadOK cuid ⟨net.nodes.set i { nd with pushed := nd.r.buffer.length },
      net.log ++ (nd.r.buffer.drop nd.pushed).map (fun o => (i, o))⟩ := by
  refine ⟨?_, ?_, ?_⟩
  · intro e he
    have he' : (net.log ++ (nd.r.buffer.drop nd.pushed).map (fun o => ((i, o) : LEnt)))[0]? = some e := he
    cases hlog : net.log with
    | cons e0 t =>
      rw [hlog] at he'
      simp only [List.cons_append, List.getElem?_cons_zero, Option.some.injEq] at he'
      subst he'
      exact H.log_head e0 (by rw [hlog]; rfl)
    | nil =>
      rw [hlog, List.nil_append] at he'
      have hpl0 : nd.pulled = 0 := by rw [hlog] at hpl; simpa using hpl
      by_cases h0 : i = 0
      · subst h0
        have hc := H.creator nd hi
        have h2 : (nd.r.buffer.take nd.pushed).length = 0 := by
          have := congrArg List.length hown
          rw [hlog] at this
          simpa [own] using this.symm
        cases hb : nd.r.buffer with
        | nil => rw [hb] at hc; cases hc
        | cons b0 bt =>
          rw [hb] at hc h2
          simp only [List.head?_cons, Option.some.injEq] at hc
          have h3 : nd.pushed = 0 := by
            rw [List.length_take] at h2
            simp only [List.length_cons] at h2
            omega
          rw [hb, h3] at he'
          simp only [List.drop_zero, List.map_cons, List.getElem?_cons_zero, Option.some.injEq] at he'
          rw [← he', hc]; rfl
      · have := H.fresh i nd hi h0 hpl0
        rw [this] at he'
        simp at he'
  · intro nd0 h0
    rcases getElem?_set_some h0 with ⟨h1, rfl⟩ | ⟨hne, h0'⟩
    · subst h1; exact H.creator nd hi
    · exact H.creator nd0 h0'
  · intro j ndj hj hj0 hpj
    rcases getElem?_set_some hj with ⟨h1, rfl⟩ | ⟨hne, hj'⟩
    · subst h1; exact H.fresh j nd hi hj0 hpj
    · exact H.fresh j ndj hj' hj0 hpj

end HeadOK

/-- what is known about a node beyond its header-free image -/
structure NodeOK (cuid : Nat → String) (log : List LEnt) (i : Nat) (nd : Node) : Prop where
  rb : nd.r.RbInv
  pushed_le : nd.pushed ≤ nd.r.buffer.length
  pulled_le : nd.pulled ≤ log.length
  /-- the unpushed rest of the buffer is a concatenation of units -/
  rest_units : UnitsB (nd.r.buffer.drop nd.pushed)
  /-- `pulled` sits at a unit boundary: the unconsumed rest of the log is a concatenation of units -/
  pull_units : UnitsL (log.drop nd.pulled)
  buf_ok : ∀ o ∈ nd.r.buffer, o.id.cuid = cuid i
  log_own : own i log = (nd.r.buffer.take nd.pushed).map (fun o => (i, o))
  buf_sorted : nd.r.buffer.Pairwise (fun o o' => o.id.lamport < o'.id.lamport)
  buf_lam : ∀ o ∈ nd.r.buffer, o.id.lamport ≤ nd.r.opId.lamport

structure TInvC (cuid : Nat → String) (n : Nat) (net : Net) : Prop where
  /-- erasing the headers gives a state that satisfies `InvC` (`DocNet`'s invariant without `DR.Life`) -/
  sim : ∃ net0 ap, InvC cuid n net0 ap ∧ Abs net net0
  node : ∀ (i : Nat) (nd : Node), net.nodes[i]? = some nd → NodeOK cuid net.log i nd
  /-- ONE decomposition of the log into units, and every `pulled` sits at one of ITS boundaries -/
  log_units : ∃ units : List (Nat × List Op), net.log = flatU units ∧ (∀ au ∈ units, IsUnit au.2) ∧
    ∀ (i : Nat) (nd : Node), net.nodes[i]? = some nd → ∃ k, nd.pulled = (flatU (units.take k)).length
  log_ok : ∀ e ∈ net.log, e.1 < n ∧ e.2.id.cuid = cuid e.1
  /-- headers included: no two entries of the log carry the same (lamport, client) -/
  log_keys : net.log.Pairwise (fun e e' => lkey e ≠ lkey e')
  /-- the snapshot operation heads the creator's buffer and the log; a subscriber that has pulled nothing has queued nothing -/
  head : HeadOK cuid net

theorem AbsNode.extend {log : List LEnt} {nd nd0 : Node} (An : AbsNode log nd nd0)
    (hp : nd.pushed ≤ nd.r.buffer.length) {r' r0' : Replica} {u : List Op}
    (hs : r0'.state = r'.state) (hid : r0'.opId = r'.opId) (hb : r'.buffer = nd.r.buffer ++ u)
    (hb0 : r0'.buffer = nd0.r.buffer ++ eraseB u) :
    AbsNode log { nd with r := r' } { nd0 with r := r0' } where
  st := hs
  id := hid
  buf := by
    show r0'.buffer = eraseB r'.buffer
    rw [hb0, hb, eraseB_append, An.buf]
  pushed := by
    show nd0.pushed = (eraseB (r'.buffer.take nd.pushed)).length
    rw [hb, List.take_append_of_le_length hp]
    exact An.pushed
  pulled := An.pulled

theorem NodeOK.extend {cuid : Nat → String} {log : List LEnt} {i : Nat} {nd : Node} (K : NodeOK cuid log i nd)
    {r' : Replica} {u : List Op} (hb : r'.buffer = nd.r.buffer ++ u) (hu : u = [] ∨ IsUnit u) (hrb : r'.RbInv)
    (hgood : ∀ o ∈ u, o.id.cuid = cuid i ∧ nd.r.opId.lamport < o.id.lamport ∧
      o.id.lamport ≤ r'.opId.lamport)
    (hsorted : u.Pairwise (fun o o' => o.id.lamport < o'.id.lamport))
    (hmono : nd.r.opId.lamport ≤ r'.opId.lamport) : NodeOK cuid log i { nd with r := r' } where
  rb := hrb
  pushed_le := by
    show nd.pushed ≤ r'.buffer.length
    rw [hb, List.length_append]
    exact Nat.le_trans K.pushed_le (Nat.le_add_right _ _)
  pulled_le := K.pulled_le
  rest_units := by
    show UnitsB (r'.buffer.drop nd.pushed)
    rw [hb, List.drop_append_of_le_length K.pushed_le]
    rcases hu with rfl | hu
    · simpa using K.rest_units
    · exact unitsB_snoc K.rest_units hu
  pull_units := K.pull_units
  buf_ok := by
    intro o ho
    change o ∈ r'.buffer at ho
    rw [hb] at ho
    rcases List.mem_append.mp ho with h | h
    · exact K.buf_ok o h
    · exact (hgood o h).1
  log_own := by
    show own i log = (r'.buffer.take nd.pushed).map _
    rw [hb, List.take_append_of_le_length K.pushed_le]
    exact K.log_own
  buf_sorted := by
    show r'.buffer.Pairwise _
    rw [hb]
    refine List.pairwise_append.mpr ⟨K.buf_sorted, hsorted, ?_⟩
    intro a ha b hb'
    have := K.buf_lam a ha
    have := (hgood b hb').2.1
    omega
  buf_lam := by
    intro o ho
    change o ∈ r'.buffer at ho
    show _ ≤ r'.opId.lamport
    rw [hb] at ho
    rcases List.mem_append.mp ho with h | h
    · exact Nat.le_trans (K.buf_lam o h) hmono
    · exact (hgood o h).2.2

namespace TInvC
variable {cuid : Nat → String} {n : Nat} {net : Net}

theorem at_node (T : TInvC cuid n net) {i : Nat} {nd : Node} (hi : net.nodes[i]? = some nd) :
    ∃ net0 ap nd0, InvC cuid n net0 ap ∧ Abs net net0 ∧ net0.nodes[i]? = some nd0 ∧ AbsNode net.log nd nd0 ∧ i < n := by
  obtain ⟨net0, ap, I, Ab⟩ := T.sim
  obtain ⟨nd0, h0, An⟩ := Ab.node i nd hi
  exact ⟨net0, ap, nd0, I, Ab, h0, An, I.lt_of_node h0⟩

theorem set_node (T : TInvC cuid n net) {i : Nat} {nd nd' : Node} {net0' : Net} {ap' : Nat → List LEnt}
    (hi : net.nodes[i]? = some nd) (hpl : nd'.pulled = nd.pulled ∨ nd'.pulled = net.log.length)
    (I : InvC cuid n net0' ap') (A : Abs ⟨net.nodes.set i nd', net.log⟩ net0') (K : NodeOK cuid net.log i nd')
    (H : HeadOK cuid ⟨net.nodes.set i nd', net.log⟩) :
    TInvC cuid n ⟨net.nodes.set i nd', net.log⟩ where
  sim := ⟨net0', ap', I, A⟩
  node := by
    intro j nd hj
    rcases getElem?_set_some hj with ⟨rfl, rfl⟩ | ⟨hne, hj'⟩
    · exact K
    · exact T.node j nd hj'
  log_units := by
    obtain ⟨units, h1, h2, h3⟩ := T.log_units
    refine ⟨units, h1, h2, ?_⟩
    intro j ndj hj
    rcases getElem?_set_some hj with ⟨rfl, rfl⟩ | ⟨hne, hj'⟩
    · rcases hpl with h | h
      · obtain ⟨k, hk⟩ := h3 j nd hi
        exact ⟨k, h.trans hk⟩
      · exact ⟨units.length, by rw [h, List.take_length, ← h1]⟩
    · exact h3 j ndj hj'
  log_ok := T.log_ok
  log_keys := T.log_keys
  head := H

end TInvC

theorem net_eta (net : Net) : (⟨net.nodes, net.log⟩ : Net) = net := rfl

/-! ### the steps -/

namespace TInvC
variable {cuid : Nat → String} {n : Nat} {net : Net}

/-- a public call -/
theorem call (T : TInvC cuid n net) {i : Nat} {nd : Node} (hi : net.nodes[i]? = some nd) {c : Call} (hc : CallOK c)
    (hg : i ≠ 0 → 0 < nd.pulled) :
    TInvC cuid n ⟨net.nodes.set i { nd with r := (nd.r.call c).1 }, net.log⟩ := by
  obtain ⟨net0, ap, nd0, I, Ab, h0, An, hin⟩ := T.at_node hi
  have N0 := I.node i nd0 h0
  have K := T.node i nd hi
  obtain ⟨v1, v2, new, v3, v4⟩ := call_view nd.r nd0.r c An.st An.id
  obtain ⟨hmono, hnew⟩ := call_new_good N0 hc v3
  obtain ⟨ap', I'⟩ := I.call h0 hc (fun h => guard0 T.head An (hg h) K.pulled_le)
  have hnp := call_no_panic (docInv_of_core An.st.symm An.id.symm N0.dinv) c
  have hnh : ∀ o ∈ new, isHdr o = false := by
    intro o ho
    rcases hnew with rfl | ⟨o', rfl, g, _⟩
    · cases ho
    · simp only [List.mem_singleton] at ho; subst ho; exact g.nh
  refine T.set_node hi (Or.inl rfl) I' (abs_set Ab ?_) ?_ (T.head.set hi ⟨_, v4⟩ (Nat.le_refl _) (Or.inl hg))
  · exact An.extend K.pushed_le v1 v2 v4 (by rw [v3, eraseB_all hnh])
  · refine K.extend v4 ?_ (rbInv_call nd.r c K.rb hnp) ?_ ?_ ?_
    · rcases hnew with rfl | ⟨o', rfl, g, _⟩
      · exact Or.inl rfl
      · exact Or.inr (Or.inl ⟨o', rfl, g.nh⟩)
    · intro o ho
      rcases hnew with rfl | ⟨o', rfl, g, g1, g2⟩
      · cases ho
      · simp only [List.mem_singleton] at ho
        subst ho
        rw [← v2, ← An.id]
        exact ⟨g.cu, by omega, by omega⟩
    · rcases hnew with rfl | ⟨o', rfl, _⟩
      · exact List.Pairwise.nil
      · exact List.pairwise_singleton _ _
    · rw [← v2, ← An.id]; exact hmono

end TInvC

/-- what a transaction does to a replica of a reachable node (`nd0`, `N0`: its header-free image): either NOTHING
    (state, clock, buffer, checkpoint as before: the body failed and the rollback restored everything) or ONE unit
    `header :: ops` is appended; it never panics -/
theorem tx_cases {cuid : Nat → String} {n : Nat} {log0 : List LEnt} {i : Nat} {nd0 : Node} {A : List LEnt}
    (N0 : NodeInvC cuid n log0 i nd0 A) (hin : i < n) (hgd : i ≠ 0 → 0 < nd0.pulled) (r : Replica)
    (hs : nd0.r.state = r.state)
    (hid : nd0.r.opId = r.opId) (hrb : r.RbInv) (tag : String) (calls : List Call) (hcs : ∀ c ∈ calls, CallOK c)
    (s f : Bool) :
    let r' := (r.txCalls tag calls s f).1
    r'.RbInv ∧
    ((∃ c, (r.txCalls tag calls s f).2.2 = .err c ∧ r'.opId = r.opId ∧ r'.state = r.state ∧ r'.buffer = r.buffer ∧
        r'.cp = r.cp) ∨
     ((r.txCalls tag calls s f).2.2 = .ok () ∧
      ∃ (ops : List Op) (ar1 : Replica) (A1 : List LEnt),
        r'.buffer = r.buffer ++ (⟨r.opId.next, .transaction tag ((ops.length : Int) + 1)⟩ :: ops) ∧
        ar1.state = r'.state ∧ ar1.opId = r'.opId ∧ ar1.buffer = nd0.r.buffer ++ ops ∧
        NodeInvC cuid n log0 i ⟨ar1, nd0.pushed, nd0.pulled⟩ A1 ∧
        (∀ o ∈ ops, GoodOp cuid i o ∧ r.opId.lamport + 1 < o.id.lamport) ∧
        r.opId.lamport + 1 ≤ r'.opId.lamport)) := by
  intro r'
  have Nb : NodeInvC cuid n log0 i ⟨{ nd0.r with opId := nd0.r.opId.next }, nd0.pushed, nd0.pulled⟩ A :=
    ninv_bump N0 (r' := { nd0.r with opId := nd0.r.opId.next }) ⟨rfl, rfl, rfl, rfl, by simp [OpId.next]⟩
  obtain ⟨r1, ops, outs, stopped, pan, hb, hc⟩ := txCalls_cases r tag calls s f
  obtain ⟨hpan, ar1, A1, new, e1, e2, e3, e4, N1, e5, e6⟩ :=
    body_sim hin hgd s calls hcs { r with opId := r.opId.next } [] [] { nd0.r with opId := nd0.r.opId.next } A hs
      (by show nd0.r.opId.next = r.opId.next; rw [hid]) Nb hb
  subst hpan
  simp only [List.nil_append] at e1
  subst e1
  have hbo := body_ok _ _ _ _ _ hb
  have hf : r1.frame r = r1 := hbo.frame
  rcases hc with ⟨w, hw, _⟩ | ⟨_, hst, e⟩ | ⟨_, hst, e⟩
  · cases hw
  · obtain ⟨r2, hr, g1, g2, g3, g4, g5, g6, g7⟩ := rollback_of_rbInv hrb hf
    rw [hr] at e
    simp only at e
    have er : r' = r2 := by show (r.txCalls tag calls s f).1 = r2; rw [e]
    rw [er]
    refine ⟨rbInv_of_rb_eq (by rw [g5, g1]) (by rw [g6, g2]) g7, Or.inl ⟨Err.transaction, by rw [e], g1, g2, g3, g4⟩⟩
  · have hp : (r.txCalls tag calls s f).2.2.isPanic = false := by rw [e]; rfl
    have hrb' := rbInv_txCalls r tag calls s f hrb hp
    obtain ⟨_, f2, _⟩ := frame_fields hf
    have er : r' =
        { r1 with
          rbOps := r1.rbOps ++ (⟨r.opId.next, .transaction tag (ops.length + 1)⟩ :: ops),
          buffer := r1.buffer ++ (⟨r.opId.next, .transaction tag (ops.length + 1)⟩ :: ops).map Op.wire } := by
      show (r.txCalls tag calls s f).1 = _; rw [e]
    refine ⟨hrb', Or.inr ⟨by rw [e], ops.map Op.wire, ar1, A1, ?_, ?_, ?_, e4, N1, ?_, ?_⟩⟩
    · rw [er]
      show r1.buffer ++ _ = _
      rw [f2, List.map_cons, wire_hdr, List.length_map]
    · rw [er]; exact e2
    · rw [er]; exact e3
    · intro o ho
      obtain ⟨o', ho', rfl⟩ := List.mem_map.mp ho
      obtain ⟨g1, g2⟩ := e5 o' ho'
      refine ⟨g1, ?_⟩
      rw [wire_id]
      have : ({ nd0.r with opId := nd0.r.opId.next } : Replica).opId.lamport = r.opId.lamport + 1 := by
        show nd0.r.opId.next.lamport = _; rw [hid]; rfl
      omega
    · rw [er]
      show r.opId.lamport + 1 ≤ r1.opId.lamport
      rw [← e3]
      have : ({ nd0.r with opId := nd0.r.opId.next } : Replica).opId.lamport = r.opId.lamport + 1 := by
        show nd0.r.opId.next.lamport = _; rw [hid]; rfl
      omega

namespace TInvC
variable {cuid : Nat → String} {n : Nat} {net : Net}

/-- the replica of node `i` is replaced by one with the same clock, state and buffer -/
theorem same (T : TInvC cuid n net) {i : Nat} {nd : Node} (hi : net.nodes[i]? = some nd) {r' : Replica}
    (hrb' : r'.RbInv) (g1 : r'.opId = nd.r.opId) (g2 : r'.state = nd.r.state) (g3 : r'.buffer = nd.r.buffer) :
    TInvC cuid n ⟨net.nodes.set i { nd with r := r' }, net.log⟩ := by
  obtain ⟨net0, ap, nd0, I, Ab, h0, An, hin⟩ := T.at_node hi
  have K := T.node i nd hi
  have I' : InvC cuid n ⟨net0.nodes.set i nd0, net0.log⟩ ap := by rw [set_self h0]; exact I
  refine T.set_node hi (Or.inl rfl) I' (abs_set Ab ?_) ?_ (T.head.set hi ⟨[], by rw [g3]; simp⟩ (Nat.le_refl _) (Or.inr g3))
  · have := An.extend (u := []) K.pushed_le (r' := r') (r0' := nd0.r)
      (An.st.trans g2.symm) (An.id.trans g1.symm) (by rw [g3]; simp) (by simp [eraseB])
    exact this
  · exact K.extend (u := []) (by rw [g3]; simp) (Or.inl rfl) hrb' (by simp) List.Pairwise.nil (Nat.le_of_eq (by rw [g1]))

/-- ONE unit `header :: ops` is appended to the buffer of node `i`; on the header-free side the abstract replica `ar1` has
    issued `ops` as plain calls after a clock bump -/
theorem unit (T : TInvC cuid n net) {i : Nat} {nd : Node} (hi : net.nodes[i]? = some nd) {net0 : Net}
    {ap : Nat → List LEnt} {nd0 : Node} (I : InvC cuid n net0 ap) (Ab : Abs net net0) (h0 : net0.nodes[i]? = some nd0)
    (An : AbsNode net.log nd nd0) {r' : Replica} {tag : String} {ops : List Op} {ar1 : Replica} {A1 : List LEnt}
    (hrb' : r'.RbInv)
    (hb : r'.buffer = nd.r.buffer ++ (⟨nd.r.opId.next, .transaction tag ((ops.length : Int) + 1)⟩ :: ops))
    (e2 : ar1.state = r'.state) (e3 : ar1.opId = r'.opId) (e4 : ar1.buffer = nd0.r.buffer ++ ops)
    (N1 : NodeInvC cuid n net0.log i ⟨ar1, nd0.pushed, nd0.pulled⟩ A1)
    (e5 : ∀ o ∈ ops, GoodOp cuid i o ∧ nd.r.opId.lamport + 1 < o.id.lamport)
    (e6 : nd.r.opId.lamport + 1 ≤ r'.opId.lamport) (hg : i ≠ 0 → 0 < nd.pulled) :
    TInvC cuid n ⟨net.nodes.set i { nd with r := r' }, net.log⟩ := by
  have N0 := I.node i nd0 h0
  have K := T.node i nd hi
  have I' := sinv_replace I h0 N1
  have hnh : ∀ o ∈ ops, isHdr o = false := fun o ho => (e5 o ho).1.nh
  have hcu : nd.r.opId.cuid = cuid i := by rw [← An.id]; exact N0.clock_cuid
  refine T.set_node hi (Or.inl rfl) I' (abs_set Ab ?_) ?_ (T.head.set hi ⟨_, hb⟩ (Nat.le_refl _) (Or.inl hg))
  · refine An.extend (r0' := ar1) K.pushed_le e2 e3 hb ?_
    rw [e4]
    congr 1
    show _ = List.filter nh _
    rw [List.filter_cons]
    have hh : isHdr (⟨nd.r.opId.next, .transaction tag ((ops.length : Int) + 1)⟩ : Op) = true := rfl
    simp only [nh, hh, Bool.not_true, Bool.false_eq_true, if_false]
    exact (eraseB_all hnh).symm
  · have hlam : ∀ o ∈ ops, o.id.lamport ≤ r'.opId.lamport := by
      intro o ho
      rw [← e3]
      exact N1.buf_lam (show o ∈ ar1.buffer by rw [e4]; exact List.mem_append_right _ ho)
    refine K.extend hb (Or.inr (Or.inr ⟨_, _, ops, rfl, hnh⟩)) hrb' ?_ ?_ (by omega)
    · intro o ho
      rcases List.mem_cons.mp ho with rfl | ho
      · exact ⟨hcu, by simp [OpId.next], by simp only [OpId.next]; omega⟩
      · exact ⟨(e5 o ho).1.cu, by have := (e5 o ho).2; omega, hlam o ho⟩
    · refine List.pairwise_cons.mpr ⟨?_, ?_⟩
      · intro o ho
        have := (e5 o ho).2
        simp only [OpId.next]
        omega
      · have := N1.buf_sorted
        change ar1.buffer.Pairwise _ at this
        rw [e4] at this
        exact (List.pairwise_append.mp this).2.1

/-- a user transaction -/
theorem tx (T : TInvC cuid n net) {i : Nat} {nd : Node} (hi : net.nodes[i]? = some nd) (tag : String)
    (calls : List Call) (hcs : ∀ c ∈ calls, CallOK c) (s f : Bool) (hg : i ≠ 0 → 0 < nd.pulled) :
    TInvC cuid n ⟨net.nodes.set i { nd with r := (nd.r.txCalls tag calls s f).1 }, net.log⟩ := by
  obtain ⟨net0, ap, nd0, I, Ab, h0, An, hin⟩ := T.at_node hi
  have N0 := I.node i nd0 h0
  have K := T.node i nd hi
  obtain ⟨hrb', hc⟩ := tx_cases N0 hin (fun h => guard0 T.head An (hg h) K.pulled_le) nd.r An.st An.id K.rb tag calls hcs s f
  rcases hc with ⟨c, _, g1, g2, g3, _⟩ | ⟨_, ops, ar1, A1, hb, e2, e3, e4, N1, e5, e6⟩
  · exact T.same hi hrb' g1 g2 g3
  · exact T.unit hi I Ab h0 An hrb' hb e2 e3 e4 N1 e5 e6 hg

end TInvC

theorem NodeOK.log_append {cuid : Nat → String} {log : List LEnt} {j : Nat} {nd : Node} (K : NodeOK cuid log j nd)
    {i : Nat} (hne : j ≠ i) {x : List Op} (hx : UnitsB x) :
    NodeOK cuid (log ++ x.map (fun o => ((i, o) : LEnt))) j nd where
  rb := K.rb
  pushed_le := K.pushed_le
  pulled_le := by rw [List.length_append]; exact Nat.le_trans K.pulled_le (Nat.le_add_right _ _)
  rest_units := K.rest_units
  pull_units := by
    rw [List.drop_append_of_le_length K.pulled_le]
    exact unitsL_append K.pull_units (unitsL_of_B i hx)
  buf_ok := K.buf_ok
  log_own := by rw [own_append, own_map_ne (fun e => hne e.symm), List.append_nil]; exact K.log_own
  buf_sorted := K.buf_sorted
  buf_lam := K.buf_lam

theorem AbsNode.log_append {log : List LEnt} {nd nd0 : Node} (An : AbsNode log nd nd0) (hp : nd.pulled ≤ log.length)
    (x : List LEnt) : AbsNode (log ++ x) nd nd0 where
  st := An.st
  id := An.id
  buf := An.buf
  pushed := An.pushed
  pulled := by rw [List.take_append_of_le_length hp]; exact An.pulled

namespace TInvC
variable {cuid : Nat → String} {n : Nat} {net : Net}

/-- the whole unpushed rest of the buffer goes to the log -/
theorem pushAll (T : TInvC cuid n net) {i : Nat} {nd : Node} (hi : net.nodes[i]? = some nd) :
    TInvC cuid n ⟨net.nodes.set i { nd with pushed := nd.r.buffer.length },
      net.log ++ (nd.r.buffer.drop nd.pushed).map (fun o => (i, o))⟩ := by
  obtain ⟨net0, ap, nd0, I, Ab, h0, An, hin⟩ := T.at_node hi
  have N0 := I.node i nd0 h0
  have K := T.node i nd hi
  have I' := sinv_pushes (nd0.r.buffer.length - nd0.pushed) net0 nd0 I h0 (by have := N0.pushed_le; omega)
  have hdrop : eraseB (nd.r.buffer.drop nd.pushed) = nd0.r.buffer.drop nd0.pushed := by
    rw [An.buf, An.pushed]
    exact (filter_drop_len nh nd.r.buffer nd.pushed).symm
  refine ⟨⟨_, ap, I', ?_⟩, ?_, ?_, ?_, ?_, T.head.pushAll hi K.pulled_le K.log_own⟩
  · refine ⟨?_, by simp [Ab.len], ?_⟩
    · show net0.log ++ _ = eraseL (net.log ++ _)
      rw [eraseL_append, eraseL_map, Ab.log, hdrop]
    · intro j ndj hj
      rcases getElem?_set_some hj with ⟨rfl, rfl⟩ | ⟨hne, hj'⟩
      · refine ⟨{ nd0 with pushed := nd0.r.buffer.length }, getElem?_set_self' h0, ?_⟩
        have A1 := An.log_append K.pulled_le ((nd.r.buffer.drop nd.pushed).map (fun o => ((j, o) : LEnt)))
        exact {
          st := A1.st
          id := A1.id
          buf := A1.buf
          pushed := by
            show nd0.r.buffer.length = (eraseB (nd.r.buffer.take nd.r.buffer.length)).length
            rw [List.take_length, An.buf]
          pulled := A1.pulled }
      · obtain ⟨ndj0, g1, g2⟩ := Ab.node j ndj hj'
        refine ⟨ndj0, ?_, g2.log_append (T.node j ndj hj').pulled_le _⟩
        show (net0.nodes.set i _)[j]? = some ndj0
        rw [List.getElem?_set_ne (fun e => hne e.symm)]
        exact g1
  · intro j ndj hj
    rcases getElem?_set_some hj with ⟨rfl, rfl⟩ | ⟨hne, hj'⟩
    · exact {
        rb := K.rb
        pushed_le := Nat.le_refl _
        pulled_le := by
          show nd.pulled ≤ (net.log ++ _).length
          rw [List.length_append]; exact Nat.le_trans K.pulled_le (Nat.le_add_right _ _)
        rest_units := by
          show UnitsB (nd.r.buffer.drop nd.r.buffer.length)
          rw [List.drop_length]; exact unitsB_nil
        pull_units := by
          show UnitsL ((net.log ++ _).drop nd.pulled)
          rw [List.drop_append_of_le_length K.pulled_le]
          exact unitsL_append K.pull_units (unitsL_of_B j K.rest_units)
        buf_ok := K.buf_ok
        log_own := by
          show own j (net.log ++ _) = (nd.r.buffer.take nd.r.buffer.length).map _
          rw [own_append, own_map_self, K.log_own, ← List.map_append, List.take_append_drop, List.take_length]
        buf_sorted := K.buf_sorted
        buf_lam := K.buf_lam }
    · exact (T.node j ndj hj').log_append hne K.rest_units
  · obtain ⟨units, h1, h2, h3⟩ := T.log_units
    obtain ⟨us, hus, hall⟩ := K.rest_units
    refine ⟨units ++ us.map (fun u => (i, u)), ?_, ?_, ?_⟩
    · show net.log ++ _ = _
      rw [flatU_append, flatU_map_author, ← hus, h1]
    · intro au hau
      rcases List.mem_append.mp hau with h | h
      · exact h2 au h
      · obtain ⟨u, hu, rfl⟩ := List.mem_map.mp h
        exact hall u hu
    · intro j ndj hj
      have hk : ∃ k, ndj.pulled = (flatU (units.take k)).length := by
        rcases getElem?_set_some hj with ⟨rfl, rfl⟩ | ⟨hne, hj'⟩
        · exact h3 j nd hi
        · exact h3 j ndj hj'
      obtain ⟨k, hk⟩ := hk
      by_cases hle : k ≤ units.length
      · exact ⟨k, by rw [List.take_append_of_le_length hle]; exact hk⟩
      · refine ⟨units.length, ?_⟩
        rw [List.take_append_of_le_length (Nat.le_refl _), List.take_length, hk,
          List.take_of_length_le (by omega)]
  · intro e he
    rcases List.mem_append.mp he with h | h
    · exact T.log_ok e h
    · obtain ⟨o, ho, rfl⟩ := List.mem_map.mp h
      exact ⟨hin, K.buf_ok o (List.mem_of_mem_drop ho)⟩
  · have hsplit : (nd.r.buffer.take nd.pushed ++ nd.r.buffer.drop nd.pushed).Pairwise
        (fun o o' => o.id.lamport < o'.id.lamport) := by
      rw [List.take_append_drop]; exact K.buf_sorted
    obtain ⟨_, hs2, hs3⟩ := List.pairwise_append.mp hsplit
    refine List.pairwise_append.mpr ⟨T.log_keys, ?_, ?_⟩
    · rw [List.pairwise_map]
      refine hs2.imp ?_
      intro a b hab e0
      simp only [lkey, Prod.mk.injEq] at e0
      omega
    · intro e he e' he'
      obtain ⟨o, ho, rfl⟩ := List.mem_map.mp he'
      intro e0
      simp only [lkey, Prod.mk.injEq] at e0
      by_cases hei : e.1 = i
      · obtain ⟨a, oe⟩ := e
        simp only at hei
        subst hei
        have : (a, oe) ∈ own a net.log := mem_own.mpr ⟨he, rfl⟩
        rw [K.log_own] at this
        obtain ⟨o', ho', h2⟩ := List.mem_map.mp this
        simp only [Prod.mk.injEq, true_and] at h2
        subst h2
        have := hs3 o' ho' o ho
        simp only at e0
        omega
      · obtain ⟨g1, g2⟩ := T.log_ok e he
        have := K.buf_ok o (List.mem_of_mem_drop ho)
        rw [g2, this] at e0
        exact hei (I.distinct e.1 i g1 hin e0.2)

end TInvC


/-- what a patch script that rewrites the view into `tf` (good values) does to a replica of a reachable node: nothing
    (empty script), ONE public call (one operation), or ONE unit `header :: ops` with one operation per script
    operation (several); it always succeeds -/
theorem patch_cases {cuid : Nat → String} {n : Nat} {log0 : List LEnt} {i : Nat} {nd0 : Node} {A : List LEnt}
    (N0 : NodeInvC cuid n log0 i nd0 A) (hin : i < n) (hgd : i ≠ 0 → 0 < nd0.pulled) (r : Replica)
    (hs : nd0.r.state = r.state)
    (hid : nd0.r.opId = r.opId) (hrb : r.RbInv) {d : Doc} (hd : r.state = .doc d) {ops : List PatchOp} {tf : JVal}
    (happ : applyPatch ops d.view.canon = some tf) (hgood : ∀ op ∈ ops, Carr GoodV op) :
    let r' := (r.patch ops).1
    (r.patch ops).2 = .ok () ∧
    ((ops = [] ∧ r' = r) ∨
     (∃ op c, ops = [op] ∧ CallOK c ∧ r' = (r.call c).1) ∨
     (2 ≤ ops.length ∧ r'.RbInv ∧ ∃ (opsW : List Op) (ar1 : Replica) (A1 : List LEnt),
        r'.buffer = r.buffer ++
          (⟨r.opId.next, .transaction (toString ops.length ++ " patches") ((opsW.length : Int) + 1)⟩ :: opsW) ∧
        opsW.length = ops.length ∧
        ar1.state = r'.state ∧ ar1.opId = r'.opId ∧ ar1.buffer = nd0.r.buffer ++ opsW ∧
        NodeInvC cuid n log0 i ⟨ar1, nd0.pushed, nd0.pulled⟩ A1 ∧
        (∀ o ∈ opsW, GoodOp cuid i o ∧ r.opId.lamport + 1 < o.id.lamport) ∧
        r.opId.lamport + 1 ≤ r'.opId.lamport)) := by
  have hinv : DP.DocInv r := docInv_of_core hs.symm hid.symm N0.dinv
  obtain ⟨I, hk⟩ := DPatch.inv_of hd hinv
  match ops, happ, hgood with
  | [], happ, _ =>
    intro r'
    have e : r.patch [] = (r, .ok ()) := DPatch.patch_nil hd
    refine ⟨by rw [e], Or.inl ⟨rfl, ?_⟩⟩
    show (r.patch []).1 = r
    rw [e]
  | [op], happ, hgood =>
    intro r'
    simp only [applyPatch] at happ
    cases h1 : applyAt op op.path d.view.canon with
    | none => simp [h1] at happ
    | some t1 =>
      obtain ⟨c, b, post, d', bd, ret', b', hpc, hcok, hprep, hmeta, hexec, hview, I', hk'⟩ :=
        op_step' I hk h1 (hgood op (by simp))
      rw [← hd] at hprep hexec
      have hcall := DP.call_of_ok hprep hmeta hexec
      have e : r.patch [op] = ((r.call c).1, .ok ()) := by
        simp only [Replica.patch, hd, hpc, hcall]
      refine ⟨by rw [e], Or.inr (Or.inl ⟨op, c, rfl, hcok, ?_⟩)⟩
      show (r.patch [op]).1 = _
      rw [e]
  | o1 :: o2 :: rest, happ, hgood =>
    intro r'
    have Nb : NodeInvC cuid n log0 i ⟨{ nd0.r with opId := nd0.r.opId.next }, nd0.pushed, nd0.pulled⟩ A :=
      ninv_bump N0 (r' := { nd0.r with opId := nd0.r.opId.next }) ⟨rfl, rfl, rfl, rfl, by simp [OpId.next]⟩
    obtain ⟨r1, new, d1, ar1, A1, q1, q2, q3, q4, q5, q6, q7, q8, q9, N1, q10, q11⟩ :=
      patch_body_sim hin hgd (o1 :: o2 :: rest) { r with opId := r.opId.next } [] d tf
        { nd0.r with opId := nd0.r.opId.next } A hd happ hgood hs
        (by show nd0.r.opId.next = r.opId.next; rw [hid]) Nb
    simp only [List.nil_append] at q1
    have e : r.patch (o1 :: o2 :: rest) =
        ({ r1 with
            rbOps := r1.rbOps ++ (⟨r.opId.next, .transaction (toString (o1 :: o2 :: rest).length ++ " patches")
              (new.length + 1)⟩ :: new),
            buffer := r1.buffer ++ (⟨r.opId.next, .transaction (toString (o1 :: o2 :: rest).length ++ " patches")
              (new.length + 1)⟩ :: new).map Op.wire }, .ok ()) := by
      rw [Replica.patch.eq_3 r _ d hd (by simp) (by simp), q1]
    obtain ⟨_, f2, _, f4, f5, f6⟩ := frame_fields q5
    have er : r' = { r1 with
            rbOps := r1.rbOps ++ (⟨r.opId.next, .transaction (toString (o1 :: o2 :: rest).length ++ " patches")
              (new.length + 1)⟩ :: new),
            buffer := r1.buffer ++ (⟨r.opId.next, .transaction (toString (o1 :: o2 :: rest).length ++ " patches")
              (new.length + 1)⟩ :: new).map Op.wire } := by
      show (r.patch (o1 :: o2 :: rest)).1 = _
      rw [e]
    have hbump : ({ nd0.r with opId := nd0.r.opId.next } : Replica).opId.lamport = r.opId.lamport + 1 := by
      show nd0.r.opId.next.lamport = _; rw [hid]; rfl
    refine ⟨by rw [e], Or.inr (Or.inr ⟨by simp, ?_, new.map Op.wire, ar1, A1, ?_, by simp [q2], ?_, ?_, q9, N1, ?_, ?_⟩)⟩
    · rw [er, RbInv_iff]
      show Replays r1.rbOpId r1.rbSnap (r1.rbOps ++ _) r1.opId r1.state
      rw [f4, f5, f6]
      rw [RbInv_iff] at hrb
      exact replays_append hrb (replays_append (l1 := [_]) (replays_meta _ _ _ rfl) q6)
    · rw [er]
      show r1.buffer ++ _ = _
      rw [f2, List.map_cons, wire_hdr, List.length_map]
    · rw [er]; exact q7
    · rw [er]; exact q8
    · intro o ho
      obtain ⟨o', ho', rfl⟩ := List.mem_map.mp ho
      obtain ⟨g1, g2⟩ := q10 o' ho'
      refine ⟨g1, ?_⟩
      rw [wire_id]
      omega
    · rw [er]
      show r.opId.lamport + 1 ≤ r1.opId.lamport
      rw [← q8]
      omega

namespace TInvC
variable {cuid : Nat → String} {n : Nat} {net : Net}

/-- PatchByJSON -/
theorem patch (T : TInvC cuid n net) {i : Nat} {nd : Node} (hi : net.nodes[i]? = some nd)
    {tgt : List (String × JVal)} (ht : TgtOK tgt) (hg : i ≠ 0 → 0 < nd.pulled) :
    TInvC cuid n ⟨net.nodes.set i { nd with r := (nd.r.patchByJSON (.obj tgt)).1 }, net.log⟩ := by
  obtain ⟨net0, ap, nd0, I, Ab, h0, An, hin⟩ := T.at_node hi
  have N0 := I.node i nd0 h0
  have K := T.node i nd hi
  obtain ⟨d, hsd⟩ : ∃ d, nd.r.state = .doc d := ⟨_, An.st ▸ N0.st⟩
  have hinv : DP.DocInv nd.r := docInv_of_core An.st.symm An.id.symm N0.dinv
  obtain ⟨Id, hkeys⟩ := DPatch.inv_of hsd hinv
  obtain ⟨happ, hgood⟩ := DPatch.script_ok Id hkeys tgt ht.1
  have e : (nd.r.patchByJSON (.obj tgt)).1 = (nd.r.patch (jsonDiff d.view.canon (JVal.obj tgt).canon)).1 := by
    rw [DPatch.patchByJSON_eq hsd]
  rw [e]
  obtain ⟨_, hc⟩ := patch_cases N0 hin (fun h => guard0 T.head An (hg h) K.pulled_le) nd.r An.st An.id K.rb hsd happ hgood
  rcases hc with ⟨_, e1⟩ | ⟨op, c, _, hcok, e1⟩ | ⟨_, hrb', opsW, ar1, A1, hb, _, e2, e3, e4, N1, e5, e6⟩
  · rw [e1]
    exact T.same hi K.rb rfl rfl rfl
  · rw [e1]
    exact T.call hi hcok hg
  · exact T.unit hi I Ab h0 An hrb' hb e2 e3 e4 N1 e5 e6 hg

/-- what `receive` does with the rest of the log: every foreign unit is applied, the result is `.ok ()`; the header-free
    side consumes the whole log -/
theorem recv (T : TInvC cuid n net) {i : Nat} {nd : Node} (hi : net.nodes[i]? = some nd) {net0 : Net}
    {ap : Nat → List LEnt} {nd0 : Node} (I : InvC cuid n net0 ap) (Ab : Abs net net0) (h0 : net0.nodes[i]? = some nd0)
    (An : AbsNode net.log nd nd0) :
    ∃ R' ap' S', nd.r.receive (pullOps net.log i nd) = (R', .ok ()) ∧
      InvC cuid n (NetAt net0 i S' nd0.pushed net0.log.length) ap' ∧ Le S' R' ∧ S'.buffer = nd0.r.buffer := by
  have K := T.node i nd hi
  have N0 := I.node i nd0 h0
  obtain ⟨units, hu, hall⟩ := K.pull_units
  have hlt : i < net0.nodes.length := (List.getElem?_eq_some_iff.mp h0).1
  have hes : net0.log.drop nd0.pulled = eraseL (flatU units) ++ [] := by
    rw [List.append_nil, ← hu, Ab.log, An.pulled]
    exact filter_drop_len _ net.log nd.pulled
  have hle : Le nd0.r nd.r := ⟨An.st, by rw [An.id], by rw [An.id], Nat.le_of_eq (by rw [An.id])⟩
  have I0 : InvC cuid n (NetAt net0 i nd0.r nd0.pushed nd0.pulled) ap := by rw [netAt_self h0]; exact I
  obtain ⟨R', ap', S', g1, g2, g3, g4⟩ := recv_sim hlt units hall _ nd0.r nd.r nd0.pulled ap [] I0 hle hes (Nat.le_refl _)
  refine ⟨R', ap', S', ?_, ?_, g3, g4⟩
  · unfold pullOps Replica.receive
    rw [hu]
    exact g1
  · have : nd0.pulled + (eraseL (flatU units)).length = net0.log.length := by
      have h1 := congrArg List.length hes
      rw [List.append_nil, List.length_drop] at h1
      have := N0.pulled_le
      omega
    rw [← this]
    exact g2

/-- the whole rest of the log is consumed -/
theorem pullAll (T : TInvC cuid n net) {i : Nat} {nd : Node} (hi : net.nodes[i]? = some nd) :
    TInvC cuid n ⟨net.nodes.set i { nd with r := (nd.r.receive (pullOps net.log i nd)).1, pulled := net.log.length },
      net.log⟩ := by
  obtain ⟨net0, ap, nd0, I, Ab, h0, An, hin⟩ := T.at_node hi
  have N0 := I.node i nd0 h0
  have K := T.node i nd hi
  have hlt : i < net0.nodes.length := (List.getElem?_eq_some_iff.mp h0).1
  obtain ⟨R', ap1, S', hrecv, I1, hle, hbuf⟩ := T.recv hi I Ab h0 An
  -- the clock is bumped to the clock of the real replica
  obtain ⟨ap2, I2⟩ := sinv_bump I1 (netAt_node hlt _ _ _) (r' := { S' with opId := R'.opId })
    ⟨rfl, rfl, hle.cu.symm, hle.era.symm, hle.lam⟩
  rw [netAt_netAt] at I2
  have hfld := receive_fields nd.r (pullOps net.log i nd)
  rw [hrecv] at hfld
  obtain ⟨f1, _, f3, _⟩ := hfld
  simp only at f1 f3
  have er : (nd.r.receive (pullOps net.log i nd)).1 = R' := by rw [hrecv]
  rw [er]
  have hcu : nd.r.opId.cuid = cuid i := by rw [← An.id]; exact N0.clock_cuid
  refine T.set_node hi (Or.inr rfl) I2 (abs_set Ab ?_) ?_ (T.head.set hi ⟨[], by show R'.buffer = _; rw [f1]; simp⟩ K.pulled_le (Or.inr f1))
  · exact {
      st := hle.st
      id := rfl
      buf := by
        show S'.buffer = eraseB R'.buffer
        rw [hbuf, f1, An.buf]
      pushed := by
        show nd0.pushed = (eraseB (R'.buffer.take nd.pushed)).length
        rw [f1]; exact An.pushed
      pulled := by
        show net0.log.length = (eraseL (net.log.take net.log.length)).length
        rw [List.take_length, ← Ab.log] }
  · have hp : (nd.r.receive (pullOps net.log i nd)).2.isPanic = false := by rw [hrecv]; rfl
    have hforeign : ∀ o ∈ pullOps net.log i nd, o.id.cuid ≠ nd.r.opId.cuid := by
      intro o ho
      unfold pullOps at ho
      obtain ⟨e, he, rfl⟩ := List.mem_map.mp ho
      obtain ⟨he1, he2⟩ := mem_oth.mp he
      obtain ⟨g1, g2⟩ := T.log_ok e (List.mem_of_mem_drop he1)
      rw [g2, hcu]
      intro e0
      exact he2 (I.distinct e.1 i g1 hin e0)
    have hrb := rbInv_receive nd.r _ K.rb hforeign hp
    rw [er] at hrb
    have hmono := lamport_mono_receive nd.r (pullOps net.log i nd)
    rw [er] at hmono
    exact {
      rb := hrb
      pushed_le := by show nd.pushed ≤ R'.buffer.length; rw [f1]; exact K.pushed_le
      pulled_le := Nat.le_refl _
      rest_units := by show UnitsB (R'.buffer.drop nd.pushed); rw [f1]; exact K.rest_units
      pull_units := by
        show UnitsL (net.log.drop net.log.length)
        rw [List.drop_length]; exact unitsL_nil
      buf_ok := by
        intro o ho
        change o ∈ R'.buffer at ho
        rw [f1] at ho
        exact K.buf_ok o ho
      log_own := by
        show own i net.log = (R'.buffer.take nd.pushed).map _
        rw [f1]; exact K.log_own
      buf_sorted := by show R'.buffer.Pairwise _; rw [f1]; exact K.buf_sorted
      buf_lam := by
        intro o ho
        change o ∈ R'.buffer at ho
        show _ ≤ R'.opId.lamport
        rw [f1] at ho
        exact Nat.le_trans (K.buf_lam o ho) hmono }

theorem step (T : TInvC cuid n net) {net' : Net} (h : StepC net net') : TInvC cuid n net' := by
  cases h with
  | call i nd c hi hc hg => exact T.call hi hc hg
  | tx i nd tag calls s f hi hcs hg => exact T.tx hi tag calls hcs s f hg
  | patch i nd tgt hi ht hg => exact T.patch hi ht hg
  | pushAll i nd hi => exact T.pushAll hi
  | pullAll i nd hi => exact T.pullAll hi

end TInvC

theorem init_node {cuid : Nat → String} {n i : Nat} {nd : Node} (hi : (initC cuid n).nodes[i]? = some nd) :
    nd = ⟨Replica.new .document (cuid i) (i == 0), 0, 0⟩ ∧ i < n := by
  simp only [initC, List.getElem?_map] at hi
  cases hr : (List.range n)[i]? with
  | none => rw [hr] at hi; cases hi
  | some k =>
    rw [hr] at hi
    obtain ⟨hlt, hk⟩ := List.getElem?_eq_some_iff.mp hr
    simp only [List.getElem_range] at hk
    subst hk
    simp only [Option.map_some, Option.some.injEq] at hi
    exact ⟨hi.symm, by simpa using hlt⟩

theorem isUnit_snap (cuid : Nat → String) : IsUnit [snapOp cuid] := Or.inl ⟨_, rfl, rfl⟩

theorem tinv_initC {cuid : Nat → String} {n : Nat} (hc : CuidsDistinct cuid n) : TInvC cuid n (initC cuid n) where
  sim := by
    refine ⟨initC cuid n, _, DNetC.inv_initC hc, rfl, rfl, ?_⟩
    intro i nd hi
    refine ⟨nd, hi, ?_⟩
    obtain ⟨rfl, _⟩ := init_node hi
    by_cases h0 : i = 0
    · subst h0; exact ⟨rfl, rfl, rfl, rfl, rfl⟩
    · have hb : (i == 0) = false := by simpa using h0
      rw [hb]; exact ⟨rfl, rfl, rfl, rfl, rfl⟩
  node := by
    intro i nd hi
    obtain ⟨rfl, _⟩ := init_node hi
    by_cases h0 : i = 0
    · subst h0
      exact {
        rb := rbInv_new _ _ _
        pushed_le := Nat.zero_le _
        pulled_le := Nat.le_refl _
        rest_units := by
          show UnitsB [snapOp cuid]
          exact ⟨[[snapOp cuid]], rfl, by intro u hu; simp only [List.mem_singleton] at hu; subst hu; exact isUnit_snap cuid⟩
        pull_units := unitsL_nil
        buf_ok := by
          intro o ho
          change o ∈ [snapOp cuid] at ho
          simp only [List.mem_singleton] at ho
          subst ho; rfl
        log_own := rfl
        buf_sorted := List.pairwise_singleton _ _
        buf_lam := by
          intro o ho
          change o ∈ [snapOp cuid] at ho
          simp only [List.mem_singleton] at ho
          subst ho
          exact Nat.le_refl _ }
    · have hb : (i == 0) = false := by simpa using h0
      rw [hb]
      exact {
        rb := rbInv_new _ _ _
        pushed_le := Nat.le_refl _
        pulled_le := Nat.le_refl _
        rest_units := unitsB_nil
        pull_units := unitsL_nil
        buf_ok := by intro o ho; cases ho
        log_own := rfl
        buf_sorted := List.Pairwise.nil
        buf_lam := by intro o ho; cases ho }
  log_units := by
    refine ⟨[], rfl, by simp, ?_⟩
    intro i nd hi
    obtain ⟨rfl, _⟩ := init_node hi
    exact ⟨0, rfl⟩
  log_ok := by intro e he; cases he
  log_keys := List.Pairwise.nil
  head := by
    refine ⟨by intro e he; simp [initC] at he, ?_, ?_⟩
    · intro nd h0
      obtain ⟨rfl, _⟩ := init_node h0
      rfl
    · intro i nd hi h0 _
      obtain ⟨rfl, _⟩ := init_node hi
      have hb : (i == 0) = false := by simpa using h0
      rw [hb]; rfl

/-- **the invariant holds in every reachable state** -/
theorem tinv_reach {cuid : Nat → String} {n : Nat} {net : Net} (h : ReachC cuid n net) : TInvC cuid n net := by
  induction h with
  | init hc => exact tinv_initC hc
  | step _ hs ih => exact ih.step hs


/-! ## 9. the theorems -/

section theorems
variable {cuid : Nat → String} {n : Nat} {net : Net}

/-- in a reachable state a transaction (ANY body) never panics: it ends with `.ok ()` or with an error -/
theorem cdtx_tx_never_panics (h : ReachC cuid n net) {i : Nat} {nd : Node} (hi : net.nodes[i]? = some nd)
    (tag : String) (calls : List Call) (hcs : ∀ c ∈ calls, CallOK c) (stopOnErr failAtEnd : Bool) (hg : i ≠ 0 → 0 < nd.pulled) :
    (nd.r.txCalls tag calls stopOnErr failAtEnd).2.2 = .ok () ∨
      ∃ c, (nd.r.txCalls tag calls stopOnErr failAtEnd).2.2 = .err c := by
  have T := tinv_reach h
  obtain ⟨net0, ap, nd0, I, Ab, h0, An, hin⟩ := T.at_node hi
  obtain ⟨_, hc⟩ := tx_cases (I.node i nd0 h0) hin (fun h' => guard0 T.head An (hg h') (T.node i nd hi).pulled_le) nd.r An.st An.id (T.node i nd hi).rb tag calls hcs stopOnErr failAtEnd
  rcases hc with ⟨c, hc, _⟩ | ⟨hok, _⟩
  · exact Or.inr ⟨c, hc⟩
  · exact Or.inl hok

/-- **a failing transaction changes nothing on its node**: operation identifier, state, buffer, checkpoint are what they
    were (whatever the body did before it failed: valid and refused calls, reads, early return, failing user function) -/
theorem cdtx_failed_tx_is_noop (h : ReachC cuid n net) {i : Nat} {nd : Node} (hi : net.nodes[i]? = some nd)
    (tag : String) (calls : List Call) (stopOnErr failAtEnd : Bool) (c : Nat)
    (herr : (nd.r.txCalls tag calls stopOnErr failAtEnd).2.2 = .err c) :
    let r' := (nd.r.txCalls tag calls stopOnErr failAtEnd).1
    r'.opId = nd.r.opId ∧ r'.state = nd.r.state ∧ r'.buffer = nd.r.buffer ∧ r'.cp = nd.r.cp :=
  txCalls_fail_restores nd.r ((tinv_reach h).node i nd hi).rb tag calls stopOnErr failAtEnd c herr

/-- … stated for the system: after the `tx` step of a failing transaction the log is the same and every node has the same
    state, operation identifier, buffer, checkpoint and counters as before -/
theorem cdtx_failed_tx_is_noop_net (h : ReachC cuid n net) {i : Nat} {nd : Node} (hi : net.nodes[i]? = some nd)
    (tag : String) (calls : List Call) (hcs : ∀ c ∈ calls, CallOK c) (stopOnErr failAtEnd : Bool) (hg : i ≠ 0 → 0 < nd.pulled) (c : Nat)
    (herr : (nd.r.txCalls tag calls stopOnErr failAtEnd).2.2 = .err c) {net' : Net}
    (hnet : net' = ⟨net.nodes.set i { nd with r := (nd.r.txCalls tag calls stopOnErr failAtEnd).1 }, net.log⟩) :
    StepC net net' ∧ net'.log = net.log ∧ ∀ (j : Nat) (nd' : Node), net'.nodes[j]? = some nd' →
      ∃ ndj, net.nodes[j]? = some ndj ∧ nd'.r.opId = ndj.r.opId ∧ nd'.r.state = ndj.r.state ∧
        nd'.r.buffer = ndj.r.buffer ∧ nd'.r.cp = ndj.r.cp ∧ nd'.pushed = ndj.pushed ∧ nd'.pulled = ndj.pulled := by
  subst hnet
  refine ⟨.tx net i nd tag calls stopOnErr failAtEnd hi hcs hg, rfl, ?_⟩
  intro j nd' hj
  rcases getElem?_set_some hj with ⟨rfl, rfl⟩ | ⟨hne, hj'⟩
  · obtain ⟨g1, g2, g3, g4⟩ := cdtx_failed_tx_is_noop h hi tag calls stopOnErr failAtEnd c herr
    exact ⟨nd, hi, g1, g2, g3, g4, rfl, rfl⟩
  · exact ⟨nd', hj', rfl, rfl, rfl, rfl, rfl, rfl⟩

/-- **a committed transaction appends exactly ONE unit** `header :: ops` to the buffer; the header carries the first
    identifier of the transaction and announces the unit's length; `ops` (the operations of the successful calls of the
    body) contains no header, and every operation carries the node's client identifier and is newer than the header -/
theorem cdtx_committed_tx_is_one_unit (h : ReachC cuid n net) {i : Nat} {nd : Node} (hi : net.nodes[i]? = some nd)
    (tag : String) (calls : List Call) (hcs : ∀ c ∈ calls, CallOK c) (stopOnErr failAtEnd : Bool) (hg : i ≠ 0 → 0 < nd.pulled)
    (hok : (nd.r.txCalls tag calls stopOnErr failAtEnd).2.2 = .ok ()) :
    let r' := (nd.r.txCalls tag calls stopOnErr failAtEnd).1
    ∃ ops : List Op,
      r'.buffer = nd.r.buffer ++ (⟨nd.r.opId.next, .transaction tag ((ops.length : Int) + 1)⟩ :: ops) ∧
      IsUnit (⟨nd.r.opId.next, .transaction tag ((ops.length : Int) + 1)⟩ :: ops) ∧
      ∀ o ∈ ops, isHdr o = false ∧ o.id.cuid = cuid i ∧ nd.r.opId.lamport + 1 < o.id.lamport := by
  intro r'
  have T := tinv_reach h
  obtain ⟨net0, ap, nd0, I, Ab, h0, An, hin⟩ := T.at_node hi
  obtain ⟨_, hc⟩ := tx_cases (I.node i nd0 h0) hin (fun h' => guard0 T.head An (hg h') (T.node i nd hi).pulled_le) nd.r An.st An.id (T.node i nd hi).rb tag calls hcs stopOnErr failAtEnd
  rcases hc with ⟨c, hc, _⟩ | ⟨_, ops, ar1, A1, hb, _, _, _, _, e5, _⟩
  · rw [hok] at hc; cases hc
  · refine ⟨ops, hb, Or.inr ⟨_, _, ops, rfl, fun o ho => (e5 o ho).1.nh⟩, ?_⟩
    intro o ho
    exact ⟨(e5 o ho).1.nh, (e5 o ho).1.cu, (e5 o ho).2⟩

/-- **units are contiguous in the log**, in every reachable state: the log is a concatenation of units -/
theorem cdtx_log_is_units (h : ReachC cuid n net) : ∃ units : List (Nat × List Op),
    net.log = units.flatMap (fun (a, u) => u.map (a, ·)) ∧ ∀ au ∈ units, IsUnit au.2 := by
  obtain ⟨units, h1, h2, _⟩ := (tinv_reach h).log_units
  exact ⟨units, h1, h2⟩

/-- **`receive` never refuses and never panics in the system**: what a node hands to `receive` when it pulls is accepted -/
theorem cdtx_receive_ok (h : ReachC cuid n net) {i : Nat} {nd : Node} (hi : net.nodes[i]? = some nd) :
    (nd.r.receive (pullOps net.log i nd)).2 = .ok () := by
  have T := tinv_reach h
  obtain ⟨net0, ap, nd0, I, Ab, h0, An, hin⟩ := T.at_node hi
  obtain ⟨R', ap', S', hrecv, _⟩ := T.recv hi I Ab h0 An
  rw [hrecv]

/-- where unit `j` of a decomposition starts in the log -/
def unitStart (units : List (Nat × List Op)) (j : Nat) : Nat := (flatU (units.take j)).length

theorem unitStart_mono (units : List (Nat × List Op)) {j k : Nat} (h : j ≤ k) : unitStart units j ≤ unitStart units k := by
  unfold unitStart
  obtain ⟨t, ht⟩ := List.take_prefix_take_left (l := units) h
  rw [← ht, flatU_append, List.length_append]
  exact Nat.le_add_right _ _

/-- **ALL OR NOTHING, by log position**: there is ONE decomposition of the log into units such that every node, at every
    moment, has consumed (`p < pulled`) either ALL positions of a unit or NONE of them — `pulled` never sits inside a unit.
    (`cdtx_nodes_applied_ops` ties `pulled` to the state: the state of a node is the application of its own operations and
    of the foreign entries among the first `pulled` ones.) -/
theorem cdtx_all_or_nothing_pos (h : ReachC cuid n net) : ∃ units : List (Nat × List Op),
    net.log = flatU units ∧ (∀ au ∈ units, IsUnit au.2) ∧
    ∀ (i : Nat) (nd : Node), net.nodes[i]? = some nd → ∀ j, j < units.length →
      (∀ p, unitStart units j ≤ p → p < unitStart units (j + 1) → p < nd.pulled) ∨
      (∀ p, unitStart units j ≤ p → p < unitStart units (j + 1) → ¬ p < nd.pulled) := by
  obtain ⟨units, h1, h2, h3⟩ := (tinv_reach h).log_units
  refine ⟨units, h1, h2, ?_⟩
  intro i nd hi j _
  obtain ⟨k, hk⟩ := h3 i nd hi
  by_cases hjk : j + 1 ≤ k
  · left
    intro p _ hp
    have := unitStart_mono units hjk
    unfold unitStart at this hp
    omega
  · right
    intro p hp _
    have := unitStart_mono units (show k ≤ j by omega)
    unfold unitStart at this hp
    omega

/-- node `i` has applied the log entry `e` of another node: `e` is among the entries `i` has consumed -/
def Applied (net : Net) (i : Nat) (e : LEnt) : Prop :=
  ∃ nd, net.nodes[i]? = some nd ∧ e ∈ oth i (net.log.take nd.pulled)

/-- no two entries of the log are equal (headers included) -/
theorem cdtx_log_nodup (h : ReachC cuid n net) : net.log.Nodup := nodup_of_keys (tinv_reach h).log_keys

/-- **ALL OR NOTHING**: in every reachable state every node has applied, of every unit of the log authored by another
    node, either ALL operations or NONE -/
theorem cdtx_all_or_nothing (h : ReachC cuid n net) : ∃ units : List (Nat × List Op),
    net.log = units.flatMap (fun (a, u) => u.map (a, ·)) ∧ (∀ au ∈ units, IsUnit au.2) ∧
    ∀ (i : Nat) (nd : Node), net.nodes[i]? = some nd → ∀ au ∈ units, au.1 ≠ i →
      (∀ o ∈ au.2, Applied net i (au.1, o)) ∨ (∀ o ∈ au.2, ¬ Applied net i (au.1, o)) := by
  have T := tinv_reach h
  obtain ⟨units, h1, h2, h3⟩ := T.log_units
  refine ⟨units, h1, h2, ?_⟩
  intro i nd hi au hau hne
  obtain ⟨k, hk⟩ := h3 i nd hi
  have hsplit : net.log = flatU (units.take k) ++ flatU (units.drop k) := by
    rw [← flatU_append, List.take_append_drop]; exact h1
  have htake : net.log.take nd.pulled = flatU (units.take k) := by
    rw [hsplit, hk, List.take_left]
  have hdrop : net.log.drop nd.pulled = flatU (units.drop k) := by
    rw [hsplit, hk, List.drop_left]
  have hmem : ∀ (us : List (Nat × List Op)), au ∈ us → ∀ o ∈ au.2, (au.1, o) ∈ flatU us := by
    intro us hus o ho
    unfold flatU
    exact List.mem_flatMap.mpr ⟨au, hus, List.mem_map.mpr ⟨o, ho, rfl⟩⟩
  rw [← List.take_append_drop k units] at hau
  rcases List.mem_append.mp hau with hin | hin
  · left
    intro o ho
    exact ⟨nd, hi, mem_oth.mpr ⟨by rw [htake]; exact hmem _ hin o ho, hne⟩⟩
  · right
    intro o ho ⟨nd', hi', hm⟩
    rw [hi] at hi'
    simp only [Option.some.injEq] at hi'
    subst hi'
    have h1' := (mem_oth.mp hm).1
    have h2' : (au.1, o) ∈ net.log.drop nd.pulled := by rw [hdrop]; exact hmem _ hin o ho
    have hnd := cdtx_log_nodup h
    rw [← List.take_append_drop nd.pulled net.log] at hnd
    exact (List.nodup_append.mp hnd).2.2 _ h1' _ h2' rfl

/-! ### convergence -/

/-- HOW convergence is obtained: erasing the headers from log and buffers (`Abs`) turns every reachable state into a
    state that satisfies `InvC` — `DocNet`'s invariant with `DR.Life` replaced by its two consequences that are used
    (`DP.DocInv`, `DLR.HistOK`), which makes it closed under clock bumps (`ninv_bump`); every step of this system is a
    sequence of `DocNet` steps (`InvC.call`, `InvC.push`, `InvC.pull`) and clock bumps on that side -/
theorem cdtx_erased_satisfies_inv {cuid : Nat → String} {n : Nat} {net : Net} (h : ReachC cuid n net) :
    ∃ net0 ap, InvC cuid n net0 ap ∧ Abs net net0 := (tinv_reach h).sim

theorem appliedOps_abs {net net0 : Net} (Ab : Abs net net0) {i : Nat} {nd nd0 : Node} (An : AbsNode net.log nd nd0) :
    (appliedOps net0.log i nd0).filterMap toDOp = (appliedOps net.log i nd).filterMap toDOp := by
  unfold appliedOps
  have e1 : net0.log.take nd0.pulled = eraseL (net.log.take nd.pulled) := by
    rw [Ab.log, An.pulled]
    exact filter_take_len _ net.log nd.pulled
  rw [e1, An.buf, oth_eraseL, eraseL_snd, ← eraseB_append, filterMap_toDOp_eraseB]

/-- every node has `DP.DocInv`, and its document IS the application, from the empty document, of a valid sequence of remote
    operations that is a permutation of what the operations the node has (own buffer, foreign entries among the first
    `pulled` of the log; headers denote nothing) denote -/
theorem cdtx_nodes_applied (h : ReachC cuid n net) : ∃ applied : Nat → List DOp,
    ∀ (i : Nat) (nd : Node), net.nodes[i]? = some nd →
      DP.DocInv nd.r ∧ nd.r.state = .doc (applyAllD Doc.empty (applied i)) ∧ Valid Doc.empty (applied i) ∧
      Distinct (applied i) ∧ FreshIn Doc.empty (applied i) ∧
      (applied i).Perm ((appliedOps net.log i nd).filterMap toDOp) := by
  obtain ⟨net0, ap, I, Ab⟩ := (tinv_reach h).sim
  refine ⟨fun i => den (ap i), ?_⟩
  intro i nd hi
  obtain ⟨nd0, h0, An⟩ := Ab.node i nd hi
  have N0 := I.node i nd0 h0
  refine ⟨docInv_of_core An.st.symm An.id.symm N0.dinv, An.st ▸ N0.st, N0.valid, distinct_den N0.keys,
    freshIn_denC N0.ent_ok, ?_⟩
  rw [← appliedOps_abs Ab An]
  exact I.den_perm h0

/-- every node of a reachable state holds a document, with the single-replica invariant -/
theorem cdtx_docInv (h : ReachC cuid n net) {i : Nat} {nd : Node} (hi : net.nodes[i]? = some nd) :
    DP.DocInv nd.r := by
  obtain ⟨applied, ha⟩ := cdtx_nodes_applied h
  exact (ha i nd hi).1

/-- **convergence survives transactions and patches**: two nodes that have the same operations (`DNet.SameOps`: own buffer
    ++ consumed foreign log entries, as multisets — headers included) hold `ASim`-equal documents and show the same
    canonical JSON value -/
theorem cdtx_same_operations_same_document (h : ReachC cuid n net) (i j : Nat) (hi : i < net.nodes.length)
    (hj : j < net.nodes.length) (di dj : Doc) (hdi : net.nodes[i].r.state = .doc di)
    (hdj : net.nodes[j].r.state = .doc dj) (hsame : SameOps net i j) :
    ASim di dj ∧ di.view.canon = dj.view.canon := by
  obtain ⟨net0, ap, I, Ab⟩ := (tinv_reach h).sim
  have hi' := List.getElem?_eq_getElem hi
  have hj' := List.getElem?_eq_getElem hj
  obtain ⟨ni, nj, hni, hnj, hperm⟩ := hsame
  rw [hi'] at hni
  rw [hj'] at hnj
  simp only [Option.some.injEq] at hni hnj
  subst hni hnj
  obtain ⟨ni0, hi0, Ai⟩ := Ab.node i _ hi'
  obtain ⟨nj0, hj0, Aj⟩ := Ab.node j _ hj'
  have Ni := I.node i ni0 hi0
  have Nj := I.node j nj0 hj0
  have hp : (den (ap i)).Perm (den (ap j)) := by
    refine ((I.den_perm hi0).trans ?_).trans (I.den_perm hj0).symm
    rw [appliedOps_abs Ab Ai, appliedOps_abs Ab Aj]
    exact hperm.filterMap toDOp
  have hs := causal_asim (den (ap i)) hp wf_doc_empty (distinct_den Ni.keys) (freshIn_denC Ni.ent_ok) Ni.valid Nj.valid
  have e1 := Ni.st
  have e2 := Nj.st
  rw [Ai.st, hdi] at e1
  rw [Aj.st, hdj] at e2
  simp only [DState.doc.injEq] at e1 e2
  rw [← e1, ← e2] at hs
  refine ⟨hs, ?_⟩
  obtain ⟨d1, hs1, I1, k1⟩ := Ni.dinv
  obtain ⟨d2, hs2, I2, k2⟩ := Nj.dinv
  rw [Ai.st, hdi] at hs1
  rw [Aj.st, hdj] at hs2
  simp only [DState.doc.injEq] at hs1 hs2
  subst hs1 hs2
  have v1 := viewOK_of_dinv I1 k1
  have v2 := viewOK_of_dinv I2 k2
  exact asim_view_canon hs I1.wf v1.keys v2.keys v1.bounded v2.bounded v1.root

/-- a node that has pushed its whole buffer and consumed the whole log has exactly the operations of the log -/
theorem appliedOps_caught_up (h : ReachC cuid n net) {k : Nat} (hk : k < net.nodes.length)
    (q1 : net.nodes[k].pushed = net.nodes[k].r.buffer.length) (q2 : net.nodes[k].pulled = net.log.length) :
    (appliedOps net.log k net.nodes[k]).Perm (net.log.map (·.2)) := by
  have K := (tinv_reach h).node k _ (List.getElem?_eq_getElem hk)
  have h1 : (own k net.log ++ oth k net.log).Perm net.log := List.filter_append_perm _ _
  have h2 := h1.map (·.2)
  rw [K.log_own, q1, List.take_length] at h2
  have e : appliedOps net.log k net.nodes[k] =
      (net.nodes[k].r.buffer.map (fun o => (k, o)) ++ oth k net.log).map (·.2) := by
    simp [appliedOps, q2, List.map_append, List.map_map]
  rw [e]
  exact h2

theorem sameOps_of_caught_up (h : ReachC cuid n net) {i j : Nat} (hi : i < net.nodes.length) (hj : j < net.nodes.length)
    (pi : net.nodes[i].pushed = net.nodes[i].r.buffer.length) (li : net.nodes[i].pulled = net.log.length)
    (pj : net.nodes[j].pushed = net.nodes[j].r.buffer.length) (lj : net.nodes[j].pulled = net.log.length) :
    SameOps net i j :=
  ⟨_, _, List.getElem?_eq_getElem hi, List.getElem?_eq_getElem hj,
    (appliedOps_caught_up h hi pi li).trans (appliedOps_caught_up h hj pj lj).symm⟩

theorem sameOps_of_quiescent (h : ReachC cuid n net) (hq : Quiescent net) {i j : Nat} (hi : i < net.nodes.length)
    (hj : j < net.nodes.length) : SameOps net i j := by
  obtain ⟨a1, a2⟩ := hq _ (List.getElem_mem hi)
  obtain ⟨b1, b2⟩ := hq _ (List.getElem_mem hj)
  exact sameOps_of_caught_up h hi hj a1 a2 b1 b2

/-- at quiescence (`DNet.Quiescent`: every buffer completely pushed, every node has consumed the whole log) all nodes
    hold `ASim`-equal documents and show the same canonical JSON value -/
theorem cdtx_quiescent_converged (h : ReachC cuid n net) (hq : Quiescent net) (i j : Nat) (hi : i < net.nodes.length)
    (hj : j < net.nodes.length) (di dj : Doc) (hdi : net.nodes[i].r.state = .doc di)
    (hdj : net.nodes[j].r.state = .doc dj) : ASim di dj ∧ di.view.canon = dj.view.canon :=
  cdtx_same_operations_same_document h i j hi hj di dj hdi hdj (sameOps_of_quiescent h hq hi hj)

/-! ### quiescence is reachable from every state -/

/-- zero or more steps -/
inductive Reaches : Net → Net → Prop
  | refl (net : Net) : Reaches net net
  | tail {a b c : Net} : Reaches a b → StepC b c → Reaches a c

theorem reach_of_reaches {net' : Net} (hr : ReachC cuid n net) (h : Reaches net net') : ReachC cuid n net' := by
  induction h with
  | refl => exact hr
  | tail _ hs ih => exact .step ih hs

theorem Reaches.trans {a b c : Net} (h1 : Reaches a b) (h2 : Reaches b c) : Reaches a c := by
  induction h2 with
  | refl => exact h1
  | tail _ hs ih => exact .tail ih hs

/-- every node pushes its whole buffer, one after the other -/
theorem push_sweep (net : Net) : ∀ k, k ≤ net.nodes.length → ∃ net', Reaches net net' ∧
    net'.nodes.length = net.nodes.length ∧
    ∀ (j : Nat) (nd : Node), j < k → net'.nodes[j]? = some nd → nd.pushed = nd.r.buffer.length
  | 0, _ => ⟨net, .refl net, rfl, fun j nd hj => absurd hj (Nat.not_lt_zero _)⟩
  | k + 1, hk => by
    obtain ⟨net', h1, h2, h3⟩ := push_sweep net k (by omega)
    have hlt : k < net'.nodes.length := by omega
    have hi := List.getElem?_eq_getElem hlt
    refine ⟨_, .tail h1 (.pushAll net' k _ hi), by simp [h2], ?_⟩
    intro j nd hj hnd
    rcases getElem?_set_some hnd with ⟨rfl, rfl⟩ | ⟨hne, hj'⟩
    · rfl
    · exact h3 j nd (by omega) hj'

/-- then every node pulls the whole log, one after the other -/
theorem pull_sweep (net : Net) (hp : ∀ nd ∈ net.nodes, nd.pushed = nd.r.buffer.length) :
    ∀ k, k ≤ net.nodes.length → ∃ net', Reaches net net' ∧
    net'.nodes.length = net.nodes.length ∧ net'.log = net.log ∧
    (∀ nd ∈ net'.nodes, nd.pushed = nd.r.buffer.length) ∧
    ∀ (j : Nat) (nd : Node), j < k → net'.nodes[j]? = some nd → nd.pulled = net.log.length
  | 0, _ => ⟨net, .refl net, rfl, rfl, hp, fun j nd hj => absurd hj (Nat.not_lt_zero _)⟩
  | k + 1, hk => by
    obtain ⟨net', h1, h2, h3, h4, h5⟩ := pull_sweep net hp k (by omega)
    have hlt : k < net'.nodes.length := by omega
    have hi := List.getElem?_eq_getElem hlt
    refine ⟨_, .tail h1 (.pullAll net' k _ hi), by simp [h2], h3, ?_, ?_⟩
    · intro nd hnd
      obtain ⟨j, hj⟩ := List.mem_iff_getElem?.mp hnd
      rcases getElem?_set_some hj with ⟨rfl, rfl⟩ | ⟨hne, hj'⟩
      · show net'.nodes[j].pushed = (net'.nodes[j].r.receive _).1.buffer.length
        rw [(receive_fields _ _).1]
        exact h4 _ (List.getElem_mem hlt)
      · exact h4 nd (List.mem_of_getElem? hj')
    · intro j nd hj hnd
      rcases getElem?_set_some hnd with ⟨rfl, rfl⟩ | ⟨hne, hj'⟩
      · exact congrArg List.length h3
      · exact h5 j nd (by omega) hj'

/-- **quiescence is reachable**: from every state, `pushAll` by every node followed by `pullAll` by every node (every
    `receive` succeeds by `cdtx_receive_ok`) ends in a quiescent state -/
theorem cdtx_can_quiesce (net : Net) : ∃ net', Reaches net net' ∧ Quiescent net' := by
  obtain ⟨net1, r1, l1, p1⟩ := push_sweep net net.nodes.length (Nat.le_refl _)
  have hp1 : ∀ nd ∈ net1.nodes, nd.pushed = nd.r.buffer.length := by
    intro nd hnd
    obtain ⟨j, hj⟩ := List.mem_iff_getElem?.mp hnd
    have := (List.getElem?_eq_some_iff.mp hj).1
    exact p1 j nd (by omega) hj
  obtain ⟨net2, r2, l2, g2, p2, q2⟩ := pull_sweep net1 hp1 net1.nodes.length (Nat.le_refl _)
  refine ⟨net2, r1.trans r2, ?_⟩
  intro nd hnd
  obtain ⟨j, hj⟩ := List.mem_iff_getElem?.mp hnd
  have := (List.getElem?_eq_some_iff.mp hj).1
  exact ⟨p2 nd hnd, by rw [g2]; exact q2 j nd (by omega) hj⟩

end theorems


/-! ## 10. PatchByJSON over the server log (C19 end to end) -/

section patchthms
variable {cuid : Nat → String} {n : Nat} {net : Net}

/-- **in every reachable state, PatchByJSON on any node succeeds and leaves that node's canonical JSON value equal to the
    target** (any target object without null and without duplicate keys) -/
theorem cdtx_patch_reaches_target (h : ReachC cuid n net) {i : Nat} {nd : Node} (hi : net.nodes[i]? = some nd) {d : Doc}
    (hd : nd.r.state = .doc d) (tgt : List (String × JVal)) (hn : (JVal.obj tgt).hasNull = false)
    (hk : JKeysND (.obj tgt)) :
    ∃ d', (nd.r.patchByJSON (.obj tgt)).1.state = .doc d' ∧ (nd.r.patchByJSON (.obj tgt)).2.2 = .ok () ∧
      d'.view.canon = (JVal.obj tgt).canon := by
  obtain ⟨d', h1, h2, h3, _⟩ := DPatch.patchByJSON_reaches_target nd.r d hd (cdtx_docInv h hi) tgt hn hk
  exact ⟨d', h1, h2, h3⟩

/-- … and what it queues is ONE unit: nothing, one plain operation, or a header announcing `k + 1` followed by `k`
    operations (one per operation of the edit script), none of them a header -/
theorem cdtx_patch_is_one_unit (h : ReachC cuid n net) {i : Nat} {nd : Node} (hi : net.nodes[i]? = some nd)
    (tgt : List (String × JVal)) (hn : (JVal.obj tgt).hasNull = false) (hk : JKeysND (.obj tgt))
    (hg : i ≠ 0 → 0 < nd.pulled) :
    ∃ u : List Op, (nd.r.patchByJSON (.obj tgt)).1.buffer = nd.r.buffer ++ u ∧ (u = [] ∨ IsUnit u) ∧
      (∀ o ∈ u, o.id.cuid = cuid i ∧ nd.r.opId.lamport < o.id.lamport) ∧
      ((nd.r.patchByJSON (.obj tgt)).2.1.length = 0 → u = []) ∧
      (2 ≤ (nd.r.patchByJSON (.obj tgt)).2.1.length → u.length = (nd.r.patchByJSON (.obj tgt)).2.1.length + 1) := by
  have T := tinv_reach h
  obtain ⟨net0, ap, nd0, I, Ab, h0, An, hin⟩ := T.at_node hi
  have N0 := I.node i nd0 h0
  have K := T.node i nd hi
  obtain ⟨d, hsd⟩ : ∃ d, nd.r.state = .doc d := ⟨_, An.st ▸ N0.st⟩
  have hinv : DP.DocInv nd.r := docInv_of_core An.st.symm An.id.symm N0.dinv
  obtain ⟨Id, hkeys⟩ := DPatch.inv_of hsd hinv
  obtain ⟨happ, hgood⟩ := DPatch.script_ok Id hkeys tgt hn
  have hcu : nd.r.opId.cuid = cuid i := by rw [← An.id]; exact N0.clock_cuid
  rw [DPatch.patchByJSON_eq hsd]
  simp only
  obtain ⟨_, hc⟩ := patch_cases N0 hin (fun h' => guard0 T.head An (hg h') K.pulled_le) nd.r An.st An.id K.rb hsd happ hgood
  rcases hc with ⟨e0, e1⟩ | ⟨op, c, e0, hcok, e1⟩ | ⟨hlen, hrb', opsW, ar1, A1, hb, hl, e2, e3, e4, N1, e5, e6⟩
  · rw [e1]
    exact ⟨[], by simp, Or.inl rfl, by simp, fun _ => rfl, by rw [e0]; simp⟩
  · rw [e1]
    obtain ⟨v1, v2, new, v3, v4⟩ := call_view nd.r nd0.r c An.st An.id
    obtain ⟨hmono, hnew⟩ := call_new_good N0 hcok v3
    refine ⟨new, v4, ?_, ?_, ?_, by rw [e0]; simp⟩
    · rcases hnew with rfl | ⟨o', rfl, g, _⟩
      · exact Or.inl rfl
      · exact Or.inr (Or.inl ⟨o', rfl, g.nh⟩)
    · intro o ho
      rcases hnew with rfl | ⟨o', rfl, g, g1, g2⟩
      · cases ho
      · simp only [List.mem_singleton] at ho
        subst ho
        rw [← An.id]
        exact ⟨g.cu, by omega⟩
    · rw [e0]; simp
  · refine ⟨_, hb, Or.inr (Or.inr ⟨_, _, opsW, rfl, fun o ho => (e5 o ho).1.nh⟩), ?_, ?_, ?_⟩
    · intro o ho
      rcases List.mem_cons.mp ho with rfl | ho
      · exact ⟨hcu, by simp [OpId.next]⟩
      · exact ⟨(e5 o ho).1.cu, by have := (e5 o ho).2; omega⟩
    · intro h0'; omega
    · intro _; simp [hl]

/-- a synchronisation step: nobody issues an operation -/
inductive SyncStep : Net → Net → Prop
  | pushAll (net : Net) (i : Nat) (nd : Node) (hi : net.nodes[i]? = some nd) :
      SyncStep net ⟨net.nodes.set i { nd with pushed := nd.r.buffer.length },
                net.log ++ (nd.r.buffer.drop nd.pushed).map (fun o => (i, o))⟩
  | pullAll (net : Net) (i : Nat) (nd : Node) (hi : net.nodes[i]? = some nd) :
      SyncStep net ⟨net.nodes.set i { nd with r := (nd.r.receive (pullOps net.log i nd)).1, pulled := net.log.length },
                net.log⟩

theorem SyncStep.step {a b : Net} (h : SyncStep a b) : StepC a b := by
  cases h with
  | pushAll i nd hi => exact .pushAll a i nd hi
  | pullAll i nd hi => exact .pullAll a i nd hi

/-- zero or more synchronisation steps -/
inductive Syncs : Net → Net → Prop
  | refl (net : Net) : Syncs net net
  | tail {a b c : Net} : Syncs a b → SyncStep b c → Syncs a c

theorem Syncs.reaches {a b : Net} (h : Syncs a b) : Reaches a b := by
  induction h with
  | refl => exact .refl _
  | tail _ hs ih => exact .tail ih hs.step

/-- no operation of another node is concurrent to what node `i` issues now: node `i` has consumed every log entry of the
    others (`oth i`: the entries not written by `i`) and the other nodes hold nothing back -/
def NoConc (net : Net) (i : Nat) : Prop :=
  (∃ nd, net.nodes[i]? = some nd ∧ oth i (net.log.drop nd.pulled) = []) ∧
  ∀ (k : Nat) (ndk : Node), k ≠ i → net.nodes[k]? = some ndk → ndk.pushed = ndk.r.buffer.length

/-- node `i` holds `s`, nothing foreign is left for it in the log, the other nodes hold nothing back -/
def Settled (i : Nat) (s : DState) (net : Net) : Prop :=
  (∃ nd, net.nodes[i]? = some nd ∧ nd.r.state = s ∧ oth i (net.log.drop nd.pulled) = []) ∧
  ∀ (k : Nat) (ndk : Node), k ≠ i → net.nodes[k]? = some ndk → ndk.pushed = ndk.r.buffer.length

theorem receive_nil (r : Replica) : r.receive [] = (r, .ok ()) := by
  unfold Replica.receive
  exact receive_go_nil _ _

theorem settled_step {i : Nat} {s : DState} {a b : Net} (h : Settled i s a) (hs : SyncStep a b) : Settled i s b := by
  obtain ⟨⟨nd, hnd, hst, hoth⟩, hrest⟩ := h
  cases hs with
  | pushAll k ndk hk =>
    by_cases hki : k = i
    · subst hki
      rw [hnd] at hk
      simp only [Option.some.injEq] at hk
      subst hk
      refine ⟨⟨_, getElem?_set_self' hnd, hst, ?_⟩, ?_⟩
      · show oth k ((a.log ++ _).drop nd.pulled) = []
        rw [List.drop_append, oth_append, hoth, List.nil_append]
        unfold oth
        rw [List.filter_eq_nil_iff]
        intro e he
        obtain ⟨o, _, rfl⟩ := List.mem_map.mp (List.mem_of_mem_drop he)
        simp
      · intro k' ndk' hne hk'
        rcases getElem?_set_some hk' with ⟨rfl, _⟩ | ⟨_, hk''⟩
        · exact absurd rfl hne
        · exact hrest k' ndk' hne hk''
    · have hp := hrest k ndk hki hk
      have e : ndk.r.buffer.drop ndk.pushed = [] := List.drop_eq_nil_of_le (by omega)
      refine ⟨⟨nd, ?_, hst, ?_⟩, ?_⟩
      · show (a.nodes.set k _)[i]? = some nd
        rw [List.getElem?_set_ne hki]; exact hnd
      · show oth i ((a.log ++ _).drop nd.pulled) = []
        rw [e]; simpa using hoth
      · intro k' ndk' hne hk'
        rcases getElem?_set_some hk' with ⟨rfl, rfl⟩ | ⟨_, hk''⟩
        · rfl
        · exact hrest k' ndk' hne hk''
  | pullAll k ndk hk =>
    by_cases hki : k = i
    · subst hki
      rw [hnd] at hk
      simp only [Option.some.injEq] at hk
      subst hk
      have e : pullOps a.log k nd = [] := by unfold pullOps; rw [hoth]; rfl
      refine ⟨⟨_, getElem?_set_self' hnd, ?_, ?_⟩, ?_⟩
      · show (nd.r.receive (pullOps a.log k nd)).1.state = s
        rw [e, receive_nil]; exact hst
      · show oth k (a.log.drop a.log.length) = []
        rw [List.drop_length]; rfl
      · intro k' ndk' hne hk'
        rcases getElem?_set_some hk' with ⟨rfl, _⟩ | ⟨_, hk''⟩
        · exact absurd rfl hne
        · exact hrest k' ndk' hne hk''
    · refine ⟨⟨nd, ?_, hst, hoth⟩, ?_⟩
      · show (a.nodes.set k _)[i]? = some nd
        rw [List.getElem?_set_ne hki]; exact hnd
      · intro k' ndk' hne hk'
        rcases getElem?_set_some hk' with ⟨rfl, rfl⟩ | ⟨_, hk''⟩
        · show ndk.pushed = (ndk.r.receive _).1.buffer.length
          rw [(receive_fields _ _).1]
          exact hrest k' ndk hne hk
        · exact hrest k' ndk' hne hk''

theorem settled_syncs {i : Nat} {s : DState} {a b : Net} (h : Settled i s a) (hs : Syncs a b) : Settled i s b := by
  induction hs with
  | refl => exact h
  | tail _ hstep ih => exact settled_step ih hstep

/-- at quiescence any two nodes show the same canonical JSON value -/
theorem quiescent_views_equal (h : ReachC cuid n net) (hq : Quiescent net) {j k : Nat} {dj dk : Doc}
    (hj : Holds net j dj) (hk : Holds net k dk) : ASim dj dk ∧ dj.view.canon = dk.view.canon := by
  obtain ⟨nj, hnj, hsj⟩ := hj
  obtain ⟨nk, hnk, hsk⟩ := hk
  obtain ⟨hjl, ej⟩ := List.getElem?_eq_some_iff.mp hnj
  obtain ⟨hkl, ek⟩ := List.getElem?_eq_some_iff.mp hnk
  exact cdtx_quiescent_converged h hq j k hjl hkl dj dk (by rw [ej]; exact hsj) (by rw [ek]; exact hsk)

/-- **the operations a patch emits bring every other replica to the same value.**  Node `i` runs PatchByJSON (`net1`: the
    state right after that step); then nobody issues further operations (`Syncs`: only `pushAll` / `pullAll` steps follow).
    In EVERY quiescent state `net2` reached:
    (1) all nodes show the same canonical JSON value (the one node `i` shows then);
    (2) if no operation of another node was concurrent to the patch (`NoConc net i`: when the patch was issued node `i` had
        consumed every log entry of the others and the other nodes had empty pending buffers), that value IS the view node
        `i` had right after the patch, which IS the target.
    Without `NoConc` (2) is false: the concurrent operations of the others are merged in (see `Ex`). -/
theorem cdtx_patch_propagates (h : ReachC cuid n net) {i : Nat} {nd : Node} (hi : net.nodes[i]? = some nd)
    (tgt : List (String × JVal)) (hn : (JVal.obj tgt).hasNull = false) (hk : JKeysND (.obj tgt)) {net1 net2 : Net}
    (h1 : net1 = ⟨net.nodes.set i { nd with r := (nd.r.patchByJSON (.obj tgt)).1 }, net.log⟩)
    (hs : Syncs net1 net2) (hq : Quiescent net2) (hg : i ≠ 0 → 0 < nd.pulled) :
    StepC net net1 ∧ ReachC cuid n net2 ∧
    (∀ (j k : Nat) (dj dk : Doc), Holds net2 j dj → Holds net2 k dk → ASim dj dk ∧ dj.view.canon = dk.view.canon) ∧
    (NoConc net i → ∀ (j : Nat) (dj : Doc), Holds net2 j dj →
      dj.view.canon = (JVal.obj tgt).canon ∧ ∀ di', Holds net1 i di' → dj.view.canon = di'.view.canon) := by
  have hstep : StepC net net1 := by rw [h1]; exact .patch net i nd tgt hi ⟨hn, hk⟩ hg
  have hr1 : ReachC cuid n net1 := .step h hstep
  have hr2 : ReachC cuid n net2 := reach_of_reaches hr1 hs.reaches
  refine ⟨hstep, hr2, fun j k dj dk hj hk' => quiescent_views_equal hr2 hq hj hk', ?_⟩
  intro hnc j dj hj
  obtain ⟨⟨nd', hnd', hpl⟩, hothers⟩ := hnc
  rw [hi] at hnd'
  simp only [Option.some.injEq] at hnd'
  subst hnd'
  obtain ⟨d, hd⟩ : ∃ d, nd.r.state = .doc d := by
    obtain ⟨d, hd, _⟩ := cdtx_docInv h hi
    exact ⟨d, hd⟩
  obtain ⟨d', g1, g2, g3⟩ := cdtx_patch_reaches_target h hi hd tgt hn hk
  have hset : Settled i (.doc d') net1 := by
    rw [h1]
    refine ⟨⟨_, getElem?_set_self' hi, g1, hpl⟩, ?_⟩
    · intro k ndk hne hk'
      rcases getElem?_set_some hk' with ⟨rfl, _⟩ | ⟨_, hk''⟩
      · exact absurd rfl hne
      · exact hothers k ndk hne hk''
  obtain ⟨⟨nd2, hnd2, hst2, _⟩, _⟩ := settled_syncs hset hs
  have hi2 : Holds net2 i d' := ⟨nd2, hnd2, hst2⟩
  have e := (quiescent_views_equal hr2 hq hj hi2).2
  refine ⟨e.trans g3, ?_⟩
  intro di' hdi'
  have hi1 : Holds net1 i d' := by rw [h1]; exact ⟨_, getElem?_set_self' hi, g1⟩
  rw [holds_unique hdi' hi1]
  exact e

end patchthms



/-! ## 11. the requested theorems -/

section created
variable {cuid : Nat → String} {n : Nat} {net : Net}

/-- in every reachable state a non-empty log starts with the creator's snapshot operation, the creator's buffer starts with
    it, and a subscriber that has pulled nothing has queued nothing -/
theorem created_dtx_log_starts_with_snapshot (h : ReachC cuid n net) :
    (∀ e, net.log[0]? = some e → e = snapEnt cuid) ∧
    (∀ nd, net.nodes[0]? = some nd → nd.r.buffer.head? = some (snapOp cuid)) ∧
    (∀ i nd, net.nodes[i]? = some nd → i ≠ 0 → nd.pulled = 0 → nd.r.buffer = []) :=
  ⟨(tinv_reach h).head.log_head, (tinv_reach h).head.creator, (tinv_reach h).head.fresh⟩

/-- at quiescence all replicas (creator and subscribers) hold the same document up to `ASim` with equal canonical JSON value -/
theorem created_dtx_quiescent_converged (h : ReachC cuid n net) (hq : Quiescent net) (i j : Nat) (hi : i < net.nodes.length)
    (hj : j < net.nodes.length) (di dj : Doc) (hdi : net.nodes[i].r.state = .doc di)
    (hdj : net.nodes[j].r.state = .doc dj) : ASim di dj ∧ di.view.canon = dj.view.canon :=
  cdtx_quiescent_converged h hq i j hi hj di dj hdi hdj

/-- a failing user transaction on ANY node of ANY reachable state (creator or subscriber, guard or not; any body) leaves the log
    and every node — operation identifier, state, buffer, checkpoint, counters — unchanged -/
theorem created_dtx_failed_transaction_changes_nothing (h : ReachC cuid n net) {i : Nat} {nd : Node}
    (hi : net.nodes[i]? = some nd) (tag : String) (calls : List Call) (stopOnErr failAtEnd : Bool) (c : Nat)
    (herr : (nd.r.txCalls tag calls stopOnErr failAtEnd).2.2 = .err c) {net' : Net}
    (hnet : net' = ⟨net.nodes.set i { nd with r := (nd.r.txCalls tag calls stopOnErr failAtEnd).1 }, net.log⟩) :
    net'.log = net.log ∧ ∀ (j : Nat) (nd' : Node), net'.nodes[j]? = some nd' →
      ∃ ndj, net.nodes[j]? = some ndj ∧ nd'.r.opId = ndj.r.opId ∧ nd'.r.state = ndj.r.state ∧
        nd'.r.buffer = ndj.r.buffer ∧ nd'.r.cp = ndj.r.cp ∧ nd'.pushed = ndj.pushed ∧ nd'.pulled = ndj.pulled := by
  subst hnet
  refine ⟨rfl, ?_⟩
  intro j nd' hj
  rcases getElem?_set_some hj with ⟨rfl, rfl⟩ | ⟨hne, hj'⟩
  · obtain ⟨g1, g2, g3, g4⟩ := cdtx_failed_tx_is_noop h hi tag calls stopOnErr failAtEnd c herr
    exact ⟨nd, hi, g1, g2, g3, g4, rfl, rfl⟩
  · exact ⟨nd', hj', rfl, rfl, rfl, rfl, rfl, rfl⟩

/-- a committed transaction travels as ONE unit and is applied all-or-nothing everywhere: the log is a concatenation of units
    (the snapshot operation is a unit of its own), and in every reachable state every node has consumed either ALL or NONE of
    the entries of every unit written by another node -/
theorem created_dtx_committed_transaction_all_or_nothing (h : ReachC cuid n net) : ∃ units : List (Nat × List Op),
    net.log = units.flatMap (fun (a, u) => u.map (a, ·)) ∧ (∀ au ∈ units, IsUnit au.2) ∧
    ∀ (i : Nat) (nd : Node), net.nodes[i]? = some nd → ∀ au ∈ units, au.1 ≠ i →
      (∀ o ∈ au.2, Applied net i (au.1, o)) ∨ (∀ o ∈ au.2, ¬ Applied net i (au.1, o)) :=
  cdtx_all_or_nothing h

/-- PatchByJSON on ANY node in ANY reachable state of the created system (the creator always; a subscriber after its first pull
    — and, as a statement about the replica, even before it) succeeds and leaves that node's canonical JSON value equal to the
    target -/
theorem created_dtx_patch_reaches_target_anywhere (h : ReachC cuid n net) {i : Nat} {nd : Node}
    (hi : net.nodes[i]? = some nd) {d : Doc} (hd : nd.r.state = .doc d) (tgt : List (String × JVal))
    (hn : (JVal.obj tgt).hasNull = false) (hk : JKeysND (.obj tgt)) :
    ∃ d', (nd.r.patchByJSON (.obj tgt)).1.state = .doc d' ∧ (nd.r.patchByJSON (.obj tgt)).2.2 = .ok () ∧
      d'.view.canon = (JVal.obj tgt).canon :=
  cdtx_patch_reaches_target h hi hd tgt hn hk

end created

/-! ## 12. non-vacuity: the creator and two subscribers

The creator pushes its snapshot operation, everybody consumes it.  The creator puts `k`; subscriber 1 COMMITS a transaction (two
puts: one unit of three entries); subscriber 2 runs a FAILING transaction (a put, then a remove of an absent key, stop on error:
rolled back, nothing queued).  Everything is pushed and pulled.  Then the creator runs PatchByJSON with the target
`{"k":7,"o":{"p":1},"y":"s"}` (a multi-operation patch: one unit of four entries), pushes; everybody pulls. -/
namespace Ex

def cu : Nat → String
  | 0 => "a" | 1 => "b" | _ => "c"
def tgt : List (String × JVal) := [("k", .num 7), ("o", .obj [("p", .num 1)]), ("y", .str "s")]
def acts : List DTx.Act := [
  .pushAll 0, .pullAll 1, .pullAll 2, .pullAll 0,
  .call 0 (.dput Ts.oldest "k" (.num 1)),
  .tx 1 "t1" [.dput Ts.oldest "x" (.num 2), .dput Ts.oldest "y" (.str "s")] true false,
  .tx 2 "t2" [.dput Ts.oldest "z" (.num 3), .dremove Ts.oldest "nokey"] true false,
  .pushAll 1, .pushAll 0, .pushAll 2,
  .pullAll 0, .pullAll 1, .pullAll 2,
  .patch 0 tgt,
  .pushAll 0, .pullAll 2, .pullAll 1, .pullAll 0]

def docOf (r : Replica) : Doc := match r.state with | .doc d => d | _ => Doc.empty
def finalNet : Net := (runC (initC cu 3) acts).getD ⟨[], []⟩
def net6 : Net := (runC (initC cu 3) (acts.take 6)).getD ⟨[], []⟩
def net13 : Net := (runC (initC cu 3) (acts.take 13)).getD ⟨[], []⟩

theorem getD_of_isSome {o : Option Net} (h : o.isSome = true) : o = some (o.getD ⟨[], []⟩) := by
  cases o with
  | none => cases h
  | some x => rfl
theorem getD_node {o : Option Node} (h : o.isSome = true) : o = some (o.getD (⟨default, 0, 0⟩ : Node)) := by
  cases o with
  | none => cases h
  | some x => rfl

theorem run_final : runC (initC cu 3) acts = some finalNet := getD_of_isSome (by decide +kernel)
theorem run_6 : runC (initC cu 3) (acts.take 6) = some net6 := getD_of_isSome (by decide +kernel)
theorem run_13 : runC (initC cu 3) (acts.take 13) = some net13 := getD_of_isSome (by decide +kernel)

theorem cu_distinct : CuidsDistinct cu 3 := by
  intro i j hi hj h
  have h1 : i = 0 ∨ i = 1 ∨ i = 2 := by omega
  have h2 : j = 0 ∨ j = 1 ∨ j = 2 := by omega
  rcases h1 with rfl | rfl | rfl <;> rcases h2 with rfl | rfl | rfl <;> first | rfl | (exact absurd h (by decide))

theorem tgt_ok : TgtOK tgt := ⟨by rfl, by simp [tgt, JKeysND, JKeysNDKvs, JKeysNDList]⟩

theorem acts_ok : ∀ a ∈ acts, ActOK a := by
  intro a ha
  simp only [acts, List.mem_cons, List.mem_nil_iff, or_false] at ha
  have callok : ∀ k v, JKeysND v → CallOK (.dput Ts.oldest k v) := fun k v hv => ⟨hv, fun _ _ e => by cases e⟩
  rcases ha with rfl | rfl | rfl | rfl | rfl | rfl | rfl | rfl | rfl | rfl | rfl | rfl | rfl | rfl | rfl | rfl | rfl | rfl
  all_goals first
    | trivial
    | exact tgt_ok
    | exact callok _ _ (by simp [JKeysND])
    | (intro c hc
       simp only [List.mem_cons, List.mem_nil_iff, or_false] at hc
       rcases hc with rfl | rfl
       · first | exact callok _ _ (by simp [JKeysND])
       · first
           | exact callok _ _ (by simp [JKeysND])
           | exact ⟨by simp [DP.CallKeysND], fun _ _ e => by cases e⟩)

theorem reach_final : ReachC cu 3 finalNet := reachC_run acts (.init cu_distinct) run_final acts_ok
theorem reach_6 : ReachC cu 3 net6 :=
  reachC_run (acts.take 6) (.init cu_distinct) run_6 (fun a ha => acts_ok a (List.mem_of_mem_take ha))
theorem reach_13 : ReachC cu 3 net13 :=
  reachC_run (acts.take 13) (.init cu_distinct) run_13 (fun a ha => acts_ok a (List.mem_of_mem_take ha))

theorem len_final : finalNet.nodes.length = 3 := by decide +kernel

/-- the log: snapshot operation; the committed transaction of subscriber 1 (header + 2); the creator's put; the creator's patch
    (header + 3).  Nothing of the failed transaction. -/
theorem final_shape : finalNet.log.map (fun e => (e.1, isHdr e.2)) =
    [(0, false), (1, true), (1, false), (1, false), (0, false), (0, true), (0, false), (0, false), (0, false)] := by
  decide +kernel

theorem quiescent_final : Quiescent finalNet := by
  unfold Quiescent
  decide +kernel

/-- `created_dtx_quiescent_converged` instantiated: creator vs subscriber, subscriber vs subscriber -/
example : ∀ di dj, (finalNet.nodes[0]'(by rw [len_final]; decide)).r.state = .doc di →
    (finalNet.nodes[1]'(by rw [len_final]; decide)).r.state = .doc dj → ASim di dj ∧ di.view.canon = dj.view.canon :=
  fun di dj h1 h2 => created_dtx_quiescent_converged reach_final quiescent_final 0 1 _ _ di dj h1 h2
example : ∀ di dj, (finalNet.nodes[1]'(by rw [len_final]; decide)).r.state = .doc di →
    (finalNet.nodes[2]'(by rw [len_final]; decide)).r.state = .doc dj → ASim di dj ∧ di.view.canon = dj.view.canon :=
  fun di dj h1 h2 => created_dtx_quiescent_converged reach_final quiescent_final 1 2 _ _ di dj h1 h2

/-- … and every node shows exactly the patch target -/
theorem final_views : finalNet.nodes.map (fun nd => (docOf nd.r).view.canon == (JVal.obj tgt).canon) = [true, true, true] := by
  decide +kernel

/-- the FAILING transaction of subscriber 2, in the state where it is issued -/
def nd2 : Node := (net6.nodes[2]?).getD (⟨default, 0, 0⟩ : Node)
theorem nd2_eq : net6.nodes[2]? = some nd2 := getD_node (by decide +kernel)
theorem t2_fails : ∃ c, (nd2.r.txCalls "t2" [.dput Ts.oldest "z" (.num 3), .dremove Ts.oldest "nokey"] true false).2.2 = .err c := by
  have h : (match (nd2.r.txCalls "t2" [.dput Ts.oldest "z" (.num 3), .dremove Ts.oldest "nokey"] true false).2.2 with
      | .err _ => true | _ => false) = true := by decide +kernel
  cases hc : (nd2.r.txCalls "t2" [.dput Ts.oldest "z" (.num 3), .dremove Ts.oldest "nokey"] true false).2.2 with
  | err c => exact ⟨c, rfl⟩
  | ok u => rw [hc] at h; cases h
  | panic w => rw [hc] at h; cases h

/-- `created_dtx_failed_transaction_changes_nothing` instantiated: the replica of subscriber 2 keeps its buffer and state -/
example : (nd2.r.txCalls "t2" [.dput Ts.oldest "z" (.num 3), .dremove Ts.oldest "nokey"] true false).1.buffer = nd2.r.buffer ∧
    (nd2.r.txCalls "t2" [.dput Ts.oldest "z" (.num 3), .dremove Ts.oldest "nokey"] true false).1.state = nd2.r.state := by
  obtain ⟨c, hc⟩ := t2_fails
  obtain ⟨_, h⟩ := created_dtx_failed_transaction_changes_nothing reach_6 nd2_eq "t2" _ true false c hc rfl
  obtain ⟨ndj, h1, _, h3, h4, _⟩ := h 2 _ (LTx.getElem?_set_self' nd2_eq)
  rw [nd2_eq] at h1
  simp only [Option.some.injEq] at h1
  subst h1
  exact ⟨h4, h3⟩

/-- `created_dtx_patch_reaches_target_anywhere` instantiated: the creator's patch in the state where it is issued -/
def nd0 : Node := (net13.nodes[0]?).getD (⟨default, 0, 0⟩ : Node)
theorem nd0_eq : net13.nodes[0]? = some nd0 := getD_node (by decide +kernel)
example : ∃ d', (nd0.r.patchByJSON (.obj tgt)).1.state = .doc d' ∧ (nd0.r.patchByJSON (.obj tgt)).2.2 = .ok () ∧
    d'.view.canon = (JVal.obj tgt).canon := by
  obtain ⟨d, hd, _⟩ := cdtx_docInv reach_13 nd0_eq
  exact created_dtx_patch_reaches_target_anywhere reach_13 nd0_eq hd tgt tgt_ok.1 tgt_ok.2

/-- `created_dtx_committed_transaction_all_or_nothing` / `created_dtx_log_starts_with_snapshot` instantiated -/
example : ∃ units : List (Nat × List Op), finalNet.log = units.flatMap (fun (a, u) => u.map (a, ·)) ∧
    (∀ au ∈ units, IsUnit au.2) := by
  obtain ⟨units, h1, h2, _⟩ := created_dtx_committed_transaction_all_or_nothing reach_final
  exact ⟨units, h1, h2⟩
example : ∀ e, finalNet.log[0]? = some e → e = snapEnt cu := (created_dtx_log_starts_with_snapshot reach_final).1

/-- the guard: in the initial state a transaction / patch of a subscriber is refused by the executable form, the creator's is not -/
example : (actC (initC cu 3) (.tx 1 "t" [] false false)).isSome = false ∧ (actC (initC cu 3) (.patch 1 tgt)).isSome = false ∧
    (actC (initC cu 3) (.tx 0 "t" [] false false)).isSome = true := by decide +kernel

end Ex

/-! ## 13. why the guard -/

/-- two nodes; the subscriber COMMITS a transaction before it has consumed anything and pushes (header and operation become
    the first log entries), the creator pushes its snapshot operation, both pull everything -/
def badActs : List DTx.Act :=
  [.tx 1 "t" [.dput Ts.oldest "k" (.num 1)] true false, .pushAll 1, .pushAll 0, .pullAll 0, .pullAll 1]

/-- WITHOUT the guard (the steps of `DTx` from `initC`) convergence at quiescence is FALSE: the creator ends with `{"k":1}`, the
    subscriber with `{}` — `receive` hands the snapshot operation to `execRemoteBase`, which resets the subscriber's document.
    The guarded executable form refuses the run. -/
theorem tx_before_first_pull_diverges :
    ∃ net, DTx.run (initC Ex.cu 2) badActs = some net ∧ Quiescent net ∧
      (net.nodes.map fun nd => (Ex.docOf nd.r).view.canon == .obj [("k", .num 1)]) = [true, false] ∧
      (net.nodes.map fun nd => (Ex.docOf nd.r).view.canon == .obj []) = [false, true] ∧
      (runC (initC Ex.cu 2) badActs).isSome = false := by
  have hsome : (DTx.run (initC Ex.cu 2) badActs).isSome = true := by decide +kernel
  have hr := Ex.getD_of_isSome hsome
  refine ⟨_, hr, ?_, ?_, ?_, ?_⟩
  · unfold Quiescent
    decide +kernel
  · decide +kernel
  · decide +kernel
  · decide +kernel

end Orda.TxNetC
