/-
The end-to-end systems of the FLAT datatypes (list, LWW map, counter) WITH the creating client and its creation snapshot
operation (C01/C02/C04/C05).  Namespace `Orda.FNetC`; the machinery lives in `Orda.FNetC.M` (map and counter, over the
types of `Orda.MNet`, parameterised by `typ`) and `Orda.FNetC.L` (list, over the types of `Orda.LNet`); the requested theorems
are at the top level (§C); examples §D; the divergence witnesses §E.

THE SYSTEMS.  `M.initC typ cuid n` / `L.initC cuid n`: node 0 is the CREATOR `Replica.new typ (cuid 0) true` (its buffer holds
`snapOp = ⟨(OpId.new (cuid 0)).next, .snapshot (DState.fresh typ)⟩`), nodes `1 … n-1` are fresh subscribers; nothing pushed or
pulled; empty log.  `StepC` = the `Step` of MapNet / ListNet (ANY public call, none excluded) + the guard on `call`: a subscriber
(`i ≠ 0`) calls only after it has consumed the first log entry (`0 < nd.pulled`).  `ReachC`: reachable from `initC`
(`ReachC.init` carries `CuidsDistinct cuid n`, the only assumption).  `actC`/`runC`: the guarded executable form.

WHAT THE SNAPSHOT DELIVERY DOES (`snapshot_delivery_resets_flat_state`, by `rfl`): `execRemote` of a `.snapshot` body REPLACES the
state of a counter / map / list by the snapshot's content — here the fresh state.  So the guard is NECESSARY for all three
datatypes: `counter_/map_/list_call_before_first_pull_diverges` (a subscriber's operation issued before its first pull is wiped
out at that subscriber by the snapshot delivery and kept by the creator: 7 vs 0, `{"k":1}` vs `{}`, `[1]` vs `[]` at quiescence).

RESULTS (same shapes as MapNet / ListNet, no further hypothesis):
  * `created_list_net_quiescent_converged`, `created_list_net_same_operations_same_state` (plain equality of the list states),
    `L.deliveries_causal`, `created_list_log_starts_with_snapshot`;
  * `created_map_net_quiescent_converged`, `created_map_net_same_operations_same_reads` (same `get`, `Size`, JSON views),
    `M.map_state_is_map`, `created_map_log_starts_with_snapshot`;
  * `created_counter_net_quiescent_converged` (equal states AND the state is `Spec.counter` of the log: the sum of all increments,
    32-bit wrapped), `created_counter_net_value_is_spec`, `created_counter_net_same_operations_same_state`,
    `created_counter_log_starts_with_snapshot`;
  * `M.deliveries_exact` (map and counter): every enabled delivery is the snapshot delivery to an untouched subscriber (fresh state
    before and after, no panic) or an operation of the datatype that has what it needs (no error, no panic, IS the remote
    application).

HOW.  The node invariants of MapNet / ListNet mention neither `create = false` nor `Life`, but their `ent_ok` field demands that
EVERY applied entry is an operation of the datatype (`OpOK` / `ListBody`), which the snapshot entry is not, and `own_eq` / `oth_eq`
force that entry into the ghost sequence of every node.  So the invariants are restated (`NodeInvC`, `InvC`: `ent_ok` allows the
snapshot entry; + `fresh`: a subscriber that has pulled nothing has applied nothing — the only use of the guard; + `creator`: the
creator's buffer starts with `snapOp`; + `log_head`: a non-empty log starts with the snapshot entry) and the MapNet / ListNet
inductions are redone, text for text, with these.  The state fields are UNCHANGED: `mapApply`, `counterApply` ignore a snapshot
body and `toL (snapOp _) = none`, so `sem typ (opsOf A)` / `den A` do not see the snapshot entry; `Needs`, `Causal`, `LCausal`,
`map_converge`, `counter_converge`, `rga_full_converge_state` apply as they are.  The snapshot delivery happens at `pulled = 0`
(`snap_pos`: the snapshot entry is at position 0 only), where `fresh` gives the fresh state, which it leaves (`pull_snap`).
-/
import Orda.Proofs.ListNet
import Orda.Proofs.MapNet
set_option linter.unusedSimpArgs false
set_option linter.unusedVariables false
namespace Orda.FNetC

/-! # A. the LWW map and the counter (`Orda.MNet`) -/
namespace M
open Orda Orda.MNet


/-- the creation snapshot operation of the creator (Model/Replica.lean:197) -/
def snapOp (typ : DtType) (cuid : Nat → String) : Op := ⟨(OpId.new (cuid 0)).next, .snapshot (DState.fresh typ)⟩
/-- … as a log entry -/
def snapEnt (typ : DtType) (cuid : Nat → String) : LEnt := (0, snapOp typ cuid)

/-- node 0 is the creator, nodes 1..n-1 are fresh subscribers; nothing pushed or pulled; empty log -/
def initC (typ : DtType) (cuid : Nat → String) (n : Nat) : Net :=
  ⟨(List.range n).map fun i => ⟨Replica.new typ (cuid i) (i == 0), 0, 0⟩, []⟩

/-- steps: as `Step`, except that a subscriber (i ≠ 0) issues calls only after it has consumed the first log entry -/
inductive StepC : Net → Net → Prop
  | call (net : Net) (i : Nat) (nd : Node) (c : Call) (hi : net.nodes[i]? = some nd) (hg : i ≠ 0 → 0 < nd.pulled) :
      StepC net ⟨net.nodes.set i { nd with r := (nd.r.call c).1 }, net.log⟩
  | push (net : Net) (i : Nat) (nd : Node) (o : Op) (hi : net.nodes[i]? = some nd)
      (ho : nd.r.buffer[nd.pushed]? = some o) :
      StepC net ⟨net.nodes.set i { nd with pushed := nd.pushed + 1 }, net.log ++ [(i, o)]⟩
  | pull (net : Net) (i : Nat) (nd : Node) (a : Nat) (o : Op) (hi : net.nodes[i]? = some nd)
      (hl : net.log[nd.pulled]? = some (a, o)) :
      StepC net ⟨net.nodes.set i { nd with r := if a = i then nd.r else (nd.r.execRemoteBase o).1,
                                           pulled := nd.pulled + 1 }, net.log⟩

inductive ReachC (typ : DtType) (cuid : Nat → String) (n : Nat) : Net → Prop
  | init (hc : CuidsDistinct cuid n) : ReachC typ cuid n (initC typ cuid n)
  | step {net net' : Net} : ReachC typ cuid n net → StepC net net' → ReachC typ cuid n net'

/-- every step of the created system is a step of the system without creator (the guard is only a restriction) -/
theorem StepC.toStep {net net' : Net} (h : StepC net net') : Step net net' := by
  cases h with
  | call i nd c hi hg => exact .call net i nd c hi
  | push i nd o hi ho => exact .push net i nd o hi ho
  | pull i nd a o hi hl => exact .pull net i nd a o hi hl

/-- the executable form: `Net.act` + the guard -/
def actC (net : Net) : Act → Option Net
  | .call i c =>
    match net.nodes[i]? with
    | some nd =>
      if i = 0 ∨ 0 < nd.pulled then some ⟨net.nodes.set i { nd with r := (nd.r.call c).1 }, net.log⟩ else none
    | none => none
  | .push i => net.act (.push i)
  | .pull i => net.act (.pull i)

def runC (net : Net) : List Act → Option Net
  | [] => some net
  | a :: as => match actC net a with
    | some net' => runC net' as
    | none => none

theorem stepC_of_actC {net net' : Net} {a : Act} (h : actC net a = some net') : StepC net net' := by
  cases a with
  | call i c =>
    simp only [actC] at h
    cases hn : net.nodes[i]? with
    | none => rw [hn] at h; cases h
    | some nd =>
      rw [hn] at h
      simp only at h
      by_cases hg : i = 0 ∨ 0 < nd.pulled
      · rw [if_pos hg] at h
        simp only [Option.some.injEq] at h
        subst h
        refine .call net i nd c hn ?_
        intro h0
        rcases hg with h1 | h1
        · exact absurd h1 h0
        · exact h1
      · rw [if_neg hg] at h; cases h
  | push i =>
    simp only [actC, Net.act] at h
    cases hn : net.nodes[i]? with
    | none => rw [hn] at h; cases h
    | some nd =>
      rw [hn] at h
      simp only at h
      cases ho : nd.r.buffer[nd.pushed]? with
      | none => rw [ho] at h; cases h
      | some o =>
        rw [ho] at h
        simp only [Option.some.injEq] at h
        subst h
        exact .push net i nd o hn ho
  | pull i =>
    simp only [actC, Net.act] at h
    cases hn : net.nodes[i]? with
    | none => rw [hn] at h; cases h
    | some nd =>
      rw [hn] at h
      simp only at h
      cases hl : net.log[nd.pulled]? with
      | none => rw [hl] at h; cases h
      | some e =>
        obtain ⟨a, o⟩ := e
        rw [hl] at h
        simp only [Option.some.injEq] at h
        subst h
        exact .pull net i nd a o hn hl

theorem reachC_run {typ : DtType} {cuid : Nat → String} {n : Nat} : ∀ (as : List Act) {net net' : Net},
    ReachC typ cuid n net → runC net as = some net' → ReachC typ cuid n net'
  | [], _, _, hr, h => by
    simp only [runC, Option.some.injEq] at h
    exact h ▸ hr
  | a :: as, net, net', hr, h => by
    simp only [runC] at h
    cases ha : actC net a with
    | none => rw [ha] at h; cases h
    | some net1 =>
      rw [ha] at h
      exact reachC_run as (.step hr (stepC_of_actC ha)) h

theorem head?_snoc {α : Type} {l : List α} {a b : α} (h : l.head? = some a) : (l ++ [b]).head? = some a := by
  cases l with
  | nil => cases h
  | cons x t => simpa using h


/-! ## the invariant: `MNet.NodeInv` with the snapshot entry allowed, + `fresh`, `creator`, `log_head` -/

def EntOKC (typ : DtType) (cuid : Nat → String) (n : Nat) (e : LEnt) : Prop :=
  e.1 < n ∧ e.2.id.cuid = cuid e.1 ∧ (e = snapEnt typ cuid ∨ OpOK typ e.2)

structure NodeInvC (typ : DtType) (cuid : Nat → String) (n : Nat) (log : List LEnt) (i : Nat) (nd : Node)
    (A : List LEnt) : Prop where
  st : nd.r.state = sem typ (opsOf A)
  causal_ops : Causal typ (opsOf A)
  pushed_le : nd.pushed ≤ nd.r.buffer.length
  pulled_le : nd.pulled ≤ log.length
  own_eq : own i A = nd.r.buffer.map (fun o => (i, o))
  oth_eq : oth i A = oth i (log.take nd.pulled)
  log_own : own i log = (nd.r.buffer.take nd.pushed).map (fun o => (i, o))
  clock_cuid : nd.r.opId.cuid = cuid i
  lam_le : ∀ e ∈ A, e.2.id.lamport ≤ nd.r.opId.lamport
  ent_ok : ∀ e ∈ A, EntOKC typ cuid n e
  buf_sorted : nd.r.buffer.Pairwise (fun o o' => o.id.lamport < o'.id.lamport)
  keys : A.Pairwise (fun e e' => lkey e ≠ lkey e')
  causal : ∀ P o S, A = P ++ (i, o) :: S → ∀ k, log[k]? = some (i, o) → ∀ e ∈ P, e ∈ log.take k
  /-- a subscriber that has consumed nothing has applied nothing (the guard of `StepC.call`) -/
  fresh : i ≠ 0 → nd.pulled = 0 → A = []
  /-- the creator's buffer starts with the creation snapshot operation -/
  creator : i = 0 → nd.r.buffer.head? = some (snapOp typ cuid)

structure InvC (typ : DtType) (cuid : Nat → String) (n : Nat) (net : Net) (ap : Nat → List LEnt) : Prop where
  flat : Flat typ
  distinct : CuidsDistinct cuid n
  len : net.nodes.length = n
  node : ∀ i nd, net.nodes[i]? = some nd → NodeInvC typ cuid n net.log i nd (ap i)
  log_auth : ∀ e ∈ net.log, e.1 < n
  log_keys : net.log.Pairwise (fun e e' => lkey e ≠ lkey e')
  /-- a non-empty log starts with the creation snapshot entry -/
  log_head : ∀ e, net.log[0]? = some e → e = snapEnt typ cuid

/-- the remote application ignores the snapshot operation -/
theorem sem_snoc_snap {typ : DtType} (hf : Flat typ) (cuid : Nat → String) (ops : List Op) :
    sem typ (ops ++ [snapOp typ cuid]) = sem typ ops := by
  rcases hf with rfl | rfl
  · simp only [sem, mapApplyAll_snoc]; rfl
  · simp only [sem, List.foldl_append, List.foldl_cons, List.foldl_nil]; rfl

theorem needs_snap (typ : DtType) (cuid : Nat → String) (P : List Op) : Needs typ (snapOp typ cuid) P := by
  cases typ <;> simp only [Needs]
  intro k hk
  cases hk

/-- the delivery of the snapshot operation to a replica in the fresh state: the state stays fresh, no panic -/
theorem execRemoteBase_snap {typ : DtType} (hf : Flat typ) (r : Replica) (hs : r.state = DState.fresh typ)
    (cuid : Nat → String) :
    (r.execRemoteBase (snapOp typ cuid)).1.state = DState.fresh typ ∧ (r.execRemoteBase (snapOp typ cuid)).2 = none := by
  rcases hf with rfl | rfl <;>
    simp [Replica.execRemoteBase, execRemote, hs, snapOp, DState.fresh]


namespace NodeInvC
variable {typ : DtType} {cuid : Nat → String} {n : Nat} {log : List LEnt} {i : Nat} {nd : Node} {A : List LEnt}

theorem buf_mem (N : NodeInvC typ cuid n log i nd A) {o : Op} (h : o ∈ nd.r.buffer) : (i, o) ∈ A := by
  have : (i, o) ∈ own i A := by rw [N.own_eq]; exact List.mem_map.mpr ⟨o, h, rfl⟩
  exact (mem_own.mp this).1

theorem mem_buf (N : NodeInvC typ cuid n log i nd A) {o : Op} (h : (i, o) ∈ A) : o ∈ nd.r.buffer := by
  have : (i, o) ∈ own i A := mem_own.mpr ⟨h, rfl⟩
  rw [N.own_eq] at this
  obtain ⟨o', h1, h2⟩ := List.mem_map.mp this
  simp only [Prod.mk.injEq, true_and] at h2
  exact h2 ▸ h1

theorem log_take (N : NodeInvC typ cuid n log i nd A) {o : Op} (h : (i, o) ∈ log) :
    o ∈ nd.r.buffer.take nd.pushed := by
  have : (i, o) ∈ own i log := mem_own.mpr ⟨h, rfl⟩
  rw [N.log_own] at this
  obtain ⟨o', h1, h2⟩ := List.mem_map.mp this
  simp only [Prod.mk.injEq, true_and] at h2
  exact h2 ▸ h1

/-- every consumed log entry has been applied -/
theorem mem_of_log (N : NodeInvC typ cuid n log i nd A) {e : LEnt} (h : e ∈ log.take nd.pulled) : e ∈ A := by
  by_cases he : e.1 = i
  · obtain ⟨a, o⟩ := e
    simp only at he
    subst he
    exact N.buf_mem (List.mem_of_mem_take (N.log_take (List.mem_of_mem_take h)))
  · have : e ∈ oth i A := by rw [N.oth_eq]; exact mem_oth.mpr ⟨h, he⟩
    exact (mem_oth.mp this).1

theorem buf_lam (N : NodeInvC typ cuid n log i nd A) {o : Op} (h : o ∈ nd.r.buffer) :
    o.id.lamport ≤ nd.r.opId.lamport :=
  N.lam_le _ (N.buf_mem h)

end NodeInvC


namespace InvC
variable {typ : DtType} {cuid : Nat → String} {n : Nat} {net : Net} {ap : Nat → List LEnt}

theorem log_mem (I : InvC typ cuid n net ap) {e : LEnt} (h : e ∈ net.log) :
    ∃ nd, net.nodes[e.1]? = some nd ∧ e.2 ∈ nd.r.buffer.take nd.pushed ∧ e ∈ ap e.1 := by
  have hlt : e.1 < net.nodes.length := by rw [I.len]; exact I.log_auth e h
  refine ⟨net.nodes[e.1], List.getElem?_eq_getElem hlt, ?_⟩
  have N := I.node e.1 _ (List.getElem?_eq_getElem hlt)
  obtain ⟨a, o⟩ := e
  have h1 := N.log_take h
  exact ⟨h1, N.buf_mem (List.mem_of_mem_take h1)⟩

/-- **causal delivery, derived**: the operation a node is about to consume is an operation of the datatype, has what it
    needs among the operations the node has applied, and is new there -/
theorem deliver (I : InvC typ cuid n net ap) {j : Nat} {nd : Node} {a : Nat} {o : Op} (hj : net.nodes[j]? = some nd)
    (hl : net.log[nd.pulled]? = some (a, o)) (ha : a ≠ j) :
    Needs typ o (opsOf (ap j)) ∧ (∀ e ∈ ap j, lkey e ≠ lkey (a, o)) ∧ EntOKC typ cuid n (a, o) := by
  have hmem : (a, o) ∈ net.log := List.mem_of_getElem? hl
  obtain ⟨nda, hna, hbuf, hapa⟩ := I.log_mem hmem
  simp only at hna hbuf hapa
  have Na := I.node a nda hna
  have Nj := I.node j nd hj
  have hent := Na.ent_ok _ hapa
  obtain ⟨han, hcu, hok⟩ := hent
  simp only at han hcu hok
  obtain ⟨P, S, hsplit⟩ := List.append_of_mem hapa
  have hc := Na.causal P o S hsplit nd.pulled hl
  have hsubset : P ⊆ ap j := fun e he => Nj.mem_of_log (hc e he)
  have hneeds : Needs typ o (opsOf P) := by
    apply Na.causal_ops (opsOf P) o (opsOf S)
    rw [hsplit]; simp [opsOf]
  refine ⟨needs_mono hneeds (List.map_subset _ hsubset), ?_, ⟨han, hcu, hok⟩⟩
  intro e he
  by_cases hej : e.1 = j
  · have := (Nj.ent_ok e he).2.1
    intro e0
    simp only [lkey, Prod.mk.injEq] at e0
    rw [this, hcu, hej] at e0
    have hjn : j < n := by
      have := (List.getElem?_eq_some_iff.mp hj).1
      rw [I.len] at this; exact this
    exact ha (I.distinct j a hjn han e0.2).symm
  · have h1 : e ∈ oth j (ap j) := mem_oth.mpr ⟨he, hej⟩
    rw [Nj.oth_eq] at h1
    obtain ⟨k', hk', hek⟩ := List.mem_take_iff_getElem.mp (mem_oth.mp h1).1
    obtain ⟨hp, hpe⟩ := List.getElem?_eq_some_iff.mp hl
    have := List.pairwise_iff_getElem.mp I.log_keys k' nd.pulled (by omega) hp (by omega)
    rw [hek, hpe] at this
    exact this


/-- the snapshot entry sits at position 0 of the log and nowhere else -/
theorem snap_pos (I : InvC typ cuid n net ap) {k : Nat} (h : net.log[k]? = some (snapEnt typ cuid)) : k = 0 := by
  by_contra hk
  obtain ⟨hp, hpe⟩ := List.getElem?_eq_some_iff.mp h
  have h0 : 0 < net.log.length := by omega
  have e0 := I.log_head _ (List.getElem?_eq_getElem h0)
  have := List.pairwise_iff_getElem.mp I.log_keys 0 k h0 hp (by omega)
  rw [hpe, e0] at this
  exact this rfl

/-- the snapshot delivery meets a subscriber that has consumed and applied nothing -/
theorem deliver_snap (I : InvC typ cuid n net ap) {j : Nat} {nd : Node} {a : Nat} {o : Op} (hj : net.nodes[j]? = some nd)
    (hl : net.log[nd.pulled]? = some (a, o)) (ha : a ≠ j) (hs : (a, o) = snapEnt typ cuid) :
    nd.pulled = 0 ∧ ap j = [] := by
  have hp0 : nd.pulled = 0 := I.snap_pos (hs ▸ hl)
  have ha0 : a = 0 := congrArg Prod.fst hs
  exact ⟨hp0, (I.node j nd hj).fresh (fun e => ha (ha0.trans e.symm)) hp0⟩

end InvC


namespace NodeInvC
variable {typ : DtType} {cuid : Nat → String} {n : Nat} {log : List LEnt} {i : Nat} {nd : Node} {A : List LEnt}

/-- a call at node `i` -/
theorem call (N : NodeInvC typ cuid n log i nd A) (hf : Flat typ) (hi : i < n) (c : Call)
    (hgd : i ≠ 0 → 0 < nd.pulled) :
    ∃ A', NodeInvC typ cuid n log i { nd with r := (nd.r.call c).1 } A' := by
  rcases call_cases hf nd.r (opsOf A) N.st N.causal_ops c with h | ⟨o, hbuf, hid, hop, hst, hok, hneeds⟩
  · refine ⟨A, ?_⟩
    rw [h]
    exact N
  · refine ⟨A ++ [(i, o)], ?_⟩
    have hops : opsOf (A ++ [(i, o)]) = opsOf A ++ [o] := by rw [opsOf_append]; rfl
    have hlam : o.id.lamport = nd.r.opId.lamport + 1 := by rw [hid]; rfl
    have hnotlog : (i, o) ∉ log := by
      intro hm
      have := N.buf_lam (List.mem_of_mem_take (N.log_take hm))
      omega
    exact {
      fresh := by
        intro h0 hp
        have := hgd h0
        have hp' : nd.pulled = 0 := hp
        omega
      creator := by
        intro h0
        show (nd.r.call c).1.buffer.head? = _
        rw [hbuf]
        exact head?_snoc (N.creator h0)
      st := by
        show (nd.r.call c).1.state = _
        rw [hst, hops]
      causal_ops := by
        rw [hops]
        exact causal_snoc N.causal_ops hneeds
      pushed_le := by
        show nd.pushed ≤ (nd.r.call c).1.buffer.length
        rw [hbuf]; simp; exact Nat.le_succ_of_le N.pushed_le
      pulled_le := N.pulled_le
      own_eq := by
        show own i (A ++ [(i, o)]) = (nd.r.call c).1.buffer.map _
        rw [hbuf, own_append, own_single_self, N.own_eq]; simp
      oth_eq := by
        show oth i (A ++ [(i, o)]) = _
        rw [oth_append, oth_single_self, List.append_nil]; exact N.oth_eq
      log_own := by
        show own i log = ((nd.r.call c).1.buffer.take nd.pushed).map _
        rw [hbuf, List.take_append_of_le_length N.pushed_le]; exact N.log_own
      clock_cuid := by
        show (nd.r.call c).1.opId.cuid = _
        rw [hop]; exact N.clock_cuid
      lam_le := by
        intro e he
        show _ ≤ (nd.r.call c).1.opId.lamport
        rw [hop]
        show _ ≤ nd.r.opId.lamport + 1
        rcases List.mem_append.mp he with h | h
        · exact Nat.le_succ_of_le (N.lam_le e h)
        · simp only [List.mem_singleton] at h
          subst h
          exact Nat.le_of_eq hlam
      ent_ok := by
        intro e he
        rcases List.mem_append.mp he with h | h
        · exact N.ent_ok e h
        · simp only [List.mem_singleton] at h
          subst h
          refine ⟨hi, ?_, Or.inr hok⟩
          show o.id.cuid = cuid i
          rw [hid]; exact N.clock_cuid
      buf_sorted := by
        show (nd.r.call c).1.buffer.Pairwise _
        rw [hbuf]
        refine List.pairwise_append.mpr ⟨N.buf_sorted, List.pairwise_singleton _ _, ?_⟩
        intro o' ho' o'' ho''
        simp only [List.mem_singleton] at ho''
        subst ho''
        have := N.buf_lam ho'
        omega
      keys := by
        refine List.pairwise_append.mpr ⟨N.keys, List.pairwise_singleton _ _, ?_⟩
        intro e he e' he'
        simp only [List.mem_singleton] at he'
        subst he'
        intro e0
        have := N.lam_le e he
        simp only [lkey, Prod.mk.injEq] at e0
        omega
      causal := by
        intro P o' S hsplit k hk e he
        rcases snoc_split hsplit with ⟨_, _, h3⟩ | ⟨S', _, h2⟩
        · simp only [Prod.mk.injEq, true_and] at h3
          subst h3
          exact absurd (List.mem_of_getElem? hk) hnotlog
        · exact N.causal P o' S' h2 k hk e he }

/-- node `i` pushes its next operation -/
theorem push_self (N : NodeInvC typ cuid n log i nd A) {o : Op} (ho : nd.r.buffer[nd.pushed]? = some o) :
    NodeInvC typ cuid n (log ++ [(i, o)]) i { nd with pushed := nd.pushed + 1 } A := by
  obtain ⟨hp, hpo⟩ := List.getElem?_eq_some_iff.mp ho
  exact {
    fresh := N.fresh
    creator := N.creator
    st := N.st
    causal_ops := N.causal_ops
    pushed_le := hp
    pulled_le := by
      show nd.pulled ≤ (log ++ [(i, o)]).length
      simp; exact Nat.le_succ_of_le N.pulled_le
    own_eq := N.own_eq
    oth_eq := by
      show oth i A = oth i ((log ++ [(i, o)]).take nd.pulled)
      rw [List.take_append_of_le_length N.pulled_le]; exact N.oth_eq
    log_own := by
      show own i (log ++ [(i, o)]) = (nd.r.buffer.take (nd.pushed + 1)).map _
      rw [own_append, own_single_self, N.log_own, ← List.take_append_getElem hp, hpo]; simp
    clock_cuid := N.clock_cuid
    lam_le := N.lam_le
    ent_ok := N.ent_ok
    buf_sorted := N.buf_sorted
    keys := N.keys
    causal := by
      intro P o' S hsplit k hk e he
      have hlen : k < (log ++ [(i, o)]).length := (List.getElem?_eq_some_iff.mp hk).1
      by_cases hk' : k < log.length
      · rw [List.getElem?_append_left hk'] at hk
        rw [List.take_append_of_le_length (Nat.le_of_lt hk')]
        exact N.causal P o' S hsplit k hk e he
      · have hk'' : k = log.length := by
          simp only [List.length_append, List.length_cons, List.length_nil] at hlen; omega
        subst hk''
        rw [List.getElem?_append_right (Nat.le_refl _)] at hk
        simp only [Nat.sub_self, List.getElem?_cons_zero, Option.some.injEq, Prod.mk.injEq, true_and] at hk
        subst hk
        rw [List.take_append_of_le_length (Nat.le_refl _), List.take_length]
        have heA : e ∈ A := by rw [hsplit]; simp [he]
        by_cases hei : e.1 = i
        · obtain ⟨a, oe⟩ := e
          simp only at hei
          subst hei
          -- own entries are in lamport order
          have hso : (own a A).Pairwise (fun e e' => e.2.id.lamport < e'.2.id.lamport) := by
            rw [N.own_eq, List.pairwise_map]; exact N.buf_sorted
          rw [hsplit, own_append, own_cons_self] at hso
          have hlt : oe.id.lamport < o.id.lamport :=
            (List.pairwise_append.mp hso).2.2 (a, oe) (mem_own.mpr ⟨he, rfl⟩) (a, o) (by simp)
          have hb := N.mem_buf heA
          obtain ⟨q, hq, hqe⟩ := List.getElem_of_mem hb
          have hqp : q < nd.pushed := by
            apply Classical.byContradiction
            intro hge
            by_cases hqe' : q = nd.pushed
            · subst hqe'
              rw [hpo] at hqe
              subst hqe
              omega
            · have := List.pairwise_iff_getElem.mp N.buf_sorted nd.pushed q hp hq (by omega)
              rw [hpo, hqe] at this
              omega
          have : (a, oe) ∈ own a log := by
            rw [N.log_own]
            exact List.mem_map.mpr ⟨oe, List.mem_take_iff_getElem.mpr ⟨q, by omega, hqe⟩, rfl⟩
          exact (mem_own.mp this).1
        · have : e ∈ oth i A := mem_oth.mpr ⟨heA, hei⟩
          rw [N.oth_eq] at this
          exact List.mem_of_mem_take (mem_oth.mp this).1 }

/-- another node pushes -/
theorem push_other (N : NodeInvC typ cuid n log i nd A) {a : Nat} (ha : a ≠ i) (o : Op) :
    NodeInvC typ cuid n (log ++ [(a, o)]) i nd A := by
  exact {
    fresh := N.fresh
    creator := N.creator
    st := N.st
    causal_ops := N.causal_ops
    pushed_le := N.pushed_le
    pulled_le := by simp; exact Nat.le_succ_of_le N.pulled_le
    own_eq := N.own_eq
    oth_eq := by rw [List.take_append_of_le_length N.pulled_le]; exact N.oth_eq
    log_own := by rw [own_append, own_single_ne ha, List.append_nil]; exact N.log_own
    clock_cuid := N.clock_cuid
    lam_le := N.lam_le
    ent_ok := N.ent_ok
    buf_sorted := N.buf_sorted
    keys := N.keys
    causal := by
      intro P o' S hsplit k hk e he
      have hlen : k < (log ++ [(a, o)]).length := (List.getElem?_eq_some_iff.mp hk).1
      by_cases hk' : k < log.length
      · rw [List.getElem?_append_left hk'] at hk
        rw [List.take_append_of_le_length (Nat.le_of_lt hk')]
        exact N.causal P o' S hsplit k hk e he
      · have hk'' : k = log.length := by
          simp only [List.length_append, List.length_cons, List.length_nil] at hlen; omega
        subst hk''
        rw [List.getElem?_append_right (Nat.le_refl _)] at hk
        simp only [Nat.sub_self, List.getElem?_cons_zero, Option.some.injEq, Prod.mk.injEq] at hk
        exact absurd hk.1 ha }

/-- node `i` skips its own log entry -/
theorem pull_own (N : NodeInvC typ cuid n log i nd A) {o : Op} (hl : log[nd.pulled]? = some (i, o)) :
    NodeInvC typ cuid n log i { nd with pulled := nd.pulled + 1 } A := by
  obtain ⟨hp, hpo⟩ := List.getElem?_eq_some_iff.mp hl
  exact {
    fresh := by
      intro _ hp0
      have : nd.pulled + 1 = 0 := hp0
      omega
    creator := N.creator
    st := N.st
    causal_ops := N.causal_ops
    pushed_le := N.pushed_le
    pulled_le := hp
    own_eq := N.own_eq
    oth_eq := by
      show oth i A = oth i (log.take (nd.pulled + 1))
      rw [← List.take_append_getElem hp, hpo, oth_append, oth_single_self, List.append_nil]; exact N.oth_eq
    log_own := N.log_own
    clock_cuid := N.clock_cuid
    lam_le := N.lam_le
    ent_ok := N.ent_ok
    buf_sorted := N.buf_sorted
    keys := N.keys
    causal := N.causal }

/-- what a delivery (of anything) changes outside the datatype state -/
theorem pull_frame (N : NodeInvC typ cuid n log i nd A) {a : Nat} {o : Op}
    (hl : log[nd.pulled]? = some (a, o)) (ha : a ≠ i)
    (hk : ∀ e ∈ A, lkey e ≠ lkey (a, o)) (hent : EntOKC typ cuid n (a, o))
    (hst : (nd.r.execRemoteBase o).1.state = sem typ (opsOf (A ++ [(a, o)])))
    (hco : Causal typ (opsOf (A ++ [(a, o)]))) :
    NodeInvC typ cuid n log i { nd with r := (nd.r.execRemoteBase o).1, pulled := nd.pulled + 1 } (A ++ [(a, o)]) := by
  obtain ⟨hp, hpo⟩ := List.getElem?_eq_some_iff.mp hl
  have hops : opsOf (A ++ [(a, o)]) = opsOf A ++ [o] := by rw [opsOf_append]; rfl
  exact {
    fresh := by
      intro _ hp0
      have : nd.pulled + 1 = 0 := hp0
      omega
    creator := by
      intro h0
      show (nd.r.execRemoteBase o).1.buffer.head? = _
      rw [execRemoteBase_buffer]; exact N.creator h0
    st := hst
    causal_ops := hco
    pushed_le := by
      show nd.pushed ≤ (nd.r.execRemoteBase o).1.buffer.length
      rw [execRemoteBase_buffer]; exact N.pushed_le
    pulled_le := hp
    own_eq := by
      show own i (A ++ [(a, o)]) = (nd.r.execRemoteBase o).1.buffer.map _
      rw [execRemoteBase_buffer, own_append, own_single_ne ha, List.append_nil]; exact N.own_eq
    oth_eq := by
      show oth i (A ++ [(a, o)]) = oth i (log.take (nd.pulled + 1))
      rw [← List.take_append_getElem hp, hpo, oth_append, oth_append, N.oth_eq]
    log_own := by
      show own i log = ((nd.r.execRemoteBase o).1.buffer.take nd.pushed).map _
      rw [execRemoteBase_buffer]; exact N.log_own
    clock_cuid := by
      show (nd.r.execRemoteBase o).1.opId.cuid = _
      rw [execRemoteBase_opId, sync_cuid]; exact N.clock_cuid
    lam_le := by
      intro e he
      show _ ≤ (nd.r.execRemoteBase o).1.opId.lamport
      rw [execRemoteBase_opId]
      have := sync_lam nd.r.opId o.id.lamport
      rcases List.mem_append.mp he with h | h
      · exact Nat.le_trans (N.lam_le e h) this.1
      · simp only [List.mem_singleton] at h
        subst h
        exact this.2
    ent_ok := by
      intro e he
      rcases List.mem_append.mp he with h | h
      · exact N.ent_ok e h
      · simp only [List.mem_singleton] at h
        subst h
        exact hent
    buf_sorted := by
      show (nd.r.execRemoteBase o).1.buffer.Pairwise _
      rw [execRemoteBase_buffer]; exact N.buf_sorted
    keys := by
      refine List.pairwise_append.mpr ⟨N.keys, List.pairwise_singleton _ _, ?_⟩
      intro e he e' he'
      simp only [List.mem_singleton] at he'
      subst he'
      exact hk e he
    causal := by
      intro P o' S hsplit k hk e he
      rcases snoc_split hsplit with ⟨_, _, h3⟩ | ⟨S', _, h2⟩
      · simp only [Prod.mk.injEq] at h3
        exact absurd h3.1.symm ha
      · exact N.causal P o' S' h2 k hk e he }

/-- node `i` applies the next log entry, an operation of the datatype written by another node -/
theorem pull_other (N : NodeInvC typ cuid n log i nd A) (hf : Flat typ) {a : Nat} {o : Op}
    (hl : log[nd.pulled]? = some (a, o)) (ha : a ≠ i) (hneeds : Needs typ o (opsOf A))
    (hk : ∀ e ∈ A, lkey e ≠ lkey (a, o)) (hent : EntOKC typ cuid n (a, o)) (hok : OpOK typ o) :
    NodeInvC typ cuid n log i { nd with r := (nd.r.execRemoteBase o).1, pulled := nd.pulled + 1 } (A ++ [(a, o)]) := by
  have hops : opsOf (A ++ [(a, o)]) = opsOf A ++ [o] := by rw [opsOf_append]; rfl
  refine N.pull_frame hl ha hk hent ?_ ?_
  · rw [hops]
    exact (remote_cases hf nd.r (opsOf A) N.st o hok).1
  · rw [hops]
    exact causal_snoc N.causal_ops hneeds

/-- a subscriber that has applied nothing consumes the creation snapshot operation: its state stays fresh -/
theorem pull_snap (N : NodeInvC typ cuid n log i nd A) (hf : Flat typ) (hl : log[nd.pulled]? = some (snapEnt typ cuid))
    (ha : 0 ≠ i) (hA : A = []) (hent : EntOKC typ cuid n (snapEnt typ cuid)) :
    NodeInvC typ cuid n log i { nd with r := (nd.r.execRemoteBase (snapOp typ cuid)).1, pulled := nd.pulled + 1 }
      (A ++ [snapEnt typ cuid]) := by
  have hops : opsOf (A ++ [snapEnt typ cuid]) = opsOf A ++ [snapOp typ cuid] := by rw [opsOf_append]; rfl
  have hs0 : nd.r.state = DState.fresh typ := by
    have := N.st
    rw [hA] at this
    rw [this]
    exact sem_nil hf
  refine N.pull_frame (a := 0) (o := snapOp typ cuid) hl ha ?_ hent ?_ ?_
  · intro e he
    rw [hA] at he
    cases he
  · show _ = sem typ (opsOf (A ++ [snapEnt typ cuid]))
    rw [hops, sem_snoc_snap hf, (execRemoteBase_snap hf nd.r hs0 cuid).1, hA]
    exact (sem_nil hf).symm
  · show Causal typ (opsOf (A ++ [snapEnt typ cuid]))
    rw [hops]
    exact causal_snoc N.causal_ops (needs_snap typ cuid _)

end NodeInvC


theorem inv_initC {typ : DtType} {cuid : Nat → String} {n : Nat} (hf : Flat typ) (hc : CuidsDistinct cuid n) :
    InvC typ cuid n (initC typ cuid n) (fun i => if i = 0 then [snapEnt typ cuid] else []) := by
  refine ⟨hf, hc, by simp [initC], ?_, by simp [initC], by simp [initC], by simp [initC]⟩
  intro i nd hi
  simp only [initC, List.getElem?_map] at hi
  cases hr : (List.range n)[i]? with
  | none => rw [hr] at hi; cases hi
  | some k =>
    rw [hr] at hi
    obtain ⟨hlt, hk⟩ := List.getElem?_eq_some_iff.mp hr
    simp only [List.getElem_range] at hk
    subst hk
    simp only [Option.map_some, Option.some.injEq] at hi
    subst hi
    simp only [List.length_range] at hlt
    by_cases h0 : i = 0
    · subst h0
      simp only [if_true]
      exact {
        st := by
          show (Replica.new typ (cuid 0) true).state = sem typ ([] ++ [snapOp typ cuid])
          rw [sem_snoc_snap hf, sem_nil hf]; rfl
        causal_ops := causal_snoc (causal_nil typ) (needs_snap typ cuid _)
        pushed_le := Nat.zero_le _
        pulled_le := Nat.le_refl _
        own_eq := rfl
        oth_eq := rfl
        log_own := rfl
        clock_cuid := rfl
        lam_le := by
          intro e he
          simp only [List.mem_singleton] at he
          subst he
          exact Nat.le_refl _
        ent_ok := by
          intro e he
          simp only [List.mem_singleton] at he
          subst he
          exact ⟨hlt, rfl, Or.inl rfl⟩
        buf_sorted := List.pairwise_singleton _ _
        keys := List.pairwise_singleton _ _
        causal := by
          intro P o S h k hk
          simp [initC] at hk
        fresh := fun h => absurd rfl h
        creator := fun _ => rfl }
    · have hb : (i == 0) = false := by simpa using h0
      simp only [if_neg h0, hb]
      exact {
        st := (sem_nil hf).symm
        causal_ops := causal_nil typ
        pushed_le := Nat.le_refl _
        pulled_le := Nat.le_refl _
        own_eq := rfl
        oth_eq := rfl
        log_own := rfl
        clock_cuid := rfl
        lam_le := by intro e he; cases he
        ent_ok := by intro e he; cases he
        buf_sorted := List.Pairwise.nil
        keys := List.Pairwise.nil
        causal := by
          intro P o S h
          exact absurd h (by simp)
        fresh := fun _ _ => rfl
        creator := fun h => absurd h h0 }


namespace InvC
variable {typ : DtType} {cuid : Nat → String} {n : Nat} {net : Net} {ap : Nat → List LEnt}

theorem lt_of_node (I : InvC typ cuid n net ap) {i : Nat} {nd : Node} (hi : net.nodes[i]? = some nd) : i < n := by
  have := (List.getElem?_eq_some_iff.mp hi).1
  rw [I.len] at this; exact this

theorem call (I : InvC typ cuid n net ap) {i : Nat} {nd : Node} (c : Call) (hi : net.nodes[i]? = some nd)
    (hg : i ≠ 0 → 0 < nd.pulled) :
    ∃ ap', InvC typ cuid n ⟨net.nodes.set i { nd with r := (nd.r.call c).1 }, net.log⟩ ap' := by
  obtain ⟨A', hA'⟩ := (I.node i nd hi).call I.flat (I.lt_of_node hi) c hg
  refine ⟨upd ap i A', I.flat, I.distinct, by simp [I.len], ?_, I.log_auth, I.log_keys, I.log_head⟩
  intro j nd' hj
  rcases getElem?_set_some hj with ⟨rfl, rfl⟩ | ⟨hne, hj'⟩
  · rw [upd_self]; exact hA'
  · rw [upd_of_ne hne]; exact I.node j nd' hj'

theorem push (I : InvC typ cuid n net ap) {i : Nat} {nd : Node} {o : Op} (hi : net.nodes[i]? = some nd)
    (ho : nd.r.buffer[nd.pushed]? = some o) :
    InvC typ cuid n ⟨net.nodes.set i { nd with pushed := nd.pushed + 1 }, net.log ++ [(i, o)]⟩ ap := by
  have Ni := I.node i nd hi
  have hin := I.lt_of_node hi
  obtain ⟨hp, hpo⟩ := List.getElem?_eq_some_iff.mp ho
  have hob : o ∈ nd.r.buffer := List.mem_of_getElem? ho
  refine ⟨I.flat, I.distinct, by simp [I.len], ?_, ?_, ?_, ?_⟩
  · intro j nd' hj
    rcases getElem?_set_some hj with ⟨rfl, rfl⟩ | ⟨hne, hj'⟩
    · exact Ni.push_self ho
    · exact (I.node j nd' hj').push_other (fun e => hne e.symm) o
  · intro e he
    rcases List.mem_append.mp he with h | h
    · exact I.log_auth e h
    · simp only [List.mem_singleton] at h
      subst h
      exact hin
  · refine List.pairwise_append.mpr ⟨I.log_keys, List.pairwise_singleton _ _, ?_⟩
    intro e he e' he'
    simp only [List.mem_singleton] at he'
    subst he'
    obtain ⟨nde, hne, hbe, hae⟩ := I.log_mem he
    intro e0
    simp only [lkey, Prod.mk.injEq] at e0
    by_cases hei : e.1 = i
    · obtain ⟨a, oe⟩ := e
      simp only at hei
      subst hei
      have h1 := Ni.log_take he
      obtain ⟨q, hq, hqe⟩ := List.mem_take_iff_getElem.mp h1
      have := List.pairwise_iff_getElem.mp Ni.buf_sorted q nd.pushed (by omega) hp (by omega)
      rw [hqe, hpo] at this
      simp only at e0
      omega
    · have h1 := ((I.node e.1 nde hne).ent_ok e hae).2.1
      have h2 := (Ni.ent_ok _ (Ni.buf_mem hob)).2.1
      simp only at h2
      rw [h1, h2] at e0
      exact hei (I.distinct e.1 i (I.log_auth e he) hin e0.2)
  · -- the head of the log
    intro e he
    show e = snapEnt typ cuid
    have he' : (net.log ++ [(i, o)])[0]? = some e := he
    cases hlog : net.log with
    | cons e0 t =>
      rw [hlog] at he'
      simp only [List.cons_append, List.getElem?_cons_zero, Option.some.injEq] at he'
      subst he'
      exact I.log_head e0 (by rw [hlog]; rfl)
    | nil =>
      rw [hlog] at he'
      simp only [List.nil_append, List.getElem?_cons_zero, Option.some.injEq] at he'
      subst he'
      have hpl : nd.pulled = 0 := by
        have := Ni.pulled_le
        rw [hlog] at this
        simpa using this
      by_cases h0 : i = 0
      · subst h0
        have h1 := Ni.log_own
        rw [hlog] at h1
        have h2 : (nd.r.buffer.take nd.pushed).length = 0 := by
          have := congrArg List.length h1
          simpa [own] using this.symm
        have h3 : nd.pushed = 0 := by
          rw [List.length_take] at h2
          omega
        have h4 := Ni.creator rfl
        rw [h3] at ho
        rw [List.head?_eq_getElem?, ho] at h4
        simp only [Option.some.injEq] at h4
        rw [h4]; rfl
      · exfalso
        have hA := Ni.fresh h0 hpl
        have := Ni.buf_mem hob
        rw [hA] at this
        cases this

theorem pull (I : InvC typ cuid n net ap) {i : Nat} {nd : Node} {a : Nat} {o : Op} (hi : net.nodes[i]? = some nd)
    (hl : net.log[nd.pulled]? = some (a, o)) :
    ∃ ap', InvC typ cuid n ⟨net.nodes.set i { nd with r := if a = i then nd.r else (nd.r.execRemoteBase o).1,
                                                      pulled := nd.pulled + 1 }, net.log⟩ ap' := by
  have Ni := I.node i nd hi
  by_cases ha : a = i
  · subst ha
    refine ⟨ap, I.flat, I.distinct, by simp [I.len], ?_, I.log_auth, I.log_keys, I.log_head⟩
    intro j nd' hj
    rcases getElem?_set_some hj with ⟨rfl, rfl⟩ | ⟨hne, hj'⟩
    · simp only [if_true]
      exact Ni.pull_own hl
    · exact I.node j nd' hj'
  · obtain ⟨hneeds, hk, hent⟩ := I.deliver hi hl ha
    refine ⟨upd ap i (ap i ++ [(a, o)]), I.flat, I.distinct, by simp [I.len], ?_, I.log_auth, I.log_keys, I.log_head⟩
    intro j nd' hj
    rcases getElem?_set_some hj with ⟨rfl, rfl⟩ | ⟨hne, hj'⟩
    · rw [upd_self]
      simp only [if_neg ha]
      rcases hent.2.2 with hsnap | hok
      · obtain ⟨hp0, hA⟩ := I.deliver_snap hi hl ha hsnap
        have ha0 : a = 0 := congrArg Prod.fst hsnap
        have ho : o = snapOp typ cuid := congrArg Prod.snd hsnap
        subst ha0 ho
        exact Ni.pull_snap I.flat hl ha hA hent
      · exact Ni.pull_other I.flat hl ha hneeds hk hent hok
    · rw [upd_of_ne hne]; exact I.node j nd' hj'

theorem step (I : InvC typ cuid n net ap) {net' : Net} (h : StepC net net') : ∃ ap', InvC typ cuid n net' ap' := by
  cases h with
  | call i nd c hi hg => exact I.call c hi hg
  | push i nd o hi ho => exact ⟨ap, I.push hi ho⟩
  | pull i nd a o hi hl => exact I.pull hi hl

/-- the ghost sequence of a node is a permutation of the operations it has applied -/
theorem ops_perm (I : InvC typ cuid n net ap) {i : Nat} {nd : Node} (hi : net.nodes[i]? = some nd) :
    (opsOf (ap i)).Perm (appliedOps net.log i nd) := by
  have N := I.node i nd hi
  have h1 : (ap i).Perm (own i (ap i) ++ oth i (ap i)) := (List.filter_append_perm _ _).symm
  rw [N.own_eq, N.oth_eq] at h1
  have h2 := h1.map (·.2)
  have e2 : (nd.r.buffer.map (fun o => (i, o)) ++ oth i (net.log.take nd.pulled)).map (·.2) =
      appliedOps net.log i nd := by
    simp [appliedOps, List.map_append, List.map_map, Function.comp_def]
  rw [e2] at h2
  exact h2

end InvC


/-- **the invariant holds in every reachable state** -/
theorem inv_reachC {typ : DtType} {cuid : Nat → String} {n : Nat} {net : Net} (hf : Flat typ)
    (h : ReachC typ cuid n net) : ∃ ap, InvC typ cuid n net ap := by
  induction h with
  | init hc => exact ⟨_, inv_initC hf hc⟩
  | step _ hs ih =>
    obtain ⟨ap, I⟩ := ih
    exact I.step hs


/-- the ghost-free form of "caught up": a node that has pushed its whole buffer and consumed the whole log has applied
    exactly the operations of the log -/
theorem appliedOps_caught_up {typ : DtType} {cuid : Nat → String} {n : Nat} {net : Net} (hf : Flat typ)
    (h : ReachC typ cuid n net) {k : Nat}
    (hk : k < net.nodes.length) (q1 : net.nodes[k].pushed = net.nodes[k].r.buffer.length)
    (q2 : net.nodes[k].pulled = net.log.length) : (appliedOps net.log k net.nodes[k]).Perm (net.log.map (·.2)) := by
  obtain ⟨ap, I⟩ := inv_reachC hf h
  have hk' := List.getElem?_eq_getElem hk
  have N := I.node k _ hk'
  have h1 : (own k net.log ++ oth k net.log).Perm net.log := List.filter_append_perm _ _
  have h2 := h1.map (·.2)
  rw [N.log_own, q1, List.take_length] at h2
  have e : appliedOps net.log k net.nodes[k] =
      (net.nodes[k].r.buffer.map (fun o => (k, o)) ++ oth k net.log).map (·.2) := by
    simp [appliedOps, q2, List.map_append, List.map_map, Function.comp_def]
  rw [e]
  exact h2

/-- two nodes that have pushed everything they issued and consumed the whole log have the same operations (whatever the
    other nodes still hold back) -/
theorem sameOps_of_caught_up {typ : DtType} {cuid : Nat → String} {n : Nat} {net : Net} (hf : Flat typ)
    (h : ReachC typ cuid n net) {i j : Nat}
    (hi : i < net.nodes.length) (hj : j < net.nodes.length)
    (pi : net.nodes[i].pushed = net.nodes[i].r.buffer.length) (li : net.nodes[i].pulled = net.log.length)
    (pj : net.nodes[j].pushed = net.nodes[j].r.buffer.length) (lj : net.nodes[j].pulled = net.log.length) :
    SameOps net i j :=
  ⟨_, _, List.getElem?_eq_getElem hi, List.getElem?_eq_getElem hj,
    (appliedOps_caught_up hf h hi pi li).trans (appliedOps_caught_up hf h hj pj lj).symm⟩

/-- at quiescence every node has applied the whole log -/
theorem sameOps_of_quiescent {typ : DtType} {cuid : Nat → String} {n : Nat} {net : Net} (hf : Flat typ)
    (h : ReachC typ cuid n net) (hq : Quiescent net)
    {i j : Nat} (hi : i < net.nodes.length) (hj : j < net.nodes.length) : SameOps net i j := by
  obtain ⟨a1, a2⟩ := hq _ (List.getElem_mem hi)
  obtain ⟨b1, b2⟩ := hq _ (List.getElem_mem hj)
  exact sameOps_of_caught_up hf h hi hj a1 a2 b1 b2

/-! ## the theorems (map, counter) -/

/-- a non-empty log starts with the creator's snapshot operation; it is nowhere else; every other entry is an operation of
    the datatype -/
theorem log_starts_with_snapshot {typ : DtType} (hf : Flat typ) {cuid : Nat → String} {n : Nat} :
    ∀ net, ReachC typ cuid n net →
    (∀ e, net.log[0]? = some e → e = snapEnt typ cuid) ∧
    (∀ k a o, net.log[k]? = some (a, o) → k ≠ 0 → OpOK typ o) := by
  intro net h
  obtain ⟨ap, I⟩ := inv_reachC hf h
  refine ⟨I.log_head, ?_⟩
  intro k a o hk hk0
  obtain ⟨nda, hna, _, hapa⟩ := I.log_mem (List.mem_of_getElem? hk)
  rcases ((I.node a nda hna).ent_ok _ hapa).2.2 with hs | hx
  · exact absurd (I.snap_pos (hs ▸ hk)) hk0
  · exact hx

/-- every enabled delivery is the snapshot delivery to an untouched subscriber (state fresh before and after, no panic), or the
    delivery of an operation of the datatype that has what it needs: no error, no panic, IS the remote application -/
theorem deliveries_exact {typ : DtType} (hf : Flat typ) {cuid : Nat → String} {n : Nat} :
    ∀ net, ReachC typ cuid n net →
    ∀ (i : Nat) (nd : Node) (a : Nat) (o : Op), net.nodes[i]? = some nd → net.log[nd.pulled]? = some (a, o) → a ≠ i →
      (a = 0 ∧ o = snapOp typ cuid ∧ nd.pulled = 0 ∧ nd.r.state = DState.fresh typ ∧
        (nd.r.execRemoteBase o).2 = none ∧ (nd.r.execRemoteBase o).1.state = DState.fresh typ) ∨
      (OpOK typ o ∧ ∃ ops, nd.r.state = sem typ ops ∧ Needs typ o ops ∧ (nd.r.execRemoteBase o).2 = none ∧
        (nd.r.execRemoteBase o).1.state = sem typ (ops ++ [o])) := by
  intro net h i nd a o hi hl ha
  obtain ⟨ap, I⟩ := inv_reachC hf h
  have N := I.node i nd hi
  obtain ⟨hneeds, _, hent⟩ := I.deliver hi hl ha
  rcases hent.2.2 with hsnap | hok
  · left
    obtain ⟨hp0, hA⟩ := I.deliver_snap hi hl ha hsnap
    have ha0 : a = 0 := congrArg Prod.fst hsnap
    have ho : o = snapOp typ cuid := congrArg Prod.snd hsnap
    subst ha0 ho
    have hs0 : nd.r.state = DState.fresh typ := by
      have := N.st
      rw [hA] at this
      rw [this]
      exact sem_nil hf
    exact ⟨rfl, rfl, hp0, hs0, (execRemoteBase_snap hf nd.r hs0 cuid).2, (execRemoteBase_snap hf nd.r hs0 cuid).1⟩
  · right
    obtain ⟨r1, r2⟩ := remote_cases hf nd.r _ N.st o hok
    exact ⟨hok, opsOf (ap i), N.st, hneeds, r2, r1⟩

theorem map_same_operations_same_reads {cuid : Nat → String} {n : Nat} : ∀ net, ReachC .map cuid n net →
    ∀ i j (hi : i < net.nodes.length) (hj : j < net.nodes.length) mi mj,
    net.nodes[i].r.state = .map mi → net.nodes[j].r.state = .map mj → SameOps net i j →
    (∀ k, mi.get k = mj.get k) ∧ mi.size = mj.size ∧
    (∀ k, alFind k mi.live = alFind k mj.live) ∧ mi.live.Perm mj.live ∧ sortedView mi = sortedView mj ∧
    jsonView mi = jsonView mj := by
  intro net h i j hi hj mi mj hmi hmj hsame
  obtain ⟨ap, I⟩ := inv_reachC flat_map h
  have hi' := List.getElem?_eq_getElem hi
  have hj' := List.getElem?_eq_getElem hj
  obtain ⟨ni, nj, hni, hnj, hperm⟩ := hsame
  rw [hi'] at hni
  rw [hj'] at hnj
  simp only [Option.some.injEq] at hni hnj
  subst hni hnj
  have Ni := I.node i _ hi'
  have Nj := I.node j _ hj'
  have hp : (opsOf (ap i)).Perm (opsOf (ap j)) := ((I.ops_perm hi').trans hperm).trans (I.ops_perm hj').symm
  have e1 := Ni.st
  have e2 := Nj.st
  rw [hmi] at e1
  rw [hmj] at e2
  simp only [sem, DState.map.injEq] at e1 e2
  obtain ⟨hget, hsize⟩ := map_converge _ _ hp (mapCausal_of_causal Ni.causal_ops) (mapCausal_of_causal Nj.causal_ops)
    (distinctTs_of_keys Ni.keys)
  rw [← e1, ← e2] at hget hsize
  have wi : mi.WF := e1 ▸ wf_mapApplyAll _ _ wf_empty
  have wj : mj.WF := e2 ▸ wf_mapApplyAll _ _ wf_empty
  exact ⟨hget, hsize, views_of_get_eq wi wj hget⟩

/-- the state of every node of a created map system is a well-formed map -/
theorem map_state_is_map {cuid : Nat → String} {n : Nat} : ∀ net, ReachC .map cuid n net →
    ∀ nd ∈ net.nodes, ∃ m, nd.r.state = .map m ∧ m.WF := by
  intro net h nd hnd
  obtain ⟨ap, I⟩ := inv_reachC flat_map h
  obtain ⟨i, hi⟩ := List.mem_iff_getElem?.mp hnd
  exact ⟨_, (I.node i nd hi).st, wf_mapApplyAll _ _ wf_empty⟩

/-- the value of a counter node is a function of `appliedOps` alone: the sum of the increments, with 32-bit wrap (the snapshot
    operation in `appliedOps` counts for nothing) -/
theorem counter_value_is_spec {cuid : Nat → String} {n : Nat} : ∀ net, ReachC .counter cuid n net →
    ∀ (i : Nat) (nd : Node), net.nodes[i]? = some nd →
      nd.r.state = DState.counter (Spec.counter (appliedOps net.log i nd)) := by
  intro net h i nd hi
  obtain ⟨ap, I⟩ := inv_reachC flat_counter h
  rw [(I.node i nd hi).st]
  simp only [sem]
  rw [counter_converge _ _ (I.ops_perm hi), counter_denote]

theorem counter_same_operations_same_state {cuid : Nat → String} {n : Nat} : ∀ net, ReachC .counter cuid n net →
    ∀ i j (hi : i < net.nodes.length) (hj : j < net.nodes.length),
    SameOps net i j → net.nodes[i].r.state = net.nodes[j].r.state := by
  intro net h i j hi hj hsame
  have hi' := List.getElem?_eq_getElem hi
  have hj' := List.getElem?_eq_getElem hj
  obtain ⟨ni, nj, hni, hnj, hperm⟩ := hsame
  rw [hi'] at hni
  rw [hj'] at hnj
  simp only [Option.some.injEq] at hni hnj
  subst hni hnj
  rw [counter_value_is_spec net h i _ hi', counter_value_is_spec net h j _ hj']
  have := counter_converge _ _ hperm
  rw [counter_denote, counter_denote] at this
  rw [this]

end M

/-! # B. the list (`Orda.LNet`) -/
namespace L
open Orda Orda.RF Orda.LNet


/-- the creation snapshot operation of the creator (Model/Replica.lean:197) -/
def snapOp (cuid : Nat → String) : Op := ⟨(OpId.new (cuid 0)).next, .snapshot (DState.fresh .list)⟩
/-- … as a log entry -/
def snapEnt (cuid : Nat → String) : LEnt := (0, snapOp cuid)

/-- node 0 is the creator, nodes 1..n-1 are fresh subscribers; nothing pushed or pulled; empty log -/
def initC (cuid : Nat → String) (n : Nat) : Net :=
  ⟨(List.range n).map fun i => ⟨Replica.new .list (cuid i) (i == 0), 0, 0⟩, []⟩

/-- steps: as `Step`, except that a subscriber (i ≠ 0) issues calls only after it has consumed the first log entry -/
inductive StepC : Net → Net → Prop
  | call (net : Net) (i : Nat) (nd : Node) (c : Call) (hi : net.nodes[i]? = some nd) (hg : i ≠ 0 → 0 < nd.pulled) :
      StepC net ⟨net.nodes.set i { nd with r := (nd.r.call c).1 }, net.log⟩
  | push (net : Net) (i : Nat) (nd : Node) (o : Op) (hi : net.nodes[i]? = some nd)
      (ho : nd.r.buffer[nd.pushed]? = some o) :
      StepC net ⟨net.nodes.set i { nd with pushed := nd.pushed + 1 }, net.log ++ [(i, o)]⟩
  | pull (net : Net) (i : Nat) (nd : Node) (a : Nat) (o : Op) (hi : net.nodes[i]? = some nd)
      (hl : net.log[nd.pulled]? = some (a, o)) :
      StepC net ⟨net.nodes.set i { nd with r := if a = i then nd.r else (nd.r.execRemoteBase o).1,
                                           pulled := nd.pulled + 1 }, net.log⟩

inductive ReachC (cuid : Nat → String) (n : Nat) : Net → Prop
  | init (hc : CuidsDistinct cuid n) : ReachC cuid n (initC cuid n)
  | step {net net' : Net} : ReachC cuid n net → StepC net net' → ReachC cuid n net'

/-- every step of the created system is a step of the system without creator (the guard is only a restriction) -/
theorem StepC.toStep {net net' : Net} (h : StepC net net') : Step net net' := by
  cases h with
  | call i nd c hi hg => exact .call net i nd c hi
  | push i nd o hi ho => exact .push net i nd o hi ho
  | pull i nd a o hi hl => exact .pull net i nd a o hi hl

/-- the executable form: `Net.act` + the guard -/
def actC (net : Net) : Act → Option Net
  | .call i c =>
    match net.nodes[i]? with
    | some nd =>
      if i = 0 ∨ 0 < nd.pulled then some ⟨net.nodes.set i { nd with r := (nd.r.call c).1 }, net.log⟩ else none
    | none => none
  | .push i => net.act (.push i)
  | .pull i => net.act (.pull i)

def runC (net : Net) : List Act → Option Net
  | [] => some net
  | a :: as => match actC net a with
    | some net' => runC net' as
    | none => none

theorem stepC_of_actC {net net' : Net} {a : Act} (h : actC net a = some net') : StepC net net' := by
  cases a with
  | call i c =>
    simp only [actC] at h
    cases hn : net.nodes[i]? with
    | none => rw [hn] at h; cases h
    | some nd =>
      rw [hn] at h
      simp only at h
      by_cases hg : i = 0 ∨ 0 < nd.pulled
      · rw [if_pos hg] at h
        simp only [Option.some.injEq] at h
        subst h
        refine .call net i nd c hn ?_
        intro h0
        rcases hg with h1 | h1
        · exact absurd h1 h0
        · exact h1
      · rw [if_neg hg] at h; cases h
  | push i =>
    simp only [actC, Net.act] at h
    cases hn : net.nodes[i]? with
    | none => rw [hn] at h; cases h
    | some nd =>
      rw [hn] at h
      simp only at h
      cases ho : nd.r.buffer[nd.pushed]? with
      | none => rw [ho] at h; cases h
      | some o =>
        rw [ho] at h
        simp only [Option.some.injEq] at h
        subst h
        exact .push net i nd o hn ho
  | pull i =>
    simp only [actC, Net.act] at h
    cases hn : net.nodes[i]? with
    | none => rw [hn] at h; cases h
    | some nd =>
      rw [hn] at h
      simp only at h
      cases hl : net.log[nd.pulled]? with
      | none => rw [hl] at h; cases h
      | some e =>
        obtain ⟨a, o⟩ := e
        rw [hl] at h
        simp only [Option.some.injEq] at h
        subst h
        exact .pull net i nd a o hn hl

theorem reachC_run {cuid : Nat → String} {n : Nat} : ∀ (as : List Act) {net net' : Net},
    ReachC cuid n net → runC net as = some net' → ReachC cuid n net'
  | [], _, _, hr, h => by
    simp only [runC, Option.some.injEq] at h
    exact h ▸ hr
  | a :: as, net, net', hr, h => by
    simp only [runC] at h
    cases ha : actC net a with
    | none => rw [ha] at h; cases h
    | some net1 =>
      rw [ha] at h
      exact reachC_run as (.step hr (stepC_of_actC ha)) h

theorem head?_snoc {α : Type} {l : List α} {a b : α} (h : l.head? = some a) : (l ++ [b]).head? = some a := by
  cases l with
  | nil => cases h
  | cons x t => simpa using h


/-! ## the invariant: `LNet.NodeInv` with the snapshot entry allowed, + `fresh`, `creator`, `log_head` -/

def EntOKC (cuid : Nat → String) (n : Nat) (e : LEnt) : Prop :=
  e.1 < n ∧ e.2.id.cuid = cuid e.1 ∧ e.2.id.era = 0 ∧ 1 ≤ e.2.id.lamport ∧ (e = snapEnt cuid ∨ ListBody e.2.body)

structure NodeInvC (cuid : Nat → String) (n : Nat) (log : List LEnt) (i : Nat) (nd : Node) (A : List LEnt) : Prop where
  st : nd.r.state = .list (Rga.empty.applyAllL (den A))
  lc : LCausal (den A)
  pushed_le : nd.pushed ≤ nd.r.buffer.length
  pulled_le : nd.pulled ≤ log.length
  own_eq : own i A = nd.r.buffer.map (fun o => (i, o))
  oth_eq : oth i A = oth i (log.take nd.pulled)
  log_own : own i log = (nd.r.buffer.take nd.pushed).map (fun o => (i, o))
  clock_cuid : nd.r.opId.cuid = cuid i
  clock_era : nd.r.opId.era = 0
  lam_le : ∀ e ∈ A, e.2.id.lamport ≤ nd.r.opId.lamport
  ent_ok : ∀ e ∈ A, EntOKC cuid n e
  buf_sorted : nd.r.buffer.Pairwise (fun o o' => o.id.lamport < o'.id.lamport)
  keys : A.Pairwise (fun e e' => lkey e ≠ lkey e')
  causal : ∀ P o S, A = P ++ (i, o) :: S → ∀ k, log[k]? = some (i, o) → ∀ e ∈ P, e ∈ log.take k
  /-- a subscriber that has consumed nothing has applied nothing (the guard of `StepC.call`) -/
  fresh : i ≠ 0 → nd.pulled = 0 → A = []
  /-- the creator's buffer starts with the creation snapshot operation -/
  creator : i = 0 → nd.r.buffer.head? = some (snapOp cuid)

structure InvC (cuid : Nat → String) (n : Nat) (net : Net) (ap : Nat → List LEnt) : Prop where
  distinct : CuidsDistinct cuid n
  len : net.nodes.length = n
  node : ∀ i nd, net.nodes[i]? = some nd → NodeInvC cuid n net.log i nd (ap i)
  log_auth : ∀ e ∈ net.log, e.1 < n
  log_keys : net.log.Pairwise (fun e e' => lkey e ≠ lkey e')
  /-- a non-empty log starts with the creation snapshot entry -/
  log_head : ∀ e, net.log[0]? = some e → e = snapEnt cuid

theorem toL_snapOp (cuid : Nat → String) : toL (snapOp cuid) = none := rfl

/-- the delivery of the snapshot operation to a replica that holds the empty list: the list stays empty, no panic -/
theorem execRemoteBase_snap (r : Replica) (hs : r.state = .list Rga.empty) (cuid : Nat → String) :
    (r.execRemoteBase (snapOp cuid)).1.state = .list Rga.empty ∧ (r.execRemoteBase (snapOp cuid)).2 = none := by
  simp [Replica.execRemoteBase, execRemote, hs, snapOp, DState.fresh]


namespace NodeInvC
variable {cuid : Nat → String} {n : Nat} {log : List LEnt} {i : Nat} {nd : Node} {A : List LEnt}

theorem buf_mem (N : NodeInvC cuid n log i nd A) {o : Op} (h : o ∈ nd.r.buffer) : (i, o) ∈ A := by
  have : (i, o) ∈ own i A := by rw [N.own_eq]; exact List.mem_map.mpr ⟨o, h, rfl⟩
  exact (mem_own.mp this).1

theorem mem_buf (N : NodeInvC cuid n log i nd A) {o : Op} (h : (i, o) ∈ A) : o ∈ nd.r.buffer := by
  have : (i, o) ∈ own i A := mem_own.mpr ⟨h, rfl⟩
  rw [N.own_eq] at this
  obtain ⟨o', h1, h2⟩ := List.mem_map.mp this
  simp only [Prod.mk.injEq, true_and] at h2
  exact h2 ▸ h1

theorem log_take (N : NodeInvC cuid n log i nd A) {o : Op} (h : (i, o) ∈ log) : o ∈ nd.r.buffer.take nd.pushed := by
  have : (i, o) ∈ own i log := mem_own.mpr ⟨h, rfl⟩
  rw [N.log_own] at this
  obtain ⟨o', h1, h2⟩ := List.mem_map.mp this
  simp only [Prod.mk.injEq, true_and] at h2
  exact h2 ▸ h1

/-- every consumed log entry has been applied -/
theorem mem_of_log (N : NodeInvC cuid n log i nd A) {e : LEnt} (h : e ∈ log.take nd.pulled) : e ∈ A := by
  by_cases he : e.1 = i
  · obtain ⟨a, o⟩ := e
    simp only at he
    subst he
    exact N.buf_mem (List.mem_of_mem_take (N.log_take (List.mem_of_mem_take h)))
  · have : e ∈ oth i A := by rw [N.oth_eq]; exact mem_oth.mpr ⟨h, he⟩
    exact (mem_oth.mp this).1

theorem buf_lam (N : NodeInvC cuid n log i nd A) {o : Op} (h : o ∈ nd.r.buffer) : o.id.lamport ≤ nd.r.opId.lamport :=
  N.lam_le _ (N.buf_mem h)

/-- everything applied so far is older than the next local operation -/
theorem den_lt (N : NodeInvC cuid n log i nd A) : ∀ p ∈ den A, p.ts.cmp nd.r.opId.next.ts = .lt := by
  intro p hp
  obtain ⟨e, he, hep⟩ := mem_den.mp hp
  rw [toL_ts hep]
  apply cmp_lt_of_lamport_lt
  · show e.2.id.era = nd.r.opId.era
    rw [(N.ent_ok e he).2.2.1, N.clock_era]
  · show e.2.id.lamport < nd.r.opId.lamport + 1
    exact Nat.lt_succ_of_le (N.lam_le e he)

end NodeInvC


namespace InvC
variable {cuid : Nat → String} {n : Nat} {net : Net} {ap : Nat → List LEnt}

theorem log_mem (I : InvC cuid n net ap) {e : LEnt} (h : e ∈ net.log) :
    ∃ nd, net.nodes[e.1]? = some nd ∧ e.2 ∈ nd.r.buffer.take nd.pushed ∧ e ∈ ap e.1 := by
  have hlt : e.1 < net.nodes.length := by rw [I.len]; exact I.log_auth e h
  refine ⟨net.nodes[e.1], List.getElem?_eq_getElem hlt, ?_⟩
  have N := I.node e.1 _ (List.getElem?_eq_getElem hlt)
  obtain ⟨a, o⟩ := e
  have h1 := N.log_take h
  exact ⟨h1, N.buf_mem (List.mem_of_mem_take h1)⟩

/-- **every delivery extends the receiver's causal sequence**: what the delivered operation refers to (anchor, targets)
    was created by operations the receiver has already applied -/
theorem deliver (I : InvC cuid n net ap) {j : Nat} {nd : Node} {a : Nat} {o : Op} (hj : net.nodes[j]? = some nd)
    (hl : net.log[nd.pulled]? = some (a, o)) (ha : a ≠ j) :
    LCausal (den (ap j) ++ (toL o).toList) ∧ (∀ e ∈ ap j, lkey e ≠ lkey (a, o)) ∧ EntOKC cuid n (a, o) := by
  have hmem : (a, o) ∈ net.log := List.mem_of_getElem? hl
  obtain ⟨nda, hna, hbuf, hapa⟩ := I.log_mem hmem
  simp only at hna hbuf hapa
  have Na := I.node a nda hna
  have Nj := I.node j nd hj
  have hent := Na.ent_ok _ hapa
  obtain ⟨han, hcu, hera, hlam, hbody⟩ := hent
  simp only at han hcu hera hlam hbody
  obtain ⟨P, S, hsplit⟩ := List.append_of_mem hapa
  have hc := Na.causal P o S hsplit nd.pulled hl
  have hsubset : P ⊆ ap j := fun e he => Nj.mem_of_log (hc e he)
  -- the keys
  have hkeys : ∀ e ∈ ap j, lkey e ≠ lkey (a, o) := by
    intro e he
    by_cases hej : e.1 = j
    · have := (Nj.ent_ok e he).2.1
      intro e0
      simp only [lkey, Prod.mk.injEq] at e0
      rw [this, hcu, hej] at e0
      have hjn : j < n := by
        have := (List.getElem?_eq_some_iff.mp hj).1
        rw [I.len] at this; exact this
      exact ha (I.distinct j a hjn han e0.2).symm
    · have h1 : e ∈ oth j (ap j) := mem_oth.mpr ⟨he, hej⟩
      rw [Nj.oth_eq] at h1
      obtain ⟨k', hk', hek⟩ := List.mem_take_iff_getElem.mp (mem_oth.mp h1).1
      obtain ⟨hp, hpe⟩ := List.getElem?_eq_some_iff.mp hl
      have := List.pairwise_iff_getElem.mp I.log_keys k' nd.pulled (by omega) hp (by omega)
      rw [hek, hpe] at this
      exact this
  refine ⟨?_, hkeys, ⟨han, hcu, hera, hlam, hbody⟩⟩
  cases hx : toL o with
  | none => simpa using Nj.lc
  | some x =>
    show LCausal (den (ap j) ++ [x])
    -- the author's sequence up to and including `x`
    have hPx : LCausal (den P ++ [x]) := by
      have h0 := Na.lc
      rw [hsplit, den_append, den_cons, hx] at h0
      have h1 : LCausal ((den P ++ [x]) ++ den S) := by simpa using h0
      exact lcausal_prefix _ h1
    have hsub : ∀ q ∈ den P, q ∈ den (ap j) := by
      intro q hq
      obtain ⟨e, he, heq⟩ := mem_den.mp hq
      exact mem_den.mpr ⟨e, hsubset he, heq⟩
    have hkne : ∀ q ∈ den (ap j), q.ts.key ≠ x.ts.key := by
      intro q hq
      obtain ⟨e, he, heq⟩ := mem_den.mp hq
      exact key_ne_of_lkey (e' := (a, o)) (hkeys e he) heq hx
    cases x with
    | ins a' ts vals =>
      have hi := hPx.ins
      have hm : (⟨a', ts, vals⟩ : InsOp) ∈ insOps (den P ++ [.ins a' ts vals]) := mem_insOps (by simp)
      apply lcausal_snoc_ins Nj.lc (hi.delim0 _ hm) (hi.nonempty _ hm) (hi.notHead _ hm) hkne
      rcases lcausal_last_ins hPx with h1 | ⟨q, hq, h2, h3⟩
      · exact Or.inl h1
      · exact Or.inr ⟨q, hsub q hq, h2, h3⟩
    | del tgs ts =>
      apply lcausal_snoc_mod (p := .del tgs ts) Nj.lc rfl
      · intro q hq _ e0
        exact hkne q hq ((cmp_eq_iff _ _).mp e0)
      · intro t ht
        obtain ⟨q, hq, hm⟩ := lcausal_last_targets hPx t ht
        exact ⟨q, hsub q hq, hm⟩
    | upd tgs vs ts =>
      apply lcausal_snoc_mod (p := .upd tgs vs ts) Nj.lc rfl
      · intro q hq _ e0
        exact hkne q hq ((cmp_eq_iff _ _).mp e0)
      · intro t ht
        obtain ⟨q, hq, hm⟩ := lcausal_last_targets hPx t ht
        exact ⟨q, hsub q hq, hm⟩


/-- the snapshot entry sits at position 0 of the log and nowhere else -/
theorem snap_pos (I : InvC cuid n net ap) {k : Nat} (h : net.log[k]? = some (snapEnt cuid)) : k = 0 := by
  by_contra hk
  obtain ⟨hp, hpe⟩ := List.getElem?_eq_some_iff.mp h
  have h0 : 0 < net.log.length := by omega
  have e0 := I.log_head _ (List.getElem?_eq_getElem h0)
  have := List.pairwise_iff_getElem.mp I.log_keys 0 k h0 hp (by omega)
  rw [hpe, e0] at this
  exact this rfl

/-- the snapshot delivery meets a subscriber that has consumed and applied nothing -/
theorem deliver_snap (I : InvC cuid n net ap) {j : Nat} {nd : Node} {a : Nat} {o : Op} (hj : net.nodes[j]? = some nd)
    (hl : net.log[nd.pulled]? = some (a, o)) (ha : a ≠ j) (hs : (a, o) = snapEnt cuid) :
    nd.pulled = 0 ∧ ap j = [] := by
  have hp0 : nd.pulled = 0 := I.snap_pos (hs ▸ hl)
  have ha0 : a = 0 := congrArg Prod.fst hs
  exact ⟨hp0, (I.node j nd hj).fresh (fun e => ha (ha0.trans e.symm)) hp0⟩

end InvC


namespace NodeInvC
variable {cuid : Nat → String} {n : Nat} {log : List LEnt} {i : Nat} {nd : Node} {A : List LEnt}

/-- a call at node `i` -/
theorem call (N : NodeInvC cuid n log i nd A) (hi : i < n) (c : Call) (hgd : i ≠ 0 → 0 < nd.pulled) :
    ∃ A', NodeInvC cuid n log i { nd with r := (nd.r.call c).1 } A' := by
  rcases call_cases nd.r _ N.st c with ⟨h1, h2, h3, h4, h5⟩ | ⟨o, l', hbuf, hid, hop, hst, hloc⟩
  · refine ⟨A, ?_⟩
    exact {
      fresh := N.fresh
      creator := by
        intro h0
        show (nd.r.call c).1.buffer.head? = _
        rw [h2]; exact N.creator h0
      st := by
        show (nd.r.call c).1.state = _
        rw [h1]; exact N.st
      lc := N.lc
      pushed_le := by
        show nd.pushed ≤ (nd.r.call c).1.buffer.length
        rw [h2]; exact N.pushed_le
      pulled_le := N.pulled_le
      own_eq := by
        show own i A = (nd.r.call c).1.buffer.map _
        rw [h2]; exact N.own_eq
      oth_eq := N.oth_eq
      log_own := by
        show own i log = ((nd.r.call c).1.buffer.take nd.pushed).map _
        rw [h2]; exact N.log_own
      clock_cuid := by
        show (nd.r.call c).1.opId.cuid = _
        rw [h3]; exact N.clock_cuid
      clock_era := by
        show (nd.r.call c).1.opId.era = _
        rw [h4]; exact N.clock_era
      lam_le := by
        intro e he
        show _ ≤ (nd.r.call c).1.opId.lamport
        exact Nat.le_trans (N.lam_le e he) h5
      ent_ok := N.ent_ok
      buf_sorted := by
        show (nd.r.call c).1.buffer.Pairwise _
        rw [h2]; exact N.buf_sorted
      keys := N.keys
      causal := N.causal }
  · refine ⟨A ++ [(i, o)], ?_⟩
    have hlam : o.id.lamport = nd.r.opId.lamport + 1 := by rw [hid]; rfl
    have hts : o.id.ts = nd.r.opId.next.ts := by rw [hid]
    have hnh : nd.r.opId.next.ts.key ≠ Ts.oldest.key := by
      intro e0
      simp only [Ts.key, OpId.ts, OpId.next, Ts.oldest, Prod.mk.injEq] at e0
      omega
    obtain ⟨hl', hlc, hbody⟩ := local_step N.lc (ts := nd.r.opId.next.ts) rfl hnh N.den_lt hts hloc
    have hnotlog : (i, o) ∉ log := by
      intro hm
      have := N.buf_lam (List.mem_of_mem_take (N.log_take hm))
      omega
    exact {
      fresh := by
        intro h0 hp
        have := hgd h0
        have hp' : nd.pulled = 0 := hp
        omega
      creator := by
        intro h0
        show (nd.r.call c).1.buffer.head? = _
        rw [hbuf]
        exact head?_snoc (N.creator h0)
      st := by
        show (nd.r.call c).1.state = _
        rw [hst, hl', den_snoc, applyAllL_app]
      lc := by
        rw [den_snoc]; exact hlc
      pushed_le := by
        show nd.pushed ≤ (nd.r.call c).1.buffer.length
        rw [hbuf]; simp; exact Nat.le_succ_of_le N.pushed_le
      pulled_le := N.pulled_le
      own_eq := by
        show own i (A ++ [(i, o)]) = (nd.r.call c).1.buffer.map _
        rw [hbuf, own_append, own_single_self, N.own_eq]; simp
      oth_eq := by
        show oth i (A ++ [(i, o)]) = _
        rw [oth_append, oth_single_self, List.append_nil]; exact N.oth_eq
      log_own := by
        show own i log = ((nd.r.call c).1.buffer.take nd.pushed).map _
        rw [hbuf, List.take_append_of_le_length N.pushed_le]; exact N.log_own
      clock_cuid := by
        show (nd.r.call c).1.opId.cuid = _
        rw [hop]; exact N.clock_cuid
      clock_era := by
        show (nd.r.call c).1.opId.era = _
        rw [hop]; exact N.clock_era
      lam_le := by
        intro e he
        show _ ≤ (nd.r.call c).1.opId.lamport
        rw [hop]
        show _ ≤ nd.r.opId.lamport + 1
        rcases List.mem_append.mp he with h | h
        · exact Nat.le_succ_of_le (N.lam_le e h)
        · simp only [List.mem_singleton] at h
          subst h
          exact Nat.le_of_eq hlam
      ent_ok := by
        intro e he
        rcases List.mem_append.mp he with h | h
        · exact N.ent_ok e h
        · simp only [List.mem_singleton] at h
          subst h
          refine ⟨hi, ?_, ?_, ?_, Or.inr hbody⟩
          · show o.id.cuid = cuid i
            rw [hid]; exact N.clock_cuid
          · show o.id.era = 0
            rw [hid]; exact N.clock_era
          · show 1 ≤ o.id.lamport
            omega
      buf_sorted := by
        show (nd.r.call c).1.buffer.Pairwise _
        rw [hbuf]
        refine List.pairwise_append.mpr ⟨N.buf_sorted, List.pairwise_singleton _ _, ?_⟩
        intro o' ho' o'' ho''
        simp only [List.mem_singleton] at ho''
        subst ho''
        have := N.buf_lam ho'
        omega
      keys := by
        refine List.pairwise_append.mpr ⟨N.keys, List.pairwise_singleton _ _, ?_⟩
        intro e he e' he'
        simp only [List.mem_singleton] at he'
        subst he'
        intro e0
        have := N.lam_le e he
        simp only [lkey, Prod.mk.injEq] at e0
        omega
      causal := by
        intro P o' S hsplit k hk e he
        rcases snoc_split hsplit with ⟨_, _, h3⟩ | ⟨S', _, h2⟩
        · simp only [Prod.mk.injEq, true_and] at h3
          subst h3
          exact absurd (List.mem_of_getElem? hk) hnotlog
        · exact N.causal P o' S' h2 k hk e he }

/-- node `i` pushes its next operation -/
theorem push_self (N : NodeInvC cuid n log i nd A) {o : Op} (ho : nd.r.buffer[nd.pushed]? = some o) :
    NodeInvC cuid n (log ++ [(i, o)]) i { nd with pushed := nd.pushed + 1 } A := by
  obtain ⟨hp, hpo⟩ := List.getElem?_eq_some_iff.mp ho
  exact {
    fresh := N.fresh
    creator := N.creator
    st := N.st
    lc := N.lc
    pushed_le := hp
    pulled_le := by
      show nd.pulled ≤ (log ++ [(i, o)]).length
      simp; exact Nat.le_succ_of_le N.pulled_le
    own_eq := N.own_eq
    oth_eq := by
      show oth i A = oth i ((log ++ [(i, o)]).take nd.pulled)
      rw [List.take_append_of_le_length N.pulled_le]; exact N.oth_eq
    log_own := by
      show own i (log ++ [(i, o)]) = (nd.r.buffer.take (nd.pushed + 1)).map _
      rw [own_append, own_single_self, N.log_own, ← List.take_append_getElem hp, hpo]; simp
    clock_cuid := N.clock_cuid
    clock_era := N.clock_era
    lam_le := N.lam_le
    ent_ok := N.ent_ok
    buf_sorted := N.buf_sorted
    keys := N.keys
    causal := by
      intro P o' S hsplit k hk e he
      have hlen : k < (log ++ [(i, o)]).length := (List.getElem?_eq_some_iff.mp hk).1
      by_cases hk' : k < log.length
      · rw [List.getElem?_append_left hk'] at hk
        rw [List.take_append_of_le_length (Nat.le_of_lt hk')]
        exact N.causal P o' S hsplit k hk e he
      · have hk'' : k = log.length := by
          simp only [List.length_append, List.length_cons, List.length_nil] at hlen; omega
        subst hk''
        rw [List.getElem?_append_right (Nat.le_refl _)] at hk
        simp only [Nat.sub_self, List.getElem?_cons_zero, Option.some.injEq, Prod.mk.injEq, true_and] at hk
        subst hk
        rw [List.take_append_of_le_length (Nat.le_refl _), List.take_length]
        have heA : e ∈ A := by rw [hsplit]; simp [he]
        by_cases hei : e.1 = i
        · obtain ⟨a, oe⟩ := e
          simp only at hei
          subst hei
          -- own entries are in lamport order
          have hso : (own a A).Pairwise (fun e e' => e.2.id.lamport < e'.2.id.lamport) := by
            rw [N.own_eq, List.pairwise_map]; exact N.buf_sorted
          rw [hsplit, own_append, own_cons_self] at hso
          have hlt : oe.id.lamport < o.id.lamport :=
            (List.pairwise_append.mp hso).2.2 (a, oe) (mem_own.mpr ⟨he, rfl⟩) (a, o) (by simp)
          have hb := N.mem_buf heA
          obtain ⟨q, hq, hqe⟩ := List.getElem_of_mem hb
          have hqp : q < nd.pushed := by
            by_contra hge
            by_cases hqe' : q = nd.pushed
            · subst hqe'
              rw [hpo] at hqe
              subst hqe
              omega
            · have := List.pairwise_iff_getElem.mp N.buf_sorted nd.pushed q hp hq (by omega)
              rw [hpo, hqe] at this
              omega
          have : (a, oe) ∈ own a log := by
            rw [N.log_own]
            exact List.mem_map.mpr ⟨oe, List.mem_take_iff_getElem.mpr ⟨q, by omega, hqe⟩, rfl⟩
          exact (mem_own.mp this).1
        · have : e ∈ oth i A := mem_oth.mpr ⟨heA, hei⟩
          rw [N.oth_eq] at this
          exact List.mem_of_mem_take (mem_oth.mp this).1 }

/-- another node pushes -/
theorem push_other (N : NodeInvC cuid n log i nd A) {a : Nat} (ha : a ≠ i) (o : Op) :
    NodeInvC cuid n (log ++ [(a, o)]) i nd A := by
  exact {
    fresh := N.fresh
    creator := N.creator
    st := N.st
    lc := N.lc
    pushed_le := N.pushed_le
    pulled_le := by simp; exact Nat.le_succ_of_le N.pulled_le
    own_eq := N.own_eq
    oth_eq := by rw [List.take_append_of_le_length N.pulled_le]; exact N.oth_eq
    log_own := by rw [own_append, own_single_ne ha, List.append_nil]; exact N.log_own
    clock_cuid := N.clock_cuid
    clock_era := N.clock_era
    lam_le := N.lam_le
    ent_ok := N.ent_ok
    buf_sorted := N.buf_sorted
    keys := N.keys
    causal := by
      intro P o' S hsplit k hk e he
      have hlen : k < (log ++ [(a, o)]).length := (List.getElem?_eq_some_iff.mp hk).1
      by_cases hk' : k < log.length
      · rw [List.getElem?_append_left hk'] at hk
        rw [List.take_append_of_le_length (Nat.le_of_lt hk')]
        exact N.causal P o' S hsplit k hk e he
      · have hk'' : k = log.length := by
          simp only [List.length_append, List.length_cons, List.length_nil] at hlen; omega
        subst hk''
        rw [List.getElem?_append_right (Nat.le_refl _)] at hk
        simp only [Nat.sub_self, List.getElem?_cons_zero, Option.some.injEq, Prod.mk.injEq] at hk
        exact absurd hk.1 ha }

/-- node `i` skips its own log entry -/
theorem pull_own (N : NodeInvC cuid n log i nd A) {o : Op} (hl : log[nd.pulled]? = some (i, o)) :
    NodeInvC cuid n log i { nd with pulled := nd.pulled + 1 } A := by
  obtain ⟨hp, hpo⟩ := List.getElem?_eq_some_iff.mp hl
  exact {
    fresh := by
      intro _ hp0
      have : nd.pulled + 1 = 0 := hp0
      omega
    creator := N.creator
    st := N.st
    lc := N.lc
    pushed_le := N.pushed_le
    pulled_le := hp
    own_eq := N.own_eq
    oth_eq := by
      show oth i A = oth i (log.take (nd.pulled + 1))
      rw [← List.take_append_getElem hp, hpo, oth_append, oth_single_self, List.append_nil]; exact N.oth_eq
    log_own := N.log_own
    clock_cuid := N.clock_cuid
    clock_era := N.clock_era
    lam_le := N.lam_le
    ent_ok := N.ent_ok
    buf_sorted := N.buf_sorted
    keys := N.keys
    causal := N.causal }


/-- node `i` applies the next log entry, written by another node (`hst`: the delivery IS the remote application of what the
    entry denotes — `exec_toL` for a list operation, `execRemoteBase_snap` for the snapshot operation) -/
theorem pull_other (N : NodeInvC cuid n log i nd A) {a : Nat} {o : Op} (hl : log[nd.pulled]? = some (a, o)) (ha : a ≠ i)
    (hlc : LCausal (den A ++ (toL o).toList)) (hk : ∀ e ∈ A, lkey e ≠ lkey (a, o)) (hent : EntOKC cuid n (a, o))
    (hst : (nd.r.execRemoteBase o).1.state = .list ((Rga.empty.applyAllL (den A)).applyAllL (toL o).toList)) :
    NodeInvC cuid n log i { nd with r := (nd.r.execRemoteBase o).1, pulled := nd.pulled + 1 } (A ++ [(a, o)]) := by
  obtain ⟨hp, hpo⟩ := List.getElem?_eq_some_iff.mp hl
  exact {
    fresh := by
      intro _ hp0
      have : nd.pulled + 1 = 0 := hp0
      omega
    creator := by
      intro h0
      show (nd.r.execRemoteBase o).1.buffer.head? = _
      rw [execRemoteBase_buffer]; exact N.creator h0
    st := by
      show (nd.r.execRemoteBase o).1.state = _
      rw [hst, den_snoc, applyAllL_app]
    lc := by
      rw [den_snoc]; exact hlc
    pushed_le := by
      show nd.pushed ≤ (nd.r.execRemoteBase o).1.buffer.length
      rw [execRemoteBase_buffer]; exact N.pushed_le
    pulled_le := hp
    own_eq := by
      show own i (A ++ [(a, o)]) = (nd.r.execRemoteBase o).1.buffer.map _
      rw [execRemoteBase_buffer, own_append, own_single_ne ha, List.append_nil]; exact N.own_eq
    oth_eq := by
      show oth i (A ++ [(a, o)]) = oth i (log.take (nd.pulled + 1))
      rw [← List.take_append_getElem hp, hpo, oth_append, oth_append, N.oth_eq]
    log_own := by
      show own i log = ((nd.r.execRemoteBase o).1.buffer.take nd.pushed).map _
      rw [execRemoteBase_buffer]; exact N.log_own
    clock_cuid := by
      show (nd.r.execRemoteBase o).1.opId.cuid = _
      rw [execRemoteBase_opId, sync_cuid]; exact N.clock_cuid
    clock_era := by
      show (nd.r.execRemoteBase o).1.opId.era = _
      rw [execRemoteBase_opId, sync_era]; exact N.clock_era
    lam_le := by
      intro e he
      show _ ≤ (nd.r.execRemoteBase o).1.opId.lamport
      rw [execRemoteBase_opId]
      have := sync_lam nd.r.opId o.id.lamport
      rcases List.mem_append.mp he with h | h
      · exact Nat.le_trans (N.lam_le e h) this.1
      · simp only [List.mem_singleton] at h
        subst h
        exact this.2
    ent_ok := by
      intro e he
      rcases List.mem_append.mp he with h | h
      · exact N.ent_ok e h
      · simp only [List.mem_singleton] at h
        subst h
        exact hent
    buf_sorted := by
      show (nd.r.execRemoteBase o).1.buffer.Pairwise _
      rw [execRemoteBase_buffer]; exact N.buf_sorted
    keys := by
      refine List.pairwise_append.mpr ⟨N.keys, List.pairwise_singleton _ _, ?_⟩
      intro e he e' he'
      simp only [List.mem_singleton] at he'
      subst he'
      exact hk e he
    causal := by
      intro P o' S hsplit k hk e he
      rcases snoc_split hsplit with ⟨_, _, h3⟩ | ⟨S', _, h2⟩
      · simp only [Prod.mk.injEq] at h3
        exact absurd h3.1.symm ha
      · exact N.causal P o' S' h2 k hk e he }

end NodeInvC


theorem inv_initC {cuid : Nat → String} {n : Nat} (hc : CuidsDistinct cuid n) :
    InvC cuid n (initC cuid n) (fun i => if i = 0 then [snapEnt cuid] else []) := by
  refine ⟨hc, by simp [initC], ?_, by simp [initC], by simp [initC], by simp [initC]⟩
  intro i nd hi
  simp only [initC, List.getElem?_map] at hi
  cases hr : (List.range n)[i]? with
  | none => rw [hr] at hi; cases hi
  | some k =>
    rw [hr] at hi
    obtain ⟨hlt, hk⟩ := List.getElem?_eq_some_iff.mp hr
    simp only [List.getElem_range] at hk
    subst hk
    simp only [Option.map_some, Option.some.injEq] at hi
    subst hi
    simp only [List.length_range] at hlt
    by_cases h0 : i = 0
    · subst h0
      simp only [if_true]
      exact {
        st := rfl
        lc := lcausal_nil
        pushed_le := Nat.zero_le _
        pulled_le := Nat.le_refl _
        own_eq := rfl
        oth_eq := rfl
        log_own := rfl
        clock_cuid := rfl
        clock_era := rfl
        lam_le := by
          intro e he
          simp only [List.mem_singleton] at he
          subst he
          exact Nat.le_refl _
        ent_ok := by
          intro e he
          simp only [List.mem_singleton] at he
          subst he
          exact ⟨hlt, rfl, rfl, Nat.le_refl _, Or.inl rfl⟩
        buf_sorted := List.pairwise_singleton _ _
        keys := List.pairwise_singleton _ _
        causal := by
          intro P o S h k hk
          simp [initC] at hk
        fresh := fun h => absurd rfl h
        creator := fun _ => rfl }
    · have hb : (i == 0) = false := by simpa using h0
      simp only [if_neg h0, hb]
      exact {
        st := rfl
        lc := lcausal_nil
        pushed_le := Nat.le_refl _
        pulled_le := Nat.le_refl _
        own_eq := rfl
        oth_eq := rfl
        log_own := rfl
        clock_cuid := rfl
        clock_era := rfl
        lam_le := by intro e he; cases he
        ent_ok := by intro e he; cases he
        buf_sorted := List.Pairwise.nil
        keys := List.Pairwise.nil
        causal := by
          intro P o S h
          exact absurd h (by simp)
        fresh := fun _ _ => rfl
        creator := fun h => absurd h h0 }


namespace InvC
variable {cuid : Nat → String} {n : Nat} {net : Net} {ap : Nat → List LEnt}

theorem lt_of_node (I : InvC cuid n net ap) {i : Nat} {nd : Node} (hi : net.nodes[i]? = some nd) : i < n := by
  have := (List.getElem?_eq_some_iff.mp hi).1
  rw [I.len] at this; exact this

theorem call (I : InvC cuid n net ap) {i : Nat} {nd : Node} (c : Call) (hi : net.nodes[i]? = some nd)
    (hg : i ≠ 0 → 0 < nd.pulled) :
    ∃ ap', InvC cuid n ⟨net.nodes.set i { nd with r := (nd.r.call c).1 }, net.log⟩ ap' := by
  obtain ⟨A', hA'⟩ := (I.node i nd hi).call (I.lt_of_node hi) c hg
  refine ⟨Function.update ap i A', I.distinct, by simp [I.len], ?_, I.log_auth, I.log_keys, I.log_head⟩
  intro j nd' hj
  rcases getElem?_set_some hj with ⟨rfl, rfl⟩ | ⟨hne, hj'⟩
  · rw [Function.update_self]; exact hA'
  · rw [Function.update_of_ne hne]; exact I.node j nd' hj'

theorem push (I : InvC cuid n net ap) {i : Nat} {nd : Node} {o : Op} (hi : net.nodes[i]? = some nd)
    (ho : nd.r.buffer[nd.pushed]? = some o) :
    InvC cuid n ⟨net.nodes.set i { nd with pushed := nd.pushed + 1 }, net.log ++ [(i, o)]⟩ ap := by
  have Ni := I.node i nd hi
  have hin := I.lt_of_node hi
  obtain ⟨hp, hpo⟩ := List.getElem?_eq_some_iff.mp ho
  have hob : o ∈ nd.r.buffer := List.mem_of_getElem? ho
  refine ⟨I.distinct, by simp [I.len], ?_, ?_, ?_, ?_⟩
  · intro j nd' hj
    rcases getElem?_set_some hj with ⟨rfl, rfl⟩ | ⟨hne, hj'⟩
    · exact Ni.push_self ho
    · exact (I.node j nd' hj').push_other (fun e => hne e.symm) o
  · intro e he
    rcases List.mem_append.mp he with h | h
    · exact I.log_auth e h
    · simp only [List.mem_singleton] at h
      subst h
      exact hin
  · refine List.pairwise_append.mpr ⟨I.log_keys, List.pairwise_singleton _ _, ?_⟩
    intro e he e' he'
    simp only [List.mem_singleton] at he'
    subst he'
    obtain ⟨nde, hne, hbe, hae⟩ := I.log_mem he
    intro e0
    simp only [lkey, Prod.mk.injEq] at e0
    by_cases hei : e.1 = i
    · obtain ⟨a, oe⟩ := e
      simp only at hei
      subst hei
      have h1 := Ni.log_take he
      obtain ⟨q, hq, hqe⟩ := List.mem_take_iff_getElem.mp h1
      have := List.pairwise_iff_getElem.mp Ni.buf_sorted q nd.pushed (by omega) hp (by omega)
      rw [hqe, hpo] at this
      simp only at e0
      omega
    · have h1 := ((I.node e.1 nde hne).ent_ok e hae).2.1
      have h2 := (Ni.ent_ok _ (Ni.buf_mem hob)).2.1
      simp only at h2
      rw [h1, h2] at e0
      exact hei (I.distinct e.1 i (I.log_auth e he) hin e0.2)
  · -- the head of the log
    intro e he
    show e = snapEnt cuid
    have he' : (net.log ++ [(i, o)])[0]? = some e := he
    cases hlog : net.log with
    | cons e0 t =>
      rw [hlog] at he'
      simp only [List.cons_append, List.getElem?_cons_zero, Option.some.injEq] at he'
      subst he'
      exact I.log_head e0 (by rw [hlog]; rfl)
    | nil =>
      rw [hlog] at he'
      simp only [List.nil_append, List.getElem?_cons_zero, Option.some.injEq] at he'
      subst he'
      have hpl : nd.pulled = 0 := by
        have := Ni.pulled_le
        rw [hlog] at this
        simpa using this
      by_cases h0 : i = 0
      · subst h0
        have h1 := Ni.log_own
        rw [hlog] at h1
        have h2 : (nd.r.buffer.take nd.pushed).length = 0 := by
          have := congrArg List.length h1
          simpa [own] using this.symm
        have h3 : nd.pushed = 0 := by
          rw [List.length_take] at h2
          omega
        have h4 := Ni.creator rfl
        rw [h3] at ho
        rw [List.head?_eq_getElem?, ho] at h4
        simp only [Option.some.injEq] at h4
        rw [h4]; rfl
      · exfalso
        have hA := Ni.fresh h0 hpl
        have := Ni.buf_mem hob
        rw [hA] at this
        cases this

theorem pull (I : InvC cuid n net ap) {i : Nat} {nd : Node} {a : Nat} {o : Op} (hi : net.nodes[i]? = some nd)
    (hl : net.log[nd.pulled]? = some (a, o)) :
    ∃ ap', InvC cuid n ⟨net.nodes.set i { nd with r := if a = i then nd.r else (nd.r.execRemoteBase o).1,
                                                  pulled := nd.pulled + 1 }, net.log⟩ ap' := by
  have Ni := I.node i nd hi
  by_cases ha : a = i
  · subst ha
    refine ⟨ap, I.distinct, by simp [I.len], ?_, I.log_auth, I.log_keys, I.log_head⟩
    intro j nd' hj
    rcases getElem?_set_some hj with ⟨rfl, rfl⟩ | ⟨hne, hj'⟩
    · simp only [if_true]
      exact Ni.pull_own hl
    · exact I.node j nd' hj'
  · obtain ⟨hlc, hk, hent⟩ := I.deliver hi hl ha
    refine ⟨Function.update ap i (ap i ++ [(a, o)]), I.distinct, by simp [I.len], ?_, I.log_auth, I.log_keys, I.log_head⟩
    intro j nd' hj
    rcases getElem?_set_some hj with ⟨rfl, rfl⟩ | ⟨hne, hj'⟩
    · rw [Function.update_self]
      simp only [if_neg ha]
      rcases hent.2.2.2.2 with hsnap | hbody
      · obtain ⟨hp0, hA⟩ := I.deliver_snap hi hl ha hsnap
        have ha0 : a = 0 := congrArg Prod.fst hsnap
        have ho : o = snapOp cuid := congrArg Prod.snd hsnap
        subst ha0 ho
        have hs0 : nd.r.state = .list Rga.empty := by
          have := Ni.st
          rw [hA] at this
          exact this
        refine Ni.pull_other hl ha hlc hk hent ?_
        rw [(execRemoteBase_snap nd.r hs0 cuid).1, hA]; rfl
      · exact Ni.pull_other hl ha hlc hk hent (exec_toL nd.r _ o Ni.st hbody)
    · rw [Function.update_of_ne hne]; exact I.node j nd' hj'

theorem step (I : InvC cuid n net ap) {net' : Net} (h : StepC net net') : ∃ ap', InvC cuid n net' ap' := by
  cases h with
  | call i nd c hi hg => exact I.call c hi hg
  | push i nd o hi ho => exact ⟨ap, I.push hi ho⟩
  | pull i nd a o hi hl => exact I.pull hi hl

end InvC


/-- **the invariant holds in every reachable state** -/
theorem inv_reachC {cuid : Nat → String} {n : Nat} {net : Net} (h : ReachC cuid n net) : ∃ ap, InvC cuid n net ap := by
  induction h with
  | init hc => exact ⟨_, inv_initC hc⟩
  | step _ hs ih =>
    obtain ⟨ap, I⟩ := ih
    exact I.step hs


namespace InvC
variable {cuid : Nat → String} {n : Nat} {net : Net} {ap : Nat → List LEnt}

/-- the ghost sequence of a node is a permutation of the operations it has applied -/
theorem den_perm (I : InvC cuid n net ap) {i : Nat} {nd : Node} (hi : net.nodes[i]? = some nd) :
    (den (ap i)).Perm ((appliedOps net.log i nd).filterMap toL) := by
  have N := I.node i nd hi
  have h1 : (ap i).Perm (own i (ap i) ++ oth i (ap i)) := (List.filter_append_perm _ _).symm
  rw [N.own_eq, N.oth_eq] at h1
  have h2 := (h1.map (·.2)).filterMap toL
  have e1 : ((ap i).map (·.2)).filterMap toL = den (ap i) := by
    simp only [den, List.filterMap_map]; rfl
  have e2 : (nd.r.buffer.map (fun o => (i, o)) ++ oth i (net.log.take nd.pulled)).map (·.2) =
      appliedOps net.log i nd := by
    simp only [appliedOps, List.map_append, map_snd_pair]
  rw [e1, e2] at h2
  exact h2

end InvC


/-- THE theorem: two nodes that have the same operations hold the SAME list state — same order, values, value
    timestamps, tombstones, Size -/
theorem same_operations_same_state {cuid : Nat → String} {n : Nat} : ∀ net, ReachC cuid n net →
    ∀ i j (hi : i < net.nodes.length) (hj : j < net.nodes.length),
    SameOps net i j → net.nodes[i].r.state = net.nodes[j].r.state := by
  intro net h i j hi hj hsame
  obtain ⟨ap, I⟩ := inv_reachC h
  have hi' := List.getElem?_eq_getElem hi
  have hj' := List.getElem?_eq_getElem hj
  obtain ⟨ni, nj, hni, hnj, hperm⟩ := hsame
  rw [hi'] at hni
  rw [hj'] at hnj
  simp only [Option.some.injEq] at hni hnj
  subst hni hnj
  have Ni := I.node i _ hi'
  have Nj := I.node j _ hj'
  have hp : (den (ap i)).Perm (den (ap j)) :=
    ((I.den_perm hi').trans (hperm.filterMap toL)).trans (I.den_perm hj').symm
  rw [Ni.st, Nj.st, rga_full_converge_state _ _ hp Ni.lc Nj.lc]

/-- a node that has pushed its whole buffer and consumed the whole log has applied exactly the operations of the log -/
theorem appliedOps_caught_up {cuid : Nat → String} {n : Nat} {net : Net} (h : ReachC cuid n net) {k : Nat}
    (hk : k < net.nodes.length) (q1 : net.nodes[k].pushed = net.nodes[k].r.buffer.length)
    (q2 : net.nodes[k].pulled = net.log.length) : (appliedOps net.log k net.nodes[k]).Perm (net.log.map (·.2)) := by
  obtain ⟨ap, I⟩ := inv_reachC h
  have hk' := List.getElem?_eq_getElem hk
  have N := I.node k _ hk'
  have h1 : (own k net.log ++ oth k net.log).Perm net.log := List.filter_append_perm _ _
  have h2 := h1.map (·.2)
  rw [N.log_own, q1, List.take_length] at h2
  have e : appliedOps net.log k net.nodes[k] =
      (net.nodes[k].r.buffer.map (fun o => (k, o)) ++ oth k net.log).map (·.2) := by
    simp only [appliedOps, q2, List.take_length, List.map_append, map_snd_pair]
  rw [e]
  exact h2

/-- two nodes that have pushed everything they issued and consumed the whole log have the same operations (whatever the
    other nodes still hold back) -/
theorem sameOps_of_caught_up {cuid : Nat → String} {n : Nat} {net : Net} (h : ReachC cuid n net) {i j : Nat}
    (hi : i < net.nodes.length) (hj : j < net.nodes.length)
    (pi : net.nodes[i].pushed = net.nodes[i].r.buffer.length) (li : net.nodes[i].pulled = net.log.length)
    (pj : net.nodes[j].pushed = net.nodes[j].r.buffer.length) (lj : net.nodes[j].pulled = net.log.length) :
    SameOps net i j :=
  ⟨_, _, List.getElem?_eq_getElem hi, List.getElem?_eq_getElem hj,
    (appliedOps_caught_up h hi pi li).trans (appliedOps_caught_up h hj pj lj).symm⟩

/-- at quiescence every node has applied the whole log -/
theorem sameOps_of_quiescent {cuid : Nat → String} {n : Nat} {net : Net} (h : ReachC cuid n net) (hq : Quiescent net)
    {i j : Nat} (hi : i < net.nodes.length) (hj : j < net.nodes.length) : SameOps net i j := by
  obtain ⟨a1, a2⟩ := hq _ (List.getElem_mem hi)
  obtain ⟨b1, b2⟩ := hq _ (List.getElem_mem hj)
  exact sameOps_of_caught_up h hi hj a1 a2 b1 b2

/-- corollary: at quiescence (every buffer completely pushed, every node has consumed the whole log) all nodes hold the
    same list state -/
theorem quiescent_converged {cuid : Nat → String} {n : Nat} : ∀ net, ReachC cuid n net → Quiescent net →
    ∀ i j (hi : i < net.nodes.length) (hj : j < net.nodes.length),
    net.nodes[i].r.state = net.nodes[j].r.state := by
  intro net h hq i j hi hj
  exact same_operations_same_state net h i j hi hj (sameOps_of_quiescent h hq hi hj)

/-- a non-empty log starts with the creator's snapshot operation; it is nowhere else; every other entry is a list operation -/
theorem log_starts_with_snapshot {cuid : Nat → String} {n : Nat} : ∀ net, ReachC cuid n net →
    (∀ e, net.log[0]? = some e → e = snapEnt cuid) ∧
    (∀ k a o, net.log[k]? = some (a, o) → k ≠ 0 → ListBody o.body) := by
  intro net h
  obtain ⟨ap, I⟩ := inv_reachC h
  refine ⟨I.log_head, ?_⟩
  intro k a o hk hk0
  obtain ⟨nda, hna, _, hapa⟩ := I.log_mem (List.mem_of_getElem? hk)
  rcases ((I.node a nda hna).ent_ok _ hapa).2.2.2.2 with hs | hx
  · exact absurd (I.snap_pos (hs ▸ hk)) hk0
  · exact hx

/-- every delivery extends the receiver's causal sequence and IS the remote application of what the entry denotes (nothing for
    the snapshot operation, which meets the empty list of a subscriber that has consumed nothing, and for an insert of zero
    values) -/
theorem deliveries_causal {cuid : Nat → String} {n : Nat} : ∀ net, ReachC cuid n net →
    ∃ applied : Nat → List LOp, ∀ (i : Nat) (nd : Node) (a : Nat) (o : Op), net.nodes[i]? = some nd →
      net.log[nd.pulled]? = some (a, o) → a ≠ i →
      nd.r.state = .list (Rga.empty.applyAllL (applied i)) ∧ LCausal (applied i ++ (toL o).toList) ∧
      (nd.r.execRemoteBase o).1.state = .list (Rga.empty.applyAllL (applied i ++ (toL o).toList)) ∧
      (o = snapOp cuid → a = 0 ∧ nd.pulled = 0 ∧ applied i = [] ∧ (nd.r.execRemoteBase o).2 = none) := by
  intro net h
  obtain ⟨ap, I⟩ := inv_reachC h
  refine ⟨fun i => den (ap i), ?_⟩
  intro i nd a o hi hl ha
  have N := I.node i nd hi
  obtain ⟨hlc, _, hent⟩ := I.deliver hi hl ha
  have hsnapcase : (a, o) = snapEnt cuid → nd.pulled = 0 ∧ ap i = [] ∧ nd.r.state = .list Rga.empty := by
    intro hsnap
    obtain ⟨hp0, hA⟩ := I.deliver_snap hi hl ha hsnap
    refine ⟨hp0, hA, ?_⟩
    have := N.st
    rw [hA] at this
    exact this
  refine ⟨N.st, hlc, ?_, ?_⟩
  · rcases hent.2.2.2.2 with hsnap | hbody
    · obtain ⟨_, hA, hs0⟩ := hsnapcase hsnap
      have ho : o = snapOp cuid := congrArg Prod.snd hsnap
      subst ho
      show _ = DState.list (Rga.empty.applyAllL (den (ap i) ++ (toL (snapOp cuid)).toList))
      rw [(execRemoteBase_snap nd.r hs0 cuid).1, hA]; rfl
    · rw [exec_toL nd.r _ o N.st hbody, applyAllL_app]
  · intro ho
    rcases hent.2.2.2.2 with hsnap | hbody
    · obtain ⟨hp0, hA, hs0⟩ := hsnapcase hsnap
      have ha0 : a = 0 := congrArg Prod.fst hsnap
      subst ho
      refine ⟨ha0, hp0, ?_, (execRemoteBase_snap nd.r hs0 cuid).2⟩
      show den (ap i) = []
      rw [hA]; rfl
    · exfalso
      subst ho
      rcases hbody with ⟨_, _, _, hb⟩ | ⟨_, _, _, hb⟩ | ⟨_, _, _, hb⟩ <;> cases hb

end L

/-! # C. the requested theorems -/

/-- LIST: at quiescence all replicas (creator and subscribers) hold the SAME list state -/
theorem created_list_net_quiescent_converged {cuid : Nat → String} {n : Nat} : ∀ net, L.ReachC cuid n net →
    LNet.Quiescent net → ∀ i j (hi : i < net.nodes.length) (hj : j < net.nodes.length),
    net.nodes[i].r.state = net.nodes[j].r.state :=
  L.quiescent_converged

/-- LIST: two nodes that have the same operations hold the SAME list state, at every moment -/
theorem created_list_net_same_operations_same_state {cuid : Nat → String} {n : Nat} : ∀ net, L.ReachC cuid n net →
    ∀ i j (hi : i < net.nodes.length) (hj : j < net.nodes.length),
    LNet.SameOps net i j → net.nodes[i].r.state = net.nodes[j].r.state :=
  L.same_operations_same_state

theorem created_list_log_starts_with_snapshot {cuid : Nat → String} {n : Nat} : ∀ net, L.ReachC cuid n net →
    (∀ e, net.log[0]? = some e → e = L.snapEnt cuid) ∧
    (∀ k a o, net.log[k]? = some (a, o) → k ≠ 0 → LNet.ListBody o.body) :=
  L.log_starts_with_snapshot

/-- MAP: two nodes that have applied the same operations answer every read alike, at every moment -/
theorem created_map_net_same_operations_same_reads {cuid : Nat → String} {n : Nat} : ∀ net, M.ReachC .map cuid n net →
    ∀ i j (hi : i < net.nodes.length) (hj : j < net.nodes.length) mi mj,
    net.nodes[i].r.state = .map mi → net.nodes[j].r.state = .map mj → MNet.SameOps net i j →
    (∀ k, mi.get k = mj.get k) ∧ mi.size = mj.size ∧
    (∀ k, alFind k mi.live = alFind k mj.live) ∧ mi.live.Perm mj.live ∧ MNet.sortedView mi = MNet.sortedView mj ∧
    MNet.jsonView mi = MNet.jsonView mj :=
  M.map_same_operations_same_reads

/-- MAP: at quiescence all replicas (creator and subscribers) answer every read alike -/
theorem created_map_net_quiescent_converged {cuid : Nat → String} {n : Nat} : ∀ net, M.ReachC .map cuid n net →
    MNet.Quiescent net → ∀ i j (hi : i < net.nodes.length) (hj : j < net.nodes.length) mi mj,
    net.nodes[i].r.state = .map mi → net.nodes[j].r.state = .map mj →
    (∀ k, mi.get k = mj.get k) ∧ mi.size = mj.size ∧
    (∀ k, alFind k mi.live = alFind k mj.live) ∧ mi.live.Perm mj.live ∧ MNet.sortedView mi = MNet.sortedView mj ∧
    MNet.jsonView mi = MNet.jsonView mj := by
  intro net h hq i j hi hj mi mj hmi hmj
  exact M.map_same_operations_same_reads net h i j hi hj mi mj hmi hmj (M.sameOps_of_quiescent MNet.flat_map h hq hi hj)

theorem created_map_log_starts_with_snapshot {cuid : Nat → String} {n : Nat} : ∀ net, M.ReachC .map cuid n net →
    (∀ e, net.log[0]? = some e → e = M.snapEnt .map cuid) ∧
    (∀ k a o, net.log[k]? = some (a, o) → k ≠ 0 → isMapOp o = true) :=
  M.log_starts_with_snapshot MNet.flat_map

/-- COUNTER: the value of every node is the (32-bit wrapped) sum of the increments among the operations it has applied -/
theorem created_counter_net_value_is_spec {cuid : Nat → String} {n : Nat} : ∀ net, M.ReachC .counter cuid n net →
    ∀ (i : Nat) (nd : MNet.Node), net.nodes[i]? = some nd →
      nd.r.state = DState.counter (Spec.counter (MNet.appliedOps net.log i nd)) :=
  M.counter_value_is_spec

theorem created_counter_net_same_operations_same_state {cuid : Nat → String} {n : Nat} :
    ∀ net, M.ReachC .counter cuid n net → ∀ i j (hi : i < net.nodes.length) (hj : j < net.nodes.length),
    MNet.SameOps net i j → net.nodes[i].r.state = net.nodes[j].r.state :=
  M.counter_same_operations_same_state

/-- COUNTER: at quiescence all replicas hold the SAME state, and it is the sum of all increments in the log -/
theorem created_counter_net_quiescent_converged {cuid : Nat → String} {n : Nat} : ∀ net, M.ReachC .counter cuid n net →
    MNet.Quiescent net → ∀ i j (hi : i < net.nodes.length) (hj : j < net.nodes.length),
    net.nodes[i].r.state = net.nodes[j].r.state ∧
    net.nodes[i].r.state = DState.counter (Spec.counter (net.log.map (·.2))) := by
  intro net h hq i j hi hj
  refine ⟨M.counter_same_operations_same_state net h i j hi hj (M.sameOps_of_quiescent MNet.flat_counter h hq hi hj), ?_⟩
  obtain ⟨a1, a2⟩ := hq _ (List.getElem_mem hi)
  rw [M.counter_value_is_spec net h i _ (List.getElem?_eq_getElem hi)]
  have := counter_converge _ _ (M.appliedOps_caught_up MNet.flat_counter h hi a1 a2)
  rw [counter_denote, counter_denote] at this
  rw [this]

theorem created_counter_log_starts_with_snapshot {cuid : Nat → String} {n : Nat} : ∀ net, M.ReachC .counter cuid n net →
    (∀ e, net.log[0]? = some e → e = M.snapEnt .counter cuid) ∧
    (∀ k a o, net.log[k]? = some (a, o) → k ≠ 0 → ∃ d, o.body = .increase d) :=
  M.log_starts_with_snapshot MNet.flat_counter

/-! # D. non-vacuity: per datatype a creator and two subscribers, a guarded run (`runC`) to quiescence -/

def cu : Nat → String
  | 0 => "a" | 1 => "b" | _ => "c"

theorem cu_distinct3 : ∀ i j, i < 3 → j < 3 → cu i = cu j → i = j := by
  intro i j hi hj h
  have h1 : i = 0 ∨ i = 1 ∨ i = 2 := by omega
  have h2 : j = 0 ∨ j = 1 ∨ j = 2 := by omega
  rcases h1 with rfl | rfl | rfl <;> rcases h2 with rfl | rfl | rfl <;> first | rfl | (exact absurd h (by decide))

/-! ### counter: the creator pushes its snapshot operation, everybody consumes it; three concurrent increases (5, 7, -3) and a
call of another datatype (refused, no effect); pushes in the order 2, 0, 1; everybody pulls the rest -/
namespace ExCounter
open Orda.MNet Orda.FNetC.M

def acts : List Act := [
  .push 0, .pull 1, .pull 2, .pull 0,
  .call 0 (.inc 5), .call 1 (.inc 7), .call 2 (.inc (-3)), .call 1 (.mput "x" (.num 1)),
  .push 2, .push 0, .push 1,
  .pull 1, .pull 1, .pull 1,
  .pull 0, .pull 0, .pull 0,
  .pull 2, .pull 2, .pull 2]
def valOf (r : Replica) : Int := match r.state with | .counter v => v | _ => 0
def finalNet : Net := (runC (initC .counter cu 3) acts).getD ⟨[], []⟩
theorem run_isSome : (runC (initC .counter cu 3) acts).isSome = true := by decide
theorem run_final : runC (initC .counter cu 3) acts = some finalNet := by
  have h := run_isSome
  unfold finalNet
  cases hr : runC (initC .counter cu 3) acts with
  | none => rw [hr] at h; cases h
  | some x => rfl
theorem reach_final : ReachC .counter cu 3 finalNet := reachC_run acts (.init cu_distinct3) run_final
theorem quiescent_final : Quiescent finalNet := by
  unfold Quiescent
  decide
theorem len_final : finalNet.nodes.length = 3 := by decide

example : finalNet.log.map (·.1) = [0, 2, 0, 1] := by decide
/-- `created_counter_net_quiescent_converged` instantiated: creator vs subscriber -/
example : (finalNet.nodes[0]'(by rw [len_final]; decide)).r.state = (finalNet.nodes[1]'(by rw [len_final]; decide)).r.state :=
  (created_counter_net_quiescent_converged finalNet reach_final quiescent_final 0 1 (by decide) (by decide)).1
/-- … and the common value 5 + 7 - 3 -/
example : finalNet.nodes.map (fun nd => valOf nd.r) = [9, 9, 9] := by decide
/-- `created_counter_log_starts_with_snapshot` instantiated -/
example : ∀ e, finalNet.log[0]? = some e → e = snapEnt .counter cu :=
  (created_counter_log_starts_with_snapshot finalNet reach_final).1
/-- the guard: in the initial state a call of a subscriber is refused by the executable form, a call of the creator is not -/
example : (actC (initC .counter cu 3) (.call 1 (.inc 1))).isSome = false ∧
    (actC (initC .counter cu 3) (.call 0 (.inc 1))).isSome = true := by decide

end ExCounter

/-! ### map: the creator puts `x`; concurrently subscriber 1 removes `x`, subscriber 2 puts `x` again and `z`, the creator puts `y` -/
namespace ExMap
open Orda.MNet Orda.FNetC.M

def acts : List Act := [
  .push 0, .pull 1, .pull 2, .pull 0,
  .call 0 (.mput "x" (.num 1)), .push 0, .pull 1, .pull 2,
  .call 1 (.mremove "x"), .call 2 (.mput "x" (.num 2)), .call 0 (.mput "y" (.str "v")), .call 2 (.mput "z" (.num 3)),
  .push 2, .push 0, .push 1, .push 2,
  .pull 1, .pull 1, .pull 1, .pull 1,
  .pull 0, .pull 0, .pull 0, .pull 0, .pull 0,
  .pull 2, .pull 2, .pull 2, .pull 2]
def mapOf (r : Replica) : LwwMap := match r.state with | .map m => m | _ => LwwMap.empty
def finalNet : Net := (runC (initC .map cu 3) acts).getD ⟨[], []⟩
theorem run_isSome : (runC (initC .map cu 3) acts).isSome = true := by decide
theorem run_final : runC (initC .map cu 3) acts = some finalNet := by
  have h := run_isSome
  unfold finalNet
  cases hr : runC (initC .map cu 3) acts with
  | none => rw [hr] at h; cases h
  | some x => rfl
theorem reach_final : ReachC .map cu 3 finalNet := reachC_run acts (.init cu_distinct3) run_final
theorem quiescent_final : Quiescent finalNet := by
  unfold Quiescent
  decide
theorem len_final : finalNet.nodes.length = 3 := by decide
def m0 : LwwMap := mapOf (finalNet.nodes[0]'(by rw [len_final]; decide)).r
def m1 : LwwMap := mapOf (finalNet.nodes[1]'(by rw [len_final]; decide)).r
def m2 : LwwMap := mapOf (finalNet.nodes[2]'(by rw [len_final]; decide)).r

example : finalNet.log.map (·.1) = [0, 0, 2, 0, 1, 2] := by decide
/-- `created_map_net_quiescent_converged` instantiated: creator vs subscriber, subscriber vs subscriber -/
example : (∀ k, m0.get k = m1.get k) ∧ m0.size = m1.size ∧ jsonView m0 = jsonView m1 := by
  obtain ⟨h1, h2, _, _, _, h3⟩ :=
    created_map_net_quiescent_converged finalNet reach_final quiescent_final 0 1 (by decide) (by decide) m0 m1 rfl rfl
  exact ⟨h1, h2, h3⟩
example : (∀ k, m1.get k = m2.get k) ∧ m1.size = m2.size ∧ jsonView m1 = jsonView m2 := by
  obtain ⟨h1, h2, _, _, _, h3⟩ :=
    created_map_net_quiescent_converged finalNet reach_final quiescent_final 1 2 (by decide) (by decide) m1 m2 rfl rfl
  exact ⟨h1, h2, h3⟩
/-- … and the common view `{"x":2,"y":"v","z":3}` (the concurrent put of `x` wins over the remove) -/
example : (jsonView m0 == .obj [("x", .num 2), ("y", .str "v"), ("z", .num 3)]) = true ∧
    (jsonView m1 == jsonView m0) = true ∧ (jsonView m2 == jsonView m0) = true := by decide
example : ∀ e, finalNet.log[0]? = some e → e = snapEnt .map cu :=
  (created_map_log_starts_with_snapshot finalNet reach_final).1

end ExMap

/-! ### list: the creator inserts `[1,2]`; concurrently subscriber 1 inserts `"m"` at 1, subscriber 2 deletes the head, the creator
appends `9` -/
namespace ExList
open Orda.LNet Orda.FNetC.L

def acts : List Act := [
  .push 0, .pull 1, .pull 2, .pull 0,
  .call 0 (.linsert 0 [.num 1, .num 2]), .push 0, .pull 1, .pull 2,
  .call 1 (.linsert 1 [.str "m"]), .call 2 (.ldelete 0), .call 0 (.linsert 2 [.num 9]),
  .push 2, .push 0, .push 1,
  .pull 1, .pull 1, .pull 1,
  .pull 0, .pull 0, .pull 0, .pull 0,
  .pull 2, .pull 2, .pull 2]
def listOf (r : Replica) : Rga := match r.state with | .list l => l | _ => Rga.empty
def finalNet : Net := (runC (initC cu 3) acts).getD ⟨[], []⟩
theorem run_isSome : (runC (initC cu 3) acts).isSome = true := by decide
theorem run_final : runC (initC cu 3) acts = some finalNet := by
  have h := run_isSome
  unfold finalNet
  cases hr : runC (initC cu 3) acts with
  | none => rw [hr] at h; cases h
  | some x => rfl
theorem reach_final : ReachC cu 3 finalNet := reachC_run acts (.init cu_distinct3) run_final
theorem quiescent_final : Quiescent finalNet := by
  unfold Quiescent
  decide
theorem len_final : finalNet.nodes.length = 3 := by decide

example : finalNet.log.map (·.1) = [0, 0, 2, 0, 1] := by decide
/-- `created_list_net_quiescent_converged` instantiated: creator vs subscriber, subscriber vs subscriber -/
example : (finalNet.nodes[0]'(by rw [len_final]; decide)).r.state = (finalNet.nodes[1]'(by rw [len_final]; decide)).r.state :=
  created_list_net_quiescent_converged finalNet reach_final quiescent_final 0 1 (by decide) (by decide)
example : (finalNet.nodes[1]'(by rw [len_final]; decide)).r.state = (finalNet.nodes[2]'(by rw [len_final]; decide)).r.state :=
  created_list_net_quiescent_converged finalNet reach_final quiescent_final 1 2 (by decide) (by decide)
/-- … and the common live content `["m", 2, 9]` -/
example : (finalNet.nodes.map fun nd => (listOf nd.r).live == [.str "m", .num 2, .num 9]) = [true, true, true] := by decide
example : ∀ e, finalNet.log[0]? = some e → e = snapEnt cu :=
  (created_list_log_starts_with_snapshot finalNet reach_final).1

/-- a NON-quiescent state (after 21 actions): the creator and subscriber 1 have caught up, subscriber 2 has not -/
def midNet : Net := (runC (initC cu 3) (acts.take 21)).getD ⟨[], []⟩
theorem mid_isSome : (runC (initC cu 3) (acts.take 21)).isSome = true := by decide
theorem run_mid : runC (initC cu 3) (acts.take 21) = some midNet := by
  have h := mid_isSome
  unfold midNet
  cases hr : runC (initC cu 3) (acts.take 21) with
  | none => rw [hr] at h; cases h
  | some x => rfl
theorem reach_mid : ReachC cu 3 midNet := reachC_run (acts.take 21) (.init cu_distinct3) run_mid
theorem len_mid : midNet.nodes.length = 3 := by decide
example : ¬ Quiescent midNet := by
  unfold Quiescent
  decide
/-- `created_list_net_same_operations_same_state` instantiated there -/
example : (midNet.nodes[0]'(by rw [len_mid]; decide)).r.state = (midNet.nodes[1]'(by rw [len_mid]; decide)).r.state :=
  created_list_net_same_operations_same_state midNet reach_mid 0 1 (by decide) (by decide)
    (L.sameOps_of_caught_up reach_mid (by decide) (by decide) (by decide) (by decide) (by decide) (by decide))

end ExList

/-! # E. why the guard: the delivery of the snapshot operation RESETS a flat datatype

`execRemote (.counter v) _ (.snapshot (.counter 0)) = .ok (.counter 0)`, and likewise for a map and a list (Model/Replica.lean,
`ApplySnapshot`).  Hence WITHOUT the guard of `StepC.call` convergence at quiescence is false for every flat datatype: two nodes,
the subscriber calls before it has consumed anything, pushes (its operation becomes the first log entry), the creator pushes its
snapshot operation (second entry), both pull everything.  The runs below are runs of the unguarded steps (`Net.run`) from `initC`;
the guarded executable form `runC` refuses them. -/

theorem snapshot_delivery_resets_flat_state :
    execRemote (.counter 5) ⟨0, 1, "a", 0⟩ (.snapshot (DState.fresh .counter)) = .ok (.counter 0) ∧
    (∀ m, execRemote (.map m) ⟨0, 1, "a", 0⟩ (.snapshot (DState.fresh .map)) = .ok (.map LwwMap.empty)) ∧
    (∀ l, execRemote (.list l) ⟨0, 1, "a", 0⟩ (.snapshot (DState.fresh .list)) = .ok (.list Rga.empty)) :=
  ⟨rfl, fun _ => rfl, fun _ => rfl⟩

def badCounter : List MNet.Act := [.call 1 (.inc 7), .push 1, .push 0, .pull 0, .pull 0, .pull 1, .pull 1]

/-- counter: the creator ends with 7, the subscriber with 0 (its own increase is wiped out by the snapshot delivery) -/
theorem counter_call_before_first_pull_diverges :
    ∃ net, (M.initC .counter cu 2).run badCounter = some net ∧ MNet.Quiescent net ∧
      net.nodes.map (fun nd => ExCounter.valOf nd.r) = [7, 0] ∧ (M.runC (M.initC .counter cu 2) badCounter).isSome = false := by
  have hsome : ((M.initC .counter cu 2).run badCounter).isSome = true := by decide
  cases hr : (M.initC .counter cu 2).run badCounter with
  | none => rw [hr] at hsome; cases hsome
  | some net =>
    have hnet : net = ((M.initC .counter cu 2).run badCounter).getD ⟨[], []⟩ := by rw [hr]; rfl
    refine ⟨net, rfl, ?_, ?_, ?_⟩
    · subst hnet
      unfold MNet.Quiescent
      decide
    · subst hnet
      decide
    · decide

def badMap : List MNet.Act := [.call 1 (.mput "k" (.num 1)), .push 1, .push 0, .pull 0, .pull 0, .pull 1, .pull 1]

/-- map: the creator ends with `{"k":1}`, the subscriber with `{}` -/
theorem map_call_before_first_pull_diverges :
    ∃ net, (M.initC .map cu 2).run badMap = some net ∧ MNet.Quiescent net ∧
      net.nodes.map (fun nd => MNet.jsonView (ExMap.mapOf nd.r) == .obj [("k", .num 1)]) = [true, false] ∧
      net.nodes.map (fun nd => MNet.jsonView (ExMap.mapOf nd.r) == .obj []) = [false, true] ∧
      (M.runC (M.initC .map cu 2) badMap).isSome = false := by
  have hsome : ((M.initC .map cu 2).run badMap).isSome = true := by decide
  cases hr : (M.initC .map cu 2).run badMap with
  | none => rw [hr] at hsome; cases hsome
  | some net =>
    have hnet : net = ((M.initC .map cu 2).run badMap).getD ⟨[], []⟩ := by rw [hr]; rfl
    refine ⟨net, rfl, ?_, ?_, ?_, ?_⟩
    · subst hnet
      unfold MNet.Quiescent
      decide
    · subst hnet
      decide
    · subst hnet
      decide
    · decide

def badList : List LNet.Act := [.call 1 (.linsert 0 [.num 1]), .push 1, .push 0, .pull 0, .pull 0, .pull 1, .pull 1]

/-- list: the creator ends with `[1]`, the subscriber with `[]` -/
theorem list_call_before_first_pull_diverges :
    ∃ net, (L.initC cu 2).run badList = some net ∧ LNet.Quiescent net ∧
      net.nodes.map (fun nd => (ExList.listOf nd.r).live == [.num 1]) = [true, false] ∧
      net.nodes.map (fun nd => (ExList.listOf nd.r).live == []) = [false, true] ∧
      (L.runC (L.initC cu 2) badList).isSome = false := by
  have hsome : ((L.initC cu 2).run badList).isSome = true := by decide
  cases hr : (L.initC cu 2).run badList with
  | none => rw [hr] at hsome; cases hsome
  | some net =>
    have hnet : net = ((L.initC cu 2).run badList).getD ⟨[], []⟩ := by rw [hr]; rfl
    refine ⟨net, rfl, ?_, ?_, ?_, ?_⟩
    · subst hnet
      unfold LNet.Quiescent
      decide
    · subst hnet
      decide
    · subst hnet
      decide
    · decide

end Orda.FNetC
