/-
Convergence of the JSON document's ARRAY operations (`Doc.insertRemoteInArray`, `Doc.updateRemoteInArray`,
`Doc.deleteRemoteInArray`), for values of every nesting depth.  Everything lives in namespace `Orda.DA`;
the object operations are in Proofs/DocConv.lean (`Orda.DC`), the flat list in Proofs/Rga.lean, RgaFull.lean.

Contents
* 0. `AOp` (remote array operations as data), `applyA`, `slotsOf` / `slotIds`.
* 1. ORDER.  `ins_slotIds`: a remote insert changes the slot order identifiers of its array exactly as the
  generic loop `insertAfterId id anchor cs` (the loop of the flat list's `insertRemote`, `applyIns_ids`), with
  the creation identifiers `cs` of the inserted children as batch; `ins_find_other` / `ins_idsOf`: no other
  array changes; `del_slotIds`, `upd_slotIds`: updates and deletes change no slot order at all.
  `idsOf_applyAllA`: the order after a history = the loop folded over the inserts into that array.
  `ACausal` = `InsCausal` for batches of child identifiers (not consecutive delimiters when values are
  nested); `foldIds_sim` + `renaming_phi`: a `Ts.key`-preserving renaming turns such a history into a
  history of the flat list (the loop only looks at `Ts.cmp`, which ignores delimiters, and at the identity
  of the anchor: `insertAfterId_rename`).  **`arr_order_converge`** (`_empty`, `_fresh`): two causal
  arrival orders of the same operations give the same slot order — by `rga_converge`.
* 3. elementary operations `EOp` (an insert; a single-target delete; a single-target update), applicability
  `EOK`, the effect on the lookup function `find_applyE` (`DC.Eff`), `wf_applyE`, `eok_after`.
  3a **`comm_docEq`**: independent operations (different arrays, different target slots, or an insert against
  an update / delete) commute EXACTLY (`DocEq`).  3b **`comm_docEq_ins_ins`**: two inserts into one array:
  `DocEq`, when both arrival orders are causal.  3c' **`comm_docEq_del_del`**: two deletes of one slot: `DocEq`.
* 4. `abs_applyE`: `DC.abs` after an operation is a function (`absE`) of `DC.abs` before.
* 5. `ASim`: `DC.Sim` without the identity of the child recorded in array skeletons; `asim_congr`.
* 6. same slot: **`comm_sim_upd_upd`**, `comm_sim_del_del` (`DC.Sim`; `DocEq` is FALSE for update/update:
  `Ex.upd_upd_not_docEq`), **`comm_asim_upd_del`** (`ASim`; `DC.Sim` is FALSE: `Ex.upd_del_not_sim`).
* 7. `GoodE`, **`arr_converge_asim`** (`DC.perm_fold_equiv`).  8. `asim_view_canon`, `viewOK_applyE`,
  **`arr_converge_view`**.
* 2. PAYLOAD: `slot_step`, `del_eff`, `upd_eff` (the slot steps are `RF.Eff.del` / `RF.Eff.upd`, i.e. `delF` /
  `updF`), `upd1_win_viewAt`.
* 9. `DA.Ex`: non-vacuity (`Ex.good : GoodE base ops`), examples and counterexamples by `decide`.
* 10. multi-target operations: `applyA_flat` (a batch = its single-target operations, up to `DocEq`),
  **`arr_converge`**, `comm_batch`; `Ex.goodL`.
No divergence was found: every pair of applicable remote array operations commutes at least up to `ASim`,
hence shows the same key-sorted view.
-/
import Orda.Proofs.Rga
import Orda.Proofs.RgaFull
import Orda.Proofs.DocConv
set_option linter.unusedSimpArgs false
namespace Orda
namespace DA
open DC

/-! ## 0. remote array operations as data -/

inductive AOp where
  | ins (p a ts : Ts) (vs : List JVal)
  | del (p : Ts) (tgs : List Ts) (ts : Ts)
  | upd (p : Ts) (ts : Ts) (tgs : List Ts) (vs : List JVal)

/-- remote application; an error / a panic leaves the document alone (as `execRemote` does) -/
def applyA (d : Doc) : AOp → Doc
  | .ins p a ts vs => match d.insertRemoteInArray p a ts vs with
    | .ok d' => d'
    | _ => d
  | .del p tgs ts => match d.deleteRemoteInArray p tgs ts with
    | .ok d' => d'
    | _ => d
  | .upd p ts tgs vs => match d.updateRemoteInArray p ts tgs vs with
    | .ok d' => d'
    | _ => d

def applyAllA (d : Doc) (ops : List AOp) : Doc := ops.foldl applyA d

def AOp.parent : AOp → Ts
  | .ins p _ _ _ => p
  | .del p _ _ => p
  | .upd p _ _ _ => p

def AOp.ts : AOp → Ts
  | .ins _ _ ts _ => ts
  | .del _ _ ts => ts
  | .upd _ ts _ _ => ts

/-- the slots of the array `p` (empty when `p` is not an array of the document) -/
def slotsOf (d : Doc) (p : Ts) : List (Ts × Ts) :=
  match d.findArr p with
  | some (_, sl, _) => sl
  | none => []

/-- the slot ORDER identifiers of the array `p` -/
def slotIds (d : Doc) (p : Ts) : List Ts := (slotsOf d p).map (·.1)

theorem findArr_some_iff {d : Doc} {p : Ts} {pn : DNode} {sl : List (Ts × Ts)} {size : Int} :
    d.findArr p = some (pn, sl, size) ↔ d.find p = some pn ∧ pn.kind = .arr sl size := by
  unfold Doc.findArr
  constructor
  · intro h
    split at h
    · rename_i n hn
      split at h
      · rename_i m' s' hk
        simp only [Option.some.injEq, Prod.mk.injEq] at h
        obtain ⟨rfl, rfl, rfl⟩ := h
        exact ⟨hn, hk⟩
      · cases h
    · cases h
  · rintro ⟨h1, h2⟩
    simp only [h1, h2]

theorem findArr_none_of_find {d : Doc} {p : Ts} (h : d.find p = none) : d.findArr p = none := by
  unfold Doc.findArr; rw [h]

theorem findArr_congr {a b : Doc} {p : Ts} (h : a.find p = b.find p) : a.findArr p = b.findArr p := by
  unfold Doc.findArr; rw [h]

theorem slotsOf_congr {a b : Doc} {p : Ts} (h : a.find p = b.find p) : slotsOf a p = slotsOf b p := by
  unfold slotsOf; rw [findArr_congr h]

theorem slotsOf_of_findArr {d : Doc} {p : Ts} {pn : DNode} {sl : List (Ts × Ts)} {size : Int}
    (h : d.findArr p = some (pn, sl, size)) : slotsOf d p = sl := by
  unfold slotsOf; rw [h]

/-! ## 1. order -/

/-! ### the generic loop only looks at `Ts.cmp` and at the identity of the anchor -/

section loopcongr
variable {β : Type} (o1 o2 : β → Ts)

theorem skipIns1_congr (hc : ∀ x y, (o1 x).cmp (o1 y) = (o2 x).cmp (o2 y)) (n : β)
    (r1 r2 : List β → List β) (hr : ∀ l, r1 l = r2 l) :
    ∀ l, skipIns1 o1 n r1 l = skipIns1 o2 n r2 l
  | [] => by simp [skipIns1, hr]
  | x :: xs => by
      simp only [skipIns1, hc x n, hr, skipIns1_congr hc n r1 r2 hr xs]

theorem skipInsMany_congr (hc : ∀ x y, (o1 x).cmp (o1 y) = (o2 x).cmp (o2 y)) :
    ∀ (ns l : List β), skipInsMany o1 ns l = skipInsMany o2 ns l
  | [], _ => rfl
  | n :: ns, l => by
      simp only [skipInsMany]
      exact skipIns1_congr o1 o2 hc n _ _ (skipInsMany_congr hc ns) l

theorem insertAfterId_go_congr (hc : ∀ x y, (o1 x).cmp (o1 y) = (o2 x).cmp (o2 y)) (a1 a2 : Ts)
    (ns : List β) : ∀ l : List β, (∀ x ∈ l, o1 x = a1 ↔ o2 x = a2) →
    insertAfterId.go o1 a1 ns l = insertAfterId.go o2 a2 ns l
  | [], _ => rfl
  | x :: xs, h => by
      have hx := h x (by simp)
      have ih := insertAfterId_go_congr hc a1 a2 ns xs (fun y hy => h y (by simp [hy]))
      simp only [insertAfterId.go]
      by_cases e : o1 x = a1
      · rw [if_pos e, if_pos (hx.mp e), skipInsMany_congr o1 o2 hc]
      · rw [if_neg e, if_neg (fun e' => e (hx.mpr e')), ih]

theorem insertAfterId_congr (hc : ∀ x y, (o1 x).cmp (o1 y) = (o2 x).cmp (o2 y)) (a1 a2 : Ts)
    (ha : a1 = Ts.oldest ↔ a2 = Ts.oldest) (ns l : List β) (h : ∀ x ∈ l, o1 x = a1 ↔ o2 x = a2) :
    insertAfterId o1 a1 ns l = insertAfterId o2 a2 ns l := by
  unfold insertAfterId
  by_cases e : a1 = Ts.oldest
  · rw [if_pos e, if_pos (ha.mp e), skipInsMany_congr o1 o2 hc]
  · rw [if_neg e, if_neg (fun e' => e (ha.mpr e'))]
    exact insertAfterId_go_congr o1 o2 hc a1 a2 ns l h

end loopcongr

/-- renaming the identities by a `Ts.key`-preserving map that is injective where it matters commutes
    with the insertion loop -/
theorem insertAfterId_rename (φ : Ts → Ts) (hk : ∀ x, (φ x).key = x.key) (a : Ts)
    (ha : φ a = Ts.oldest ↔ a = Ts.oldest) (ns l : List Ts) (hinj : ∀ x ∈ l, φ x = φ a ↔ x = a) :
    insertAfterId id (φ a) (ns.map φ) (l.map φ) = (insertAfterId id a ns l).map (List.map φ) := by
  have h1 := insertAfterId_map φ id φ (fun _ => rfl) (φ a) ns l
  rw [← h1]
  congr 1
  apply insertAfterId_congr
  · intro x y; exact cmp_congr_key _ _ _ _ (hk x) (hk y)
  · exact ha
  · exact hinj

/-! ### the operations on the lookup function -/

/-- rewrite slots and size of an array node -/
def mapArr (k : List (Ts × Ts) → Int → List (Ts × Ts) × Int) (o : Option DNode) : Option DNode :=
  o.map fun n => match n.kind with
    | .arr sl s => { n with kind := .arr (k sl s).1 (k sl s).2 }
    | _ => n

/-- what a remote insert does to slots and size -/
def insK (a : Ts) (cs : List Ts) (sl : List (Ts × Ts)) (s : Int) : List (Ts × Ts) × Int :=
  match insertAfterId (fun (x : Ts × Ts) => x.1) a (cs.map fun c => (c, c)) sl with
  | some sl' => (sl', s + cs.length)
  | none => (sl, s)

theorem upd_congr_at {x : Ts} {g h : Option DNode → Option DNode} {F : Ts → Option DNode}
    (e : g (F x) = h (F x)) : upd x g F = upd x h F := by
  funext c; unfold upd; by_cases hc : c = x <;> simp [hc, e]

theorem upd_same (x : Ts) (g : Option DNode → Option DNode) (F : Ts → Option DNode) :
    upd x g F x = g (F x) := by simp [upd]

theorem upd_other {x c : Ts} (g : Option DNode → Option DNode) (F : Ts → Option DNode) (h : c ≠ x) :
    upd x g F c = F c := by simp [upd, h]

theorem find_setArr {d : Doc} {p : Ts} {pn : DNode} {sl sl' : List (Ts × Ts)} {s s' : Int}
    (hp : d.find p = some pn) (hk : pn.kind = .arr sl s) :
    (d.set { pn with kind := .arr sl' s' }).find = upd p (mapArr fun _ _ => (sl', s')) d.find := by
  have hpc := find_some_c hp
  funext c
  rw [find_set]
  unfold upd
  by_cases e : c = p
  · subst e
    simp only [hpc, if_true, hp, mapArr, Option.map_some, hk]
  · have : ¬ pn.c = c := by rw [hpc]; exact fun e' => e e'.symm
    simp [e, this]

theorem mapArr_id_at {k : List (Ts × Ts) → Int → List (Ts × Ts) × Int} {n : DNode}
    (h : ∀ sl s, n.kind = .arr sl s → k sl s = (sl, s)) : mapArr k (some n) = some n := by
  obtain ⟨nc, nd, np, nk⟩ := n
  cases nk with
  | elem v => rfl
  | obj m s => rfl
  | arr sl s =>
    simp only [mapArr, Option.map_some, h sl s rfl]

theorem U_old {ns : List DNode} {F : Ts → Option DNode} {c : Ts} (h : c ∉ ids ns) : U ns F c = F c := by
  simp [U, nfind_none_iff.mpr h]

theorem fresh_not_mem {d : Doc} {ns : List DNode} (hf : Fresh d ns) {c : Ts} {n : DNode}
    (h : d.find c = some n) : c ∉ ids ns := by
  intro hc; rw [hf c hc] at h; cases h

theorem find_addAll_not_mem {d : Doc} {ns : List DNode} {c : Ts} (h : c ∉ ids ns) :
    (d.addAll ns).find c = d.find c := by
  rw [find_addAll, nfind_none_iff.mpr h]; rfl

/-- remote insert, on the lookup function: add the new nodes, rewrite the array -/
theorem ins_find {d : Doc} {p a ts t' : Ts} {vs : List JVal} {pn : DNode} {sl : List (Ts × Ts)} {sz : Int}
    {ns : List DNode} {cs : List Ts} (hp : d.findArr p = some (pn, sl, sz))
    (hc : createMany p ts vs = .ok (ns, cs, t')) (hpn : p ∉ ids ns) :
    (applyA d (.ins p a ts vs)).find = upd p (mapArr (insK a cs)) (U ns d.find) := by
  obtain ⟨hp1, hk⟩ := findArr_some_iff.mp hp
  have hp2 : (d.addAll ns).find p = some pn := by rw [find_addAll_not_mem hpn]; exact hp1
  have hUp : U ns d.find p = some pn := by rw [U_old hpn]; exact hp1
  simp only [applyA, Doc.insertRemoteInArray, hp, hc]
  cases hi : insertAfterId (fun (s : Ts × Ts) => s.1) a (cs.map fun c => (c, c)) sl with
  | some sl' =>
    simp only
    rw [find_setArr hp2 hk, find_addAll_U]
    apply upd_congr_at
    rw [hUp]
    simp only [mapArr, Option.map_some, hk, insK, hi]
  | none =>
    simp only
    rw [find_addAll_U]
    funext c
    by_cases e : c = p
    · subst e
      rw [upd_same, hUp, mapArr_id_at]
      intro sl0 s0 h0
      rw [hk] at h0
      simp only [DKind.arr.injEq] at h0
      obtain ⟨rfl, rfl⟩ := h0
      simp only [insK, hi]
    · rw [upd_other _ _ e]

theorem slotsOf_upd_mapArr {d' : Doc} {p : Ts} {k : List (Ts × Ts) → Int → List (Ts × Ts) × Int}
    {F : Ts → Option DNode} (h : d'.find = upd p (mapArr k) F) {pn : DNode} {sl : List (Ts × Ts)} {sz : Int}
    (hp : F p = some pn) (hk : pn.kind = .arr sl sz) :
    d'.findArr p = some ({ pn with kind := .arr (k sl sz).1 (k sl sz).2 }, (k sl sz).1, (k sl sz).2) := by
  apply findArr_some_iff.mpr
  rw [h, upd_same, hp]
  simp only [mapArr, Option.map_some, hk, and_true]

/-- 1a. a remote insert acts on the slots of its array as the generic insertion loop … -/
theorem ins_slotsOf {d : Doc} {p a ts t' : Ts} {vs : List JVal} {pn : DNode} {sl : List (Ts × Ts)} {sz : Int}
    {ns : List DNode} {cs : List Ts} (hp : d.findArr p = some (pn, sl, sz))
    (hc : createMany p ts vs = .ok (ns, cs, t')) (hpn : p ∉ ids ns) :
    slotsOf (applyA d (.ins p a ts vs)) p =
      (insertAfterId (fun (x : Ts × Ts) => x.1) a (cs.map fun c => (c, c)) sl).getD sl := by
  obtain ⟨hp1, hk⟩ := findArr_some_iff.mp hp
  have hUp : U ns d.find p = some pn := by rw [U_old hpn]; exact hp1
  rw [slotsOf_of_findArr (slotsOf_upd_mapArr (ins_find (a := a) hp hc hpn) hUp hk)]
  unfold insK
  cases insertAfterId (fun (x : Ts × Ts) => x.1) a (cs.map fun c => (c, c)) sl <;> rfl

/-- … so its slot ORDER identifiers change exactly as `Rga.ids` under the flat list's `insertRemote`
    (`applyIns_ids`): the generic loop over `Ts`, with the children's creation identifiers as batch
    (`hpn`: the new identifiers do not clash with the array's own, e.g. by `Fresh d ns`) -/
theorem ins_slotIds {d : Doc} {p a ts t' : Ts} {vs : List JVal} {pn : DNode} {sl : List (Ts × Ts)} {sz : Int}
    {ns : List DNode} {cs : List Ts} (hp : d.findArr p = some (pn, sl, sz))
    (hc : createMany p ts vs = .ok (ns, cs, t')) (hpn : p ∉ ids ns) :
    slotIds (applyA d (.ins p a ts vs)) p =
      (insertAfterId id a cs (slotIds d p)).getD (slotIds d p) := by
  unfold slotIds
  rw [ins_slotsOf hp hc hpn, slotsOf_of_findArr hp]
  have h := insertAfterId_map (fun (x : Ts × Ts) => x.1) id (fun (x : Ts × Ts) => x.1) (fun _ => rfl) a
    (cs.map fun c => (c, c)) sl
  have e : (cs.map fun c => (c, c)).map (fun (x : Ts × Ts) => x.1) = cs := by
    rw [List.map_map]; exact List.map_id' _
  rw [e] at h
  rw [← h]
  cases insertAfterId (fun (x : Ts × Ts) => x.1) a (cs.map fun c => (c, c)) sl <;> rfl

/-- 1b. a remote insert leaves every other old node of the table alone -/
theorem ins_find_other {d : Doc} {p a ts t' : Ts} {vs : List JVal} {pn : DNode} {sl : List (Ts × Ts)} {sz : Int}
    {ns : List DNode} {cs : List Ts} (hp : d.findArr p = some (pn, sl, sz))
    (hc : createMany p ts vs = .ok (ns, cs, t')) {q : Ts} (hq : q ≠ p) (hqn : q ∉ ids ns) :
    (applyA d (.ins p a ts vs)).find q = d.find q := by
  obtain ⟨hp1, _⟩ := findArr_some_iff.mp hp
  have hpc := find_some_c hp1
  simp only [applyA, Doc.insertRemoteInArray, hp, hc]
  cases insertAfterId (fun (s : Ts × Ts) => s.1) a (cs.map fun c => (c, c)) sl with
  | some sl' =>
    simp only
    rw [find_set, if_neg (by simp only [hpc]; exact fun e => hq e.symm), find_addAll_not_mem hqn]
  | none => exact find_addAll_not_mem hqn

/-! ### single-target delete and update on the lookup function -/

def szK (k : Int) (sl : List (Ts × Ts)) (s : Int) : List (Ts × Ts) × Int := (sl, s - k)
def setK (tg c : Ts) (sl : List (Ts × Ts)) (s : Int) : List (Ts × Ts) × Int := (setSlotChild tg c sl, s)

theorem find_makeTomb_kind {d : Doc} {x t p : Ts} {pn : DNode} (h : d.find p = some pn) :
    ∃ pn', (d.makeTomb x t).find p = some pn' ∧ pn'.kind = pn.kind ∧ pn'.c = pn.c ∧ pn'.parent = pn.parent := by
  rw [find_makeTomb]
  by_cases e : p = x
  · subst e; simp only [if_true, h, Option.map_some]; exact ⟨_, rfl, rfl, rfl, rfl⟩
  · simp only [e, if_false]; exact ⟨pn, h, rfl, rfl, rfl⟩

theorem findArr_makeTomb {d : Doc} {x t p : Ts} {pn : DNode} {sl : List (Ts × Ts)} {sz : Int}
    (h : d.findArr p = some (pn, sl, sz)) : ∃ pn', (d.makeTomb x t).findArr p = some (pn', sl, sz) := by
  obtain ⟨h1, h2⟩ := findArr_some_iff.mp h
  obtain ⟨pn', h3, h4, _⟩ := find_makeTomb_kind (x := x) (t := t) h1
  exact ⟨pn', findArr_some_iff.mpr ⟨h3, by rw [h4, h2]⟩⟩

/-- setting the size of the array `p` (found as `(pn', sl, sz)`) to `sz - k` -/
theorem find_setSize {d : Doc} {p : Ts} {pn : DNode} {sl : List (Ts × Ts)} {sz : Int} (k : Int)
    (h : d.findArr p = some (pn, sl, sz)) :
    (d.set { pn with kind := .arr sl (sz - k) }).find = upd p (mapArr (szK k)) d.find := by
  obtain ⟨h1, h2⟩ := findArr_some_iff.mp h
  rw [find_setArr h1 h2]
  apply upd_congr_at
  rw [h1]
  simp only [mapArr, Option.map_some, h2, szK]

theorem mapArr_szK_zero (o : Option DNode) : mapArr (szK 0) o = o := by
  cases o with
  | none => rfl
  | some n =>
    apply mapArr_id_at
    intro sl s _
    simp [szK]

theorem upd_mapArr_szK_zero (p : Ts) (F : Ts → Option DNode) : upd p (mapArr (szK 0)) F = F := by
  funext c
  by_cases e : c = p
  · subst e; rw [upd_same, mapArr_szK_zero]
  · rw [upd_other _ _ e]

/-- the single-target remote delete on the lookup function -/
def del1F (d : Doc) (p : Ts) (sl : List (Ts × Ts)) (tg t : Ts) : Ts → Option DNode :=
  match sl.find? (fun s => s.1 = tg) with
  | none => d.find
  | some s =>
    if !d.isTomb s.2 then upd p (mapArr (szK 1)) (upd s.2 (setD t) d.find)
    else if (d.timeOf s.2).cmp t == .lt then upd s.2 (setD t) d.find
    else d.find

theorem del1_find {d : Doc} {p tg t : Ts} {pn : DNode} {sl : List (Ts × Ts)} {sz : Int}
    (hp : d.findArr p = some (pn, sl, sz)) :
    (applyA d (.del p [tg] t)).find = del1F d p sl tg t := by
  simp only [applyA, Doc.deleteRemoteInArray, hp, Doc.deleteRemoteInArray.go, del1F]
  cases hs : sl.find? (fun s => s.1 = tg) with
  | none =>
    simp only [hp]
    rw [find_setSize 0 hp, upd_mapArr_szK_zero]
  | some s =>
    simp only
    by_cases h1 : d.isTomb s.2 = true
    · simp only [h1, Bool.not_true, Bool.false_eq_true, if_false]
      by_cases h2 : ((d.timeOf s.2).cmp t == Ordering.lt) = true
      · simp only [h2, if_true]
        obtain ⟨pn', h3⟩ := findArr_makeTomb (x := s.2) (t := t) hp
        simp only [h3]
        rw [find_setSize 0 h3, upd_mapArr_szK_zero, find_makeTomb_upd]
      · simp only [h2, Bool.false_eq_true, if_false, hp]
        rw [find_setSize 0 hp, upd_mapArr_szK_zero]
    · have h1' : d.isTomb s.2 = false := by simpa using h1
      simp only [h1', Bool.not_false, if_true]
      obtain ⟨pn', h3⟩ := findArr_makeTomb (x := s.2) (t := t) hp
      simp only [h3]
      have : (0 : Int) + 1 = 1 := rfl
      rw [this, find_setSize 1 h3, find_makeTomb_upd]

/-- the single-target remote update on the lookup function (`ns`, `newC` = the created nodes and their
    root) -/
def upd1F (d : Doc) (p : Ts) (sl : List (Ts × Ts)) (tg : Ts) (ns : List DNode) (newC : Ts) :
    Ts → Option DNode :=
  match sl.find? (fun s => s.1 = tg) with
  | none => U ns d.find
  | some s =>
    if !d.isTomb s.2 && (d.timeOf s.2).cmp newC == .lt then
      upd s.2 (fun1 newC) (upd p (mapArr (setK tg newC)) (U ns d.find))
    else upd newC (fun1 s.2) (U ns d.find)

theorem isTomb_addAll_old {d : Doc} {ns : List DNode} {c : Ts} (h : c ∉ ids ns) :
    (d.addAll ns).isTomb c = d.isTomb c := by
  apply isTomb_of_find
  rw [find_addAll, nfind_none_iff.mpr h]; rfl

theorem timeOf_addAll_old {d : Doc} {ns : List DNode} {c : Ts} (h : c ∉ ids ns) :
    (d.addAll ns).timeOf c = d.timeOf c := by
  apply timeOf_of_find
  rw [find_addAll, nfind_none_iff.mpr h]; rfl

theorem upd1_find {d : Doc} {p tg t t' newC : Ts} {v : JVal} {pn : DNode} {sl : List (Ts × Ts)} {sz : Int}
    {ns : List DNode} (hp : d.findArr p = some (pn, sl, sz))
    (hc : createNode p t v = .ok (ns, newC, t')) (hf : Fresh d ns)
    (hch : ∀ s ∈ sl, s.2 ∉ ids ns) :
    (applyA d (.upd p t [tg] [v])).find = upd1F d p sl tg ns newC := by
  obtain ⟨hp1, hk⟩ := findArr_some_iff.mp hp
  have hp2 : (d.addAll ns).find p = some pn := find_addAll_old hf hp1
  have hp3 : (d.addAll ns).findArr p = some (pn, sl, sz) := findArr_some_iff.mpr ⟨hp2, hk⟩
  simp only [applyA, Doc.updateRemoteInArray, hp, Doc.updateRemoteInArray.go, hc, hp3, upd1F]
  cases hs : sl.find? (fun s => s.1 = tg) with
  | none => simp only; rw [find_addAll_U]
  | some s =>
    have hsm : s ∈ sl := List.mem_of_find?_eq_some hs
    have hn := hch s hsm
    simp only [isTomb_addAll_old hn, timeOf_addAll_old hn]
    by_cases hw : (!d.isTomb s.2 && (d.timeOf s.2).cmp newC == Ordering.lt) = true
    · simp only [hw, if_true]
      rw [find_funeral_upd, find_setArr hp2 hk, find_addAll_U]
      congr 1
      apply upd_congr_at
      rw [U_old (fresh_not_mem hf hp1), hp1]
      simp only [mapArr, Option.map_some, hk, setK]
    · simp only [hw, Bool.false_eq_true, if_false]
      rw [find_funeral_upd, find_addAll_U]

/-! ### 1c. updates and deletes never change any slot order -/

/-- the slots of an array node -/
def arrV : Option DNode → Option (List (Ts × Ts))
  | some n => match n.kind with
    | .arr sl _ => some sl
    | _ => none
  | none => none

/-- the slot order identifiers of `q`, `none` when `q` is not an array of the document -/
def idsOf (d : Doc) (q : Ts) : Option (List Ts) := (arrV (d.find q)).map (List.map (·.1))

theorem slotsOf_eq_arrV (d : Doc) (q : Ts) : slotsOf d q = (arrV (d.find q)).getD [] := by
  unfold slotsOf Doc.findArr arrV
  cases d.find q with
  | none => rfl
  | some n =>
    obtain ⟨nc, nd, np, nk⟩ := n
    cases nk <;> rfl

theorem slotIds_eq_idsOf (d : Doc) (q : Ts) : slotIds d q = (idsOf d q).getD [] := by
  unfold slotIds idsOf
  rw [slotsOf_eq_arrV]
  cases arrV (d.find q) <;> rfl

theorem findArr_isSome_iff (d : Doc) (q : Ts) : (d.findArr q).isSome = (idsOf d q).isSome := by
  unfold Doc.findArr idsOf arrV
  cases d.find q with
  | none => rfl
  | some n =>
    obtain ⟨nc, nd, np, nk⟩ := n
    cases nk <;> rfl

theorem arrV_setD (t : Ts) (o : Option DNode) : arrV (setD t o) = arrV o := by
  cases o with
  | none => rfl
  | some n => rfl

theorem arrV_fun1 (t : Ts) (o : Option DNode) : arrV (fun1 t o) = arrV o := by
  cases o with
  | none => rfl
  | some n =>
    obtain ⟨nc, nd, np, nk⟩ := n
    cases nk <;> rfl

theorem arrV_makeTomb (d : Doc) (x t q : Ts) : arrV ((d.makeTomb x t).find q) = arrV (d.find q) := by
  rw [find_makeTomb_upd]
  by_cases e : q = x
  · subst e; rw [upd_same, arrV_setD]
  · rw [upd_other _ _ e]

theorem arrV_funeral (d : Doc) (x t q : Ts) : arrV ((d.funeral x t).find q) = arrV (d.find q) := by
  rw [find_funeral_upd]
  by_cases e : q = x
  · subst e; rw [upd_same, arrV_fun1]
  · rw [upd_other _ _ e]

theorem arrV_setArr {d : Doc} {p : Ts} {pn : DNode} {sl sl' : List (Ts × Ts)} {s s' : Int}
    (hp : d.findArr p = some (pn, sl, s)) (q : Ts) :
    arrV ((d.set { pn with kind := .arr sl' s' }).find q) = if q = p then some sl' else arrV (d.find q) := by
  obtain ⟨h1, h2⟩ := findArr_some_iff.mp hp
  rw [find_setArr h1 h2]
  by_cases e : q = p
  · subst e
    rw [upd_same, h1, if_pos rfl]
    simp only [mapArr, Option.map_some, h2, arrV]
  · rw [upd_other _ _ e, if_neg e]

theorem arrV_of_findArr {d : Doc} {p : Ts} {pn : DNode} {sl : List (Ts × Ts)} {s : Int}
    (hp : d.findArr p = some (pn, sl, s)) : arrV (d.find p) = some sl := by
  obtain ⟨h1, h2⟩ := findArr_some_iff.mp hp
  rw [h1]; simp only [arrV, h2]

theorem del_go_arrV (slots : List (Ts × Ts)) : ∀ (tgs : List Ts) (t : Ts) (d : Doc) (k : Int) (q : Ts),
    arrV ((Doc.deleteRemoteInArray.go slots tgs t d k).1.find q) = arrV (d.find q)
  | [], _, _, _, _ => rfl
  | tg :: tgs, t, d, k, q => by
      simp only [Doc.deleteRemoteInArray.go]
      split
      · exact del_go_arrV slots tgs _ d k q
      · split
        · rw [del_go_arrV slots tgs _ _ _ q, arrV_makeTomb]
        · split
          · rw [del_go_arrV slots tgs _ _ _ q, arrV_makeTomb]
          · exact del_go_arrV slots tgs _ d k q

/-- a remote delete changes no slot list at all (it touches `d` stamps and the stored size only) -/
theorem del_arrV (d : Doc) (p : Ts) (tgs : List Ts) (t q : Ts) :
    arrV ((applyA d (.del p tgs t)).find q) = arrV (d.find q) := by
  simp only [applyA, Doc.deleteRemoteInArray]
  cases hp : d.findArr p with
  | none => rfl
  | some x =>
    obtain ⟨pn, slots, size⟩ := x
    simp only
    have hgo := del_go_arrV slots tgs t d 0
    generalize Doc.deleteRemoteInArray.go slots tgs t d 0 = r at hgo
    obtain ⟨d1, k⟩ := r
    simp only at hgo ⊢
    cases hp1 : d1.findArr p with
    | none => exact hgo q
    | some y =>
      obtain ⟨pn', sl', size'⟩ := y
      simp only
      rw [arrV_setArr hp1, ← hgo q]
      by_cases e : q = p
      · subst e; rw [if_pos rfl, arrV_of_findArr hp1]
      · rw [if_neg e]

theorem del_slotsOf (d : Doc) (p : Ts) (tgs : List Ts) (t q : Ts) :
    slotsOf (applyA d (.del p tgs t)) q = slotsOf d q := by
  rw [slotsOf_eq_arrV, slotsOf_eq_arrV, del_arrV]

theorem del_idsOf (d : Doc) (p : Ts) (tgs : List Ts) (t q : Ts) :
    idsOf (applyA d (.del p tgs t)) q = idsOf d q := by
  unfold idsOf; rw [del_arrV]

theorem del_slotIds (d : Doc) (p : Ts) (tgs : List Ts) (t q : Ts) :
    slotIds (applyA d (.del p tgs t)) q = slotIds d q := by
  unfold slotIds; rw [del_slotsOf]

theorem setSlotChild_ids (o c : Ts) : ∀ sl : List (Ts × Ts), (setSlotChild o c sl).map (·.1) = sl.map (·.1)
  | [] => rfl
  | s :: ss => by
      unfold setSlotChild
      split
      · next h => simp [h]
      · simp [setSlotChild_ids o c ss]

theorem createNode_ids_key {parent ts c ts' : Ts} {v : JVal} {ns : List DNode}
    (h : createNode parent ts v = .ok (ns, c, ts')) : (∀ x ∈ ids ns, x.key = ts.key) ∧ ts'.key = ts.key := by
  obtain ⟨_, _, _, h4, h5, _⟩ := createNode_ids h
  constructor
  · intro x hx
    obtain ⟨n, hn, rfl⟩ := List.mem_map.mp hx
    obtain ⟨a, b, c, _⟩ := h5 n hn
    simp only [Ts.key, a, b, c]
  · rw [h4]; rfl

theorem idsOf_addAll {d : Doc} {ns : List DNode} {q : Ts} (h : q ∉ ids ns) :
    idsOf (d.addAll ns) q = idsOf d q := by
  unfold idsOf; rw [find_addAll_not_mem h]

theorem upd_go_idsOf (p : Ts) : ∀ (tgs : List Ts) (vs : List JVal) (t : Ts) (d d' : Doc),
    Doc.updateRemoteInArray.go p tgs vs t d = .ok d' → ∀ q, q.key ≠ t.key → idsOf d' q = idsOf d q
  | [], _, _, _, _, h, _, _ => by
      simp only [Doc.updateRemoteInArray.go, Outcome.ok.injEq] at h; rw [h]
  | _ :: _, [], _, _, _, h, _, _ => by simp [Doc.updateRemoteInArray.go] at h
  | tg :: tgs, v :: vs, t, d, d', h, q, hq => by
      simp only [Doc.updateRemoteInArray.go] at h
      split at h
      · cases h
      · cases h
      · rename_i ns newC t' hc
        obtain ⟨hkey, hk'⟩ := createNode_ids_key hc
        have hqn : q ∉ ids ns := fun hm => hq (hkey q hm)
        have hq' : q.key ≠ t'.key := by rw [hk']; exact hq
        have h0 : idsOf (d.addAll ns) q = idsOf d q := idsOf_addAll hqn
        split at h
        · cases h
        · rename_i pn sl size hp
          split at h
          · rw [upd_go_idsOf p tgs vs t' _ d' h q hq', h0]
          · split at h
            · rw [upd_go_idsOf p tgs vs t' _ d' h q hq', ← h0]
              unfold idsOf
              rw [arrV_funeral, arrV_setArr hp]
              by_cases e : q = p
              · subst e
                rw [if_pos rfl, arrV_of_findArr hp]
                simp only [Option.map_some, setSlotChild_ids]
              · rw [if_neg e]
            · rw [upd_go_idsOf p tgs vs t' _ d' h q hq', ← h0]
              unfold idsOf
              rw [arrV_funeral]

/-- a remote update changes no slot ORDER (`q.key ≠ t.key`: `q` is not one of the nodes the update creates) -/
theorem upd_idsOf (d : Doc) (p t : Ts) (tgs : List Ts) (vs : List JVal) (q : Ts) (hq : q.key ≠ t.key) :
    idsOf (applyA d (.upd p t tgs vs)) q = idsOf d q := by
  simp only [applyA, Doc.updateRemoteInArray]
  cases hp : d.findArr p with
  | none => rfl
  | some x =>
    simp only
    cases hg : Doc.updateRemoteInArray.go p tgs vs t d with
    | ok d' => exact upd_go_idsOf p tgs vs t d d' hg q hq
    | err c => rfl
    | panic w => rfl

theorem upd_slotIds (d : Doc) (p t : Ts) (tgs : List Ts) (vs : List JVal) (q : Ts) (hq : q.key ≠ t.key) :
    slotIds (applyA d (.upd p t tgs vs)) q = slotIds d q := by
  rw [slotIds_eq_idsOf, slotIds_eq_idsOf, upd_idsOf d p t tgs vs q hq]

/-! ### 1b'. a remote insert: the order of the other arrays, and of its own, without side conditions but
    `q.key ≠ ts.key` (`q` is not one of the created nodes) -/

theorem createMany_ids_key {parent ts ts' : Ts} {vs : List JVal} {ns : List DNode} {cs : List Ts}
    (h : createMany parent ts vs = .ok (ns, cs, ts')) :
    (∀ x ∈ ids ns, x.key = ts.key) ∧ (∀ x ∈ cs, x.key = ts.key) ∧ cs.Nodup := by
  obtain ⟨hb, hnd, hcs⟩ := createArrItems_spec parent ts vs ns cs ts' h
  have h1 : ∀ x ∈ ids ns, x.key = ts.key := by
    intro x hx
    rw [hb.ids] at hx
    obtain ⟨i, _, rfl⟩ := DC.mem_delimSeq.mp hx
    rfl
  refine ⟨h1, ?_, hnd⟩
  intro x hx
  obtain ⟨nc, hnc, rfl, _, _⟩ := hcs x hx
  exact h1 _ (List.mem_map.mpr ⟨nc, hnc, rfl⟩)

/-- the step of the generic loop on order identifiers -/
def stepIds (l : List Ts) (a : Ts) (cs : List Ts) : List Ts := (insertAfterId id a cs l).getD l

theorem ins_idsOf_gen (d : Doc) (p a ts : Ts) (vs : List JVal) (q : Ts)
    (hq : ∀ ns cs t', createMany p ts vs = .ok (ns, cs, t') → q ∉ ids ns) :
    idsOf (applyA d (.ins p a ts vs)) q =
      if q = p then
        match createMany p ts vs with
        | .ok (_, cs, _) => (idsOf d q).map fun l => stepIds l a cs
        | _ => idsOf d q
      else idsOf d q := by
  cases hp : d.findArr p with
  | none =>
    have : applyA d (.ins p a ts vs) = d := by simp only [applyA, Doc.insertRemoteInArray, hp]
    rw [this]
    by_cases e : q = p
    · subst e
      have : idsOf d q = none := by
        have := findArr_isSome_iff d q
        rw [hp] at this
        cases h : idsOf d q with
        | none => rfl
        | some l => rw [h] at this; cases this
      rw [if_pos rfl, this]
      cases createMany q ts vs with
      | ok x => rfl
      | err c => rfl
      | panic w => rfl
    · rw [if_neg e]
  | some x =>
    obtain ⟨pn, sl, sz⟩ := x
    cases hc : createMany p ts vs with
    | err c =>
      have : applyA d (.ins p a ts vs) = d := by simp only [applyA, Doc.insertRemoteInArray, hp, hc]
      rw [this]; simp
    | panic w =>
      have : applyA d (.ins p a ts vs) = d := by simp only [applyA, Doc.insertRemoteInArray, hp, hc]
      rw [this]; simp
    | ok y =>
      obtain ⟨ns, cs, t'⟩ := y
      have hqn : q ∉ ids ns := hq ns cs t' hc
      by_cases e : q = p
      · subst e
        rw [if_pos rfl]
        simp only
        obtain ⟨hp1, hk⟩ := findArr_some_iff.mp hp
        have hUp : U ns d.find q = some pn := by rw [U_old hqn]; exact hp1
        have h1 := slotsOf_upd_mapArr (ins_find (a := a) hp hc hqn) hUp hk
        unfold idsOf
        rw [arrV_of_findArr h1, arrV_of_findArr hp]
        simp only [Option.map_some, Option.some.injEq, stepIds]
        have h := insertAfterId_map (fun (x : Ts × Ts) => x.1) id (fun (x : Ts × Ts) => x.1) (fun _ => rfl) a
          (cs.map fun c => (c, c)) sl
        have e : (cs.map fun c => (c, c)).map (fun (x : Ts × Ts) => x.1) = cs := by
          rw [List.map_map]; exact List.map_id' _
        rw [e] at h
        rw [← h]
        unfold insK
        cases insertAfterId (fun (x : Ts × Ts) => x.1) a (cs.map fun c => (c, c)) sl <;> rfl
      · rw [if_neg e]
        unfold idsOf
        rw [ins_find_other hp hc e hqn]

theorem ins_idsOf (d : Doc) (p a ts : Ts) (vs : List JVal) (q : Ts) (hq : q.key ≠ ts.key) :
    idsOf (applyA d (.ins p a ts vs)) q =
      if q = p then
        match createMany p ts vs with
        | .ok (_, cs, _) => (idsOf d q).map fun l => stepIds l a cs
        | _ => idsOf d q
      else idsOf d q :=
  ins_idsOf_gen d p a ts vs q (fun _ _ _ hc hm => hq ((createMany_ids_key hc).1 q hm))

/-! ### 1d. the order of one array under a whole history: the fold of the generic loop over its inserts -/

/-- a remote insert into one array, as the order sees it: the anchor and the new order identifiers -/
structure AIns where
  anchor : Ts
  cs : List Ts
deriving DecidableEq

/-- the insert an operation performs on the array `p` (none: another array, an update, a delete, or a value
    that cannot be created) -/
def insOn (p : Ts) : AOp → Option AIns
  | .ins p' a ts vs =>
    if p' = p then
      match createMany p' ts vs with
      | .ok (_, cs, _) => some ⟨a, cs⟩
      | _ => none
    else none
  | _ => none

def foldIds (l : List Ts) (M : List AIns) : List Ts := M.foldl (fun l o => stepIds l o.anchor o.cs) l

theorem foldIds_append (l : List Ts) (M N : List AIns) : foldIds l (M ++ N) = foldIds (foldIds l M) N := by
  simp [foldIds, List.foldl_append]

/-- the order identifiers of `p` after a history = the generic loop folded over the inserts into `p`
    (`hk`: no operation creates a node with the identifier of `p`) -/
theorem idsOf_applyAllA (p : Ts) : ∀ (ops : List AOp) (d : Doc), (∀ o ∈ ops, p.key ≠ o.ts.key) →
    idsOf (applyAllA d ops) p = (idsOf d p).map fun l => foldIds l (ops.filterMap (insOn p))
  | [], d, _ => by simp [applyAllA, foldIds]
  | o :: ops, d, hk => by
      have ih := idsOf_applyAllA p ops (applyA d o) (fun o' ho' => hk o' (by simp [ho']))
      have hko := hk o (by simp)
      have e : applyAllA d (o :: ops) = applyAllA (applyA d o) ops := rfl
      rw [e, ih]
      cases o with
      | ins p' a ts vs =>
        rw [ins_idsOf d p' a ts vs p hko]
        by_cases hp : p = p'
        · subst hp
          simp only [if_true, List.filterMap_cons, insOn]
          cases hc : createMany p ts vs with
          | ok y =>
            obtain ⟨ns, cs, t'⟩ := y
            simp only [Option.map_map, foldIds, List.foldl_cons]
            rfl
          | err c => rfl
          | panic w => rfl
        · have hp' : ¬ p' = p := fun e => hp e.symm
          simp only [hp, if_false, List.filterMap_cons, insOn, hp']
      | del p' tgs t =>
        rw [del_idsOf]
        simp only [List.filterMap_cons, insOn]
      | upd p' t tgs vs =>
        rw [upd_idsOf d p' t tgs vs p hko]
        simp only [List.filterMap_cons, insOn]

theorem slotIds_applyAllA (p : Ts) (ops : List AOp) (d : Doc) (hk : ∀ o ∈ ops, p.key ≠ o.ts.key)
    (hp : (d.findArr p).isSome) :
    slotIds (applyAllA d ops) p = foldIds (slotIds d p) (ops.filterMap (insOn p)) := by
  rw [slotIds_eq_idsOf, slotIds_eq_idsOf, idsOf_applyAllA p ops d hk]
  rw [findArr_isSome_iff] at hp
  obtain ⟨l, hl⟩ := Option.isSome_iff_exists.mp hp
  rw [hl]; rfl

/-! ### 1e. reduction to the flat list: the child identifiers of a batch are renamed to consecutive
    delimiters (`Ts.cmp` ignores the delimiter, so the insertion loop cannot tell) -/

/-- the timestamp of a batch: that of its first identifier, delimiter 0 -/
def AIns.ts0 (o : AIns) : Ts :=
  ⟨(o.cs.headD Ts.oldest).era, (o.cs.headD Ts.oldest).lamport, (o.cs.headD Ts.oldest).cuid, 0⟩

/-- the identities a history knows: the head and every inserted identifier -/
def Known (M : List AIns) (x : Ts) : Prop := x = Ts.oldest ∨ ∃ o ∈ M, x ∈ o.cs

/-- the permutation-invariant part of `ACausal` -/
structure MWF (M : List AIns) : Prop where
  nonempty : ∀ o ∈ M, o.cs ≠ []
  samekey : ∀ o ∈ M, ∀ x ∈ o.cs, x.key = o.ts0.key
  nodup : ∀ o ∈ M, o.cs.Nodup
  notHead : ∀ o ∈ M, o.ts0.key ≠ Ts.oldest.key
  uniq : ∀ a ∈ M, ∀ b ∈ M, a.ts0.key = b.ts0.key → a = b
  anchorKnown : ∀ o ∈ M, Known M o.anchor

/-- causal histories of inserts into ONE array — the notion of `InsCausal`, with the batch identifiers
    `cs` (the creation identifiers of the inserted children: same era / lamport / client, increasing
    delimiters, not necessarily consecutive when values are nested) in place of `delimSeq ts n`:
    non-empty duplicate-free batches of one `Ts.key`, none the head's, pairwise different keys, each
    anchor is the head or an identifier inserted EARLIER by an operation with an older timestamp -/
structure ACausal (M : List AIns) : Prop where
  nonempty : ∀ o ∈ M, o.cs ≠ []
  samekey : ∀ o ∈ M, ∀ x ∈ o.cs, x.key = o.ts0.key
  nodup : ∀ o ∈ M, o.cs.Nodup
  notHead : ∀ o ∈ M, o.ts0.key ≠ Ts.oldest.key
  distinct : M.Pairwise (fun a b => a.ts0.key ≠ b.ts0.key)
  anchored : ∀ i (hi : i < M.length), (M[i]).anchor = Ts.oldest ∨
      ∃ j, ∃ hj : j < i, (M[i]).anchor ∈ (M[j]'(by omega)).cs ∧
        (M[j]'(by omega)).ts0.cmp (M[i]).ts0 = .lt

theorem ACausal.wf {M : List AIns} (h : ACausal M) : MWF M where
  nonempty := h.nonempty
  samekey := h.samekey
  nodup := h.nodup
  notHead := h.notHead
  uniq := by
    intro a ha b hb hk
    rcases pairwise_mem_cases h.distinct ha hb with e | e | e
    · exact e
    · exact absurd hk e
    · exact absurd hk.symm e
  anchorKnown := by
    intro o ho
    obtain ⟨i, hi, rfl⟩ := List.getElem_of_mem ho
    rcases h.anchored i hi with h1 | ⟨j, hj, h2, _⟩
    · exact Or.inl h1
    · exact Or.inr ⟨_, List.getElem_mem _, h2⟩

theorem Known.perm {M M' : List AIns} (hp : M.Perm M') {x : Ts} (h : Known M x) : Known M' x := by
  rcases h with h | ⟨o, ho, hx⟩
  · exact Or.inl h
  · exact Or.inr ⟨o, hp.mem_iff.mp ho, hx⟩

theorem MWF.perm {M M' : List AIns} (hp : M.Perm M') (h : MWF M) : MWF M' where
  nonempty := fun o ho => h.nonempty o (hp.mem_iff.mpr ho)
  samekey := fun o ho => h.samekey o (hp.mem_iff.mpr ho)
  nodup := fun o ho => h.nodup o (hp.mem_iff.mpr ho)
  notHead := fun o ho => h.notHead o (hp.mem_iff.mpr ho)
  uniq := fun a ha b hb => h.uniq a (hp.mem_iff.mpr ha) b (hp.mem_iff.mpr hb)
  anchorKnown := fun o ho => (h.anchorKnown o (hp.mem_iff.mpr ho)).perm hp

/-- a renaming of identities under which the history becomes a history of the flat list -/
structure Renaming (M : List AIns) (φ : Ts → Ts) : Prop where
  key : ∀ x, (φ x).key = x.key
  batch : ∀ o ∈ M, o.cs.map φ = delimSeq o.ts0 o.cs.length
  inj : ∀ x y, Known M x → Known M y → φ x = φ y → x = y
  oldest : φ Ts.oldest = Ts.oldest

theorem Renaming.perm {M M' : List AIns} {φ : Ts → Ts} (hp : M.Perm M') (h : Renaming M φ) :
    Renaming M' φ where
  key := h.key
  batch := fun o ho => h.batch o (hp.mem_iff.mpr ho)
  inj := fun x y hx hy => h.inj x y (hx.perm hp.symm) (hy.perm hp.symm)
  oldest := h.oldest

def memB (x : Ts) (cs : List Ts) : Bool := cs.any (fun y => decide (y = x))

theorem memB_iff {x : Ts} {cs : List Ts} : memB x cs = true ↔ x ∈ cs := by
  simp [memB]

/-- position `i` of a batch ↦ delimiter `i` -/
def phi (M : List AIns) (x : Ts) : Ts :=
  match M.find? (fun o => memB x o.cs) with
  | some o => ⟨x.era, x.lamport, x.cuid, RF.idxIn x o.cs⟩
  | none => x

theorem map_idx_eq_delimSeq : ∀ (cs : List Ts) (t : Ts), cs.Nodup → (∀ x ∈ cs, x.key = t.key) →
    cs.map (fun x => (⟨x.era, x.lamport, x.cuid, t.delim + RF.idxIn x cs⟩ : Ts)) = delimSeq t cs.length
  | [], _, _, _ => rfl
  | c :: cs, t, hnd, hk => by
      obtain ⟨hc, hnd'⟩ := List.nodup_cons.mp hnd
      have hck := hk c (by simp)
      simp only [Ts.key, Prod.mk.injEq] at hck
      simp only [List.map_cons, List.length_cons, delimSeq, List.cons.injEq]
      constructor
      · simp only [RF.idxIn, if_true, Nat.add_zero]
        cases t
        simp_all
      · rw [← map_idx_eq_delimSeq cs t.nextDelim hnd' (fun x hx => hk x (by simp [hx]))]
        apply List.map_congr_left
        intro x hx
        have : ¬ c = x := fun e => hc (e ▸ hx)
        simp only [RF.idxIn, this, if_false, Ts.nextDelim, Ts.mk.injEq, true_and]
        omega

theorem phi_of_mem {M : List AIns} (h : MWF M) {o : AIns} (ho : o ∈ M) {x : Ts} (hx : x ∈ o.cs) :
    phi M x = ⟨x.era, x.lamport, x.cuid, RF.idxIn x o.cs⟩ := by
  unfold phi
  cases hf : M.find? (fun o => memB x o.cs) with
  | none =>
    have := List.find?_eq_none.mp hf o ho
    rw [memB_iff.mpr hx] at this
    exact absurd rfl this
  | some o' =>
    have ho' : o' ∈ M := List.mem_of_find?_eq_some hf
    have hx' : x ∈ o'.cs := by
      have := List.find?_some hf
      exact memB_iff.mp this
    have : o' = o := h.uniq o' ho' o ho (by rw [← h.samekey o' ho' x hx', ← h.samekey o ho x hx])
    rw [this]

theorem phi_of_not_known {M : List AIns} {x : Ts} (hx : ∀ o ∈ M, x ∉ o.cs) : phi M x = x := by
  unfold phi
  have : M.find? (fun o => memB x o.cs) = none := by
    rw [List.find?_eq_none]
    intro o ho hm
    exact hx o ho (memB_iff.mp hm)
  rw [this]

theorem renaming_phi {M : List AIns} (h : MWF M) : Renaming M (phi M) := by
  have hold : phi M Ts.oldest = Ts.oldest := by
    apply phi_of_not_known
    intro o ho hm
    exact h.notHead o ho (h.samekey o ho _ hm).symm
  have hkey : ∀ x, (phi M x).key = x.key := by
    intro x
    unfold phi
    cases M.find? (fun o => memB x o.cs) <;> rfl
  have hbatch : ∀ o ∈ M, o.cs.map (phi M) = delimSeq o.ts0 o.cs.length := by
    intro o ho
    rw [← map_idx_eq_delimSeq o.cs o.ts0 (h.nodup o ho) (h.samekey o ho)]
    apply List.map_congr_left
    intro x hx
    rw [phi_of_mem h ho hx]
    simp [AIns.ts0]
  refine ⟨hkey, hbatch, ?_, hold⟩
  intro x y hx hy hxy
  rcases hx with rfl | ⟨o, ho, hx⟩
  · rcases hy with rfl | ⟨o', ho', hy⟩
    · rfl
    · exfalso
      have := hkey y
      rw [← hxy, hold] at this
      exact h.notHead o' ho' (by rw [← h.samekey o' ho' y hy, ← this])
  · rcases hy with rfl | ⟨o', ho', hy⟩
    · exfalso
      have := hkey x
      rw [hxy, hold] at this
      exact h.notHead o ho (by rw [← h.samekey o ho x hx, ← this])
    · have hk : x.key = y.key := by rw [← hkey x, ← hkey y, hxy]
      have : o = o' := h.uniq o ho o' ho' (by rw [← h.samekey o ho x hx, ← h.samekey o' ho' y hy, hk])
      subst this
      have hnd : (o.cs.map (phi M)).Nodup := by rw [hbatch o ho]; exact Orda.delimSeq_nodup _ _
      exact List.inj_on_of_nodup_map hnd hx hy hxy

/-- the flat-list insert an array insert becomes under the renaming -/
def toIns (φ : Ts → Ts) (o : AIns) : InsOp := ⟨φ o.anchor, o.ts0, List.replicate o.cs.length .null⟩

theorem toIns_ids {M : List AIns} {φ : Ts → Ts} (hr : Renaming M φ) {o : AIns} (ho : o ∈ M) :
    (toIns φ o).ids = o.cs.map φ := by
  rw [hr.batch o ho]
  simp [toIns, InsOp.ids]

theorem insCausal_toIns {M : List AIns} {φ : Ts → Ts} (hr : Renaming M φ) (hc : ACausal M) :
    InsCausal (M.map (toIns φ)) where
  delim0 := by
    intro o ho
    obtain ⟨a, _, rfl⟩ := List.mem_map.mp ho
    rfl
  nonempty := by
    intro o ho
    obtain ⟨a, ha, rfl⟩ := List.mem_map.mp ho
    have := hc.nonempty a ha
    simp only [toIns, ne_eq, List.replicate_eq_nil_iff, List.length_eq_zero_iff]
    exact this
  notHead := by
    intro o ho
    obtain ⟨a, ha, rfl⟩ := List.mem_map.mp ho
    exact hc.notHead a ha
  distinct := by
    rw [List.pairwise_map]
    exact hc.distinct
  anchored := by
    intro i hi
    have hi' : i < M.length := by simpa using hi
    rcases hc.anchored i hi' with h1 | ⟨j, hj, h2, h3⟩
    · left
      simp only [List.getElem_map, toIns, h1, hr.oldest]
    · right
      refine ⟨j, hj, ?_, ?_⟩
      · simp only [List.getElem_map]
        rw [toIns_ids hr (List.getElem_mem _)]
        exact List.mem_map.mpr ⟨_, h2, rfl⟩
      · simp only [List.getElem_map]
        exact h3

theorem stepIds_known {M : List AIns} {l : List Ts} {o : AIns} (ho : o ∈ M) (hl : ∀ x ∈ l, Known M x) :
    ∀ x ∈ stepIds l o.anchor o.cs, Known M x := by
  intro x hx
  unfold stepIds at hx
  cases h : insertAfterId id o.anchor o.cs l with
  | none => rw [h] at hx; exact hl x hx
  | some l' =>
    rw [h] at hx
    have := (insertAfterId_perm id o.anchor o.cs l l' h).subset hx
    rcases List.mem_append.mp this with h1 | h1
    · exact Or.inr ⟨o, ho, h1⟩
    · exact hl x h1

/-- the simulation: under the renaming, the order of the array is the order of the flat list -/
theorem foldIds_sim {M : List AIns} {φ : Ts → Ts} (hr : Renaming M φ) (hwf : MWF M) :
    ∀ (N : List AIns) (l : List Ts) (s : Rga), (∀ o ∈ N, o ∈ M) → (∀ x ∈ l, Known M x) → s.ids = l.map φ →
      (s.applyAllIns (N.map (toIns φ))).ids = (foldIds l N).map φ ∧ ∀ x ∈ foldIds l N, Known M x
  | [], l, s, _, hl, hs => ⟨hs, hl⟩
  | o :: N, l, s, hN, hl, hs => by
      have ho : o ∈ M := hN o (by simp)
      have hstep : (s.applyIns (toIns φ o)).ids = (stepIds l o.anchor o.cs).map φ := by
        rw [applyIns_ids, toIns_ids hr ho, hs]
        have ha : Known M o.anchor := hwf.anchorKnown o ho
        have := insertAfterId_rename φ hr.key o.anchor
          ⟨fun e => hr.inj _ _ ha (Or.inl rfl) (by rw [e, hr.oldest]), fun e => by rw [e, hr.oldest]⟩
          o.cs l (fun x hx => ⟨fun e => hr.inj _ _ (hl x hx) ha e, fun e => by rw [e]⟩)
        simp only [toIns]
        rw [this]
        unfold stepIds
        cases insertAfterId id o.anchor o.cs l <;> rfl
      have := foldIds_sim hr hwf N (stepIds l o.anchor o.cs) (s.applyIns (toIns φ o))
        (fun o' ho' => hN o' (by simp [ho'])) (stepIds_known ho hl) hstep
      simpa [Rga.applyAllIns, foldIds] using this

theorem map_inj_on {α β : Type} (f : α → β) {P : α → Prop} (hinj : ∀ x y, P x → P y → f x = f y → x = y) :
    ∀ (l l' : List α), (∀ x ∈ l, P x) → (∀ x ∈ l', P x) → l.map f = l'.map f → l = l'
  | [], [], _, _, _ => rfl
  | [], _ :: _, _, _, h => by simp at h
  | _ :: _, [], _, _, h => by simp at h
  | a :: l, b :: l', h1, h2, h => by
      simp only [List.map_cons, List.cons.injEq] at h
      rw [hinj a b (h1 a (by simp)) (h2 b (by simp)) h.1,
        map_inj_on f hinj l l' (fun x hx => h1 x (by simp [hx])) (fun x hx => h2 x (by simp [hx])) h.2]

/-- the order of an array that started empty does not depend on the (causal) arrival order of its inserts:
    by `rga_converge`, through the renaming -/
theorem foldIds_converge (M M' : List AIns) (hp : M.Perm M') (hc : ACausal M) (hc' : ACausal M') :
    foldIds [] M = foldIds [] M' := by
  have hwf := hc.wf
  have hr := renaming_phi hwf
  have hr' := hr.perm hp
  obtain ⟨h1, k1⟩ := foldIds_sim hr hwf M [] Rga.empty (fun _ h => h) (by simp) rfl
  obtain ⟨h2, k2⟩ := foldIds_sim hr' (hwf.perm hp) M' [] Rga.empty (fun _ h => h) (by simp) rfl
  have hconv := rga_converge (M.map (toIns (phi M))) (M'.map (toIns (phi M))) (hp.map _)
    (insCausal_toIns hr hc) (insCausal_toIns hr' hc')
  have e : (foldIds [] M).map (phi M) = (foldIds [] M').map (phi M) := by
    rw [← h1, ← h2]; exact hconv
  exact map_inj_on (phi M) hr.inj _ _ k1 (fun x hx => (k2 x hx).perm hp.symm) e

theorem skipInsMany_nil {β : Type} (oOf : β → Ts) : ∀ ns : List β, skipInsMany oOf ns [] = ns
  | [] => rfl
  | n :: ns => by simp [skipInsMany, skipIns1, skipInsMany_nil oOf ns]

/-- the order of a freshly created array is that of one insert at the head -/
theorem foldIds_fresh (cs0 : List Ts) : foldIds [] [⟨Ts.oldest, cs0⟩] = cs0 := by
  simp [foldIds, stepIds, insertAfterId_oldest, skipInsMany_nil]

/-- **1. order convergence.**  `p` is an array of `d` whose present slot order was produced by the
    inserts `M0` (`M0 = []`: an empty array; `M0 = [⟨Ts.oldest, cs0⟩]`: an array just created with the
    children `cs0`, see `arr_order_converge_fresh`).  Two histories `ops`, `ops'` of remote array
    operations (inserts, updates, deletes, on `p` or elsewhere) with the same operations, none of which
    creates a node under the identifier of `p`, and whose inserts into `p` are causal after `M0`
    (`ACausal` = `InsCausal` for batches of child identifiers), leave `p` with the same slot order.
    The proof is `rga_converge` for the flat list, through `idsOf_applyAllA` (order = generic loop folded
    over the inserts into `p`) and the renaming `foldIds_sim`. -/
theorem arr_order_converge (d : Doc) (p : Ts) (M0 : List AIns) (ops ops' : List AOp) (hperm : ops.Perm ops')
    (hp : (d.findArr p).isSome) (hk : ∀ o ∈ ops, p.key ≠ o.ts.key)
    (hbase : slotIds d p = foldIds [] M0)
    (hc : ACausal (M0 ++ ops.filterMap (insOn p))) (hc' : ACausal (M0 ++ ops'.filterMap (insOn p))) :
    slotIds (applyAllA d ops) p = slotIds (applyAllA d ops') p := by
  rw [slotIds_applyAllA p ops d hk hp,
    slotIds_applyAllA p ops' d (fun o ho => hk o (hperm.mem_iff.mpr ho)) hp, hbase,
    ← foldIds_append, ← foldIds_append]
  exact foldIds_converge _ _ ((hperm.filterMap _).append_left M0) hc hc'

theorem arr_order_converge_empty (d : Doc) (p : Ts) (ops ops' : List AOp) (hperm : ops.Perm ops')
    (hp : (d.findArr p).isSome) (hk : ∀ o ∈ ops, p.key ≠ o.ts.key) (hbase : slotIds d p = [])
    (hc : ACausal (ops.filterMap (insOn p))) (hc' : ACausal (ops'.filterMap (insOn p))) :
    slotIds (applyAllA d ops) p = slotIds (applyAllA d ops') p :=
  arr_order_converge d p [] ops ops' hperm hp hk hbase hc hc'

theorem arr_order_converge_fresh (d : Doc) (p : Ts) (ops ops' : List AOp) (hperm : ops.Perm ops')
    (hp : (d.findArr p).isSome) (hk : ∀ o ∈ ops, p.key ≠ o.ts.key)
    (hc : ACausal (⟨Ts.oldest, slotIds d p⟩ :: ops.filterMap (insOn p)))
    (hc' : ACausal (⟨Ts.oldest, slotIds d p⟩ :: ops'.filterMap (insOn p))) :
    slotIds (applyAllA d ops) p = slotIds (applyAllA d ops') p :=
  arr_order_converge d p [⟨Ts.oldest, slotIds d p⟩] ops ops' hperm hp hk (foldIds_fresh _).symm hc hc'

/-! ## 3. elementary operations: an insert (whole batch), a single-target delete, a single-target update -/

inductive EOp where
  | ins (p a ts : Ts) (vs : List JVal)
  | del1 (p tg t : Ts)
  | upd1 (p tg t : Ts) (v : JVal)

def EOp.toA : EOp → AOp
  | .ins p a ts vs => .ins p a ts vs
  | .del1 p tg t => .del p [tg] t
  | .upd1 p tg t v => .upd p t [tg] [v]

def applyE (d : Doc) (e : EOp) : Doc := applyA d e.toA

def EOp.p : EOp → Ts
  | .ins p _ _ _ => p
  | .del1 p _ _ => p
  | .upd1 p _ _ _ => p

def EOp.ts : EOp → Ts
  | .ins _ _ ts _ => ts
  | .del1 _ _ t => t
  | .upd1 _ _ t _ => t

/-- the nodes an operation creates -/
def nodesE : EOp → List DNode
  | .ins p _ ts vs => match createMany p ts vs with
    | .ok (ns, _, _) => ns
    | _ => []
  | .del1 _ _ _ => []
  | .upd1 p _ t v => match createNode p t v with
    | .ok (ns, _, _) => ns
    | _ => []

/-- the slot order identifiers an operation creates -/
def newSlots : EOp → List Ts
  | .ins p _ ts vs => match createMany p ts vs with
    | .ok (_, cs, _) => cs
    | _ => []
  | _ => []

def IsArr (d : Doc) (p : Ts) : Prop := (d.findArr p).isSome

/-- applicability of a remote array operation: the array exists; the value(s) can be created and the new
    identifiers are neither in the table nor among the order identifiers of the array; the anchor / the
    target is a slot of the array (causality: it was inserted before) -/
def EOK (d : Doc) : EOp → Prop
  | .ins p a ts vs => IsArr d p ∧ (∃ ns cs t', createMany p ts vs = .ok (ns, cs, t')) ∧
      Fresh d (nodesE (.ins p a ts vs)) ∧ (∀ c ∈ newSlots (.ins p a ts vs), c ∉ slotIds d p) ∧
      (a = Ts.oldest ∨ a ∈ slotIds d p)
  | .del1 p tg _ => IsArr d p ∧ tg ∈ slotIds d p
  | .upd1 p tg t v => IsArr d p ∧ (∃ ns c t', createNode p t v = .ok (ns, c, t')) ∧
      Fresh d (nodesE (.upd1 p tg t v)) ∧ tg ∈ slotIds d p

theorem EOK.isArr {d : Doc} : ∀ {e : EOp}, EOK d e → IsArr d e.p
  | .ins _ _ _ _, h => h.1
  | .del1 _ _ _, h => h.1
  | .upd1 _ _ _ _, h => h.1

theorem EOK.fresh {d : Doc} : ∀ {e : EOp}, EOK d e → Fresh d (nodesE e)
  | .ins _ _ _ _, h => h.2.2.1
  | .del1 _ _ _, _ => by intro c hc; simp [nodesE, ids] at hc
  | .upd1 _ _ _ _, h => h.2.2.1

theorem isArr_iff {d : Doc} {p : Ts} : IsArr d p ↔ ∃ pn sl sz, d.findArr p = some (pn, sl, sz) := by
  unfold IsArr
  constructor
  · intro h
    obtain ⟨⟨pn, sl, sz⟩, hx⟩ := Option.isSome_iff_exists.mp h
    exact ⟨pn, sl, sz, hx⟩
  · rintro ⟨pn, sl, sz, h⟩; rw [h]; rfl

/-- the effect of an applicable operation, as decided in the document `d` -/
def effE (d : Doc) : EOp → Eff
  | .ins p a ts vs => ⟨nodesE (.ins p a ts vs), p, mapArr (insK a (newSlots (.ins p a ts vs))), p, id⟩
  | .del1 p tg t =>
    match (slotsOf d p).find? (fun s => s.1 = tg) with
    | none => ⟨[], p, id, p, id⟩
    | some s =>
      if !d.isTomb s.2 then ⟨[], p, mapArr (szK 1), s.2, setD t⟩
      else if (d.timeOf s.2).cmp t == .lt then ⟨[], p, id, s.2, setD t⟩
      else ⟨[], p, id, p, id⟩
  | .upd1 p tg t v =>
    match (slotsOf d p).find? (fun s => s.1 = tg) with
    | none => ⟨nodesE (.upd1 p tg t v), p, id, p, id⟩
    | some s =>
      if !d.isTomb s.2 && (d.timeOf s.2).cmp t == .lt then
        ⟨nodesE (.upd1 p tg t v), p, mapArr (setK tg t), s.2, fun1 t⟩
      else ⟨nodesE (.upd1 p tg t v), p, id, t, fun1 s.2⟩

theorem comm_mapArr_setD (k : List (Ts × Ts) → Int → List (Ts × Ts) × Int) (t : Ts) :
    Comm (mapArr k) (setD t) := by
  intro o
  cases o with
  | none => rfl
  | some n =>
    obtain ⟨nc, nd, np, nk⟩ := n
    cases nk <;> rfl

theorem comm_mapArr_fun1 (k : List (Ts × Ts) → Int → List (Ts × Ts) × Int) (t : Ts) :
    Comm (mapArr k) (fun1 t) := by
  intro o
  cases o with
  | none => rfl
  | some n =>
    obtain ⟨nc, nd, np, nk⟩ := n
    cases nk <;> rfl

theorem slot_child_in_table {d : Doc} (hwf : d.WF) {p : Ts} {pn : DNode} {sl : List (Ts × Ts)} {sz : Int}
    (hp : d.findArr p = some (pn, sl, sz)) {s : Ts × Ts} (hs : s ∈ sl) :
    ∃ nc, d.find s.2 = some nc ∧ nc.parent = some p := by
  obtain ⟨h1, h2⟩ := findArr_some_iff.mp hp
  have := hwf.child p pn h1 s.2
  rw [h2] at this
  exact this (List.mem_map.mpr ⟨s, hs, rfl⟩)

/-- the table after an applicable operation is the effect decided in `d`, applied to the table of `d` -/
theorem find_applyE {d : Doc} (hwf : d.WF) : ∀ (e : EOp), EOK d e → (applyE d e).find = (effE d e).run d.find
  | .ins p a ts vs, h => by
    obtain ⟨harr, ⟨ns, cs, t', hc⟩, hf, _, _⟩ := h
    obtain ⟨pn, sl, sz, hp⟩ := isArr_iff.mp harr
    have hn : nodesE (.ins p a ts vs) = ns := by simp [nodesE, hc]
    have hcs : newSlots (.ins p a ts vs) = cs := by simp [newSlots, hc]
    rw [hn] at hf
    obtain ⟨hp1, _⟩ := findArr_some_iff.mp hp
    simp only [applyE, EOp.toA, effE, Eff.run, hn, hcs, upd_id]
    exact ins_find hp hc (fresh_not_mem hf hp1)
  | .del1 p tg t, h => by
    obtain ⟨harr, _⟩ := h
    obtain ⟨pn, sl, sz, hp⟩ := isArr_iff.mp harr
    simp only [applyE, EOp.toA, effE, Eff.run, slotsOf_of_findArr hp]
    rw [del1_find hp]
    unfold del1F
    cases hs : sl.find? (fun s => s.1 = tg) with
    | none => simp only [upd_id, U_nil]
    | some s =>
      simp only
      by_cases h1 : d.isTomb s.2 = true
      · simp only [h1, Bool.not_true, Bool.false_eq_true, if_false]
        by_cases h2 : ((d.timeOf s.2).cmp t == Ordering.lt) = true
        · simp only [h2, if_true, upd_id, U_nil]
        · simp only [h2, Bool.false_eq_true, if_false, upd_id, U_nil]
      · have h1' : d.isTomb s.2 = false := by simpa using h1
        simp only [h1', Bool.not_false, if_true, U_nil]
        exact upd_comm (Or.inr (comm_mapArr_setD _ _)) _
  | .upd1 p tg t v, h => by
    obtain ⟨harr, ⟨ns, c, t', hc⟩, hf, _⟩ := h
    obtain ⟨pn, sl, sz, hp⟩ := isArr_iff.mp harr
    have hroot := createNode_root hc
    subst hroot
    have hn : nodesE (.upd1 p tg c v) = ns := by simp [nodesE, hc]
    rw [hn] at hf
    have hch : ∀ s ∈ sl, s.2 ∉ ids ns := by
      intro s hs
      obtain ⟨nc, h1, _⟩ := slot_child_in_table hwf hp hs
      exact fresh_not_mem hf h1
    simp only [applyE, EOp.toA, effE, Eff.run, slotsOf_of_findArr hp, hn]
    rw [upd1_find hp hc hf hch]
    unfold upd1F
    cases hs : sl.find? (fun s => s.1 = tg) with
    | none => simp only [upd_id]
    | some s =>
      simp only
      by_cases hw : (!d.isTomb s.2 && (d.timeOf s.2).cmp c == Ordering.lt) = true
      · simp only [hw, if_true]
      · simp only [hw, Bool.false_eq_true, if_false, upd_id]

/-! ### well-formedness is preserved -/

theorem wf_setSize {d : Doc} (hwf : d.WF) {p : Ts} {pn : DNode} {sl : List (Ts × Ts)} {sz : Int}
    (hp : d.findArr p = some (pn, sl, sz)) (s' : Int) : (d.set { pn with kind := .arr sl s' }).WF := by
  obtain ⟨h1, h2⟩ := findArr_some_iff.mp hp
  apply wf_setKind hwf h1
  · intro c hc
    have := hwf.child p pn h1 c; rw [h2] at this; exact this hc
  · have := hwf.inj p pn h1; rw [h2] at this; exact this

theorem createMany_block {p ts t' : Ts} {vs : List JVal} {ns : List DNode} {cs : List Ts}
    (hc : createMany p ts vs = .ok (ns, cs, t')) :
    Block ts ns t' ∧ cs.Nodup ∧ ∀ c ∈ cs, ∃ nc ∈ ns, nc.c = c ∧ nc.parent = some p := by
  obtain ⟨hb, hnd, hcs⟩ := createArrItems_spec p ts vs ns cs t' hc
  refine ⟨hb, hnd, ?_⟩
  intro c hc
  obtain ⟨nc, h1, h2, h3, _⟩ := hcs c hc
  exact ⟨nc, h1, h2, h3⟩

/-- nothing references the root of a freshly created value -/
theorem root_unlinked {d : Doc} (hwf : d.WF) {p t t' c : Ts} {v : JVal} {ns : List DNode}
    (hc : createNode p t v = .ok (ns, c, t')) (hf : Fresh d ns) :
    ∀ q n, (d.addAll ns).find q = some n → c ∉ kids n.kind := by
  obtain ⟨hb, hroot, n0, rest, hns, hn0c, _⟩ := createNode_spec p t v _ hc
  simp only at hb hroot hns
  subst hroot
  intro q n hq hmem
  rcases find_addAll_cases hq with ⟨hn, _⟩ | ⟨_, hd⟩
  · obtain ⟨nc, _, h1, _, h3⟩ := hb.links n hn c hmem
    obtain ⟨i, _, hi⟩ := block_mem_id hb hn
    rw [hi] at h3
    simp only [addDelim] at h3
    omega
  · obtain ⟨nc, h1, _⟩ := hwf.child q n hd c hmem
    have : c ∈ ids ns := by rw [hns]; simp [ids, hn0c]
    rw [hf c this] at h1; cases h1

theorem root_find {d : Doc} {p t t' c : Ts} {v : JVal} {ns : List DNode}
    (hc : createNode p t v = .ok (ns, c, t')) :
    ∃ n0, (d.addAll ns).find c = some n0 ∧ n0.parent = some p ∧ n0 ∈ ns ∧ n0.d = none := by
  obtain ⟨hb, hroot, n0, rest, hns, hn0c, hn0p⟩ := createNode_spec p t v _ hc
  simp only at hb hroot hns
  subst hroot
  have hmem : n0 ∈ ns := by rw [hns]; simp
  have := find_addAll_new (d := d) (block_ids_nodup hb) hmem
  rw [hn0c] at this
  exact ⟨n0, this, hn0p, hmem, hb.live n0 hmem⟩

theorem mem_setSlotChild {o c : Ts} : ∀ {sl : List (Ts × Ts)} {x : Ts × Ts}, x ∈ setSlotChild o c sl →
    x = (o, c) ∨ x ∈ sl
  | [], _, h => by simp [setSlotChild] at h
  | s :: ss, x, h => by
      unfold setSlotChild at h
      split at h
      · rcases List.mem_cons.mp h with h | h
        · exact Or.inl h
        · exact Or.inr (List.mem_cons_of_mem _ h)
      · rcases List.mem_cons.mp h with h | h
        · exact Or.inr (by rw [h]; simp)
        · rcases mem_setSlotChild h with h | h
          · exact Or.inl h
          · exact Or.inr (List.mem_cons_of_mem _ h)

/-- replacing the child of the first slot `o` (whose child is `old`) by a new child -/
theorem setSlotChild_kids {o c : Ts} : ∀ {sl : List (Ts × Ts)} {s : Ts × Ts},
    sl.find? (fun x => x.1 = o) = some s → (sl.map (·.2)).Nodup → c ∉ sl.map (·.2) →
    ((setSlotChild o c sl).map (·.2)).Nodup ∧ s.2 ∉ (setSlotChild o c sl).map (·.2)
  | [], _, h, _, _ => by simp at h
  | x :: xs, s, h, hnd, hc => by
      simp only [List.map_cons, List.nodup_cons, List.mem_cons, not_or] at hnd hc
      unfold setSlotChild
      by_cases e : x.1 = o
      · simp only [List.find?_cons, e, decide_true, Option.some.injEq] at h
        subst h
        simp only [e, if_true, List.map_cons, List.nodup_cons, List.mem_cons, not_or]
        exact ⟨⟨hc.2, hnd.2⟩, fun e' => hc.1 e'.symm, hnd.1⟩
      · simp only [List.find?_cons, e, decide_false] at h
        obtain ⟨h1, h2⟩ := setSlotChild_kids (c := c) h hnd.2 hc.2
        simp only [e, if_false, List.map_cons, List.nodup_cons, List.mem_cons, not_or]
        refine ⟨⟨?_, h1⟩, ?_, h2⟩
        · intro hm
          obtain ⟨y, hy, hy2⟩ := List.mem_map.mp hm
          rcases mem_setSlotChild hy with rfl | hy'
          · exact hc.1 hy2
          · exact hnd.1 (hy2 ▸ List.mem_map.mpr ⟨y, hy', rfl⟩)
        · intro e'
          have : s ∈ xs := List.mem_of_find?_eq_some h
          exact hnd.1 (e' ▸ List.mem_map.mpr ⟨s, this, rfl⟩)

theorem wf_applyE {d : Doc} (hwf : d.WF) : ∀ (e : EOp), EOK d e → (applyE d e).WF
  | .ins p a ts vs, h => by
    obtain ⟨harr, ⟨ns, cs, t', hc⟩, hf, _, _⟩ := h
    obtain ⟨pn, sl, sz, hp⟩ := isArr_iff.mp harr
    have hn : nodesE (.ins p a ts vs) = ns := by simp [nodesE, hc]
    rw [hn] at hf
    obtain ⟨hp1, hk⟩ := findArr_some_iff.mp hp
    obtain ⟨hb, hcsnd, hcs⟩ := createMany_block hc
    have hwf1 : (d.addAll ns).WF := wf_addAll hwf hb hf
    have hp2 : (d.addAll ns).find p = some pn := find_addAll_old hf hp1
    simp only [applyE, EOp.toA, applyA, Doc.insertRemoteInArray, hp, hc]
    cases hi : insertAfterId (fun (s : Ts × Ts) => s.1) a (cs.map fun c => (c, c)) sl with
    | none => exact hwf1
    | some sl' =>
      simp only
      have hperm := insertAfterId_perm _ a _ sl sl' hi
      have hk2 : (sl'.map (·.2)).Perm (cs ++ sl.map (·.2)) := by
        have := hperm.map (·.2)
        simpa [List.map_map, Function.comp_def] using this
      apply wf_setKind hwf1 hp2
      · intro c hcm
        simp only [kids] at hcm
        rcases List.mem_append.mp (hk2.subset hcm) with h1 | h1
        · obtain ⟨nc, hnc, e1, e2⟩ := hcs c h1
          exact ⟨nc, by rw [← e1]; exact find_addAll_new (block_ids_nodup hb) hnc, e2⟩
        · have := hwf1.child p pn hp2 c; rw [hk] at this; exact this h1
      · simp only [kids]
        rw [hk2.nodup_iff, List.nodup_append]
        refine ⟨hcsnd, ?_, ?_⟩
        · have := hwf.inj p pn hp1; rw [hk] at this; exact this
        · intro x hx y hy e
          subst e
          obtain ⟨nc, hnc, e1, _⟩ := hcs x hx
          have hxi : x ∈ ids ns := e1 ▸ List.mem_map.mpr ⟨nc, hnc, rfl⟩
          have := hwf.child p pn hp1 x; rw [hk] at this
          obtain ⟨nx, h1, _⟩ := this hy
          rw [hf x hxi] at h1; cases h1
  | .del1 p tg t, h => by
    obtain ⟨harr, _⟩ := h
    obtain ⟨pn, sl, sz, hp⟩ := isArr_iff.mp harr
    simp only [applyE, EOp.toA, applyA, Doc.deleteRemoteInArray, hp, Doc.deleteRemoteInArray.go]
    cases hs : sl.find? (fun s => s.1 = tg) with
    | none =>
      simp only [hp]
      exact wf_setSize hwf hp _
    | some s =>
      simp only
      by_cases h1 : d.isTomb s.2 = true
      · simp only [h1, Bool.not_true, Bool.false_eq_true, if_false]
        by_cases h2 : ((d.timeOf s.2).cmp t == Ordering.lt) = true
        · simp only [h2, if_true]
          obtain ⟨pn', h3⟩ := findArr_makeTomb (x := s.2) (t := t) hp
          simp only [h3]
          exact wf_setSize (wf_makeTomb hwf _ _) h3 _
        · simp only [h2, Bool.false_eq_true, if_false, hp]
          exact wf_setSize hwf hp _
      · have h1' : d.isTomb s.2 = false := by simpa using h1
        simp only [h1', Bool.not_false, if_true]
        obtain ⟨pn', h3⟩ := findArr_makeTomb (x := s.2) (t := t) hp
        simp only [h3]
        exact wf_setSize (wf_makeTomb hwf _ _) h3 _
  | .upd1 p tg t v, h => by
    obtain ⟨harr, ⟨ns, c, t', hc⟩, hf, _⟩ := h
    obtain ⟨pn, sl, sz, hp⟩ := isArr_iff.mp harr
    have hn : nodesE (.upd1 p tg t v) = ns := by simp [nodesE, hc]
    rw [hn] at hf
    obtain ⟨hp1, hk⟩ := findArr_some_iff.mp hp
    have hb : Block t ns t' := (createNode_spec p t v _ hc).1
    have hwf1 : (d.addAll ns).WF := wf_addAll hwf hb hf
    have hp2 : (d.addAll ns).find p = some pn := find_addAll_old hf hp1
    have hp3 : (d.addAll ns).findArr p = some (pn, sl, sz) := findArr_some_iff.mpr ⟨hp2, hk⟩
    have hunl := root_unlinked hwf hc hf
    simp only [applyE, EOp.toA, applyA, Doc.updateRemoteInArray, hp, Doc.updateRemoteInArray.go, hc, hp3]
    cases hs : sl.find? (fun s => s.1 = tg) with
    | none => exact hwf1
    | some s =>
      simp only
      by_cases hw : (!(d.addAll ns).isTomb s.2 && ((d.addAll ns).timeOf s.2).cmp c == Ordering.lt) = true
      · -- the new value wins: relink, then bury the old child
        simp only [hw, if_true]
        obtain ⟨n0, hn0, hn0p, _, _⟩ := root_find (d := d) hc
        have hkn : (sl.map (·.2)).Nodup := by
          have := hwf.inj p pn hp1; rw [hk] at this; exact this
        have hcn : c ∉ sl.map (·.2) := by
          have := hunl p pn hp2; rw [hk] at this; exact this
        obtain ⟨k1, k2⟩ := setSlotChild_kids (c := c) hs hkn hcn
        have hwf2 : ((d.addAll ns).set { pn with kind := .arr (setSlotChild tg c sl) sz }).WF := by
          apply wf_setKind hwf1 hp2
          · intro x hx
            simp only [kids] at hx
            obtain ⟨y, hy, rfl⟩ := List.mem_map.mp hx
            rcases mem_setSlotChild hy with rfl | hy'
            · exact ⟨n0, hn0, hn0p⟩
            · have := hwf1.child p pn hp2 y.2; rw [hk] at this
              exact this (List.mem_map.mpr ⟨y, hy', rfl⟩)
          · exact k1
        apply wf_funeral hwf2
        intro q n hq hmem
        rw [find_set] at hq
        have hpc := find_some_c hp1
        by_cases e : pn.c = q
        · simp only [e, if_true, Option.some.injEq] at hq
          subst hq
          exact k2 hmem
        · simp only [e, if_false] at hq
          have hold : s.2 ∈ kids pn.kind := by
            rw [hk]; exact List.mem_map.mpr ⟨s, List.mem_of_find?_eq_some hs, rfl⟩
          have := wf_unique_parent hwf1 hp2 hq hold hmem
          rw [hpc] at e; exact e this
      · simp only [hw, Bool.false_eq_true, if_false]
        exact wf_funeral hwf1 _ _ hunl

/-! ### the shape of an effect -/

/-- the target slot of a delete / update -/
def EOp.tgt : EOp → Option Ts
  | .ins _ _ _ _ => none
  | .del1 _ tg _ => some tg
  | .upd1 _ tg _ _ => some tg

/-- what the effect of an operation looks like: the parent's entry is left alone or its slots/size are
    rewritten; one more entry gets `id`, a funeral or a tombstone stamp — the parent itself (then `id`),
    the child of the target slot, or the root of the new nodes -/
structure EShape (d : Doc) (a : EOp) (e : Eff) : Prop where
  ns : e.ns = nodesE a
  p : e.p = a.p
  s : e.s = id ∨ ∃ k, e.s = mapArr k
  sk : e.s = id ∨ e.s = mapArr (szK 1) ∨ (∃ tg c, a.tgt = some tg ∧ e.s = mapArr (setK tg c)) ∨
      (∃ an, a.tgt = none ∧ e.s = mapArr (insK an (newSlots a)))
  g : e.g = id ∨ (∃ t, e.g = fun1 t) ∨ (∃ t, e.g = setD t)
  x : (e.x = a.p ∧ e.g = id) ∨
      (∃ tg s, a.tgt = some tg ∧ (slotsOf d a.p).find? (fun s => s.1 = tg) = some s ∧ e.x = s.2) ∨
      e.x ∈ ids (nodesE a)

theorem eshape {d : Doc} : ∀ (a : EOp), EOK d a → EShape d a (effE d a)
  | .ins p an ts vs, _ => ⟨rfl, rfl, Or.inr ⟨_, rfl⟩, Or.inr (Or.inr (Or.inr ⟨an, rfl, rfl⟩)), Or.inl rfl, Or.inl ⟨rfl, rfl⟩⟩
  | .del1 p tg t, _ => by
    simp only [effE]
    cases hs : (slotsOf d p).find? (fun s => s.1 = tg) with
    | none => exact ⟨rfl, rfl, Or.inl rfl, Or.inl rfl, Or.inl rfl, Or.inl ⟨rfl, rfl⟩⟩
    | some s =>
      simp only
      by_cases h1 : (!d.isTomb s.2) = true
      · simp only [h1, if_true]
        exact ⟨rfl, rfl, Or.inr ⟨_, rfl⟩, Or.inr (Or.inl rfl), Or.inr (Or.inr ⟨_, rfl⟩),
          Or.inr (Or.inl ⟨tg, s, rfl, hs, rfl⟩)⟩
      · simp only [h1, Bool.false_eq_true, if_false]
        by_cases h2 : ((d.timeOf s.2).cmp t == Ordering.lt) = true
        · simp only [h2, if_true]
          exact ⟨rfl, rfl, Or.inl rfl, Or.inl rfl, Or.inr (Or.inr ⟨_, rfl⟩), Or.inr (Or.inl ⟨tg, s, rfl, hs, rfl⟩)⟩
        · simp only [h2, Bool.false_eq_true, if_false]
          exact ⟨rfl, rfl, Or.inl rfl, Or.inl rfl, Or.inl rfl, Or.inl ⟨rfl, rfl⟩⟩
  | .upd1 p tg t v, h => by
    obtain ⟨_, ⟨ns, c, t', hc⟩, _, _⟩ := h
    have hroot := createNode_root hc
    subst hroot
    have hmem : c ∈ ids (nodesE (.upd1 p tg c v)) := by
      obtain ⟨_, _, n0, rest, hns, hn0c, _⟩ := createNode_spec p c v _ hc
      simp only at hns
      simp [nodesE, hc, hns, ids, hn0c]
    simp only [effE]
    cases hs : (slotsOf d p).find? (fun s => s.1 = tg) with
    | none => exact ⟨rfl, rfl, Or.inl rfl, Or.inl rfl, Or.inl rfl, Or.inl ⟨rfl, rfl⟩⟩
    | some s =>
      simp only
      by_cases h1 : (!d.isTomb s.2 && (d.timeOf s.2).cmp c == Ordering.lt) = true
      · simp only [h1, if_true]
        exact ⟨rfl, rfl, Or.inr ⟨_, rfl⟩, Or.inr (Or.inr (Or.inl ⟨tg, c, rfl, rfl⟩)), Or.inr (Or.inl ⟨_, rfl⟩),
          Or.inr (Or.inl ⟨tg, s, rfl, hs, rfl⟩)⟩
      · simp only [h1, Bool.false_eq_true, if_false]
        exact ⟨rfl, rfl, Or.inl rfl, Or.inl rfl, Or.inr (Or.inl ⟨_, rfl⟩), Or.inr (Or.inr hmem)⟩

theorem EShape.s_none {d : Doc} {a : EOp} {e : Eff} (h : EShape d a e) : e.s none = none := by
  rcases h.s with h | ⟨k, h⟩ <;> rw [h] <;> rfl

theorem EShape.g_none {d : Doc} {a : EOp} {e : Eff} (h : EShape d a e) : e.g none = none := by
  rcases h.g with h | ⟨t, h⟩ | ⟨t, h⟩ <;> rw [h] <;> rfl

theorem arrV_mapArr (k : List (Ts × Ts) → Int → List (Ts × Ts) × Int) (o : Option DNode) :
    (arrV (mapArr k o)).isSome = (arrV o).isSome := by
  cases o with
  | none => rfl
  | some n =>
    obtain ⟨nc, nd, np, nk⟩ := n
    cases nk <;> rfl

theorem EShape.s_isArr {d : Doc} {a : EOp} {e : Eff} (h : EShape d a e) (o : Option DNode) :
    (arrV (e.s o)).isSome = (arrV o).isSome := by
  rcases h.s with h | ⟨k, h⟩ <;> rw [h]
  · rfl
  · exact arrV_mapArr k o

theorem EShape.g_arrV {d : Doc} {a : EOp} {e : Eff} (h : EShape d a e) (o : Option DNode) :
    arrV (e.g o) = arrV o := by
  rcases h.g with h | ⟨t, h⟩ | ⟨t, h⟩ <;> rw [h]
  · rfl
  · exact arrV_fun1 t o
  · exact arrV_setD t o

/-- the tombstone flag / the LWW time read off a table entry -/
def tombO : Option DNode → Bool
  | some n => n.d.isSome
  | none => false
def timeO (c : Ts) : Option DNode → Ts
  | some n => n.d.getD n.c
  | none => c

theorem isTomb_eq_tombO (d : Doc) (c : Ts) : d.isTomb c = tombO (d.find c) := by
  unfold Doc.isTomb tombO; cases d.find c <;> rfl
theorem timeOf_eq_timeO (d : Doc) (c : Ts) : d.timeOf c = timeO c (d.find c) := by
  unfold Doc.timeOf timeO; cases d.find c <;> rfl

theorem tombO_mapArr (k : List (Ts × Ts) → Int → List (Ts × Ts) × Int) (o : Option DNode) :
    tombO (mapArr k o) = tombO o := by
  cases o with
  | none => rfl
  | some n =>
    obtain ⟨nc, nd, np, nk⟩ := n
    cases nk <;> rfl

theorem timeO_mapArr (c : Ts) (k : List (Ts × Ts) → Int → List (Ts × Ts) × Int) (o : Option DNode) :
    timeO c (mapArr k o) = timeO c o := by
  cases o with
  | none => rfl
  | some n =>
    obtain ⟨nc, nd, np, nk⟩ := n
    cases nk <;> rfl

theorem EShape.s_tomb {d : Doc} {a : EOp} {e : Eff} (h : EShape d a e) (c : Ts) (o : Option DNode) :
    tombO (e.s o) = tombO o ∧ timeO c (e.s o) = timeO c o := by
  rcases h.s with h | ⟨k, h⟩ <;> rw [h]
  · exact ⟨rfl, rfl⟩
  · exact ⟨tombO_mapArr k o, timeO_mapArr c k o⟩

/-- the entry of `c` after an effect, when `c` is neither new nor the entry `x` -/
theorem run_other {e : Eff} {F : Ts → Option DNode} {c : Ts} (hn : c ∉ ids e.ns) (hx : c ≠ e.x ∨ e.g = id) :
    e.run F c = if c = e.p then e.s (F c) else F c := by
  unfold Eff.run
  have h1 : upd e.x e.g (upd e.p e.s (U e.ns F)) c = upd e.p e.s (U e.ns F) c := by
    rcases hx with hx | hx
    · exact upd_other _ _ hx
    · rw [hx, upd_id]
  rw [h1]
  by_cases hp : c = e.p
  · subst hp; rw [upd_same, U_old hn, if_pos rfl]
  · rw [upd_other _ _ hp, U_old hn, if_neg hp]

theorem run_none {d : Doc} {a : EOp} {e : Eff} (h : EShape d a e) {F : Ts → Option DNode} {c : Ts}
    (hF : F c = none) (hn : c ∉ ids e.ns) : e.run F c = none := by
  unfold Eff.run
  have h1 : upd e.p e.s (U e.ns F) c = none := by
    by_cases hp : c = e.p
    · subst hp; rw [upd_same, U_old hn, hF, h.s_none]
    · rw [upd_other _ _ hp, U_old hn, hF]
  by_cases hx : c = e.x
  · subst hx; rw [upd_same, h1, h.g_none]
  · rw [upd_other _ _ hx, h1]

/-- the child of the target slot -/
theorem target_slot {d : Doc} {p tg : Ts} (h : tg ∈ slotIds d p) :
    ∃ s, (slotsOf d p).find? (fun s => s.1 = tg) = some s ∧ s ∈ slotsOf d p ∧ s.1 = tg := by
  unfold slotIds at h
  obtain ⟨s0, hs0, hs0t⟩ := List.mem_map.mp h
  cases hf : (slotsOf d p).find? (fun s => s.1 = tg) with
  | none =>
    have := List.find?_eq_none.mp hf s0 hs0
    simp [hs0t] at this
  | some s =>
    exact ⟨s, rfl, List.mem_of_find?_eq_some hf, by simpa using List.find?_some hf⟩

theorem slotsOf_child {d : Doc} (hwf : d.WF) {p : Ts} {s : Ts × Ts} (hs : s ∈ slotsOf d p) :
    ∃ nc, d.find s.2 = some nc ∧ nc.parent = some p := by
  unfold slotsOf at hs
  cases hp : d.findArr p with
  | none => rw [hp] at hs; simp at hs
  | some x =>
    obtain ⟨pn, sl, sz⟩ := x
    rw [hp] at hs
    exact slot_child_in_table hwf hp hs

/-- the entry `x` of an effect is in the table of `d`, or it is a new node -/
theorem EShape.x_cases {d : Doc} (hwf : d.WF) {a : EOp} (ha : EOK d a) {e : Eff} (h : EShape d a e) :
    (∃ n, d.find e.x = some n) ∨ e.x ∈ ids (nodesE a) := by
  rcases h.x with ⟨h1, _⟩ | ⟨tg, s, _, hs, h1⟩ | h1
  · left
    rw [h1]
    obtain ⟨pn, sl, sz, hp⟩ := isArr_iff.mp ha.isArr
    exact ⟨pn, (findArr_some_iff.mp hp).1⟩
  · left
    rw [h1]
    obtain ⟨nc, hnc, _⟩ := slotsOf_child hwf (List.mem_of_find?_eq_some hs)
    exact ⟨nc, hnc⟩
  · exact Or.inr h1

/-! ### the slots after an operation -/

theorem EShape.arrV_run {d : Doc} {a : EOp} {e : Eff} (h : EShape d a e) {F : Ts → Option DNode} {q : Ts}
    (hn : q ∉ ids e.ns) : arrV (e.run F q) = if q = e.p then arrV (e.s (F q)) else arrV (F q) := by
  unfold Eff.run
  have h1 : arrV (upd e.x e.g (upd e.p e.s (U e.ns F)) q) = arrV (upd e.p e.s (U e.ns F) q) := by
    by_cases hx : q = e.x
    · subst hx; rw [upd_same, h.g_arrV]
    · rw [upd_other _ _ hx]
  rw [h1]
  by_cases hp : q = e.p
  · subst hp; rw [upd_same, U_old hn, if_pos rfl]
  · rw [upd_other _ _ hp, U_old hn, if_neg hp]

theorem find?_setSlotChild_ne {o c tg : Ts} (h : tg ≠ o) : ∀ sl : List (Ts × Ts),
    (setSlotChild o c sl).find? (fun s => s.1 = tg) = sl.find? (fun s => s.1 = tg)
  | [] => rfl
  | x :: xs => by
      unfold setSlotChild
      by_cases e : x.1 = o
      · have h1 : ¬ x.1 = tg := fun e' => h (e'.symm.trans e)
        have h2 : ¬ o = tg := fun e' => h e'.symm
        simp only [e, if_true, List.find?_cons, h2, decide_false]
      · simp only [e, if_false, List.find?_cons, find?_setSlotChild_ne h xs]

theorem find?_setSlotChild_same {o c : Ts} : ∀ {sl : List (Ts × Ts)} {s : Ts × Ts},
    sl.find? (fun s => s.1 = o) = some s → (setSlotChild o c sl).find? (fun s => s.1 = o) = some (o, c)
  | [], _, h => by simp at h
  | x :: xs, s, h => by
      unfold setSlotChild
      by_cases e : x.1 = o
      · simp [e, List.find?_cons]
      · simp only [List.find?_cons, e, decide_false] at h
        simp only [e, if_false, List.find?_cons, decide_false]
        exact find?_setSlotChild_same h

section findloop
variable {β : Type} (oOf : β → Ts) (P : β → Bool)

theorem find?_skipIns1 (n : β) (hn : P n = false) (rest : List β → List β)
    (hrest : ∀ l, (rest l).find? P = l.find? P) : ∀ l, (skipIns1 oOf n rest l).find? P = l.find? P
  | [] => by simp [skipIns1, List.find?_cons, hn, hrest]
  | x :: xs => by
      unfold skipIns1
      split
      · simp only [List.find?_cons, find?_skipIns1 n hn rest hrest xs]
      · simp only [List.find?_cons, hn, hrest]

theorem find?_skipInsMany : ∀ (ns : List β), (∀ n ∈ ns, P n = false) → ∀ l,
    (skipInsMany oOf ns l).find? P = l.find? P
  | [], _, _ => rfl
  | n :: ns, h, l => by
      unfold skipInsMany
      exact find?_skipIns1 oOf P n (h n (by simp)) _
        (find?_skipInsMany ns (fun m hm => h m (by simp [hm]))) l

theorem find?_insertAfterId_go (anchor : Ts) (ns : List β) (hns : ∀ n ∈ ns, P n = false) :
    ∀ (l l' : List β), insertAfterId.go oOf anchor ns l = some l' → l'.find? P = l.find? P
  | [], _, h => by simp [insertAfterId.go] at h
  | x :: xs, l', h => by
      unfold insertAfterId.go at h
      split at h
      · simp only [Option.some.injEq] at h
        rw [← h]
        simp only [List.find?_cons, find?_skipInsMany oOf P ns hns]
      · cases hg : insertAfterId.go oOf anchor ns xs with
        | none => rw [hg] at h; simp at h
        | some l'' =>
          rw [hg] at h
          simp only [Option.map_some, Option.some.injEq] at h
          rw [← h]
          simp only [List.find?_cons, find?_insertAfterId_go anchor ns hns xs l'' hg]

theorem find?_insertAfterId (anchor : Ts) (ns : List β) (hns : ∀ n ∈ ns, P n = false) (l : List β) :
    ((insertAfterId oOf anchor ns l).getD l).find? P = l.find? P := by
  cases h : insertAfterId oOf anchor ns l with
  | none => rfl
  | some l' =>
    simp only [Option.getD_some]
    unfold insertAfterId at h
    split at h
    · simp only [Option.some.injEq] at h
      rw [← h, find?_skipInsMany oOf P ns hns]
    · exact find?_insertAfterId_go oOf P anchor ns hns l l' h

end findloop

/-- what an operation does to the slots of its array -/
def slotK (d : Doc) : EOp → List (Ts × Ts) → List (Ts × Ts)
  | .ins p a ts vs, sl =>
    (insertAfterId (fun (x : Ts × Ts) => x.1) a ((newSlots (.ins p a ts vs)).map fun c => (c, c)) sl).getD sl
  | .del1 _ _ _, sl => sl
  | .upd1 _ tg t _, sl =>
    match sl.find? (fun s => s.1 = tg) with
    | none => sl
    | some s => if !d.isTomb s.2 && (d.timeOf s.2).cmp t == .lt then setSlotChild tg t sl else sl

theorem arrV_mapArr_eq (k : List (Ts × Ts) → Int → List (Ts × Ts) × Int) {n : DNode} {sl : List (Ts × Ts)}
    {sz : Int} (hk : n.kind = .arr sl sz) : arrV (mapArr k (some n)) = some (k sl sz).1 := by
  simp only [mapArr, Option.map_some, hk, arrV]

theorem slotsOf_applyE {d : Doc} (hwf : d.WF) {a : EOp} (ha : EOK d a) {q : Ts} (hq : (d.find q).isSome) :
    slotsOf (applyE d a) q = if q = a.p then slotK d a (slotsOf d q) else slotsOf d q := by
  have hsh := eshape a ha
  obtain ⟨nq, hnq⟩ := Option.isSome_iff_exists.mp hq
  have hqn : q ∉ ids (effE d a).ns := by rw [hsh.ns]; exact fresh_not_mem ha.fresh hnq
  rw [slotsOf_eq_arrV, slotsOf_eq_arrV, find_applyE hwf a ha, hsh.arrV_run hqn, hsh.p]
  by_cases e : q = a.p
  · rw [if_pos e, if_pos e]
    subst e
    obtain ⟨pn, sl, sz, hp⟩ := isArr_iff.mp ha.isArr
    obtain ⟨hp1, hk⟩ := findArr_some_iff.mp hp
    have hsl : arrV (d.find a.p) = some sl := arrV_of_findArr hp
    rw [hsl, hp1]
    cases a with
    | ins p an ts vs =>
      simp only [effE, slotK, arrV_mapArr_eq _ hk, insK, Option.getD_some]
      cases insertAfterId (fun (x : Ts × Ts) => x.1) an
        ((newSlots (.ins p an ts vs)).map fun c => (c, c)) sl <;> rfl
    | del1 p tg t =>
      simp only [effE, slotK, EOp.p] at hp hp1 ⊢
      cases hs : (slotsOf d p).find? (fun s => s.1 = tg) with
      | none => simp only [id, arrV, hk, Option.getD_some]
      | some s =>
        simp only
        split
        · simp only [arrV_mapArr_eq _ hk, szK, Option.getD_some]
        · split <;> simp only [id, arrV, hk, Option.getD_some]
    | upd1 p tg t v =>
      simp only [effE, slotK, EOp.p] at hp hp1 ⊢
      rw [slotsOf_of_findArr hp]
      cases hs : sl.find? (fun s => s.1 = tg) with
      | none => simp only [id, arrV, hk, Option.getD_some]; rw [hs]
      | some s =>
        simp only
        by_cases hw : (!d.isTomb s.2 && (d.timeOf s.2).cmp t == Ordering.lt) = true
        · simp only [hw, if_true, arrV_mapArr_eq _ hk, setK, Option.getD_some]; rw [hs]; simp only [hw, if_true]
        · simp only [hw, Bool.false_eq_true, if_false, id, arrV, hk, Option.getD_some]; rw [hs]
          simp only [hw, Bool.false_eq_true, if_false]
  · rw [if_neg e, if_neg e]

/-- the target slot of another delete / update is still found, with the same child, unless the operation
    is an update of that very slot -/
theorem slotFind_applyE {d : Doc} (hwf : d.WF) {a : EOp} (ha : EOK d a) {q tg : Ts} (hq : (d.find q).isSome)
    (htg : tg ∈ slotIds d q) (hind : ¬ (a.p = q ∧ a.tgt = some tg)) :
    (slotsOf (applyE d a) q).find? (fun s => s.1 = tg) = (slotsOf d q).find? (fun s => s.1 = tg) := by
  rw [slotsOf_applyE hwf ha hq]
  by_cases e : q = a.p
  · rw [if_pos e]
    subst e
    cases a with
    | ins p an ts vs =>
      simp only [slotK]
      apply find?_insertAfterId
      intro n hn
      obtain ⟨c, hc, rfl⟩ := List.mem_map.mp hn
      simp only [decide_eq_false_iff_not]
      intro e'
      exact ha.2.2.2.1 c hc (e' ▸ htg)
    | del1 p tg' t => rfl
    | upd1 p tg' t v =>
      simp only [slotK]
      have hne : tg ≠ tg' := fun e' => hind ⟨rfl, by simp [EOp.tgt, e']⟩
      split
      · rfl
      · split
        · exact find?_setSlotChild_ne hne _
        · rfl
  · rw [if_neg e]

/-! ### applicability is preserved by other operations -/

/-- the new identifiers of two operations do not clash -/
def Disj (a b : EOp) : Prop := ∀ c, c ∈ ids (nodesE a) → c ∈ ids (nodesE b) → False

theorem Disj.symm {a b : EOp} (h : Disj a b) : Disj b a := fun c hb ha => h c ha hb

theorem newSlots_sub {e : EOp} {c : Ts} (h : c ∈ newSlots e) : c ∈ ids (nodesE e) := by
  cases e with
  | ins p a ts vs =>
    simp only [newSlots, nodesE] at h ⊢
    cases hc : createMany p ts vs with
    | ok y =>
      obtain ⟨ns, cs, t'⟩ := y
      rw [hc] at h
      simp only at h ⊢
      obtain ⟨_, _, hcs⟩ := createMany_block hc
      obtain ⟨nc, hnc, e1, _⟩ := hcs c h
      exact e1 ▸ List.mem_map.mpr ⟨nc, hnc, rfl⟩
    | err c' => rw [hc] at h; simp at h
    | panic w => rw [hc] at h; simp at h
  | del1 p tg t => simp [newSlots] at h
  | upd1 p tg t v => simp [newSlots] at h

theorem slotK_ids_sub {d : Doc} (a : EOp) (sl : List (Ts × Ts)) {x : Ts}
    (h : x ∈ (slotK d a sl).map (·.1)) : x ∈ sl.map (·.1) ∨ x ∈ newSlots a := by
  cases a with
  | ins p an ts vs =>
    simp only [slotK] at h
    cases hi : insertAfterId (fun (x : Ts × Ts) => x.1) an ((newSlots (.ins p an ts vs)).map fun c => (c, c)) sl with
    | none => rw [hi] at h; exact Or.inl h
    | some sl' =>
      rw [hi] at h
      simp only [Option.getD_some] at h
      obtain ⟨y, hy, rfl⟩ := List.mem_map.mp h
      have := (insertAfterId_perm _ an _ sl sl' hi).subset hy
      rcases List.mem_append.mp this with h1 | h1
      · obtain ⟨c, hc, rfl⟩ := List.mem_map.mp h1
        exact Or.inr hc
      · exact Or.inl (List.mem_map.mpr ⟨y, h1, rfl⟩)
  | del1 p tg t => exact Or.inl h
  | upd1 p tg t v =>
    simp only [slotK] at h
    split at h
    · exact Or.inl h
    · split at h
      · rw [setSlotChild_ids] at h; exact Or.inl h
      · exact Or.inl h

theorem slotK_ids_sup {d : Doc} (a : EOp) (sl : List (Ts × Ts)) {x : Ts}
    (h : x ∈ sl.map (·.1)) : x ∈ (slotK d a sl).map (·.1) := by
  cases a with
  | ins p an ts vs =>
    simp only [slotK]
    cases hi : insertAfterId (fun (x : Ts × Ts) => x.1) an ((newSlots (.ins p an ts vs)).map fun c => (c, c)) sl with
    | none => exact h
    | some sl' =>
      simp only [Option.getD_some]
      obtain ⟨y, hy, rfl⟩ := List.mem_map.mp h
      exact List.mem_map.mpr ⟨y, (insertAfterId_sublist _ an _ sl sl' hi).subset hy, rfl⟩
  | del1 p tg t => exact h
  | upd1 p tg t v =>
    simp only [slotK]
    split
    · exact h
    · split
      · rw [setSlotChild_ids]; exact h
      · exact h

theorem slotIds_applyE_sub {d : Doc} (hwf : d.WF) {a : EOp} (ha : EOK d a) {q : Ts} (hq : (d.find q).isSome)
    {x : Ts} (h : x ∈ slotIds (applyE d a) q) : x ∈ slotIds d q ∨ (q = a.p ∧ x ∈ newSlots a) := by
  unfold slotIds at h ⊢
  rw [slotsOf_applyE hwf ha hq] at h
  by_cases e : q = a.p
  · rw [if_pos e] at h
    rcases slotK_ids_sub a _ h with h1 | h1
    · exact Or.inl h1
    · exact Or.inr ⟨e, h1⟩
  · rw [if_neg e] at h; exact Or.inl h

theorem slotIds_applyE_sup {d : Doc} (hwf : d.WF) {a : EOp} (ha : EOK d a) {q : Ts} (hq : (d.find q).isSome)
    {x : Ts} (h : x ∈ slotIds d q) : x ∈ slotIds (applyE d a) q := by
  unfold slotIds at h ⊢
  rw [slotsOf_applyE hwf ha hq]
  by_cases e : q = a.p
  · rw [if_pos e]; exact slotK_ids_sup a _ h
  · rw [if_neg e]; exact h

theorem isArr_find {d : Doc} {p : Ts} (h : IsArr d p) : (d.find p).isSome := by
  obtain ⟨pn, sl, sz, hp⟩ := isArr_iff.mp h
  rw [(findArr_some_iff.mp hp).1]; rfl

theorem isArr_applyE {d : Doc} (hwf : d.WF) {a : EOp} (ha : EOK d a) {q : Ts} (hq : IsArr d q) :
    IsArr (applyE d a) q := by
  have hsh := eshape a ha
  obtain ⟨nq, hnq⟩ := Option.isSome_iff_exists.mp (isArr_find hq)
  have hqn : q ∉ ids (effE d a).ns := by rw [hsh.ns]; exact fresh_not_mem ha.fresh hnq
  unfold IsArr at hq ⊢
  rw [findArr_isSome_iff] at hq ⊢
  unfold idsOf at hq ⊢
  rw [Option.isSome_map] at hq ⊢
  rw [find_applyE hwf a ha, hsh.arrV_run hqn]
  by_cases e : q = (effE d a).p
  · rw [if_pos e, hsh.s_isArr]; exact hq
  · rw [if_neg e]; exact hq

theorem fresh_applyE {d : Doc} (hwf : d.WF) {a : EOp} (ha : EOK d a) {ns : List DNode} (hf : Fresh d ns)
    (hd : ∀ c, c ∈ ids (nodesE a) → c ∈ ids ns → False) : Fresh (applyE d a) ns := by
  have hsh := eshape a ha
  intro c hc
  rw [find_applyE hwf a ha]
  apply run_none hsh (hf c hc)
  rw [hsh.ns]
  exact fun h => hd c h hc

theorem eok_after {d : Doc} (hwf : d.WF) {a b : EOp} (ha : EOK d a) (hb : EOK d b) (hd : Disj a b) :
    EOK (applyE d a) b := by
  cases b with
  | ins p an ts vs =>
    obtain ⟨h1, h2, h3, h4, h5⟩ := hb
    have hpf := isArr_find h1
    refine ⟨isArr_applyE hwf ha h1, h2, fresh_applyE hwf ha h3 hd, ?_, ?_⟩
    · intro c hc hm
      rcases slotIds_applyE_sub hwf ha hpf hm with h | ⟨_, h⟩
      · exact h4 c hc h
      · exact hd c (newSlots_sub h) (newSlots_sub hc)
    · rcases h5 with h5 | h5
      · exact Or.inl h5
      · exact Or.inr (slotIds_applyE_sup hwf ha hpf h5)
  | del1 p tg t =>
    obtain ⟨h1, h2⟩ := hb
    exact ⟨isArr_applyE hwf ha h1, slotIds_applyE_sup hwf ha (isArr_find h1) h2⟩
  | upd1 p tg t v =>
    obtain ⟨h1, h2, h3, h4⟩ := hb
    exact ⟨isArr_applyE hwf ha h1, h2, fresh_applyE hwf ha h3 hd, slotIds_applyE_sup hwf ha (isArr_find h1) h4⟩

/-! ### the slot rewrites commute -/

theorem comm_mapArr {k1 k2 : List (Ts × Ts) → Int → List (Ts × Ts) × Int}
    (h : ∀ sl s, k1 (k2 sl s).1 (k2 sl s).2 = k2 (k1 sl s).1 (k1 sl s).2) : Comm (mapArr k1) (mapArr k2) := by
  intro o
  cases o with
  | none => rfl
  | some n =>
    obtain ⟨nc, nd, np, nk⟩ := n
    cases nk with
    | elem v => rfl
    | obj m s => rfl
    | arr sl s =>
      simp only [mapArr, Option.map_some, Option.some.injEq, DNode.mk.injEq, true_and, DKind.arr.injEq]
      have := h sl s
      exact ⟨congrArg Prod.fst this, congrArg Prod.snd this⟩

theorem setSlotChild_comm {o1 o2 c1 c2 : Ts} (h : o1 ≠ o2) : ∀ sl : List (Ts × Ts),
    setSlotChild o1 c1 (setSlotChild o2 c2 sl) = setSlotChild o2 c2 (setSlotChild o1 c1 sl)
  | [] => rfl
  | x :: xs => by
      by_cases e1 : x.1 = o1
      · have e2 : ¬ x.1 = o2 := fun e => h (e1.symm.trans e)
        have e3 : ¬ o1 = o2 := h
        simp [setSlotChild, e1, e3]
      · by_cases e2 : x.1 = o2
        · have e3 : ¬ o2 = o1 := fun e => h e.symm
          simp [setSlotChild, e2, e3]
        · simp [setSlotChild, e1, e2, setSlotChild_comm h xs]

section setloop
variable (o c : Ts)

theorem setSlotChild_skipIns1 (n : Ts × Ts) (hn : n.1 ≠ o) (rest : List (Ts × Ts) → List (Ts × Ts))
    (hrest : ∀ l, setSlotChild o c (rest l) = rest (setSlotChild o c l)) :
    ∀ l, setSlotChild o c (skipIns1 (fun (x : Ts × Ts) => x.1) n rest l) =
      skipIns1 (fun (x : Ts × Ts) => x.1) n rest (setSlotChild o c l)
  | [] => by
      have := hrest []
      simp only [setSlotChild] at this
      simp [skipIns1, setSlotChild, hn, this]
  | x :: xs => by
      have ih := setSlotChild_skipIns1 n hn rest hrest xs
      by_cases e : x.1 = o
      · by_cases hg : (x.1.cmp n.1 == Ordering.gt) = true
        · have hg' : (o.cmp n.1 == Ordering.gt) = true := by rw [← e]; exact hg
          simp [skipIns1, setSlotChild, e, hg']
        · have hg' : ¬ (o.cmp n.1 == Ordering.gt) = true := by rw [← e]; exact hg
          have := hrest (x :: xs)
          simp only [setSlotChild, e, if_true] at this
          simp [skipIns1, setSlotChild, e, hg', hn, this]
      · by_cases hg : (x.1.cmp n.1 == Ordering.gt) = true
        · simp [skipIns1, setSlotChild, e, hg, ih]
        · have := hrest (x :: xs)
          simp only [setSlotChild, e, if_false] at this
          simp [skipIns1, setSlotChild, e, hg, hn, this]

theorem setSlotChild_skipInsMany : ∀ (ns : List (Ts × Ts)), (∀ n ∈ ns, n.1 ≠ o) → ∀ l,
    setSlotChild o c (skipInsMany (fun (x : Ts × Ts) => x.1) ns l) =
      skipInsMany (fun (x : Ts × Ts) => x.1) ns (setSlotChild o c l)
  | [], _, _ => rfl
  | n :: ns, h, l => by
      unfold skipInsMany
      exact setSlotChild_skipIns1 o c n (h n (by simp)) _
        (setSlotChild_skipInsMany ns (fun m hm => h m (by simp [hm]))) l

theorem setSlotChild_go (anchor : Ts) (ns : List (Ts × Ts)) (hns : ∀ n ∈ ns, n.1 ≠ o) :
    ∀ l, (insertAfterId.go (fun (x : Ts × Ts) => x.1) anchor ns l).map (setSlotChild o c) =
      insertAfterId.go (fun (x : Ts × Ts) => x.1) anchor ns (setSlotChild o c l)
  | [] => rfl
  | x :: xs => by
      have ih := setSlotChild_go anchor ns hns xs
      by_cases e : x.1 = o
      · have e1 : setSlotChild o c (x :: xs) = (o, c) :: xs := by simp [setSlotChild, e]
        rw [e1]
        by_cases ea : x.1 = anchor
        · have ea' : o = anchor := e ▸ ea
          subst ea'
          have l1 : insertAfterId.go (fun (x : Ts × Ts) => x.1) o ns (x :: xs) =
              some (x :: skipInsMany (fun (x : Ts × Ts) => x.1) ns xs) := by simp [insertAfterId.go, e]
          have l2 : insertAfterId.go (fun (x : Ts × Ts) => x.1) o ns ((o, c) :: xs) =
              some ((o, c) :: skipInsMany (fun (x : Ts × Ts) => x.1) ns xs) := by simp [insertAfterId.go]
          rw [l1, l2]
          simp [setSlotChild, e]
        · have ea' : ¬ o = anchor := fun h => ea (e.trans h)
          simp only [insertAfterId.go, ea, ea', if_false]
          cases insertAfterId.go (fun (x : Ts × Ts) => x.1) anchor ns xs with
          | none => rfl
          | some l'' => simp [setSlotChild, e]
      · have e1 : setSlotChild o c (x :: xs) = x :: setSlotChild o c xs := by simp [setSlotChild, e]
        rw [e1]
        by_cases ea : x.1 = anchor
        · simp only [insertAfterId.go, ea, if_true, Option.map_some, Option.some.injEq]
          rw [← setSlotChild_skipInsMany o c ns hns]
          simp [setSlotChild, e]
        · simp only [insertAfterId.go, ea, if_false]
          rw [← ih]
          cases insertAfterId.go (fun (x : Ts × Ts) => x.1) anchor ns xs with
          | none => rfl
          | some l'' => simp [setSlotChild, e]

theorem setSlotChild_insertAfterId (anchor : Ts) (ns : List (Ts × Ts)) (hns : ∀ n ∈ ns, n.1 ≠ o) (l : List (Ts × Ts)) :
    (insertAfterId (fun (x : Ts × Ts) => x.1) anchor ns l).map (setSlotChild o c) =
      insertAfterId (fun (x : Ts × Ts) => x.1) anchor ns (setSlotChild o c l) := by
  unfold insertAfterId
  split
  · simp [setSlotChild_skipInsMany o c ns hns]
  · exact setSlotChild_go o c anchor ns hns l

end setloop

theorem comm_setK_insK {tg c an : Ts} {cs : List Ts} (h : tg ∉ cs) :
    Comm (mapArr (setK tg c)) (mapArr (insK an cs)) := by
  apply comm_mapArr
  intro sl s
  have hns : ∀ n ∈ cs.map (fun c => (c, c)), n.1 ≠ tg := by
    intro n hn
    obtain ⟨x, hx, rfl⟩ := List.mem_map.mp hn
    exact fun e => h (e ▸ hx)
  have := setSlotChild_insertAfterId tg c an (cs.map fun c => (c, c)) hns sl
  simp only [setK, insK]
  rw [← this]
  cases insertAfterId (fun (x : Ts × Ts) => x.1) an (cs.map fun c => (c, c)) sl <;> rfl

theorem comm_szK_insK (k : Int) (an : Ts) (cs : List Ts) : Comm (mapArr (szK k)) (mapArr (insK an cs)) := by
  apply comm_mapArr
  intro sl s
  simp only [szK, insK]
  cases insertAfterId (fun (x : Ts × Ts) => x.1) an (cs.map fun c => (c, c)) sl with
  | none => rfl
  | some sl' => simp only [Prod.mk.injEq, true_and]; omega

theorem comm_szK_setK (k : Int) (tg c : Ts) : Comm (mapArr (szK k)) (mapArr (setK tg c)) := by
  apply comm_mapArr; intro sl s; rfl

theorem comm_setK_setK {tg1 tg2 c1 c2 : Ts} (h : tg1 ≠ tg2) : Comm (mapArr (setK tg1 c1)) (mapArr (setK tg2 c2)) := by
  apply comm_mapArr
  intro sl s
  simp only [setK, setSlotChild_comm h]

theorem comm_refl (g : Option DNode → Option DNode) : Comm g g := fun _ => rfl

/-! ## 3a. independent operations commute up to `DocEq` -/

/-- two operations are independent unless they address the same array and (the same target slot, or both
    are inserts) -/
def Indep (a b : EOp) : Prop := a.p = b.p → a.tgt ≠ b.tgt

theorem Indep.symm {a b : EOp} (h : Indep a b) : Indep b a := fun e e' => h e.symm e'.symm

theorem tombtime_applyE {d : Doc} (hwf : d.WF) {a : EOp} (ha : EOK d a) {c : Ts} (hc : (d.find c).isSome)
    (hx : c ≠ (effE d a).x ∨ (effE d a).g = id) :
    (applyE d a).isTomb c = d.isTomb c ∧ (applyE d a).timeOf c = d.timeOf c := by
  have hsh := eshape a ha
  obtain ⟨nc, hnc⟩ := Option.isSome_iff_exists.mp hc
  have hcn : c ∉ ids (effE d a).ns := by rw [hsh.ns]; exact fresh_not_mem ha.fresh hnc
  rw [isTomb_eq_tombO, isTomb_eq_tombO, timeOf_eq_timeO, timeOf_eq_timeO, find_applyE hwf a ha, run_other hcn hx]
  by_cases e : c = (effE d a).p
  · rw [if_pos e]; exact hsh.s_tomb c _
  · rw [if_neg e]; exact ⟨rfl, rfl⟩

theorem slotsOf_mem_findArr {d : Doc} {p : Ts} {s : Ts × Ts} (hs : s ∈ slotsOf d p) :
    ∃ pn sz, d.findArr p = some (pn, slotsOf d p, sz) := by
  unfold slotsOf at hs ⊢
  cases hp : d.findArr p with
  | none => rw [hp] at hs; simp at hs
  | some x => obtain ⟨pn, sl, sz⟩ := x; exact ⟨pn, sz, rfl⟩

/-- different slots (of the same or of different arrays) have different children -/
theorem slot_child_inj {d : Doc} (hwf : d.WF) {p q tg tg' : Ts} {s s' : Ts × Ts}
    (hs : (slotsOf d p).find? (fun s => s.1 = tg) = some s)
    (hs' : (slotsOf d q).find? (fun s => s.1 = tg') = some s') (he : s.2 = s'.2) : p = q ∧ tg = tg' := by
  have hm := List.mem_of_find?_eq_some hs
  have hm' := List.mem_of_find?_eq_some hs'
  obtain ⟨pn, sz, hp⟩ := slotsOf_mem_findArr hm
  obtain ⟨qn, sz', hq⟩ := slotsOf_mem_findArr hm'
  obtain ⟨hp1, hpk⟩ := findArr_some_iff.mp hp
  obtain ⟨hq1, hqk⟩ := findArr_some_iff.mp hq
  have h1 : s.2 ∈ kids pn.kind := by rw [hpk]; exact List.mem_map.mpr ⟨s, hm, rfl⟩
  have h2 : s.2 ∈ kids qn.kind := by rw [hqk, he]; exact List.mem_map.mpr ⟨s', hm', rfl⟩
  have hpq := wf_unique_parent hwf hp1 hq1 h1 h2
  subst hpq
  refine ⟨rfl, ?_⟩
  have hnd : ((slotsOf d p).map (·.2)).Nodup := by
    have := hwf.inj p pn hp1; rw [hpk] at this; exact this
  have : s = s' := List.inj_on_of_nodup_map hnd hm hm' he
  have e1 : s.1 = tg := by simpa using List.find?_some hs
  have e2 : s'.1 = tg' := by simpa using List.find?_some hs'
  rw [← e1, ← e2, this]

theorem EOK.tgt_mem {d : Doc} : ∀ {e : EOp}, EOK d e → ∀ {tg : Ts}, e.tgt = some tg → tg ∈ slotIds d e.p
  | .ins _ _ _ _, _, _, h => by simp [EOp.tgt] at h
  | .del1 _ tg' _, h, tg, e => by simp only [EOp.tgt, Option.some.injEq] at e; subst e; exact h.2
  | .upd1 _ tg' _ _, h, tg, e => by simp only [EOp.tgt, Option.some.injEq] at e; subst e; exact h.2.2.2

theorem EOK.newSlots_fresh {d : Doc} : ∀ {e : EOp}, EOK d e → ∀ c ∈ newSlots e, c ∉ slotIds d e.p
  | .ins _ _ _ _, h, c, hc => h.2.2.2.1 c hc
  | .del1 _ _ _, _, c, hc => by simp [newSlots] at hc
  | .upd1 _ _ _ _, _, c, hc => by simp [newSlots] at hc

/-- the entry `x` of one effect is not the child of the target slot of an independent operation -/
theorem x_ne_child {d : Doc} (hwf : d.WF) {a : EOp} (ha : EOK d a) {q tg : Ts} {s : Ts × Ts}
    (hs : (slotsOf d q).find? (fun s => s.1 = tg) = some s) (hind : a.p = q → a.tgt ≠ some tg) :
    s.2 ≠ (effE d a).x ∨ (effE d a).g = id := by
  rcases (eshape a ha).x with ⟨_, h1⟩ | ⟨tg', s', h0, hs', h1⟩ | h1
  · exact Or.inr h1
  · left
    intro e
    rw [h1] at e
    obtain ⟨e1, e2⟩ := slot_child_inj hwf hs hs' e
    exact hind e1.symm (by rw [h0, e2])
  · left
    intro e
    obtain ⟨nc, hnc, _⟩ := slotsOf_child hwf (List.mem_of_find?_eq_some hs)
    exact fresh_not_mem ha.fresh hnc (e ▸ h1)

/-- the effect of an operation is decided the same way after an independent operation -/
theorem effE_stable {d : Doc} (hwf : d.WF) {a b : EOp} (ha : EOK d a) (hb : EOK d b) (hind : Indep a b) :
    effE (applyE d a) b = effE d b := by
  cases b with
  | ins p an ts vs => rfl
  | del1 p tg t =>
    have hi : ¬ (a.p = p ∧ a.tgt = some tg) := fun ⟨e1, e2⟩ => hind e1 e2
    simp only [effE]
    rw [slotFind_applyE hwf ha (isArr_find hb.1) hb.2 hi]
    cases hs : (slotsOf d p).find? (fun s => s.1 = tg) with
    | none => rfl
    | some s =>
      obtain ⟨nc, hnc, _⟩ := slotsOf_child hwf (List.mem_of_find?_eq_some hs)
      obtain ⟨h1, h2⟩ := tombtime_applyE hwf ha (c := s.2) (by rw [hnc]; rfl)
        (x_ne_child hwf ha hs (fun e => hind e))
      simp only [h1, h2]
  | upd1 p tg t v =>
    have hi : ¬ (a.p = p ∧ a.tgt = some tg) := fun ⟨e1, e2⟩ => hind e1 e2
    simp only [effE]
    rw [slotFind_applyE hwf ha (isArr_find hb.1) hb.2.2.2 hi]
    cases hs : (slotsOf d p).find? (fun s => s.1 = tg) with
    | none => rfl
    | some s =>
      obtain ⟨nc, hnc, _⟩ := slotsOf_child hwf (List.mem_of_find?_eq_some hs)
      obtain ⟨h1, h2⟩ := tombtime_applyE hwf ha (c := s.2) (by rw [hnc]; rfl)
        (x_ne_child hwf ha hs (fun e => hind e))
      simp only [h1, h2]

theorem comm_s_g {d d' : Doc} {a b : EOp} {ea eb : Eff} (h1 : EShape d a ea) (h2 : EShape d' b eb) :
    Comm eb.s ea.g := by
  rcases h2.s with hs | ⟨k, hs⟩ <;> rw [hs]
  · exact comm_id_left _
  · rcases h1.g with hg | ⟨t, hg⟩ | ⟨t, hg⟩ <;> rw [hg]
    · exact comm_id_right _
    · exact comm_mapArr_fun1 k t
    · exact comm_mapArr_setD k t

theorem comm_s_s {d : Doc} {a b : EOp} (ha : EOK d a) (hb : EOK d b) (hp : a.p = b.p) (ht : a.tgt ≠ b.tgt) :
    Comm (effE d b).s (effE d a).s := by
  have h1 := eshape a ha
  have h2 := eshape b hb
  rcases h1.sk with sa | sa | ⟨tga, ca, ta, sa⟩ | ⟨ana, ta, sa⟩ <;>
    rcases h2.sk with sb | sb | ⟨tgb, cb, tb, sb⟩ | ⟨anb, tb, sb⟩ <;> rw [sa, sb]
  · exact comm_id_left _
  · exact comm_id_right _
  · exact comm_id_right _
  · exact comm_id_right _
  · exact comm_id_left _
  · exact comm_refl _
  · exact comm_symm (comm_szK_setK _ _ _)
  · exact comm_symm (comm_szK_insK _ _ _)
  · exact comm_id_left _
  · exact comm_szK_setK _ _ _
  · apply comm_setK_setK
    intro e; subst e; exact ht (by rw [ta, tb])
  · apply comm_symm
    apply comm_setK_insK
    intro hm
    exact hb.newSlots_fresh _ hm (hp ▸ ha.tgt_mem ta)
  · exact comm_id_left _
  · exact comm_szK_insK _ _ _
  · apply comm_setK_insK
    intro hm
    exact ha.newSlots_fresh _ hm (hp ▸ hb.tgt_mem tb)
  · exact absurd (by rw [ta, tb]) ht

/-- **3a.**  Two applicable remote array operations whose new identifiers do not clash and that are
    independent (different arrays, or different target slots, or an insert and an update/delete) commute
    EXACTLY: the same node under every identifier. -/
theorem comm_docEq {d : Doc} (hwf : d.WF) {a b : EOp} (ha : EOK d a) (hb : EOK d b) (hd : Disj a b)
    (hind : Indep a b) : DocEq (applyE (applyE d a) b) (applyE (applyE d b) a) := by
  have hsa := eshape a ha
  have hsb := eshape b hb
  have key : (applyE (applyE d a) b).find = (applyE (applyE d b) a).find := by
    rw [find_applyE (wf_applyE hwf a ha) b (eok_after hwf ha hb hd), find_applyE hwf a ha,
      effE_stable hwf ha hb hind,
      find_applyE (wf_applyE hwf b hb) a (eok_after hwf hb ha hd.symm), find_applyE hwf b hb,
      effE_stable hwf hb ha hind.symm]
    obtain ⟨pna, hpna⟩ := Option.isSome_iff_exists.mp (isArr_find ha.isArr)
    obtain ⟨pnb, hpnb⟩ := Option.isSome_iff_exists.mp (isArr_find hb.isArr)
    apply eff_comm
    · intro c h1 h2
      rw [hsa.ns] at h1; rw [hsb.ns] at h2
      exact hd c h1 h2
    · rw [hsa.p, hsb.ns]; exact fresh_not_mem hb.fresh hpna
    · rw [hsb.ns]
      rcases hsa.x_cases hwf ha with ⟨n, hn⟩ | h
      · exact fresh_not_mem hb.fresh hn
      · exact fun h' => hd _ h h'
    · rw [hsb.p, hsa.ns]; exact fresh_not_mem ha.fresh hpnb
    · rw [hsa.ns]
      rcases hsb.x_cases hwf hb with ⟨n, hn⟩ | h
      · exact fresh_not_mem ha.fresh hn
      · exact fun h' => hd _ h' h
    · by_cases e : (effE d a).p = (effE d b).p
      · right
        rw [hsa.p, hsb.p] at e
        exact comm_s_s ha hb e (hind e)
      · exact Or.inl e
    · exact Or.inr (comm_s_g hsa hsb)
    · exact Or.inr (comm_symm (comm_s_g hsb hsa))
    · rcases hsb.x with ⟨_, h1⟩ | ⟨tg, s, h0, hs, h1⟩ | h1
      · right; rw [h1]; exact comm_id_left _
      · rcases x_ne_child hwf ha hs (fun e e' => hind e (by rw [e', h0])) with h | h
        · left; rw [h1]; exact h
        · right; rw [h]; exact comm_id_right _
      · rcases hsa.x_cases hwf ha with ⟨n, hn⟩ | h
        · left
          intro e
          exact fresh_not_mem hb.fresh hn (e ▸ h1)
        · left
          intro e
          exact hd _ h (e ▸ h1)
  intro c
  rw [key]

/-! ## 3b. two inserts into the same array commute up to `DocEq` when both arrival orders are causal -/

theorem perm_eq_of_map_eq {α β : Type} (f : α → β) : ∀ {l l' : List α}, l.Perm l' → l.map f = l'.map f →
    (l.map f).Nodup → l = l'
  | [], l', hp, _, _ => by rw [List.nil_perm] at hp; exact hp.symm
  | a :: l1, [], hp, _, _ => by simp at hp
  | a :: l1, b :: l1', hp, hm, hnd => by
      simp only [List.map_cons, List.cons.injEq] at hm
      have hab : a = b := by
        have : a ∈ b :: l1' := hp.subset (by simp)
        rcases List.mem_cons.mp this with h | h
        · exact h
        · exfalso
          simp only [List.map_cons, List.nodup_cons] at hnd
          have h1 : f a ∈ l1'.map f := List.mem_map.mpr ⟨a, h, rfl⟩
          rw [← hm.2] at h1
          exact hnd.1 h1
      subst hab
      have hp' : l1.Perm l1' := List.Perm.cons_inv hp
      simp only [List.map_cons, List.nodup_cons] at hnd
      rw [perm_eq_of_map_eq f hp' hm.2 hnd.2]

/-- the insertion loop as a function on slots (anchor present: `some`) -/
def loopSl (an : Ts) (cs : List Ts) (sl : List (Ts × Ts)) : List (Ts × Ts) :=
  (insertAfterId (fun (x : Ts × Ts) => x.1) an (cs.map fun c => (c, c)) sl).getD sl

theorem loopSl_ids (an : Ts) (cs : List Ts) (sl : List (Ts × Ts)) :
    (loopSl an cs sl).map (·.1) = stepIds (sl.map (·.1)) an cs := by
  unfold loopSl stepIds
  have h := insertAfterId_map (fun (x : Ts × Ts) => x.1) id (fun (x : Ts × Ts) => x.1) (fun _ => rfl) an
    (cs.map fun c => (c, c)) sl
  have e : (cs.map fun c => (c, c)).map (fun (x : Ts × Ts) => x.1) = cs := by
    rw [List.map_map]; exact List.map_id' _
  rw [e] at h
  rw [← h]
  cases insertAfterId (fun (x : Ts × Ts) => x.1) an (cs.map fun c => (c, c)) sl <;> rfl

theorem insK_of_anchor {an : Ts} {cs : List Ts} {sl : List (Ts × Ts)} (s : Int)
    (h : an = Ts.oldest ∨ an ∈ sl.map (·.1)) : insK an cs sl s = (loopSl an cs sl, s + cs.length) := by
  have := insertAfterId_isSome (fun (x : Ts × Ts) => x.1) an (cs.map fun c => (c, c)) sl h
  unfold insK loopSl
  cases hi : insertAfterId (fun (x : Ts × Ts) => x.1) an (cs.map fun c => (c, c)) sl with
  | none => rw [hi] at this; cases this
  | some sl' => rfl

theorem loopSl_perm {an : Ts} {cs : List Ts} {sl : List (Ts × Ts)}
    (h : an = Ts.oldest ∨ an ∈ sl.map (·.1)) : (loopSl an cs sl).Perm ((cs.map fun c => (c, c)) ++ sl) := by
  have := insertAfterId_isSome (fun (x : Ts × Ts) => x.1) an (cs.map fun c => (c, c)) sl h
  unfold loopSl
  cases hi : insertAfterId (fun (x : Ts × Ts) => x.1) an (cs.map fun c => (c, c)) sl with
  | none => rw [hi] at this; cases this
  | some sl' => exact insertAfterId_perm _ an _ sl sl' hi

theorem loopSl_anchor {an an' : Ts} {cs : List Ts} {sl : List (Ts × Ts)}
    (h : an' = Ts.oldest ∨ an' ∈ sl.map (·.1)) : an' = Ts.oldest ∨ an' ∈ (loopSl an cs sl).map (·.1) := by
  rcases h with h | h
  · exact Or.inl h
  · right
    unfold loopSl
    cases hi : insertAfterId (fun (x : Ts × Ts) => x.1) an (cs.map fun c => (c, c)) sl with
    | none => exact h
    | some sl' =>
      obtain ⟨y, hy, rfl⟩ := List.mem_map.mp h
      exact List.mem_map.mpr ⟨y, (insertAfterId_sublist _ an _ sl sl' hi).subset hy, rfl⟩

theorem ACausal.ids_nodup {M : List AIns} (hc : ACausal M) : (foldIds [] M).Nodup := by
  have hwf := hc.wf
  have hr := renaming_phi hwf
  obtain ⟨h1, k1⟩ := foldIds_sim hr hwf M [] Rga.empty (fun _ h => h) (by simp) rfl
  have hnd := rga_ids_nodup _ (insCausal_toIns hr hc)
  have e : (Rga.empty.applyAllIns (M.map (toIns (phi M)))).ids = (foldIds [] M).map (phi M) := h1
  rw [e] at hnd
  exact List.Nodup.of_map _ hnd

/-- **3b. insert / insert, same array.**  `M0`: the inserts that produced the present order of the array.
    When both arrival orders are causal after `M0`, the two results are the same table (`DocEq`). -/
theorem comm_docEq_ins_ins {d : Doc} (hwf : d.WF) {p a1 t1 a2 t2 : Ts} {vs1 vs2 : List JVal}
    (ha : EOK d (.ins p a1 t1 vs1)) (hb : EOK d (.ins p a2 t2 vs2))
    (hd : Disj (.ins p a1 t1 vs1) (.ins p a2 t2 vs2)) (M0 : List AIns)
    (hbase : slotIds d p = foldIds [] M0)
    (hc : ACausal (M0 ++ [⟨a1, newSlots (.ins p a1 t1 vs1)⟩, ⟨a2, newSlots (.ins p a2 t2 vs2)⟩]))
    (hc' : ACausal (M0 ++ [⟨a2, newSlots (.ins p a2 t2 vs2)⟩, ⟨a1, newSlots (.ins p a1 t1 vs1)⟩])) :
    DocEq (applyE (applyE d (.ins p a1 t1 vs1)) (.ins p a2 t2 vs2))
      (applyE (applyE d (.ins p a2 t2 vs2)) (.ins p a1 t1 vs1)) := by
  generalize hA : EOp.ins p a1 t1 vs1 = A at *
  generalize hB : EOp.ins p a2 t2 vs2 = B at *
  have hpa : A.p = p := by rw [← hA]; rfl
  have hpb : B.p = p := by rw [← hB]; rfl
  have hsa := eshape A ha
  have hsb := eshape B hb
  obtain ⟨pn, sl, sz, hp⟩ := isArr_iff.mp (hpa ▸ ha.isArr)
  obtain ⟨hp1, hk⟩ := findArr_some_iff.mp hp
  have hsl : slotsOf d p = sl := slotsOf_of_findArr hp
  have hids : sl.map (·.1) = foldIds [] M0 := by rw [← hbase]; unfold slotIds; rw [hsl]
  have effA : effE d A = ⟨nodesE A, p, mapArr (insK a1 (newSlots A)), p, id⟩ := by rw [← hA]; rfl
  have effB : effE d B = ⟨nodesE B, p, mapArr (insK a2 (newSlots B)), p, id⟩ := by rw [← hB]; rfl
  have effA' : ∀ d', effE d' A = effE d A := by intro d'; rw [← hA]; rfl
  have effB' : ∀ d', effE d' B = effE d B := by intro d'; rw [← hB]; rfl
  have hanA : a1 = Ts.oldest ∨ a1 ∈ sl.map (·.1) := by
    have : a1 = Ts.oldest ∨ a1 ∈ slotIds d p := by
      have h := ha; rw [← hA] at h; exact h.2.2.2.2
    unfold slotIds at this; rw [hsl] at this; exact this
  have hanB : a2 = Ts.oldest ∨ a2 ∈ sl.map (·.1) := by
    have : a2 = Ts.oldest ∨ a2 ∈ slotIds d p := by
      have h := hb; rw [← hB] at h; exact h.2.2.2.2
    unfold slotIds at this; rw [hsl] at this; exact this
  -- the two slot lists coincide
  have hslots : loopSl a2 (newSlots B) (loopSl a1 (newSlots A) sl) =
      loopSl a1 (newSlots A) (loopSl a2 (newSlots B) sl) := by
    apply perm_eq_of_map_eq (·.1)
    · have h1 := (loopSl_perm (cs := newSlots B) (loopSl_anchor (an := a1) (cs := newSlots A) hanB)).trans
        ((loopSl_perm (cs := newSlots A) hanA).append_left _)
      have h2 := (loopSl_perm (cs := newSlots A) (loopSl_anchor (an := a2) (cs := newSlots B) hanA)).trans
        ((loopSl_perm (cs := newSlots B) hanB).append_left _)
      refine h1.trans (List.Perm.trans ?_ h2.symm)
      rw [← List.append_assoc, ← List.append_assoc]
      exact List.Perm.append_right _ List.perm_append_comm
    · rw [loopSl_ids, loopSl_ids, loopSl_ids, loopSl_ids, hids]
      have e1 : stepIds (stepIds (foldIds [] M0) a1 (newSlots A)) a2 (newSlots B) =
          foldIds [] (M0 ++ [⟨a1, newSlots A⟩, ⟨a2, newSlots B⟩]) := by
        rw [foldIds_append]; rfl
      have e2 : stepIds (stepIds (foldIds [] M0) a2 (newSlots B)) a1 (newSlots A) =
          foldIds [] (M0 ++ [⟨a2, newSlots B⟩, ⟨a1, newSlots A⟩]) := by
        rw [foldIds_append]; rfl
      rw [e1, e2]
      exact foldIds_converge _ _ (List.Perm.append_left M0 (List.Perm.swap _ _ _)) hc hc'
    · rw [loopSl_ids, loopSl_ids, hids]
      have e1 : stepIds (stepIds (foldIds [] M0) a1 (newSlots A)) a2 (newSlots B) =
          foldIds [] (M0 ++ [⟨a1, newSlots A⟩, ⟨a2, newSlots B⟩]) := by
        rw [foldIds_append]; rfl
      rw [e1]
      exact hc.ids_nodup
  have key : (applyE (applyE d A) B).find = (applyE (applyE d B) A).find := by
    rw [find_applyE (wf_applyE hwf A ha) B (eok_after hwf ha hb hd), find_applyE hwf A ha, effB' (applyE d A),
      find_applyE (wf_applyE hwf B hb) A (eok_after hwf hb ha hd.symm), find_applyE hwf B hb,
      effA' (applyE d B), effA, effB]
    simp only [Eff.run, upd_id]
    have hpA : p ∉ ids (nodesE A) := fresh_not_mem ha.fresh hp1
    have hpB : p ∉ ids (nodesE B) := fresh_not_mem hb.fresh hp1
    rw [upd_U hpB, upd_U hpA, U_comm (fun c h1 h2 => hd c h1 h2)]
    funext c
    by_cases e : c = p
    · subst e
      rw [upd_same, upd_same, upd_same, upd_same, U_old hpA, U_old hpB, hp1]
      simp only [mapArr, Option.map_some, hk, Option.some.injEq, DNode.mk.injEq, true_and, DKind.arr.injEq]
      rw [insK_of_anchor sz hanA, insK_of_anchor sz hanB]
      simp only
      rw [insK_of_anchor _ (loopSl_anchor hanB), insK_of_anchor _ (loopSl_anchor hanA)]
      simp only [hslots, true_and]
      omega
    · rw [upd_other _ _ e, upd_other _ _ e, upd_other _ _ e, upd_other _ _ e]
  intro c
  rw [key]

/-! ## 4. the observable abstraction (`DC.abs`) under array operations -/

abbrev Ent := Ts × Ts × KeySt

/-- the abstract entry of a slot: order identifier, child, state of the child -/
def entOf (d : Doc) (x : Ts × Ts) : Ent := (x.1, x.2, refSt d x.2)

/-- rewrite the entries and the size of the array `p` -/
def setArr (A : Abs) (p : Ts) (par : Option Ts) (E : List Ent) (s : Int) : Abs :=
  { A with
    shape := fun c => if c = p then some (par, .arr E) else A.shape c
    size := fun c => if c = p then s else A.size c }

theorem shapeOf_arr {d : Doc} {p : Ts} {pn : DNode} {sl : List (Ts × Ts)} {s : Int}
    (hp : d.find p = some pn) (hk : pn.kind = .arr sl s) :
    shapeOf d p = some (pn.parent, .arr (sl.map (entOf d))) := by
  unfold shapeOf
  rw [hp]
  simp only [hk]
  rfl

theorem sizeOf_arr {d : Doc} {p : Ts} {pn : DNode} {sl : List (Ts × Ts)} {s : Int}
    (hp : d.find p = some pn) (hk : pn.kind = .arr sl s) : sizeOf' d p = s := by
  unfold sizeOf'
  rw [hp]
  simp only [hk]

theorem abs_setArr {d : Doc} {p : Ts} {pn : DNode} {sl sl' : List (Ts × Ts)} {s s' : Int}
    (hp : d.find p = some pn) (hk : pn.kind = .arr sl s) :
    abs (d.set { pn with kind := .arr sl' s' }) = setArr (abs d) p pn.parent (sl'.map (entOf d)) s' := by
  have hpc := find_some_c hp
  have hr : ∀ ch, refSt (d.set { pn with kind := .arr sl' s' }) ch = refSt d ch :=
    refSt_set_hdr hp rfl rfl
  have key : ∀ c, c ≠ p → shapeOf (d.set { pn with kind := .arr sl' s' }) c = shapeOf d c ∧
      deadOf (d.set { pn with kind := .arr sl' s' }) c = deadOf d c ∧
      (∀ k, keyOf' (d.set { pn with kind := .arr sl' s' }) c k = keyOf' d c k) ∧
      sizeOf' (d.set { pn with kind := .arr sl' s' }) c = sizeOf' d c := by
    intro c hc
    apply abs_local
    · rw [find_set]
      have : ¬ pn.c = c := by rw [hpc]; exact fun e => hc e.symm
      simp [this]
    · intro n _ ch _; exact hr ch
  have hfp : (d.set { pn with kind := .arr sl' s' }).find p = some { pn with kind := .arr sl' s' } := by
    rw [find_set]; simp [hpc]
  unfold abs setArr
  simp only
  congr 1
  · funext c
    by_cases hc : c = p
    · subst hc
      rw [if_pos rfl, shapeOf_arr hfp rfl]
      simp only [Option.some.injEq, Prod.mk.injEq, Shape.arr.injEq, true_and]
      apply List.map_congr_left
      intro x _
      simp only [entOf, hr]
    · rw [if_neg hc]; exact (key c hc).1
  · funext c
    by_cases hc : c = p
    · subst hc
      simp only [deadOf, hfp, hp, hk]
    · exact (key c hc).2.1
  · funext c k
    by_cases hc : c = p
    · subst hc
      simp only [keyOf', hfp, hp, hk]
    · exact (key c hc).2.2.1 k
  · funext c
    by_cases hc : c = p
    · subst hc
      rw [if_pos rfl, sizeOf_arr hfp rfl]
    · rw [if_neg hc]; exact (key c hc).2.2.2

/-- replace child and state of the first entry `tg` -/
def setEntry (tg c : Ts) (st : KeySt) : List Ent → List Ent
  | [] => []
  | e :: es => if e.1 = tg then (tg, c, st) :: es else e :: setEntry tg c st es

theorem map_entOf_setEntry {d d' : Doc} {tg x : Ts} {st : KeySt} : ∀ {sl : List (Ts × Ts)} {sx : Ts × Ts},
    sl.find? (fun s => s.1 = tg) = some sx → sx.2 = x → (sl.map (·.2)).Nodup →
    refSt d' x = st → (∀ y, y ≠ x → refSt d' y = refSt d y) →
    sl.map (entOf d') = setEntry tg x st (sl.map (entOf d))
  | [], _, h, _, _, _, _ => by simp at h
  | y :: ys, sx, h, hx, hnd, h1, h2 => by
      simp only [List.map_cons, List.nodup_cons] at hnd
      by_cases e : y.1 = tg
      · simp only [List.find?_cons, e, decide_true, Option.some.injEq] at h
        subst h
        have : setEntry tg x st (List.map (entOf d) (y :: ys)) = (tg, x, st) :: ys.map (entOf d) := by
          simp [setEntry, entOf, e]
        rw [this]
        simp only [List.map_cons, List.cons.injEq]
        constructor
        · simp only [entOf, e, hx, h1]
        · apply List.map_congr_left
          intro z hz
          have : z.2 ≠ x := by
            intro e'
            exact hnd.1 (List.mem_map.mpr ⟨z, hz, by rw [e', hx]⟩)
          simp only [entOf, h2 _ this]
      · simp only [List.find?_cons, e, decide_false] at h
        have hyx : y.2 ≠ x := by
          intro e'
          have : sx ∈ ys := List.mem_of_find?_eq_some h
          exact hnd.1 (List.mem_map.mpr ⟨sx, this, by rw [hx, e']⟩)
        have : setEntry tg x st (List.map (entOf d) (y :: ys)) =
            entOf d y :: setEntry tg x st (ys.map (entOf d)) := by
          simp [setEntry, entOf, e]
        rw [this, ← map_entOf_setEntry h hx hnd.2 h1 h2]
        simp only [List.map_cons, List.cons.injEq, and_true]
        simp only [entOf, h2 _ hyx]

/-- tombstoning the child `x` of the slot `tg` of the array `p` (the only reference to `x`) -/
theorem abs_makeTombArr {d : Doc} {p x tg : Ts} {pn : DNode} {sl : List (Ts × Ts)} {s : Int} {sx : Ts × Ts} (t : Ts)
    (hp : d.find p = some pn) (hk : pn.kind = .arr sl s)
    (hs : sl.find? (fun s => s.1 = tg) = some sx) (hx : sx.2 = x)
    (hex : ∃ nx, d.find x = some nx)
    (huniq : ∀ q n, d.find q = some n → x ∈ kids n.kind → q = p)
    (hnd : (sl.map (·.2)).Nodup) :
    abs (d.makeTomb x t) =
      kill (setArr (abs d) p pn.parent (setEntry tg x ⟨true, t, none⟩ (sl.map (entOf d))) s) (some x) := by
  obtain ⟨nx, hnx⟩ := hex
  have hfx : (d.makeTomb x t).find x = some { nx with d := some t } := by
    rw [find_makeTomb]; simp [hnx]
  have hfo : ∀ c, c ≠ x → (d.makeTomb x t).find c = d.find c := by
    intro c hc; rw [find_makeTomb]; simp [hc]
  have hr : ∀ ch, ch ≠ x → refSt (d.makeTomb x t) ch = refSt d ch :=
    fun ch hch => refSt_of_find (hfo ch hch)
  have hrx : refSt (d.makeTomb x t) x = ⟨true, t, none⟩ := by
    unfold refSt Doc.isTomb Doc.timeOf
    simp [hfx]
  obtain ⟨pn', hpn', hpk', _, hpp'⟩ := find_makeTomb_kind (x := x) (t := t) hp
  have hE : sl.map (entOf (d.makeTomb x t)) = setEntry tg x ⟨true, t, none⟩ (sl.map (entOf d)) :=
    map_entOf_setEntry hs hx hnd hrx hr
  -- nobody but `p` references `x`
  have hkids : ∀ q n, d.find q = some n → q ≠ p → ∀ y ∈ kids n.kind, y ≠ x := by
    intro q n hq hqp y hy e
    exact hqp (huniq q n hq (e ▸ hy))
  have hother : ∀ c, c ≠ x → c ≠ p → shapeOf (d.makeTomb x t) c = shapeOf d c ∧
      deadOf (d.makeTomb x t) c = deadOf d c ∧ (∀ k, keyOf' (d.makeTomb x t) c k = keyOf' d c k) ∧
      sizeOf' (d.makeTomb x t) c = sizeOf' d c := by
    intro c hcx hcp
    have e := hfo c hcx
    have := abs_local (a := d.makeTomb x t) (b := d) (c := c) e (by
      intro n hn ch hch
      rw [e] at hn
      exact hr ch (hkids c n hn hcp ch hch))
    exact this
  unfold abs kill setArr
  simp only
  congr 1
  · funext c
    by_cases hcp : c = p
    · subst hcp
      have : ¬ (c = x ∧ Shape.isElem (some (pn.parent, Shape.arr
          (setEntry tg x ⟨true, t, none⟩ (sl.map (entOf d))))) = true) := by
        simp [Shape.isElem]
      by_cases hcx : c = x
      · subst hcx
        simp only [if_true, Shape.isElem, Bool.false_eq_true, and_false, if_false]
        rw [shapeOf_arr hpn' (by rw [hpk', hk]), hE, hpp']
      · simp only [hcx, false_and, if_false, if_true]
        rw [shapeOf_arr hpn' (by rw [hpk', hk]), hE, hpp']
    · by_cases hcx : c = x
      · subst hcx
        simp only [hcp, if_false, true_and]
        simp only [shapeOf, hfx, hnx]
        obtain ⟨nc, nd, np, nk⟩ := nx
        cases nk with
        | elem v => cases nd <;> simp [Shape.isElem]
        | obj m s => simp [Shape.isElem]
        | arr sl2 sz =>
          simp only [Shape.isElem, Bool.false_eq_true, if_false, Option.some.injEq, Prod.mk.injEq,
            Shape.arr.injEq, true_and]
          apply List.map_congr_left
          intro y hy
          rw [hr y.2 (hkids c _ hnx hcp y.2 (by simp only [kids]; exact List.mem_map.mpr ⟨y, hy, rfl⟩))]
      · simp only [hcx, false_and, if_false, hcp]
        exact (hother c hcx hcp).1
  · funext c
    by_cases hcx : c = x
    · subst hcx
      simp only [if_true]
      by_cases hcp : c = p
      · subst hcp
        simp only [if_true, Shape.isCont, Bool.or_true]
        simp only [deadOf, hfx]
        rw [hp] at hnx
        simp only [Option.some.injEq] at hnx
        subst hnx
        simp only [hk, Option.isSome_some]
      · simp only [hcp, if_false]
        simp only [deadOf, shapeOf, hfx, hnx]
        obtain ⟨nc, nd, np, nk⟩ := nx
        cases nk with
        | elem v => cases nd <;> simp [Shape.isCont]
        | obj m s => simp [Shape.isCont]
        | arr sl2 sz => simp [Shape.isCont]
    · simp only [hcx, if_false, deadOf, hfo c hcx]
  · funext c k
    by_cases hcx : c = x
    · subst hcx
      simp only [keyOf', hfx, hnx]
      obtain ⟨nc, nd, np, nk⟩ := nx
      cases nk with
      | elem v => rfl
      | arr sl2 sz => rfl
      | obj m sz =>
        simp only
        cases hal : alFind k m with
        | none => rfl
        | some ch =>
          simp only [Option.map_some, Option.some.injEq]
          apply hr
          have hcp : c ≠ p := by
            intro e; subst e
            rw [hp] at hnx; simp only [Option.some.injEq] at hnx; subst hnx; cases hk
          exact hkids c _ hnx hcp ch (by simp only [kids]; exact alFind_mem_vals hal)
    · by_cases hcp : c = p
      · subst hcp
        simp only [keyOf', hfo c hcx, hp, hk]
      · exact (hother c hcx hcp).2.2.1 k
  · funext c
    have : sizeOf' (d.makeTomb x t) c = sizeOf' d c := by
      by_cases hc : c = x
      · subst hc
        simp only [sizeOf', hfx, hnx]
      · simp only [sizeOf', hfo c hc]
    rw [this]
    by_cases hcp : c = p
    · subst hcp; rw [if_pos rfl, sizeOf_arr hp hk]
    · rw [if_neg hcp]

/-! ### the abstract operations -/

/-- what one delete / update does to ONE slot: new child, new state, change of the size, node to bury -/
structure SStep where
  c : Ts
  st : KeySt
  dsize : Int
  bury : Option Ts
deriving DecidableEq

/-- delete dominates: a live slot is always tombstoned; a tombstone keeps the newest delete stamp -/
def aDelStep (t : Ts) (c : Ts) (st : KeySt) : SStep :=
  if !st.tomb then ⟨c, ⟨true, t, none⟩, -1, st.occ⟩
  else if st.time.cmp t == .lt then ⟨c, ⟨true, t, none⟩, 0, none⟩
  else ⟨c, st, 0, none⟩

/-- a tombstone is not revived; on a live slot the newer value wins, the loser is buried -/
def aUpdStep (newC : Ts) (c : Ts) (st : KeySt) : SStep :=
  if !st.tomb && st.time.cmp newC == .lt then ⟨newC, ⟨false, newC, some newC⟩, 0, st.occ⟩
  else ⟨c, st, 0, some newC⟩

def applySlot (A : Abs) (p tg : Ts) (f : Ts → KeySt → SStep) : Abs :=
  match A.shape p with
  | some (par, .arr E) =>
    match E.find? (fun e => e.1 = tg) with
    | some e =>
      kill (setArr A p par (setEntry tg (f e.2.1 e.2.2).c (f e.2.1 e.2.2).st E) (A.size p + (f e.2.1 e.2.2).dsize))
        (f e.2.1 e.2.2).bury
    | none => A
  | _ => A

def newEnt (c : Ts) : Ent := (c, c, ⟨false, c, some c⟩)

def insSlots (A : Abs) (p an : Ts) (cs : List Ts) : Abs :=
  match A.shape p with
  | some (par, .arr E) =>
    match insertAfterId (fun (e : Ent) => e.1) an (cs.map newEnt) E with
    | some E' => setArr A p par E' (A.size p + cs.length)
    | none => A
  | _ => A

/-- the abstract operation: a function of the abstraction only -/
def absE (e : EOp) (A : Abs) : Abs :=
  match e with
  | .ins p an _ _ => insSlots (union A (abs ⟨nodesE e⟩)) p an (newSlots e)
  | .del1 p tg t => applySlot A p tg (aDelStep t)
  | .upd1 p tg t _ => applySlot (union A (abs ⟨nodesE e⟩)) p tg (aUpdStep t)

theorem setArr_same {A : Abs} {p : Ts} {par : Option Ts} {E : List Ent}
    (h : A.shape p = some (par, .arr E)) : setArr A p par E (A.size p) = A := by
  apply Abs.ext'
  · intro c
    simp only [setArr]
    by_cases e : c = p
    · subst e; rw [if_pos rfl, h]
    · rw [if_neg e]
  · intro c; rfl
  · intro c k; rfl
  · intro c
    simp only [setArr]
    by_cases e : c = p
    · subst e; rw [if_pos rfl]
    · rw [if_neg e]

theorem setArr_setArr (A : Abs) (p : Ts) (par par' : Option Ts) (E E' : List Ent) (s s' : Int) :
    setArr (setArr A p par E s) p par' E' s' = setArr A p par' E' s' := by
  apply Abs.ext'
  · intro c
    simp only [setArr]
    by_cases e : c = p <;> simp [e]
  · intro c; rfl
  · intro c k; rfl
  · intro c
    simp only [setArr]
    by_cases e : c = p <;> simp [e]

/-- rewriting the array `p` after burying `x` = burying after rewriting (`p` is a container) -/
theorem setArr_kill {B : Abs} {p : Ts} {par0 : Option Ts} {E0 : List Ent} (hB : B.shape p = some (par0, .arr E0))
    (x : Option Ts) (par : Option Ts) (E : List Ent) (s : Int) :
    setArr (kill B x) p par E s = kill (setArr B p par E s) x := by
  cases x with
  | none => rfl
  | some x =>
    apply Abs.ext'
    · intro c
      simp only [setArr, kill]
      by_cases e : c = p
      · subst e
        by_cases ex : c = x
        · subst ex; simp [Shape.isElem]
        · simp [ex]
      · simp only [e, if_false]
        by_cases ex : x = p
        · subst ex
          simp [e]
        · simp [ex]
    · intro c
      simp only [setArr, kill]
      by_cases ec : c = x
      · subst ec
        by_cases ex : c = p
        · subst ex
          simp [hB, Shape.isCont]
        · simp [ex]
      · simp [ec]
    · intro c k; rfl
    · intro c; rfl

theorem setEntry_same {tg : Ts} : ∀ {E : List Ent} {e : Ent}, E.find? (fun e => e.1 = tg) = some e →
    setEntry tg e.2.1 e.2.2 E = E
  | [], _, h => by simp at h
  | y :: ys, e, h => by
      unfold setEntry
      by_cases hy : y.1 = tg
      · simp only [List.find?_cons, hy, decide_true, Option.some.injEq] at h
        subst h
        simp only [hy, if_true, List.cons.injEq, and_true]
        rw [← hy]
      · simp only [List.find?_cons, hy, decide_false] at h
        simp only [hy, if_false, setEntry_same h]

theorem find?_map_entOf (d : Doc) (tg : Ts) : ∀ sl : List (Ts × Ts),
    (sl.map (entOf d)).find? (fun e => e.1 = tg) = (sl.find? (fun s => s.1 = tg)).map (entOf d)
  | [] => rfl
  | y :: ys => by
      simp only [List.map_cons, List.find?_cons]
      by_cases e : y.1 = tg
      · have : (entOf d y).1 = tg := e
        simp [e, this]
      · have : ¬ (entOf d y).1 = tg := e
        simp only [e, this, decide_false]
        exact find?_map_entOf d tg ys

theorem map_entOf_setSlotChild (d : Doc) (tg c : Ts) : ∀ sl : List (Ts × Ts),
    (setSlotChild tg c sl).map (entOf d) = setEntry tg c (refSt d c) (sl.map (entOf d))
  | [] => rfl
  | y :: ys => by
      unfold setSlotChild
      by_cases e : y.1 = tg
      · simp [e, setEntry, entOf]
      · simp [e, setEntry, entOf, map_entOf_setSlotChild d tg c ys]

/-- the state of a freshly created live node -/
theorem refSt_new {d : Doc} {ns : List DNode} (hnd : (ids ns).Nodup) {n : DNode} (hn : n ∈ ns) (hl : n.d = none) :
    refSt (d.addAll ns) n.c = ⟨false, n.c, some n.c⟩ := by
  have := find_addAll_new (d := d) hnd hn
  unfold refSt Doc.isTomb Doc.timeOf
  simp [this, hl]

theorem kill_of_tomb {d : Doc} {x : Ts} (h : d.isTomb x = true) (B : Abs)
    (hs : B.shape x = shapeOf d x ∨ ∃ par E, B.shape x = some (par, .arr E) ∧ Shape.isCont (shapeOf d x) = true)
    (hd : B.dead x = deadOf d x) : kill B (some x) = B := by
  obtain ⟨h1, h2⟩ := tomb_shape h
  apply kill_noop
  · rcases hs with hs | ⟨par, E, hs, _⟩
    · rw [hs]; exact h1
    · rw [hs]; rfl
  · rw [hd]
    rcases h2 with h2 | h2
    · exact Or.inl h2
    · rcases hs with hs | ⟨par, E, hs, hc⟩
      · right; rw [hs]; exact h2
      · rw [hc] at h2; cases h2

/-! ### the concrete operation is the abstract one -/

theorem refSt_makeTomb {d : Doc} {x : Ts} (t : Ts) (hex : ∃ nx, d.find x = some nx) :
    refSt (d.makeTomb x t) x = ⟨true, t, none⟩ ∧ ∀ y, y ≠ x → refSt (d.makeTomb x t) y = refSt d y := by
  obtain ⟨nx, hnx⟩ := hex
  constructor
  · have hfx : (d.makeTomb x t).find x = some { nx with d := some t } := by
      rw [find_makeTomb]; simp [hnx]
    unfold refSt Doc.isTomb Doc.timeOf
    simp [hfx]
  · intro y hy
    apply refSt_of_find
    rw [find_makeTomb]; simp [hy]

theorem refSt_occ_live {d : Doc} {c : Ts} (h : d.isTomb c = false) : (refSt d c).occ = some c := by
  simp [refSt, h]

theorem abs_del1 {d : Doc} (hwf : d.WF) {p tg t : Ts} (h : EOK d (.del1 p tg t)) :
    abs (applyE d (.del1 p tg t)) = absE (.del1 p tg t) (abs d) := by
  obtain ⟨harr, htg⟩ := h
  obtain ⟨pn, sl, sz, hp⟩ := isArr_iff.mp harr
  obtain ⟨hp1, hk⟩ := findArr_some_iff.mp hp
  obtain ⟨sx, hsx, hsm, _⟩ := target_slot htg
  rw [slotsOf_of_findArr hp] at hsx hsm
  have hshape : (abs d).shape p = some (pn.parent, .arr (sl.map (entOf d))) := shapeOf_arr hp1 hk
  have hsize : (abs d).size p = sz := sizeOf_arr hp1 hk
  have hfind : (sl.map (entOf d)).find? (fun e => e.1 = tg) = some (entOf d sx) := by
    rw [find?_map_entOf, hsx]; rfl
  have hex := slot_child_in_table hwf hp hsm
  have hex' : ∃ nx, d.find sx.2 = some nx := by obtain ⟨nc, h1, _⟩ := hex; exact ⟨nc, h1⟩
  have hmem : sx.2 ∈ kids pn.kind := by rw [hk]; exact List.mem_map.mpr ⟨sx, hsm, rfl⟩
  have huniq : ∀ q n, d.find q = some n → sx.2 ∈ kids n.kind → q = p :=
    fun q n hq hm => wf_unique_parent hwf hq hp1 hm hmem
  have hnd : (sl.map (·.2)).Nodup := by
    have := hwf.inj p pn hp1; rw [hk] at this; exact this
  obtain ⟨hrx, hr⟩ := refSt_makeTomb t hex'
  have hE : sl.map (entOf (d.makeTomb sx.2 t)) = setEntry tg sx.2 ⟨true, t, none⟩ (sl.map (entOf d)) :=
    map_entOf_setEntry hsx rfl hnd hrx hr
  have hmt := abs_makeTombArr t hp1 hk hsx rfl hex' huniq hnd
  have habs : absE (.del1 p tg t) (abs d) =
      kill (setArr (abs d) p pn.parent
        (setEntry tg (aDelStep t sx.2 (refSt d sx.2)).c (aDelStep t sx.2 (refSt d sx.2)).st (sl.map (entOf d)))
        (sz + (aDelStep t sx.2 (refSt d sx.2)).dsize)) (aDelStep t sx.2 (refSt d sx.2)).bury := by
    simp only [absE, applySlot, hshape, hfind, hsize]
    rfl
  rw [habs]
  have hB : (setArr (abs d) p pn.parent (setEntry tg sx.2 ⟨true, t, none⟩ (sl.map (entOf d))) sz).shape p =
      some (pn.parent, .arr (setEntry tg sx.2 ⟨true, t, none⟩ (sl.map (entOf d)))) := by
    simp [setArr]
  simp only [applyE, EOp.toA, applyA, Doc.deleteRemoteInArray, hp, Doc.deleteRemoteInArray.go, hsx]
  by_cases h1 : d.isTomb sx.2 = true
  · simp only [h1, Bool.not_true, Bool.false_eq_true, if_false]
    by_cases h2 : ((d.timeOf sx.2).cmp t == Ordering.lt) = true
    · simp only [h2, if_true]
      obtain ⟨pn', h3⟩ := findArr_makeTomb (x := sx.2) (t := t) hp
      obtain ⟨h31, h32⟩ := findArr_some_iff.mp h3
      obtain ⟨pn'', h33, _, _, h34⟩ := find_makeTomb_kind (x := sx.2) (t := t) hp1
      have hpar : pn'.parent = pn.parent := by
        rw [h31] at h33; simp only [Option.some.injEq] at h33; rw [h33]; exact h34
      simp only [h3]
      rw [abs_setArr h31 h32, hmt, hE, setArr_kill hB, setArr_setArr, hpar]
      have hstep : aDelStep t sx.2 (refSt d sx.2) = ⟨sx.2, ⟨true, t, none⟩, 0, none⟩ := by
        simp only [aDelStep, refSt, h1, Bool.not_true, Bool.false_eq_true, if_false, h2, if_true]
      rw [hstep]
      simp only [Int.sub_zero, Int.add_zero]
      apply kill_of_tomb h1
      · by_cases e : sx.2 = p
        · right
          refine ⟨pn.parent, setEntry tg sx.2 ⟨true, t, none⟩ (sl.map (entOf d)),
            by simp only [setArr]; rw [if_pos e], ?_⟩
          have : shapeOf d sx.2 = some (pn.parent, .arr (sl.map (entOf d))) := by rw [e]; exact hshape
          rw [this]; rfl
        · left
          simp only [setArr]; rw [if_neg e]; rfl
      · rfl
    · simp only [h2, Bool.false_eq_true, if_false, hp]
      rw [abs_setArr hp1 hk]
      have hstep : aDelStep t sx.2 (refSt d sx.2) = ⟨sx.2, refSt d sx.2, 0, none⟩ := by
        simp only [aDelStep, refSt, h1, Bool.not_true, Bool.false_eq_true, if_false, h2]
      rw [hstep]
      simp only [Int.sub_zero, Int.add_zero, kill]
      have := setEntry_same hfind
      simp only [entOf] at this
      rw [this]
  · have h1' : d.isTomb sx.2 = false := by simpa using h1
    simp only [h1', Bool.not_false, if_true]
    obtain ⟨pn', h3⟩ := findArr_makeTomb (x := sx.2) (t := t) hp
    obtain ⟨h31, h32⟩ := findArr_some_iff.mp h3
    obtain ⟨pn'', h33, _, _, h34⟩ := find_makeTomb_kind (x := sx.2) (t := t) hp1
    have hpar : pn'.parent = pn.parent := by
      rw [h31] at h33; simp only [Option.some.injEq] at h33; rw [h33]; exact h34
    simp only [h3]
    rw [abs_setArr h31 h32, hmt, hE, setArr_kill hB, setArr_setArr, hpar]
    have hstep : aDelStep t sx.2 (refSt d sx.2) = ⟨sx.2, ⟨true, t, none⟩, -1, some sx.2⟩ := by
      simp only [aDelStep, refSt, h1', Bool.not_false, if_true, Bool.false_eq_true, if_false]
    rw [hstep]
    have : sz - (0 + 1) = sz + -1 := by omega
    simp only [this]

/-- after relinking the slot `tg` to a new child `c`, nothing references the old child -/
theorem old_unlinked {d1 : Doc} (hwf1 : d1.WF) {p tg c : Ts} {pn : DNode} {sl : List (Ts × Ts)} {sz : Int}
    {sx : Ts × Ts} (hp2 : d1.find p = some pn) (hk : pn.kind = .arr sl sz)
    (hs : sl.find? (fun s => s.1 = tg) = some sx) (hcn : c ∉ sl.map (·.2)) :
    ∀ q n, (d1.set { pn with kind := .arr (setSlotChild tg c sl) sz }).find q = some n → sx.2 ∉ kids n.kind := by
  have hkn : (sl.map (·.2)).Nodup := by
    have := hwf1.inj p pn hp2; rw [hk] at this; exact this
  obtain ⟨_, k2⟩ := setSlotChild_kids (c := c) hs hkn hcn
  intro q n hq hmem
  rw [find_set] at hq
  have hpc := find_some_c hp2
  by_cases e : pn.c = q
  · simp only [e, if_true, Option.some.injEq] at hq
    subst hq
    exact k2 hmem
  · simp only [e, if_false] at hq
    have hold : sx.2 ∈ kids pn.kind := by
      rw [hk]; exact List.mem_map.mpr ⟨sx, List.mem_of_find?_eq_some hs, rfl⟩
    have := wf_unique_parent hwf1 hp2 hq hold hmem
    rw [hpc] at e; exact e this

theorem abs_upd1 {d : Doc} (hwf : d.WF) {p tg t : Ts} {v : JVal} (h : EOK d (.upd1 p tg t v)) :
    abs (applyE d (.upd1 p tg t v)) = absE (.upd1 p tg t v) (abs d) := by
  obtain ⟨harr, ⟨ns, c, t', hc⟩, hf, htg⟩ := h
  have hroot := createNode_root hc
  subst hroot
  obtain ⟨pn, sl, sz, hp⟩ := isArr_iff.mp harr
  have hn : nodesE (.upd1 p tg c v) = ns := by simp [nodesE, hc]
  rw [hn] at hf
  obtain ⟨hp1, hk⟩ := findArr_some_iff.mp hp
  have hb : Block c ns t' := (createNode_spec p c v _ hc).1
  have hwf1 : (d.addAll ns).WF := wf_addAll hwf hb hf
  have hp2 : (d.addAll ns).find p = some pn := find_addAll_old hf hp1
  have hp3 : (d.addAll ns).findArr p = some (pn, sl, sz) := findArr_some_iff.mpr ⟨hp2, hk⟩
  have hunl := root_unlinked hwf hc hf
  obtain ⟨sx, hsx, hsm, _⟩ := target_slot htg
  rw [slotsOf_of_findArr hp] at hsx hsm
  have hA1 : abs (d.addAll ns) = union (abs d) (abs ⟨ns⟩) := abs_addAll hwf hb hf
  have hshape : (abs (d.addAll ns)).shape p = some (pn.parent, .arr (sl.map (entOf (d.addAll ns)))) :=
    shapeOf_arr hp2 hk
  have hsize : (abs (d.addAll ns)).size p = sz := sizeOf_arr hp2 hk
  have hfind : (sl.map (entOf (d.addAll ns))).find? (fun e => e.1 = tg) = some (entOf (d.addAll ns) sx) := by
    rw [find?_map_entOf, hsx]; rfl
  have habs : absE (.upd1 p tg c v) (abs d) =
      kill (setArr (abs (d.addAll ns)) p pn.parent
        (setEntry tg (aUpdStep c sx.2 (refSt (d.addAll ns) sx.2)).c (aUpdStep c sx.2 (refSt (d.addAll ns) sx.2)).st
          (sl.map (entOf (d.addAll ns))))
        (sz + (aUpdStep c sx.2 (refSt (d.addAll ns) sx.2)).dsize)) (aUpdStep c sx.2 (refSt (d.addAll ns) sx.2)).bury := by
    simp only [absE, hn, ← hA1, applySlot, hshape, hfind, hsize]
    rfl
  rw [habs]
  simp only [applyE, EOp.toA, applyA, Doc.updateRemoteInArray, hp, Doc.updateRemoteInArray.go, hc, hp3, hsx]
  by_cases hw : (!(d.addAll ns).isTomb sx.2 && ((d.addAll ns).timeOf sx.2).cmp c == Ordering.lt) = true
  · simp only [hw, if_true]
    obtain ⟨n0, hn0, _, hn0m, hn0d⟩ := root_find (d := d) hc
    have hn0c : n0.c = c := find_some_c hn0
    have hcn : c ∉ sl.map (·.2) := by
      have := hunl p pn hp2; rw [hk] at this; exact this
    rw [abs_funeral _ _ (old_unlinked hwf1 hp2 hk hsx hcn), abs_setArr hp2 hk, map_entOf_setSlotChild]
    have hrc : refSt (d.addAll ns) c = ⟨false, c, some c⟩ := by
      have := refSt_new (d := d) (block_ids_nodup hb) hn0m hn0d
      rw [hn0c] at this; exact this
    have hlive : (d.addAll ns).isTomb sx.2 = false := by
      cases hh : (d.addAll ns).isTomb sx.2 with
      | false => rfl
      | true => simp [hh] at hw
    have hstep : aUpdStep c sx.2 (refSt (d.addAll ns) sx.2) = ⟨c, ⟨false, c, some c⟩, 0, some sx.2⟩ := by
      have : (!(refSt (d.addAll ns) sx.2).tomb && (refSt (d.addAll ns) sx.2).time.cmp c == Ordering.lt) = true := hw
      simp only [aUpdStep, this, if_true, refSt_occ_live hlive]
    rw [hstep, hrc]
    simp only [Int.add_zero]
  · simp only [hw, Bool.false_eq_true, if_false]
    rw [abs_funeral _ _ hunl]
    have hstep : aUpdStep c sx.2 (refSt (d.addAll ns) sx.2) = ⟨sx.2, refSt (d.addAll ns) sx.2, 0, some c⟩ := by
      have : ¬ (!(refSt (d.addAll ns) sx.2).tomb && (refSt (d.addAll ns) sx.2).time.cmp c == Ordering.lt) = true := hw
      simp only [aUpdStep, this, Bool.false_eq_true, if_false]
    rw [hstep]
    simp only [Int.add_zero]
    have := setEntry_same hfind
    simp only [entOf] at this
    rw [this, ← hsize, setArr_same hshape]

theorem abs_ins {d : Doc} (hwf : d.WF) {p an ts : Ts} {vs : List JVal} (h : EOK d (.ins p an ts vs)) :
    abs (applyE d (.ins p an ts vs)) = absE (.ins p an ts vs) (abs d) := by
  obtain ⟨harr, ⟨ns, cs, t', hc⟩, hf, _, _⟩ := h
  obtain ⟨pn, sl, sz, hp⟩ := isArr_iff.mp harr
  have hn : nodesE (.ins p an ts vs) = ns := by simp [nodesE, hc]
  have hcs : newSlots (.ins p an ts vs) = cs := by simp [newSlots, hc]
  rw [hn] at hf
  obtain ⟨hp1, hk⟩ := findArr_some_iff.mp hp
  obtain ⟨hb, _, hroots⟩ := createMany_block hc
  have hp2 : (d.addAll ns).find p = some pn := find_addAll_old hf hp1
  have hA1 : abs (d.addAll ns) = union (abs d) (abs ⟨ns⟩) := abs_addAll hwf hb hf
  have hshape : (abs (d.addAll ns)).shape p = some (pn.parent, .arr (sl.map (entOf (d.addAll ns)))) :=
    shapeOf_arr hp2 hk
  have hsize : (abs (d.addAll ns)).size p = sz := sizeOf_arr hp2 hk
  have hnew : (cs.map fun c => (c, c)).map (entOf (d.addAll ns)) = cs.map newEnt := by
    rw [List.map_map]
    apply List.map_congr_left
    intro c hcm
    obtain ⟨nc, hnc, e1, _⟩ := hroots c hcm
    have := refSt_new (d := d) (block_ids_nodup hb) hnc (hb.live nc hnc)
    rw [e1] at this
    simp only [Function.comp, entOf, newEnt, this]
  have hloop := insertAfterId_map (fun (x : Ts × Ts) => x.1) (fun (e : Ent) => e.1) (entOf (d.addAll ns))
    (fun _ => rfl) an (cs.map fun c => (c, c)) sl
  rw [hnew] at hloop
  simp only [absE, hn, hcs, ← hA1, insSlots, hshape, ← hloop, hsize]
  simp only [applyE, EOp.toA, applyA, Doc.insertRemoteInArray, hp, hc]
  cases hi : insertAfterId (fun (s : Ts × Ts) => s.1) an (cs.map fun c => (c, c)) sl with
  | none => rfl
  | some sl' =>
    simp only [Option.map_some]
    rw [abs_setArr hp2 hk]

/-- **the concrete operation is the abstract one**: `DC.abs` after an applicable remote array operation is
    a function (`absE`) of `DC.abs` before -/
theorem abs_applyE {d : Doc} (hwf : d.WF) : ∀ (e : EOp), EOK d e → abs (applyE d e) = absE e (abs d)
  | .ins _ _ _ _, h => abs_ins hwf h
  | .del1 _ _ _, h => abs_del1 hwf h
  | .upd1 _ _ _ _, h => abs_upd1 hwf h

/-! ## 5. the coarse observation: forget WHICH node occupies a slot, keep its state

`DC.Sim` records the child identifier of every slot, also of a tombstoned one; an update and a delete of
the same slot leave different tombstoned children behind (`Ex.upd_del_not_sim`).  `ASim` forgets the child
identifier in the array skeletons (the live occupant is still there, in the state's `occ`). -/

def erase (e : Ent) : Ent := (e.1, Ts.oldest, e.2.2)

def cshape : Option (Option Ts × Shape) → Option (Option Ts × Shape)
  | some (par, .arr E) => some (par, .arr (E.map erase))
  | x => x

structure CEq (A B : Abs) : Prop where
  shape : ∀ c, cshape (A.shape c) = cshape (B.shape c)
  dead : ∀ c, A.dead c = B.dead c
  key : ∀ c k, A.key c k = B.key c k
  size : ∀ c, A.size c = B.size c

/-- observational equivalence of documents with arrays -/
def ASim (a b : Doc) : Prop := CEq (abs a) (abs b)

theorem ceq_refl (A : Abs) : CEq A A := ⟨fun _ => rfl, fun _ => rfl, fun _ _ => rfl, fun _ => rfl⟩
theorem ceq_symm {A B : Abs} (h : CEq A B) : CEq B A :=
  ⟨fun c => (h.shape c).symm, fun c => (h.dead c).symm, fun c k => (h.key c k).symm, fun c => (h.size c).symm⟩
theorem ceq_trans {A B C : Abs} (h1 : CEq A B) (h2 : CEq B C) : CEq A C :=
  ⟨fun c => (h1.shape c).trans (h2.shape c), fun c => (h1.dead c).trans (h2.dead c),
   fun c k => (h1.key c k).trans (h2.key c k), fun c => (h1.size c).trans (h2.size c)⟩
theorem ceq_of_eq {A B : Abs} (h : A = B) : CEq A B := h ▸ ceq_refl A

theorem asim_refl (a : Doc) : ASim a a := ceq_refl _
theorem asim_symm {a b : Doc} (h : ASim a b) : ASim b a := ceq_symm h
theorem asim_trans {a b c : Doc} (h1 : ASim a b) (h2 : ASim b c) : ASim a c := ceq_trans h1 h2
theorem asim_equivalence : Equivalence ASim := ⟨asim_refl, asim_symm, asim_trans⟩
theorem asim_of_sim {a b : Doc} (h : Sim a b) : ASim a b := ceq_of_eq h
theorem asim_of_docEq {a b : Doc} (h : DocEq a b) : ASim a b := asim_of_sim (sim_of_docEq h)

theorem isElem_cshape (s : Option (Option Ts × Shape)) : Shape.isElem (cshape s) = Shape.isElem s := by
  cases s with
  | none => rfl
  | some x => obtain ⟨par, sh⟩ := x; cases sh <;> rfl

theorem isCont_cshape (s : Option (Option Ts × Shape)) : Shape.isCont (cshape s) = Shape.isCont s := by
  cases s with
  | none => rfl
  | some x => obtain ⟨par, sh⟩ := x; cases sh <;> rfl

theorem cshape_or (a b : Option (Option Ts × Shape)) : cshape (a.or b) = (cshape a).or (cshape b) := by
  cases a with
  | none => rfl
  | some x => obtain ⟨par, sh⟩ := x; cases sh <;> rfl

theorem cshape_arr_inv {a b : Option (Option Ts × Shape)} (h : cshape a = cshape b) {par : Option Ts}
    {EA : List Ent} (ha : a = some (par, .arr EA)) :
    ∃ EB, b = some (par, .arr EB) ∧ EA.map erase = EB.map erase := by
  subst ha
  cases b with
  | none => simp [cshape] at h
  | some x =>
    obtain ⟨par', sh⟩ := x
    cases sh with
    | elem v => simp [cshape] at h
    | obj => simp [cshape] at h
    | arr EB =>
      simp only [cshape, Option.some.injEq, Prod.mk.injEq, Shape.arr.injEq] at h
      exact ⟨EB, by rw [h.1], h.2⟩

theorem cshape_not_arr {a b : Option (Option Ts × Shape)} (h : cshape a = cshape b)
    (ha : ∀ par E, a ≠ some (par, .arr E)) : b = a := by
  cases a with
  | none =>
    cases b with
    | none => rfl
    | some x => obtain ⟨par', sh⟩ := x; cases sh <;> simp [cshape] at h
  | some y =>
    obtain ⟨par, sh⟩ := y
    cases sh with
    | arr E => exact absurd rfl (ha par E)
    | elem v =>
      cases b with
      | none => simp [cshape] at h
      | some x => obtain ⟨par', sh'⟩ := x; cases sh' <;> simp_all [cshape]
    | obj =>
      cases b with
      | none => simp [cshape] at h
      | some x => obtain ⟨par', sh'⟩ := x; cases sh' <;> simp_all [cshape]

theorem ceq_kill {A B : Abs} (h : CEq A B) (x : Option Ts) : CEq (kill A x) (kill B x) := by
  cases x with
  | none => exact h
  | some x =>
    have he : Shape.isElem (A.shape x) = Shape.isElem (B.shape x) := by
      rw [← isElem_cshape, h.shape x, isElem_cshape]
    have hc : Shape.isCont (A.shape x) = Shape.isCont (B.shape x) := by
      rw [← isCont_cshape, h.shape x, isCont_cshape]
    refine ⟨?_, ?_, h.key, h.size⟩
    · intro c
      simp only [kill, he]
      split
      · rfl
      · exact h.shape c
    · intro c
      simp only [kill, hc, h.dead]

theorem ceq_union {A B : Abs} (h : CEq A B) (N : Abs) : CEq (union A N) (union B N) := by
  refine ⟨?_, ?_, ?_, ?_⟩
  · intro c; simp only [union, cshape_or, h.shape c]
  · intro c; simp only [union, h.dead c]
  · intro c k; simp only [union, h.key c k]
  · intro c; simp only [union, h.size c]

theorem ceq_setArr {A B : Abs} (h : CEq A B) (p : Ts) (par : Option Ts) {E E' : List Ent}
    (hE : E.map erase = E'.map erase) (s : Int) : CEq (setArr A p par E s) (setArr B p par E' s) := by
  refine ⟨?_, h.dead, h.key, ?_⟩
  · intro c
    simp only [setArr]
    by_cases e : c = p
    · simp only [e, if_true, cshape, hE]
    · simp only [e, if_false]; exact h.shape c
  · intro c
    simp only [setArr]
    by_cases e : c = p
    · simp only [e, if_true]
    · simp only [e, if_false]; exact h.size c

theorem find?_erase {tg : Ts} : ∀ {EA EB : List Ent}, EA.map erase = EB.map erase →
    ∀ {eA : Ent}, EA.find? (fun e => e.1 = tg) = some eA →
    ∃ eB, EB.find? (fun e => e.1 = tg) = some eB ∧ eB.2.2 = eA.2.2
  | [], _, _, _, h => by simp at h
  | x :: xs, [], h, _, _ => by simp at h
  | x :: xs, y :: ys, h, eA, hf => by
      simp only [List.map_cons, List.cons.injEq] at h
      have h1 : x.1 = y.1 := by have := congrArg (fun e : Ent => e.1) h.1; exact this
      have h2 : x.2.2 = y.2.2 := by have := congrArg (fun e : Ent => e.2.2) h.1; exact this
      by_cases e : x.1 = tg
      · simp only [List.find?_cons, e, decide_true, Option.some.injEq] at hf
        subst hf
        refine ⟨y, by simp [List.find?_cons, ← h1, e], h2.symm⟩
      · simp only [List.find?_cons, e, decide_false] at hf
        obtain ⟨eB, h3, h4⟩ := find?_erase h.2 hf
        have : ¬ y.1 = tg := by rw [← h1]; exact e
        exact ⟨eB, by simp [List.find?_cons, this, h3], h4⟩

theorem find?_erase_none {tg : Ts} : ∀ {EA EB : List Ent}, EA.map erase = EB.map erase →
    EA.find? (fun e => e.1 = tg) = none → EB.find? (fun e => e.1 = tg) = none
  | [], [], _, _ => rfl
  | [], _ :: _, h, _ => by simp at h
  | x :: xs, [], h, _ => by simp at h
  | x :: xs, y :: ys, h, hf => by
      simp only [List.map_cons, List.cons.injEq] at h
      have h1 : x.1 = y.1 := by have := congrArg (fun e : Ent => e.1) h.1; exact this
      by_cases e : x.1 = tg
      · simp [List.find?_cons, e] at hf
      · simp only [List.find?_cons, e, decide_false] at hf
        have : ¬ y.1 = tg := by rw [← h1]; exact e
        simp only [List.find?_cons, this, decide_false]
        exact find?_erase_none h.2 hf

theorem setEntry_erase {tg c c' : Ts} {st : KeySt} : ∀ {EA EB : List Ent}, EA.map erase = EB.map erase →
    (setEntry tg c st EA).map erase = (setEntry tg c' st EB).map erase
  | [], [], _ => rfl
  | [], _ :: _, h => by simp at h
  | x :: xs, [], h => by simp at h
  | x :: xs, y :: ys, h => by
      simp only [List.map_cons, List.cons.injEq] at h
      have h1 : x.1 = y.1 := by have := congrArg (fun e : Ent => e.1) h.1; exact this
      by_cases e : x.1 = tg
      · have e' : y.1 = tg := by rw [← h1]; exact e
        simp [setEntry, e, e', erase, h.2]
      · have e' : ¬ y.1 = tg := by rw [← h1]; exact e
        simp [setEntry, e, e', h.1, setEntry_erase (c := c) (c' := c') (st := st) h.2]

/-- the decisions of a slot step do not depend on the identity of the child -/
def ChildFree (f : Ts → KeySt → SStep) : Prop :=
  ∀ c c' st, (f c st).st = (f c' st).st ∧ (f c st).dsize = (f c' st).dsize ∧ (f c st).bury = (f c' st).bury

theorem childFree_del (t : Ts) : ChildFree (aDelStep t) := by
  intro c c' st
  unfold aDelStep
  split
  · exact ⟨rfl, rfl, rfl⟩
  · split <;> exact ⟨rfl, rfl, rfl⟩

theorem childFree_upd (n : Ts) : ChildFree (aUpdStep n) := by
  intro c c' st
  unfold aUpdStep
  split <;> exact ⟨rfl, rfl, rfl⟩

theorem ceq_applySlot {A B : Abs} (h : CEq A B) (p tg : Ts) {f : Ts → KeySt → SStep} (hf : ChildFree f) :
    CEq (applySlot A p tg f) (applySlot B p tg f) := by
  have hsh := h.shape p
  unfold applySlot
  cases hA : A.shape p with
  | none =>
    have : B.shape p = none := by rw [hA] at hsh; exact (cshape_not_arr hsh (by simp))
    rw [this]; exact h
  | some x =>
    obtain ⟨par, sh⟩ := x
    cases sh with
    | elem v =>
      have : B.shape p = some (par, .elem v) := by rw [hA] at hsh; exact (cshape_not_arr hsh (by simp))
      rw [this]; exact h
    | obj =>
      have : B.shape p = some (par, .obj) := by rw [hA] at hsh; exact (cshape_not_arr hsh (by simp))
      rw [this]; exact h
    | arr EA =>
      obtain ⟨EB, hB, hE⟩ := cshape_arr_inv hsh hA
      rw [hB]
      simp only
      cases hfa : EA.find? (fun e => e.1 = tg) with
      | none => rw [find?_erase_none hE hfa]; exact h
      | some eA =>
        obtain ⟨eB, hfb, hst⟩ := find?_erase hE hfa
        rw [hfb]
        simp only
        rw [hst]
        obtain ⟨h1, h2, h3⟩ := hf eB.2.1 eA.2.1 eA.2.2
        rw [h2, h3, h.size p]
        apply ceq_kill
        apply ceq_setArr h
        rw [h1]
        exact setEntry_erase hE

theorem erase_newEnt (c : Ts) : (erase (newEnt c)).1 = c := rfl

theorem ceq_insSlots {A B : Abs} (h : CEq A B) (p an : Ts) (cs : List Ts) :
    CEq (insSlots A p an cs) (insSlots B p an cs) := by
  have hsh := h.shape p
  unfold insSlots
  cases hA : A.shape p with
  | none =>
    have : B.shape p = none := by rw [hA] at hsh; exact (cshape_not_arr hsh (by simp))
    rw [this]; exact h
  | some x =>
    obtain ⟨par, sh⟩ := x
    cases sh with
    | elem v =>
      have : B.shape p = some (par, .elem v) := by rw [hA] at hsh; exact (cshape_not_arr hsh (by simp))
      rw [this]; exact h
    | obj =>
      have : B.shape p = some (par, .obj) := by rw [hA] at hsh; exact (cshape_not_arr hsh (by simp))
      rw [this]; exact h
    | arr EA =>
      obtain ⟨EB, hB, hE⟩ := cshape_arr_inv hsh hA
      rw [hB]
      simp only
      have lA := insertAfterId_map (fun (e : Ent) => e.1) (fun (e : Ent) => e.1) erase (fun _ => rfl) an
        (cs.map newEnt) EA
      have lB := insertAfterId_map (fun (e : Ent) => e.1) (fun (e : Ent) => e.1) erase (fun _ => rfl) an
        (cs.map newEnt) EB
      rw [hE] at lA
      have hl := lA.trans lB.symm
      cases hiA : insertAfterId (fun (e : Ent) => e.1) an (cs.map newEnt) EA with
      | none =>
        rw [hiA] at hl
        cases hiB : insertAfterId (fun (e : Ent) => e.1) an (cs.map newEnt) EB with
        | none => exact h
        | some E' => rw [hiB] at hl; simp at hl
      | some E' =>
        rw [hiA] at hl
        cases hiB : insertAfterId (fun (e : Ent) => e.1) an (cs.map newEnt) EB with
        | none => rw [hiB] at hl; simp at hl
        | some E'' =>
          rw [hiB] at hl
          simp only [Option.map_some, Option.some.injEq] at hl
          simp only
          rw [h.size p]
          exact ceq_setArr h p par hl _

/-- the abstract operations respect the coarse equivalence -/
theorem ceq_absE (e : EOp) {A B : Abs} (h : CEq A B) : CEq (absE e A) (absE e B) := by
  cases e with
  | ins p an ts vs => exact ceq_insSlots (ceq_union h _) _ _ _
  | del1 p tg t => exact ceq_applySlot h _ _ (childFree_del t)
  | upd1 p tg t v => exact ceq_applySlot (ceq_union h _) _ _ (childFree_upd t)

/-- an applicable operation respects `ASim` (and `DC.Sim`) -/
theorem asim_congr {z z' : Doc} (hz : z.WF) (hz' : z'.WF) {e : EOp} (h1 : EOK z e) (h2 : EOK z' e)
    (h : ASim z z') : ASim (applyE z e) (applyE z' e) := by
  unfold ASim
  rw [abs_applyE hz e h1, abs_applyE hz' e h2]
  exact ceq_absE e h

theorem sim_congr {z z' : Doc} (hz : z.WF) (hz' : z'.WF) {e : EOp} (h1 : EOK z e) (h2 : EOK z' e)
    (h : Sim z z') : Sim (applyE z e) (applyE z' e) := by
  unfold Sim at *
  rw [abs_applyE hz e h1, abs_applyE hz' e h2, h]

/-! ## 6. two operations on the SAME slot -/

/-- what two steps on one slot do together: final child and state, total size change, the two burials -/
structure SComm (f1 f2 : Ts → KeySt → SStep) (c0 : Ts) (st0 : KeySt) : Prop where
  st : (f2 (f1 c0 st0).c (f1 c0 st0).st).st = (f1 (f2 c0 st0).c (f2 c0 st0).st).st
  dsize : (f1 c0 st0).dsize + (f2 (f1 c0 st0).c (f1 c0 st0).st).dsize =
    (f2 c0 st0).dsize + (f1 (f2 c0 st0).c (f2 c0 st0).st).dsize
  bury : ((f1 c0 st0).bury = (f1 (f2 c0 st0).c (f2 c0 st0).st).bury ∧
      (f2 (f1 c0 st0).c (f1 c0 st0).st).bury = (f2 c0 st0).bury) ∨
    ((f1 c0 st0).bury = (f2 c0 st0).bury ∧
      (f2 (f1 c0 st0).c (f1 c0 st0).st).bury = (f1 (f2 c0 st0).c (f2 c0 st0).st).bury)

def ltb (a b : Ts) : Bool := a.cmp b == .lt

theorem ltb_trans {a b c : Ts} (h1 : ltb a b = true) (h2 : ltb b c = true) : ltb a c = true := by
  unfold ltb at *
  simp only [beq_iff_eq] at *
  exact cmp_lt_trans a b c h1 h2

theorem ltb_asymm {a b : Ts} (h1 : ltb a b = true) : ltb b a = false := by
  unfold ltb at *
  simp only [beq_iff_eq] at h1
  cases h : b.cmp a == Ordering.lt with
  | false => rfl
  | true =>
    simp only [beq_iff_eq] at h
    exact absurd (cmp_lt_trans _ _ _ h1 h) (cmp_lt_irrefl a)

theorem ltb_total {a b : Ts} (h : a.cmp b ≠ .eq) : (ltb a b = true ∧ ltb b a = false) ∨ (ltb b a = true ∧ ltb a b = false) := by
  rcases cmp_lt_or_gt h with h1 | h1
  · left; exact ⟨by simp [ltb, h1], ltb_asymm (by simp [ltb, h1])⟩
  · right; exact ⟨by simp [ltb, h1], ltb_asymm (by simp [ltb, h1])⟩

/-- negative transitivity of the strict weak order -/
theorem ltb_neg_trans {a b c : Ts} (h1 : ltb a b = false) (h2 : ltb b c = false) : ltb a c = false := by
  cases h : ltb a c with
  | false => rfl
  | true =>
    exfalso
    unfold ltb at *
    simp only [beq_iff_eq, beq_eq_false_iff_ne, ne_eq] at *
    -- a < c, ¬ a < b, ¬ b < c
    have hba : b.cmp a ≠ .gt := fun e => h1 ((cmp_gt_iff_lt b a).mp e)
    have : b.cmp c = .lt := RF.cmp_lt_of_le_of_lt hba h
    exact h2 this

theorem aDelStep_eq (t c : Ts) (st : KeySt) : aDelStep t c st =
    if !st.tomb then ⟨c, ⟨true, t, none⟩, -1, st.occ⟩
    else if ltb st.time t then ⟨c, ⟨true, t, none⟩, 0, none⟩ else ⟨c, st, 0, none⟩ := rfl

theorem aUpdStep_eq (n c : Ts) (st : KeySt) : aUpdStep n c st =
    if !st.tomb && ltb st.time n then ⟨n, ⟨false, n, some n⟩, 0, st.occ⟩ else ⟨c, st, 0, some n⟩ := rfl

theorem scomm_del_del {t1 t2 : Ts} (hne : t1.cmp t2 ≠ .eq) (c0 : Ts) (st0 : KeySt) :
    SComm (aDelStep t1) (aDelStep t2) c0 st0 ∧
      (aDelStep t2 (aDelStep t1 c0 st0).c (aDelStep t1 c0 st0).st).c =
        (aDelStep t1 (aDelStep t2 c0 st0).c (aDelStep t2 c0 st0).st).c := by
  obtain ⟨tomb, τ, occ⟩ := st0
  rcases ltb_total hne with ⟨h12, h21⟩ | ⟨h21, h12⟩
  · cases tomb
    · refine ⟨⟨?_, ?_, ?_⟩, ?_⟩ <;> simp [aDelStep_eq, h12, h21]
    · by_cases a1 : ltb τ t1 = true <;> by_cases a2 : ltb τ t2 = true
      · refine ⟨⟨?_, ?_, ?_⟩, ?_⟩ <;> simp [aDelStep_eq, a1, a2, h12, h21]
      · exact absurd (ltb_trans a1 h12) a2
      · refine ⟨⟨?_, ?_, ?_⟩, ?_⟩ <;> simp [aDelStep_eq, a1, a2, h12, h21]
      · refine ⟨⟨?_, ?_, ?_⟩, ?_⟩ <;> simp [aDelStep_eq, a1, a2, h12, h21]
  · cases tomb
    · refine ⟨⟨?_, ?_, ?_⟩, ?_⟩ <;> simp [aDelStep_eq, h12, h21]
    · by_cases a1 : ltb τ t1 = true <;> by_cases a2 : ltb τ t2 = true
      · refine ⟨⟨?_, ?_, ?_⟩, ?_⟩ <;> simp [aDelStep_eq, a1, a2, h12, h21]
      · refine ⟨⟨?_, ?_, ?_⟩, ?_⟩ <;> simp [aDelStep_eq, a1, a2, h12, h21]
      · exact absurd (ltb_trans a2 h21) a1
      · refine ⟨⟨?_, ?_, ?_⟩, ?_⟩ <;> simp [aDelStep_eq, a1, a2, h12, h21]

theorem scomm_upd_upd {n1 n2 : Ts} (hne : n1.cmp n2 ≠ .eq) (c0 : Ts) (st0 : KeySt) :
    SComm (aUpdStep n1) (aUpdStep n2) c0 st0 ∧
      (aUpdStep n2 (aUpdStep n1 c0 st0).c (aUpdStep n1 c0 st0).st).c =
        (aUpdStep n1 (aUpdStep n2 c0 st0).c (aUpdStep n2 c0 st0).st).c := by
  obtain ⟨tomb, τ, occ⟩ := st0
  rcases ltb_total hne with ⟨h12, h21⟩ | ⟨h21, h12⟩
  · cases tomb
    · by_cases a1 : ltb τ n1 = true <;> by_cases a2 : ltb τ n2 = true
      · refine ⟨⟨?_, ?_, ?_⟩, ?_⟩ <;> simp [aUpdStep_eq, a1, a2, h12, h21]
      · exact absurd (ltb_trans a1 h12) a2
      · refine ⟨⟨?_, ?_, ?_⟩, ?_⟩ <;> simp [aUpdStep_eq, a1, a2, h12, h21]
      · refine ⟨⟨?_, ?_, ?_⟩, ?_⟩ <;> simp [aUpdStep_eq, a1, a2, h12, h21]
    · refine ⟨⟨?_, ?_, ?_⟩, ?_⟩ <;> simp [aUpdStep_eq]
  · cases tomb
    · by_cases a1 : ltb τ n1 = true <;> by_cases a2 : ltb τ n2 = true
      · refine ⟨⟨?_, ?_, ?_⟩, ?_⟩ <;> simp [aUpdStep_eq, a1, a2, h12, h21]
      · refine ⟨⟨?_, ?_, ?_⟩, ?_⟩ <;> simp [aUpdStep_eq, a1, a2, h12, h21]
      · exact absurd (ltb_trans a2 h21) a1
      · refine ⟨⟨?_, ?_, ?_⟩, ?_⟩ <;> simp [aUpdStep_eq, a1, a2, h12, h21]
    · refine ⟨⟨?_, ?_, ?_⟩, ?_⟩ <;> simp [aUpdStep_eq]

/-- update / delete of one slot: same state, same size, same burials in both orders — whatever the
    timestamps (delete dominates); only the tombstoned child differs -/
theorem scomm_upd_del (n t : Ts) (c0 : Ts) (st0 : KeySt) : SComm (aUpdStep n) (aDelStep t) c0 st0 := by
  obtain ⟨tomb, τ, occ⟩ := st0
  cases tomb
  · by_cases a1 : ltb τ n = true
    · refine ⟨?_, ?_, ?_⟩ <;> simp [aUpdStep_eq, aDelStep_eq, a1]
    · refine ⟨?_, ?_, ?_⟩ <;> simp [aUpdStep_eq, aDelStep_eq, a1]
  · by_cases a2 : ltb τ t = true
    · refine ⟨?_, ?_, ?_⟩ <;> simp [aUpdStep_eq, aDelStep_eq, a2]
    · refine ⟨?_, ?_, ?_⟩ <;> simp [aUpdStep_eq, aDelStep_eq, a2]

theorem scomm_symm {f1 f2 : Ts → KeySt → SStep} {c0 : Ts} {st0 : KeySt} (h : SComm f1 f2 c0 st0) :
    SComm f2 f1 c0 st0 := by
  obtain ⟨h1, h2, h3⟩ := h
  refine ⟨h1.symm, h2.symm, ?_⟩
  rcases h3 with ⟨a, b⟩ | ⟨a, b⟩
  · exact Or.inl ⟨b.symm, a.symm⟩
  · exact Or.inr ⟨a.symm, b.symm⟩

theorem kill_shape_arr {B : Abs} (x : Option Ts) {p : Ts} {par : Option Ts} {E : List Ent}
    (h : B.shape p = some (par, .arr E)) : (kill B x).shape p = some (par, .arr E) := by
  cases x with
  | none => exact h
  | some x =>
    simp only [kill]
    by_cases e : p = x
    · subst e; simp [h, Shape.isElem]
    · simp [e, h]

theorem kill_size (B : Abs) (x : Option Ts) : (kill B x).size = B.size := by
  cases x <;> rfl

theorem find?_setEntry {tg c : Ts} {st : KeySt} : ∀ {E : List Ent} {e : Ent},
    E.find? (fun e => e.1 = tg) = some e → (setEntry tg c st E).find? (fun e => e.1 = tg) = some (tg, c, st)
  | [], _, h => by simp at h
  | y :: ys, e, h => by
      unfold setEntry
      by_cases hy : y.1 = tg
      · simp [hy, List.find?_cons]
      · simp only [List.find?_cons, hy, decide_false] at h
        simp only [hy, if_false, List.find?_cons, decide_false]
        exact find?_setEntry h

theorem setEntry_setEntry (tg c1 c2 : Ts) (st1 st2 : KeySt) : ∀ E : List Ent,
    setEntry tg c2 st2 (setEntry tg c1 st1 E) = setEntry tg c2 st2 E
  | [] => rfl
  | y :: ys => by
      by_cases hy : y.1 = tg
      · simp [setEntry, hy]
      · simp [setEntry, hy, setEntry_setEntry tg c1 c2 st1 st2 ys]

theorem applySlot_eq {A : Abs} {p tg : Ts} (f : Ts → KeySt → SStep) {par : Option Ts} {E : List Ent} {e : Ent}
    (hA : A.shape p = some (par, .arr E)) (he : E.find? (fun e => e.1 = tg) = some e) :
    applySlot A p tg f =
      kill (setArr A p par (setEntry tg (f e.2.1 e.2.2).c (f e.2.1 e.2.2).st E) (A.size p + (f e.2.1 e.2.2).dsize))
        (f e.2.1 e.2.2).bury := by
  simp only [applySlot, hA, he]

theorem applySlot_applySlot {A : Abs} {p tg : Ts} (f1 f2 : Ts → KeySt → SStep) {par : Option Ts} {E : List Ent}
    {e : Ent} (hA : A.shape p = some (par, .arr E)) (he : E.find? (fun e => e.1 = tg) = some e) :
    applySlot (applySlot A p tg f1) p tg f2 =
      kill (kill (setArr A p par
        (setEntry tg (f2 (f1 e.2.1 e.2.2).c (f1 e.2.1 e.2.2).st).c (f2 (f1 e.2.1 e.2.2).c (f1 e.2.1 e.2.2).st).st E)
        (A.size p + (f1 e.2.1 e.2.2).dsize + (f2 (f1 e.2.1 e.2.2).c (f1 e.2.1 e.2.2).st).dsize))
        (f1 e.2.1 e.2.2).bury) (f2 (f1 e.2.1 e.2.2).c (f1 e.2.1 e.2.2).st).bury := by
  rw [applySlot_eq f1 hA he]
  have hB : (setArr A p par (setEntry tg (f1 e.2.1 e.2.2).c (f1 e.2.1 e.2.2).st E)
      (A.size p + (f1 e.2.1 e.2.2).dsize)).shape p =
      some (par, .arr (setEntry tg (f1 e.2.1 e.2.2).c (f1 e.2.1 e.2.2).st E)) := by simp [setArr]
  rw [applySlot_eq f2 (kill_shape_arr _ hB) (find?_setEntry he)]
  simp only [kill_size]
  rw [setArr_kill hB, setArr_setArr, setEntry_setEntry]
  simp [setArr]

/-- the abstract steps on one slot commute: up to the child recorded in the skeleton (`CEq`) … -/
theorem applySlot_comm_ceq {A : Abs} {p tg : Ts} {f1 f2 : Ts → KeySt → SStep} {par : Option Ts} {E : List Ent}
    {e : Ent} (hA : A.shape p = some (par, .arr E)) (he : E.find? (fun e => e.1 = tg) = some e)
    (hc : SComm f1 f2 e.2.1 e.2.2) :
    CEq (applySlot (applySlot A p tg f1) p tg f2) (applySlot (applySlot A p tg f2) p tg f1) := by
  rw [applySlot_applySlot f1 f2 hA he, applySlot_applySlot f2 f1 hA he]
  obtain ⟨h1, h2, h3⟩ := hc
  have hsz : A.size p + (f1 e.2.1 e.2.2).dsize + (f2 (f1 e.2.1 e.2.2).c (f1 e.2.1 e.2.2).st).dsize =
      A.size p + (f2 e.2.1 e.2.2).dsize + (f1 (f2 e.2.1 e.2.2).c (f2 e.2.1 e.2.2).st).dsize := by omega
  rw [hsz, h1]
  have hbase := ceq_setArr (ceq_refl A) p par
    (setEntry_erase (tg := tg) (c := (f2 (f1 e.2.1 e.2.2).c (f1 e.2.1 e.2.2).st).c)
      (c' := (f1 (f2 e.2.1 e.2.2).c (f2 e.2.1 e.2.2).st).c)
      (st := (f1 (f2 e.2.1 e.2.2).c (f2 e.2.1 e.2.2).st).st) (rfl : E.map erase = E.map erase))
    (A.size p + (f2 e.2.1 e.2.2).dsize + (f1 (f2 e.2.1 e.2.2).c (f2 e.2.1 e.2.2).st).dsize)
  rcases h3 with ⟨a, b⟩ | ⟨a, b⟩
  · rw [a, b, kill_comm]
    exact ceq_kill (ceq_kill hbase _) _
  · rw [a, b]
    exact ceq_kill (ceq_kill hbase _) _

/-- … and exactly when the final child is the same -/
theorem applySlot_comm_eq {A : Abs} {p tg : Ts} {f1 f2 : Ts → KeySt → SStep} {par : Option Ts} {E : List Ent}
    {e : Ent} (hA : A.shape p = some (par, .arr E)) (he : E.find? (fun e => e.1 = tg) = some e)
    (hc : SComm f1 f2 e.2.1 e.2.2)
    (hch : (f2 (f1 e.2.1 e.2.2).c (f1 e.2.1 e.2.2).st).c = (f1 (f2 e.2.1 e.2.2).c (f2 e.2.1 e.2.2).st).c) :
    applySlot (applySlot A p tg f1) p tg f2 = applySlot (applySlot A p tg f2) p tg f1 := by
  rw [applySlot_applySlot f1 f2 hA he, applySlot_applySlot f2 f1 hA he]
  obtain ⟨h1, h2, h3⟩ := hc
  have hsz : A.size p + (f1 e.2.1 e.2.2).dsize + (f2 (f1 e.2.1 e.2.2).c (f1 e.2.1 e.2.2).st).dsize =
      A.size p + (f2 e.2.1 e.2.2).dsize + (f1 (f2 e.2.1 e.2.2).c (f2 e.2.1 e.2.2).st).dsize := by omega
  rw [hsz, h1, hch]
  rcases h3 with ⟨a, b⟩ | ⟨a, b⟩
  · rw [a, b, kill_comm]
  · rw [a, b]

theorem union_setArr {B N : Abs} {S : Ts → Prop} (hN : Supp N S) {p : Ts} (hp : ¬ S p) (par : Option Ts)
    (E : List Ent) (s : Int) : union (setArr B p par E s) N = setArr (union B N) p par E s := by
  obtain ⟨_, _, _, h4⟩ := hN p hp
  apply Abs.ext'
  · intro c
    simp only [union, setArr]
    by_cases e : c = p <;> simp [e]
  · intro c; rfl
  · intro c k; rfl
  · intro c
    simp only [union, setArr]
    by_cases e : c = p
    · subst e; simp [h4]
    · simp [e]

theorem union_kill {B N : Abs} {S : Ts → Prop} (hN : Supp N S) {x : Option Ts} (hx : ∀ y, x = some y → ¬ S y) :
    union (kill B x) N = kill (union B N) x := by
  cases x with
  | none => rfl
  | some y =>
    obtain ⟨h1, h2, _, _⟩ := hN y (hx y rfl)
    apply Abs.ext'
    · intro c
      simp only [union, kill, h1, Option.or_none]
      by_cases e : c = y
      · subst e
        by_cases e2 : Shape.isElem (B.shape c) = true <;> simp [e2, h1]
      · simp [e]
    · intro c
      simp only [union, kill, h1, h2, Option.or_none]
      by_cases e : c = y
      · subst e; simp [h2]
      · simp [e]
    · intro c k; rfl
    · intro c; rfl

theorem union_shape_some {B N : Abs} {p : Ts} {x : Option Ts × Shape} (h : B.shape p = some x) :
    (union B N).shape p = some x := by
  simp [union, h]

theorem union_applySlot {B N : Abs} {S : Ts → Prop} (hN : Supp N S) {p tg : Ts} (hp : ¬ S p)
    (f : Ts → KeySt → SStep) {par : Option Ts} {E : List Ent} {e : Ent}
    (hB : B.shape p = some (par, .arr E)) (he : E.find? (fun e => e.1 = tg) = some e)
    (hb : ∀ y, (f e.2.1 e.2.2).bury = some y → ¬ S y) :
    union (applySlot B p tg f) N = applySlot (union B N) p tg f := by
  rw [applySlot_eq f hB he, applySlot_eq f (union_shape_some hB) he, union_kill hN hb, union_setArr hN hp]
  have : (union B N).size p = B.size p := by
    simp [union, (hN p hp).2.2.2]
  rw [this]

/-- the slot step of a delete / an update -/
def fE : EOp → Ts → KeySt → SStep
  | .ins _ _ _ _ => fun c st => ⟨c, st, 0, none⟩
  | .del1 _ _ t => aDelStep t
  | .upd1 _ _ t _ => aUpdStep t

theorem absE_slot {e : EOp} {tg : Ts} (h : e.tgt = some tg) (A : Abs) :
    absE e A = applySlot (union A (abs ⟨nodesE e⟩)) e.p tg (fE e) := by
  cases e with
  | ins p an ts vs => simp [EOp.tgt] at h
  | del1 p tg' t =>
    simp only [EOp.tgt, Option.some.injEq] at h
    subst h
    simp only [absE, nodesE, abs_mk_nil, union_empty, EOp.p, fE]
  | upd1 p tg' t v =>
    simp only [EOp.tgt, Option.some.injEq] at h
    subst h
    simp only [absE, EOp.p, fE]

theorem root_mem_nodesE {d : Doc} {p tg t : Ts} {v : JVal} (h : EOK d (.upd1 p tg t v)) :
    t ∈ ids (nodesE (.upd1 p tg t v)) := by
  obtain ⟨_, ⟨ns, c, t', hc⟩, _, _⟩ := h
  have hroot := createNode_root hc
  subst hroot
  obtain ⟨_, _, n0, rest, hns, hn0c, _⟩ := createNode_spec p c v _ hc
  simp only at hns
  simp [nodesE, hc, hns, ids, hn0c]

theorem bury_cases {d : Doc} {e : EOp} (hok : EOK d e) {c y : Ts} {st : KeySt}
    (h : (fE e c st).bury = some y) : st.occ = some y ∨ y ∈ ids (nodesE e) := by
  cases e with
  | ins p an ts vs => simp [fE] at h
  | del1 p tg t =>
    simp only [fE, aDelStep] at h
    split at h
    · exact Or.inl h
    · split at h <;> simp at h
  | upd1 p tg t v =>
    simp only [fE, aUpdStep] at h
    split at h
    · exact Or.inl h
    · simp only [Option.some.injEq] at h
      subst h
      exact Or.inr (root_mem_nodesE hok)

theorem refSt_occ_some {d : Doc} {c y : Ts} (h : (refSt d c).occ = some y) : y = c := by
  simp only [refSt] at h
  split at h
  · cases h
  · simp only [Option.some.injEq] at h; exact h.symm

/-- both arrival orders of two operations on the same slot, as two abstract steps on one abstraction -/
theorem same_slot_abs {d : Doc} (hwf : d.WF) {a b : EOp} (ha : EOK d a) (hb : EOK d b) (hd : Disj a b)
    {tg : Ts} (hp : a.p = b.p) (hta : a.tgt = some tg) (htb : b.tgt = some tg) :
    ∃ (A2 : Abs) (par : Option Ts) (E : List Ent) (e : Ent),
      A2.shape a.p = some (par, .arr E) ∧ E.find? (fun e => e.1 = tg) = some e ∧
      abs (applyE (applyE d a) b) = applySlot (applySlot A2 a.p tg (fE a)) a.p tg (fE b) ∧
      abs (applyE (applyE d b) a) = applySlot (applySlot A2 a.p tg (fE b)) a.p tg (fE a) := by
  obtain ⟨pn, sl, sz, hpa⟩ := isArr_iff.mp ha.isArr
  obtain ⟨hp1, hk⟩ := findArr_some_iff.mp hpa
  obtain ⟨sx, hsx, hsm, _⟩ := target_slot (ha.tgt_mem hta)
  rw [slotsOf_of_findArr hpa] at hsx hsm
  have hshape : (abs d).shape a.p = some (pn.parent, .arr (sl.map (entOf d))) := shapeOf_arr hp1 hk
  have hfind : (sl.map (entOf d)).find? (fun e => e.1 = tg) = some (entOf d sx) := by
    rw [find?_map_entOf, hsx]; rfl
  obtain ⟨nc, hnc, _⟩ := slot_child_in_table hwf hpa hsm
  have hNa : Supp (abs ⟨nodesE a⟩) (fun c => c ∈ ids (nodesE a)) := supp_abs_mk _
  have hNb : Supp (abs ⟨nodesE b⟩) (fun c => c ∈ ids (nodesE b)) := supp_abs_mk _
  have hpna : a.p ∉ ids (nodesE a) := fresh_not_mem ha.fresh hp1
  have hpnb : a.p ∉ ids (nodesE b) := fresh_not_mem hb.fresh hp1
  -- the burials of one operation are not new nodes of the other
  have hbury : ∀ {x y : EOp}, EOK d x → EOK d y → Disj x y →
      ∀ z, (fE x (entOf d sx).2.1 (entOf d sx).2.2).bury = some z → z ∉ ids (nodesE y) := by
    intro x y hx hy hxy z hz
    rcases bury_cases hx hz with h | h
    · have : z = sx.2 := refSt_occ_some h
      rw [this]; exact fresh_not_mem hy.fresh hnc
    · exact fun h' => hxy z h h'
  have e1 : abs (applyE (applyE d a) b) =
      applySlot (applySlot (union (union (abs d) (abs ⟨nodesE a⟩)) (abs ⟨nodesE b⟩)) a.p tg (fE a)) a.p tg (fE b) := by
    rw [abs_applyE (wf_applyE hwf a ha) b (eok_after hwf ha hb hd), abs_applyE hwf a ha,
      absE_slot hta, absE_slot htb, ← hp]
    rw [union_applySlot hNb hpnb (fE a) (union_shape_some hshape) hfind (hbury ha hb hd)]
  have e2 : abs (applyE (applyE d b) a) =
      applySlot (applySlot (union (union (abs d) (abs ⟨nodesE b⟩)) (abs ⟨nodesE a⟩)) a.p tg (fE b)) a.p tg (fE a) := by
    rw [abs_applyE (wf_applyE hwf b hb) a (eok_after hwf hb ha hd.symm), abs_applyE hwf b hb,
      absE_slot hta, absE_slot htb, ← hp]
    rw [union_applySlot hNa hpna (fE b) (union_shape_some hshape) hfind (hbury hb ha hd.symm)]
  rw [union_comm (abs d) hNb hNa (fun c h1 h2 => hd c h2 h1)] at e2
  exact ⟨_, _, _, _, union_shape_some (union_shape_some hshape), hfind, e1, e2⟩

/-- **3c. delete / delete of one slot**: observationally equal (`DC.Sim`) — the greatest stamp survives -/
theorem comm_sim_del_del {d : Doc} (hwf : d.WF) {p tg t1 t2 : Ts} (ha : EOK d (.del1 p tg t1))
    (hb : EOK d (.del1 p tg t2)) (hne : t1.cmp t2 ≠ .eq) :
    Sim (applyE (applyE d (.del1 p tg t1)) (.del1 p tg t2)) (applyE (applyE d (.del1 p tg t2)) (.del1 p tg t1)) := by
  have hd : Disj (.del1 p tg t1) (.del1 p tg t2) := by intro c h; simp [nodesE, ids] at h
  obtain ⟨A2, par, E, e, h1, h2, e1, e2⟩ := same_slot_abs hwf ha hb hd rfl rfl rfl
  unfold Sim
  rw [e1, e2]
  obtain ⟨hc, hch⟩ := scomm_del_del hne e.2.1 e.2.2
  exact applySlot_comm_eq h1 h2 hc hch

/-- **3d. update / update of one slot**: observationally equal (`DC.Sim`) — the newer value wins, the
    loser and the old child are buried in both orders -/
theorem comm_sim_upd_upd {d : Doc} (hwf : d.WF) {p tg t1 t2 : Ts} {v1 v2 : JVal} (ha : EOK d (.upd1 p tg t1 v1))
    (hb : EOK d (.upd1 p tg t2 v2)) (hd : Disj (.upd1 p tg t1 v1) (.upd1 p tg t2 v2)) (hne : t1.cmp t2 ≠ .eq) :
    Sim (applyE (applyE d (.upd1 p tg t1 v1)) (.upd1 p tg t2 v2))
      (applyE (applyE d (.upd1 p tg t2 v2)) (.upd1 p tg t1 v1)) := by
  obtain ⟨A2, par, E, e, h1, h2, e1, e2⟩ := same_slot_abs hwf ha hb hd rfl rfl rfl
  unfold Sim
  rw [e1, e2]
  obtain ⟨hc, hch⟩ := scomm_upd_upd hne e.2.1 e.2.2
  exact applySlot_comm_eq h1 h2 hc hch

/-- **3e. update / delete of one slot**: equivalent up to the identity of the tombstoned child (`ASim`),
    whatever the two timestamps — the delete dominates -/
theorem comm_asim_upd_del {d : Doc} (hwf : d.WF) {p tg t1 t2 : Ts} {v : JVal} (ha : EOK d (.upd1 p tg t1 v))
    (hb : EOK d (.del1 p tg t2)) :
    ASim (applyE (applyE d (.upd1 p tg t1 v)) (.del1 p tg t2)) (applyE (applyE d (.del1 p tg t2)) (.upd1 p tg t1 v)) := by
  have hd : Disj (.upd1 p tg t1 v) (.del1 p tg t2) := by intro c _ h; simp [nodesE, ids] at h
  obtain ⟨A2, par, E, e, h1, h2, e1, e2⟩ := same_slot_abs hwf ha hb hd rfl rfl rfl
  unfold ASim
  rw [e1, e2]
  exact applySlot_comm_ceq h1 h2 (scomm_upd_del t1 t2 e.2.1 e.2.2)

theorem upd_upd (x : Ts) (g h : Option DNode → Option DNode) (F : Ts → Option DNode) :
    upd x g (upd x h F) = upd x (fun o => g (h o)) F := by
  funext c
  by_cases e : c = x
  · subst e; simp [upd]
  · simp [upd, e]

theorem findArr_of_arrV {d : Doc} {p : Ts} {sl : List (Ts × Ts)} (h : arrV (d.find p) = some sl) :
    ∃ pn sz, d.findArr p = some (pn, sl, sz) := by
  cases hf : d.find p with
  | none => rw [hf] at h; simp [arrV] at h
  | some n =>
    rw [hf] at h
    obtain ⟨nc, nd, np, nk⟩ := n
    cases nk with
    | elem v => simp [arrV] at h
    | obj m s => simp [arrV] at h
    | arr sl' sz =>
      simp only [arrV, Option.some.injEq] at h
      subst h
      exact ⟨_, sz, findArr_some_iff.mpr ⟨hf, rfl⟩⟩

/-! ### 3c'. delete / delete of one slot commute EXACTLY -/

/-- what a remote delete stamped `t` does to the node of the slot's child -/
def delG (t c : Ts) (o : Option DNode) : Option DNode :=
  if !tombO o then setD t o else if (timeO c o).cmp t == .lt then setD t o else o

theorem comm_mapArr_delG (k : List (Ts × Ts) → Int → List (Ts × Ts) × Int) (t c : Ts) :
    Comm (mapArr k) (delG t c) := by
  intro o
  unfold delG
  rw [tombO_mapArr, timeO_mapArr]
  split
  · exact comm_mapArr_setD k t o
  · split
    · exact comm_mapArr_setD k t o
    · rfl

theorem tombO_delG (t c : Ts) {o : Option DNode} (h : o.isSome) : tombO (delG t c o) = true := by
  obtain ⟨n, rfl⟩ := Option.isSome_iff_exists.mp h
  unfold delG
  by_cases h1 : tombO (some n) = true
  · simp only [h1, Bool.not_true, Bool.false_eq_true, if_false]
    split
    · rfl
    · exact h1
  · simp only [h1, Bool.not_false, if_true]
    rfl

theorem delG_isSome (t c : Ts) {o : Option DNode} (h : o.isSome) : (delG t c o).isSome := by
  obtain ⟨n, rfl⟩ := Option.isSome_iff_exists.mp h
  unfold delG
  split
  · rfl
  · split <;> rfl

theorem delG_comm {t1 t2 : Ts} (hne : t1.cmp t2 ≠ .eq) (c : Ts) (o : Option DNode) :
    delG t2 c (delG t1 c o) = delG t1 c (delG t2 c o) := by
  cases o with
  | none => rfl
  | some n =>
    obtain ⟨nc, nd, np, nk⟩ := n
    have h12 := ltb_total hne
    cases nd with
    | none =>
      rcases h12 with ⟨a, b⟩ | ⟨a, b⟩ <;>
        simp [delG, tombO, timeO, setD, ltb] at a b ⊢ <;> simp [a, b]
    | some τ =>
      by_cases a1 : ltb τ t1 = true <;> by_cases a2 : ltb τ t2 = true <;>
        rcases h12 with ⟨a, b⟩ | ⟨a, b⟩
      all_goals first
        | (exfalso; exact absurd (ltb_trans a1 a) a2)
        | (exfalso; exact absurd (ltb_trans a2 a) a1)
        | (simp only [ltb, beq_iff_eq, Bool.not_eq_true, beq_eq_false_iff_ne, ne_eq] at a1 a2 a b
           simp [delG, tombO, timeO, setD, a1, a2, a, b])

/-- the single-target delete, uniformly: one function on the child's node, the size by liveness -/
theorem del1_find' {d : Doc} {p tg t : Ts} {pn : DNode} {sl : List (Ts × Ts)} {sz : Int} {s : Ts × Ts}
    (hp : d.findArr p = some (pn, sl, sz)) (hs : sl.find? (fun x => x.1 = tg) = some s) :
    (applyE d (.del1 p tg t)).find =
      upd p (mapArr (szK (if d.isTomb s.2 then 0 else 1))) (upd s.2 (delG t s.2) d.find) := by
  have h0 : (applyE d (.del1 p tg t)).find = del1F d p sl tg t := del1_find hp
  rw [h0]
  unfold del1F
  rw [hs]
  simp only
  have hd : upd s.2 (delG t s.2) d.find =
      if !d.isTomb s.2 then upd s.2 (setD t) d.find
      else if (d.timeOf s.2).cmp t == .lt then upd s.2 (setD t) d.find else d.find := by
    rw [isTomb_eq_tombO, timeOf_eq_timeO]
    split
    · apply upd_congr_at; simp only [delG]; rw [if_pos (by assumption)]
    · split
      · apply upd_congr_at; simp only [delG]; rw [if_neg (by assumption), if_pos (by assumption)]
      · funext c
        by_cases e : c = s.2
        · subst e; rw [upd_same]; simp only [delG]; rw [if_neg (by assumption), if_neg (by assumption)]
        · rw [upd_other _ _ e]
  rw [hd]
  by_cases h1 : d.isTomb s.2 = true
  · simp only [h1, Bool.not_true, Bool.false_eq_true, if_false, if_true]
    rw [upd_mapArr_szK_zero]
  · have h1' : d.isTomb s.2 = false := by simpa using h1
    simp only [h1', Bool.not_false, if_true, Bool.false_eq_true, if_false]

/-- **3c'. delete / delete of one slot**: the same table in both orders — the child keeps the greatest
    stamp, the size drops once -/
theorem comm_docEq_del_del {d : Doc} (hwf : d.WF) {p tg t1 t2 : Ts} (ha : EOK d (.del1 p tg t1))
    (hne : t1.cmp t2 ≠ .eq) :
    DocEq (applyE (applyE d (.del1 p tg t1)) (.del1 p tg t2)) (applyE (applyE d (.del1 p tg t2)) (.del1 p tg t1)) := by
  obtain ⟨pn, sl, sz, hp⟩ := isArr_iff.mp ha.1
  obtain ⟨s, hs, hsm, _⟩ := target_slot ha.2
  rw [slotsOf_of_findArr hp] at hs hsm
  obtain ⟨nc, hnc, _⟩ := slot_child_in_table hwf hp hsm
  -- after one delete (stamp `t`), the array has the same slots and the child is a tombstone
  have after : ∀ t, ∃ pn' sz', (applyE d (.del1 p tg t)).findArr p = some (pn', sl, sz') ∧
      (applyE d (.del1 p tg t)).isTomb s.2 = true := by
    intro t
    have hf := del1_find' (t := t) hp hs
    have hv : arrV ((applyE d (.del1 p tg t)).find p) = some sl := by
      have := del_arrV d p [tg] t p
      rw [arrV_of_findArr hp] at this
      exact this
    obtain ⟨pn', sz', hp'⟩ := findArr_of_arrV hv
    refine ⟨pn', sz', hp', ?_⟩
    rw [isTomb_eq_tombO, hf]
    have hsome : (d.find s.2).isSome := by rw [hnc]; rfl
    by_cases e : s.2 = p
    · rw [e, upd_same, tombO_mapArr, ← e, upd_same]
      exact tombO_delG t s.2 hsome
    · rw [upd_other _ _ e, upd_same]
      exact tombO_delG t s.2 hsome
  have key : ∀ ta tb, (applyE (applyE d (.del1 p tg ta)) (.del1 p tg tb)).find =
      upd p (mapArr (szK (if d.isTomb s.2 then 0 else 1))) (upd s.2 (fun o => delG tb s.2 (delG ta s.2 o)) d.find) := by
    intro ta tb
    obtain ⟨pn', sz', hp', htomb⟩ := after ta
    rw [del1_find' hp' hs, htomb, del1_find' hp hs]
    simp only [if_true]
    rw [upd_mapArr_szK_zero]
    rw [upd_comm (Or.inr (comm_symm (comm_mapArr_delG _ tb s.2))), upd_upd]
  intro c
  rw [key t1 t2, key t2 t1]
  congr 2
  funext o
  exact delG_comm hne s.2 o

/-! ## 7. permutations of a list of elementary operations -/

def applyAllE (d : Doc) (l : List EOp) : Doc := l.foldl applyE d

/-- two operations may arrive in either order: their new identifiers do not clash, and when they address
    the same slot their timestamps are distinguishable by `Ts.cmp` -/
def Compat (a b : EOp) : Prop :=
  Disj a b ∧ (a.p = b.p → a.tgt = b.tgt → a.tgt ≠ none → a.ts.cmp b.ts ≠ .eq)

theorem Compat.symm {a b : EOp} (h : Compat a b) : Compat b a :=
  ⟨h.1.symm, fun e1 e2 e3 e => h.2 e1.symm e2.symm (by rw [← e2]; exact e3) (cmp_eq_symm _ _ e)⟩

/-- the insert an elementary operation performs on the array `p` -/
def insOnE (p : Ts) (e : EOp) : Option AIns :=
  match e with
  | .ins p' a _ _ => if p' = p then some ⟨a, newSlots e⟩ else none
  | _ => none

/-- every array that is about to receive inserts has an order produced by a causal history `M0`, after
    which the pending inserts are causal in every arrival order -/
def OrdOK (z : Doc) (l : List EOp) : Prop :=
  ∀ p, (∃ e ∈ l, (insOnE p e).isSome) →
    ∃ M0, slotIds z p = foldIds [] M0 ∧ ∀ l', l'.Perm (l.filterMap (insOnE p)) → ACausal (M0 ++ l')

/-- a well-formed document ready for the operations `l` in any order -/
def GoodE (z : Doc) (l : List EOp) : Prop :=
  z.WF ∧ (∀ e ∈ l, EOK z e) ∧ l.Pairwise Compat ∧ OrdOK z l

theorem ACausal.prefix {M N : List AIns} (h : ACausal (M ++ N)) : ACausal M where
  nonempty := fun o ho => h.nonempty o (by simp [ho])
  samekey := fun o ho => h.samekey o (by simp [ho])
  nodup := fun o ho => h.nodup o (by simp [ho])
  notHead := fun o ho => h.notHead o (by simp [ho])
  distinct := (List.pairwise_append.mp h.distinct).1
  anchored := by
    intro i hi
    have := h.anchored i (by simp; omega)
    rcases this with h1 | ⟨j, hj, h2, h3⟩
    · left
      rw [List.getElem_append_left hi] at h1
      exact h1
    · right
      have hjl : j < M.length := by omega
      refine ⟨j, hj, ?_, ?_⟩
      · rw [List.getElem_append_left hi, List.getElem_append_left hjl] at h2
        exact h2
      · rw [List.getElem_append_left hi, List.getElem_append_left hjl] at h3
        exact h3

theorem slotIds_applyE {d : Doc} (hwf : d.WF) {a : EOp} (ha : EOK d a) {q : Ts} (hq : (d.find q).isSome) :
    slotIds (applyE d a) q =
      match insOnE q a with
      | some o => stepIds (slotIds d q) o.anchor o.cs
      | none => slotIds d q := by
  unfold slotIds
  rw [slotsOf_applyE hwf ha hq]
  cases a with
  | ins p an ts vs =>
    simp only [insOnE, EOp.p]
    by_cases e : q = p
    · subst e
      simp only [if_true, slotK]
      exact loopSl_ids an _ _
    · have e' : ¬ p = q := fun h => e h.symm
      simp only [e, e', if_false]
  | del1 p tg t =>
    simp only [insOnE, EOp.p, slotK]
    by_cases e : q = p <;> simp [e]
  | upd1 p tg t v =>
    simp only [insOnE, EOp.p, slotK]
    by_cases e : q = p
    · simp only [e, if_true]
      split
      · rfl
      · split
        · rw [setSlotChild_ids]
        · rfl
    · simp only [e, if_false]

theorem goodE_perm {z : Doc} {l l' : List EOp} (hp : l.Perm l') (h : GoodE z l) : GoodE z l' := by
  obtain ⟨h1, h2, h3, h4⟩ := h
  refine ⟨h1, fun e he => h2 e (hp.mem_iff.mpr he), ?_, ?_⟩
  · exact (List.Perm.pairwise_iff (fun hab => hab.symm) hp).mp h3
  · intro p ⟨e, he, hi⟩
    obtain ⟨M0, hb, hc⟩ := h4 p ⟨e, hp.mem_iff.mpr he, hi⟩
    exact ⟨M0, hb, fun l'' hl'' => hc l'' (hl''.trans (hp.filterMap _).symm)⟩

theorem goodE_step {z : Doc} {x : EOp} {l : List EOp} (h : GoodE z (x :: l)) : GoodE (applyE z x) l := by
  obtain ⟨hwf, hok, hpw, hord⟩ := h
  rw [List.pairwise_cons] at hpw
  have hx := hok x (by simp)
  refine ⟨wf_applyE hwf x hx, ?_, hpw.2, ?_⟩
  · intro e he
    exact eok_after hwf hx (hok e (List.mem_cons_of_mem _ he)) (hpw.1 e he).1
  · intro p ⟨e, he, hi⟩
    obtain ⟨M0, hb, hc⟩ := hord p ⟨e, List.mem_cons_of_mem _ he, hi⟩
    -- `p` is an array of `z`: `e` inserts into it
    have hpz : (z.find p).isSome := by
      have hee := hok e (List.mem_cons_of_mem _ he)
      cases e with
      | ins p' a ts vs =>
        simp only [insOnE] at hi
        by_cases e' : p' = p
        · subst e'; exact isArr_find hee.isArr
        · simp [e'] at hi
      | del1 p' tg t => simp [insOnE] at hi
      | upd1 p' tg t v => simp [insOnE] at hi
    rw [slotIds_applyE hwf hx hpz]
    cases hix : insOnE p x with
    | none =>
      refine ⟨M0, hb, ?_⟩
      intro l' hl'
      apply hc
      simp only [List.filterMap_cons, hix]
      exact hl'
    | some o =>
      refine ⟨M0 ++ [o], ?_, ?_⟩
      · simp only
        rw [hb, foldIds_append]; rfl
      · intro l' hl'
        have := hc (o :: l') (by simp only [List.filterMap_cons, hix]; exact hl'.cons o)
        simpa using this

/-- two applicable operations commute up to `ASim`, whatever they are -/
theorem comm_asim {z : Doc} {x y : EOp} {l : List EOp} (h : GoodE z (x :: y :: l)) :
    ASim (applyE (applyE z x) y) (applyE (applyE z y) x) := by
  obtain ⟨hwf, hok, hpw, hord⟩ := h
  have hx := hok x (by simp)
  have hy := hok y (by simp)
  have hxy : Compat x y := (List.pairwise_cons.mp hpw).1 y (by simp)
  by_cases hind : Indep x y
  · exact asim_of_docEq (comm_docEq hwf hx hy hxy.1 hind)
  · unfold Indep at hind
    have hp : x.p = y.p := by
      by_contra hne; exact hind (fun e => absurd e hne)
    have ht : x.tgt = y.tgt := by
      by_contra hne; exact hind (fun _ => hne)
    cases x with
    | ins p1 a1 t1 vs1 =>
      cases y with
      | ins p2 a2 t2 vs2 =>
        simp only [EOp.p] at hp
        subst hp
        obtain ⟨M0, hb, hc⟩ := hord p1 ⟨EOp.ins p1 a1 t1 vs1, by simp, by simp [insOnE]⟩
        have hf : (EOp.ins p1 a1 t1 vs1 :: EOp.ins p1 a2 t2 vs2 :: l).filterMap (insOnE p1) =
            ⟨a1, newSlots (.ins p1 a1 t1 vs1)⟩ :: ⟨a2, newSlots (.ins p1 a2 t2 vs2)⟩ :: l.filterMap (insOnE p1) := by
          simp [List.filterMap_cons, insOnE]
        have c1 := hc _ (by rw [hf])
        have c2 := hc (⟨a2, newSlots (.ins p1 a2 t2 vs2)⟩ :: ⟨a1, newSlots (.ins p1 a1 t1 vs1)⟩ ::
          l.filterMap (insOnE p1)) (by rw [hf]; exact List.Perm.swap _ _ _)
        have c1' : ACausal (M0 ++ [⟨a1, newSlots (.ins p1 a1 t1 vs1)⟩, ⟨a2, newSlots (.ins p1 a2 t2 vs2)⟩]) := by
          have : M0 ++ (⟨a1, newSlots (.ins p1 a1 t1 vs1)⟩ :: ⟨a2, newSlots (.ins p1 a2 t2 vs2)⟩ ::
              l.filterMap (insOnE p1)) =
              (M0 ++ [⟨a1, newSlots (.ins p1 a1 t1 vs1)⟩, ⟨a2, newSlots (.ins p1 a2 t2 vs2)⟩]) ++
                l.filterMap (insOnE p1) := by simp
          rw [this] at c1; exact c1.prefix
        have c2' : ACausal (M0 ++ [⟨a2, newSlots (.ins p1 a2 t2 vs2)⟩, ⟨a1, newSlots (.ins p1 a1 t1 vs1)⟩]) := by
          have : M0 ++ (⟨a2, newSlots (.ins p1 a2 t2 vs2)⟩ :: ⟨a1, newSlots (.ins p1 a1 t1 vs1)⟩ ::
              l.filterMap (insOnE p1)) =
              (M0 ++ [⟨a2, newSlots (.ins p1 a2 t2 vs2)⟩, ⟨a1, newSlots (.ins p1 a1 t1 vs1)⟩]) ++
                l.filterMap (insOnE p1) := by simp
          rw [this] at c2; exact c2.prefix
        exact asim_of_docEq (comm_docEq_ins_ins hwf hx hy hxy.1 M0 hb c1' c2')
      | del1 p2 tg2 t2 => simp [EOp.tgt] at ht
      | upd1 p2 tg2 t2 v2 => simp [EOp.tgt] at ht
    | del1 p1 tg1 t1 =>
      cases y with
      | ins p2 a2 t2 vs2 => simp [EOp.tgt] at ht
      | del1 p2 tg2 t2 =>
        simp only [EOp.p] at hp
        simp only [EOp.tgt, Option.some.injEq] at ht
        subst hp; subst ht
        exact asim_of_sim (comm_sim_del_del hwf hx hy (hxy.2 rfl rfl (by simp [EOp.tgt])))
      | upd1 p2 tg2 t2 v2 =>
        simp only [EOp.p] at hp
        simp only [EOp.tgt, Option.some.injEq] at ht
        subst hp; subst ht
        exact asim_symm (comm_asim_upd_del hwf hy hx)
    | upd1 p1 tg1 t1 v1 =>
      cases y with
      | ins p2 a2 t2 vs2 => simp [EOp.tgt] at ht
      | del1 p2 tg2 t2 =>
        simp only [EOp.p] at hp
        simp only [EOp.tgt, Option.some.injEq] at ht
        subst hp; subst ht
        exact comm_asim_upd_del hwf hx hy
      | upd1 p2 tg2 t2 v2 =>
        simp only [EOp.p] at hp
        simp only [EOp.tgt, Option.some.injEq] at ht
        subst hp; subst ht
        exact asim_of_sim (comm_sim_upd_upd hwf hx hy hxy.1 (hxy.2 rfl rfl (by simp [EOp.tgt])))

theorem goodE_applyAll {l : List EOp} : ∀ {d : Doc}, GoodE d l → (applyAllE d l).WF := by
  induction l with
  | nil => intro d h; exact h.1
  | cons x l ih => intro d h; exact ih (goodE_step h)

/-- **4. convergence.**  Two replicas that start from `ASim`-equivalent well-formed documents and apply
    the same remote array operations (inserts, single-target updates and deletes; applicable in the start
    document, pairwise compatible, the pending inserts of every array causal in every order) in two
    different orders end in `ASim`-equivalent documents. -/
theorem arr_converge_asim {d d' : Doc} {l l' : List EOp} (hp : l.Perm l') (h : GoodE d l) (h' : GoodE d' l)
    (hs : ASim d d') : ASim (applyAllE d l) (applyAllE d' l') :=
  perm_fold_equiv applyE ASim asim_equivalence GoodE
    (fun _ _ _ hp h => goodE_perm hp h) (fun _ _ _ h => goodE_step h)
    (fun _ _ x _ h1 h2 h => asim_congr h1.1 h2.1 (h1.2.1 x (by simp)) (h2.2.1 x (by simp)) h)
    (fun _ _ _ _ h => comm_asim h)
    l l' hp d d' h h' hs

theorem arr_converge_asim_same {d : Doc} {l l' : List EOp} (hp : l.Perm l') (h : GoodE d l) :
    ASim (applyAllE d l) (applyAllE d l') := arr_converge_asim hp h h (asim_refl d)

/-! ## 8. `ASim` documents show the same key-sorted JSON -/

theorem arr_view_congr_c {a b : Doc} (f : Nat) : ∀ (sla slb : List (Ts × Ts)),
    (sla.map (entOf a)).map erase = (slb.map (entOf b)).map erase →
    (∀ x ∈ sla, a.isTomb x.2 = false → (a.viewOf f x.2).canon = (b.viewOf f x.2).canon) →
    (sla.filterMap fun (_, ch) => if a.isTomb ch then none else some (a.viewOf f ch)).map JVal.canon =
      (slb.filterMap fun (_, ch) => if b.isTomb ch then none else some (b.viewOf f ch)).map JVal.canon := by
  intro sla
  induction sla with
  | nil =>
    intro slb h _
    cases slb with
    | nil => rfl
    | cons y r => simp at h
  | cons x r ih =>
    intro slb h hP
    cases slb with
    | nil => simp at h
    | cons y r' =>
      obtain ⟨o, ch⟩ := x
      obtain ⟨o', ch'⟩ := y
      simp only [List.map_cons, List.cons.injEq] at h
      obtain ⟨hhead, hrest⟩ := h
      have hst : refSt a ch = refSt b ch' := by
        have := congrArg (fun e : Ent => e.2.2) hhead
        exact this
      have htomb : a.isTomb ch = b.isTomb ch' := congrArg KeySt.tomb hst
      have ih' := ih r' hrest (fun x hx => hP x (List.mem_cons_of_mem _ hx))
      simp only [List.filterMap_cons]
      by_cases ht : a.isTomb ch = true
      · have ht' : b.isTomb ch' = true := by rw [← htomb]; exact ht
        simp only [ht, ht', if_true]
        exact ih'
      · have ht2 : a.isTomb ch = false := by simpa using ht
        have ht' : b.isTomb ch' = false := by rw [← htomb]; exact ht2
        have hocc := congrArg KeySt.occ hst
        simp only [refSt, ht2, ht', Bool.false_eq_true, if_false, Option.some.injEq] at hocc
        subst hocc
        simp only [ht2, ht', Bool.false_eq_true, if_false, List.map_cons, List.cons.injEq]
        exact ⟨hP (o, ch) (by simp) ht2, ih'⟩

/-- with the same fuel, `ASim` well-formed documents show the same key-sorted JSON below every visible node -/
theorem asim_viewOf {a b : Doc} (hs : ASim a b) (wa : a.WF) (ka : KeysND a) (kb : KeysND b) :
    ∀ (f : Nat) (c : Ts), (shapeOf a c).isSome → (a.viewOf f c).canon = (b.viewOf f c).canon := by
  have hshape : ∀ c, cshape (shapeOf a c) = cshape (shapeOf b c) := hs.shape
  have hkey : ∀ c k, keyOf' a c k = keyOf' b c k := hs.key
  intro f
  induction f with
  | zero => intro c _; rfl
  | succ f ih =>
    intro c hc
    have hsc := hshape c
    have hchild : ∀ n, a.find c = some n → ∀ ch ∈ kids n.kind, a.isTomb ch = false →
        (a.viewOf f ch).canon = (b.viewOf f ch).canon := by
      intro n hn ch hch hl
      obtain ⟨nc, h1, _⟩ := wa.child c n hn ch hch
      exact ih ch (shape_isSome_of_live h1 hl)
    simp only [Doc.viewOf]
    cases hfa : a.find c with
    | none => simp [shapeOf, hfa] at hc
    | some na =>
      cases hfb : b.find c with
      | none =>
        have : shapeOf b c = none := by simp [shapeOf, hfb]
        rw [this] at hsc
        have h2 := cshape_not_arr hsc.symm (by simp)
        rw [h2] at hc; simp at hc
      | some nb =>
        obtain ⟨ac, ad, ap, ak⟩ := na
        obtain ⟨bc, bd, bp, bk⟩ := nb
        simp only [shapeOf, hfa, hfb] at hsc hc
        cases ak with
        | elem va =>
          cases bk with
          | elem vb =>
            cases ad with
            | some _ => simp at hc
            | none =>
              cases bd with
              | some _ => simp [cshape] at hsc
              | none =>
                simp only [Option.isSome_none, Bool.false_eq_true, if_false, cshape, Option.some.injEq,
                  Prod.mk.injEq, Shape.elem.injEq] at hsc
                rw [hsc.2]
          | obj mb sb => cases ad <;> simp [cshape] at hsc
          | arr slb sb => cases ad <;> simp [cshape] at hsc
        | obj ma sa =>
          cases bk with
          | elem vb => cases bd <;> simp [cshape] at hsc
          | arr slb sb => simp [cshape] at hsc
          | obj mb sb =>
            simp only [canon_obj, JVal.obj.injEq]
            apply canonKvs_ext
            intro k
            rw [alFind_filterMap_view _ _ k ma (ka c _ ma sa hfa rfl),
              alFind_filterMap_view _ _ k mb (kb c _ mb sb hfb rfl)]
            have hk := hkey c k
            simp only [keyOf', hfa, hfb] at hk
            cases hma : alFind k ma with
            | none =>
              rw [hma] at hk
              cases hmb : alFind k mb with
              | none => rfl
              | some chb => rw [hmb] at hk; simp at hk
            | some cha =>
              rw [hma] at hk
              cases hmb : alFind k mb with
              | none => rw [hmb] at hk; simp at hk
              | some chb =>
                rw [hmb] at hk
                simp only [Option.map_some, Option.some.injEq] at hk
                have htomb : a.isTomb cha = b.isTomb chb := congrArg KeySt.tomb hk
                simp only [Option.bind_some]
                by_cases ht : a.isTomb cha = true
                · have ht' : b.isTomb chb = true := by rw [← htomb]; exact ht
                  simp [ht, ht']
                · have ht2 : a.isTomb cha = false := by simpa using ht
                  have ht' : b.isTomb chb = false := by rw [← htomb]; exact ht2
                  have hocc := congrArg KeySt.occ hk
                  simp only [refSt, ht2, ht', Bool.false_eq_true, if_false, Option.some.injEq] at hocc
                  subst hocc
                  simp only [ht2, ht', Bool.false_eq_true, if_false, Option.map_some, Option.some.injEq]
                  exact hchild _ hfa cha (alFind_mem_vals hma) ht2
        | arr sla sa =>
          cases bk with
          | elem vb => cases bd <;> simp [cshape] at hsc
          | obj mb sb => simp [cshape] at hsc
          | arr slb sb =>
            simp only [cshape, Option.some.injEq, Prod.mk.injEq, Shape.arr.injEq] at hsc
            simp only [canon_arr, canonList_eq_map, JVal.arr.injEq]
            apply arr_view_congr_c f sla slb hsc.2
            intro x hx hl
            exact hchild _ hfa x.2 (List.mem_map.mpr ⟨x, hx, rfl⟩) hl

theorem asim_viewAt_canon {a b : Doc} (hs : ASim a b) (wa : a.WF) (ka : KeysND a) (kb : KeysND b)
    (ba : Bounded a) (bb : Bounded b) {c : Ts} (hc : (shapeOf a c).isSome) :
    (a.viewAt c).canon = (b.viewAt c).canon := by
  obtain ⟨rka, hra, hba⟩ := ba
  obtain ⟨rkb, hrb, hbb⟩ := bb
  unfold Doc.viewAt
  have h1 := hba c
  have h2 := hbb c
  rw [viewOf_stable hra (a.table.length + 1) (a.table.length + 1 + b.table.length) c (by omega) (by omega),
    viewOf_stable hrb (b.table.length + 1) (a.table.length + 1 + b.table.length) c (by omega) (by omega)]
  exact asim_viewOf hs wa ka kb _ c hc

theorem asim_view_canon {a b : Doc} (hs : ASim a b) (wa : a.WF) (ka : KeysND a) (kb : KeysND b)
    (ba : Bounded a) (bb : Bounded b) (hroot : IsObj a Ts.oldest) : a.view.canon = b.view.canon := by
  have : (shapeOf a Ts.oldest).isSome := by
    obtain ⟨par, h⟩ := isObj_iff.mp hroot
    rw [h]; rfl
  exact asim_viewAt_canon hs wa ka kb ba bb this

/-! ### what `view` needs (`DC.ViewOK`: no duplicate keys, bounded depth, an object root) is preserved -/

/-- the values of the operation have no duplicate keys -/
def EKeysND : EOp → Prop
  | .ins _ _ _ vs => JKeysNDList vs
  | .del1 _ _ _ => True
  | .upd1 _ _ _ v => JKeysND v

theorem nodesKeysND_nodesE (e : EOp) (h : EKeysND e) : NodesKeysND (nodesE e) := by
  cases e with
  | del1 p tg t => intro n hn; simp [nodesE] at hn
  | ins p an ts vs =>
    simp only [nodesE]
    split
    · rename_i ns cs t' hc
      exact createArrItems_keysND p ts vs ns cs t' hc h
    · intro n hn; cases hn
  | upd1 p tg t v =>
    simp only [nodesE]
    split
    · rename_i ns c t' hc
      exact createNode_keysND p t v _ hc h
    · intro n hn; cases hn

theorem EShape.g_kind {d : Doc} {a : EOp} {e : Eff} (h : EShape d a e) {o : Option DNode} {n' : DNode}
    (hg : e.g o = some n') : ∃ n, o = some n ∧ n'.kind = n.kind := by
  rcases h.g with h | ⟨t, h⟩ | ⟨t, h⟩ <;> rw [h] at hg
  · exact ⟨n', hg, rfl⟩
  · cases o with
    | none => simp [fun1] at hg
    | some n =>
      obtain ⟨nc, nd, np, nk⟩ := n
      cases nk <;> simp only [fun1, Option.some.injEq] at hg
      · cases hg
      · subst hg; exact ⟨_, rfl, rfl⟩
      · subst hg; exact ⟨_, rfl, rfl⟩
  · cases o with
    | none => simp [setD] at hg
    | some n =>
      simp only [setD, Option.map_some, Option.some.injEq] at hg
      subst hg; exact ⟨_, rfl, rfl⟩

theorem EShape.s_obj {d : Doc} {a : EOp} {e : Eff} (h : EShape d a e) {o : Option DNode} {n' : DNode}
    {m : List (String × Ts)} {sz : Int} (hs : e.s o = some n') (hk : n'.kind = .obj m sz) :
    ∃ n, o = some n ∧ n.kind = .obj m sz := by
  rcases h.s with h | ⟨k, h⟩ <;> rw [h] at hs
  · exact ⟨n', hs, hk⟩
  · cases o with
    | none => simp [mapArr] at hs
    | some n =>
      obtain ⟨nc, nd, np, nk⟩ := n
      cases nk <;> simp only [mapArr, Option.map_some, Option.some.injEq] at hs
      · subst hs; exact ⟨_, rfl, hk⟩
      · subst hs; exact ⟨_, rfl, hk⟩
      · subst hs; cases hk

/-- an object of the result is a new node or an object of the start document, with the same keys -/
theorem obj_after {d : Doc} (hwf : d.WF) {a : EOp} (ha : EOK d a) {q : Ts} {n' : DNode}
    {m : List (String × Ts)} {sz : Int} (h : (applyE d a).find q = some n') (hk : n'.kind = .obj m sz) :
    (∃ n0 ∈ nodesE a, n0.kind = .obj m sz) ∨ ∃ n, d.find q = some n ∧ n.kind = .obj m sz := by
  have hsh := eshape a ha
  rw [find_applyE hwf a ha] at h
  unfold Eff.run at h
  -- peel `g`
  have h1 : ∃ n1, upd (effE d a).p (effE d a).s (U (effE d a).ns d.find) q = some n1 ∧ n1.kind = .obj m sz := by
    by_cases e : q = (effE d a).x
    · subst e
      rw [upd_same] at h
      obtain ⟨n, hn, hkn⟩ := hsh.g_kind h
      exact ⟨n, hn, by rw [← hkn]; exact hk⟩
    · rw [upd_other _ _ e] at h; exact ⟨n', h, hk⟩
  obtain ⟨n1, hn1, hk1⟩ := h1
  have h2 : ∃ n2, U (effE d a).ns d.find q = some n2 ∧ n2.kind = .obj m sz := by
    by_cases e : q = (effE d a).p
    · subst e
      rw [upd_same] at hn1
      exact hsh.s_obj hn1 hk1
    · rw [upd_other _ _ e] at hn1; exact ⟨n1, hn1, hk1⟩
  obtain ⟨n2, hn2, hk2⟩ := h2
  unfold U at hn2
  cases hnf : nfind (effE d a).ns q with
  | none =>
    rw [hnf] at hn2
    exact Or.inr ⟨n2, by simpa using hn2, hk2⟩
  | some n3 =>
    rw [hnf] at hn2
    simp only [Option.some_or, Option.some.injEq] at hn2
    subst hn2
    left
    rw [← hsh.ns]
    exact ⟨n3, (nfind_some hnf).1, hk2⟩

theorem keysND_applyE {d : Doc} (hwf : d.WF) (hk : KeysND d) {a : EOp} (ha : EOK d a) (hv : EKeysND a) :
    KeysND (applyE d a) := by
  intro q n' m sz h hkind
  rcases obj_after hwf ha h hkind with ⟨n0, h1, h2⟩ | ⟨n, h1, h2⟩
  · exact nodesKeysND_nodesE a hv n0 h1 m sz h2
  · exact hk q n m sz h1 h2

theorem isObj_applyE {d : Doc} (hwf : d.WF) {a : EOp} (ha : EOK d a) {q : Ts} (hq : IsObj d q) :
    IsObj (applyE d a) q := by
  obtain ⟨n, m, sz, hn, hkind⟩ := hq
  have hsh := eshape a ha
  have hqn : q ∉ ids (effE d a).ns := by rw [hsh.ns]; exact fresh_not_mem ha.fresh hn
  unfold IsObj
  rw [find_applyE hwf a ha]
  unfold Eff.run
  have h1 : ∃ n1, upd (effE d a).p (effE d a).s (U (effE d a).ns d.find) q = some n1 ∧ n1.kind = .obj m sz := by
    by_cases e : q = (effE d a).p
    · subst e
      rw [upd_same, U_old hqn, hn]
      rcases hsh.s with h | ⟨k, h⟩ <;> rw [h]
      · exact ⟨n, rfl, hkind⟩
      · obtain ⟨nc, nd, np, nk⟩ := n
        simp only at hkind
        subst hkind
        exact ⟨_, rfl, rfl⟩
    · rw [upd_other _ _ e, U_old hqn]; exact ⟨n, hn, hkind⟩
  obtain ⟨n1, hn1, hk1⟩ := h1
  by_cases e : q = (effE d a).x
  · subst e
    rw [upd_same, hn1]
    obtain ⟨nc, nd, np, nk⟩ := n1
    simp only at hk1
    subst hk1
    rcases hsh.g with h | ⟨t, h⟩ | ⟨t, h⟩ <;> rw [h]
    · exact ⟨_, m, sz, rfl, rfl⟩
    · exact ⟨_, m, sz, rfl, rfl⟩
    · exact ⟨_, m, sz, rfl, rfl⟩
  · rw [upd_other _ _ e]; exact ⟨n1, m, sz, hn1, hk1⟩

theorem block_delim {ts ts' : Ts} {ns : List DNode} (hb : Block ts ns ts') {c : Ts} (hc : c ∈ ids ns) :
    ts.delim ≤ c.delim ∧ c.delim < ts'.delim ∧ ts'.delim = ts.delim + ns.length := by
  have hnext := hb.next
  rw [hb.ids] at hc
  obtain ⟨i, hi, rfl⟩ := DC.mem_delimSeq.mp hc
  rw [hnext]
  simp only [addDelim]
  refine ⟨by omega, by omega, trivial⟩

theorem ranked_addAll' {d : Doc} (hwf : d.WF) {ts ts' : Ts} {ns : List DNode} (hb : Block ts ns ts')
    (hf : Fresh d ns) {rk : Ts → Nat} (hr : Ranked d rk) (shift : Nat) :
    Ranked (d.addAll ns) (newRank rk ns ts' shift) := by
  intro q n hq c hc
  rcases find_addAll_cases hq with ⟨hn, hnc⟩ | ⟨hnot, hd⟩
  · obtain ⟨nc, hnc', h1, _, h3⟩ := hb.links n hn c hc
    have hq' : q ∈ ids ns := List.mem_map.mpr ⟨n, hn, hnc⟩
    have hc' : c ∈ ids ns := List.mem_map.mpr ⟨nc, hnc', h1⟩
    rw [newRank_new hq', newRank_new hc']
    have := block_delim hb hc'
    rw [hnc] at h3
    omega
  · obtain ⟨nc, h1, _⟩ := hwf.child q n hd c hc
    have hc' : c ∉ ids ns := fun e => by rw [hf c e] at h1; cases h1
    rw [newRank_old hnot, newRank_old hc']
    have := hr q n hd c hc
    omega

theorem newRank_new_le {rk : Ts → Nat} {ts ts' : Ts} {ns : List DNode} (hb : Block ts ns ts') (shift : Nat)
    {c : Ts} (hc : c ∈ ids ns) : newRank rk ns ts' shift c ≤ ns.length - 1 ∧ 1 ≤ ns.length := by
  rw [newRank_new hc]
  have := block_delim hb hc
  omega

theorem ranked_setSize {d : Doc} {rk : Ts → Nat} (h : Ranked d rk) {p : Ts} {pn : DNode} {sl : List (Ts × Ts)}
    {sz : Int} (hp : d.findArr p = some (pn, sl, sz)) (s' : Int) :
    Ranked (d.set { pn with kind := .arr sl s' }) rk := by
  obtain ⟨h1, h2⟩ := findArr_some_iff.mp hp
  apply ranked_setKind h h1
  intro c hc
  have := h p pn h1 c
  rw [h2] at this
  exact this hc

theorem bounded_applyE {d : Doc} (hwf : d.WF) (hbd : Bounded d) : ∀ (e : EOp), EOK d e → Bounded (applyE d e)
  | .ins p a ts vs, h => by
    obtain ⟨rk, hrk, hbound⟩ := hbd
    obtain ⟨harr, ⟨ns, cs, t', hc⟩, hf, _, _⟩ := h
    obtain ⟨pn, sl, sz, hp⟩ := isArr_iff.mp harr
    have hn : nodesE (.ins p a ts vs) = ns := by simp [nodesE, hc]
    rw [hn] at hf
    obtain ⟨hp1, hk⟩ := findArr_some_iff.mp hp
    obtain ⟨hb, _, hcs⟩ := createMany_block hc
    have hp2 : (d.addAll ns).find p = some pn := find_addAll_old hf hp1
    have hpn : p ∉ ids ns := fresh_not_mem hf hp1
    have hlen := len_addAll ns d hf (block_ids_nodup hb)
    have hbnd : ∀ (L' : Nat), d.table.length + ns.length ≤ L' → ∀ c, newRank rk ns t' ns.length c < L' := by
      intro L' h1 c
      by_cases hcn : c ∈ ids ns
      · have := newRank_new_le (rk := rk) hb ns.length hcn; omega
      · rw [newRank_old hcn]; have := hbound c; omega
    simp only [applyE, EOp.toA, applyA, Doc.insertRemoteInArray, hp, hc]
    cases hi : insertAfterId (fun (s : Ts × Ts) => s.1) a (cs.map fun c => (c, c)) sl with
    | none =>
      show Bounded (d.addAll ns)
      exact ⟨newRank rk ns t' ns.length, ranked_addAll' hwf hb hf hrk _, hbnd _ (by omega)⟩
    | some sl' =>
      simp only
      have hperm := insertAfterId_perm _ a _ sl sl' hi
      refine ⟨newRank rk ns t' ns.length, ?_, ?_⟩
      · apply ranked_setKind (ranked_addAll' hwf hb hf hrk _) hp2
        intro c hcm
        simp only [kids] at hcm
        obtain ⟨y, hy, rfl⟩ := List.mem_map.mp hcm
        rcases List.mem_append.mp (hperm.subset hy) with h1 | h1
        · obtain ⟨x, hx, rfl⟩ := List.mem_map.mp h1
          obtain ⟨nc, hnc, e1, _⟩ := hcs x hx
          have hxi : x ∈ ids ns := e1 ▸ List.mem_map.mpr ⟨nc, hnc, rfl⟩
          have := newRank_new_le (rk := rk) hb ns.length hxi
          rw [newRank_old hpn]
          simp only
          omega
        · have hy2 : y.2 ∈ kids pn.kind := by rw [hk]; exact List.mem_map.mpr ⟨y, h1, rfl⟩
          obtain ⟨nc, h2, _⟩ := hwf.child p pn hp1 y.2 hy2
          have hyn : y.2 ∉ ids ns := fresh_not_mem hf h2
          rw [newRank_old hyn, newRank_old hpn]
          have := hrk p pn hp1 y.2 hy2
          omega
      · have := len_set_ge (d.addAll ns) { pn with kind := .arr sl' (sz + cs.length) }
        exact hbnd _ (by omega)
  | .del1 p tg t, h => by
    obtain ⟨rk, hrk, hbound⟩ := hbd
    obtain ⟨harr, _⟩ := h
    obtain ⟨pn, sl, sz, hp⟩ := isArr_iff.mp harr
    simp only [applyE, EOp.toA, applyA, Doc.deleteRemoteInArray, hp, Doc.deleteRemoteInArray.go]
    cases hs : sl.find? (fun s => s.1 = tg) with
    | none =>
      simp only [hp]
      refine ⟨rk, ranked_setSize hrk hp _, fun c => ?_⟩
      have := len_set_ge d { pn with kind := .arr sl (sz - 0) }
      have := hbound c; omega
    | some s =>
      simp only
      by_cases h1 : d.isTomb s.2 = true
      · simp only [h1, Bool.not_true, Bool.false_eq_true, if_false]
        by_cases h2 : ((d.timeOf s.2).cmp t == Ordering.lt) = true
        · simp only [h2, if_true]
          obtain ⟨pn', h3⟩ := findArr_makeTomb (x := s.2) (t := t) hp
          simp only [h3]
          refine ⟨rk, ranked_setSize (ranked_makeTomb hrk _ _) h3 _, fun c => ?_⟩
          have l1 := len_makeTomb_ge d s.2 t
          have l2 := len_set_ge (d.makeTomb s.2 t) { pn' with kind := .arr sl (sz - 0) }
          have := hbound c; omega
        · simp only [h2, Bool.false_eq_true, if_false, hp]
          refine ⟨rk, ranked_setSize hrk hp _, fun c => ?_⟩
          have := len_set_ge d { pn with kind := .arr sl (sz - 0) }
          have := hbound c; omega
      · have h1' : d.isTomb s.2 = false := by simpa using h1
        simp only [h1', Bool.not_false, if_true]
        obtain ⟨pn', h3⟩ := findArr_makeTomb (x := s.2) (t := t) hp
        simp only [h3]
        refine ⟨rk, ranked_setSize (ranked_makeTomb hrk _ _) h3 _, fun c => ?_⟩
        have l1 := len_makeTomb_ge d s.2 t
        have l2 := len_set_ge (d.makeTomb s.2 t) { pn' with kind := .arr sl (sz - (0 + 1)) }
        have := hbound c; omega
  | .upd1 p tg t v, h => by
    obtain ⟨rk, hrk, hbound⟩ := hbd
    obtain ⟨harr, ⟨ns, c, t', hc⟩, hf, _⟩ := h
    obtain ⟨pn, sl, sz, hp⟩ := isArr_iff.mp harr
    have hn : nodesE (.upd1 p tg t v) = ns := by simp [nodesE, hc]
    rw [hn] at hf
    have hroot := createNode_root hc
    subst hroot
    obtain ⟨hp1, hk⟩ := findArr_some_iff.mp hp
    have hb : Block c ns t' := (createNode_spec p c v _ hc).1
    have hp2 : (d.addAll ns).find p = some pn := find_addAll_old hf hp1
    have hp3 : (d.addAll ns).findArr p = some (pn, sl, sz) := findArr_some_iff.mpr ⟨hp2, hk⟩
    have hpn : p ∉ ids ns := fresh_not_mem hf hp1
    have hcm : c ∈ ids ns := by
      have := root_mem_nodesE (d := d) (p := p) (tg := tg) (t := c) (v := v)
        ⟨harr, ⟨ns, c, t', hc⟩, by rw [hn]; exact hf, by assumption⟩
      rw [hn] at this; exact this
    have hn1 := (newRank_new_le (rk := rk) hb 0 hcm).2
    have hL : 1 ≤ d.table.length := by have := hbound p; omega
    have hlen := len_addAll ns d hf (block_ids_nodup hb)
    have hnd1 : (ids (d.addAll ns).table).Nodup := nodup_addAll ns hwf.nodup
    have hbnd : ∀ shift (L' : Nat), d.table.length + shift ≤ L' → ns.length ≤ L' →
        ∀ x, newRank rk ns t' shift x < L' := by
      intro shift L' h1 h2 x
      by_cases hx : x ∈ ids ns
      · have := newRank_new_le (rk := rk) hb shift hx; omega
      · rw [newRank_old hx]; have := hbound x; omega
    simp only [applyE, EOp.toA, applyA, Doc.updateRemoteInArray, hp, Doc.updateRemoteInArray.go, hc, hp3]
    cases hs : sl.find? (fun s => s.1 = tg) with
    | none =>
      show Bounded (d.addAll ns)
      exact ⟨newRank rk ns t' 0, ranked_addAll' hwf hb hf hrk _, hbnd 0 _ (by omega) (by omega)⟩
    | some s =>
      simp only
      by_cases hw : (!(d.addAll ns).isTomb s.2 && ((d.addAll ns).timeOf s.2).cmp c == Ordering.lt) = true
      · simp only [hw, if_true]
        have hold : s.2 ∈ kids pn.kind := by
          rw [hk]; exact List.mem_map.mpr ⟨s, List.mem_of_find?_eq_some hs, rfl⟩
        have hrp : 1 ≤ rk p := by have := hrk p pn hp1 s.2 hold; omega
        have hrc : newRank rk ns t' (ns.length - 1) c = ns.length - 1 := by
          rw [newRank_new hcm]
          have := block_delim hb hcm
          omega
        refine ⟨newRank rk ns t' (ns.length - 1), ?_, ?_⟩
        · apply ranked_funeral
          apply ranked_setKind (ranked_addAll' hwf hb hf hrk _) hp2
          intro x hx
          simp only [kids] at hx
          obtain ⟨y, hy, rfl⟩ := List.mem_map.mp hx
          rcases mem_setSlotChild hy with rfl | hy'
          · simp only
            rw [hrc, newRank_old hpn]; omega
          · have hy2 : y.2 ∈ kids pn.kind := by rw [hk]; exact List.mem_map.mpr ⟨y, hy', rfl⟩
            obtain ⟨nc, h2, _⟩ := hwf.child p pn hp1 y.2 hy2
            have hyn : y.2 ∉ ids ns := fresh_not_mem hf h2
            rw [newRank_old hyn, newRank_old hpn]
            have := hrk p pn hp1 y.2 hy2
            omega
        · have l1 := len_set_ge (d.addAll ns) { pn with kind := .arr (setSlotChild tg c sl) sz }
          have l2 := len_funeral_ge (nodup_set { pn with kind := .arr (setSlotChild tg c sl) sz } hnd1) s.2 c
          exact hbnd _ _ (by omega) (by omega)
      · simp only [hw, Bool.false_eq_true, if_false]
        refine ⟨newRank rk ns t' 0, ranked_funeral (ranked_addAll' hwf hb hf hrk _) _ _, ?_⟩
        have l2 := len_funeral_ge hnd1 c s.2
        exact hbnd _ _ (by omega) (by omega)

theorem viewOK_applyE {d : Doc} (hwf : d.WF) (hv : ViewOK d) (e : EOp) (he : EOK d e) (hk : EKeysND e) :
    ViewOK (applyE d e) :=
  ⟨keysND_applyE hwf hv.keys he hk, bounded_applyE hwf hv.bounded e he, isObj_applyE hwf he hv.root⟩

theorem viewOK_applyAllE {l : List EOp} : ∀ {d : Doc}, GoodE d l → ViewOK d → (∀ e ∈ l, EKeysND e) →
    ViewOK (applyAllE d l) := by
  induction l with
  | nil => intro d _ hv _; exact hv
  | cons x l ih =>
    intro d h hv hk
    exact ih (goodE_step h) (viewOK_applyE h.1 hv x (h.2.1 x (by simp)) (hk x (by simp)))
      (fun o ho => hk o (List.mem_cons_of_mem _ ho))

/-- **4 (views).**  Two application orders of the same remote array operations show the same document
    after key sorting (`JVal.canon` sorts object keys; array order is untouched). -/
theorem arr_converge_view {d : Doc} {l l' : List EOp} (hp : l.Perm l') (h : GoodE d l) (hv : ViewOK d)
    (hk : ∀ e ∈ l, EKeysND e) : (applyAllE d l).view.canon = (applyAllE d l').view.canon := by
  have h' := goodE_perm hp h
  have hk' : ∀ e ∈ l', EKeysND e := fun e he => hk e (hp.mem_iff.mpr he)
  have v1 := viewOK_applyAllE h hv hk
  have v2 := viewOK_applyAllE h' hv hk'
  exact asim_view_canon (arr_converge_asim_same hp h) (goodE_applyAll h) v1.keys v2.keys
    v1.bounded v2.bounded v1.root

/-- the same below any node that is visible in the first result (a container or a live element) -/
theorem arr_converge_viewAt {d : Doc} {l l' : List EOp} (hp : l.Perm l') (h : GoodE d l) (hv : ViewOK d)
    (hk : ∀ e ∈ l, EKeysND e) {c : Ts} (hc : (shapeOf (applyAllE d l) c).isSome) :
    ((applyAllE d l).viewAt c).canon = ((applyAllE d l').viewAt c).canon := by
  have h' := goodE_perm hp h
  have hk' : ∀ e ∈ l', EKeysND e := fun e he => hk e (hp.mem_iff.mpr he)
  have v1 := viewOK_applyAllE h hv hk
  have v2 := viewOK_applyAllE h' hv hk'
  exact asim_viewAt_canon (arr_converge_asim_same hp h) (goodE_applyAll h) v1.keys v2.keys
    v1.bounded v2.bounded hc

/-! ## 2. payload: what a remote update / delete does to the targeted slot

The state of a slot is the state of its current child: `refSt d c = ⟨isTomb c, timeOf c, live occupant⟩`
(`DC.KeySt`); the visible value of a live slot is `viewAt c`.  `slot_step`: a remote single-target
delete / update replaces child and state of the (first) slot `tg` by `aDelStep t` / `aUpdStep t` of the
old child and state — nothing else of the slot list changes (`slotsOf_applyE`).  `del_eff` / `upd_eff`:
read as a node of the flat list (`stR`), these steps ARE `RF.Eff.del t` / `RF.Eff.upd v t`, i.e. `delF` /
`updF` of Proofs/RgaFull.lean: delete dominates (a live slot is tombstoned whatever the stamps), a
tombstone keeps the greatest delete stamp, a tombstone is never revived, on a live slot the update with
the newer stamp wins.  What differs from the flat list is not observable through `Ts.cmp`: an update
creates a NEW child (the slot keeps its order identifier, `timeOf` becomes the new child's creation
identifier) and buries the old one (an element leaves the table, a container stays as a tombstone with its
subtree); the loser of an update is buried the same way; the stamps of a multi-target update are
`t, t + #nodes(v₁), …` instead of `t, t+1, …` (same `Ts.key`). -/

/-- the slot as a node of the flat list: order identifier, visible value `w` unless tombstoned, LWW time -/
def stR (o : Ts) (w : JVal) (st : KeySt) : RNode := ⟨o, if st.tomb then none else some w, st.time⟩

theorem del_eff (t c o : Ts) (w w' : JVal) (st : KeySt) :
    stR o w' (aDelStep t c st).st = (RF.Eff.del t).app (stR o w st) := by
  obtain ⟨tomb, τ, occ⟩ := st
  cases tomb
  · simp [stR, aDelStep, RF.Eff.app, delF, RNode.isLive]
  · by_cases h : (τ.cmp t == Ordering.lt) = true
    · simp [stR, aDelStep, RF.Eff.app, delF, RNode.isLive, h]
    · simp [stR, aDelStep, RF.Eff.app, delF, RNode.isLive, h]

theorem upd_eff (n c o : Ts) (w v : JVal) (st : KeySt) :
    stR o (if !st.tomb && st.time.cmp n == .lt then v else w) (aUpdStep n c st).st =
      (RF.Eff.upd v n).app (stR o w st) := by
  obtain ⟨tomb, τ, occ⟩ := st
  cases tomb
  · by_cases h : (τ.cmp n == Ordering.lt) = true
    · simp [stR, aUpdStep, RF.Eff.app, updF, h]
    · simp [stR, aUpdStep, RF.Eff.app, updF, h]
  · simp [stR, aUpdStep, RF.Eff.app, updF]

/-- **2. the slot step.**  After an applicable single-target delete / update of the slot `tg` of `p`, the
    slot `tg` holds the child and the state computed by `aDelStep t` / `aUpdStep t` from the child and the
    state it held before. -/
theorem slot_step {d : Doc} (hwf : d.WF) {e : EOp} (he : EOK d e) {tg : Ts} (ht : e.tgt = some tg) :
    ∃ s s', (slotsOf d e.p).find? (fun x => x.1 = tg) = some s ∧
      (slotsOf (applyE d e) e.p).find? (fun x => x.1 = tg) = some s' ∧
      s'.2 = (fE e s.2 (refSt d s.2)).c ∧ refSt (applyE d e) s'.2 = (fE e s.2 (refSt d s.2)).st := by
  obtain ⟨pn, sl, sz, hp⟩ := isArr_iff.mp he.isArr
  obtain ⟨hp1, hk⟩ := findArr_some_iff.mp hp
  obtain ⟨sx, hsx, hsm, _⟩ := target_slot (he.tgt_mem ht)
  have hsx0 := hsx
  rw [slotsOf_of_findArr hp] at hsx hsm
  have hshape : (abs d).shape e.p = some (pn.parent, .arr (sl.map (entOf d))) := shapeOf_arr hp1 hk
  have hfind : (sl.map (entOf d)).find? (fun x => x.1 = tg) = some (entOf d sx) := by
    rw [find?_map_entOf, hsx]; rfl
  -- the abstract side
  have hpn : e.p ∉ ids (nodesE e) := fresh_not_mem he.fresh hp1
  have h1 := abs_applyE hwf e he
  rw [absE_slot ht, applySlot_eq (fE e) (union_shape_some hshape) hfind] at h1
  have h2 : (abs (applyE d e)).shape e.p = some (pn.parent, .arr
      (setEntry tg (fE e sx.2 (refSt d sx.2)).c (fE e sx.2 (refSt d sx.2)).st (sl.map (entOf d)))) := by
    rw [h1]
    apply kill_shape_arr
    simp [setArr, entOf]
  -- the concrete side
  obtain ⟨pn', sl', sz', hp'⟩ := isArr_iff.mp (isArr_applyE hwf he he.isArr)
  obtain ⟨hp1', hk'⟩ := findArr_some_iff.mp hp'
  have h3 : (abs (applyE d e)).shape e.p = some (pn'.parent, .arr (sl'.map (entOf (applyE d e)))) :=
    shapeOf_arr hp1' hk'
  rw [h3] at h2
  simp only [Option.some.injEq, Prod.mk.injEq, Shape.arr.injEq] at h2
  have h4 := congrArg (fun E : List Ent => E.find? (fun x => x.1 = tg)) h2.2
  simp only [find?_map_entOf, find?_setEntry hfind] at h4
  cases hs' : sl'.find? (fun x => x.1 = tg) with
  | none => rw [hs'] at h4; simp at h4
  | some s' =>
    rw [hs'] at h4
    simp only [Option.map_some, Option.some.injEq, entOf, Prod.mk.injEq] at h4
    exact ⟨sx, s', hsx0, by rw [slotsOf_of_findArr hp']; exact hs', h4.2.1, h4.2.2⟩

theorem refSt_inv (d : Doc) (c : Ts) : (refSt d c).occ = if (refSt d c).tomb then none else some c := rfl

/-- a winning update: the slot shows exactly the value sent -/
theorem upd1_win_viewAt {d : Doc} (hwf : d.WF) (hbd : Bounded d) {p tg t : Ts} {v : JVal}
    (he : EOK d (.upd1 p tg t v)) {s : Ts × Ts} (hs : (slotsOf d p).find? (fun x => x.1 = tg) = some s)
    (hlive : d.isTomb s.2 = false) (hlt : (d.timeOf s.2).cmp t = .lt) :
    (applyE d (.upd1 p tg t v)).viewAt t = v ∧ (applyE d (.upd1 p tg t v)).isTomb t = false ∧
      (slotsOf (applyE d (.upd1 p tg t v)) p).find? (fun x => x.1 = tg) = some (tg, t) := by
  have he0 := he
  obtain ⟨harr, ⟨ns, c, t', hc⟩, hf, htg⟩ := he
  have hroot := createNode_root hc
  subst hroot
  have hn : nodesE (.upd1 p tg c v) = ns := by simp [nodesE, hc]
  rw [hn] at hf
  obtain ⟨pn, hpn⟩ := Option.isSome_iff_exists.mp (isArr_find harr)
  obtain ⟨nc, hnc, _⟩ := slotsOf_child hwf (List.mem_of_find?_eq_some hs)
  have hb : Block c ns t' := (createNode_spec p c v _ hc).1
  have hnd := block_ids_nodup hb
  have heff : effE d (.upd1 p tg c v) = ⟨ns, p, mapArr (setK tg c), s.2, fun1 c⟩ := by
    simp only [effE, hs, hlive, hlt, hn]
    simp
  have hpres : Present (applyE d (.upd1 p tg c v)) ns := by
    intro n hnm
    have hmem : n.c ∈ ids ns := List.mem_map.mpr ⟨n, hnm, rfl⟩
    rw [find_applyE hwf _ he0, heff]
    simp only [Eff.run]
    have h1 : n.c ≠ s.2 := fun e => fresh_not_mem hf hnc (e ▸ hmem)
    have h2 : n.c ≠ p := fun e => fresh_not_mem hf hpn (e ▸ hmem)
    rw [upd_other _ _ h1, upd_other _ _ h2]
    simp only [U, nfind_of_mem hnd hnm, Option.some_or]
  obtain ⟨F, hF⟩ := viewOf_createNode _ p c v _ hc hpres
  obtain ⟨rk, hrk, hbound⟩ := bounded_applyE hwf hbd _ he0
  obtain ⟨_, hl⟩ := created_root_live hc hpres
  refine ⟨?_, hl, ?_⟩
  · unfold Doc.viewAt
    have := hbound c
    rw [viewOf_stable hrk ((applyE d (.upd1 p tg c v)).table.length + 1)
      ((applyE d (.upd1 p tg c v)).table.length + 1 + F) c (by omega) (by omega)]
    exact hF _ (by omega)
  · rw [slotsOf_applyE hwf he0 (isArr_find harr)]
    simp only [EOp.p, if_true, slotK, hs, hlive, hlt]
    simp only [Bool.not_false, beq_self_eq_true, Bool.and_self, if_true]
    exact find?_setSlotChild_same hs

/-! ## 9. non-vacuity, examples, counterexamples (all by `decide` on the executable model) -/

theorem disj_of_all {a b : EOp}
    (h : (ids (nodesE a)).all (fun c => !(memB c (ids (nodesE b)))) = true) : Disj a b := by
  intro c h1 h2
  have := List.all_eq_true.mp h c h1
  rw [memB_iff.mpr h2] at this
  cases this

theorem perm_pair {α : Type} {a b : α} {l : List α} (h : l.Perm [a, b]) : l = [a, b] ∨ l = [b, a] := by
  have hl := h.length_eq
  match l, hl, h with
  | [x, y], _, h =>
    have hx : x = a ∨ x = b := by simpa using h.subset (List.mem_cons_self)
    have hy : y = a ∨ y = b := by
      have : y ∈ [a, b] := h.subset (by simp)
      simpa using this
    have ha : a = x ∨ a = y := by
      have : a ∈ [x, y] := h.symm.subset (by simp)
      simpa using this
    have hb : b = x ∨ b = y := by
      have : b ∈ [x, y] := h.symm.subset (by simp)
      simpa using this
    rcases hx with hx | hx <;> rcases hy with hy | hy
    · rcases hb with hb | hb
      · left; rw [hy, hb, hx]
      · left; rw [hx, hb, hy]
    · left; rw [hx, hy]
    · right; rw [hx, hy]
    · rcases ha with ha | ha
      · left; rw [hy, ha, hx]
      · left; rw [hx, ha, hy]

instance (d : Doc) (p : Ts) : Decidable (IsArr d p) := by unfold IsArr; infer_instance
instance (x : Ts) (l : List Ts) : Decidable (x ∈ l) := decidable_of_iff (memB x l = true) memB_iff


theorem not_sim_of_slots {a b : Doc} {p : Ts} (ha : IsArr a p) (h : slotsOf a p ≠ slotsOf b p) : ¬ Sim a b := by
  intro hs
  apply h
  have hsh : shapeOf a p = shapeOf b p := congrArg (fun A => A.shape p) hs
  obtain ⟨pn, sl, sz, hp⟩ := isArr_iff.mp ha
  obtain ⟨hp1, hk⟩ := findArr_some_iff.mp hp
  rw [shapeOf_arr hp1 hk] at hsh
  rw [slotsOf_of_findArr hp]
  unfold shapeOf at hsh
  cases hb : b.find p with
  | none => rw [hb] at hsh; simp at hsh
  | some nb =>
    rw [hb] at hsh
    obtain ⟨bc, bd, bp, bk⟩ := nb
    cases bk with
    | elem v => simp only at hsh; split at hsh <;> simp at hsh
    | obj m s => simp at hsh
    | arr slb sb =>
      simp only [Option.some.injEq, Prod.mk.injEq, Shape.arr.injEq] at hsh
      have hb' : b.findArr p = some (⟨bc, bd, bp, .arr slb sb⟩, slb, sb) := findArr_some_iff.mpr ⟨hb, rfl⟩
      rw [slotsOf_of_findArr hb']
      have h1 := congrArg (List.map fun e : Ent => (e.1, e.2.1)) hsh.2
      simpa [List.map_map, Function.comp_def, entOf] using h1

namespace Ex

def tA : Ts := ⟨0, 1, "a", 0⟩
def tB : Ts := ⟨0, 2, "b", 0⟩
def tC : Ts := ⟨0, 3, "c", 0⟩
def tD : Ts := ⟨0, 4, "d", 0⟩
def tE : Ts := ⟨0, 5, "e", 0⟩
def root : Ts := Ts.oldest
def base : Doc := applyOp Doc.empty (.put root "a" (.arr [.num 1, .obj [("x", .num 5)], .arr [.num 7]]) tA)
def arr : Ts := tA
def s0 : Ts := ⟨0, 1, "a", 1⟩
def s1 : Ts := ⟨0, 1, "a", 2⟩
def s2 : Ts := ⟨0, 1, "a", 4⟩
theorem base_wf : base.WF :=
  wf_op wf_doc_empty _ ⟨⟨_, _, _, rfl, rfl⟩, ⟨_, _, _, rfl⟩, DC.Ex.fresh_of_all (by decide)⟩
def i1 : EOp := .ins arr s0 tB [.arr [.num 1, .num 2], .str "z"]
def i2 : EOp := .ins arr s0 tC [.num 99]
def u : EOp := .upd1 arr s1 tD (.num 10)
def dl : EOp := .del1 arr s1 tE
def ops : List EOp := [i1, i2, u, dl]
def ops' : List EOp := [dl, u, i2, i1]

def m0 : AIns := ⟨Ts.oldest, [s0, s1, s2]⟩
def o1 : AIns := ⟨s0, newSlots i1⟩
def o2 : AIns := ⟨s0, newSlots i2⟩

theorem causal12 : ACausal [m0, o1, o2] where
  nonempty := by decide
  samekey := by decide
  nodup := by decide
  notHead := by decide
  distinct := by decide
  anchored := by
    intro i hi
    match i, hi with
    | 0, _ => left; rfl
    | 1, _ => right; exact ⟨0, by omega, (by decide : o1.anchor ∈ m0.cs), (by decide : m0.ts0.cmp o1.ts0 = .lt)⟩
    | 2, _ => right; exact ⟨0, by omega, (by decide : o2.anchor ∈ m0.cs), (by decide : m0.ts0.cmp o2.ts0 = .lt)⟩

theorem causal21 : ACausal [m0, o2, o1] where
  nonempty := by decide
  samekey := by decide
  nodup := by decide
  notHead := by decide
  distinct := by decide
  anchored := by
    intro i hi
    match i, hi with
    | 0, _ => left; rfl
    | 1, _ => right; exact ⟨0, by omega, (by decide : o2.anchor ∈ m0.cs), (by decide : m0.ts0.cmp o2.ts0 = .lt)⟩
    | 2, _ => right; exact ⟨0, by omega, (by decide : o1.anchor ∈ m0.cs), (by decide : m0.ts0.cmp o1.ts0 = .lt)⟩

theorem good : GoodE base ops := by
  refine ⟨base_wf, ?_, ?_, ?_⟩
  · intro e he
    simp only [ops, List.mem_cons, List.mem_nil_iff, or_false] at he
    rcases he with rfl | rfl | rfl | rfl
    · exact ⟨by decide, ⟨_, _, _, rfl⟩, DC.Ex.fresh_of_all (by decide), by decide, Or.inr (by decide)⟩
    · exact ⟨by decide, ⟨_, _, _, rfl⟩, DC.Ex.fresh_of_all (by decide), by decide, Or.inr (by decide)⟩
    · exact ⟨by decide, ⟨_, _, _, rfl⟩, DC.Ex.fresh_of_all (by decide), by decide⟩
    · exact ⟨by decide, by decide⟩
  · simp only [ops, List.pairwise_cons, List.mem_cons, List.mem_nil_iff, or_false, forall_eq_or_imp, forall_eq,
      List.Pairwise.nil, and_true, IsEmpty.forall_iff, implies_true]
    refine ⟨⟨?_, ?_, ?_⟩, ⟨?_, ?_⟩, ?_⟩ <;> exact ⟨disj_of_all (by decide), by decide⟩
  · intro p ⟨e, he, hi⟩
    have hp : p = arr := by
      simp only [ops, List.mem_cons, List.mem_nil_iff, or_false] at he
      rcases he with rfl | rfl | rfl | rfl
      · simp only [i1, insOnE] at hi
        by_cases e' : arr = p
        · exact e'.symm
        · simp [e'] at hi
      · simp only [i2, insOnE] at hi
        by_cases e' : arr = p
        · exact e'.symm
        · simp [e'] at hi
      · simp [u, insOnE] at hi
      · simp [dl, insOnE] at hi
    subst hp
    refine ⟨[m0], by decide, ?_⟩
    intro l' hl'
    have : ops.filterMap (insOnE arr) = [o1, o2] := by decide
    rw [this] at hl'
    rcases perm_pair hl' with rfl | rfl
    · exact causal12
    · exact causal21


/-! #### the hypotheses of the convergence theorems are satisfiable: `GoodE base ops` — a nested batch
    insert, a concurrent insert at the same place, an update and a delete of the same slot -/

example : ASim (applyAllE base ops) (applyAllE base ops') :=
  arr_converge_asim_same (List.reverse_perm ops).symm good

theorem base_viewOK : ViewOK base :=
  viewOK_op wf_doc_empty viewOK_empty _ ⟨⟨_, _, _, rfl, rfl⟩, ⟨_, _, _, rfl⟩, DC.Ex.fresh_of_all (by decide)⟩
    (by simp [OpKeysND, JKeysND, JKeysNDList, JKeysNDKvs])

example : (applyAllE base ops).view.canon = (applyAllE base ops').view.canon :=
  arr_converge_view (List.reverse_perm ops).symm good base_viewOK (by
    intro e he
    simp only [ops, List.mem_cons, List.mem_nil_iff, or_false] at he
    rcases he with rfl | rfl | rfl | rfl <;> simp [EKeysND, i1, i2, u, dl, JKeysND, JKeysNDList])

/-- … and what the two replicas show -/
example : ((applyAllE base ops).view ==
    .obj [("a", .arr [.num 1, .num 99, .arr [.num 1, .num 2], .str "z", .arr [.num 7]])]) = true ∧
    ((applyAllE base ops').view == (applyAllE base ops).view) = true := by decide

/-! #### nested values inserted in one batch: the order identifiers are the children's creation
    identifiers, NOT consecutive delimiters -/
example : newSlots i1 = [tB, ⟨0, 2, "b", 3⟩] := by decide
example : slotIds (applyE base i1) arr = [s0, tB, ⟨0, 2, "b", 3⟩, s1, s2] := by decide

/-! #### concurrent inserts at the same place: the newer batch comes first, in both arrival orders -/
example : slotIds (applyAllE base [i1, i2]) arr = [s0, tC, tB, ⟨0, 2, "b", 3⟩, s1, s2] ∧
    slotIds (applyAllE base [i2, i1]) arr = [s0, tC, tB, ⟨0, 2, "b", 3⟩, s1, s2] := by decide

/-- the same through `arr_order_converge` (batch operations, an update and a delete mixed in) -/
example : slotIds (applyAllA base [.ins arr s0 tB [.arr [.num 1, .num 2], .str "z"], .upd arr tD [s1] [.num 10],
      .ins arr s0 tC [.num 99], .del arr [s1, s2] tE]) arr =
    slotIds (applyAllA base [.del arr [s1, s2] tE, .ins arr s0 tC [.num 99], .upd arr tD [s1] [.num 10],
      .ins arr s0 tB [.arr [.num 1, .num 2], .str "z"]]) arr := by
  apply arr_order_converge_fresh
  · exact List.reverse_perm _ |>.symm
  · decide
  · decide
  · have : ([AOp.ins arr s0 tB [.arr [.num 1, .num 2], .str "z"], .upd arr tD [s1] [.num 10],
        .ins arr s0 tC [.num 99], .del arr [s1, s2] tE]).filterMap (insOn arr) = [o1, o2] := by decide
    rw [this]
    have : slotIds base arr = [s0, s1, s2] := by decide
    rw [this]
    exact causal12
  · have : ([AOp.del arr [s1, s2] tE, .ins arr s0 tC [.num 99], .upd arr tD [s1] [.num 10],
        .ins arr s0 tB [.arr [.num 1, .num 2], .str "z"]]).filterMap (insOn arr) = [o2, o1] := by decide
    rw [this]
    have : slotIds base arr = [s0, s1, s2] := by decide
    rw [this]
    exact causal21

/-! #### update and delete of the same slot, both arrival orders: same view, same size, but the slot is
    left with DIFFERENT tombstoned children — `DC.Sim` fails, `ASim` holds (`comm_asim_upd_del`) -/
def ud : Doc := applyAllE base [u, dl]
def du : Doc := applyAllE base [dl, u]
example : (ud.view == du.view) = true ∧ sizeOf' ud arr = 2 ∧ sizeOf' du arr = 2 := by decide
example : slotsOf ud arr = [(s0, s0), (s1, tD), (s2, s2)] ∧ slotsOf du arr = [(s0, s0), (s1, s1), (s2, s2)] := by
  decide
theorem upd_del_not_sim : ¬ Sim ud du := not_sim_of_slots (p := arr) (by decide) (by decide)
example : ASim ud du :=
  comm_asim_upd_del base_wf (good.2.1 u (by simp [ops])) (good.2.1 dl (by simp [ops]))
/-- the delete dominates even when it is OLDER than the update (the flat list does the same: `delF`) -/
example : ((applyAllE base [.upd1 arr s1 tE (.num 10), .del1 arr s1 tD]).view ==
    (applyAllE base [.del1 arr s1 tD, .upd1 arr s1 tE (.num 10)]).view) = true ∧
    (applyAllE base [.upd1 arr s1 tE (.num 10), .del1 arr s1 tD]).timeOf tE = tD := by decide

/-! #### two updates of the same slot whose old child is a container: the buried container keeps the
    stamp of the update that buried it — `DocEq` fails, `DC.Sim` holds (`comm_sim_upd_upd`) -/
def u' : EOp := .upd1 arr s1 tE (.num 20)
def uu : Doc := applyAllE base [u, u']
def uu' : Doc := applyAllE base [u', u]
example : DC.Ex.dOf uu s1 = some (some tD) ∧ DC.Ex.dOf uu' s1 = some (some tE) := by decide
theorem upd_upd_not_docEq : ¬ DocEq uu uu' := DC.Ex.not_docEq_of_dOf s1 (by decide)
theorem u'_ok : EOK base u' := ⟨by decide, ⟨_, _, _, rfl⟩, DC.Ex.fresh_of_all (by decide), by decide⟩
example : Sim uu uu' := by
  have := comm_sim_upd_upd (d := base) (p := arr) (tg := s1) (t1 := tD) (t2 := tE) (v1 := .num 10) (v2 := .num 20)
    base_wf (good.2.1 u (by simp [ops])) u'_ok (disj_of_all (by decide)) (by decide)
  exact this
example : (uu.view == uu'.view) = true := by decide

/-! #### the payload rule is the flat list's (`del_eff`, `upd_eff`); what differs is invisible to `Ts.cmp`:
    the second value of a two-target update is created at `tD + #nodes(first value)` (here `tD+2`), where
    the flat list stamps `tD+1` — same `Ts.key`, same LWW decisions -/
example : let d := applyA base (.upd arr tD [s0, s1] [.arr [.num 1], .num 2])
    slotsOf d arr = [(s0, tD), (s1, ⟨0, 4, "d", 2⟩), (s2, s2)] ∧ d.timeOf ⟨0, 4, "d", 2⟩ = ⟨0, 4, "d", 2⟩ ∧
    (⟨0, 4, "d", 2⟩ : Ts).cmp ⟨0, 4, "d", 1⟩ = .eq := by decide
/-- `slot_step` on the instance: the slot `s1` after the update `u` holds the child `tD`, live, time `tD` -/
example : (slotsOf (applyE base u) arr).find? (fun x => x.1 = s1) = some (s1, tD) ∧
    refSt (applyE base u) tD = ⟨false, tD, some tD⟩ ∧
    aUpdStep tD s1 (refSt base s1) = ⟨tD, ⟨false, tD, some tD⟩, 0, some s1⟩ := by decide

/-! #### a delete of a slot whose child is a container keeps the container (and its subtree) in the table;
    an insert into the deleted inner array still applies, in both orders, and stays invisible -/
example : let d := applyE base (.del1 arr s2 tD)
    (d.find s2).isSome = true ∧ d.isTomb s2 = true ∧ (d.find ⟨0, 1, "a", 5⟩).isSome = true := by decide
example : ((applyAllE base [.del1 arr s2 tD, .ins s2 Ts.oldest tE [.num 8]]).view ==
    (applyAllE base [.ins s2 Ts.oldest tE [.num 8], .del1 arr s2 tD]).view) = true ∧
    slotIds (applyAllE base [.del1 arr s2 tD, .ins s2 Ts.oldest tE [.num 8]]) s2 = [tE, ⟨0, 1, "a", 5⟩] := by decide

end Ex

/-! ## 10. multi-target operations: a batch is the sequence of its single-target operations -/

/-! ### the operations respect `DocEq` and keep the identifiers of the table distinct -/

theorem docEq_del_go (slots : List (Ts × Ts)) : ∀ (tgs : List Ts) (t : Ts) (a b : Doc) (k : Int),
    DocEq a b → DocEq (Doc.deleteRemoteInArray.go slots tgs t a k).1 (Doc.deleteRemoteInArray.go slots tgs t b k).1 ∧
      (Doc.deleteRemoteInArray.go slots tgs t a k).2 = (Doc.deleteRemoteInArray.go slots tgs t b k).2
  | [], _, _, _, _, h => ⟨h, rfl⟩
  | tg :: tgs, t, a, b, k, h => by
      simp only [Doc.deleteRemoteInArray.go]
      cases slots.find? (fun s => s.1 = tg) with
      | none => exact docEq_del_go slots tgs _ a b k h
      | some s =>
        simp only
        rw [docEq_isTomb h s.2, docEq_timeOf h s.2]
        by_cases h1 : (!b.isTomb s.2) = true
        · simp only [h1, if_true]
          exact docEq_del_go slots tgs _ _ _ _ (docEq_makeTomb h _ _)
        · simp only [h1, Bool.false_eq_true, if_false]
          by_cases h2 : ((b.timeOf s.2).cmp t == Ordering.lt) = true
          · simp only [h2, if_true]
            exact docEq_del_go slots tgs _ _ _ _ (docEq_makeTomb h _ _)
          · simp only [h2, Bool.false_eq_true, if_false]
            exact docEq_del_go slots tgs _ a b k h

/-- agreement of two outcomes up to `DocEq` -/
def OEq : Outcome Doc → Outcome Doc → Prop
  | .ok a, .ok b => DocEq a b
  | .err c, .err c' => c = c'
  | .panic w, .panic w' => w = w'
  | _, _ => False

theorem docEq_upd_go (p : Ts) : ∀ (tgs : List Ts) (vs : List JVal) (t : Ts) (a b : Doc), DocEq a b →
    OEq (Doc.updateRemoteInArray.go p tgs vs t a) (Doc.updateRemoteInArray.go p tgs vs t b)
  | [], _, _, _, _, h => by simp only [Doc.updateRemoteInArray.go, OEq]; exact h
  | _ :: _, [], _, _, _, _ => by simp only [Doc.updateRemoteInArray.go, OEq]
  | tg :: tgs, v :: vs, t, a, b, h => by
      simp only [Doc.updateRemoteInArray.go]
      cases createNode p t v with
      | err c => simp only [OEq]
      | panic w => simp only [OEq]
      | ok y =>
        obtain ⟨ns, newC, t'⟩ := y
        simp only
        have h1 := docEq_addAll h ns
        rw [docEq_findArr h1 p]
        cases (b.addAll ns).findArr p with
        | none => simp only [OEq]
        | some x =>
          obtain ⟨pn, sl, size⟩ := x
          simp only
          cases sl.find? (fun s => s.1 = tg) with
          | none => exact docEq_upd_go p tgs vs t' _ _ h1
          | some s =>
            simp only
            rw [docEq_isTomb h1 s.2, docEq_timeOf h1 s.2]
            by_cases hw : (!(b.addAll ns).isTomb s.2 && ((b.addAll ns).timeOf s.2).cmp newC == Ordering.lt) = true
            · simp only [hw, if_true]
              exact docEq_upd_go p tgs vs t' _ _ (docEq_funeral (docEq_set h1 _) _ _)
            · simp only [hw, Bool.false_eq_true, if_false]
              exact docEq_upd_go p tgs vs t' _ _ (docEq_funeral h1 _ _)

/-- the remote array operations respect `DocEq` -/
theorem docEq_applyA {a b : Doc} (h : DocEq a b) : ∀ (op : AOp), DocEq (applyA a op) (applyA b op)
  | .ins p an ts vs => by
    simp only [applyA, Doc.insertRemoteInArray]
    rw [docEq_findArr h p]
    cases b.findArr p with
    | none => exact h
    | some x =>
      obtain ⟨pn, sl, size⟩ := x
      simp only
      cases createMany p ts vs with
      | err c => exact h
      | panic w => exact h
      | ok y =>
        obtain ⟨ns, cs, t'⟩ := y
        simp only
        have h1 := docEq_addAll h ns
        cases insertAfterId (fun (s : Ts × Ts) => s.1) an (cs.map fun c => (c, c)) sl with
        | none => exact h1
        | some sl' => exact docEq_set h1 _
  | .del p tgs t => by
    simp only [applyA, Doc.deleteRemoteInArray]
    rw [docEq_findArr h p]
    cases b.findArr p with
    | none => exact h
    | some x =>
      obtain ⟨pn, slots, size⟩ := x
      simp only
      obtain ⟨h1, h2⟩ := docEq_del_go slots tgs t a b 0 h
      generalize Doc.deleteRemoteInArray.go slots tgs t a 0 = ra at h1 h2
      generalize Doc.deleteRemoteInArray.go slots tgs t b 0 = rb at h1 h2
      obtain ⟨da, ka⟩ := ra
      obtain ⟨db, kb⟩ := rb
      simp only at h1 h2 ⊢
      subst h2
      rw [docEq_findArr h1 p]
      cases db.findArr p with
      | none => exact h1
      | some y =>
        obtain ⟨pn', sl', size'⟩ := y
        exact docEq_set h1 _
  | .upd p t tgs vs => by
    simp only [applyA, Doc.updateRemoteInArray]
    rw [docEq_findArr h p]
    cases b.findArr p with
    | none => exact h
    | some x =>
      simp only
      have := docEq_upd_go p tgs vs t a b h
      cases ha : Doc.updateRemoteInArray.go p tgs vs t a with
      | ok a' =>
        cases hb : Doc.updateRemoteInArray.go p tgs vs t b with
        | ok b' => rw [ha, hb] at this; exact this
        | err c => rw [ha, hb] at this; exact this.elim
        | panic w => rw [ha, hb] at this; exact this.elim
      | err c =>
        cases hb : Doc.updateRemoteInArray.go p tgs vs t b with
        | ok b' => rw [ha, hb] at this; exact this.elim
        | err c => exact h
        | panic w => exact h
      | panic w =>
        cases hb : Doc.updateRemoteInArray.go p tgs vs t b with
        | ok b' => rw [ha, hb] at this; exact this.elim
        | err c => exact h
        | panic w => exact h

theorem docEq_applyAllA : ∀ (L : List AOp) {a b : Doc}, DocEq a b → DocEq (applyAllA a L) (applyAllA b L)
  | [], _, _, h => h
  | op :: L, _, _, h => docEq_applyAllA L (docEq_applyA h op)

theorem docEq_applyAllE : ∀ (l : List EOp) {a b : Doc}, DocEq a b → DocEq (applyAllE a l) (applyAllE b l)
  | [], _, _, h => h
  | e :: l, _, _, h => docEq_applyAllE l (docEq_applyA h e.toA)

theorem nodup_del_go (slots : List (Ts × Ts)) : ∀ (tgs : List Ts) (t : Ts) (d : Doc) (k : Int),
    (ids d.table).Nodup → (ids (Doc.deleteRemoteInArray.go slots tgs t d k).1.table).Nodup
  | [], _, _, _, h => h
  | tg :: tgs, t, d, k, h => by
      simp only [Doc.deleteRemoteInArray.go]
      split
      · exact nodup_del_go slots tgs _ d k h
      · split
        · exact nodup_del_go slots tgs _ _ _ (nodup_makeTomb _ _ h)
        · split
          · exact nodup_del_go slots tgs _ _ _ (nodup_makeTomb _ _ h)
          · exact nodup_del_go slots tgs _ d k h

theorem nodup_upd_go (p : Ts) : ∀ (tgs : List Ts) (vs : List JVal) (t : Ts) (d d' : Doc),
    Doc.updateRemoteInArray.go p tgs vs t d = .ok d' → (ids d.table).Nodup → (ids d'.table).Nodup
  | [], _, _, _, _, h, hn => by
      simp only [Doc.updateRemoteInArray.go, Outcome.ok.injEq] at h; rw [← h]; exact hn
  | _ :: _, [], _, _, _, h, _ => by simp [Doc.updateRemoteInArray.go] at h
  | tg :: tgs, v :: vs, t, d, d', h, hn => by
      simp only [Doc.updateRemoteInArray.go] at h
      split at h
      · cases h
      · cases h
      · rename_i ns newC t' hc
        have h0 := nodup_addAll ns hn
        split at h
        · cases h
        · split at h
          · exact nodup_upd_go p tgs vs t' _ d' h h0
          · split at h
            · exact nodup_upd_go p tgs vs t' _ d' h (nodup_funeral _ _ (nodup_set _ h0))
            · exact nodup_upd_go p tgs vs t' _ d' h (nodup_funeral _ _ h0)

theorem nodup_applyA {d : Doc} (h : (ids d.table).Nodup) : ∀ (op : AOp), (ids (applyA d op).table).Nodup
  | .ins p an ts vs => by
    simp only [applyA, Doc.insertRemoteInArray]
    cases d.findArr p with
    | none => exact h
    | some x =>
      obtain ⟨pn, sl, size⟩ := x
      simp only
      cases createMany p ts vs with
      | err c => exact h
      | panic w => exact h
      | ok y =>
        obtain ⟨ns, cs, t'⟩ := y
        simp only
        cases insertAfterId (fun (s : Ts × Ts) => s.1) an (cs.map fun c => (c, c)) sl with
        | none => exact nodup_addAll _ h
        | some sl' => exact nodup_set _ (nodup_addAll _ h)
  | .del p tgs t => by
    simp only [applyA, Doc.deleteRemoteInArray]
    cases hp : d.findArr p with
    | none => exact h
    | some x =>
      obtain ⟨pn, slots, size⟩ := x
      simp only
      have h1 := nodup_del_go slots tgs t d 0 h
      generalize Doc.deleteRemoteInArray.go slots tgs t d 0 = r at h1
      obtain ⟨d1, k⟩ := r
      simp only at h1 ⊢
      cases d1.findArr p with
      | none => exact h1
      | some y =>
        obtain ⟨pn', sl', size'⟩ := y
        exact nodup_set _ h1
  | .upd p t tgs vs => by
    simp only [applyA, Doc.updateRemoteInArray]
    cases hp : d.findArr p with
    | none => exact h
    | some x =>
      simp only
      cases hg : Doc.updateRemoteInArray.go p tgs vs t d with
      | ok d' => exact nodup_upd_go p tgs vs t d d' hg h
      | err c => exact h
      | panic w => exact h

theorem nodup_applyAllA : ∀ (L : List AOp) {d : Doc}, (ids d.table).Nodup → (ids (applyAllA d L).table).Nodup
  | [], _, h => h
  | op :: L, _, h => nodup_applyAllA L (nodup_applyA h op)

/-! ### the single-target operations of a batch -/

def flatDel (p : Ts) : List Ts → Ts → List EOp
  | [], _ => []
  | tg :: tgs, t => .del1 p tg t :: flatDel p tgs t.nextDelim

/-- the `i`-th value is created at the timestamp left by the `i-1` values before it -/
def flatUpd (p : Ts) : List Ts → List JVal → Ts → List EOp
  | tg :: tgs, v :: vs, t =>
    .upd1 p tg t v :: flatUpd p tgs vs (match createNode p t v with
      | .ok (_, _, t') => t'
      | _ => t)
  | _, _, _ => []

def flat : AOp → List EOp
  | .ins p a ts vs => [.ins p a ts vs]
  | .del p tgs t => flatDel p tgs t
  | .upd p t tgs vs => flatUpd p tgs vs t

theorem mapArr_szK_add (a b : Int) (o : Option DNode) :
    mapArr (szK a) (mapArr (szK b) o) = mapArr (szK (b + a)) o := by
  cases o with
  | none => rfl
  | some n =>
    obtain ⟨nc, nd, np, nk⟩ := n
    cases nk with
    | elem v => rfl
    | obj m s => rfl
    | arr sl s =>
      simp only [mapArr, Option.map_some, szK, Option.some.injEq, DNode.mk.injEq, true_and, DKind.arr.injEq]
      omega

theorem arrV_mapArr_szK (k : Int) (o : Option DNode) : arrV (mapArr (szK k) o) = arrV o := by
  cases o with
  | none => rfl
  | some n =>
    obtain ⟨nc, nd, np, nk⟩ := n
    cases nk <;> rfl

/-- the running document of the batch loop (sizes adjusted at the end) against the running document of
    the single-target deletes (sizes adjusted at once) -/
theorem del_batch (p : Ts) (slots : List (Ts × Ts)) : ∀ (tgs : List Ts) (t : Ts) (d d' : Doc) (k : Int),
    arrV (d.find p) = some slots → d'.find = upd p (mapArr (szK k)) d.find →
    (applyAllE d' (flatDel p tgs t)).find =
      upd p (mapArr (szK (Doc.deleteRemoteInArray.go slots tgs t d k).2))
        (Doc.deleteRemoteInArray.go slots tgs t d k).1.find
  | [], _, _, _, _, _, h => h
  | tg :: tgs, t, d, d', k, hv, h => by
      have hv' : arrV (d'.find p) = some slots := by rw [h, upd_same, arrV_mapArr_szK, hv]
      obtain ⟨pn', sz', hp'⟩ := findArr_of_arrV hv'
      have hstep : (applyE d' (.del1 p tg t)).find = del1F d' p slots tg t := del1_find hp'
      have e : applyAllE d' (flatDel p (tg :: tgs) t) = applyAllE (applyE d' (.del1 p tg t)) (flatDel p tgs t.nextDelim) := rfl
      rw [e]
      have htt : ∀ c, d'.isTomb c = d.isTomb c ∧ d'.timeOf c = d.timeOf c := by
        intro c
        rw [isTomb_eq_tombO, isTomb_eq_tombO, timeOf_eq_timeO, timeOf_eq_timeO, h]
        by_cases ec : c = p
        · subst ec; rw [upd_same]; exact ⟨tombO_mapArr _ _, timeO_mapArr _ _ _⟩
        · rw [upd_other _ _ ec]; exact ⟨rfl, rfl⟩
      have hcomm : ∀ c, upd c (setD t) (upd p (mapArr (szK k)) d.find) =
          upd p (mapArr (szK k)) (upd c (setD t) d.find) := by
        intro c
        exact upd_comm (Or.inr (comm_symm (comm_mapArr_setD _ _))) _
      simp only [Doc.deleteRemoteInArray.go]
      unfold del1F at hstep
      cases hs : slots.find? (fun s => s.1 = tg) with
      | none =>
        rw [hs] at hstep
        exact del_batch p slots tgs _ d _ k hv (by rw [hstep, h])
      | some s =>
        rw [hs] at hstep
        simp only at hstep ⊢
        rw [(htt s.2).1, (htt s.2).2] at hstep
        by_cases h1 : (!d.isTomb s.2) = true
        · simp only [h1, if_true] at hstep ⊢
          apply del_batch p slots tgs _ (d.makeTomb s.2 t) _ (k + 1) (by rw [arrV_makeTomb]; exact hv)
          rw [hstep, h, hcomm, upd_upd, find_makeTomb_upd]
          apply upd_congr_at
          rw [mapArr_szK_add]
        · simp only [h1, Bool.false_eq_true, if_false] at hstep ⊢
          by_cases h2 : ((d.timeOf s.2).cmp t == Ordering.lt) = true
          · simp only [h2, if_true] at hstep ⊢
            apply del_batch p slots tgs _ (d.makeTomb s.2 t) _ k (by rw [arrV_makeTomb]; exact hv)
            rw [hstep, h, hcomm, find_makeTomb_upd]
          · simp only [h2, Bool.false_eq_true, if_false] at hstep ⊢
            exact del_batch p slots tgs _ d _ k hv (by rw [hstep, h])

/-- a multi-target delete is the sequence of its single-target deletes -/
theorem del_flat (z : Doc) (p : Ts) (tgs : List Ts) (t : Ts) :
    DocEq (applyA z (.del p tgs t)) (applyAllE z (flatDel p tgs t)) ∨
      (z.findArr p = none ∧ applyA z (.del p tgs t) = z) := by
  cases hp : z.findArr p with
  | none =>
    right
    exact ⟨rfl, by simp only [applyA, Doc.deleteRemoteInArray, hp]⟩
  | some x =>
    left
    obtain ⟨pn, slots, sz⟩ := x
    have hv : arrV (z.find p) = some slots := arrV_of_findArr hp
    have hb := del_batch p slots tgs t z z 0 hv (upd_mapArr_szK_zero p _).symm
    have hv1 := del_go_arrV slots tgs t z 0 p
    rw [hv] at hv1
    simp only [applyA, Doc.deleteRemoteInArray, hp]
    generalize Doc.deleteRemoteInArray.go slots tgs t z 0 = r at hb hv1
    obtain ⟨d1, k⟩ := r
    simp only at hb hv1 ⊢
    obtain ⟨pn1, sz1, hp1⟩ := findArr_of_arrV hv1
    simp only [hp1]
    intro c
    rw [find_setSize k hp1, hb]

theorem goodE_append {l1 : List EOp} : ∀ {z : Doc} {l2 : List EOp}, GoodE z (l1 ++ l2) →
    GoodE (applyAllE z l1) l2 := by
  induction l1 with
  | nil => intro z l2 h; exact h
  | cons x l ih => intro z l2 h; exact ih (goodE_step h)

/-- a multi-target update whose single-target updates are applicable runs to the end, and is their sequence -/
theorem upd_go_flat (p : Ts) : ∀ (tgs : List Ts) (vs : List JVal) (t : Ts) (z : Doc) (rest : List EOp),
    GoodE z (flatUpd p tgs vs t ++ rest) → tgs.length ≤ vs.length →
    Doc.updateRemoteInArray.go p tgs vs t z = .ok (applyAllE z (flatUpd p tgs vs t))
  | [], _, _, _, _, _, _ => by simp [Doc.updateRemoteInArray.go, flatUpd, applyAllE]
  | _ :: _, [], _, _, _, _, hl => by simp at hl
  | tg :: tgs, v :: vs, t, z, rest, h, hl => by
      have hl' : tgs.length ≤ vs.length := by simpa using hl
      have hok : EOK z (.upd1 p tg t v) := h.2.1 _ (by simp [flatUpd])
      obtain ⟨harr, ⟨ns, c, t', hc⟩, hf, _⟩ := hok
      have hn : nodesE (.upd1 p tg t v) = ns := by simp [nodesE, hc]
      rw [hn] at hf
      obtain ⟨pn, sl, sz, hp⟩ := isArr_iff.mp harr
      obtain ⟨hp1, hk⟩ := findArr_some_iff.mp hp
      have hp3 : (z.addAll ns).findArr p = some (pn, sl, sz) :=
        findArr_some_iff.mpr ⟨find_addAll_old hf hp1, hk⟩
      have hfl : flatUpd p (tg :: tgs) (v :: vs) t = .upd1 p tg t v :: flatUpd p tgs vs t' := by
        simp only [flatUpd, hc]
      rw [hfl] at h ⊢
      have hz1 : Doc.updateRemoteInArray.go p (tg :: tgs) (v :: vs) t z =
          Doc.updateRemoteInArray.go p tgs vs t' (applyE z (.upd1 p tg t v)) := by
        simp only [applyE, EOp.toA, applyA, Doc.updateRemoteInArray, hp, Doc.updateRemoteInArray.go, hc, hp3]
        cases sl.find? (fun s => s.1 = tg) with
        | none => rfl
        | some s =>
          simp only
          by_cases hw : (!(z.addAll ns).isTomb s.2 && ((z.addAll ns).timeOf s.2).cmp c == Ordering.lt) = true
          · simp only [hw, if_true]
          · simp only [hw, Bool.false_eq_true, if_false]
      rw [hz1]
      have ih := upd_go_flat p tgs vs t' (applyE z (.upd1 p tg t v)) rest (goodE_step h) hl'
      rw [ih]
      rfl

/-- a batch is well formed: an update carries at least as many values as targets -/
def BatchOK : AOp → Prop
  | .upd _ _ tgs vs => tgs.length ≤ vs.length
  | _ => True

instance (op : AOp) : Decidable (BatchOK op) := by
  cases op <;> unfold BatchOK <;> infer_instance

/-- a batch = the sequence of its single-target operations, up to `DocEq` -/
theorem applyA_flat {z : Doc} {op : AOp} {rest : List EOp} (h : GoodE z (flat op ++ rest)) (hb : BatchOK op) :
    DocEq (applyA z op) (applyAllE z (flat op)) := by
  cases op with
  | ins p a ts vs => exact docEq_refl _
  | del p tgs t =>
    rcases del_flat z p tgs t with h1 | ⟨h1, h2⟩
    · exact h1
    · rw [h2]
      cases tgs with
      | nil => exact docEq_refl _
      | cons tg tgs =>
        exfalso
        have hok : EOK z (.del1 p tg t) := h.2.1 _ (by simp [flat, flatDel])
        have := hok.1
        unfold IsArr at this
        rw [h1] at this
        cases this
  | upd p t tgs vs =>
    simp only [flat] at h
    have hg := upd_go_flat p tgs vs t z rest h hb
    simp only [applyA, Doc.updateRemoteInArray, flat]
    cases hp : z.findArr p with
    | none =>
      cases tgs with
      | nil => exact docEq_refl _
      | cons tg tgs =>
        exfalso
        cases vs with
        | nil => simp [BatchOK] at hb
        | cons v vs =>
          have hok : EOK z (.upd1 p tg t v) := h.2.1 _ (by simp [flatUpd])
          have := hok.1
          unfold IsArr at this
          rw [hp] at this
          cases this
    | some x =>
      simp only [hg]
      exact docEq_refl _

theorem applyAllE_append (z : Doc) (l1 l2 : List EOp) :
    applyAllE z (l1 ++ l2) = applyAllE (applyAllE z l1) l2 := by
  simp [applyAllE, List.foldl_append]

/-- a history of batches = the history of their single-target operations, up to `DocEq` -/
theorem applyAllA_flat : ∀ (L : List AOp) {z z' : Doc}, DocEq z z' → GoodE z' (L.flatMap flat) →
    (∀ op ∈ L, BatchOK op) → DocEq (applyAllA z L) (applyAllE z' (L.flatMap flat))
  | [], _, _, h, _, _ => h
  | op :: L, z, z', h, hg, hb => by
      have e1 : applyAllA z (op :: L) = applyAllA (applyA z op) L := rfl
      have e2 : (op :: L).flatMap flat = flat op ++ L.flatMap flat := by simp
      rw [e1, e2, applyAllE_append]
      rw [e2] at hg
      apply applyAllA_flat L _ (goodE_append hg) (fun o ho => hb o (by simp [ho]))
      exact docEq_trans (docEq_applyA h op) (applyA_flat hg (hb op (by simp)))

/-- **4, for multi-target operations.**  Two arrival orders of the same remote array operations
    (`Doc.insertRemoteInArray`, `Doc.deleteRemoteInArray`, `Doc.updateRemoteInArray` with any number of
    targets) whose single-target operations are applicable in the start document in any order (`GoodE`):
    `ASim`-equivalent documents and, for values without duplicate keys in a document fit for viewing,
    the same key-sorted view. -/
theorem arr_converge {d : Doc} {L L' : List AOp} (hp : L.Perm L') (h : GoodE d (L.flatMap flat))
    (hb : ∀ op ∈ L, BatchOK op) :
    ASim (applyAllA d L) (applyAllA d L') ∧
      (ViewOK d → (∀ e ∈ L.flatMap flat, EKeysND e) →
        (applyAllA d L).view.canon = (applyAllA d L').view.canon) := by
  have hpf : (L.flatMap flat).Perm (L'.flatMap flat) := hp.flatMap_right flat
  have h' : GoodE d (L'.flatMap flat) := goodE_perm hpf h
  have hb' : ∀ op ∈ L', BatchOK op := fun op ho => hb op (hp.mem_iff.mpr ho)
  have e1 := applyAllA_flat L (docEq_refl d) h hb
  have e2 := applyAllA_flat L' (docEq_refl d) h' hb'
  constructor
  · exact asim_trans (asim_of_docEq e1)
      (asim_trans (arr_converge_asim_same hpf h) (asim_symm (asim_of_docEq e2)))
  · intro hv hk
    have n1 := nodup_applyAllA L h.1.nodup
    have n2 := nodup_applyAllA L' h.1.nodup
    rw [docEq_view e1 n1 (goodE_applyAll h).nodup, docEq_view e2 n2 (goodE_applyAll h').nodup]
    exact arr_converge_view hpf h hv hk

/-- **3, for multi-target operations**: two batches commute up to `ASim` (and show the same key-sorted view) -/
theorem comm_batch {d : Doc} {a b : AOp} (h : GoodE d (flat a ++ flat b)) (ha : BatchOK a) (hb : BatchOK b) :
    ASim (applyA (applyA d a) b) (applyA (applyA d b) a) := by
  have := (arr_converge (d := d) (L := [a, b]) (L' := [b, a]) (List.Perm.swap _ _ _) (by simpa using h)
    (by intro op ho; simp only [List.mem_cons, List.mem_nil_iff, or_false] at ho; rcases ho with rfl | rfl <;> assumption)).1
  exact this

/-! ### decidable sufficient conditions (for concrete instances) -/

def eokB (d : Doc) (e : EOp) : Bool :=
  match e with
  | .ins p a ts vs =>
    (d.findArr p).isSome && (match createMany p ts vs with | .ok _ => true | _ => false) &&
      (ids (nodesE e)).all (fun c => (d.find c).isNone) && (newSlots e).all (fun c => !memB c (slotIds d p)) &&
      (decide (a = Ts.oldest) || memB a (slotIds d p))
  | .del1 p tg _ => (d.findArr p).isSome && memB tg (slotIds d p)
  | .upd1 p tg t v =>
    (d.findArr p).isSome && (match createNode p t v with | .ok _ => true | _ => false) &&
      (ids (nodesE e)).all (fun c => (d.find c).isNone) && memB tg (slotIds d p)

theorem eok_of_B {d : Doc} {e : EOp} (h : eokB d e = true) : EOK d e := by
  cases e with
  | ins p a ts vs =>
    simp only [eokB, Bool.and_eq_true, Bool.or_eq_true, decide_eq_true_eq] at h
    obtain ⟨⟨⟨⟨h1, h2⟩, h3⟩, h4⟩, h5⟩ := h
    refine ⟨h1, ?_, DC.Ex.fresh_of_all h3, ?_, ?_⟩
    · cases hc : createMany p ts vs with
      | ok y => obtain ⟨ns, cs, t'⟩ := y; exact ⟨ns, cs, t', rfl⟩
      | err c => rw [hc] at h2; cases h2
      | panic w => rw [hc] at h2; cases h2
    · intro c hc hm
      have := List.all_eq_true.mp h4 c hc
      rw [memB_iff.mpr hm] at this
      cases this
    · rcases h5 with h5 | h5
      · exact Or.inl h5
      · exact Or.inr (memB_iff.mp h5)
  | del1 p tg t =>
    simp only [eokB, Bool.and_eq_true] at h
    exact ⟨h.1, memB_iff.mp h.2⟩
  | upd1 p tg t v =>
    simp only [eokB, Bool.and_eq_true] at h
    obtain ⟨⟨⟨h1, h2⟩, h3⟩, h4⟩ := h
    refine ⟨h1, ?_, DC.Ex.fresh_of_all h3, memB_iff.mp h4⟩
    cases hc : createNode p t v with
    | ok y => obtain ⟨ns, c, t'⟩ := y; exact ⟨ns, c, t', rfl⟩
    | err c => rw [hc] at h2; cases h2
    | panic w => rw [hc] at h2; cases h2

def compatB (a b : EOp) : Bool :=
  (ids (nodesE a)).all (fun c => !memB c (ids (nodesE b))) &&
    decide (a.p = b.p → a.tgt = b.tgt → a.tgt ≠ none → a.ts.cmp b.ts ≠ .eq)

theorem compat_of_B {a b : EOp} (h : compatB a b = true) : Compat a b := by
  simp only [compatB, Bool.and_eq_true, decide_eq_true_eq] at h
  exact ⟨disj_of_all h.1, h.2⟩

theorem pairwise_compat_of_B {l : List EOp} (h : l.Pairwise (fun a b => compatB a b = true)) :
    l.Pairwise Compat := h.imp compat_of_B

namespace Ex

/-! #### multi-target operations: a nested batch insert, a concurrent insert at the same place, a
    two-target update (the second value created at `tD+1`) and a two-target delete of the same slots -/
def L : List AOp :=
  [.ins arr s0 tB [.arr [.num 1, .num 2], .str "z"], .ins arr s0 tC [.num 99],
   .upd arr tD [s1, s2] [.num 10, .arr []], .del arr [s1, s2] tE]
def L' : List AOp := L.reverse

example : L.flatMap flat = [i1, i2, .upd1 arr s1 tD (.num 10), .upd1 arr s2 ⟨0, 4, "d", 1⟩ (.arr []),
    .del1 arr s1 tE, .del1 arr s2 ⟨0, 5, "e", 1⟩] := rfl

theorem goodL : GoodE base (L.flatMap flat) := by
  refine ⟨base_wf, ?_, pairwise_compat_of_B (by decide), ?_⟩
  · intro e he
    apply eok_of_B
    revert e
    decide
  · intro p ⟨e, he, hi⟩
    have hp : p = arr := by
      have : ∀ e ∈ L.flatMap flat, (insOnE p e).isSome → p = arr := by
        intro e he
        have hl : L.flatMap flat = [i1, i2, .upd1 arr s1 tD (.num 10), .upd1 arr s2 ⟨0, 4, "d", 1⟩ (.arr []),
          .del1 arr s1 tE, .del1 arr s2 ⟨0, 5, "e", 1⟩] := rfl
        rw [hl] at he
        simp only [List.mem_cons, List.mem_nil_iff, or_false] at he
        rcases he with rfl | rfl | rfl | rfl | rfl | rfl
        · simp only [i1, insOnE]
          by_cases e' : arr = p
          · intro _; exact e'.symm
          · simp [e']
        · simp only [i2, insOnE]
          by_cases e' : arr = p
          · intro _; exact e'.symm
          · simp [e']
        all_goals simp [insOnE]
      exact this e he hi
    subst hp
    refine ⟨[m0], by decide, ?_⟩
    intro l' hl'
    have : (L.flatMap flat).filterMap (insOnE arr) = [o1, o2] := by decide
    rw [this] at hl'
    rcases perm_pair hl' with rfl | rfl
    · exact causal12
    · exact causal21

example : ASim (applyAllA base L) (applyAllA base L') :=
  (arr_converge (List.reverse_perm L).symm goodL (by decide)).1

example : (applyAllA base L).view.canon = (applyAllA base L').view.canon :=
  (arr_converge (List.reverse_perm L).symm goodL (by decide)).2 base_viewOK (by
    intro e he
    have hl : L.flatMap flat = [i1, i2, .upd1 arr s1 tD (.num 10), .upd1 arr s2 ⟨0, 4, "d", 1⟩ (.arr []),
      .del1 arr s1 tE, .del1 arr s2 ⟨0, 5, "e", 1⟩] := rfl
    rw [hl] at he
    simp only [List.mem_cons, List.mem_nil_iff, or_false] at he
    rcases he with rfl | rfl | rfl | rfl | rfl | rfl <;> simp [EKeysND, i1, i2, JKeysND, JKeysNDList])

example : ((applyAllA base L).view == .obj [("a", .arr [.num 1, .num 99, .arr [.num 1, .num 2], .str "z"])]) = true ∧
    ((applyAllA base L').view == (applyAllA base L).view) = true := by decide

end Ex

end DA
end Orda
