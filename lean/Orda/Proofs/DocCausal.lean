/-
Document convergence for CAUSAL histories: an operation may address a node (parent object / array, anchor slot, target
slot, key) that ANOTHER operation of the same history creates.  Everything lives in namespace `Orda.DCausal`.

`Valid d L`: every operation of `L` is applicable (`DM.GoodD _ [x]`) at the moment it is applied.  `Valid d L ∧ Valid d L'`
with `L.Perm L'` = two causal delivery orders of one history.  `Distinct L`: the operations are pairwise different
operations of ONE history (`DCompat`: distinguishable timestamps, disjoint new identifiers — the clauses of `Good`, `GoodE`,
`GoodD` for every pair of their elementary operations).

RESULT.  **`causal_converge_partial`**: the statement asked for (`ASim` of the two results and equal key-sorted views) under
ONE extra hypothesis, GLOBAL FRESHNESS `FreshIn d L`: no operation of the history creates a node whose identifier is in the
table of the start document `d`.  The statement without it (`causal_converge` of the task) is NOT proved here; no
counterexample to it is known (an exhaustive search over the valid permutations of two pools of eight operations with
re-created identifiers found none), but the adjacent-exchange argument is FALSE without it: see `Anti` (§11) — a history
with an operation that re-creates an identifier of an element of `d`; both orders valid and convergent, yet moving the first
operation of one order to the front of the other gives an INVALID list (`Anti.not_valid`).  `Valid` itself did not need
strengthening; `Distinct` does not mention `d`, so the clause could not go there.

Contents
* 0. `Valid`, `DCompat`, `Distinct`, `newIds`, `FreshIn`.
* 1./2. applicability only looks at the abstraction: `opOK_asim`, `eok_asim`, `goodD_asim` (`GoodD` along `ASim`, given
  freshness of the new identifiers — `Doc.find c = none` is NOT determined by the abstraction: tombstoned elements);
  `asim_applyD` (an applicable operation respects `ASim`).
* 3. `goodD_step` (`GoodD s (y :: l) → GoodD (applyD s y) l`), `wf_applyD`, `valid_wf`.
* 4. `find_none_applyD`, `freshIn_step`: an operation only adds its own identifiers to the table.
* 5. one more insert after a causal insert history: `acausal_snoc`, `acausal_last`, `cs_mem_foldIds`,
  `acausal_transfer` (another history with the same order), `acausal_merge`.
* 6. `goodD_pair`: two operations applicable in the SAME document that are different operations of one history are
  applicable there in any order (`ordOK_ins_ins` for two inserts into one array).
* 7. MONOTONICITY `goodD_mono`; `comm_asim_D`; `valid_transfer`; `bubble`; `causal_asim`.
* 8. views: `viewOK_applyD`, `viewOK_valid`; **`causal_converge_partial`**.
* 9. Boolean checks for concrete instances.  10. `Ex`: non-vacuity (a put of `{"a": []}`, an insert into the new array,
  a put into the new object, an independent put; two valid orders; `GoodD` fails).  11. `Anti`.
* 12. `freshIn_of_keys`: `FreshIn` from unique operation identifiers (no node of `d` carries the era / lamport / client of
  an operation of the history).
-/
import Orda.Proofs.DocMixed
import Orda.Proofs.DocRemoteInv
import Mathlib.Data.List.Induction
set_option linter.unusedSimpArgs false
set_option linter.unusedVariables false
namespace Orda.DCausal
open Orda Orda.DC Orda.DA Orda.DM

/-! ## 0. definitions -/

/-- every operation is applicable at the moment it is applied (parent / anchor / targets / key present, identifiers fresh) -/
def Valid (d : Doc) : List DOp → Prop
  | [] => True
  | x :: l => GoodD d [x] ∧ Valid (applyD d x) l

/-- two DIFFERENT operations of one history: distinguishable timestamps (`Ts.cmp ≠ .eq`, the clause of `Good` /
    `GoodD`) and disjoint new identifiers (`Cross` of `GoodD`, `Compat` of `GoodE`), for each pair of their
    elementary operations -/
def DCompat : DOp → DOp → Prop
  | .o a, .o b => a.ts.cmp b.ts ≠ .eq
  | .o a, .a b => ∀ e ∈ flat b, (∀ c, c ∈ oIds a → c ∈ eIds e → False) ∧ a.ts.cmp e.ts ≠ .eq
  | .a a, .o b => ∀ e ∈ flat a, (∀ c, c ∈ oIds b → c ∈ eIds e → False) ∧ b.ts.cmp e.ts ≠ .eq
  | .a a, .a b => ∀ e ∈ flat a, ∀ e' ∈ flat b, Compat e e' ∧ e.ts.cmp e'.ts ≠ .eq

/-- the operations of a history are pairwise compatible as operations of ONE history: distinguishable timestamps and disjoint new
    identifiers (what unique operation identifiers give) -/
def Distinct (l : List DOp) : Prop := l.Pairwise DCompat

/-- the identifiers of the nodes an operation creates -/
def newIds : DOp → List Ts
  | .o x => oIds x
  | .a x => (flat x).flatMap eIds

/-- GLOBAL FRESHNESS (the extra hypothesis of `causal_converge_partial`): no operation of the history creates a node
    whose identifier is in the table of the start document -/
def FreshIn (d : Doc) (l : List DOp) : Prop := ∀ x ∈ l, ∀ c ∈ newIds x, d.find c = none

theorem dcompat_symm {x y : DOp} (h : DCompat x y) : DCompat y x := by
  cases x with
  | o a =>
    cases y with
    | o b => exact fun e => h (cmp_eq_symm _ _ e)
    | a b => exact h
  | a a =>
    cases y with
    | o b => exact h
    | a b =>
      intro e he e' he'
      obtain ⟨h1, h2⟩ := h e' he' e he
      exact ⟨h1.symm, fun e0 => h2 (cmp_eq_symm _ _ e0)⟩

theorem distinct_perm {l l' : List DOp} (hp : l.Perm l') (h : Distinct l) : Distinct l' :=
  (List.Perm.pairwise_iff (fun hab => dcompat_symm hab) hp).mp h

theorem freshIn_perm {d : Doc} {l l' : List DOp} (hp : l.Perm l') (h : FreshIn d l) : FreshIn d l' :=
  fun x hx => h x (hp.mem_iff.mpr hx)

theorem valid_append {l1 : List DOp} : ∀ {d : Doc} {l2 : List DOp},
    Valid d (l1 ++ l2) ↔ Valid d l1 ∧ Valid (applyAllD d l1) l2 := by
  induction l1 with
  | nil => intro d l2; simp [Valid, applyAllD]
  | cons x l ih =>
    intro d l2
    simp only [List.cons_append, Valid, applyAllD, List.foldl_cons]
    rw [ih]
    simp only [applyAllD, and_assoc]

theorem applyAllD_append (d : Doc) (l1 l2 : List DOp) :
    applyAllD d (l1 ++ l2) = applyAllD (applyAllD d l1) l2 := by
  simp [applyAllD, List.foldl_append]

theorem applyAllD_cons (d : Doc) (x : DOp) (l : List DOp) : applyAllD d (x :: l) = applyAllD (applyD d x) l := rfl

/-! ## 1. applicability only looks at the abstraction (plus freshness of the new identifiers) -/

/-- the slot order identifiers recorded in a shape -/
def sIds : Option (Option Ts × Shape) → Option (List Ts)
  | some (_, .arr E) => some (E.map (·.1))
  | _ => none

theorem sIds_cshape (s : Option (Option Ts × Shape)) : sIds (cshape s) = sIds s := by
  cases s with
  | none => rfl
  | some x =>
    obtain ⟨par, sh⟩ := x
    cases sh with
    | elem v => rfl
    | obj => rfl
    | arr E =>
      simp only [cshape, sIds, List.map_map]
      congr 1

theorem idsOf_eq_sIds (d : Doc) (p : Ts) : idsOf d p = sIds (shapeOf d p) := by
  unfold idsOf arrV shapeOf
  cases d.find p with
  | none => rfl
  | some n =>
    obtain ⟨nc, nd, np, nk⟩ := n
    cases nk with
    | elem v => simp only; split <;> rfl
    | obj m s => rfl
    | arr sl s => simp [sIds, List.map_map]

theorem idsOf_asim {a b : Doc} (h : ASim a b) (p : Ts) : idsOf a p = idsOf b p := by
  have e : cshape (shapeOf a p) = cshape (shapeOf b p) := h.shape p
  rw [idsOf_eq_sIds, idsOf_eq_sIds, ← sIds_cshape, e, sIds_cshape]

theorem slotIds_asim {a b : Doc} (h : ASim a b) (p : Ts) : slotIds a p = slotIds b p := by
  rw [slotIds_eq_idsOf, slotIds_eq_idsOf, idsOf_asim h]

theorem isArr_asim {a b : Doc} (h : ASim a b) {p : Ts} (ha : IsArr a p) : IsArr b p := by
  unfold IsArr at *
  rw [findArr_isSome_iff] at *
  rw [← idsOf_asim h]; exact ha

theorem isObj_asim {a b : Doc} (h : ASim a b) {p : Ts} (ha : IsObj a p) : IsObj b p := by
  rw [isObj_iff] at *
  obtain ⟨par, hp⟩ := ha
  refine ⟨par, ?_⟩
  have e := h.shape p
  have e' : cshape (shapeOf a p) = cshape (shapeOf b p) := e
  rw [hp] at e'
  have := cshape_not_arr e' (by intro par' E hh; cases hh)
  exact this

theorem hasKey_asim {a b : Doc} (h : ASim a b) {p : Ts} {k : String} (ha : HasKey a p k) : HasKey b p k := by
  rw [hasKey_iff] at *
  have e : keyOf' a p k = keyOf' b p k := h.key p k
  rw [← e]; exact ha

theorem opOK_asim {a b : Doc} (h : ASim a b) {o : ObjOp} (ha : OpOK a o) (hf : ∀ c ∈ oIds o, b.find c = none) :
    OpOK b o := by
  cases o with
  | put p k v ts => exact ⟨isObj_asim h ha.1, ha.2.1, hf⟩
  | del p k ts => exact hasKey_asim h ha

theorem eok_asim {a b : Doc} (h : ASim a b) {e : EOp} (ha : EOK a e) (hf : ∀ c ∈ eIds e, b.find c = none) :
    EOK b e := by
  cases e with
  | ins p an ts vs =>
    obtain ⟨h1, h2, h3, h4, h5⟩ := ha
    refine ⟨isArr_asim h h1, h2, hf, ?_, ?_⟩
    · rw [← slotIds_asim h]; exact h4
    · rw [← slotIds_asim h]; exact h5
  | del1 p tg t =>
    exact ⟨isArr_asim h ha.1, by rw [← slotIds_asim h]; exact ha.2⟩
  | upd1 p tg t v =>
    obtain ⟨h1, h2, h3, h4⟩ := ha
    exact ⟨isArr_asim h h1, h2, hf, by rw [← slotIds_asim h]; exact h4⟩

/-! ## 2. `GoodD` is carried along `ASim` (to a well-formed document in which the new identifiers are fresh) -/

theorem mem_objs {o : ObjOp} {l : List DOp} : o ∈ objs l ↔ DOp.o o ∈ l := by
  induction l with
  | nil => simp [objs]
  | cons x l ih =>
    cases x with
    | o y => rw [objs_cons_o]; simp only [List.mem_cons, ih, DOp.o.injEq]
    | a y => rw [objs_cons_a, ih]; simp

theorem mem_arrs {o : AOp} {l : List DOp} : o ∈ arrs l ↔ DOp.a o ∈ l := by
  induction l with
  | nil => simp [arrs]
  | cons x l ih =>
    cases x with
    | o y => rw [arrs_cons_o, ih]; simp
    | a y => rw [arrs_cons_a]; simp only [List.mem_cons, ih, DOp.a.injEq]

theorem good_asim {a b : Doc} (h : ASim a b) (hb : b.WF) {l : List ObjOp} (hg : DC.Good a l)
    (hf : ∀ o ∈ l, ∀ c ∈ oIds o, b.find c = none) : DC.Good b l :=
  ⟨hb, fun o ho => opOK_asim h (hg.2.1 o ho) (hf o ho), hg.2.2⟩

theorem goodE_asim {a b : Doc} (h : ASim a b) (hb : b.WF) {l : List EOp} (hg : GoodE a l)
    (hf : ∀ e ∈ l, ∀ c ∈ eIds e, b.find c = none) : GoodE b l := by
  obtain ⟨_, h2, h3, h4⟩ := hg
  refine ⟨hb, fun e he => eok_asim h (h2 e he) (hf e he), h3, ?_⟩
  intro p hp
  obtain ⟨M0, h5, h6⟩ := h4 p hp
  exact ⟨M0, by rw [← slotIds_asim h]; exact h5, h6⟩

theorem goodD_asim {a b : Doc} (h : ASim a b) (hb : b.WF) {l : List DOp} (hg : GoodD a l) (hf : FreshIn b l) :
    GoodD b l := by
  obtain ⟨h1, h2, h3, h4⟩ := hg
  refine ⟨good_asim h hb h1 ?_, goodE_asim h hb h2 ?_, h3, h4⟩
  · intro o ho c hc
    exact hf _ (mem_objs.mp ho) c hc
  · intro e he c hc
    obtain ⟨x, hx, hex⟩ := List.mem_flatMap.mp he
    exact hf _ (mem_arrs.mp hx) c (List.mem_flatMap.mpr ⟨e, hex, hc⟩)

/-- what `GoodD` says about freshness -/
theorem goodD_fresh {s : Doc} {l : List DOp} (hg : GoodD s l) : FreshIn s l := by
  intro x hx c hc
  cases x with
  | o o => exact fresh_of_ok (hg.1.2.1 o (mem_objs.mpr hx)) c hc
  | a a =>
    obtain ⟨e, he, hce⟩ := List.mem_flatMap.mp hc
    have : e ∈ (arrs l).flatMap flat := List.mem_flatMap.mpr ⟨a, mem_arrs.mpr hx, he⟩
    exact (hg.2.1.2.1 e this).fresh c hce

theorem goodD_wf {s : Doc} {l : List DOp} (hg : GoodD s l) : s.WF := hg.1.1

/-- an applicable operation respects `ASim` -/
theorem asim_applyD {a b : Doc} {x : DOp} (ha : GoodD a [x]) (hb : GoodD b [x]) (h : ASim a b) :
    ASim (applyD a x) (applyD b x) := by
  cases x with
  | o o =>
    obtain ⟨wa, oa⟩ := DR.goodD_obj ha
    obtain ⟨wb, ob⟩ := DR.goodD_obj hb
    exact asim_congr_op wa wb oa ob h
  | a x =>
    obtain ⟨ga, bo⟩ := DR.goodD_arr ha
    obtain ⟨gb, _⟩ := DR.goodD_arr hb
    have e1 : DocEq (applyA a x) (applyAllE a (flat x)) := applyA_flat (rest := []) (by simpa using ga) bo
    have e2 : DocEq (applyA b x) (applyAllE b (flat x)) := applyA_flat (rest := []) (by simpa using gb) bo
    exact asim_trans (asim_of_docEq e1)
      (asim_trans (arr_converge_asim (List.Perm.refl _) ga gb h) (asim_symm (asim_of_docEq e2)))

/-! ## 3. one step of a ready history -/

theorem goodD_of_goodX {s : Doc} {l : List DOp} (g : GoodX s (l.flatMap flatX)) (hb : ∀ op ∈ arrs l, BatchOK op)
    (hc : ∀ x ∈ objs l, ∀ e ∈ (arrs l).flatMap flat, x.ts.cmp e.ts ≠ .eq) : GoodD s l := by
  obtain ⟨g1, g2, g3⟩ := g
  rw [xo_flat] at g1 g3
  rw [xe_flat] at g2 g3
  exact ⟨g1, g2, hb, fun x hx e he => ⟨g3 x hx e he, hc x hx e he⟩⟩

/-- after the first operation of a ready history the document is ready for the others -/
theorem goodD_step {s : Doc} {y : DOp} {l : List DOp} (h : GoodD s (y :: l)) : GoodD (applyD s y) l := by
  have g := goodX_of_goodD h
  have e2 : (y :: l).flatMap flatX = flatX y ++ l.flatMap flatX := by simp
  rw [e2] at g
  have g' : GoodX (applyAllX s (flatX y)) (l.flatMap flatX) := goodX_append g
  have hde : DocEq (applyD s y) (applyAllX s (flatX y)) := by
    apply applyD_flat g
    intro x hx
    subst hx
    exact h.2.2.1 x (by rw [arrs_cons_a]; exact List.mem_cons_self)
  have hD' : GoodD (applyAllX s (flatX y)) l := by
    apply goodD_of_goodX g'
    · intro op ho; exact h.2.2.1 op (mem_arrs_cons ho)
    · intro x hx e he
      refine (h.2.2.2 x ?_ e ?_).2
      · cases y with
        | o z => rw [objs_cons_o]; exact List.mem_cons_of_mem _ hx
        | a z => exact hx
      · cases y with
        | o z => exact he
        | a z => rw [arrs_cons_a, List.flatMap_cons]; exact List.mem_append_right _ he
  have hnd : (ids (applyD s y).table).Nodup := nodup_applyD h.1.1.nodup y
  have hwf : (applyD s y).WF := DR.wf_docEq (docEq_symm hde) hnd (goodX_wf g')
  apply goodD_asim (asim_symm (asim_of_docEq hde)) hwf hD'
  intro x hx c hc
  rw [hde c]
  exact goodD_fresh hD' x hx c hc

theorem goodD_nil_of_wf {s : Doc} (h : s.WF) : GoodD s [] :=
  ⟨⟨h, by simp [objs], by simp [objs]⟩, DR.goodE_nil h, by simp [arrs], by simp [objs]⟩

theorem wf_applyD {s : Doc} {y : DOp} (h : GoodD s [y]) : (applyD s y).WF := goodD_wf (goodD_step h)

theorem valid_wf : ∀ (l : List DOp) {s : Doc}, s.WF → Valid s l → (applyAllD s l).WF
  | [], _, h, _ => h
  | x :: l, _, _, hv => valid_wf l (wf_applyD hv.1) hv.2

/-! ## 4. freshness of identifiers that the applied operation does not create -/

theorem find_none_applyOp {d : Doc} (hwf : d.WF) {o : ObjOp} (ho : OpOK d o) {c : Ts} (hc : d.find c = none)
    (hn : c ∉ oIds o) : (applyOp d o).find c = none := by
  cases hf : (applyOp d o).find c with
  | none => rfl
  | some n =>
    exfalso
    rcases find_after_op hwf o ho c n hf with ⟨n0, h0⟩ | h0
    · rw [hc] at h0; cases h0
    · exact hn h0

theorem find_none_applyE {d : Doc} (hwf : d.WF) {e : EOp} (he : EOK d e) {c : Ts} (hc : d.find c = none)
    (hn : c ∉ eIds e) : (applyE d e).find c = none := by
  have hf : Fresh d [⟨c, none, none, .elem .null⟩] := by
    intro c' hc'
    simp only [ids, List.map_cons, List.map_nil, List.mem_cons, List.mem_nil_iff, or_false] at hc'
    rw [hc']; exact hc
  have := fresh_applyE hwf he hf (by
    intro c' h1 h2
    simp only [ids, List.map_cons, List.map_nil, List.mem_cons, List.mem_nil_iff, or_false] at h2
    subst h2
    exact hn h1)
  exact this c (by simp [ids])

theorem find_none_applyAllE : ∀ (l : List EOp) {d : Doc}, GoodE d l → ∀ {c : Ts}, d.find c = none →
    (∀ e ∈ l, c ∉ eIds e) → (applyAllE d l).find c = none
  | [], _, _, _, hc, _ => hc
  | e :: l, d, hg, c, hc, hn =>
    find_none_applyAllE l (goodE_step hg) (find_none_applyE hg.1 (hg.2.1 e (by simp)) hc (hn e (by simp)))
      (fun e' he' => hn e' (List.mem_cons_of_mem _ he'))

theorem find_none_applyD {s : Doc} {y : DOp} (h : GoodD s [y]) {c : Ts} (hc : s.find c = none)
    (hn : c ∉ newIds y) : (applyD s y).find c = none := by
  cases y with
  | o o =>
    obtain ⟨wa, oa⟩ := DR.goodD_obj h
    exact find_none_applyOp wa oa hc hn
  | a x =>
    obtain ⟨ga, bo⟩ := DR.goodD_arr h
    have e1 : DocEq (applyA s x) (applyAllE s (flat x)) := applyA_flat (rest := []) (by simpa using ga) bo
    show (applyA s x).find c = none
    rw [e1 c]
    apply find_none_applyAllE _ ga hc
    intro e he hce
    exact hn (List.mem_flatMap.mpr ⟨e, he, hce⟩)

/-- different operations of one history create different identifiers -/
theorem dcompat_away {y x : DOp} (h : DCompat y x) {c : Ts} (hc : c ∈ newIds x) : c ∉ newIds y := by
  intro hy
  cases y with
  | o a =>
    cases x with
    | o b => exact nodesOf_disjoint h hy hc
    | a b =>
      obtain ⟨e, he, hce⟩ := List.mem_flatMap.mp hc
      exact (h e he).1 c hy hce
  | a a =>
    obtain ⟨e, he, hce⟩ := List.mem_flatMap.mp hy
    cases x with
    | o b => exact (h e he).1 c hc hce
    | a b =>
      obtain ⟨e', he', hce'⟩ := List.mem_flatMap.mp hc
      exact (h e he e' he').1.1 c hce hce'

theorem freshIn_step {s : Doc} {y : DOp} {l : List DOp} (hf : FreshIn s l) (hy : GoodD s [y])
    (hc : ∀ x ∈ l, DCompat y x) : FreshIn (applyD s y) l :=
  fun x hx c hcx => find_none_applyD hy (hf x hx c hcx) (dcompat_away (hc x hx) hcx)


/-! ## 5. causal insert histories of one array: one more insert -/

theorem ts0_eq_of_key {a b : AIns} (h : a.ts0.key = b.ts0.key) : a.ts0 = b.ts0 := by
  unfold AIns.ts0 Ts.key at *
  simp only [Prod.mk.injEq] at h
  obtain ⟨h1, h2, h3⟩ := h
  simp only [Ts.mk.injEq]
  exact ⟨h1, h2, h3, trivial⟩

theorem foldIds_snoc (l : List Ts) (M : List AIns) (o : AIns) :
    foldIds l (M ++ [o]) = stepIds (foldIds l M) o.anchor o.cs := by
  rw [foldIds_append]; rfl

theorem foldIds_known (M : List AIns) : ∀ (N : List AIns) (l : List Ts), (∀ o ∈ N, o ∈ M) → (∀ x ∈ l, Known M x) →
    ∀ x ∈ foldIds l N, Known M x
  | [], l, _, hl => hl
  | o :: N, l, hN, hl => by
      have : foldIds l (o :: N) = foldIds (stepIds l o.anchor o.cs) N := rfl
      rw [this]
      exact foldIds_known M N _ (fun o' ho' => hN o' (List.mem_cons_of_mem _ ho'))
        (stepIds_known (hN o (by simp)) hl)

/-- Lemma B -/
theorem mem_foldIds_known {M : List AIns} {x : Ts} (h : x ∈ foldIds [] M) : Known M x :=
  foldIds_known M M [] (fun _ h => h) (by simp) x h

theorem acausal_last {M : List AIns} {o : AIns} (h : ACausal (M ++ [o])) :
    (∀ m ∈ M, m.ts0.key ≠ o.ts0.key) ∧
      (o.anchor = Ts.oldest ∨ ∃ m ∈ M, o.anchor ∈ m.cs ∧ m.ts0.cmp o.ts0 = .lt) := by
  constructor
  · intro m hm
    have := (List.pairwise_append.mp h.distinct).2.2 m hm o (by simp)
    exact this
  · have := h.anchored M.length (by simp)
    simp only [List.getElem_append_right (Nat.le_refl _), Nat.sub_self, List.getElem_cons_zero] at this
    rcases this with h1 | ⟨j, hj, h2, h3⟩
    · exact Or.inl h1
    · right
      rw [List.getElem_append_left hj] at h2 h3
      exact ⟨M[j], List.getElem_mem _, h2, h3⟩

theorem acausal_snoc {M : List AIns} {o : AIns} (hM : ACausal M) (ne : o.cs ≠ [])
    (sk : ∀ x ∈ o.cs, x.key = o.ts0.key) (nd : o.cs.Nodup) (nh : o.ts0.key ≠ Ts.oldest.key)
    (hd : ∀ m ∈ M, m.ts0.key ≠ o.ts0.key)
    (ha : o.anchor = Ts.oldest ∨ ∃ m ∈ M, o.anchor ∈ m.cs ∧ m.ts0.cmp o.ts0 = .lt) : ACausal (M ++ [o]) where
  nonempty := by
    intro m hm
    rcases List.mem_append.mp hm with h | h
    · exact hM.nonempty m h
    · simp at h; subst h; exact ne
  samekey := by
    intro m hm
    rcases List.mem_append.mp hm with h | h
    · exact hM.samekey m h
    · simp at h; subst h; exact sk
  nodup := by
    intro m hm
    rcases List.mem_append.mp hm with h | h
    · exact hM.nodup m h
    · simp at h; subst h; exact nd
  notHead := by
    intro m hm
    rcases List.mem_append.mp hm with h | h
    · exact hM.notHead m h
    · simp at h; subst h; exact nh
  distinct := by
    rw [List.pairwise_append]
    refine ⟨hM.distinct, by simp, ?_⟩
    intro m hm o' ho'
    simp at ho'; subst ho'
    exact hd m hm
  anchored := by
    intro i hi
    by_cases hlt : i < M.length
    · rcases hM.anchored i hlt with h1 | ⟨j, hj, h2, h3⟩
      · left; rw [List.getElem_append_left hlt]; exact h1
      · right
        refine ⟨j, hj, ?_, ?_⟩
        · rw [List.getElem_append_left hlt, List.getElem_append_left (by omega)]; exact h2
        · rw [List.getElem_append_left hlt, List.getElem_append_left (by omega)]; exact h3
    · have hi' : i = M.length := by simp at hi; omega
      subst hi'
      simp only [List.getElem_append_right (Nat.le_refl _), Nat.sub_self, List.getElem_cons_zero]
      rcases ha with h1 | ⟨m, hm, h2, h3⟩
      · exact Or.inl h1
      · right
        obtain ⟨j, hj, rfl⟩ := List.getElem_of_mem hm
        refine ⟨j, hj, ?_, ?_⟩
        · rw [List.getElem_append_left hj]; exact h2
        · rw [List.getElem_append_left hj]; exact h3

/-- Lemma A -/
theorem cs_mem_foldIds : ∀ (M : List AIns), ACausal M → ∀ m ∈ M, ∀ c ∈ m.cs, c ∈ foldIds [] M := by
  intro M
  induction M using List.reverseRecOn with
  | nil => intro _ m hm; cases hm
  | append_singleton M o ih =>
    intro h m hm c hc
    have hp := h.prefix
    rw [foldIds_snoc]
    have hanch : o.anchor = Ts.oldest ∨ o.anchor ∈ foldIds [] M := by
      rcases (acausal_last h).2 with h1 | ⟨m', hm', h2, _⟩
      · exact Or.inl h1
      · exact Or.inr (ih hp m' hm' _ h2)
    have hs := insertAfterId_isSome id o.anchor o.cs (foldIds [] M) (by simpa using hanch)
    unfold stepIds
    cases hi : insertAfterId id o.anchor o.cs (foldIds [] M) with
    | none => rw [hi] at hs; cases hs
    | some l' =>
      simp only [Option.getD_some]
      have hperm := insertAfterId_perm id o.anchor o.cs (foldIds [] M) l' hi
      apply hperm.symm.subset
      rcases List.mem_append.mp hm with h1 | h1
      · exact List.mem_append_right _ (ih hp m h1 c hc)
      · simp at h1; subst h1; exact List.mem_append_left _ hc

theorem acausal_transfer {M M' : List AIns} {o : AIns} (hM' : ACausal M') (hf : foldIds [] M = foldIds [] M')
    (h : ACausal (M ++ [o])) : ACausal (M' ++ [o]) := by
  have hM := h.prefix
  obtain ⟨hd, ha⟩ := acausal_last h
  have ho : o ∈ M ++ [o] := by simp
  apply acausal_snoc hM' (h.nonempty o ho) (h.samekey o ho) (h.nodup o ho) (h.notHead o ho)
  · intro m' hm' hk
    obtain ⟨c, hc⟩ := List.exists_mem_of_ne_nil _ (hM'.nonempty m' hm')
    have h1 : c ∈ foldIds [] M := by rw [hf]; exact cs_mem_foldIds M' hM' m' hm' c hc
    have hck : c.key = m'.ts0.key := hM'.samekey m' hm' c hc
    rcases mem_foldIds_known h1 with h2 | ⟨m, hm, h2⟩
    · exact hM'.notHead m' hm' (by rw [← hck, h2])
    · have : m.ts0.key = m'.ts0.key := by rw [← hM.samekey m hm c h2, hck]
      exact hd m hm (by rw [this, hk])
  · rcases ha with h1 | ⟨m, hm, h2, h3⟩
    · exact Or.inl h1
    · have h4 : o.anchor ∈ foldIds [] M' := by rw [← hf]; exact cs_mem_foldIds M hM m hm _ h2
      rcases mem_foldIds_known h4 with h5 | ⟨m', hm', h5⟩
      · exact Or.inl h5
      · right
        refine ⟨m', hm', h5, ?_⟩
        have : m'.ts0 = m.ts0 := ts0_eq_of_key (by
          rw [← hM'.samekey m' hm' _ h5, hM.samekey m hm _ h2])
        rw [this]; exact h3

theorem acausal_merge {M1 M2 : List AIns} {o1 o2 : AIns} (hf : foldIds [] M1 = foldIds [] M2)
    (h1 : ACausal (M1 ++ [o1])) (h2 : ACausal (M2 ++ [o2])) (hne : o1.ts0.key ≠ o2.ts0.key) :
    ACausal (M1 ++ [o1, o2]) ∧ ACausal (M1 ++ [o2, o1]) := by
  have c12 : ACausal (M1 ++ [o2]) := acausal_transfer h1.prefix hf.symm h2
  obtain ⟨d1, a1⟩ := acausal_last h1
  obtain ⟨d2, a2⟩ := acausal_last c12
  have m1 : o1 ∈ M1 ++ [o1] := by simp
  have m2 : o2 ∈ M1 ++ [o2] := by simp
  constructor
  · have : M1 ++ [o1, o2] = (M1 ++ [o1]) ++ [o2] := by simp
    rw [this]
    apply acausal_snoc h1 (c12.nonempty o2 m2) (c12.samekey o2 m2) (c12.nodup o2 m2) (c12.notHead o2 m2)
    · intro m hm
      rcases List.mem_append.mp hm with h | h
      · exact d2 m h
      · simp at h; subst h; exact hne
    · rcases a2 with h | ⟨m, hm, h⟩
      · exact Or.inl h
      · exact Or.inr ⟨m, List.mem_append_left _ hm, h⟩
  · have : M1 ++ [o2, o1] = (M1 ++ [o2]) ++ [o1] := by simp
    rw [this]
    apply acausal_snoc c12 (h1.nonempty o1 m1) (h1.samekey o1 m1) (h1.nodup o1 m1) (h1.notHead o1 m1)
    · intro m hm
      rcases List.mem_append.mp hm with h | h
      · exact d1 m h
      · simp at h; subst h; exact fun e => hne e.symm
    · rcases a1 with h | ⟨m, hm, h⟩
      · exact Or.inl h
      · exact Or.inr ⟨m, List.mem_append_left _ hm, h⟩

/-! ## 6. two applicable operations of one history are applicable in any order -/

/-- no operation of the list is an insert -/
def NoIns (l : List EOp) : Prop := ∀ p, ∀ e ∈ l, insOnE p e = none

theorem noIns_flatDel (p : Ts) : ∀ (tgs : List Ts) (t : Ts), NoIns (flatDel p tgs t)
  | [], _ => by intro q e he; cases he
  | tg :: tgs, t => by
    intro q e he
    simp only [flatDel, List.mem_cons] at he
    rcases he with rfl | he
    · rfl
    · exact noIns_flatDel p tgs _ q e he

theorem noIns_flatUpd (p : Ts) : ∀ (tgs : List Ts) (vs : List JVal) (t : Ts), NoIns (flatUpd p tgs vs t)
  | [], _, _ => by intro q e he; simp [flatUpd] at he
  | _ :: _, [], _ => by intro q e he; simp [flatUpd] at he
  | tg :: tgs, v :: vs, t => by
    intro q e he
    simp only [flatUpd, List.mem_cons] at he
    rcases he with rfl | he
    · rfl
    · exact noIns_flatUpd p tgs vs _ q e he

theorem filterMap_noIns {l : List EOp} (h : NoIns l) (p : Ts) : l.filterMap (insOnE p) = [] := by
  rw [List.filterMap_eq_nil_iff]
  exact fun e he => h p e he

theorem ordOK_append_right {s : Doc} {l1 l2 : List EOp} (h : OrdOK s l1) (hn : NoIns l2) : OrdOK s (l1 ++ l2) := by
  intro p ⟨e, he, hi⟩
  rcases List.mem_append.mp he with he | he
  · obtain ⟨M0, h1, h2⟩ := h p ⟨e, he, hi⟩
    refine ⟨M0, h1, ?_⟩
    rw [List.filterMap_append, filterMap_noIns hn, List.append_nil]
    exact h2
  · rw [hn p e he] at hi; cases hi

theorem ordOK_append_left {s : Doc} {l1 l2 : List EOp} (hn : NoIns l1) (h : OrdOK s l2) : OrdOK s (l1 ++ l2) := by
  intro p ⟨e, he, hi⟩
  rcases List.mem_append.mp he with he | he
  · rw [hn p e he] at hi; cases hi
  · obtain ⟨M0, h1, h2⟩ := h p ⟨e, he, hi⟩
    refine ⟨M0, h1, ?_⟩
    rw [List.filterMap_append, filterMap_noIns hn, List.nil_append]
    exact h2

theorem newSlots_key {p a ts : Ts} {vs : List JVal} {c : Ts} (h : c ∈ newSlots (.ins p a ts vs)) : c.key = ts.key := by
  simp only [newSlots] at h
  cases hc : createMany p ts vs with
  | ok y =>
    obtain ⟨ns, cs, t'⟩ := y
    rw [hc] at h
    exact (createMany_ids_key hc).2.1 c h
  | err c' => rw [hc] at h; simp at h
  | panic w => rw [hc] at h; simp at h

theorem ts0_key_of_causal {M : List AIns} {p a ts : Ts} {vs : List JVal}
    (h : ACausal (M ++ [⟨a, newSlots (.ins p a ts vs)⟩])) :
    (AIns.mk a (newSlots (.ins p a ts vs))).ts0.key = ts.key := by
  have hm : (AIns.mk a (newSlots (.ins p a ts vs))) ∈ M ++ [⟨a, newSlots (.ins p a ts vs)⟩] := by simp
  obtain ⟨c, hc⟩ := List.exists_mem_of_ne_nil _ (h.nonempty _ hm)
  rw [← h.samekey _ hm c hc]
  exact newSlots_key (p := p) (a := a) hc

theorem ordOK_ins_ins {s : Doc} {p1 a1 t1 p2 a2 t2 : Ts} {vs1 vs2 : List JVal}
    (h1 : OrdOK s [.ins p1 a1 t1 vs1]) (h2 : OrdOK s [.ins p2 a2 t2 vs2]) (hne : t1.cmp t2 ≠ .eq) :
    OrdOK s ([.ins p1 a1 t1 vs1] ++ [.ins p2 a2 t2 vs2]) := by
  intro p hp
  by_cases e1 : p1 = p
  · by_cases e2 : p2 = p
    · subst e1
      have e2' := e2.symm
      subst e2'
      obtain ⟨M1, hb1, hc1⟩ := h1 p1 ⟨.ins p1 a1 t1 vs1, by simp, by simp [insOnE]⟩
      obtain ⟨M2, hb2, hc2⟩ := h2 p1 ⟨.ins p1 a2 t2 vs2, by simp, by simp [insOnE]⟩
      have c1 := hc1 [⟨a1, newSlots (.ins p1 a1 t1 vs1)⟩] (by simp [insOnE])
      have c2 := hc2 [⟨a2, newSlots (.ins p1 a2 t2 vs2)⟩] (by simp [insOnE])
      have hk : (AIns.mk a1 (newSlots (.ins p1 a1 t1 vs1))).ts0.key ≠ (AIns.mk a2 (newSlots (.ins p1 a2 t2 vs2))).ts0.key := by
        rw [ts0_key_of_causal c1, ts0_key_of_causal c2]
        exact fun e => hne ((cmp_eq_iff _ _).mpr e)
      obtain ⟨m1, m2⟩ := acausal_merge (hb1.symm.trans hb2) c1 c2 hk
      refine ⟨M1, hb1, ?_⟩
      intro l' hl'
      have hf : ([EOp.ins p1 a1 t1 vs1] ++ [EOp.ins p1 a2 t2 vs2]).filterMap (insOnE p1) =
          [⟨a1, newSlots (.ins p1 a1 t1 vs1)⟩, ⟨a2, newSlots (.ins p1 a2 t2 vs2)⟩] := by simp [insOnE]
      rw [hf] at hl'
      rcases perm_pair hl' with rfl | rfl
      · exact m1
      · exact m2
    · obtain ⟨M1, hb1, hc1⟩ := h1 p ⟨.ins p1 a1 t1 vs1, by simp, by simp [insOnE, e1]⟩
      refine ⟨M1, hb1, ?_⟩
      have hf : ([EOp.ins p1 a1 t1 vs1] ++ [EOp.ins p2 a2 t2 vs2]).filterMap (insOnE p) =
          [EOp.ins p1 a1 t1 vs1].filterMap (insOnE p) := by simp [insOnE, e1, e2]
      rw [hf]; exact hc1
  · by_cases e2 : p2 = p
    · obtain ⟨M2, hb2, hc2⟩ := h2 p ⟨.ins p2 a2 t2 vs2, by simp, by simp [insOnE, e2]⟩
      refine ⟨M2, hb2, ?_⟩
      have hf : ([EOp.ins p1 a1 t1 vs1] ++ [EOp.ins p2 a2 t2 vs2]).filterMap (insOnE p) =
          [EOp.ins p2 a2 t2 vs2].filterMap (insOnE p) := by simp [insOnE, e1, e2]
      rw [hf]; exact hc2
    · exfalso
      obtain ⟨e, he, hi⟩ := hp
      simp only [List.cons_append, List.nil_append, List.mem_cons, List.mem_nil_iff, or_false] at he
      rcases he with rfl | rfl <;> simp [insOnE, e1, e2] at hi

theorem noIns_or_ins (a : AOp) : NoIns (flat a) ∨ ∃ p an ts vs, a = .ins p an ts vs := by
  cases a with
  | ins p an ts vs => exact Or.inr ⟨p, an, ts, vs, rfl⟩
  | del p tgs t => exact Or.inl (noIns_flatDel p tgs t)
  | upd p t tgs vs => exact Or.inl (noIns_flatUpd p tgs vs t)

theorem goodE_pair {s : Doc} {a b : AOp} (ha : GoodE s (flat a)) (hb : GoodE s (flat b))
    (hc : ∀ e ∈ flat a, ∀ e' ∈ flat b, Compat e e' ∧ e.ts.cmp e'.ts ≠ .eq) : GoodE s (flat a ++ flat b) := by
  refine ⟨ha.1, ?_, ?_, ?_⟩
  · intro e he
    rcases List.mem_append.mp he with h | h
    · exact ha.2.1 e h
    · exact hb.2.1 e h
  · exact List.pairwise_append.mpr ⟨ha.2.2.1, hb.2.2.1, fun e he e' he' => (hc e he e' he').1⟩
  · rcases noIns_or_ins a with h | ⟨p1, a1, t1, vs1, rfl⟩
    · exact ordOK_append_left h hb.2.2.2
    · rcases noIns_or_ins b with h | ⟨p2, a2, t2, vs2, rfl⟩
      · exact ordOK_append_right ha.2.2.2 h
      · exact ordOK_ins_ins ha.2.2.2 hb.2.2.2
          (hc (.ins p1 a1 t1 vs1) (by simp [flat]) (.ins p2 a2 t2 vs2) (by simp [flat])).2

/-- two operations that are applicable in the same document and are different operations of one history are
    applicable there in any order -/
theorem goodD_pair {s : Doc} {x y : DOp} (hx : GoodD s [x]) (hy : GoodD s [y]) (hc : DCompat x y) :
    GoodD s [x, y] := by
  have hwf := goodD_wf hx
  cases x with
  | o a =>
    obtain ⟨_, oa⟩ := DR.goodD_obj hx
    cases y with
    | o b =>
      obtain ⟨_, ob⟩ := DR.goodD_obj hy
      have eo : objs [DOp.o a, DOp.o b] = [a, b] := rfl
      refine ⟨⟨hwf, ?_, ?_⟩, DR.goodE_nil hwf, by simp [arrs], by simp [arrs]⟩
      · intro o ho
        rw [eo] at ho
        simp only [List.mem_cons, List.mem_nil_iff, or_false] at ho
        rcases ho with rfl | rfl
        · exact oa
        · exact ob
      · rw [eo]
        exact List.pairwise_pair.mpr hc
    | a b =>
      obtain ⟨gb, bb⟩ := DR.goodD_arr hy
      have ea : arrs [DOp.o a, DOp.a b] = [b] := rfl
      have eo : objs [DOp.o a, DOp.a b] = [a] := rfl
      refine ⟨hx.1, ?_, ?_, ?_⟩
      · rw [ea]; simpa using gb
      · rw [ea]; intro op ho; simp at ho; subst ho; exact bb
      · rw [ea, eo]
        intro x hx' e he
        simp at hx'; subst hx'
        simp at he
        exact hc e he
  | a a =>
    obtain ⟨ga, ba⟩ := DR.goodD_arr hx
    cases y with
    | o b =>
      have ea : arrs [DOp.a a, DOp.o b] = [a] := rfl
      have eo : objs [DOp.a a, DOp.o b] = [b] := rfl
      refine ⟨hy.1, ?_, ?_, ?_⟩
      · rw [ea]; simpa using ga
      · rw [ea]; intro op ho; simp at ho; subst ho; exact ba
      · rw [ea, eo]
        intro x hx' e he
        simp at hx'; subst hx'
        simp at he
        exact hc e he
    | a b =>
      obtain ⟨gb, bb⟩ := DR.goodD_arr hy
      have ea : arrs [DOp.a a, DOp.a b] = [a, b] := rfl
      have eo : objs [DOp.a a, DOp.a b] = [] := rfl
      refine ⟨⟨hwf, by rw [eo]; simp, by rw [eo]; simp⟩, ?_, ?_, ?_⟩
      · rw [ea]
        have := goodE_pair ga gb hc
        simpa using this
      · rw [ea]; intro op ho
        simp at ho
        rcases ho with rfl | rfl
        · exact ba
        · exact bb
      · rw [eo]; intro x hx'; cases hx'


/-! ## 7. monotonicity of applicability, commutation, transport along `ASim` -/

/-- MONOTONICITY: an applicable operation stays applicable when another applicable operation of the history is applied -/
theorem goodD_mono {s : Doc} {x y : DOp} (hx : GoodD s [x]) (hy : GoodD s [y]) (hc : DCompat y x) :
    GoodD (applyD s y) [x] :=
  goodD_step (goodD_pair hy hx hc)

theorem comm_asim_D {s : Doc} {x y : DOp} (hx : GoodD s [x]) (hy : GoodD s [y]) (hc : DCompat x y) :
    ASim (applyD (applyD s x) y) (applyD (applyD s y) x) :=
  (mixed_converge (List.Perm.swap y x []) (goodD_pair hx hy hc)).1

/-- validity of a history is carried along `ASim` (global freshness supplies the freshness of the new identifiers) -/
theorem valid_transfer : ∀ (r : List DOp) {a b : Doc}, Valid a r → ASim a b → b.WF → FreshIn b r → Distinct r →
    Valid b r ∧ ASim (applyAllD a r) (applyAllD b r)
  | [], _, _, _, h, _, _, _ => ⟨trivial, h⟩
  | z :: r, a, b, hv, h, hb, hf, hd => by
    have ga := hv.1
    have gb : GoodD b [z] := goodD_asim h hb ga (fun x hx => hf x (by simp at hx; subst hx; simp))
    have hd' := List.pairwise_cons.mp hd
    obtain ⟨v, s⟩ := valid_transfer r hv.2 (asim_applyD ga gb h) (wf_applyD gb)
      (freshIn_step (fun x hx => hf x (List.mem_cons_of_mem _ hx)) gb hd'.1) hd'.2
    exact ⟨⟨gb, v⟩, s⟩

/-- an operation that is applicable at the start moves to the front of a valid history -/
theorem bubble : ∀ (l1 : List DOp) {s : Doc} {x : DOp} {l2 : List DOp}, GoodD s [x] → Valid s (l1 ++ x :: l2) →
    Distinct (l1 ++ x :: l2) → FreshIn s (l1 ++ x :: l2) →
    Valid s (x :: (l1 ++ l2)) ∧ ASim (applyAllD s (l1 ++ x :: l2)) (applyAllD s (x :: (l1 ++ l2)))
  | [], s, x, l2, _, hv, _, _ => ⟨hv, asim_refl _⟩
  | y :: l1, s, x, l2, hx, hv, hd, hf => by
    obtain ⟨hy, hv'⟩ := hv
    have hd' := List.pairwise_cons.mp hd
    have hda := List.pairwise_append.mp hd'.2
    have hdx := List.pairwise_cons.mp hda.2.1
    have cyx : DCompat y x := hd'.1 x (by simp)
    have hx' : GoodD (applyD s y) [x] := goodD_mono hx hy cyx
    have hf' : FreshIn (applyD s y) (l1 ++ x :: l2) :=
      freshIn_step (fun z hz => hf z (List.mem_cons_of_mem _ hz)) hy hd'.1
    obtain ⟨⟨_, hvr⟩, hs⟩ := bubble l1 hx' hv' hd'.2 hf'
    have hy' : GoodD (applyD s x) [y] := goodD_mono hy hx (dcompat_symm cyx)
    have hab : ASim (applyD (applyD s y) x) (applyD (applyD s x) y) := comm_asim_D hy hx cyx
    have hdr : Distinct (l1 ++ l2) :=
      List.Pairwise.sublist ((List.Sublist.refl l1).append (List.sublist_cons_self x l2)) hd'.2
    have hfx : FreshIn (applyD s x) (y :: (l1 ++ l2)) := by
      apply freshIn_step _ hx
      · intro z hz
        simp only [List.mem_cons, List.mem_append] at hz
        rcases hz with rfl | hz | hz
        · exact dcompat_symm cyx
        · exact dcompat_symm (hda.2.2 z hz x (by simp))
        · exact hdx.1 z hz
      · intro z hz
        apply hf z
        simp only [List.mem_cons, List.mem_append] at hz
        rcases hz with rfl | hz | hz <;> simp [*]
    have hfb : FreshIn (applyD (applyD s x) y) (l1 ++ l2) := by
      apply freshIn_step (fun z hz => hfx z (List.mem_cons_of_mem _ hz)) hy'
      intro z hz
      apply hd'.1 z
      simp only [List.mem_append] at hz
      rcases hz with hz | hz <;> simp [*]
    obtain ⟨vb, sb⟩ := valid_transfer (l1 ++ l2) hvr hab (wf_applyD hy') hfb hdr
    exact ⟨⟨hx, hy', vb⟩, asim_trans hs sb⟩

theorem causal_asim : ∀ (L : List DOp) {d : Doc} {L' : List DOp}, L.Perm L' → d.WF → Distinct L → FreshIn d L →
    Valid d L → Valid d L' → ASim (applyAllD d L) (applyAllD d L')
  | [], d, L', hp, _, _, _, _, _ => by rw [← hp.nil_eq]; exact asim_refl _
  | x :: l, d, L', hp, hwf, hd, hf, hv, hv' => by
    have hx : x ∈ L' := hp.subset (by simp)
    obtain ⟨l1, l2, rfl⟩ := List.append_of_mem hx
    have hp' : l.Perm (l1 ++ l2) := (hp.trans List.perm_middle).cons_inv
    obtain ⟨hvb, hsb⟩ := bubble l1 hv.1 hv' (distinct_perm hp hd) (freshIn_perm hp hf)
    have hd' := List.pairwise_cons.mp hd
    have ih := causal_asim l hp' (wf_applyD hv.1) hd'.2
      (freshIn_step (fun z hz => hf z (List.mem_cons_of_mem _ hz)) hv.1 hd'.1) hv.2 hvb.2
    exact asim_trans ih (asim_symm hsb)

/-! ## 8. views -/

theorem viewOK_docEq {a b : Doc} (h : DocEq a b) (ha : (ids a.table).Nodup) (hb : (ids b.table).Nodup)
    (hv : ViewOK a) : ViewOK b := by
  refine ⟨DR.keysND_docEq h hv.keys, ?_, ?_⟩
  · obtain ⟨rk, hr, hlt⟩ := hv.bounded
    exact ⟨rk, fun p n hp c hc => hr p n (by rw [h p]; exact hp) c hc,
      fun c => by rw [← docEq_length h ha hb]; exact hlt c⟩
  · obtain ⟨n, m, s, h1, h2⟩ := hv.root
    exact ⟨n, m, s, by rw [← h _]; exact h1, h2⟩

theorem viewOK_applyD {d : Doc} {x : DOp} (hg : GoodD d [x]) (hv : ViewOK d) (hko : ∀ o, x = .o o → OpKeysND o)
    (hke : ∀ a, x = .a a → ∀ e ∈ flat a, EKeysND e) : ViewOK (applyD d x) := by
  cases x with
  | o o =>
    obtain ⟨wa, oa⟩ := DR.goodD_obj hg
    exact viewOK_op wa hv o oa (hko o rfl)
  | a a =>
    obtain ⟨ga, bo⟩ := DR.goodD_arr hg
    have e1 : DocEq (applyA d a) (applyAllE d (flat a)) := applyA_flat (rest := []) (by simpa using ga) bo
    have v := viewOK_applyAllE ga hv (hke a rfl)
    exact viewOK_docEq (docEq_symm e1) (goodE_applyAll ga).nodup (nodup_applyA ga.1.nodup a) v

theorem viewOK_valid : ∀ (L : List DOp) {d : Doc}, Valid d L → ViewOK d → (∀ x ∈ objs L, OpKeysND x) →
    (∀ e ∈ (arrs L).flatMap flat, EKeysND e) → ViewOK (applyAllD d L)
  | [], _, _, hv, _, _ => hv
  | x :: l, d, hval, hv, hko, hke => by
    apply viewOK_valid l hval.2 (viewOK_applyD hval.1 hv ?_ ?_)
    · intro o ho
      exact hko o (mem_objs.mpr (List.mem_cons_of_mem _ (mem_objs.mp ho)))
    · intro e he
      obtain ⟨a, ha, hea⟩ := List.mem_flatMap.mp he
      exact hke e (List.mem_flatMap.mpr ⟨a, mem_arrs.mpr (List.mem_cons_of_mem _ (mem_arrs.mp ha)), hea⟩)
    · intro o ho
      subst ho
      exact hko o (mem_objs.mpr (by simp))
    · intro a ha e he
      subst ha
      exact hke e (List.mem_flatMap.mpr ⟨a, mem_arrs.mpr (by simp), he⟩)

/-- **Convergence for causal histories**, under GLOBAL FRESHNESS (`FreshIn d L`: no operation creates a node whose
    identifier is in the table of the start document). -/
theorem causal_converge_partial {d : Doc} {L L' : List DOp} (hp : L.Perm L') (hwf : d.WF) (hd : Distinct L)
    (hf : FreshIn d L) (hv : Valid d L) (hv' : Valid d L') :
    ASim (applyAllD d L) (applyAllD d L') ∧
      (ViewOK d → (∀ x ∈ objs L, OpKeysND x) → (∀ e ∈ (arrs L).flatMap flat, EKeysND e) →
        (applyAllD d L).view.canon = (applyAllD d L').view.canon) := by
  have hs := causal_asim L hp hwf hd hf hv hv'
  refine ⟨hs, ?_⟩
  intro hvw hko hke
  have v1 := viewOK_valid L hv hvw hko hke
  have v2 := viewOK_valid L' hv' hvw
    (fun o ho => hko o (mem_objs.mpr (hp.mem_iff.mpr (mem_objs.mp ho))))
    (fun e he => by
      obtain ⟨a, ha, hea⟩ := List.mem_flatMap.mp he
      exact hke e (List.mem_flatMap.mpr ⟨a, mem_arrs.mpr (hp.mem_iff.mpr (mem_arrs.mp ha)), hea⟩))
  exact asim_view_canon hs (valid_wf L hwf hv) v1.keys v2.keys v1.bounded v2.bounded v1.root


/-! ## 9. decidable sufficient conditions (for concrete instances) -/

def dcompatB : DOp → DOp → Bool
  | .o a, .o b => decide (a.ts.cmp b.ts ≠ .eq)
  | .o a, .a b => (flat b).all fun e => (oIds a).all (fun c => !memB c (eIds e)) && decide (a.ts.cmp e.ts ≠ .eq)
  | .a a, .o b => (flat a).all fun e => (oIds b).all (fun c => !memB c (eIds e)) && decide (b.ts.cmp e.ts ≠ .eq)
  | .a a, .a b => (flat a).all fun e => (flat b).all fun e' => compatB e e' && decide (e.ts.cmp e'.ts ≠ .eq)

theorem cross_of_all {x : ObjOp} {e : EOp} (h : (oIds x).all (fun c => !memB c (eIds e)) = true) :
    ∀ c, c ∈ oIds x → c ∈ eIds e → False := by
  intro c h1 h2
  have := List.all_eq_true.mp h c h1
  rw [memB_iff.mpr h2] at this
  cases this

theorem dcompat_of_B {x y : DOp} (h : dcompatB x y = true) : DCompat x y := by
  cases x with
  | o a =>
    cases y with
    | o b =>
      have : ¬ a.ts.cmp b.ts = .eq := by simpa [dcompatB] using h
      exact this
    | a b =>
      intro e he
      have := List.all_eq_true.mp h e he
      simp only [Bool.and_eq_true, decide_eq_true_eq] at this
      exact ⟨cross_of_all this.1, this.2⟩
  | a a =>
    cases y with
    | o b =>
      intro e he
      have := List.all_eq_true.mp h e he
      simp only [Bool.and_eq_true, decide_eq_true_eq] at this
      exact ⟨cross_of_all this.1, this.2⟩
    | a b =>
      intro e he e' he'
      have := List.all_eq_true.mp (List.all_eq_true.mp h e he) e' he'
      simp only [Bool.and_eq_true, decide_eq_true_eq] at this
      exact ⟨compat_of_B this.1, this.2⟩

theorem distinct_of_B {l : List DOp} (h : l.Pairwise (fun a b => dcompatB a b = true)) : Distinct l :=
  h.imp dcompat_of_B

theorem freshIn_of_all {d : Doc} {l : List DOp}
    (h : (l.all fun x => (newIds x).all fun c => (d.find c).isNone) = true) : FreshIn d l := by
  intro x hx c hc
  have := List.all_eq_true.mp (List.all_eq_true.mp h x hx) c hc
  simpa using this

theorem valid_cons {d : Doc} {x : DOp} {l : List DOp} (g : GoodD d [x])
    (h : (applyD d x).WF → Valid (applyD d x) l) : Valid d (x :: l) := ⟨g, h (wf_applyD g)⟩

/-- a single applicable insert into an array whose order is produced by the causal history `M0` -/
theorem goodD_single_ins {s : Doc} {p a ts : Ts} {vs : List JVal} (hwf : s.WF) (hok : EOK s (.ins p a ts vs))
    (M0 : List AIns) (hM : slotIds s p = foldIds [] M0)
    (hc : ACausal (M0 ++ [⟨a, newSlots (.ins p a ts vs)⟩])) : GoodD s [.a (.ins p a ts vs)] := by
  refine DR.goodD_single_arr (x := .ins p a ts vs) hwf ?_ trivial
  refine ⟨hwf, ?_, by simp [flat], ?_⟩
  · intro e he
    simp only [flat, List.mem_cons, List.mem_nil_iff, or_false] at he
    subst he; exact hok
  · intro q ⟨e, he, hi⟩
    simp only [flat, List.mem_cons, List.mem_nil_iff, or_false] at he
    subst he
    by_cases e' : p = q
    · subst e'
      refine ⟨M0, hM, ?_⟩
      intro l' hl'
      have hf : (flat (.ins p a ts vs)).filterMap (insOnE p) = [⟨a, newSlots (.ins p a ts vs)⟩] := by
        simp [flat, insOnE]
      rw [hf] at hl'
      rw [List.perm_singleton.mp hl']
      exact hc
    · simp [insOnE, e'] at hi

/-! ## 10. non-vacuity: operations that address nodes created by other operations of the history -/

namespace Ex

def root : Ts := Ts.oldest
def t1 : Ts := ⟨0, 1, "a", 0⟩
def t2 : Ts := ⟨0, 2, "b", 0⟩
def t3 : Ts := ⟨0, 3, "c", 0⟩
def t4 : Ts := ⟨0, 2, "d", 0⟩
/-- the object created by `x1` -/
def objN : Ts := t1
/-- the array created by `x1` inside that object -/
def arrN : Ts := ⟨0, 1, "a", 1⟩

/-- put `{"a": []}` under the key `o` of the root -/
def x1 : DOp := .o (.put root "o" (.obj [("a", .arr [])]) t1)
/-- insert into the NEW array -/
def x2 : DOp := .a (.ins arrN Ts.oldest t2 [.num 1, .str "s"])
/-- put into the NEW object -/
def x3 : DOp := .o (.put objN "b" (.num 2) t3)
/-- an independent put into the root -/
def x4 : DOp := .o (.put root "z" (.num 9) t4)

def L : List DOp := [x1, x2, x3, x4]
def L' : List DOp := [x4, x1, x3, x2]

theorem perm : L.Perm L' :=
  ((List.reverse_perm [x2, x3, x4]).symm.cons x1).trans (List.Perm.swap x4 x1 _)

theorem distinct : Distinct L := distinct_of_B (by decide)

theorem freshIn : FreshIn Doc.empty L := freshIn_of_all (by decide)

theorem causal_x2 : ACausal ([] ++ [⟨Ts.oldest, newSlots (.ins arrN Ts.oldest t2 [.num 1, .str "s"])⟩]) where
  nonempty := by decide
  samekey := by decide
  nodup := by decide
  notHead := by decide
  distinct := by decide
  anchored := by
    intro i hi
    match i, hi with
    | 0, _ => left; rfl

theorem put_ok {d : Doc} {p : Ts} {k : String} {v : JVal} {ts : Ts} (hwf : d.WF) (h1 : IsObj d p)
    (h2 : ∃ ns c t', createNode p ts v = .ok (ns, c, t'))
    (h3 : (ids (nodesOf (.put p k v ts))).all (fun c => (d.find c).isNone) = true) :
    GoodD d [.o (.put p k v ts)] :=
  DR.goodD_single_obj hwf ⟨h1, h2, DC.Ex.fresh_of_all h3⟩

theorem valid : Valid Doc.empty L := by
  refine valid_cons (put_ok wf_doc_empty ⟨_, _, _, rfl, rfl⟩ ⟨_, _, _, rfl⟩ (by decide)) fun w1 => ?_
  refine valid_cons (goodD_single_ins w1 (eok_of_B (by decide)) [] (by decide) causal_x2) fun w2 => ?_
  refine valid_cons (put_ok w2 ⟨_, _, _, rfl, rfl⟩ ⟨_, _, _, rfl⟩ (by decide)) fun w3 => ?_
  refine valid_cons (put_ok w3 ⟨_, _, _, rfl, rfl⟩ ⟨_, _, _, rfl⟩ (by decide)) fun _ => trivial

theorem valid' : Valid Doc.empty L' := by
  refine valid_cons (put_ok wf_doc_empty ⟨_, _, _, rfl, rfl⟩ ⟨_, _, _, rfl⟩ (by decide)) fun w1 => ?_
  refine valid_cons (put_ok w1 ⟨_, _, _, rfl, rfl⟩ ⟨_, _, _, rfl⟩ (by decide)) fun w2 => ?_
  refine valid_cons (put_ok w2 ⟨_, _, _, rfl, rfl⟩ ⟨_, _, _, rfl⟩ (by decide)) fun w3 => ?_
  refine valid_cons (goodD_single_ins w3 (eok_of_B (by decide)) [] (by decide) causal_x2) fun _ => trivial

/-- `causal_converge_partial` instantiated: two different causal delivery orders of a history in which `x2` and `x3`
    address nodes created by `x1` -/
example : ASim (applyAllD Doc.empty L) (applyAllD Doc.empty L') :=
  (causal_converge_partial perm wf_doc_empty distinct freshIn valid valid').1

example : (applyAllD Doc.empty L).view.canon = (applyAllD Doc.empty L').view.canon :=
  (causal_converge_partial perm wf_doc_empty distinct freshIn valid valid').2 viewOK_empty
    (by
      intro x hx
      have : objs L = [.put root "o" (.obj [("a", .arr [])]) t1, .put objN "b" (.num 2) t3,
        .put root "z" (.num 9) t4] := rfl
      rw [this] at hx
      simp only [List.mem_cons, List.mem_nil_iff, or_false] at hx
      rcases hx with rfl | rfl | rfl <;> simp [OpKeysND, JKeysND, JKeysNDList, JKeysNDKvs])
    (by
      intro e he
      have : (arrs L).flatMap flat = [.ins arrN Ts.oldest t2 [.num 1, .str "s"]] := rfl
      rw [this] at he
      simp only [List.mem_cons, List.mem_nil_iff, or_false] at he
      subst he
      simp [EKeysND, JKeysND, JKeysNDList])

/-- … and what the two replicas show -/
example : ((applyAllD Doc.empty L).view.canon ==
    .obj [("o", .obj [("a", .arr [.num 1, .str "s"]), ("b", .num 2)]), ("z", .num 9)]) = true ∧
    ((applyAllD Doc.empty L').view.canon == (applyAllD Doc.empty L).view.canon) = true := by decide

/-- the new theorem is strictly stronger than `DM.mixed_converge`: `GoodD` FAILS for this history — `x3` (and `x2`) is not
    applicable in the start document, its parent does not exist yet -/
example : ¬ GoodD Doc.empty L := by
  intro h
  have hok : OpOK Doc.empty (.put objN "b" (.num 2) t3) := h.1.2.1 _ (mem_objs.mpr (by simp [L, x3]))
  obtain ⟨n, m, s, h1, _⟩ := hok.1
  have : Doc.empty.find objN = none := rfl
  rw [this] at h1
  cases h1

end Ex

/-! ## 11. why GLOBAL FRESHNESS: an identifier of the start document that an operation of the history creates AGAIN

The start document holds the element `c0` under the key `k`.  `oz` creates a node with the identifier `c0` again: it is
applicable only after `c0` has left the table (a put on `k` that wins over `c0` buries it).  Both histories below are
valid and they converge, but the list obtained from the second one by moving `ox` (applicable at the start, first in the
first history) to the front is NOT valid: after `ox` the put `oy` loses against the tombstone and `c0` stays in the
table.  So without `FreshIn` validity is not preserved by the exchange of adjacent applicable operations on which the
proof of `causal_converge_partial` rests (no counterexample to the convergence itself is known; an exhaustive search
over the permutations of eight such operations found none). -/
namespace Anti

def c0 : Ts := ⟨0, 1, "a", 0⟩
def d0 : Doc := applyOp Doc.empty (.put Ts.oldest "k" (.num 1) c0)
def ox : DOp := .o (.del Ts.oldest "k" ⟨0, 5, "x", 0⟩)
def oy : DOp := .o (.put Ts.oldest "k" (.num 2) ⟨0, 4, "y", 0⟩)
def oy' : DOp := .o (.put Ts.oldest "k" (.num 3) ⟨0, 6, "w", 0⟩)
/-- creates the identifier `c0` again -/
def oz : DOp := .o (.put Ts.oldest "j" (.num 7) c0)

theorem d0_wf : d0.WF :=
  wf_op wf_doc_empty _ ⟨⟨_, _, _, rfl, rfl⟩, ⟨_, _, _, rfl⟩, DC.Ex.fresh_of_all (by decide)⟩

theorem del_ok {d : Doc} {p : Ts} {k : String} {ts : Ts} (hwf : d.WF) (h : HasKey d p k) : GoodD d [.o (.del p k ts)] :=
  DR.goodD_single_obj hwf h

theorem valid1 : Valid d0 [ox, oy', oz, oy] := by
  refine valid_cons (del_ok d0_wf ⟨_, _, _, _, rfl, rfl, rfl⟩) fun w1 => ?_
  refine valid_cons (DCausal.Ex.put_ok w1 ⟨_, _, _, rfl, rfl⟩ ⟨_, _, _, rfl⟩ (by decide)) fun w2 => ?_
  refine valid_cons (DCausal.Ex.put_ok w2 ⟨_, _, _, rfl, rfl⟩ ⟨_, _, _, rfl⟩ (by decide)) fun w3 => ?_
  refine valid_cons (DCausal.Ex.put_ok w3 ⟨_, _, _, rfl, rfl⟩ ⟨_, _, _, rfl⟩ (by decide)) fun _ => trivial

theorem valid2 : Valid d0 [oy, ox, oz, oy'] := by
  refine valid_cons (DCausal.Ex.put_ok d0_wf ⟨_, _, _, rfl, rfl⟩ ⟨_, _, _, rfl⟩ (by decide)) fun w1 => ?_
  refine valid_cons (del_ok w1 ⟨_, _, _, _, rfl, rfl, rfl⟩) fun w2 => ?_
  refine valid_cons (DCausal.Ex.put_ok w2 ⟨_, _, _, rfl, rfl⟩ ⟨_, _, _, rfl⟩ (by decide)) fun w3 => ?_
  refine valid_cons (DCausal.Ex.put_ok w3 ⟨_, _, _, rfl, rfl⟩ ⟨_, _, _, rfl⟩ (by decide)) fun _ => trivial

theorem distinct : Distinct [ox, oy', oz, oy] := distinct_of_B (by decide)

/-- `ox` is applicable at the start … -/
theorem ox_ok : GoodD d0 [ox] := del_ok d0_wf ⟨_, _, _, _, rfl, rfl, rfl⟩

/-- … but moved to the front of the second history it blocks `oz` -/
theorem not_valid : ¬ Valid d0 [ox, oy, oz, oy'] := by
  intro h
  have hz : GoodD (applyD (applyD d0 ox) oy) [oz] := h.2.2.1
  have hf := goodD_fresh hz oz (by simp) c0 (by decide)
  have e : ((applyD (applyD d0 ox) oy).find c0).isSome = true := by decide
  rw [hf] at e
  cases e

/-- the hypothesis of `causal_converge_partial` that fails here -/
theorem not_freshIn : ¬ FreshIn d0 [ox, oy', oz, oy] := by
  intro h
  have hf := h oz (by simp) c0 (by decide)
  have e : (d0.find c0).isSome = true := by decide
  rw [hf] at e
  cases e

/-- the two valid histories converge all the same -/
example : ((applyAllD d0 [ox, oy', oz, oy]).view.canon == .obj [("j", .num 7), ("k", .num 3)]) = true ∧
    ((applyAllD d0 [oy, ox, oz, oy']).view.canon == (applyAllD d0 [ox, oy', oz, oy]).view.canon) = true := by decide

end Anti

/-! ## 12. global freshness from unique operation identifiers -/

theorem eIds_key {e : EOp} {c : Ts} (h : c ∈ eIds e) : c.key = e.ts.key := by
  cases e with
  | ins p a ts vs =>
    simp only [eIds, nodesE] at h
    cases hc : createMany p ts vs with
    | ok y =>
      obtain ⟨ns, cs, t'⟩ := y
      rw [hc] at h
      exact (createMany_ids_key hc).1 c h
    | err c' => rw [hc] at h; simp [ids] at h
    | panic w => rw [hc] at h; simp [ids] at h
  | del1 p tg t => simp [eIds, nodesE, ids] at h
  | upd1 p tg t v =>
    simp only [eIds, nodesE] at h
    cases hc : createNode p t v with
    | ok y =>
      obtain ⟨ns, c', t'⟩ := y
      rw [hc] at h
      exact (createNode_ids_key hc).1 c h
    | err c' => rw [hc] at h; simp [ids] at h
    | panic w => rw [hc] at h; simp [ids] at h

theorem flatDel_key (p : Ts) : ∀ (tgs : List Ts) (t : Ts), ∀ e ∈ flatDel p tgs t, e.ts.key = t.key
  | [], _, e, he => by simp [flatDel] at he
  | tg :: tgs, t, e, he => by
    simp only [flatDel, List.mem_cons] at he
    rcases he with rfl | he
    · rfl
    · exact flatDel_key p tgs t.nextDelim e he

theorem flatUpd_key (p : Ts) : ∀ (tgs : List Ts) (vs : List JVal) (t : Ts), ∀ e ∈ flatUpd p tgs vs t, e.ts.key = t.key
  | [], _, _, e, he => by simp [flatUpd] at he
  | _ :: _, [], _, e, he => by simp [flatUpd] at he
  | tg :: tgs, v :: vs, t, e, he => by
    simp only [flatUpd, List.mem_cons] at he
    rcases he with rfl | he
    · rfl
    · rw [flatUpd_key p tgs vs _ e he]
      cases hc : createNode p t v with
      | ok r =>
        obtain ⟨ns, c, t'⟩ := r
        exact (createNode_ids_key hc).2
      | err c => rfl
      | panic w => rfl

theorem flat_key (a : AOp) : ∀ e ∈ flat a, e.ts.key = a.ts.key := by
  cases a with
  | ins p an ts vs => intro e he; simp only [flat, List.mem_cons, List.mem_nil_iff, or_false] at he; subst he; rfl
  | del p tgs t => exact flatDel_key p tgs t
  | upd p t tgs vs => exact flatUpd_key p tgs vs t

/-- every new identifier of an operation carries the (era, lamport, client) of the operation's timestamp -/
theorem newIds_key {x : DOp} {c : Ts} (h : c ∈ newIds x) : c.key = (DR.dts x).key := by
  cases x with
  | o o => exact nodesOf_key o h
  | a a =>
    obtain ⟨e, he, hce⟩ := List.mem_flatMap.mp h
    rw [eIds_key hce, flat_key a e he]
    rfl

/-- GLOBAL FRESHNESS from unique operation identifiers: no node of the start document was created by an operation with
    the (era, lamport, client) of an operation of the history -/
theorem freshIn_of_keys {d : Doc} {l : List DOp} (h : ∀ n ∈ d.table, ∀ x ∈ l, n.c.key ≠ (DR.dts x).key) :
    FreshIn d l := by
  intro x hx c hc
  cases hf : d.find c with
  | none => rfl
  | some n =>
    exfalso
    apply h n (find_some_mem hf) x hx
    rw [find_some_c hf, newIds_key hc]


end Orda.DCausal
