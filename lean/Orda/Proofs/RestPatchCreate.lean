/-
C19 / C11: the REST patch endpoint on a key that does NOT exist yet — the document is created, end to end through the store.
Continues `Orda.Proofs.RestPatch` (namespace `Orda.RestP`).

* 1. `script_ne_nil`: the script for a non-empty target object on the empty document is not empty.
* 2. `patch_remote_buf`: `RestP.patch_remote` for a replica whose buffer is not empty (the creating replica holds its snapshot
  operation): what the patch APPENDS to the buffer carries the next client sequence numbers, and `receive` of it on a replica
  in the same state gives the patched document.
* 3. `receive_snap`: a snapshot operation at the head of what is received is one unit.
* 4. `processPack_admin_create`: the admin's create pack for an absent key and a fresh id is ACCEPTED.
* 5. `latest_created`: `Store.latest` of the new datatype record replays exactly the pushed operations on a fresh replica.
* 6. `patchDocument_creates_and_stores_target`, `patchDocument_create_empty_target_stores_nothing`.
* 7. `ExC`: non-vacuity on the store of `RestP.Ex`.
-/
import Orda.Proofs.RestPatch
namespace Orda.RestP
open Orda

/-! ## 1. the script is not empty -/

theorem objPut_ne_nil (k : String) (v : JVal) (l : List (String × JVal)) : objPut k v l ≠ [] := by
  cases l with
  | nil => simp [objPut]
  | cons x xs =>
    obtain ⟨k', v'⟩ := x
    unfold objPut
    split
    · simp
    · split <;> simp

theorem canonKvs_ne_nil {tgt : List (String × JVal)} (h : tgt ≠ []) : JVal.canonKvs tgt ≠ [] := by
  cases tgt with
  | nil => exact absurd rfl h
  | cons x xs =>
    obtain ⟨k, v⟩ := x
    unfold JVal.canonKvs
    exact objPut_ne_nil _ _ _

theorem empty_view : Doc.empty.view.canon = .obj [] := by decide +kernel

theorem canon_obj_eq (tgt : List (String × JVal)) : (JVal.obj tgt).canon = .obj (JVal.canonKvs tgt) := by
  rw [JVal.canon]

theorem script_ne_nil {tgt : List (String × JVal)} (h : tgt ≠ []) :
    jsonDiff Doc.empty.view.canon (JVal.obj tgt).canon ≠ [] := by
  rw [empty_view, canon_obj_eq]
  intro hnil
  have hc1 : (JVal.obj []).Canonical := by
    have := canon_canonical (JVal.obj []); rwa [canon_obj_eq] at this
  have hc2 : (JVal.obj (JVal.canonKvs tgt)).Canonical := by
    have := canon_canonical (JVal.obj tgt); rwa [canon_obj_eq] at this
  exact canonKvs_ne_nil h ((diff_nil_iff [] _ hc1 hc2).1 hnil).symm

theorem script_nil : jsonDiff Doc.empty.view.canon (JVal.obj []).canon = [] := by
  rw [empty_view, canon_obj_eq]
  have hc1 : (JVal.obj []).Canonical := by
    have := canon_canonical (JVal.obj []); rwa [canon_obj_eq] at this
  exact (diff_nil_iff [] [] hc1 hc1).2 rfl

/-! ## 2. the replica side, for a replica that holds operations already -/

section replica
open Orda.DC Orda.DM Orda.DR
open Orda.DPatch (Carr GoodV callOf)

/-- `body_sim`, also telling that the type of the replica is kept -/
theorem body_sim_typ : ∀ (ops : List PatchOp) (r q : Replica) (acc : List Op) (d : Doc) (tf : JVal),
    r.state = .doc d → q.state = .doc d → DP.DInv r.opId 0 d → KeysND d → DLR.HistOK d →
    applyPatch ops d.view.canon = some tf → (∀ op ∈ ops, Carr GoodV op) →
    ∃ r1 new d1 q1, Replica.patch.body r acc ops = (r1, acc ++ new, none) ∧ new.length = ops.length ∧
      r1.state = .doc d1 ∧ d1.view.canon = tf ∧ r1.buffer = r.buffer ∧ r1.cp = r.cp ∧ r1.typ = r.typ ∧
      SeqFrom (r.opId.seq + 1) (new.map Op.wire) ∧
      Replica.applyUnit.go q (new.map Op.wire) = (q1, .ok ()) ∧ q1.state = .doc d1 := by
  intro ops
  induction ops with
  | nil =>
    intro r q acc d tf hs hq I hk hh happ _
    simp only [applyPatch, Option.some.injEq] at happ
    exact ⟨r, [], d, q, by simp [Replica.patch.body], rfl, hs, happ, rfl, rfl, rfl, seqFrom_nil _, rfl, hq⟩
  | cons op rest ih =>
    intro r q acc d tf hs hq I hk hh happ hgood
    simp only [applyPatch] at happ
    cases h1 : applyAt op op.path d.view.canon with
    | none => simp [h1] at happ
    | some t1 =>
      simp only [h1, Option.bind_some] at happ
      obtain ⟨c, b, post, d', bd, ret', hpc, hprep, hmeta, hmeta', hexec, hview, I', hk', hh', e1, e2⟩ :=
        step_sim hs hq I hk hh h1 (hgood op (by simp))
      have hex : r.execLocalBase b =
          ({ r with opId := r.opId.next, state := .doc d' }, .ok (⟨r.opId.next, bd⟩, ret')) := by
        simp only [Replica.execLocalBase, hmeta, Bool.false_eq_true, if_false, hs, hexec]
      rw [← hview] at happ
      rcases hq' : q.execRemoteBase (Op.wire ⟨r.opId.next, bd⟩) with ⟨q', w⟩
      rw [hq'] at e1 e2
      simp only at e1 e2
      subst e2
      obtain ⟨r1, new, d1, q1, p1, p2, p3, p4, p5, p6, pt, p7, p8, p9⟩ :=
        ih { r with opId := r.opId.next, state := .doc d' }
          { q' with rbOps := q'.rbOps ++ [Op.wire ⟨r.opId.next, bd⟩] } (acc ++ [⟨r.opId.next, bd⟩]) d' tf rfl e1 I' hk' hh'
          happ (fun o ho => hgood o (by simp [ho]))
      refine ⟨r1, ⟨r.opId.next, bd⟩ :: new, d1, q1, ?_, by simp [p2], p3, p4, p5, p6, pt, ?_, ?_, p9⟩
      · rw [Replica.patch.body.eq_2]
        simp only [hs, hpc, hprep, hex]
        rw [p1]
        simp
      · rw [List.map_cons]
        exact seqFrom_cons rfl p7
      · rw [List.map_cons, applyUnit_go_cons, hq']
        exact p8

/-- **what the patch appends**, received by a replica in the same state (no assumption on the buffer) -/
theorem patch_remote_buf {r q : Replica} {d : Doc} (hs : r.state = .doc d) (hq : q.state = .doc d) (I : DP.DInv r.opId 0 d)
    (hk : KeysND d) (hh : DLR.HistOK d) {ops : List PatchOp} {tf : JVal}
    (happ : applyPatch ops d.view.canon = some tf) (hgood : ∀ op ∈ ops, Carr GoodV op) (hne : ops ≠ []) :
    ∃ d1 q1 new, (r.patch ops).2 = .ok () ∧ (r.patch ops).1.state = .doc d1 ∧ d1.view.canon = tf ∧
      (r.patch ops).1.buffer = r.buffer ++ new ∧ SeqFrom (r.opId.seq + 1) new ∧ new ≠ [] ∧
      (r.patch ops).1.cp = r.cp ∧ (r.patch ops).1.typ = r.typ ∧
      q.receive new = (q1, .ok ()) ∧ q1.state = .doc d1 := by
  match ops, happ, hgood, hne with
  | [], _, _, hne => exact absurd rfl hne
  | [op], happ, hgood, _ =>
    simp only [applyPatch] at happ
    cases h1 : applyAt op op.path d.view.canon with
    | none => simp [h1] at happ
    | some t1 =>
      simp only [h1, Option.bind_some, Option.some.injEq] at happ
      subst happ
      obtain ⟨c, b, post, d', bd, ret', hpc, hprep, hmeta, hmeta', hexec, hview, I', hk', hh', e1, e2⟩ :=
        step_sim hs hq I hk hh h1 (hgood op (by simp))
      have hprep' : c.prepare r.state = .op b post := by rw [hs]; exact hprep
      have hexec' : execLocal r.state r.opId.next.ts b = .ok (.doc d', bd, ret') := by rw [hs]; exact hexec
      have hcall := DP.call_of_ok hprep' hmeta hexec'
      have hp : r.patch [op] = ({ r with opId := r.opId.next, state := .doc d', rbOps := r.rbOps ++ [⟨r.opId.next, bd⟩], buffer := r.buffer ++ [Op.wire ⟨r.opId.next, bd⟩] }, .ok ()) := by
        simp only [Replica.patch, hs, hpc, hcall]
      rw [hp]
      rcases hq' : q.execRemoteBase (Op.wire ⟨r.opId.next, bd⟩) with ⟨q', w⟩
      rw [hq'] at e1 e2
      simp only at e1 e2
      subst e2
      refine ⟨d', { q' with rbOps := q'.rbOps ++ [Op.wire ⟨r.opId.next, bd⟩] }, [Op.wire ⟨r.opId.next, bd⟩],
        rfl, rfl, hview, rfl, ?_, by simp, rfl, rfl, ?_, e1⟩
      · exact seqFrom_cons rfl (seqFrom_nil _)
      · rw [receive_single _ _ (by show bd.wire.isMeta = false; rw [wire_isMeta]; exact hmeta'), hq']
  | o1 :: o2 :: rest, happ, hgood, _ =>
    obtain ⟨r1, new, d1, q1, p1, p2, p3, p4, p5, p6, pt, p7, p8, p9⟩ :=
      body_sim_typ (o1 :: o2 :: rest) { r with opId := r.opId.next } q [] d tf hs hq I.finish hk hh happ hgood
    simp only [List.nil_append] at p1
    have hp : r.patch (o1 :: o2 :: rest) =
        ({ r1 with
            rbOps := r1.rbOps ++ (⟨r.opId.next, .transaction (toString (o1 :: o2 :: rest).length ++ " patches") (new.length + 1)⟩ :: new),
            buffer := r1.buffer ++
              (⟨r.opId.next, .transaction (toString (o1 :: o2 :: rest).length ++ " patches") (new.length + 1)⟩ :: new).map Op.wire },
          .ok ()) := by
      rw [Replica.patch.eq_3 r (o1 :: o2 :: rest) d hs (by simp) (by intro op h; simp at h), p1]
    have p5' : r1.buffer = r.buffer := p5
    rw [hp]
    refine ⟨d1, q1, (⟨r.opId.next, .transaction (toString (o1 :: o2 :: rest).length ++ " patches") (new.length + 1)⟩ :: new).map Op.wire,
      rfl, p3, p4, ?_, ?_, by simp, p6, pt, ?_, p9⟩
    · show r1.buffer ++ _ = _
      rw [p5']
    · rw [List.map_cons]
      exact seqFrom_cons rfl p7
    · rw [List.map_cons]
      match new, p2, p8 with
      | a :: b :: tl, _, p8 =>
        have e : Op.wire ⟨r.opId.next, .transaction (toString (o1 :: o2 :: rest).length ++ " patches") (((a :: b :: tl).length : Int) + 1)⟩
            = ⟨r.opId.next, .transaction (toString (o1 :: o2 :: rest).length ++ " patches") (((a.wire :: (b :: tl).map Op.wire).length : Int) + 1)⟩ := by
          simp [Op.wire, OpBody.wire]
        rw [List.map_cons] at p8 ⊢
        rw [e, receive_unit, p8]

/-! ## 3. a snapshot operation at the head of what is received -/

theorem receive_snap (q : Replica) (id : OpId) (s : DState) (rest : List Op) :
    q.receive (⟨id, .snapshot s⟩ :: rest) =
      match q.execRemoteBase ⟨id, .snapshot s⟩ with
      | (q', none) => ({ q' with rbOps := q'.rbOps ++ [⟨id, .snapshot s⟩] } : Replica).receive rest
      | (q', some w) => (q', .panic w) := by
  rw [SN.receive_cons]
  have hb : Op.badHeader ⟨id, .snapshot s⟩ ((⟨id, .snapshot s⟩ : Op) :: rest).length = false := rfl
  have hu : Op.unitLen ⟨id, .snapshot s⟩ = 1 := rfl
  rw [hb, hu]
  simp only [Bool.false_eq_true, if_false, List.take_succ_cons, List.take_zero, List.drop_succ_cons, List.drop_zero]
  show (match Replica.applyUnit.go q [⟨id, .snapshot s⟩] with | (r', .ok ()) => r'.receive rest | (r', e) => (r', e)) = _
  rw [applyUnit_go_cons]
  rcases q.execRemoteBase ⟨id, .snapshot s⟩ with ⟨q', (_ | w)⟩
  · rfl
  · rfl

theorem execRemoteBase_snap (q : Replica) (dq : Doc) (hq : q.state = .doc dq) (id : OpId) (d : Doc) :
    (q.execRemoteBase ⟨id, .snapshot (.doc d)⟩).1.state = .doc d ∧ (q.execRemoteBase ⟨id, .snapshot (.doc d)⟩).2 = none := by
  unfold Replica.execRemoteBase
  simp [hq, execRemote]

end replica

/-! ## 4./5. the server side -/

section server
open SL SN

/-- the whole result of the endpoint when the script is not empty -/
theorem run_full {st : Store} {col : CollectionDoc} {w : WDt} {target : JVal}
    (hok : (w.rep.patchByJSON target).2.2 = .ok ()) (hne : (w.rep.patchByJSON target).2.1 ≠ []) :
    run st col w target =
      ((processPack st ⟨patchApiCuid, "ordaPatchAPI", col.num, 2, 0⟩ col
          ({ w with rep := (w.rep.patchByJSON target).1 }).createPack).store,
       .ok (viewOf (w.rep.patchByJSON target).1),
       (processPack st ⟨patchApiCuid, "ordaPatchAPI", col.num, 2, 0⟩ col
          ({ w with rep := (w.rep.patchByJSON target).1 }).createPack).notif.toList,
       if (processPack st ⟨patchApiCuid, "ordaPatchAPI", col.num, 2, 0⟩ col
          ({ w with rep := (w.rep.patchByJSON target).1 }).createPack).pushed > 0
       then [((processPack st ⟨patchApiCuid, "ordaPatchAPI", col.num, 2, 0⟩ col
          ({ w with rep := (w.rep.patchByJSON target).1 }).createPack).resp.duid, col.num)] else []) := by
  unfold run
  rcases hp : w.rep.patchByJSON target with ⟨r2, ops, o⟩
  rw [hp] at hok hne
  simp only at hok hne
  subst hok
  have : ops.isEmpty = false := by cases ops <;> simp_all
  simp only [this, Bool.false_eq_true, if_false]

/-- the store after the volatile admin client created the datatype of pack `p` -/
def created (st : Store) (col : CollectionDoc) (p : Pack) : Store :=
  { st with operations := st.operations ++ mkDocs p.duid col.num 0 p.ops,
            datatypes := upsertDatatype { duid := p.duid, key := p.key, colNum := col.num, typ := p.typ,
                                          sseqEnd := 0 + p.ops.length } st.datatypes }

/-- **the create pack is accepted**: the key is absent, the id is fresh, the operations carry the client sequence numbers
    1, 2, … : the datatype document is created, all operations are stored from sseq 1, one notification with the end of the
    log is produced -/
theorem processPack_admin_create (st : Store) (col : CollectionDoc) (p : Pack)
    (hkey : st.getDatatypeByKey col.num p.key = none) (hfresh : st.getDatatype p.duid = none)
    (hc : p.create = true) (hsu : p.subscribe = false) (hro : p.readOnly = false)
    (hseq : SeqFrom 1 p.ops) (hne : p.ops ≠ []) :
    (processPack st ⟨patchApiCuid, "ordaPatchAPI", col.num, 2, 0⟩ col p).store = created st col p ∧
    (processPack st ⟨patchApiCuid, "ordaPatchAPI", col.num, 2, 0⟩ col p).notif =
      some ⟨col.name ++ "/" ++ p.key, patchApiCuid, p.duid, 0 + p.ops.length⟩ ∧
    (processPack st ⟨patchApiCuid, "ordaPatchAPI", col.num, 2, 0⟩ col p).pushed = p.ops.length ∧
    (processPack st ⟨patchApiCuid, "ordaPatchAPI", col.num, 2, 0⟩ col p).resp.duid = p.duid := by
  have hev : evalCase st col patchApiCuid p = (.matchNothing, none) := by
    unfold evalCase
    simp [hc, hkey, hfresh]
  have hdsp : dsp st ⟨patchApiCuid, "ordaPatchAPI", col.num, 2, 0⟩ col p = .create := by
    have hdis : dispatch PPCase.matchNothing true false true = .create := by decide
    unfold dsp
    simp [hev, hc, hsu, sameDuid, hdis]
  have hpush : pushRes ⟨patchApiCuid, "ordaPatchAPI", col.num, 2, 0⟩ col p .create
      { duid := p.duid, key := p.key, colNum := col.num, typ := p.typ } =
      .ok (⟨0 + p.ops.length, 0 + p.ops.length⟩, [] ++ mkDocs p.duid col.num 0 p.ops) := by
    unfold pushRes
    simp only [hro, Bool.false_eq_true, if_false, opDuid, cp1, cp0, DatatypeDoc.sub, alFind, reduceCtorEq]
    exact pushOps_accept p.duid col.num p.ops ⟨0, 0⟩ [] hseq
  have hemp : (mkDocs p.duid col.num 0 p.ops).isEmpty = false := by
    cases hp : p.ops with
    | nil => exact absurd hp hne
    | cons o os => rfl
  rw [processPack_eq]
  simp only [hro, Bool.false_and, Bool.false_eq_true, if_false, hdsp, docOf, finish, hpush]
  refine ⟨?_, ?_, ?_, ?_⟩
  · simp only [okR, doc2, cp3, pulled, if_true, List.getLast?_nil, hro, Bool.false_eq_true, if_false, List.nil_append, created]
  · simp only [okR, cp3, pulled, if_true, List.getLast?_nil, List.nil_append, hemp, Bool.false_eq_true, if_false]
  · simp only [okR, List.nil_append, mkDocs_length]
  · simp [okR, resp1, resp0]

theorem upsert_fresh {d : DatatypeDoc} : ∀ {l : List DatatypeDoc}, (∀ x ∈ l, x.duid ≠ d.duid) → upsertDatatype d l = l ++ [d]
  | [], _ => rfl
  | x :: xs, h => by
    unfold upsertDatatype
    rw [if_neg (h x List.mem_cons_self), upsert_fresh (fun y hy => h y (List.mem_cons_of_mem _ hy))]
    rfl

/-- **the latest state of the created datatype**: no stored snapshot carries the fresh id, no stored operation either: the
    rebuild is a fresh server replica receiving exactly the pushed operations -/
theorem latest_created {st : Store} {col : CollectionDoc} {p : Pack} (hlog : LogInv st)
    (hfresh : st.getDatatype p.duid = none) (hsnap : ∀ s ∈ st.snapshots, s.duid ≠ p.duid) :
    (created st col p).latest { duid := p.duid, key := p.key, colNum := col.num, typ := p.typ, sseqEnd := 0 + p.ops.length } =
      match ({ Replica.new p.typ "server" false with opId := ⟨0, 1, "server", 0⟩ } : Replica).receive p.ops with
      | (r, .ok ()) => some (r, 0 + p.ops.length)
      | _ => none := by
  have hnone : st.opsOf p.duid = [] := opsOf_nil_of_fresh hlog (getDatatype_none hfresh)
  have hops : (created st col p).opsOf p.duid = mkDocs p.duid col.num 0 p.ops := by
    unfold Store.opsOf created
    simp only [List.filter_append]
    have h1 : st.operations.filter (fun o => decide (o.duid = p.duid)) = [] := hnone
    rw [h1, List.nil_append]
    exact List.filter_eq_self.2 (fun o ho => by simp [(mkDocs_mem _ _ _ _ o ho).1])
  have gap' : ((created st col p).opsOf p.duid).map (·.sseq) = List.range' 1 (0 + p.ops.length) := by
    simp only [hops, mkDocs_sseq, Nat.zero_add]
  have hget := getOperations_drop gap' 0
  rw [hops, List.drop_zero] at hget
  have hsn : snapsOf (created st col p)
      { duid := p.duid, key := p.key, colNum := col.num, typ := p.typ, sseqEnd := 0 + p.ops.length } = [] := by
    unfold snapsOf created
    exact List.filter_eq_nil_iff.2 (fun s hs => by simp [hsnap s hs])
  have hbase : base (created st col p)
      { duid := p.duid, key := p.key, colNum := col.num, typ := p.typ, sseqEnd := 0 + p.ops.length } =
      ({ Replica.new p.typ "server" false with opId := ⟨0, 1, "server", 0⟩ }, 0) := by
    unfold base
    rw [hsn]
    rfl
  rw [latest_eq, hbase]
  show (match ({ Replica.new p.typ "server" false with opId := ⟨0, 1, "server", 0⟩ } : Replica).receive
      (((created st col p).getOperations p.duid (0 + 1)).map (·.op)) with
    | (r, .ok ()) => some (r, verOf ((created st col p).getOperations p.duid (0 + 1)) 0)
    | _ => none) = _
  rw [hget, mkDocs_ops]
  have hseq : IsSeq (mkDocs p.duid col.num 0 p.ops) (0 + 1) := by
    unfold IsSeq; rw [mkDocs_sseq, mkDocs_length]
  rw [hseq.verOf, mkDocs_length]

end server

/-! ## 6. the theorems -/

/-- the EMPTY-object target on a key that does not exist: the script is empty, the endpoint answers OK with `{}` and stores
    NOTHING — no datatype record, no operation (the snapshot operation of the temporary replica is dropped), no notification,
    no snapshot job.  The document is NOT created. -/
theorem patchDocument_create_empty_target_stores_nothing
    (st : Store) (colName key tmpDuid tmpCuid : String) (col : CollectionDoc)
    (hc : st.getCollection colName = some col) (hd : st.getDatatypeByKey col.num key = none) :
    st.patchDocument colName key (.obj []) tmpDuid tmpCuid = (st, .ok (.obj []), [], []) := by
  rw [patchDocument_eq]
  simp only [hc, hd]
  have hs : (Replica.new .document tmpCuid true).state = .doc Doc.empty := rfl
  have hpe := DPatch.patchByJSON_eq hs (.obj [])
  have h1 : ((Replica.new .document tmpCuid true).patchByJSON (.obj [])).2.2 = .ok () := by
    rw [hpe, script_nil, DPatch.patch_nil hs]
  have h2 : ((Replica.new .document tmpCuid true).patchByJSON (.obj [])).2.1 = [] := by rw [hpe, script_nil]
  have h3 : ((Replica.new .document tmpCuid true).patchByJSON (.obj [])).1 = Replica.new .document tmpCuid true := by
    rw [hpe, script_nil, DPatch.patch_nil hs]
  rw [run_store_nil h1 h2, h3]
  have hv : viewOf (Replica.new .document tmpCuid true) = .obj [] := by
    show Doc.empty.view = .obj []
    decide +kernel
  rw [hv]

/-- the key does not exist, the target is a non-empty object: the document is CREATED and STORED.
    Named hypotheses: `hlog` (C06), `hfresh` (the random datatype id is not in use), `hsnap` (no stored snapshot carries it —
    follows from `SN.SnapNoOrphan st`, see `snap_fresh`), `hne` (the target is not the empty object).
    `n` is the number of stored operations (the snapshot operation + the patch unit) = the new end of the log. -/
theorem patchDocument_creates_and_stores_target
    (st : Store) (colName key tmpDuid tmpCuid : String) (col : CollectionDoc)
    (hc : st.getCollection colName = some col) (hd : st.getDatatypeByKey col.num key = none)
    (hlog : LogInv st) (hfresh : st.getDatatype tmpDuid = none) (hsnap : ∀ s ∈ st.snapshots, s.duid ≠ tmpDuid)
    (tgt : List (String × JVal)) (hn : (JVal.obj tgt).hasNull = false) (hk : DC.JKeysND (.obj tgt)) (hne : tgt ≠ []) :
    ∃ (st' : Store) (v : JVal) (n : Nat) (nd : List OpDoc) (r' : Replica),
      st.patchDocument colName key (.obj tgt) tmpDuid tmpCuid =
        (st', .ok v, [⟨col.name ++ "/" ++ key, patchApiCuid, tmpDuid, n⟩], [(tmpDuid, col.num)]) ∧
      v.canon = (JVal.obj tgt).canon ∧ 2 ≤ n ∧
      st'.operations = st.operations ++ nd ∧ nd.length = n ∧ (∀ o ∈ nd, o.duid = tmpDuid ∧ o.colNum = col.num) ∧
      nd.map (·.sseq) = List.range' 1 n ∧
      st'.getDatatypeByKey col.num key =
        some { duid := tmpDuid, key := key, colNum := col.num, typ := .document, sseqEnd := n } ∧
      st'.latest { duid := tmpDuid, key := key, colNum := col.num, typ := .document, sseqEnd := n } = some (r', n) ∧
      (∃ dd, r'.state = .doc dd ∧ dd.view.canon = (JVal.obj tgt).canon) := by
  have _ := hk
  rw [patchDocument_eq]
  simp only [hc, hd]
  have hinv := DP.docInv_new tmpCuid true
  have hs : (Replica.new .document tmpCuid true).state = .doc Doc.empty := rfl
  obtain ⟨I, hkeys⟩ := DPatch.inv_of hs hinv
  obtain ⟨happ, hgood⟩ := DPatch.script_ok I hkeys tgt hn
  have hpe := DPatch.patchByJSON_eq hs (.obj tgt)
  have hnil := script_ne_nil hne
  -- the server's fresh replica after the snapshot operation
  obtain ⟨e1, e2⟩ := execRemoteBase_snap
    ({ Replica.new .document "server" false with opId := ⟨0, 1, "server", 0⟩ } : Replica) Doc.empty rfl
    (OpId.new tmpCuid).next Doc.empty
  rcases hq0 : ({ Replica.new .document "server" false with opId := ⟨0, 1, "server", 0⟩ } : Replica).execRemoteBase
      ⟨(OpId.new tmpCuid).next, .snapshot (.doc Doc.empty)⟩ with ⟨q', w⟩
  rw [hq0] at e1 e2
  simp only at e1 e2
  subst e2
  obtain ⟨d1, q1, new, p1, p2, p3, p4, p5, p6, p7, p8, p9, p10⟩ :=
    patch_remote_buf (q := { q' with rbOps := q'.rbOps ++ [⟨(OpId.new tmpCuid).next, .snapshot (.doc Doc.empty)⟩] })
      hs e1 I hkeys DLR.histOK_empty happ hgood hnil
  have h1 : ((Replica.new .document tmpCuid true).patchByJSON (.obj tgt)).2.2 = .ok () := by rw [hpe]; exact p1
  have h2 : ((Replica.new .document tmpCuid true).patchByJSON (.obj tgt)).2.1 ≠ [] := by rw [hpe]; exact hnil
  rw [run_full h1 h2]
  have hr2 : ((Replica.new .document tmpCuid true).patchByJSON (.obj tgt)).1 =
      ((Replica.new .document tmpCuid true).patch (jsonDiff Doc.empty.view.canon (JVal.obj tgt).canon)).1 := by rw [hpe]
  rw [hr2]
  generalize ((Replica.new .document tmpCuid true).patch (jsonDiff Doc.empty.view.canon (JVal.obj tgt).canon)).1 = r2
    at p2 p4 p7 p8
  -- the buffer of the patched replica: the snapshot operation, then the patch unit
  have hbuf : r2.buffer = ⟨(OpId.new tmpCuid).next, .snapshot (.doc Doc.empty)⟩ :: new := p4
  have hseq1 : SeqFrom (0 + 1) r2.buffer := by
    rw [hbuf]; exact seqFrom_cons rfl p5
  have hpend : r2.pending = r2.buffer := pending_eq (by rw [hbuf]; simp) hseq1 (by rw [p7]; rfl)
  have hlen : 2 ≤ r2.buffer.length := by
    rw [hbuf]
    cases new with
    | nil => exact absurd rfl p6
    | cons a tl => simp
  have hops : (({ rep := r2, key := key, duid := tmpDuid, dstate := .dueToCreate } : WDt).createPack).ops = r2.buffer := hpend
  obtain ⟨hst, hnot, hpu, hdu⟩ := processPack_admin_create st col
    ({ rep := r2, key := key, duid := tmpDuid, dstate := .dueToCreate } : WDt).createPack
    hd hfresh (by simp [WDt.createPack]) (by simp [WDt.createPack]) rfl
    (by rw [hops]; exact hseq1) (by rw [hops, hbuf]; simp)
  rw [hst, hnot, hpu, hdu, hops]
  have hlat := latest_created (st := st) (col := col)
    (p := ({ rep := r2, key := key, duid := tmpDuid, dstate := .dueToCreate } : WDt).createPack) hlog hfresh hsnap
  rw [hops] at hlat
  have htyp : (({ rep := r2, key := key, duid := tmpDuid, dstate := .dueToCreate } : WDt).createPack).typ = .document := p8
  rw [htyp] at hlat
  have hrecv : ({ Replica.new .document "server" false with opId := ⟨0, 1, "server", 0⟩ } : Replica).receive r2.buffer =
      (q1, .ok ()) := by
    rw [hbuf, receive_snap, hq0]
    exact p9
  rw [hrecv] at hlat
  refine ⟨created st col ({ rep := r2, key := key, duid := tmpDuid, dstate := .dueToCreate } : WDt).createPack, viewOf r2,
    0 + r2.buffer.length, mkDocs tmpDuid col.num 0 r2.buffer, q1, ?_, ?_, by omega, ?_, ?_, ?_, ?_, ?_, ?_, d1, p10, p3⟩
  · have hpos : r2.buffer.length > 0 := by omega
    simp only [hpos, if_true, Option.toList]
    rfl
  · simp only [viewOf, p2]
    exact p3
  · show (created st col _).operations = _
    unfold created
    simp only [hops]
    rfl
  · rw [mkDocs_length, Nat.zero_add]
  · exact mkDocs_mem _ _ _ _
  · simp only [mkDocs_sseq, Nat.zero_add]
  · show (created st col _).getDatatypeByKey col.num key = _
    unfold created Store.getDatatypeByKey
    simp only [hops, htyp]
    rw [upsert_fresh (SL.getDatatype_none hfresh), List.find?_append]
    have : st.datatypes.find? (fun d => decide (d.colNum = col.num ∧ d.key = key)) = none := hd
    rw [this]
    simp [WDt.createPack]
  · have e : (created st col ({ rep := r2, key := key, duid := tmpDuid, dstate := .dueToCreate } : WDt).createPack) =
        created st col ({ rep := r2, key := key, duid := tmpDuid, dstate := .dueToCreate } : WDt).createPack := rfl
    exact hlat

/-- `hsnap` from "every stored snapshot belongs to a datatype document" -/
theorem snap_fresh {st : Store} {tmpDuid : String} (h : SN.SnapNoOrphan st) (hfresh : st.getDatatype tmpDuid = none) :
    ∀ s ∈ st.snapshots, s.duid ≠ tmpDuid := by
  intro s hs e
  obtain ⟨d, hd, hds⟩ := h s hs
  exact SL.getDatatype_none hfresh d hd (hds.trans e)

/-! ## 7. non-vacuity: the store of `RestP.Ex` (collection "col", one document "k" with three stored operations), a NEW key
"n", a target with an array nested in an array and an object nested in an array -/

namespace ExC
open Ex

def tgtC : List (String × JVal) :=
  [("m", .arr [.arr [.num 1, .num 2], .obj [("y", .str "z")], .num 7]), ("b", .bool true)]

theorem hdC : st3.getDatatypeByKey col.num "n" = none := Option.isNone_iff_eq_none.1 (by decide +kernel)
theorem hfreshC : st3.getDatatype "dX" = none := Option.isNone_iff_eq_none.1 (by decide +kernel)
theorem hsnapC : ∀ s ∈ st3.snapshots, s.duid ≠ "dX" := by
  have h : st3.snapshots = [] := List.isEmpty_iff.1 (by decide +kernel)
  intro s hs
  rw [h] at hs
  cases hs
theorem tgtC_nonull : (JVal.obj tgtC).hasNull = false := by decide +kernel
theorem tgtC_keys : DC.JKeysND (.obj tgtC) := by simp [tgtC, DC.JKeysND, DC.JKeysNDKvs, DC.JKeysNDList]
theorem tgtC_canon : (JVal.obj tgtC).canon =
    .obj [("b", .bool true), ("m", .arr [.arr [.num 1, .num 2], .obj [("y", .str "z")], .num 7])] := by decide +kernel

/-- `patchDocument_creates_and_stores_target` instantiated, all hypotheses discharged, the value written out -/
example : ∃ (st' : Store) (v : JVal) (n : Nat) (nd : List OpDoc) (r' : Replica),
      st3.patchDocument "col" "n" (.obj tgtC) "dX" "tmp" =
        (st', .ok v, [⟨col.name ++ "/" ++ "n", patchApiCuid, "dX", n⟩], [("dX", col.num)]) ∧
      v.canon = .obj [("b", .bool true), ("m", .arr [.arr [.num 1, .num 2], .obj [("y", .str "z")], .num 7])] ∧ 2 ≤ n ∧
      st'.operations = st3.operations ++ nd ∧ nd.length = n ∧ (∀ o ∈ nd, o.duid = "dX" ∧ o.colNum = col.num) ∧
      nd.map (·.sseq) = List.range' 1 n ∧
      st'.getDatatypeByKey col.num "n" =
        some { duid := "dX", key := "n", colNum := col.num, typ := .document, sseqEnd := n } ∧
      st'.latest { duid := "dX", key := "n", colNum := col.num, typ := .document, sseqEnd := n } = some (r', n) ∧
      (∃ dd, r'.state = .doc dd ∧
        dd.view.canon = .obj [("b", .bool true), ("m", .arr [.arr [.num 1, .num 2], .obj [("y", .str "z")], .num 7])]) :=
  tgtC_canon ▸ patchDocument_creates_and_stores_target st3 "col" "n" "dX" "tmp" col hc hdC hlog hfreshC hsnapC
    tgtC tgtC_nonull tgtC_keys (by simp [tgtC])

/-- the result written out (kernel-evaluated): the answer, ONE notification on topic "col/n" with the new end of the log 4
    (snapshot operation + a transaction header + two operations), ONE snapshot job -/
example : (st3.patchDocument "col" "n" (.obj tgtC) "dX" "tmp").2 =
    (.ok (.obj [("b", .bool true), ("m", .arr [.arr [.num 1, .num 2], .obj [("y", .str "z")], .num 7])]),
     [⟨"col/n", patchApiCuid, "dX", 4⟩], [("dX", 1)]) := by decide +kernel

/-- the stored operations afterwards: the three of document "k", then four under the new id from sseq 1, cseq 1 -/
example : (st3.patchDocument "col" "n" (.obj tgtC) "dX" "tmp").1.operations.map (fun o => (o.sseq, o.duid, o.op.id.seq)) =
    [(1, "duid1", 1), (2, "duid1", 2), (3, "duid1", 3), (1, "dX", 1), (2, "dX", 2), (3, "dX", 3), (4, "dX", 4)] := by
  decide +kernel

/-- the empty-object target on the new key: answered `{}`, nothing stored -/
example : st3.patchDocument "col" "n" (.obj []) "dX" "tmp" = (st3, .ok (.obj []), [], []) :=
  patchDocument_create_empty_target_stores_nothing st3 "col" "n" "dX" "tmp" col hc hdC

end ExC

end Orda.RestP
