/-
LWW map and counter: the replica state after any (causal) application order is the
order-independent specification (`Spec.mapGet`, `Spec.mapView`, `Spec.counter`); hence convergence.

Core Lean only (no Mathlib import needed).
-/
import Orda.Spec.Denote
import Orda.Proofs.HashCmp
namespace Orda

/-- remote application of one operation to a map snapshot (what ExecuteRemote does; errors are dropped) -/
def mapApply (m : LwwMap) (o : Op) : LwwMap :=
  match o.body with
  | .put k v => (m.putCommon k v o.id.ts).1
  | .remove k => (m.removeRemote k o.id.ts).1
  | _ => m

def mapApplyAll (m : LwwMap) (ops : List Op) : LwwMap := ops.foldl mapApply m

def isMapOp (o : Op) : Bool := match o.body with | .put _ _ | .remove _ => true | _ => false
def keyOf (o : Op) : String := match o.body with | .put k _ | .remove k => k | _ => ""

/-- causal delivery for a map: a remove of key k is only ever applied after some put of k
    (a client can only remove a key it sees) -/
def MapCausal (ops : List Op) : Prop :=
  ∀ i (hi : i < ops.length), ∀ k, (ops[i]).body = .remove k →
    ∃ j, ∃ hj : j < i, ∃ v, (ops[j]'(by omega)).body = .put k v

/-- distinct operations carry timestamps that Compare tells apart (unique (era, lamport, client id)) -/
def DistinctTs (ops : List Op) : Prop :=
  ops.Pairwise (fun a b => a.id.ts.cmp b.id.ts ≠ .eq)

/-- structural invariant of a map snapshot -/
def LwwMap.WF (m : LwwMap) : Prop :=
  (m.entries.map (·.1)).Nodup ∧ m.size = ((m.entries.filter (fun e => e.2.v.isSome)).length : Int)

/-! ### `Ts.cmp` as a strict weak order -/

theorem cmp_neg_trans (a b c : Ts) (h : a.cmp c = .lt) : a.cmp b = .lt ∨ b.cmp c = .lt := by
  cases hab : a.cmp b with
  | lt => exact Or.inl rfl
  | eq =>
    right
    have hk := (cmp_eq_iff a b).mp hab
    rw [← cmp_congr_key a b c c hk rfl]; exact h
  | gt => exact Or.inr (cmp_lt_trans b a c ((cmp_gt_iff_lt a b).mp hab) h)

theorem cmp_eq_symm (a b : Ts) (h : a.cmp b = .eq) : b.cmp a = .eq :=
  (cmp_eq_iff b a).mpr ((cmp_eq_iff a b).mp h).symm

/-! ### `Spec.maxBy` -/

section maxBy
variable {α : Type} (key : α → Ts)

theorem maxBy_eq_none (l : List α) : Spec.maxBy key l = none ↔ l = [] := by
  cases l with
  | nil => simp [Spec.maxBy]
  | cons x xs =>
    simp only [Spec.maxBy]
    split
    · simp
    · split <;> simp

/-- appending one element: it wins iff it is strictly newer than the previous winner -/
theorem maxBy_snoc (xs : List α) (x : α) :
    Spec.maxBy key (xs ++ [x]) =
      match Spec.maxBy key xs with
      | none => some x
      | some y => if (key y).cmp (key x) == .lt then some x else some y := by
  induction xs with
  | nil => simp [Spec.maxBy]
  | cons a xs ih =>
    simp only [List.cons_append, Spec.maxBy, ih]
    cases h : Spec.maxBy key xs with
    | none => simp
    | some y =>
      by_cases h1 : (key y).cmp (key x) = .lt <;> by_cases h2 : (key a).cmp (key y) = .lt
      · have h3 := cmp_lt_trans _ _ _ h2 h1
        simp [h1, h2, h3]
      · simp [h1, h2]
      · simp [h1, h2]
      · have h3 : (key a).cmp (key x) ≠ .lt := fun h3 =>
          (cmp_neg_trans _ (key y) _ h3).elim h2 h1
        simp [h1, h2, h3]

/-- the result is a member that nothing in the list beats -/
theorem maxBy_spec : ∀ (l : List α) (y : α), Spec.maxBy key l = some y →
    y ∈ l ∧ ∀ z ∈ l, (key y).cmp (key z) ≠ .lt := by
  intro l
  induction l with
  | nil => intro y h; simp [Spec.maxBy] at h
  | cons x xs ih =>
    intro y h
    simp only [Spec.maxBy] at h
    cases h0 : Spec.maxBy key xs with
    | none =>
      rw [h0] at h
      have hx : xs = [] := (maxBy_eq_none key xs).mp h0
      simp only [Option.some.injEq] at h
      subst h; subst hx
      refine ⟨by simp, ?_⟩
      intro z hz
      simp only [List.mem_singleton] at hz
      subst hz
      exact cmp_lt_irrefl _
    | some y0 =>
      rw [h0] at h
      obtain ⟨hm, hmax⟩ := ih y0 h0
      by_cases c : (key x).cmp (key y0) = .lt
      · simp only [c, beq_self_eq_true, if_true, Option.some.injEq] at h
        subst h
        refine ⟨List.mem_cons_of_mem _ hm, ?_⟩
        intro z hz
        rcases List.mem_cons.mp hz with rfl | hz
        · intro h'
          have := (cmp_gt_iff_lt (key z) (key y0)).mpr h'
          rw [c] at this; cases this
        · exact hmax z hz
      · have c' : ((key x).cmp (key y0) == Ordering.lt) = false := by
          cases hc : (key x).cmp (key y0) <;> simp_all
        simp only [c', Bool.false_eq_true, if_false, Option.some.injEq] at h
        subst h
        refine ⟨by simp, ?_⟩
        intro z hz
        rcases List.mem_cons.mp hz with rfl | hz
        · exact cmp_lt_irrefl _
        · intro h'
          exact (cmp_neg_trans _ (key y0) _ h').elim c (hmax z hz)

/-- members of a list with pairwise distinguishable keys that compare equal are the same member -/
theorem eq_of_cmp_eq_of_pairwise : ∀ (l : List α),
    l.Pairwise (fun a b => (key a).cmp (key b) ≠ .eq) →
    ∀ a ∈ l, ∀ b ∈ l, (key a).cmp (key b) = .eq → a = b := by
  intro l
  induction l with
  | nil => intro _ a ha; cases ha
  | cons x xs ih =>
    intro hp a ha b hb hab
    rw [List.pairwise_cons] at hp
    rcases List.mem_cons.mp ha with rfl | ha' <;> rcases List.mem_cons.mp hb with rfl | hb'
    · rfl
    · exact absurd hab (hp.1 b hb')
    · exact absurd (cmp_eq_symm _ _ hab) (hp.1 a ha')
    · exact ih hp.2 a ha' b hb' hab

/-- with pairwise distinguishable keys the maximum does not depend on the order -/
theorem maxBy_perm (l l' : List α) (hp : l.Perm l')
    (hd : l.Pairwise (fun a b => (key a).cmp (key b) ≠ .eq)) :
    Spec.maxBy key l = Spec.maxBy key l' := by
  cases h : Spec.maxBy key l with
  | none =>
    have hl : l = [] := (maxBy_eq_none key l).mp h
    subst hl
    have : l' = [] := List.Perm.eq_nil hp.symm
    subst this
    rfl
  | some y =>
    cases h' : Spec.maxBy key l' with
    | none =>
      have hl : l' = [] := (maxBy_eq_none key l').mp h'
      subst hl
      have : l = [] := List.Perm.eq_nil hp
      subst this
      simp [Spec.maxBy] at h
    | some y' =>
      obtain ⟨hm, hmax⟩ := maxBy_spec key l y h
      obtain ⟨hm', hmax'⟩ := maxBy_spec key l' y' h'
      have hy'l : y' ∈ l := hp.mem_iff.mpr hm'
      have hyl' : y ∈ l' := hp.mem_iff.mp hm
      have n1 := hmax y' hy'l
      have n2 := hmax' y hyl'
      cases hc : (key y).cmp (key y') with
      | lt => exact absurd hc n1
      | gt => exact absurd ((cmp_gt_iff_lt _ _).mp hc) n2
      | eq => rw [eq_of_cmp_eq_of_pairwise key l hd y hm y' hy'l hc]

end maxBy

/-! ### association lists -/

section alist
variable {α : Type}

theorem alFind_alSet (k k' : String) (e : α) (l : List (String × α)) :
    alFind k' (alSet k e l) = if k = k' then some e else alFind k' l := by
  induction l with
  | nil => simp [alSet, alFind]
  | cons x xs ih =>
    obtain ⟨k0, e0⟩ := x
    simp only [alSet]
    by_cases h0 : k0 = k
    · subst h0
      simp only [if_true, alFind]
      by_cases h1 : k0 = k' <;> simp [h1]
    · simp only [h0, if_false, alFind, ih]
      by_cases h1 : k0 = k'
      · subst h1
        simp [Ne.symm h0]
      · simp [h1]

theorem alFind_none_iff (k : String) (l : List (String × α)) :
    alFind k l = none ↔ k ∉ l.map (·.1) := by
  induction l with
  | nil => simp [alFind]
  | cons x xs ih =>
    obtain ⟨k0, e0⟩ := x
    simp only [alFind, List.map_cons, List.mem_cons, not_or]
    by_cases h : k0 = k
    · simp [h]
    · simp [h, ih, Ne.symm h]

theorem alFind_some_mem (k : String) (e : α) (l : List (String × α)) (h : alFind k l = some e) :
    (k, e) ∈ l := by
  induction l with
  | nil => simp [alFind] at h
  | cons x xs ih =>
    obtain ⟨k0, e0⟩ := x
    simp only [alFind] at h
    by_cases h0 : k0 = k
    · simp only [h0, if_true, Option.some.injEq] at h
      subst h; subst h0; simp
    · simp only [h0, if_false] at h
      exact List.mem_cons_of_mem _ (ih h)

theorem alFind_of_mem (k : String) (e : α) (l : List (String × α)) (hnd : (l.map (·.1)).Nodup)
    (h : (k, e) ∈ l) : alFind k l = some e := by
  induction l with
  | nil => cases h
  | cons x xs ih =>
    obtain ⟨k0, e0⟩ := x
    simp only [List.map_cons, List.nodup_cons] at hnd
    simp only [alFind]
    rcases List.mem_cons.mp h with h | h
    · simp only [Prod.mk.injEq] at h
      simp [h.1, h.2]
    · have hne : k0 ≠ k := by
        intro hk
        apply hnd.1
        rw [hk]
        exact List.mem_map.mpr ⟨(k, e), h, rfl⟩
      simp only [hne, if_false]
      exact ih hnd.2 h

theorem alSet_of_none (k : String) (e : α) (l : List (String × α)) (h : alFind k l = none) :
    alSet k e l = l ++ [(k, e)] := by
  induction l with
  | nil => simp [alSet]
  | cons x xs ih =>
    obtain ⟨k0, e0⟩ := x
    simp only [alFind] at h
    by_cases h0 : k0 = k
    · simp [h0] at h
    · simp only [h0, if_false] at h
      simp [alSet, h0, ih h]

theorem alSet_keys_of_some (k : String) (e old : α) (l : List (String × α))
    (h : alFind k l = some old) : (alSet k e l).map (·.1) = l.map (·.1) := by
  induction l with
  | nil => simp [alFind] at h
  | cons x xs ih =>
    obtain ⟨k0, e0⟩ := x
    simp only [alFind] at h
    by_cases h0 : k0 = k
    · simp [alSet, h0]
    · simp only [h0, if_false] at h
      simp [alSet, h0, ih h]

/-- replacing the binding of a key changes a count of bindings by (new) − (old) -/
theorem alSet_count_of_some (p : α → Bool) (k : String) (e old : α) (l : List (String × α))
    (h : alFind k l = some old) :
    ((alSet k e l).filter (fun x => p x.2)).length + (if p old then 1 else 0) =
      (l.filter (fun x => p x.2)).length + (if p e then 1 else 0) := by
  induction l with
  | nil => simp [alFind] at h
  | cons x xs ih =>
    obtain ⟨k0, e0⟩ := x
    simp only [alFind] at h
    by_cases h0 : k0 = k
    · simp only [h0, if_true, Option.some.injEq] at h
      subst h
      simp only [alSet, h0, if_true, List.filter_cons]
      by_cases c1 : p e0 <;> by_cases c2 : p e <;> simp [c1, c2] <;> omega
    · simp only [h0, if_false] at h
      have := ih h
      simp only [alSet, h0, if_false, List.filter_cons]
      by_cases c1 : p e0 <;> simp [c1] <;> omega

end alist

/-! ### one step on a map snapshot -/

theorem putCommon_find (m : LwwMap) (k : String) (v : JVal) (ts : Ts) (k' : String) :
    ((m.putCommon k v ts).1).find k' =
      if k = k' then
        (match m.find k with
         | none => some ⟨some v, ts⟩
         | some old => if old.t.cmp ts == .lt then some ⟨some v, ts⟩ else some old)
      else m.find k' := by
  unfold LwwMap.putCommon
  cases hf : m.find k with
  | none =>
    simp only [LwwMap.find, alFind_alSet]
  | some old =>
    by_cases c : (old.t.cmp ts == .lt) = true
    · simp only [c, if_true, LwwMap.find, alFind_alSet]
    · simp only [c]
      by_cases hk : k = k'
      · subst hk; simp [hf]
      · simp [hk]

theorem removeRemote_find (m : LwwMap) (k : String) (ts : Ts) (k' : String) :
    ((m.removeRemote k ts).1).find k' =
      if k = k' then
        (match m.find k with
         | none => none
         | some old => if old.t.cmp ts == .lt then some ⟨none, ts⟩ else some old)
      else m.find k' := by
  unfold LwwMap.removeRemote
  cases hf : m.find k with
  | none =>
    by_cases hk : k = k'
    · subst hk; simp [hf]
    · simp [hk]
  | some old =>
    by_cases c : (old.t.cmp ts == .lt) = true
    · simp only [c, if_true, LwwMap.find, alFind_alSet]
    · simp only [c]
      by_cases hk : k = k'
      · subst hk; simp [hf]
      · simp [hk]

theorem wf_empty : LwwMap.empty.WF := by
  simp [LwwMap.WF, LwwMap.empty]

theorem wf_set_of_none (m : LwwMap) (k : String) (e : MEntry) (h : m.WF) (hf : m.find k = none) :
    LwwMap.WF { entries := alSet k e m.entries, size := m.size + (if e.v.isSome then 1 else 0) } := by
  obtain ⟨hnd, hsz⟩ := h
  unfold LwwMap.find at hf
  have hk := (alFind_none_iff k m.entries).mp hf
  refine ⟨?_, ?_⟩
  · simp only [alSet_of_none k e m.entries hf, List.map_append, List.map_cons, List.map_nil]
    rw [List.nodup_append]
    refine ⟨hnd, by simp, ?_⟩
    intro a ha b hb
    simp only [List.mem_singleton] at hb
    subst hb
    intro hab; subst hab; exact hk ha
  · simp only [alSet_of_none k e m.entries hf, List.filter_append, List.length_append, hsz,
      List.filter_cons, List.filter_nil]
    by_cases c : e.v.isSome <;> simp [c]

theorem wf_set_of_some (m : LwwMap) (k : String) (e old : MEntry) (h : m.WF)
    (hf : m.find k = some old) :
    LwwMap.WF { entries := alSet k e m.entries,
                size := m.size + (if e.v.isSome then 1 else 0) - (if old.v.isSome then 1 else 0) } := by
  obtain ⟨hnd, hsz⟩ := h
  unfold LwwMap.find at hf
  refine ⟨?_, ?_⟩
  · simp only [alSet_keys_of_some k e old m.entries hf]; exact hnd
  · have := alSet_count_of_some (fun (x : MEntry) => x.v.isSome) k e old m.entries hf
    simp only [hsz]
    by_cases c1 : e.v.isSome <;> by_cases c2 : old.v.isSome <;> simp [c1, c2] at this ⊢ <;> omega

theorem wf_putCommon (m : LwwMap) (k : String) (v : JVal) (ts : Ts) (h : m.WF) :
    (m.putCommon k v ts).1.WF := by
  unfold LwwMap.putCommon
  cases hf : m.find k with
  | none =>
    have := wf_set_of_none m k ⟨some v, ts⟩ h hf
    simpa using this
  | some old =>
    by_cases c : (old.t.cmp ts == .lt) = true
    · simp only [c, if_true]
      have := wf_set_of_some m k ⟨some v, ts⟩ old h hf
      cases hv : old.v with
      | none => simpa [hv] using this
      | some w =>
        simp only [hv, Option.isSome_some, if_true, Option.isNone_some] at this ⊢
        have e : m.size + 1 - 1 = m.size := by omega
        rw [e] at this
        simpa using this
    · simp only [c]; exact h

theorem wf_removeRemote (m : LwwMap) (k : String) (ts : Ts) (h : m.WF) :
    (m.removeRemote k ts).1.WF := by
  unfold LwwMap.removeRemote
  cases hf : m.find k with
  | none => exact h
  | some old =>
    by_cases c : (old.t.cmp ts == .lt) = true
    · simp only [c, if_true]
      have := wf_set_of_some m k ⟨none, ts⟩ old h hf
      cases hv : old.v with
      | none => simpa [hv] using this
      | some w => simpa [hv] using this
    · simp only [c]; exact h

theorem wf_mapApply (m : LwwMap) (o : Op) (h : m.WF) : (mapApply m o).WF := by
  unfold mapApply
  split
  · exact wf_putCommon m _ _ _ h
  · exact wf_removeRemote m _ _ h
  · exact h

theorem wf_mapApplyAll (ops : List Op) : ∀ (m : LwwMap), m.WF → (mapApplyAll m ops).WF := by
  induction ops with
  | nil => intro m h; exact h
  | cons o os ih => intro m h; exact ih _ (wf_mapApply m o h)

/-! ### the replica state is the specification -/

/-- the entry an operation leaves behind when it wins -/
def entryOf (o : Op) : MEntry :=
  ⟨match o.body with | .put _ v => some v | _ => none, o.id.ts⟩

/-- every key holds the entry of the newest applied operation on it (absent iff there is none) -/
def MapInv (m : LwwMap) (ops : List Op) : Prop :=
  ∀ k, m.find k = (Spec.maxBy (fun (o : Op) => o.id.ts) (Spec.mapKeyOps k ops)).map entryOf

theorem mapKeyOps_snoc_put (k k' : String) (v : JVal) (ops : List Op) (o : Op)
    (hb : o.body = .put k v) :
    Spec.mapKeyOps k' (ops ++ [o]) =
      if k = k' then Spec.mapKeyOps k' ops ++ [o] else Spec.mapKeyOps k' ops := by
  unfold Spec.mapKeyOps
  rw [List.filter_append]
  by_cases h : k = k' <;> simp [hb, h]

theorem mapKeyOps_snoc_remove (k k' : String) (ops : List Op) (o : Op)
    (hb : o.body = .remove k) :
    Spec.mapKeyOps k' (ops ++ [o]) =
      if k = k' then Spec.mapKeyOps k' ops ++ [o] else Spec.mapKeyOps k' ops := by
  unfold Spec.mapKeyOps
  rw [List.filter_append]
  by_cases h : k = k' <;> simp [hb, h]

theorem mapKeyOps_snoc_other (k' : String) (ops : List Op) (o : Op)
    (hb : isMapOp o = false) :
    Spec.mapKeyOps k' (ops ++ [o]) = Spec.mapKeyOps k' ops := by
  unfold Spec.mapKeyOps
  rw [List.filter_append]
  unfold isMapOp at hb
  simp only [List.filter_cons, List.filter_nil]
  split at hb
  · cases hb
  · cases hb
  · simp

theorem mapApply_other (m : LwwMap) (o : Op) (hb : isMapOp o = false) : mapApply m o = m := by
  unfold isMapOp at hb
  unfold mapApply
  split <;> simp_all

theorem isMapOp_cases (o : Op) (h : isMapOp o = true) :
    (∃ k v, o.body = .put k v) ∨ (∃ k, o.body = .remove k) := by
  unfold isMapOp at h
  split at h
  · exact Or.inl ⟨_, _, ‹_›⟩
  · exact Or.inr ⟨_, ‹_›⟩
  · cases h

theorem mapInv_step (m : LwwMap) (ops : List Op) (o : Op) (hinv : MapInv m ops)
    (hc : ∀ k, o.body = .remove k → ∃ o' ∈ ops, ∃ v, o'.body = .put k v) :
    MapInv (mapApply m o) (ops ++ [o]) := by
  intro k'
  by_cases hm : isMapOp o = true
  · rcases isMapOp_cases o hm with ⟨k, v, hb⟩ | ⟨k, hb⟩
    · have ha : mapApply m o = (m.putCommon k v o.id.ts).1 := by simp [mapApply, hb]
      rw [ha, putCommon_find, mapKeyOps_snoc_put k k' v ops o hb]
      by_cases hk : k = k'
      · subst hk
        simp only [if_true, maxBy_snoc]
        have hi := hinv k
        cases hmax : Spec.maxBy (fun (o : Op) => o.id.ts) (Spec.mapKeyOps k ops) with
        | none =>
          rw [hmax] at hi
          simp only [Option.map_none] at hi
          simp [hi, entryOf, hb]
        | some y =>
          rw [hmax] at hi
          simp only [Option.map_some] at hi
          simp only [hi]
          by_cases c : (y.id.ts.cmp o.id.ts == .lt) = true
          · simp [entryOf, c, hb]
          · simp [entryOf, c]
      · simp only [hk, if_false]; exact hinv k'
    · have ha : mapApply m o = (m.removeRemote k o.id.ts).1 := by simp [mapApply, hb]
      rw [ha, removeRemote_find, mapKeyOps_snoc_remove k k' ops o hb]
      by_cases hk : k = k'
      · subst hk
        simp only [if_true, maxBy_snoc]
        have hi := hinv k
        cases hmax : Spec.maxBy (fun (o : Op) => o.id.ts) (Spec.mapKeyOps k ops) with
        | none =>
          exfalso
          obtain ⟨o', ho', v, hb'⟩ := hc k hb
          have hmem : o' ∈ Spec.mapKeyOps k ops := by
            unfold Spec.mapKeyOps
            simp [List.mem_filter, ho', hb']
          rw [(maxBy_eq_none _ _).mp hmax] at hmem
          cases hmem
        | some y =>
          rw [hmax] at hi
          simp only [Option.map_some] at hi
          simp only [hi]
          by_cases c : (y.id.ts.cmp o.id.ts == .lt) = true
          · simp [entryOf, c, hb]
          · simp [entryOf, c]
      · simp only [hk, if_false]; exact hinv k'
  · have hm' : isMapOp o = false := by simpa using hm
    rw [mapApply_other m o hm', mapKeyOps_snoc_other k' ops o hm']
    exact hinv k'

theorem mapApplyAll_snoc (m : LwwMap) (ops : List Op) (o : Op) :
    mapApplyAll m (ops ++ [o]) = mapApply (mapApplyAll m ops) o := by
  simp [mapApplyAll, List.foldl_append]

theorem mapInv_empty : MapInv LwwMap.empty [] := by
  intro k
  simp [LwwMap.empty, LwwMap.find, alFind, Spec.mapKeyOps, Spec.maxBy]

theorem mapInv_take (ops : List Op) (hc : MapCausal ops) :
    ∀ n, n ≤ ops.length → MapInv (mapApplyAll LwwMap.empty (ops.take n)) (ops.take n) := by
  intro n
  induction n with
  | zero => intro _; simpa [mapApplyAll] using mapInv_empty
  | succ n ih =>
    intro hn
    have hlt : n < ops.length := by omega
    rw [List.take_succ_eq_append_getElem hlt, mapApplyAll_snoc]
    apply mapInv_step _ _ _ (ih (by omega))
    intro k hb
    obtain ⟨j, hj, v, hput⟩ := hc n hlt k hb
    refine ⟨ops[j]'(by omega), ?_, v, hput⟩
    exact List.mem_take_iff_getElem.mpr ⟨j, by omega, rfl⟩

theorem mapInv_all (ops : List Op) (hc : MapCausal ops) :
    MapInv (mapApplyAll LwwMap.empty ops) ops := by
  have := mapInv_take ops hc ops.length (Nat.le_refl _)
  simpa using this

theorem get_eq_of_inv (m : LwwMap) (ops : List Op) (h : MapInv m ops) (k : String) :
    m.get k = Spec.mapGet ops k := by
  unfold LwwMap.get Spec.mapGet
  rw [h k]
  cases hmax : Spec.maxBy (fun (o : Op) => o.id.ts) (Spec.mapKeyOps k ops) with
  | none => simp
  | some y =>
    obtain ⟨id, body⟩ := y
    cases body <;> simp [entryOf]

/-- C02 for maps: after ANY causal application order of operations with distinct timestamps, every
    key holds exactly what the timestamp rule says, and Size is the number of live keys.
    (`hd` is not needed for this direction: on equal timestamps both the replica and `Spec.maxBy`
    keep the first arrival; it is what makes the right-hand side order-independent, see
    `spec_mapGet_perm`.) -/
theorem map_denote (ops : List Op) (hc : MapCausal ops) (hd : DistinctTs ops) (k : String) :
    (mapApplyAll LwwMap.empty ops).get k = Spec.mapGet ops k :=
  have _ := hd
  get_eq_of_inv _ _ (mapInv_all ops hc) k

/-! ### Size -/

theorem nodup_eraseDups_aux : ∀ (n : Nat) (l : List String), l.length ≤ n → l.eraseDups.Nodup := by
  intro n
  induction n with
  | zero =>
    intro l hl
    have : l = [] := List.length_eq_zero_iff.mp (by omega)
    subst this; simp
  | succ n ih =>
    intro l hl
    cases l with
    | nil => simp
    | cons a as =>
      rw [List.eraseDups_cons, List.nodup_cons]
      refine ⟨?_, ?_⟩
      · simp [List.mem_eraseDups, List.mem_filter]
      · apply ih
        have := List.length_filter_le (fun b => !b == a) as
        simp only [List.length_cons] at hl
        omega

theorem nodup_eraseDups (l : List String) : l.eraseDups.Nodup :=
  nodup_eraseDups_aux l.length l (Nat.le_refl _)

theorem length_filterMap_eq_filter {α β : Type} (f : α → Option β) (l : List α) :
    (l.filterMap f).length = (l.filter (fun x => (f x).isSome)).length := by
  induction l with
  | nil => simp
  | cons x xs ih =>
    simp only [List.filterMap_cons, List.filter_cons]
    cases h : f x <;> simp [ih]

theorem mem_mapKeys_of_mapGet (ops : List Op) (k : String) (v : JVal)
    (h : Spec.mapGet ops k = some v) : k ∈ Spec.mapKeys ops := by
  unfold Spec.mapGet at h
  split at h
  · rename_i id k' v' hmax
    obtain ⟨hm, _⟩ := maxBy_spec _ _ _ hmax
    unfold Spec.mapKeyOps at hm
    simp only [List.mem_filter, decide_eq_true_eq] at hm
    unfold Spec.mapKeys
    rw [List.mem_eraseDups, List.mem_filterMap]
    exact ⟨_, hm.1, by simp [hm.2]⟩
  · cases h

theorem size_eq_of_get (m : LwwMap) (ops : List Op) (hwf : m.WF)
    (hget : ∀ k, m.get k = Spec.mapGet ops k) :
    m.size = ((Spec.mapView ops).length : Int) := by
  obtain ⟨hnd, hsz⟩ := hwf
  rw [hsz]
  unfold Spec.mapView
  rw [length_filterMap_eq_filter]
  have hl : (m.entries.filter (fun e => e.2.v.isSome)).length =
      ((m.entries.filter (fun e => e.2.v.isSome)).map (·.1)).length := by simp
  rw [hl]
  congr 1
  apply List.Perm.length_eq
  rw [List.perm_ext_iff_of_nodup]
  · intro k
    simp only [List.mem_map, List.mem_filter, Option.isSome_map]
    constructor
    · rintro ⟨⟨k0, e⟩, ⟨hmem, hlive⟩, rfl⟩
      have hf : m.find k0 = some e := alFind_of_mem k0 e m.entries hnd hmem
      have hg : m.get k0 = e.v := by simp [LwwMap.get, hf]
      have hs : (Spec.mapGet ops k0).isSome = true := by
        rw [← hget k0, hg]; exact hlive
      obtain ⟨v, hv⟩ := Option.isSome_iff_exists.mp hs
      exact ⟨mem_mapKeys_of_mapGet ops k0 v hv, hs⟩
    · rintro ⟨_, hs⟩
      rw [← hget k] at hs
      unfold LwwMap.get at hs
      cases hf : m.find k with
      | none => simp [hf] at hs
      | some e =>
        simp only [hf] at hs
        exact ⟨(k, e), ⟨alFind_some_mem k e m.entries hf, hs⟩, rfl⟩
  · exact (List.Nodup.sublist (List.Sublist.map _ List.filter_sublist) hnd)
  · exact (List.Nodup.sublist List.filter_sublist (nodup_eraseDups _))

theorem map_size_denote (ops : List Op) (hc : MapCausal ops) (hd : DistinctTs ops) :
    (mapApplyAll LwwMap.empty ops).size = ((Spec.mapView ops).length : Int) :=
  size_eq_of_get _ ops (wf_mapApplyAll ops _ wf_empty) (map_denote ops hc hd)

/-! ### order independence and convergence -/

theorem distinctTs_perm (ops ops' : List Op) (hp : ops.Perm ops') (hd : DistinctTs ops) :
    DistinctTs ops' := by
  unfold DistinctTs at hd ⊢
  refine (List.Perm.pairwise_iff ?_ hp).mp hd
  intro x y h h'
  exact h (cmp_eq_symm _ _ h')

/-- the specification does not depend on the order of the operations -/
theorem spec_mapGet_perm (ops ops' : List Op) (hp : ops.Perm ops') (hd : DistinctTs ops) (k : String) :
    Spec.mapGet ops k = Spec.mapGet ops' k := by
  unfold Spec.mapGet
  have hp' : (Spec.mapKeyOps k ops).Perm (Spec.mapKeyOps k ops') := by
    unfold Spec.mapKeyOps; exact hp.filter _
  have hd' : (Spec.mapKeyOps k ops).Pairwise
      (fun a b => ((fun (o : Op) => o.id.ts) a).cmp ((fun (o : Op) => o.id.ts) b) ≠ .eq) := by
    unfold Spec.mapKeyOps; exact List.Pairwise.filter _ hd
  rw [maxBy_perm (fun (o : Op) => o.id.ts) _ _ hp' hd']

/-- C01 for maps: two replicas that applied the same operations, each in a causal order, agree on
    every key and on Size -/
theorem map_converge (ops ops' : List Op) (hp : ops.Perm ops') (hc : MapCausal ops) (hc' : MapCausal ops')
    (hd : DistinctTs ops) :
    (∀ k, (mapApplyAll LwwMap.empty ops).get k = (mapApplyAll LwwMap.empty ops').get k) ∧
    (mapApplyAll LwwMap.empty ops).size = (mapApplyAll LwwMap.empty ops').size := by
  have hd' := distinctTs_perm ops ops' hp hd
  have hget : ∀ k, (mapApplyAll LwwMap.empty ops).get k = (mapApplyAll LwwMap.empty ops').get k := by
    intro k
    rw [map_denote ops hc hd, map_denote ops' hc' hd', spec_mapGet_perm ops ops' hp hd]
  refine ⟨hget, ?_⟩
  rw [map_size_denote ops' hc' hd']
  exact size_eq_of_get _ ops' (wf_mapApplyAll ops _ wf_empty)
    (fun k => by rw [hget k, map_denote ops' hc' hd'])

/-- a local remove (only issued on a live key, with a timestamp newer than everything applied) is the
    same state change as the remote application of its operation -/
theorem removeLocal_eq_removeRemote (m : LwwMap) (k : String) (ts : Ts) (e : MEntry)
    (hf : m.find k = some e) (hl : e.v.isSome = true) (hn : e.t.cmp ts = .lt) :
    (m.removeLocal k ts).1 = (m.removeRemote k ts).1 := by
  unfold LwwMap.removeLocal LwwMap.removeRemote
  simp [hf, hl, hn]

theorem alFind_live (k : String) : ∀ (l : List (String × MEntry)), (l.map (·.1)).Nodup →
    alFind k (l.filterMap (fun (k, e) => e.v.map (fun v => (k, v)))) =
      (match alFind k l with | some e => e.v | none => none) := by
  intro l
  induction l with
  | nil => intro _; simp [alFind]
  | cons x xs ih =>
    intro hnd
    obtain ⟨k0, e0⟩ := x
    simp only [List.map_cons, List.nodup_cons] at hnd
    have ih' := ih hnd.2
    simp only [List.filterMap_cons]
    cases hv : e0.v with
    | none =>
      simp only [Option.map_none, alFind]
      by_cases h0 : k0 = k
      · subst h0
        have hnone : alFind k0 xs = none := (alFind_none_iff k0 xs).mpr hnd.1
        rw [ih', hnone]; simp [hv]
      · simp only [h0, if_false]; exact ih'
    | some w =>
      simp only [Option.map_some, alFind]
      by_cases h0 : k0 = k
      · simp [h0, hv]
      · simp only [h0, if_false]; exact ih'

/-- the live bindings of a well-formed map are exactly what `get` returns -/
theorem live_lookup (m : LwwMap) (h : m.WF) (k : String) : alFind k m.live = m.get k := by
  unfold LwwMap.live LwwMap.get LwwMap.find
  exact alFind_live k m.entries h.1

/-! counter -/
def counterApply (v : Int) (o : Op) : Int :=
  match o.body with | .increase d => counterIncrease v d | _ => v

theorem wrap32_idem_add (a d : Int) : wrap32 (wrap32 a + d) = wrap32 (a + d) := by
  unfold wrap32; omega

theorem wrap32_range (x : Int) : -2147483648 ≤ wrap32 x ∧ wrap32 x < 2147483648 := by
  unfold wrap32; omega

theorem counter_fold (ops : List Op) : ∀ a : Int,
    ops.foldl counterApply (wrap32 a) =
      wrap32 (ops.foldl (fun acc o => match o.body with | .increase d => acc + d | _ => acc) a) := by
  induction ops with
  | nil => intro a; rfl
  | cons o os ih =>
    intro a
    simp only [List.foldl_cons]
    have key : counterApply (wrap32 a) o =
        wrap32 (match o.body with | .increase d => a + d | _ => a) := by
      unfold counterApply
      split <;> simp [counterIncrease, wrap32_idem_add]
    rw [key]
    exact ih _

/-- C02 for counters: the value is the sum of all increments with 32-bit wrap-around -/
theorem counter_denote (ops : List Op) : ops.foldl counterApply 0 = Spec.counter ops := by
  have h0 : (0 : Int) = wrap32 0 := by unfold wrap32; omega
  have h := counter_fold ops 0
  rw [← h0] at h
  exact h

theorem counterApply_comm (z : Int) (x y : Op) :
    counterApply (counterApply z x) y = counterApply (counterApply z y) x := by
  unfold counterApply
  split <;> split <;> simp_all [counterIncrease] <;> (unfold wrap32; omega)

/-- C01 for counters: any two orders of the same increments give the same value -/
theorem counter_converge (ops ops' : List Op) (hp : ops.Perm ops') :
    ops.foldl counterApply 0 = ops'.foldl counterApply 0 :=
  hp.foldl_eq' (fun x _ y _ z => counterApply_comm z x y) 0

end Orda
