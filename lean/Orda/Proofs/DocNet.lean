/-
Documents converge over the server log — NO applicability hypothesis (C01/C05 for documents, end to end).
Everything lives in namespace `Orda.DNet`.

THE SYSTEM (§2).  `Node` = the real replica model `Replica` + `pushed` (how many operations of `r.buffer` are in the log) +
`pulled` (how many log entries it has consumed).  `Net` = the nodes + ONE server log of (author, wire operation).
`Net.init cuid n`: `n` fresh subscribers `Replica.new .document (cuid i) false`.  `Step`:
  * `call i c` — ANY public call `c` with `DP.CallKeysND c` that is not `dinsert _ _ []` (reads, refused calls, failing calls,
    calls of other datatypes included: they leave the replica alone; NOT restricted to calls that return `.ok`):
    `r := (r.call c).1`;
  * `push i` — the next unpushed operation of node `i`'s buffer goes to the end of the log (buffer order);
  * `pull i` — the next log entry for node `i`: skipped when `i` wrote it, otherwise `r := (r.execRemoteBase o).1`.
`Reach cuid n net`: reachable from `Net.init cuid n`; the constructor `Reach.init` carries `CuidsDistinct cuid n` (client
identifiers of the `n` nodes pairwise distinct), so the theorems read `∀ net, Reach cuid n net → …` with no further hypothesis.
`SameOps net i j` (ghost-free, on the state): the list `buffer_i ++ (log entries of the others among the first pulled_i)` is a
permutation of the corresponding list of `j`.  `Quiescent`: every `pushed = buffer.length`, every `pulled = log.length`.
`Net.act` / `Net.run`: the executable form (`step_of_act`, `reach_run`).

RESULTS (§5), all without any applicability hypothesis:
  * `net_nodes_applied` — every node has `DP.DocInv` and its document IS (plain equality) `applyAllD Doc.empty applied` for a
    `Valid`, `Distinct`, `FreshIn` sequence `applied` of remote operations;
  * `net_deliveries_applicable` — every node has `DP.DocInv`; every enabled delivery is applicable (`GoodD d [x]`);
    `net_deliveries_exact`: it returns no error / panic, IS `applyD`, keeps `DP.DocInv`;
  * `net_same_operations_same_document` — THE theorem; `sameOps_of_caught_up`, `sameOps_of_quiescent`;
  * `net_quiescent_converged`.
Nothing of the task is missing.  The two restrictions of the system are the ones the task names: distinct client identifiers,
and no insert of zero values (`DLR.Counter.local_call_statement_false`: such a call succeeds and queues an operation for which
`GoodD` is false).  Unique identifiers across `syncLamport` are TRUE here (invariant `keys`: `syncLamport` never lowers the
clock, `OpId.next` raises it, authors differ in the client identifier).

HOW.  §1: `deliver_good` — an operation issued after the valid history `P` is applicable after every valid history `B` that
contains `P` as a sub-multiset (`reorder`: repeated `DCausal.bubble` moves `P` to the front; `goodD_after`: repeated
`goodD_mono`; `goodD_asim` carries the result back).  §3: the invariant `Inv` with ghost state `ap i` (the log-tagged
operations node `i` has applied, in order): the document is `applyAllD Doc.empty (den (ap i))`, `Valid`, the own entries of
`ap i` are the buffer, the others are the consumed log entries of the others, the log entries of `i` are its pushed buffer
prefix, clocks dominate, (lamport, client) keys pairwise different, and CAUSALITY (`NodeInv.causal`): whatever precedes an own
operation `o` in `ap i` sits in the log before `o`.  `Inv.deliver`: hence the prefix of the author's sequence before `o` is
contained in the sequence of any node that is about to consume `o`, and `deliver_good` applies.  §4: the steps keep `Inv`.
§6: `Ex` — three nodes, eight calls, a run to quiescence, the theorems instantiated, the common view by `decide`.
-/
import Orda.Proofs.DocCausal
import Orda.Proofs.DocLocalRemote
import Batteries.Data.List.Perm
set_option linter.unusedSimpArgs false
set_option linter.unusedVariables false
namespace Orda.DNet
open Orda Orda.DC Orda.DA Orda.DM Orda.DR Orda.DCausal

/-! ## 1. valid histories: an operation issued after a sub-history is applicable after any valid super-history -/

/-- operations with different (era, lamport, client) are different operations of one history -/
theorem dcompat_of_key {x y : DOp} (h : (dts x).key ≠ (dts y).key) : DCompat x y := by
  cases x with
  | o a =>
    cases y with
    | o b => exact fun e => h ((cmp_eq_iff _ _).mp e)
    | a b =>
      intro e he
      have hk := flat_key b e he
      refine ⟨fun c h1 h2 => h ?_, fun e0 => h ?_⟩
      · have k1 := nodesOf_key a h1
        have k2 := eIds_key h2
        show a.ts.key = b.ts.key
        rw [← k1, k2, hk]
      · show a.ts.key = b.ts.key
        rw [(cmp_eq_iff _ _).mp e0, hk]
  | a a =>
    cases y with
    | o b =>
      intro e he
      have hk := flat_key a e he
      refine ⟨fun c h1 h2 => h ?_, fun e0 => h ?_⟩
      · have k1 := nodesOf_key b h1
        have k2 := eIds_key h2
        show a.ts.key = b.ts.key
        rw [← k1, k2, hk]
      · show a.ts.key = b.ts.key
        rw [(cmp_eq_iff _ _).mp e0, hk]
    | a b =>
      intro e he e' he'
      have hk := flat_key a e he
      have hk' := flat_key b e' he'
      have hne : e.ts.cmp e'.ts ≠ .eq := by
        intro e0
        apply h
        show a.ts.key = b.ts.key
        rw [← hk, ← hk', (cmp_eq_iff _ _).mp e0]
      refine ⟨⟨fun c h1 h2 => h ?_, fun _ _ _ => hne⟩, hne⟩
      have k1 : c.key = e.ts.key := eIds_key h1
      have k2 : c.key = e'.ts.key := eIds_key h2
      show a.ts.key = b.ts.key
      rw [← hk, ← hk', ← k1, k2]

/-- a sub-history moves to the front of a valid history (repeated `bubble`) -/
theorem reorder : ∀ (P : List DOp) {s : Doc} {B : List DOp}, s.WF → Valid s P → Valid s B → P.Subperm B →
    Distinct B → FreshIn s B →
    ∃ R, B.Perm (P ++ R) ∧ Valid s (P ++ R) ∧ ASim (applyAllD s B) (applyAllD s (P ++ R))
  | [], s, B, _, _, hvB, _, _, _ => ⟨B, List.Perm.refl _, hvB, asim_refl _⟩
  | p :: P, s, B, hwf, hvP, hvB, hsub, hd, hf => by
    have hp : p ∈ B := hsub.subset (by simp)
    obtain ⟨l1, l2, rfl⟩ := List.append_of_mem hp
    obtain ⟨hvb, hsb⟩ := bubble l1 hvP.1 hvB hd hf
    have hperm : (l1 ++ p :: l2).Perm (p :: (l1 ++ l2)) := List.perm_middle
    have hsub' : P.Subperm (l1 ++ l2) := (List.subperm_cons p).mp ((hperm.subperm_left).mp hsub)
    have hd' : Distinct (p :: (l1 ++ l2)) := distinct_perm hperm hd
    have hd'' := List.pairwise_cons.mp hd'
    have hf' : FreshIn (applyD s p) (l1 ++ l2) :=
      freshIn_step (fun z hz => hf z (hperm.mem_iff.mpr (List.mem_cons_of_mem _ hz))) hvP.1 hd''.1
    obtain ⟨R, h1, h2, h3⟩ := reorder P (wf_applyD hvP.1) hvP.2 hvb.2 hsub' hd''.2 hf'
    exact ⟨R, hperm.trans (h1.cons p), ⟨hvP.1, h2⟩, asim_trans hsb h3⟩

/-- an applicable operation stays applicable along a valid history of other operations -/
theorem goodD_after : ∀ (R : List DOp) {s : Doc} {x : DOp}, GoodD s [x] → Valid s R → (∀ r ∈ R, DCompat r x) →
    GoodD (applyAllD s R) [x]
  | [], _, _, hx, _, _ => hx
  | r :: R, _, _, hx, hv, hc =>
    goodD_after R (goodD_mono hx hv.1 (hc r (by simp))) hv.2 (fun r' h => hc r' (List.mem_cons_of_mem _ h))

theorem find_none_applyAllD : ∀ (B : List DOp) {s : Doc} {c : Ts}, Valid s B → s.find c = none →
    (∀ b ∈ B, c ∉ newIds b) → (applyAllD s B).find c = none
  | [], _, _, _, hc, _ => hc
  | b :: B, _, _, hv, hc, hn =>
    find_none_applyAllD B hv.2 (find_none_applyD hv.1 hc (hn b (by simp)))
      (fun b' h => hn b' (List.mem_cons_of_mem _ h))

/-- THE causal-delivery lemma: `x` was issued in the state reached by the valid history `P`; a replica whose valid
    history `B` contains `P` (as a sub-multiset) and not `x` can apply `x` -/
theorem deliver_good {s : Doc} {P B : List DOp} {x : DOp} (hwf : s.WF) (hvP : Valid s P)
    (hx : GoodD (applyAllD s P) [x]) (hvB : Valid s B) (hsub : P.Subperm B) (hd : Distinct B)
    (hcx : ∀ b ∈ B, DCompat b x) (hf : FreshIn s B) (hfx : FreshIn s [x]) : GoodD (applyAllD s B) [x] := by
  obtain ⟨R, hperm, hv, hs⟩ := reorder P hwf hvP hvB hsub hd hf
  have hvPR := valid_append.mp hv
  have h1 : GoodD (applyAllD s (P ++ R)) [x] := by
    rw [applyAllD_append]
    exact goodD_after R hx hvPR.2 (fun r hr => hcx r (hperm.mem_iff.mpr (by simp [hr])))
  apply goodD_asim (asim_symm hs) (valid_wf B hwf hvB) h1
  intro y hy c hc
  simp only [List.mem_singleton] at hy
  subst hy
  exact find_none_applyAllD B hvB (hfx _ (by simp) c hc) (fun b hb => dcompat_away (hcx b hb) hc)

/-! ## 2. the system: replicas around ONE server log -/

/-- one client: the real replica model, how many operations of its buffer are in the log, how many log entries it has
    consumed -/
structure Node where
  r : Replica
  pushed : Nat
  pulled : Nat

/-- an entry of the server log: (author, wire operation) -/
abbrev LEnt := Nat × Op

structure Net where
  nodes : List Node
  log : List LEnt

/-- every node is a fresh subscriber `Replica.new .document (cuid i) false`; nothing pushed or pulled; empty log -/
def Net.init (cuid : Nat → String) (n : Nat) : Net :=
  ⟨(List.range n).map fun i => ⟨Replica.new .document (cuid i) false, 0, 0⟩, []⟩

/-- client identifiers of the `n` nodes are pairwise distinct -/
def CuidsDistinct (cuid : Nat → String) (n : Nat) : Prop := ∀ i j, i < n → j < n → cuid i = cuid j → i = j

/-- the calls a node may issue: ANY public call (reads, refused calls, calls of other datatypes included — they change
    nothing) whose values have no duplicate keys, except an insert of zero values -/
def CallOK (c : Call) : Prop := DP.CallKeysND c ∧ ∀ h pos, c ≠ .dinsert h pos []

inductive Step : Net → Net → Prop
  /-- node `i` issues the public call `c` -/
  | call (net : Net) (i : Nat) (nd : Node) (c : Call) (hi : net.nodes[i]? = some nd) (hc : CallOK c) :
      Step net ⟨net.nodes.set i { nd with r := (nd.r.call c).1 }, net.log⟩
  /-- the next unpushed operation of node `i`'s buffer is appended to the log (buffer order) -/
  | push (net : Net) (i : Nat) (nd : Node) (o : Op) (hi : net.nodes[i]? = some nd)
      (ho : nd.r.buffer[nd.pushed]? = some o) :
      Step net ⟨net.nodes.set i { nd with pushed := nd.pushed + 1 }, net.log ++ [(i, o)]⟩
  /-- node `i` consumes its next log entry: skipped if `i` is the author, otherwise delivered with `execRemoteBase` -/
  | pull (net : Net) (i : Nat) (nd : Node) (a : Nat) (o : Op) (hi : net.nodes[i]? = some nd)
      (hl : net.log[nd.pulled]? = some (a, o)) :
      Step net ⟨net.nodes.set i { nd with r := if a = i then nd.r else (nd.r.execRemoteBase o).1,
                                          pulled := nd.pulled + 1 }, net.log⟩

/-- the reachable states of the system of `n` nodes with the (pairwise distinct) client identifiers `cuid 0 … cuid (n-1)` -/
inductive Reach (cuid : Nat → String) (n : Nat) : Net → Prop
  | init (hc : CuidsDistinct cuid n) : Reach cuid n (Net.init cuid n)
  | step {net net' : Net} : Reach cuid n net → Step net net' → Reach cuid n net'

/-- the entries of `l` written by `i` / by the others -/
def own (i : Nat) (l : List LEnt) : List LEnt := l.filter fun e => e.1 == i
def oth (i : Nat) (l : List LEnt) : List LEnt := l.filter fun e => !(e.1 == i)

/-- the operations node `nd` (number `i`) has applied: its own buffer and the log entries of the others among the first
    `pulled` ones -/
def appliedOps (log : List LEnt) (i : Nat) (nd : Node) : List Op :=
  nd.r.buffer ++ (oth i (log.take nd.pulled)).map (·.2)

/-- nodes `i` and `j` have applied the same multiset of operations -/
def SameOps (net : Net) (i j : Nat) : Prop :=
  ∃ ni nj, net.nodes[i]? = some ni ∧ net.nodes[j]? = some nj ∧
    (appliedOps net.log i ni).Perm (appliedOps net.log j nj)

/-- every buffer completely pushed, every node has consumed the whole log -/
def Quiescent (net : Net) : Prop :=
  ∀ nd ∈ net.nodes, nd.pushed = nd.r.buffer.length ∧ nd.pulled = net.log.length

/-! ### the executable form (for concrete runs) -/

inductive Act where
  | call (i : Nat) (c : Call)
  | push (i : Nat)
  | pull (i : Nat)

def Net.act (net : Net) : Act → Option Net
  | .call i c =>
    match net.nodes[i]? with
    | some nd => some ⟨net.nodes.set i { nd with r := (nd.r.call c).1 }, net.log⟩
    | none => none
  | .push i =>
    match net.nodes[i]? with
    | some nd =>
      match nd.r.buffer[nd.pushed]? with
      | some o => some ⟨net.nodes.set i { nd with pushed := nd.pushed + 1 }, net.log ++ [(i, o)]⟩
      | none => none
    | none => none
  | .pull i =>
    match net.nodes[i]? with
    | some nd =>
      match net.log[nd.pulled]? with
      | some (a, o) =>
        some ⟨net.nodes.set i { nd with r := if a = i then nd.r else (nd.r.execRemoteBase o).1,
                                        pulled := nd.pulled + 1 }, net.log⟩
      | none => none
    | none => none

def Net.run (net : Net) : List Act → Option Net
  | [] => some net
  | a :: as => match net.act a with
    | some net' => net'.run as
    | none => none

def ActOK : Act → Prop
  | .call _ c => CallOK c
  | _ => True

theorem step_of_act {net net' : Net} {a : Act} (h : net.act a = some net') (hk : ActOK a) : Step net net' := by
  cases a with
  | call i c =>
    simp only [Net.act] at h
    cases hn : net.nodes[i]? with
    | none => rw [hn] at h; cases h
    | some nd =>
      rw [hn] at h
      simp only [Option.some.injEq] at h
      subst h
      exact .call net i nd c hn hk
  | push i =>
    simp only [Net.act] at h
    cases hn : net.nodes[i]? with
    | none => rw [hn] at h; cases h
    | some nd =>
      rw [hn] at h
      simp only at h
      cases ho : nd.r.buffer[nd.pushed]? with
      | none => rw [ho] at h; cases h
      | some o =>
        rw [ho] at h
        simp only [Option.some.injEq] at h
        subst h
        exact .push net i nd o hn ho
  | pull i =>
    simp only [Net.act] at h
    cases hn : net.nodes[i]? with
    | none => rw [hn] at h; cases h
    | some nd =>
      rw [hn] at h
      simp only at h
      cases hl : net.log[nd.pulled]? with
      | none => rw [hl] at h; cases h
      | some e =>
        obtain ⟨a, o⟩ := e
        rw [hl] at h
        simp only [Option.some.injEq] at h
        subst h
        exact .pull net i nd a o hn hl

theorem reach_run {cuid : Nat → String} {n : Nat} : ∀ (as : List Act) {net net' : Net}, Reach cuid n net →
    net.run as = some net' → (∀ a ∈ as, ActOK a) → Reach cuid n net'
  | [], _, _, hr, h, _ => by
    simp only [Net.run, Option.some.injEq] at h
    exact h ▸ hr
  | a :: as, net, net', hr, h, hk => by
    simp only [Net.run] at h
    cases ha : net.act a with
    | none => rw [ha] at h; cases h
    | some net1 =>
      rw [ha] at h
      exact reach_run as (.step hr (step_of_act ha (hk a (by simp)))) h
        (fun a' h' => hk a' (List.mem_cons_of_mem _ h'))

/-! ## 3. the invariant (ghost state: per node the sequence `ap i` of the log-tagged operations it has applied) -/

/-- the remote operations a sequence of entries denotes -/
def den (l : List LEnt) : List DOp := l.filterMap fun e => toDOp e.2
/-- what identifies an operation: (lamport, client) -/
def lkey (e : LEnt) : Nat × String := (e.2.id.lamport, e.2.id.cuid)

/-- what is known about every operation of the system -/
def EntOK (cuid : Nat → String) (n : Nat) (e : LEnt) : Prop :=
  e.1 < n ∧ e.2.id.cuid = cuid e.1 ∧ e.2.id.era = 0 ∧ 1 ≤ e.2.id.lamport ∧ ∃ x, toDOp e.2 = some x ∧ ValuesOK x

structure NodeInv (cuid : Nat → String) (n : Nat) (log : List LEnt) (i : Nat) (nd : Node) (A : List LEnt) : Prop where
  life : Life (cuid i) false nd.r
  st : nd.r.state = .doc (applyAllD Doc.empty (den A))
  valid : Valid Doc.empty (den A)
  pushed_le : nd.pushed ≤ nd.r.buffer.length
  pulled_le : nd.pulled ≤ log.length
  own_eq : own i A = nd.r.buffer.map (fun o => (i, o))
  oth_eq : oth i A = oth i (log.take nd.pulled)
  log_own : own i log = (nd.r.buffer.take nd.pushed).map (fun o => (i, o))
  clock_cuid : nd.r.opId.cuid = cuid i
  clock_era : nd.r.opId.era = 0
  lam_le : ∀ e ∈ A, e.2.id.lamport ≤ nd.r.opId.lamport
  ent_ok : ∀ e ∈ A, EntOK cuid n e
  buf_sorted : nd.r.buffer.Pairwise (fun o o' => o.id.lamport < o'.id.lamport)
  keys : A.Pairwise (fun e e' => lkey e ≠ lkey e')
  /-- CAUSALITY: what node `i` had applied when it issued `o` is in the log before `o` -/
  causal : ∀ P o S, A = P ++ (i, o) :: S → ∀ k, log[k]? = some (i, o) → ∀ e ∈ P, e ∈ log.take k

structure Inv (cuid : Nat → String) (n : Nat) (net : Net) (ap : Nat → List LEnt) : Prop where
  distinct : CuidsDistinct cuid n
  len : net.nodes.length = n
  node : ∀ i nd, net.nodes[i]? = some nd → NodeInv cuid n net.log i nd (ap i)
  log_auth : ∀ e ∈ net.log, e.1 < n
  log_keys : net.log.Pairwise (fun e e' => lkey e ≠ lkey e')

/-! ### lists of entries -/

theorem mem_own {i : Nat} {l : List LEnt} {e : LEnt} : e ∈ own i l ↔ e ∈ l ∧ e.1 = i := by
  simp [own]
theorem mem_oth {i : Nat} {l : List LEnt} {e : LEnt} : e ∈ oth i l ↔ e ∈ l ∧ e.1 ≠ i := by
  simp [oth]
theorem own_append (i : Nat) (l l' : List LEnt) : own i (l ++ l') = own i l ++ own i l' := by
  simp [own]
theorem oth_append (i : Nat) (l l' : List LEnt) : oth i (l ++ l') = oth i l ++ oth i l' := by
  simp [oth]
theorem own_single_self (i : Nat) (o : Op) : own i [(i, o)] = [(i, o)] := by simp [own]
theorem oth_single_self (i : Nat) (o : Op) : oth i [(i, o)] = [] := by simp [oth]
theorem own_single_ne {i a : Nat} (h : a ≠ i) (o : Op) : own i [(a, o)] = [] := by simp [own, h]
theorem oth_single_ne {i a : Nat} (h : a ≠ i) (o : Op) : oth i [(a, o)] = [(a, o)] := by simp [oth, h]
theorem own_cons_self (i : Nat) (o : Op) (l : List LEnt) : own i ((i, o) :: l) = (i, o) :: own i l := by simp [own]

theorem den_append (l l' : List LEnt) : den (l ++ l') = den l ++ den l' := by simp [den]
theorem den_single {e : LEnt} {x : DOp} (h : toDOp e.2 = some x) : den [e] = [x] := by simp [den, h]
theorem den_cons {e : LEnt} {x : DOp} (h : toDOp e.2 = some x) (l : List LEnt) : den (e :: l) = x :: den l := by
  simp [den, h]

theorem mem_den {l : List LEnt} {x : DOp} : x ∈ den l ↔ ∃ e ∈ l, toDOp e.2 = some x := by
  simp [den]

theorem subperm_filterMap {α β : Type} (f : α → Option β) {l l' : List α} (h : l.Subperm l') :
    (l.filterMap f).Subperm (l'.filterMap f) := by
  obtain ⟨m, h1, h2⟩ := h
  exact ⟨m.filterMap f, h1.filterMap f, h2.filterMap f⟩

theorem key_of_toDOp {o : Op} {x : DOp} (h : toDOp o = some x) :
    (dts x).key = (o.id.era, o.id.lamport, o.id.cuid) := by
  rw [toDOp_ts h]; rfl

theorem dcompat_of_lkey {e e' : LEnt} {b b' : DOp} (h : lkey e ≠ lkey e') (hb : toDOp e.2 = some b)
    (hb' : toDOp e'.2 = some b') : DCompat b b' := by
  apply dcompat_of_key
  rw [key_of_toDOp hb, key_of_toDOp hb']
  intro e0
  apply h
  simp only [Prod.mk.injEq] at e0
  simp only [lkey, Prod.mk.injEq]
  exact e0.2

theorem distinct_den {l : List LEnt} (h : l.Pairwise (fun e e' => lkey e ≠ lkey e')) : Distinct (den l) :=
  List.Pairwise.filterMap (fun e : LEnt => toDOp e.2) (S := DCompat)
    (fun a a' hk b hb b' hb' => dcompat_of_lkey hk hb hb') h

theorem freshIn_empty {l : List DOp} (h : ∀ x ∈ l, 1 ≤ (dts x).lamport) : FreshIn Doc.empty l := by
  apply freshIn_of_keys
  intro nn hn x hx e0
  have hn' : nn = ⟨Ts.oldest, none, none, .obj [] 0⟩ := by simpa [Doc.empty] using hn
  subst hn'
  have := h x hx
  simp only [Ts.key, Ts.oldest, Prod.mk.injEq] at e0
  omega

theorem freshIn_den {cuid : Nat → String} {n : Nat} {l : List LEnt} (h : ∀ e ∈ l, EntOK cuid n e) :
    FreshIn Doc.empty (den l) := by
  apply freshIn_empty
  intro x hx
  obtain ⟨e, he, hex⟩ := mem_den.mp hx
  rw [toDOp_ts hex]
  exact (h e he).2.2.2.1

theorem nodup_of_keys {l : List LEnt} (h : l.Pairwise (fun e e' => lkey e ≠ lkey e')) : l.Nodup :=
  List.nodup_iff_pairwise_ne.mpr (h.imp (fun hk e0 => hk (by rw [e0])))

/-! ### what the invariant says about the log -/

namespace NodeInv
variable {cuid : Nat → String} {n : Nat} {log : List LEnt} {i : Nat} {nd : Node} {A : List LEnt}

theorem buf_mem (N : NodeInv cuid n log i nd A) {o : Op} (h : o ∈ nd.r.buffer) : (i, o) ∈ A := by
  have : (i, o) ∈ own i A := by rw [N.own_eq]; exact List.mem_map.mpr ⟨o, h, rfl⟩
  exact (mem_own.mp this).1

theorem mem_buf (N : NodeInv cuid n log i nd A) {o : Op} (h : (i, o) ∈ A) : o ∈ nd.r.buffer := by
  have : (i, o) ∈ own i A := mem_own.mpr ⟨h, rfl⟩
  rw [N.own_eq] at this
  obtain ⟨o', h1, h2⟩ := List.mem_map.mp this
  simp only [Prod.mk.injEq, true_and] at h2
  exact h2 ▸ h1

theorem log_take (N : NodeInv cuid n log i nd A) {o : Op} (h : (i, o) ∈ log) : o ∈ nd.r.buffer.take nd.pushed := by
  have : (i, o) ∈ own i log := mem_own.mpr ⟨h, rfl⟩
  rw [N.log_own] at this
  obtain ⟨o', h1, h2⟩ := List.mem_map.mp this
  simp only [Prod.mk.injEq, true_and] at h2
  exact h2 ▸ h1

/-- every consumed log entry has been applied -/
theorem mem_of_log (N : NodeInv cuid n log i nd A) {e : LEnt} (h : e ∈ log.take nd.pulled) : e ∈ A := by
  by_cases he : e.1 = i
  · obtain ⟨a, o⟩ := e
    simp only at he
    subst he
    exact N.buf_mem (List.mem_of_mem_take (N.log_take (List.mem_of_mem_take h)))
  · have : e ∈ oth i A := by rw [N.oth_eq]; exact mem_oth.mpr ⟨h, he⟩
    exact (mem_oth.mp this).1

theorem buf_lam (N : NodeInv cuid n log i nd A) {o : Op} (h : o ∈ nd.r.buffer) : o.id.lamport ≤ nd.r.opId.lamport :=
  N.lam_le _ (N.buf_mem h)

end NodeInv

namespace Inv
variable {cuid : Nat → String} {n : Nat} {net : Net} {ap : Nat → List LEnt}

theorem log_mem (I : Inv cuid n net ap) {e : LEnt} (h : e ∈ net.log) :
    ∃ nd, net.nodes[e.1]? = some nd ∧ e.2 ∈ nd.r.buffer.take nd.pushed ∧ e ∈ ap e.1 := by
  have hlt : e.1 < net.nodes.length := by rw [I.len]; exact I.log_auth e h
  refine ⟨net.nodes[e.1], List.getElem?_eq_getElem hlt, ?_⟩
  have N := I.node e.1 _ (List.getElem?_eq_getElem hlt)
  obtain ⟨a, o⟩ := e
  have h1 := N.log_take h
  exact ⟨h1, N.buf_mem (List.mem_of_mem_take h1)⟩

/-- **every delivery is applicable** -/
theorem deliver (I : Inv cuid n net ap) {j : Nat} {nd : Node} {a : Nat} {o : Op} (hj : net.nodes[j]? = some nd)
    (hl : net.log[nd.pulled]? = some (a, o)) (ha : a ≠ j) :
    ∃ x, toDOp o = some x ∧ ValuesOK x ∧ GoodD (applyAllD Doc.empty (den (ap j))) [x] ∧
      (∀ e ∈ ap j, lkey e ≠ lkey (a, o)) ∧ EntOK cuid n (a, o) := by
  have hmem : (a, o) ∈ net.log := List.mem_of_getElem? hl
  obtain ⟨nda, hna, hbuf, hapa⟩ := I.log_mem hmem
  simp only at hna hbuf hapa
  have Na := I.node a nda hna
  have Nj := I.node j nd hj
  have hent := Na.ent_ok _ hapa
  obtain ⟨han, hcu, hera, hlam, x, hx, hv⟩ := hent
  simp only at han hcu hera hlam hx
  obtain ⟨P, S, hsplit⟩ := List.append_of_mem hapa
  have hc := Na.causal P o S hsplit nd.pulled hl
  have hsubset : P ⊆ ap j := fun e he => Nj.mem_of_log (hc e he)
  have hkP : P.Pairwise (fun e e' => lkey e ≠ lkey e') := by
    have := Na.keys
    rw [hsplit] at this
    exact (List.pairwise_append.mp this).1
  have hsub : (den P).Subperm (den (ap j)) :=
    subperm_filterMap _ (List.subperm_of_subset (nodup_of_keys hkP) hsubset)
  have hval := Na.valid
  rw [hsplit, den_append, den_cons (e := (a, o)) hx] at hval
  obtain ⟨hvP, hvx⟩ := valid_append.mp hval
  -- the keys
  have hkeys : ∀ e ∈ ap j, lkey e ≠ lkey (a, o) := by
    intro e he
    by_cases hej : e.1 = j
    · have := (Nj.ent_ok e he).2.1
      intro e0
      simp only [lkey, Prod.mk.injEq] at e0
      rw [this, hcu, hej] at e0
      have hjn : j < n := by
        have := (List.getElem?_eq_some_iff.mp hj).1
        rw [I.len] at this; exact this
      exact ha (I.distinct j a hjn han e0.2).symm
    · have h1 : e ∈ oth j (ap j) := mem_oth.mpr ⟨he, hej⟩
      rw [Nj.oth_eq] at h1
      obtain ⟨k', hk', hek⟩ := List.mem_take_iff_getElem.mp (mem_oth.mp h1).1
      obtain ⟨hp, hpe⟩ := List.getElem?_eq_some_iff.mp hl
      have := List.pairwise_iff_getElem.mp I.log_keys k' nd.pulled (by omega) hp (by omega)
      rw [hek, hpe] at this
      exact this
  refine ⟨x, hx, hv, ?_, hkeys, ⟨han, hcu, hera, hlam, x, hx, hv⟩⟩
  apply deliver_good wf_doc_empty hvP hvx.1 Nj.valid hsub (distinct_den Nj.keys)
  · intro b hb
    obtain ⟨e, he, heb⟩ := mem_den.mp hb
    exact dcompat_of_lkey (hkeys e he) heb hx
  · exact freshIn_den Nj.ent_ok
  · apply freshIn_empty
    intro y hy
    simp only [List.mem_singleton] at hy
    subst hy
    rw [toDOp_ts hx]
    exact hlam

end Inv

/-! ## 4. the steps keep the invariant -/

/-- a public call either leaves the replica alone or queues ONE operation that is applicable in the state before the call
    and whose application IS the state after the call -/
theorem call_cases {cu : String} {r : Replica} (hl : Life cu false r) {d : Doc} (hs : r.state = .doc d) {c : Call}
    (hc : CallOK c) :
    (r.call c).1 = r ∨ ∃ o x, (r.call c).1.buffer = r.buffer ++ [o] ∧ o.id = r.opId.next ∧
      (r.call c).1.opId = r.opId.next ∧ (r.call c).1.state = .doc (applyD d x) ∧ toDOp o = some x ∧
      GoodD d [x] ∧ ValuesOK x := by
  have hinv := docInv_life _ _ _ hl
  by_cases hm : DP.isMutating c = true
  · cases hres : (r.call c).2 with
    | err e => exact Or.inl (DP.doc_call_err_noop r c hinv e hres)
    | panic w => exact absurd hres (DP.doc_call_no_panic r c hinv w)
    | ok v =>
      right
      obtain ⟨o, x, h1, h2, h3, h4, h5, h6, h7⟩ :=
        DLR.local_call_is_applicable_remote_op_eq r d hs hinv c hc.1 hm v hres (DLR.histOK_life _ _ _ hl d hs) hc.2
      obtain ⟨b, s', b', ret, _, _, hcall⟩ := DLR.call_ok_inv hs hm hres
      exact ⟨o, x, h1, h2, by rw [hcall], h3, h4, h5, h6⟩
  · exact Or.inl (DLR.call_nonmut hs (by simpa using hm))

theorem execRemoteBase_buffer (r : Replica) (o : Op) : (r.execRemoteBase o).1.buffer = r.buffer := by
  unfold Replica.execRemoteBase; split <;> rfl

theorem sync_cuid (L : OpId) (k : Nat) : (L.syncLamport k).cuid = L.cuid := by
  unfold OpId.syncLamport; split <;> rfl
theorem sync_era (L : OpId) (k : Nat) : (L.syncLamport k).era = L.era := by
  unfold OpId.syncLamport; split <;> rfl
theorem sync_lam (L : OpId) (k : Nat) : L.lamport ≤ (L.syncLamport k).lamport ∧ k ≤ (L.syncLamport k).lamport := by
  unfold OpId.syncLamport; split <;> simp <;> omega

theorem snoc_split {α : Type} {A P S : List α} {e f : α} (h : A ++ [e] = P ++ f :: S) :
    (S = [] ∧ P = A ∧ f = e) ∨ ∃ S', S = S' ++ [e] ∧ A = P ++ f :: S' := by
  rcases List.eq_nil_or_concat S with rfl | ⟨S', s, rfl⟩
  · obtain ⟨h1, h2⟩ := List.append_inj' h rfl
    simp only [List.cons.injEq, and_true] at h2
    exact Or.inl ⟨rfl, h1.symm, h2.symm⟩
  · rw [List.concat_eq_append] at h ⊢
    have h' : A ++ [e] = (P ++ f :: S') ++ [s] := by simpa using h
    obtain ⟨h1, h2⟩ := List.append_inj' h' rfl
    simp only [List.cons.injEq, and_true] at h2
    exact Or.inr ⟨S', by rw [h2], h1⟩

namespace NodeInv
variable {cuid : Nat → String} {n : Nat} {log : List LEnt} {i : Nat} {nd : Node} {A : List LEnt}

/-- a call at node `i` -/
theorem call (N : NodeInv cuid n log i nd A) (hi : i < n) {c : Call} (hc : CallOK c) :
    ∃ A', NodeInv cuid n log i { nd with r := (nd.r.call c).1 } A' := by
  rcases call_cases N.life N.st hc with h | ⟨o, x, hbuf, hid, hop, hst, hx, hg, hv⟩
  · refine ⟨A, ?_⟩
    rw [h]
    exact N
  · refine ⟨A ++ [(i, o)], ?_⟩
    have hden : den (A ++ [(i, o)]) = den A ++ [x] := by rw [den_append, den_single (e := (i, o)) hx]
    have hlam : o.id.lamport = nd.r.opId.lamport + 1 := by rw [hid]; rfl
    have hnotlog : (i, o) ∉ log := by
      intro hm
      have := N.buf_lam (List.mem_of_mem_take (N.log_take hm))
      omega
    exact {
      life := .step N.life (.call _ c hc.1)
      st := by
        show (nd.r.call c).1.state = _
        rw [hst, hden, applyAllD_append]; rfl
      valid := by
        rw [hden]
        exact valid_append.mpr ⟨N.valid, hg, trivial⟩
      pushed_le := by
        show nd.pushed ≤ (nd.r.call c).1.buffer.length
        rw [hbuf]; simp; exact Nat.le_succ_of_le N.pushed_le
      pulled_le := N.pulled_le
      own_eq := by
        show own i (A ++ [(i, o)]) = (nd.r.call c).1.buffer.map _
        rw [hbuf, own_append, own_single_self, N.own_eq]; simp
      oth_eq := by
        show oth i (A ++ [(i, o)]) = _
        rw [oth_append, oth_single_self, List.append_nil]; exact N.oth_eq
      log_own := by
        show own i log = ((nd.r.call c).1.buffer.take nd.pushed).map _
        rw [hbuf, List.take_append_of_le_length N.pushed_le]; exact N.log_own
      clock_cuid := by
        show (nd.r.call c).1.opId.cuid = _
        rw [hop]; exact N.clock_cuid
      clock_era := by
        show (nd.r.call c).1.opId.era = _
        rw [hop]; exact N.clock_era
      lam_le := by
        intro e he
        show _ ≤ (nd.r.call c).1.opId.lamport
        rw [hop]
        show _ ≤ nd.r.opId.lamport + 1
        rcases List.mem_append.mp he with h | h
        · exact Nat.le_succ_of_le (N.lam_le e h)
        · simp only [List.mem_singleton] at h
          subst h
          exact Nat.le_of_eq hlam
      ent_ok := by
        intro e he
        rcases List.mem_append.mp he with h | h
        · exact N.ent_ok e h
        · simp only [List.mem_singleton] at h
          subst h
          refine ⟨hi, ?_, ?_, ?_, x, hx, hv⟩
          · show o.id.cuid = cuid i
            rw [hid]; exact N.clock_cuid
          · show o.id.era = 0
            rw [hid]; exact N.clock_era
          · show 1 ≤ o.id.lamport
            omega
      buf_sorted := by
        show (nd.r.call c).1.buffer.Pairwise _
        rw [hbuf]
        refine List.pairwise_append.mpr ⟨N.buf_sorted, List.pairwise_singleton _ _, ?_⟩
        intro o' ho' o'' ho''
        simp only [List.mem_singleton] at ho''
        subst ho''
        have := N.buf_lam ho'
        omega
      keys := by
        refine List.pairwise_append.mpr ⟨N.keys, List.pairwise_singleton _ _, ?_⟩
        intro e he e' he'
        simp only [List.mem_singleton] at he'
        subst he'
        intro e0
        have := N.lam_le e he
        simp only [lkey, Prod.mk.injEq] at e0
        omega
      causal := by
        intro P o' S hsplit k hk e he
        rcases snoc_split hsplit with ⟨_, _, h3⟩ | ⟨S', _, h2⟩
        · simp only [Prod.mk.injEq, true_and] at h3
          subst h3
          exact absurd (List.mem_of_getElem? hk) hnotlog
        · exact N.causal P o' S' h2 k hk e he }

/-- node `i` pushes its next operation -/
theorem push_self (N : NodeInv cuid n log i nd A) {o : Op} (ho : nd.r.buffer[nd.pushed]? = some o) :
    NodeInv cuid n (log ++ [(i, o)]) i { nd with pushed := nd.pushed + 1 } A := by
  obtain ⟨hp, hpo⟩ := List.getElem?_eq_some_iff.mp ho
  exact {
    life := N.life
    st := N.st
    valid := N.valid
    pushed_le := hp
    pulled_le := by
      show nd.pulled ≤ (log ++ [(i, o)]).length
      simp; exact Nat.le_succ_of_le N.pulled_le
    own_eq := N.own_eq
    oth_eq := by
      show oth i A = oth i ((log ++ [(i, o)]).take nd.pulled)
      rw [List.take_append_of_le_length N.pulled_le]; exact N.oth_eq
    log_own := by
      show own i (log ++ [(i, o)]) = (nd.r.buffer.take (nd.pushed + 1)).map _
      rw [own_append, own_single_self, N.log_own, ← List.take_append_getElem hp, hpo]; simp
    clock_cuid := N.clock_cuid
    clock_era := N.clock_era
    lam_le := N.lam_le
    ent_ok := N.ent_ok
    buf_sorted := N.buf_sorted
    keys := N.keys
    causal := by
      intro P o' S hsplit k hk e he
      have hlen : k < (log ++ [(i, o)]).length := (List.getElem?_eq_some_iff.mp hk).1
      by_cases hk' : k < log.length
      · rw [List.getElem?_append_left hk'] at hk
        rw [List.take_append_of_le_length (Nat.le_of_lt hk')]
        exact N.causal P o' S hsplit k hk e he
      · have hk'' : k = log.length := by
          simp only [List.length_append, List.length_cons, List.length_nil] at hlen; omega
        subst hk''
        rw [List.getElem?_append_right (Nat.le_refl _)] at hk
        simp only [Nat.sub_self, List.getElem?_cons_zero, Option.some.injEq, Prod.mk.injEq, true_and] at hk
        subst hk
        rw [List.take_append_of_le_length (Nat.le_refl _), List.take_length]
        have heA : e ∈ A := by rw [hsplit]; simp [he]
        by_cases hei : e.1 = i
        · obtain ⟨a, oe⟩ := e
          simp only at hei
          subst hei
          -- own entries are in lamport order
          have hso : (own a A).Pairwise (fun e e' => e.2.id.lamport < e'.2.id.lamport) := by
            rw [N.own_eq, List.pairwise_map]; exact N.buf_sorted
          rw [hsplit, own_append, own_cons_self] at hso
          have hlt : oe.id.lamport < o.id.lamport :=
            (List.pairwise_append.mp hso).2.2 (a, oe) (mem_own.mpr ⟨he, rfl⟩) (a, o) (by simp)
          have hb := N.mem_buf heA
          obtain ⟨q, hq, hqe⟩ := List.getElem_of_mem hb
          have hqp : q < nd.pushed := by
            by_contra hge
            by_cases hqe' : q = nd.pushed
            · subst hqe'
              rw [hpo] at hqe
              subst hqe
              omega
            · have := List.pairwise_iff_getElem.mp N.buf_sorted nd.pushed q hp hq (by omega)
              rw [hpo, hqe] at this
              omega
          have : (a, oe) ∈ own a log := by
            rw [N.log_own]
            exact List.mem_map.mpr ⟨oe, List.mem_take_iff_getElem.mpr ⟨q, by omega, hqe⟩, rfl⟩
          exact (mem_own.mp this).1
        · have : e ∈ oth i A := mem_oth.mpr ⟨heA, hei⟩
          rw [N.oth_eq] at this
          exact List.mem_of_mem_take (mem_oth.mp this).1 }

/-- another node pushes -/
theorem push_other (N : NodeInv cuid n log i nd A) {a : Nat} (ha : a ≠ i) (o : Op) :
    NodeInv cuid n (log ++ [(a, o)]) i nd A := by
  exact {
    life := N.life
    st := N.st
    valid := N.valid
    pushed_le := N.pushed_le
    pulled_le := by simp; exact Nat.le_succ_of_le N.pulled_le
    own_eq := N.own_eq
    oth_eq := by rw [List.take_append_of_le_length N.pulled_le]; exact N.oth_eq
    log_own := by rw [own_append, own_single_ne ha, List.append_nil]; exact N.log_own
    clock_cuid := N.clock_cuid
    clock_era := N.clock_era
    lam_le := N.lam_le
    ent_ok := N.ent_ok
    buf_sorted := N.buf_sorted
    keys := N.keys
    causal := by
      intro P o' S hsplit k hk e he
      have hlen : k < (log ++ [(a, o)]).length := (List.getElem?_eq_some_iff.mp hk).1
      by_cases hk' : k < log.length
      · rw [List.getElem?_append_left hk'] at hk
        rw [List.take_append_of_le_length (Nat.le_of_lt hk')]
        exact N.causal P o' S hsplit k hk e he
      · have hk'' : k = log.length := by
          simp only [List.length_append, List.length_cons, List.length_nil] at hlen; omega
        subst hk''
        rw [List.getElem?_append_right (Nat.le_refl _)] at hk
        simp only [Nat.sub_self, List.getElem?_cons_zero, Option.some.injEq, Prod.mk.injEq] at hk
        exact absurd hk.1 ha }

/-- node `i` skips its own log entry -/
theorem pull_own (N : NodeInv cuid n log i nd A) {o : Op} (hl : log[nd.pulled]? = some (i, o)) :
    NodeInv cuid n log i { nd with pulled := nd.pulled + 1 } A := by
  obtain ⟨hp, hpo⟩ := List.getElem?_eq_some_iff.mp hl
  exact {
    life := N.life
    st := N.st
    valid := N.valid
    pushed_le := N.pushed_le
    pulled_le := hp
    own_eq := N.own_eq
    oth_eq := by
      show oth i A = oth i (log.take (nd.pulled + 1))
      rw [← List.take_append_getElem hp, hpo, oth_append, oth_single_self, List.append_nil]; exact N.oth_eq
    log_own := N.log_own
    clock_cuid := N.clock_cuid
    clock_era := N.clock_era
    lam_le := N.lam_le
    ent_ok := N.ent_ok
    buf_sorted := N.buf_sorted
    keys := N.keys
    causal := N.causal }

/-- node `i` applies the next log entry, written by another node and applicable -/
theorem pull_other (N : NodeInv cuid n log i nd A) {a : Nat} {o : Op} (hl : log[nd.pulled]? = some (a, o)) (ha : a ≠ i)
    {x : DOp} (hx : toDOp o = some x) (hv : ValuesOK x) (hg : GoodD (applyAllD Doc.empty (den A)) [x])
    (hk : ∀ e ∈ A, lkey e ≠ lkey (a, o)) (hent : EntOK cuid n (a, o)) :
    NodeInv cuid n log i { nd with r := (nd.r.execRemoteBase o).1, pulled := nd.pulled + 1 } (A ++ [(a, o)]) := by
  obtain ⟨hp, hpo⟩ := List.getElem?_eq_some_iff.mp hl
  have hden : den (A ++ [(a, o)]) = den A ++ [x] := by rw [den_append, den_single (e := (a, o)) hx]
  have hera : o.id.era = nd.r.opId.era := by rw [N.clock_era]; exact hent.2.2.1
  exact {
    life := .step N.life (.deliver _ _ N.st o x hx hg hera hv)
    st := by
      show (nd.r.execRemoteBase o).1.state = _
      rw [(execRemoteBase_is_applyD nd.r _ N.st o x hx hg).1, hden, applyAllD_append]; rfl
    valid := by
      rw [hden]
      exact valid_append.mpr ⟨N.valid, hg, trivial⟩
    pushed_le := by
      show nd.pushed ≤ (nd.r.execRemoteBase o).1.buffer.length
      rw [execRemoteBase_buffer]; exact N.pushed_le
    pulled_le := hp
    own_eq := by
      show own i (A ++ [(a, o)]) = (nd.r.execRemoteBase o).1.buffer.map _
      rw [execRemoteBase_buffer, own_append, own_single_ne ha, List.append_nil]; exact N.own_eq
    oth_eq := by
      show oth i (A ++ [(a, o)]) = oth i (log.take (nd.pulled + 1))
      rw [← List.take_append_getElem hp, hpo, oth_append, oth_append, N.oth_eq]
    log_own := by
      show own i log = ((nd.r.execRemoteBase o).1.buffer.take nd.pushed).map _
      rw [execRemoteBase_buffer]; exact N.log_own
    clock_cuid := by
      show (nd.r.execRemoteBase o).1.opId.cuid = _
      rw [execRemoteBase_opId, sync_cuid]; exact N.clock_cuid
    clock_era := by
      show (nd.r.execRemoteBase o).1.opId.era = _
      rw [execRemoteBase_opId, sync_era]; exact N.clock_era
    lam_le := by
      intro e he
      show _ ≤ (nd.r.execRemoteBase o).1.opId.lamport
      rw [execRemoteBase_opId]
      have := sync_lam nd.r.opId o.id.lamport
      rcases List.mem_append.mp he with h | h
      · exact Nat.le_trans (N.lam_le e h) this.1
      · simp only [List.mem_singleton] at h
        subst h
        exact this.2
    ent_ok := by
      intro e he
      rcases List.mem_append.mp he with h | h
      · exact N.ent_ok e h
      · simp only [List.mem_singleton] at h
        subst h
        exact hent
    buf_sorted := by
      show (nd.r.execRemoteBase o).1.buffer.Pairwise _
      rw [execRemoteBase_buffer]; exact N.buf_sorted
    keys := by
      refine List.pairwise_append.mpr ⟨N.keys, List.pairwise_singleton _ _, ?_⟩
      intro e he e' he'
      simp only [List.mem_singleton] at he'
      subst he'
      exact hk e he
    causal := by
      intro P o' S hsplit k hk e he
      rcases snoc_split hsplit with ⟨_, _, h3⟩ | ⟨S', _, h2⟩
      · simp only [Prod.mk.injEq] at h3
        exact absurd h3.1.symm ha
      · exact N.causal P o' S' h2 k hk e he }

end NodeInv

theorem getElem?_set_some {α : Type} {l : List α} {i j : Nat} {a b : α} (h : (l.set i a)[j]? = some b) :
    (j = i ∧ b = a) ∨ (j ≠ i ∧ l[j]? = some b) := by
  rw [List.getElem?_set] at h
  by_cases hij : i = j
  · subst hij
    rw [if_pos rfl] at h
    split at h
    · simp only [Option.some.injEq] at h
      exact Or.inl ⟨rfl, h.symm⟩
    · cases h
  · rw [if_neg hij] at h
    exact Or.inr ⟨fun e => hij e.symm, h⟩

theorem inv_init {cuid : Nat → String} {n : Nat} (hc : CuidsDistinct cuid n) :
    Inv cuid n (Net.init cuid n) (fun _ => []) := by
  refine ⟨hc, by simp [Net.init], ?_, by simp [Net.init], by simp [Net.init]⟩
  intro i nd hi
  simp only [Net.init, List.getElem?_map] at hi
  cases hr : (List.range n)[i]? with
  | none => rw [hr] at hi; cases hi
  | some k =>
    rw [hr] at hi
    obtain ⟨hlt, hk⟩ := List.getElem?_eq_some_iff.mp hr
    simp only [List.getElem_range] at hk
    subst hk
    simp only [Option.map_some, Option.some.injEq] at hi
    subst hi
    exact {
      life := .new
      st := rfl
      valid := trivial
      pushed_le := Nat.le_refl _
      pulled_le := Nat.le_refl _
      own_eq := rfl
      oth_eq := rfl
      log_own := rfl
      clock_cuid := rfl
      clock_era := rfl
      lam_le := by intro e he; cases he
      ent_ok := by intro e he; cases he
      buf_sorted := List.Pairwise.nil
      keys := List.Pairwise.nil
      causal := by
        intro P o S h
        exact absurd h (by simp) }

namespace Inv
variable {cuid : Nat → String} {n : Nat} {net : Net} {ap : Nat → List LEnt}

theorem lt_of_node (I : Inv cuid n net ap) {i : Nat} {nd : Node} (hi : net.nodes[i]? = some nd) : i < n := by
  have := (List.getElem?_eq_some_iff.mp hi).1
  rw [I.len] at this; exact this

theorem call (I : Inv cuid n net ap) {i : Nat} {nd : Node} {c : Call} (hi : net.nodes[i]? = some nd) (hc : CallOK c) :
    ∃ ap', Inv cuid n ⟨net.nodes.set i { nd with r := (nd.r.call c).1 }, net.log⟩ ap' := by
  obtain ⟨A', hA'⟩ := (I.node i nd hi).call (I.lt_of_node hi) hc
  refine ⟨Function.update ap i A', I.distinct, by simp [I.len], ?_, I.log_auth, I.log_keys⟩
  intro j nd' hj
  rcases getElem?_set_some hj with ⟨rfl, rfl⟩ | ⟨hne, hj'⟩
  · rw [Function.update_self]; exact hA'
  · rw [Function.update_of_ne hne]; exact I.node j nd' hj'

theorem push (I : Inv cuid n net ap) {i : Nat} {nd : Node} {o : Op} (hi : net.nodes[i]? = some nd)
    (ho : nd.r.buffer[nd.pushed]? = some o) :
    Inv cuid n ⟨net.nodes.set i { nd with pushed := nd.pushed + 1 }, net.log ++ [(i, o)]⟩ ap := by
  have Ni := I.node i nd hi
  have hin := I.lt_of_node hi
  obtain ⟨hp, hpo⟩ := List.getElem?_eq_some_iff.mp ho
  have hob : o ∈ nd.r.buffer := List.mem_of_getElem? ho
  refine ⟨I.distinct, by simp [I.len], ?_, ?_, ?_⟩
  · intro j nd' hj
    rcases getElem?_set_some hj with ⟨rfl, rfl⟩ | ⟨hne, hj'⟩
    · exact Ni.push_self ho
    · exact (I.node j nd' hj').push_other (fun e => hne e.symm) o
  · intro e he
    rcases List.mem_append.mp he with h | h
    · exact I.log_auth e h
    · simp only [List.mem_singleton] at h
      subst h
      exact hin
  · refine List.pairwise_append.mpr ⟨I.log_keys, List.pairwise_singleton _ _, ?_⟩
    intro e he e' he'
    simp only [List.mem_singleton] at he'
    subst he'
    obtain ⟨nde, hne, hbe, hae⟩ := I.log_mem he
    intro e0
    simp only [lkey, Prod.mk.injEq] at e0
    by_cases hei : e.1 = i
    · obtain ⟨a, oe⟩ := e
      simp only at hei
      subst hei
      have h1 := Ni.log_take he
      obtain ⟨q, hq, hqe⟩ := List.mem_take_iff_getElem.mp h1
      have := List.pairwise_iff_getElem.mp Ni.buf_sorted q nd.pushed (by omega) hp (by omega)
      rw [hqe, hpo] at this
      simp only at e0
      omega
    · have h1 := ((I.node e.1 nde hne).ent_ok e hae).2.1
      have h2 := (Ni.ent_ok _ (Ni.buf_mem hob)).2.1
      simp only at h2
      rw [h1, h2] at e0
      exact hei (I.distinct e.1 i (I.log_auth e he) hin e0.2)

theorem pull (I : Inv cuid n net ap) {i : Nat} {nd : Node} {a : Nat} {o : Op} (hi : net.nodes[i]? = some nd)
    (hl : net.log[nd.pulled]? = some (a, o)) :
    ∃ ap', Inv cuid n ⟨net.nodes.set i { nd with r := if a = i then nd.r else (nd.r.execRemoteBase o).1,
                                                  pulled := nd.pulled + 1 }, net.log⟩ ap' := by
  have Ni := I.node i nd hi
  by_cases ha : a = i
  · subst ha
    refine ⟨ap, I.distinct, by simp [I.len], ?_, I.log_auth, I.log_keys⟩
    intro j nd' hj
    rcases getElem?_set_some hj with ⟨rfl, rfl⟩ | ⟨hne, hj'⟩
    · simp only [if_true]
      exact Ni.pull_own hl
    · exact I.node j nd' hj'
  · obtain ⟨x, hx, hv, hg, hk, hent⟩ := I.deliver hi hl ha
    refine ⟨Function.update ap i (ap i ++ [(a, o)]), I.distinct, by simp [I.len], ?_, I.log_auth, I.log_keys⟩
    intro j nd' hj
    rcases getElem?_set_some hj with ⟨rfl, rfl⟩ | ⟨hne, hj'⟩
    · rw [Function.update_self]
      simp only [if_neg ha]
      exact Ni.pull_other hl ha hx hv hg hk hent
    · rw [Function.update_of_ne hne]; exact I.node j nd' hj'

theorem step (I : Inv cuid n net ap) {net' : Net} (h : Step net net') : ∃ ap', Inv cuid n net' ap' := by
  cases h with
  | call i nd c hi hc => exact I.call hi hc
  | push i nd o hi ho => exact ⟨ap, I.push hi ho⟩
  | pull i nd a o hi hl => exact I.pull hi hl

end Inv

/-- **the invariant holds in every reachable state** -/
theorem inv_reach {cuid : Nat → String} {n : Nat} {net : Net} (h : Reach cuid n net) : ∃ ap, Inv cuid n net ap := by
  induction h with
  | init hc => exact ⟨_, inv_init hc⟩
  | step _ hs ih =>
    obtain ⟨ap, I⟩ := ih
    exact I.step hs

/-! ## 5. the theorems -/

/-- priority 1: in every reachable state every node has `DP.DocInv`, and its document IS (plain equality) the result of
    applying, from the empty document, a VALID sequence of remote operations: the ones it has applied -/
theorem net_nodes_applied {cuid : Nat → String} {n : Nat} : ∀ net, Reach cuid n net →
    ∃ applied : Nat → List DOp, ∀ i nd, net.nodes[i]? = some nd →
      DP.DocInv nd.r ∧ nd.r.state = .doc (applyAllD Doc.empty (applied i)) ∧ Valid Doc.empty (applied i) ∧
      Distinct (applied i) ∧ FreshIn Doc.empty (applied i) := by
  intro net h
  obtain ⟨ap, I⟩ := inv_reach h
  refine ⟨fun i => den (ap i), ?_⟩
  intro i nd hi
  have N := I.node i nd hi
  exact ⟨docInv_life _ _ _ N.life, N.st, N.valid, distinct_den N.keys, freshIn_den N.ent_ok⟩

/-- every delivery that the system performs is applicable: no hypothesis about applicability anywhere -/
theorem net_deliveries_applicable {cuid : Nat → String} {n : Nat} : ∀ net, Reach cuid n net →
    (∀ nd ∈ net.nodes, DP.DocInv nd.r) ∧
    (∀ (i : Nat) (nd : Node) (a : Nat) (o : Op) (d : Doc), net.nodes[i]? = some nd →
      net.log[nd.pulled]? = some (a, o) → a ≠ i → nd.r.state = .doc d → ∃ x, toDOp o = some x ∧ GoodD d [x]) := by
  intro net h
  obtain ⟨ap, I⟩ := inv_reach h
  constructor
  · intro nd hnd
    obtain ⟨i, hi⟩ := List.mem_iff_getElem?.mp hnd
    exact docInv_life _ _ _ (I.node i nd hi).life
  · intro i nd a o d hi hl ha hd
    obtain ⟨x, hx, _, hg, _, _⟩ := I.deliver hi hl ha
    have hst := (I.node i nd hi).st
    rw [hd] at hst
    simp only [DState.doc.injEq] at hst
    exact ⟨x, hx, hst ▸ hg⟩

/-- … hence a delivery never errs nor panics, IS `applyD`, and the receiving replica keeps the invariant -/
theorem net_deliveries_exact {cuid : Nat → String} {n : Nat} : ∀ net, Reach cuid n net →
    ∀ (i : Nat) (nd : Node) (a : Nat) (o : Op) (d : Doc), net.nodes[i]? = some nd →
      net.log[nd.pulled]? = some (a, o) → a ≠ i → nd.r.state = .doc d →
      ∃ x, toDOp o = some x ∧ GoodD d [x] ∧ ValuesOK x ∧ (nd.r.execRemoteBase o).2 = none ∧
        (nd.r.execRemoteBase o).1.state = .doc (applyD d x) ∧ DP.DocInv (nd.r.execRemoteBase o).1 := by
  intro net h i nd a o d hi hl ha hd
  obtain ⟨ap, I⟩ := inv_reach h
  obtain ⟨x, hx, hv, hg, _, hent⟩ := I.deliver hi hl ha
  have N := I.node i nd hi
  have hst := N.st
  rw [hd] at hst
  simp only [DState.doc.injEq] at hst
  have hg' : GoodD d [x] := hst ▸ hg
  obtain ⟨h1, h2⟩ := execRemoteBase_is_applyD nd.r d hd o x hx hg'
  refine ⟨x, hx, hg', hv, h2, h1, ?_⟩
  exact docInv_remote nd.r d hd (docInv_life _ _ _ N.life) o x hx hg' (by rw [N.clock_era]; exact hent.2.2.1) hv

namespace Inv
variable {cuid : Nat → String} {n : Nat} {net : Net} {ap : Nat → List LEnt}

/-- the ghost sequence of a node is a permutation of the operations it has applied -/
theorem den_perm (I : Inv cuid n net ap) {i : Nat} {nd : Node} (hi : net.nodes[i]? = some nd) :
    (den (ap i)).Perm ((appliedOps net.log i nd).filterMap toDOp) := by
  have N := I.node i nd hi
  have h1 : (ap i).Perm (own i (ap i) ++ oth i (ap i)) := (List.filter_append_perm _ _).symm
  rw [N.own_eq, N.oth_eq] at h1
  have h2 := (h1.map (·.2)).filterMap toDOp
  have e1 : ((ap i).map (·.2)).filterMap toDOp = den (ap i) := by
    simp only [den, List.filterMap_map]; rfl
  have e2 : (nd.r.buffer.map (fun o => (i, o)) ++ oth i (net.log.take nd.pulled)).map (·.2) =
      appliedOps net.log i nd := by
    simp [appliedOps, List.map_append, List.map_map]
  rw [e1, e2] at h2
  exact h2

end Inv

/-- THE theorem: two nodes that have consumed the same operations hold ASim-equal documents and show the same canonical
    JSON value -/
theorem net_same_operations_same_document {cuid : Nat → String} {n : Nat} : ∀ net, Reach cuid n net →
    ∀ i j (hi : i < net.nodes.length) (hj : j < net.nodes.length) di dj,
    net.nodes[i].r.state = .doc di → net.nodes[j].r.state = .doc dj → SameOps net i j →
    ASim di dj ∧ di.view.canon = dj.view.canon := by
  intro net h i j hi hj di dj hdi hdj hsame
  obtain ⟨ap, I⟩ := inv_reach h
  have hi' := List.getElem?_eq_getElem hi
  have hj' := List.getElem?_eq_getElem hj
  obtain ⟨ni, nj, hni, hnj, hperm⟩ := hsame
  rw [hi'] at hni
  rw [hj'] at hnj
  simp only [Option.some.injEq] at hni hnj
  subst hni hnj
  have Ni := I.node i _ hi'
  have Nj := I.node j _ hj'
  have hp : (den (ap i)).Perm (den (ap j)) :=
    ((I.den_perm hi').trans (hperm.filterMap toDOp)).trans (I.den_perm hj').symm
  have hs := causal_asim (den (ap i)) hp wf_doc_empty (distinct_den Ni.keys) (freshIn_den Ni.ent_ok) Ni.valid Nj.valid
  have e1 := Ni.st
  have e2 := Nj.st
  rw [hdi] at e1
  rw [hdj] at e2
  simp only [DState.doc.injEq] at e1 e2
  rw [← e1, ← e2] at hs
  refine ⟨hs, ?_⟩
  obtain ⟨d1, hs1, I1, k1⟩ := docInv_life _ _ _ Ni.life
  obtain ⟨d2, hs2, I2, k2⟩ := docInv_life _ _ _ Nj.life
  rw [hdi] at hs1
  rw [hdj] at hs2
  simp only [DState.doc.injEq] at hs1 hs2
  subst hs1 hs2
  have v1 := viewOK_of_dinv I1 k1
  have v2 := viewOK_of_dinv I2 k2
  exact asim_view_canon hs I1.wf v1.keys v2.keys v1.bounded v2.bounded v1.root

/-- a node that has pushed its whole buffer and consumed the whole log has applied exactly the operations of the log -/
theorem appliedOps_caught_up {cuid : Nat → String} {n : Nat} {net : Net} (h : Reach cuid n net) {k : Nat}
    (hk : k < net.nodes.length) (q1 : net.nodes[k].pushed = net.nodes[k].r.buffer.length)
    (q2 : net.nodes[k].pulled = net.log.length) : (appliedOps net.log k net.nodes[k]).Perm (net.log.map (·.2)) := by
  obtain ⟨ap, I⟩ := inv_reach h
  have hk' := List.getElem?_eq_getElem hk
  have N := I.node k _ hk'
  have h1 : (own k net.log ++ oth k net.log).Perm net.log := List.filter_append_perm _ _
  have h2 := h1.map (·.2)
  rw [N.log_own, q1, List.take_length] at h2
  have e : appliedOps net.log k net.nodes[k] =
      (net.nodes[k].r.buffer.map (fun o => (k, o)) ++ oth k net.log).map (·.2) := by
    simp [appliedOps, q2, List.map_append, List.map_map]
  rw [e]
  exact h2

/-- two nodes that have pushed everything they issued and consumed the whole log have the same operations (whatever the
    other nodes still hold back) -/
theorem sameOps_of_caught_up {cuid : Nat → String} {n : Nat} {net : Net} (h : Reach cuid n net) {i j : Nat}
    (hi : i < net.nodes.length) (hj : j < net.nodes.length)
    (pi : net.nodes[i].pushed = net.nodes[i].r.buffer.length) (li : net.nodes[i].pulled = net.log.length)
    (pj : net.nodes[j].pushed = net.nodes[j].r.buffer.length) (lj : net.nodes[j].pulled = net.log.length) :
    SameOps net i j :=
  ⟨_, _, List.getElem?_eq_getElem hi, List.getElem?_eq_getElem hj,
    (appliedOps_caught_up h hi pi li).trans (appliedOps_caught_up h hj pj lj).symm⟩

/-- at quiescence every node has applied the whole log -/
theorem sameOps_of_quiescent {cuid : Nat → String} {n : Nat} {net : Net} (h : Reach cuid n net) (hq : Quiescent net)
    {i j : Nat} (hi : i < net.nodes.length) (hj : j < net.nodes.length) : SameOps net i j := by
  obtain ⟨a1, a2⟩ := hq _ (List.getElem_mem hi)
  obtain ⟨b1, b2⟩ := hq _ (List.getElem_mem hj)
  exact sameOps_of_caught_up h hi hj a1 a2 b1 b2

/-- corollary: at quiescence (every buffer completely pushed, every node has consumed the whole log) all nodes agree -/
theorem net_quiescent_converged {cuid : Nat → String} {n : Nat} : ∀ net, Reach cuid n net → Quiescent net →
    ∀ i j (hi : i < net.nodes.length) (hj : j < net.nodes.length) di dj,
    net.nodes[i].r.state = .doc di → net.nodes[j].r.state = .doc dj →
    ASim di dj ∧ di.view.canon = dj.view.canon := by
  intro net h hq i j hi hj di dj hdi hdj
  exact net_same_operations_same_document net h i j hi hj di dj hdi hdj (sameOps_of_quiescent h hq hi hj)

/-! ## 6. non-vacuity: three nodes, eight calls, a complete run to quiescence

Node 0 puts an array with a nested object and a number under `k`; nodes 1 and 2 pull both.  Node 1 inserts two values (one
of them an array) into node 0's array and removes `k`; CONCURRENTLY node 2 puts a nested object and puts `k` again (same
lamport as the remove, larger client: the put wins); node 0 deletes the head of its array (concurrent to the insert).
Everything is pushed (node 2 first), every node pulls the whole log. -/
namespace Ex

def cu : Nat → String
  | 0 => "a" | 1 => "b" | _ => "c"
/-- the array node 0 creates -/
def arrId : Ts := ⟨0, 1, "a", 0⟩
def acts : List Act := [
  .call 0 (.dput Ts.oldest "arr" (.arr [.num 1, .obj [("x", .num 5)]])),
  .call 0 (.dput Ts.oldest "k" (.num 7)),
  .push 0, .push 0,
  .pull 1, .pull 1, .pull 2, .pull 2,
  .call 1 (.dinsert arrId 1 [.str "m", .arr [.num 3]]),
  .call 1 (.dremove Ts.oldest "k"),
  .call 2 (.dput Ts.oldest "o" (.obj [("p", .obj [("q", .num 1)])])),
  .call 2 (.dput Ts.oldest "k" (.num 9)),
  .call 0 (.ddelete arrId 0),
  .push 2, .push 1, .push 0, .push 1, .push 2,
  .pull 0, .pull 0, .pull 0, .pull 0, .pull 0, .pull 0, .pull 0,
  .pull 1, .pull 1, .pull 1, .pull 1, .pull 1,
  .pull 2, .pull 2, .pull 2, .pull 2, .pull 2]

def docOf (r : Replica) : Doc := match r.state with | .doc d => d | _ => Doc.empty
def finalNet : Net := ((Net.init cu 3).run acts).getD ⟨[], []⟩

theorem run_isSome : ((Net.init cu 3).run acts).isSome = true := by decide

theorem run_final : (Net.init cu 3).run acts = some finalNet := by
  have h := run_isSome
  unfold finalNet
  cases hr : (Net.init cu 3).run acts with
  | none => rw [hr] at h; cases h
  | some x => rfl

theorem cu_distinct : CuidsDistinct cu 3 := by
  intro i j hi hj h
  have h1 : i = 0 ∨ i = 1 ∨ i = 2 := by omega
  have h2 : j = 0 ∨ j = 1 ∨ j = 2 := by omega
  rcases h1 with rfl | rfl | rfl <;> rcases h2 with rfl | rfl | rfl <;> first | rfl | (exact absurd h (by decide))

theorem acts_ok : ∀ a ∈ acts, ActOK a := by
  intro a ha
  simp only [acts, List.mem_cons, List.mem_nil_iff, or_false] at ha
  rcases ha with rfl | rfl | rfl | rfl | rfl | rfl | rfl | rfl | rfl | rfl | rfl | rfl | rfl | rfl | rfl | rfl | rfl | rfl |
    rfl | rfl | rfl | rfl | rfl | rfl | rfl | rfl | rfl | rfl | rfl | rfl | rfl | rfl | rfl | rfl | rfl <;>
  first
    | trivial
    | (refine ⟨by simp [DP.CallKeysND, JKeysND, JKeysNDList, JKeysNDKvs], ?_⟩; intro h pos e; cases e)

theorem reach_final : Reach cu 3 finalNet := reach_run acts (.init cu_distinct) run_final acts_ok

theorem quiescent_final : Quiescent finalNet := by
  unfold Quiescent
  decide

theorem len_final : finalNet.nodes.length = 3 := by decide
def d0 : Doc := docOf (finalNet.nodes[0]'(by rw [len_final]; decide)).r
def d1 : Doc := docOf (finalNet.nodes[1]'(by rw [len_final]; decide)).r
def d2 : Doc := docOf (finalNet.nodes[2]'(by rw [len_final]; decide)).r

/-- seven operations went through the log -/
example : finalNet.log.length = 7 ∧ finalNet.log.map (·.1) = [0, 0, 2, 1, 0, 1, 2] := by decide

/-- `net_quiescent_converged` instantiated -/
example : ASim d0 d1 ∧ d0.view.canon = d1.view.canon :=
  net_quiescent_converged finalNet reach_final quiescent_final 0 1 (by decide) (by decide) d0 d1 rfl rfl
example : ASim d1 d2 ∧ d1.view.canon = d2.view.canon :=
  net_quiescent_converged finalNet reach_final quiescent_final 1 2 (by decide) (by decide) d1 d2 rfl rfl

/-- … and the common view -/
example : (d0.view.canon == .obj [("arr", .arr [.str "m", .arr [.num 3], .obj [("x", .num 5)]]), ("k", .num 9),
    ("o", .obj [("p", .obj [("q", .num 1)])])]) = true ∧
    (d1.view.canon == d0.view.canon) = true ∧ (d2.view.canon == d0.view.canon) = true := by decide

/-- a state in the middle of the run: node 2 (which has issued two operations of its own that nobody had seen) is about to
    receive node 1's insert into the array that node 0 created -/
def midNet : Net := ((Net.init cu 3).run (acts.take 31)).getD ⟨[], []⟩
theorem mid_isSome : ((Net.init cu 3).run (acts.take 31)).isSome = true := by decide
theorem run_mid : (Net.init cu 3).run (acts.take 31) = some midNet := by
  have h := mid_isSome
  unfold midNet
  cases hr : (Net.init cu 3).run (acts.take 31) with
  | none => rw [hr] at h; cases h
  | some x => rfl
theorem reach_mid : Reach cu 3 midNet :=
  reach_run (acts.take 31) (.init cu_distinct) run_mid (fun a ha => acts_ok a (List.mem_of_mem_take ha))

theorem len_mid : midNet.nodes.length = 3 := by decide
def nd2 : Node := midNet.nodes[2]'(by rw [len_mid]; decide)
def oIns : Op := ⟨⟨0, 3, "b", 1⟩, .docInsert arrId 0 (some ⟨0, 1, "a", 1⟩) [.str "m", .arr [.num 3]]⟩
def xIns : DOp := .a (.ins arrId ⟨0, 1, "a", 1⟩ ⟨0, 3, "b", 0⟩ [.str "m", .arr [.num 3]])

example : nd2.pulled = 3 ∧ nd2.pushed = 2 := by decide

/-- `net_deliveries_applicable` instantiated: the enabled delivery is applicable -/
example : GoodD (docOf nd2.r) [xIns] := by
  obtain ⟨x, hx, hg⟩ :=
    (net_deliveries_applicable midNet reach_mid).2 2 nd2 1 oIns (docOf nd2.r) rfl rfl (by decide) rfl
  have e : toDOp oIns = some xIns := rfl
  rw [e] at hx
  simp only [Option.some.injEq] at hx
  exact hx ▸ hg

/-- `net_same_operations_same_document` instantiated in this NON-quiescent state: nodes 0 and 1 have pushed everything and
    consumed the whole log, node 2 has not -/
example : ¬ Quiescent midNet := by
  unfold Quiescent
  decide

def m0 : Doc := docOf (midNet.nodes[0]'(by rw [len_mid]; decide)).r
def m1 : Doc := docOf (midNet.nodes[1]'(by rw [len_mid]; decide)).r

example : ASim m0 m1 ∧ m0.view.canon = m1.view.canon :=
  net_same_operations_same_document midNet reach_mid 0 1 (by decide) (by decide) m0 m1 rfl rfl
    (sameOps_of_caught_up reach_mid (by decide) (by decide) (by decide) (by decide) (by decide) (by decide))

end Ex

end Orda.DNet
