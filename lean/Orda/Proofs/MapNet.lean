/-
Maps and counters converge over the server log — NO causal / distinct-timestamp hypothesis (C01/C02/C05 for the LWW map
and the counter, end to end).  Everything lives in namespace `Orda.MNet`.  Template: Proofs/DocNet.lean.

THE SYSTEM (§2), parameterised by the datatype `typ : DtType` (the theorems are about `.map` and `.counter`).
`Node` = the real replica model `Replica` + `pushed` (how many operations of `r.buffer` are in the log) + `pulled` (how
many log entries it has consumed).  `Net` = the nodes + ONE server log of (author, wire operation).
`Net.init typ cuid n`: `n` fresh subscribers `Replica.new typ (cuid i) false`.  `Step`:
  * `call i c` — ANY public call `c : Call`, through `Replica.call`.  NO call is excluded: reads, refused calls
    (`mput ""`, `mput k null`, `mremove` of a key that is absent or a tombstone), calls of the other datatypes (`inc` on
    a map, `mput`/`mremove`/`msize` on a counter, every list and document call) are all steps of the system; they leave
    the replica alone (`map_call_cases`, `counter_call_cases`: `(r.call c).1 = r`, the consumed identifier is rolled back);
  * `push i` — the next unpushed operation of node `i`'s buffer goes to the end of the log (buffer order);
  * `pull i` — the next log entry for node `i`: skipped when `i` wrote it, otherwise `r := (r.execRemoteBase o).1`.
`Reach typ cuid n net`: reachable from `Net.init typ cuid n`; `Reach.init` carries `CuidsDistinct cuid n` (client
identifiers pairwise distinct) — the ONLY assumption.  `appliedOps`, `SameOps`, `Quiescent`, `Net.act`/`Net.run`
(`step_of_act`, `reach_run`) as in DocNet.

RESULTS (§5), none of them with a hypothesis about causality or timestamps:
  map
  * `mnet_nodes_applied` — the map of every node IS (plain equality) `mapApplyAll LwwMap.empty (applied i)`, and
    `MapCausal (applied i)`, `DistinctTs (applied i)`, `(applied i).Perm (appliedOps …)`; `mnet_state_is_map`;
  * `mnet_same_operations_same_reads` — THE theorem: same operations ⇒ same `get` of every key, same `Size`, same JSON
    view, in four forms: pointwise lookup in `live`, `live` up to a permutation, EQUAL `sortedView` (live bindings sorted
    by key), EQUAL `jsonView` (`(JVal.obj live).canon`, the canonical JSON value used for documents).  Plain equality of
    the `LwwMap` states is false (`ExMap`: the run below ends with the keys in the orders x,y,z,w and x,y,w,z);
  * `mnet_quiescent_converged`; `sameOps_of_caught_up`, `sameOps_of_quiescent`;
  * `mnet_reads_are_spec` — C02: `get k = Spec.mapGet (appliedOps …) k`, `Size = (Spec.mapView (appliedOps …)).length`;
  * `mnet_deliveries_exact` — every delivery is a put/remove, a remove finds its key (never `DatatypeNoTarget`), no
    error, no panic, the state after IS `mapApply`.
  counter
  * `cnet_nodes_applied`, `cnet_value_is_spec` (the state IS `.counter (Spec.counter (appliedOps …))`),
    `cnet_same_operations_same_state` (plain equality of the states), `cnet_quiescent_converged`,
    `cnet_deliveries_exact`.
Nothing of the task is missing; no call had to be excluded.

HOW.  §1: `sem typ ops` (the state after the remote application of `ops`), `OpOK typ` (the operations of the datatype),
`Needs typ o P` (a remove of `k` needs a put of `k` in `P`; nothing else needs anything), `Causal typ ops`
(⇒ `MapCausal`, `mapCausal_of_causal`).  `call_cases`: a call is a no-op or queues ONE operation `o` with the next
identifier, the new state is `sem typ (ops ++ [o])` (local put = remote put verbatim; a local remove that succeeds found the
key live and older, so it IS the remote remove: `removeLocal_eq_removeRemote`), and `Needs typ o ops` (`put_of_live`: a
live key was put by an applied operation, by `MapInv`).  `remote_cases`: a delivery is `sem typ (ops ++ [o])`.
§3: the invariant `Inv` with ghost state `ap i` (the log-tagged operations node `i` has applied, in order) — the DocNet
invariant with `st`/`causal_ops` in place of the document fields: own entries of `ap i` are the buffer, the others are
the consumed log entries of the others, the log entries of `i` are its pushed buffer prefix, the clock dominates,
(lamport, client) keys pairwise different (⇒ `DistinctTs`; `syncLamport` never lowers the clock, `OpId.next` raises it,
authors differ in the client identifier), and CAUSALITY (`NodeInv.causal`): whatever precedes an own operation `o` in
`ap i` sits in the log before `o`.  `Inv.deliver`: hence what the author had applied before `o` is contained in what any
node about to consume `o` has applied, and `Needs` is monotone.  §4: the steps keep `Inv`.
§6: `ExMap` (three nodes, thirteen calls incl. a concurrent put and remove of one key, a remove of a key put by another
node, four refused calls; run to quiescence; the theorems instantiated; the common view by `decide`; a mid-run delivery;
a non-quiescent `SameOps` state) and `ExCounter` (eight calls, three refused, int32 overflow).
-/
import Orda.Proofs.MapCounter
import Orda.Model.Api
import Orda.Proofs.DocConv
import Batteries.Data.List.Perm
set_option linter.unusedSimpArgs false
set_option linter.unusedVariables false
namespace Orda.MNet
open Orda

/-! ## 1. the two flat datatypes: what a state means, which operations travel, what an operation needs -/

/-- the state of a replica of type `typ` that has applied (remote application) the operations `ops`, from the fresh state -/
def sem : DtType → List Op → DState
  | .counter, ops => .counter (ops.foldl counterApply 0)
  | .map, ops => .map (mapApplyAll LwwMap.empty ops)
  | t, _ => DState.fresh t

/-- the operations a replica of type `typ` issues -/
def OpOK : DtType → Op → Prop
  | .map, o => isMapOp o = true
  | .counter, o => ∃ d, o.body = .increase d
  | _, _ => False

/-- what an operation needs among the operations applied before it: a remove of `k` needs a put of `k` -/
def Needs : DtType → Op → List Op → Prop
  | .map, o, P => ∀ k, o.body = .remove k → ∃ o' ∈ P, ∃ v, o'.body = .put k v
  | _, _, _ => True

/-- every operation of the sequence has what it needs before it -/
def Causal (typ : DtType) (ops : List Op) : Prop := ∀ P o S, ops = P ++ o :: S → Needs typ o P

/-- the datatypes of this file -/
def Flat (typ : DtType) : Prop := typ = .map ∨ typ = .counter

theorem needs_mono {typ : DtType} {o : Op} {P P' : List Op} (h : Needs typ o P) (hs : P ⊆ P') : Needs typ o P' := by
  cases typ <;> simp only [Needs] at h ⊢
  intro k hk
  obtain ⟨o', ho', v, hv⟩ := h k hk
  exact ⟨o', hs ho', v, hv⟩

theorem snoc_split {α : Type} {A P S : List α} {e f : α} (h : A ++ [e] = P ++ f :: S) :
    (S = [] ∧ P = A ∧ f = e) ∨ ∃ S', S = S' ++ [e] ∧ A = P ++ f :: S' := by
  rcases List.eq_nil_or_concat S with rfl | ⟨S', s, rfl⟩
  · obtain ⟨h1, h2⟩ := List.append_inj' h rfl
    simp only [List.cons.injEq, and_true] at h2
    exact Or.inl ⟨rfl, h1.symm, h2.symm⟩
  · rw [List.concat_eq_append] at h ⊢
    have h' : A ++ [e] = (P ++ f :: S') ++ [s] := by simpa using h
    obtain ⟨h1, h2⟩ := List.append_inj' h' rfl
    simp only [List.cons.injEq, and_true] at h2
    exact Or.inr ⟨S', by rw [h2], h1⟩

theorem causal_nil (typ : DtType) : Causal typ [] := by
  intro P o S h
  exact absurd h (by simp)

theorem causal_snoc {typ : DtType} {ops : List Op} {o : Op} (hc : Causal typ ops) (hn : Needs typ o ops) :
    Causal typ (ops ++ [o]) := by
  intro P o' S hsplit
  rcases snoc_split hsplit with ⟨_, hP, ho⟩ | ⟨S', _, h2⟩
  · subst hP; subst ho; exact hn
  · exact hc P o' S' h2

/-- `Causal .map` is `MapCausal` of Proofs/MapCounter.lean -/
theorem mapCausal_of_causal {ops : List Op} (hc : Causal .map ops) : MapCausal ops := by
  intro i hi k hb
  have hsplit : ops = ops.take i ++ ops[i] :: ops.drop (i + 1) := by
    rw [List.getElem_cons_drop, List.take_append_drop]
  obtain ⟨o', ho', v, hv⟩ := hc _ _ _ hsplit k hb
  obtain ⟨j, hj, hje⟩ := List.mem_take_iff_getElem.mp ho'
  have hji : j < i := by
    have := Nat.lt_min.mp hj
    exact this.1
  exact ⟨j, hji, v, by rw [hje]; exact hv⟩

/-! ### a public call: nothing, or ONE operation whose remote application IS the new state -/

theorem next_rollBack (L : OpId) : L.next.rollBack = L := by
  cases L; simp [OpId.next, OpId.rollBack]

theorem call_op {r : Replica} {c : Call} {b : OpBody} {post : Ret → Ret} (h : c.prepare r.state = .op b post) :
    (r.call c).1 = (r.callLocal b).1 := by
  simp [Replica.call, h]

theorem call_done {r : Replica} {c : Call} {o : Outcome Ret} (h : c.prepare r.state = .done o) :
    (r.call c).1 = r := by
  simp [Replica.call, h]

theorem callLocal_err (r : Replica) (b : OpBody) (hm : b.isMeta = false) (c : Nat)
    (h : execLocal r.state r.opId.next.ts b = .err c) : (r.callLocal b).1 = r := by
  simp [Replica.callLocal, Replica.execLocalBase, hm, h, next_rollBack]

theorem callLocal_ok (r : Replica) (b : OpBody) (hm : b.isMeta = false) (s' : DState) (b' : OpBody) (ret : Ret)
    (h : execLocal r.state r.opId.next.ts b = .ok (s', b', ret)) :
    (r.callLocal b).1.buffer = r.buffer ++ [(⟨r.opId.next, b'⟩ : Op).wire] ∧ (r.callLocal b).1.opId = r.opId.next ∧
    (r.callLocal b).1.state = s' := by
  simp [Replica.callLocal, Replica.execLocalBase, hm, h]

/-- a call on a map replica: ANY call.  It leaves the replica alone (reads, refused calls, calls of other datatypes,
    a remove of a key that is not live) or queues one put / remove whose REMOTE application is the state after the call;
    a queued remove found its key live -/
theorem map_call_cases (r : Replica) (m : LwwMap) (hs : r.state = .map m) (c : Call) :
    (r.call c).1 = r ∨ ∃ o, (r.call c).1.buffer = r.buffer ++ [o] ∧ o.id = r.opId.next ∧
      (r.call c).1.opId = r.opId.next ∧ (r.call c).1.state = .map (mapApply m o) ∧ isMapOp o = true ∧
      (∀ k, o.body = .remove k → ∃ e, m.find k = some e ∧ e.v.isSome = true) := by
  cases c with
  | mput k v =>
    by_cases hk : (k = "" || v.isNull) = true
    · left; exact call_done (o := .err Err.illegalParameters) (by simp only [Call.prepare, hk, if_true])
    · right
      have hp : Call.prepare r.state (.mput k v) = .op (.put k v) id := by simp only [Call.prepare, hk]; rfl
      have h := callLocal_ok r (.put k v) rfl (.map (m.putCommon k v r.opId.next.ts).1) (.put k v)
        (.val (m.putCommon k v r.opId.next.ts).2) (by simp [execLocal, hs])
      refine ⟨⟨r.opId.next, .put k v⟩, ?_⟩
      rw [call_op hp]
      refine ⟨h.1, rfl, h.2.1, ?_, rfl, ?_⟩
      · rw [h.2.2]; rfl
      · intro k' hk'; cases hk'
  | mremove k =>
    by_cases hk : k = ""
    · left; exact call_done (o := .err Err.illegalParameters) (by simp only [Call.prepare, hk, if_true])
    · have hp : Call.prepare r.state (.mremove k) = .op (.remove k) id := by simp only [Call.prepare, hk]; rfl
      rw [call_op hp]
      cases hf : m.find k with
      | none =>
        left
        exact callLocal_err r _ rfl Err.noOp (by simp [execLocal, hs, LwwMap.removeLocal, hf])
      | some old =>
        by_cases hc : (old.v.isSome && old.t.cmp r.opId.next.ts == .lt) = true
        · right
          have h := callLocal_ok r (.remove k) rfl (.map (m.removeLocal k r.opId.next.ts).1) (.remove k)
            (.val old.v) (by simp [execLocal, hs, LwwMap.removeLocal, hf, hc])
          refine ⟨⟨r.opId.next, .remove k⟩, h.1, rfl, h.2.1, ?_, rfl, ?_⟩
          · rw [h.2.2]
            simp only [Bool.and_eq_true, beq_iff_eq] at hc
            show _ = DState.map (m.removeRemote k r.opId.next.ts).1
            rw [removeLocal_eq_removeRemote m k _ old hf hc.1 hc.2]
          · intro k' hk'
            cases hk'
            simp only [Bool.and_eq_true] at hc
            exact ⟨old, hf, hc.1⟩
        · left
          exact callLocal_err r _ rfl Err.noOp (by simp [execLocal, hs, LwwMap.removeLocal, hf, hc])
  | inc d =>
    left
    rw [call_op (b := .increase d) (post := id) rfl]
    exact callLocal_err r _ rfl Err.illegalOperation (by simp [execLocal, hs])
  | _ => left; simp [Replica.call, Call.prepare, hs]

/-- a call on a counter replica: ANY call.  An increase queues itself; everything else leaves the replica alone -/
theorem counter_call_cases (r : Replica) (v : Int) (hs : r.state = .counter v) (c : Call) :
    (r.call c).1 = r ∨ ∃ o, (r.call c).1.buffer = r.buffer ++ [o] ∧ o.id = r.opId.next ∧
      (r.call c).1.opId = r.opId.next ∧ (r.call c).1.state = .counter (counterApply v o) ∧
      ∃ d, o.body = .increase d := by
  cases c with
  | inc d =>
    right
    rw [call_op (b := .increase d) (post := id) rfl]
    have h := callLocal_ok r (.increase d) rfl (.counter (counterIncrease v d)) (.increase d)
      (.int (counterIncrease v d)) (by simp [execLocal, hs])
    exact ⟨⟨r.opId.next, .increase d⟩, h.1, rfl, h.2.1, h.2.2, d, rfl⟩
  | mput k v =>
    left
    by_cases hk : (k = "" || v.isNull) = true
    · exact call_done (o := .err Err.illegalParameters) (by simp only [Call.prepare, hk, if_true])
    · have hp : Call.prepare r.state (.mput k v) = .op (.put k v) id := by simp only [Call.prepare, hk]; rfl
      rw [call_op hp]
      exact callLocal_err r _ rfl Err.illegalOperation (by simp [execLocal, hs])
  | mremove k =>
    left
    by_cases hk : k = ""
    · exact call_done (o := .err Err.illegalParameters) (by simp only [Call.prepare, hk, if_true])
    · have hp : Call.prepare r.state (.mremove k) = .op (.remove k) id := by simp only [Call.prepare, hk]; rfl
      rw [call_op hp]
      exact callLocal_err r _ rfl Err.illegalOperation (by simp [execLocal, hs])
  | _ => left; simp [Replica.call, Call.prepare, hs]

/-- the key of a live entry was put by an applied operation -/
theorem put_of_live {ops : List Op} {m : LwwMap} (hinv : MapInv m ops) {k : String} {e : MEntry}
    (hf : m.find k = some e) (hl : e.v.isSome = true) : ∃ o' ∈ ops, ∃ v, o'.body = .put k v := by
  have h := hinv k
  rw [hf] at h
  cases hmax : Spec.maxBy (fun (o : Op) => o.id.ts) (Spec.mapKeyOps k ops) with
  | none => rw [hmax] at h; cases h
  | some y =>
    rw [hmax] at h
    simp only [Option.map_some, Option.some.injEq] at h
    obtain ⟨hm, _⟩ := maxBy_spec _ _ _ hmax
    unfold Spec.mapKeyOps at hm
    rw [List.mem_filter] at hm
    obtain ⟨hy, hk⟩ := hm
    subst h
    cases hb : y.body with
    | put k' v =>
      rw [hb] at hk
      simp only [decide_eq_true_eq] at hk
      exact ⟨y, hy, v, by rw [hb, hk]⟩
    | _ => simp [entryOf, hb] at hl

/-- both datatypes: a public call either leaves the replica alone or queues ONE operation `o` with the next identifier;
    the state after the call is the state of a replica that has applied `ops ++ [o]`; `o` has what it needs in `ops` -/
theorem call_cases {typ : DtType} (hf : Flat typ) (r : Replica) (ops : List Op) (hs : r.state = sem typ ops)
    (hc : Causal typ ops) (c : Call) :
    (r.call c).1 = r ∨ ∃ o, (r.call c).1.buffer = r.buffer ++ [o] ∧ o.id = r.opId.next ∧
      (r.call c).1.opId = r.opId.next ∧ (r.call c).1.state = sem typ (ops ++ [o]) ∧ OpOK typ o ∧ Needs typ o ops := by
  rcases hf with rfl | rfl
  · rcases map_call_cases r _ hs c with h | ⟨o, h1, h2, h3, h4, h5, h6⟩
    · exact Or.inl h
    · refine Or.inr ⟨o, h1, h2, h3, ?_, h5, ?_⟩
      · rw [h4]; simp only [sem, mapApplyAll_snoc]
      · intro k hk
        obtain ⟨e, he, hl⟩ := h6 k hk
        exact put_of_live (mapInv_all ops (mapCausal_of_causal hc)) he hl
  · rcases counter_call_cases r _ hs c with h | ⟨o, h1, h2, h3, h4, h5⟩
    · exact Or.inl h
    · refine Or.inr ⟨o, h1, h2, h3, ?_, h5, trivial⟩
      rw [h4]; simp only [sem, List.foldl_append, List.foldl_cons, List.foldl_nil]

/-- both datatypes: the delivery of an operation of the datatype IS its remote application -/
theorem remote_cases {typ : DtType} (hf : Flat typ) (r : Replica) (ops : List Op) (hs : r.state = sem typ ops)
    (o : Op) (hok : OpOK typ o) :
    (r.execRemoteBase o).1.state = sem typ (ops ++ [o]) ∧ (r.execRemoteBase o).2 = none := by
  rcases hf with rfl | rfl
  · simp only [sem, mapApplyAll_snoc] at hs ⊢
    rcases isMapOp_cases o hok with ⟨k, v, hb⟩ | ⟨k, hb⟩
    · simp [Replica.execRemoteBase, execRemote, hs, hb, mapApply]
    · simp [Replica.execRemoteBase, execRemote, hs, hb, mapApply]
  · obtain ⟨d, hb⟩ := hok
    simp only [sem, List.foldl_append, List.foldl_cons, List.foldl_nil] at hs ⊢
    simp [Replica.execRemoteBase, execRemote, hs, hb, counterApply]

theorem execRemoteBase_buffer (r : Replica) (o : Op) : (r.execRemoteBase o).1.buffer = r.buffer := by
  unfold Replica.execRemoteBase; split <;> rfl

theorem execRemoteBase_opId (r : Replica) (o : Op) :
    (r.execRemoteBase o).1.opId = r.opId.syncLamport o.id.lamport := by
  unfold Replica.execRemoteBase; split <;> rfl

theorem sync_cuid (L : OpId) (k : Nat) : (L.syncLamport k).cuid = L.cuid := by
  unfold OpId.syncLamport; split <;> rfl
theorem sync_lam (L : OpId) (k : Nat) : L.lamport ≤ (L.syncLamport k).lamport ∧ k ≤ (L.syncLamport k).lamport := by
  unfold OpId.syncLamport; split <;> simp <;> omega

/-! ## 2. the system: replicas of ONE flat datatype around ONE server log -/

/-- one client: the real replica model, how many operations of its buffer are in the log, how many log entries it has
    consumed -/
structure Node where
  r : Replica
  pushed : Nat
  pulled : Nat

/-- an entry of the server log: (author, wire operation) -/
abbrev LEnt := Nat × Op

structure Net where
  nodes : List Node
  log : List LEnt

/-- every node is a fresh subscriber `Replica.new typ (cuid i) false` (`typ` is `.map` or `.counter` in the theorems);
    nothing pushed or pulled; empty log -/
def Net.init (typ : DtType) (cuid : Nat → String) (n : Nat) : Net :=
  ⟨(List.range n).map fun i => ⟨Replica.new typ (cuid i) false, 0, 0⟩, []⟩

/-- client identifiers of the `n` nodes are pairwise distinct -/
def CuidsDistinct (cuid : Nat → String) (n : Nat) : Prop := ∀ i j, i < n → j < n → cuid i = cuid j → i = j

/-- the steps.  Calls are NOT restricted: any public `Call` (of any datatype, valid or not) -/
inductive Step : Net → Net → Prop
  /-- node `i` issues the public call `c` -/
  | call (net : Net) (i : Nat) (nd : Node) (c : Call) (hi : net.nodes[i]? = some nd) :
      Step net ⟨net.nodes.set i { nd with r := (nd.r.call c).1 }, net.log⟩
  /-- the next unpushed operation of node `i`'s buffer is appended to the log (buffer order) -/
  | push (net : Net) (i : Nat) (nd : Node) (o : Op) (hi : net.nodes[i]? = some nd)
      (ho : nd.r.buffer[nd.pushed]? = some o) :
      Step net ⟨net.nodes.set i { nd with pushed := nd.pushed + 1 }, net.log ++ [(i, o)]⟩
  /-- node `i` consumes its next log entry: skipped if `i` is the author, otherwise delivered with `execRemoteBase` -/
  | pull (net : Net) (i : Nat) (nd : Node) (a : Nat) (o : Op) (hi : net.nodes[i]? = some nd)
      (hl : net.log[nd.pulled]? = some (a, o)) :
      Step net ⟨net.nodes.set i { nd with r := if a = i then nd.r else (nd.r.execRemoteBase o).1,
                                          pulled := nd.pulled + 1 }, net.log⟩

/-- the reachable states of the system of `n` replicas of type `typ` with the (pairwise distinct) client identifiers
    `cuid 0 … cuid (n-1)` -/
inductive Reach (typ : DtType) (cuid : Nat → String) (n : Nat) : Net → Prop
  | init (hc : CuidsDistinct cuid n) : Reach typ cuid n (Net.init typ cuid n)
  | step {net net' : Net} : Reach typ cuid n net → Step net net' → Reach typ cuid n net'

/-- the entries of `l` written by `i` / by the others -/
def own (i : Nat) (l : List LEnt) : List LEnt := l.filter fun e => e.1 == i
def oth (i : Nat) (l : List LEnt) : List LEnt := l.filter fun e => !(e.1 == i)

/-- the operations node `nd` (number `i`) has applied: its own buffer and the log entries of the others among the first
    `pulled` ones -/
def appliedOps (log : List LEnt) (i : Nat) (nd : Node) : List Op :=
  nd.r.buffer ++ (oth i (log.take nd.pulled)).map (·.2)

/-- nodes `i` and `j` have applied the same multiset of operations -/
def SameOps (net : Net) (i j : Nat) : Prop :=
  ∃ ni nj, net.nodes[i]? = some ni ∧ net.nodes[j]? = some nj ∧
    (appliedOps net.log i ni).Perm (appliedOps net.log j nj)

/-- every buffer completely pushed, every node has consumed the whole log -/
def Quiescent (net : Net) : Prop :=
  ∀ nd ∈ net.nodes, nd.pushed = nd.r.buffer.length ∧ nd.pulled = net.log.length

/-! ### the executable form (for concrete runs) -/

inductive Act where
  | call (i : Nat) (c : Call)
  | push (i : Nat)
  | pull (i : Nat)

def Net.act (net : Net) : Act → Option Net
  | .call i c =>
    match net.nodes[i]? with
    | some nd => some ⟨net.nodes.set i { nd with r := (nd.r.call c).1 }, net.log⟩
    | none => none
  | .push i =>
    match net.nodes[i]? with
    | some nd =>
      match nd.r.buffer[nd.pushed]? with
      | some o => some ⟨net.nodes.set i { nd with pushed := nd.pushed + 1 }, net.log ++ [(i, o)]⟩
      | none => none
    | none => none
  | .pull i =>
    match net.nodes[i]? with
    | some nd =>
      match net.log[nd.pulled]? with
      | some (a, o) =>
        some ⟨net.nodes.set i { nd with r := if a = i then nd.r else (nd.r.execRemoteBase o).1,
                                        pulled := nd.pulled + 1 }, net.log⟩
      | none => none
    | none => none

def Net.run (net : Net) : List Act → Option Net
  | [] => some net
  | a :: as => match net.act a with
    | some net' => net'.run as
    | none => none

theorem step_of_act {net net' : Net} {a : Act} (h : net.act a = some net') : Step net net' := by
  cases a with
  | call i c =>
    simp only [Net.act] at h
    cases hn : net.nodes[i]? with
    | none => rw [hn] at h; cases h
    | some nd =>
      rw [hn] at h
      simp only [Option.some.injEq] at h
      subst h
      exact .call net i nd c hn
  | push i =>
    simp only [Net.act] at h
    cases hn : net.nodes[i]? with
    | none => rw [hn] at h; cases h
    | some nd =>
      rw [hn] at h
      simp only at h
      cases ho : nd.r.buffer[nd.pushed]? with
      | none => rw [ho] at h; cases h
      | some o =>
        rw [ho] at h
        simp only [Option.some.injEq] at h
        subst h
        exact .push net i nd o hn ho
  | pull i =>
    simp only [Net.act] at h
    cases hn : net.nodes[i]? with
    | none => rw [hn] at h; cases h
    | some nd =>
      rw [hn] at h
      simp only at h
      cases hl : net.log[nd.pulled]? with
      | none => rw [hl] at h; cases h
      | some e =>
        obtain ⟨a, o⟩ := e
        rw [hl] at h
        simp only [Option.some.injEq] at h
        subst h
        exact .pull net i nd a o hn hl

theorem reach_run {typ : DtType} {cuid : Nat → String} {n : Nat} : ∀ (as : List Act) {net net' : Net},
    Reach typ cuid n net → net.run as = some net' → Reach typ cuid n net'
  | [], _, _, hr, h => by
    simp only [Net.run, Option.some.injEq] at h
    exact h ▸ hr
  | a :: as, net, net', hr, h => by
    simp only [Net.run] at h
    cases ha : net.act a with
    | none => rw [ha] at h; cases h
    | some net1 =>
      rw [ha] at h
      exact reach_run as (.step hr (step_of_act ha)) h

/-! ## 3. the invariant (ghost state: per node the sequence `ap i` of the log-tagged operations it has applied) -/

/-- the operations of a sequence of entries -/
def opsOf (l : List LEnt) : List Op := l.map (·.2)
/-- what identifies an operation: (lamport, client) -/
def lkey (e : LEnt) : Nat × String := (e.2.id.lamport, e.2.id.cuid)

/-- what is known about every operation of the system -/
def EntOK (typ : DtType) (cuid : Nat → String) (n : Nat) (e : LEnt) : Prop :=
  e.1 < n ∧ e.2.id.cuid = cuid e.1 ∧ OpOK typ e.2

structure NodeInv (typ : DtType) (cuid : Nat → String) (n : Nat) (log : List LEnt) (i : Nat) (nd : Node)
    (A : List LEnt) : Prop where
  st : nd.r.state = sem typ (opsOf A)
  causal_ops : Causal typ (opsOf A)
  pushed_le : nd.pushed ≤ nd.r.buffer.length
  pulled_le : nd.pulled ≤ log.length
  own_eq : own i A = nd.r.buffer.map (fun o => (i, o))
  oth_eq : oth i A = oth i (log.take nd.pulled)
  log_own : own i log = (nd.r.buffer.take nd.pushed).map (fun o => (i, o))
  clock_cuid : nd.r.opId.cuid = cuid i
  lam_le : ∀ e ∈ A, e.2.id.lamport ≤ nd.r.opId.lamport
  ent_ok : ∀ e ∈ A, EntOK typ cuid n e
  buf_sorted : nd.r.buffer.Pairwise (fun o o' => o.id.lamport < o'.id.lamport)
  keys : A.Pairwise (fun e e' => lkey e ≠ lkey e')
  /-- CAUSALITY: what node `i` had applied when it issued `o` is in the log before `o` -/
  causal : ∀ P o S, A = P ++ (i, o) :: S → ∀ k, log[k]? = some (i, o) → ∀ e ∈ P, e ∈ log.take k

structure Inv (typ : DtType) (cuid : Nat → String) (n : Nat) (net : Net) (ap : Nat → List LEnt) : Prop where
  flat : Flat typ
  distinct : CuidsDistinct cuid n
  len : net.nodes.length = n
  node : ∀ i nd, net.nodes[i]? = some nd → NodeInv typ cuid n net.log i nd (ap i)
  log_auth : ∀ e ∈ net.log, e.1 < n
  log_keys : net.log.Pairwise (fun e e' => lkey e ≠ lkey e')

/-! ### lists of entries -/

theorem mem_own {i : Nat} {l : List LEnt} {e : LEnt} : e ∈ own i l ↔ e ∈ l ∧ e.1 = i := by
  simp [own]
theorem mem_oth {i : Nat} {l : List LEnt} {e : LEnt} : e ∈ oth i l ↔ e ∈ l ∧ e.1 ≠ i := by
  simp [oth]
theorem own_append (i : Nat) (l l' : List LEnt) : own i (l ++ l') = own i l ++ own i l' := by
  simp [own]
theorem oth_append (i : Nat) (l l' : List LEnt) : oth i (l ++ l') = oth i l ++ oth i l' := by
  simp [oth]
theorem own_single_self (i : Nat) (o : Op) : own i [(i, o)] = [(i, o)] := by simp [own]
theorem oth_single_self (i : Nat) (o : Op) : oth i [(i, o)] = [] := by simp [oth]
theorem own_single_ne {i a : Nat} (h : a ≠ i) (o : Op) : own i [(a, o)] = [] := by simp [own, h]
theorem oth_single_ne {i a : Nat} (h : a ≠ i) (o : Op) : oth i [(a, o)] = [(a, o)] := by simp [oth, h]
theorem own_cons_self (i : Nat) (o : Op) (l : List LEnt) : own i ((i, o) :: l) = (i, o) :: own i l := by simp [own]

theorem opsOf_append (l l' : List LEnt) : opsOf (l ++ l') = opsOf l ++ opsOf l' := by simp [opsOf]
theorem opsOf_single (e : LEnt) : opsOf [e] = [e.2] := rfl

theorem nodup_of_keys {l : List LEnt} (h : l.Pairwise (fun e e' => lkey e ≠ lkey e')) : l.Nodup :=
  List.nodup_iff_pairwise_ne.mpr (h.imp (fun hk e0 => hk (by rw [e0])))

/-- operations with different (lamport, client) carry timestamps that `Ts.cmp` tells apart -/
theorem distinctTs_of_keys {l : List LEnt} (h : l.Pairwise (fun e e' => lkey e ≠ lkey e')) : DistinctTs (opsOf l) := by
  unfold DistinctTs opsOf
  rw [List.pairwise_map]
  refine h.imp ?_
  intro e e' hk e0
  apply hk
  have := (cmp_eq_iff _ _).mp e0
  simp only [Ts.key, OpId.ts, Prod.mk.injEq] at this
  simp only [lkey, Prod.mk.injEq]
  exact this.2

/-! ### what the invariant says about the log -/

namespace NodeInv
variable {typ : DtType} {cuid : Nat → String} {n : Nat} {log : List LEnt} {i : Nat} {nd : Node} {A : List LEnt}

theorem buf_mem (N : NodeInv typ cuid n log i nd A) {o : Op} (h : o ∈ nd.r.buffer) : (i, o) ∈ A := by
  have : (i, o) ∈ own i A := by rw [N.own_eq]; exact List.mem_map.mpr ⟨o, h, rfl⟩
  exact (mem_own.mp this).1

theorem mem_buf (N : NodeInv typ cuid n log i nd A) {o : Op} (h : (i, o) ∈ A) : o ∈ nd.r.buffer := by
  have : (i, o) ∈ own i A := mem_own.mpr ⟨h, rfl⟩
  rw [N.own_eq] at this
  obtain ⟨o', h1, h2⟩ := List.mem_map.mp this
  simp only [Prod.mk.injEq, true_and] at h2
  exact h2 ▸ h1

theorem log_take (N : NodeInv typ cuid n log i nd A) {o : Op} (h : (i, o) ∈ log) :
    o ∈ nd.r.buffer.take nd.pushed := by
  have : (i, o) ∈ own i log := mem_own.mpr ⟨h, rfl⟩
  rw [N.log_own] at this
  obtain ⟨o', h1, h2⟩ := List.mem_map.mp this
  simp only [Prod.mk.injEq, true_and] at h2
  exact h2 ▸ h1

/-- every consumed log entry has been applied -/
theorem mem_of_log (N : NodeInv typ cuid n log i nd A) {e : LEnt} (h : e ∈ log.take nd.pulled) : e ∈ A := by
  by_cases he : e.1 = i
  · obtain ⟨a, o⟩ := e
    simp only at he
    subst he
    exact N.buf_mem (List.mem_of_mem_take (N.log_take (List.mem_of_mem_take h)))
  · have : e ∈ oth i A := by rw [N.oth_eq]; exact mem_oth.mpr ⟨h, he⟩
    exact (mem_oth.mp this).1

theorem buf_lam (N : NodeInv typ cuid n log i nd A) {o : Op} (h : o ∈ nd.r.buffer) :
    o.id.lamport ≤ nd.r.opId.lamport :=
  N.lam_le _ (N.buf_mem h)

end NodeInv

namespace Inv
variable {typ : DtType} {cuid : Nat → String} {n : Nat} {net : Net} {ap : Nat → List LEnt}

theorem log_mem (I : Inv typ cuid n net ap) {e : LEnt} (h : e ∈ net.log) :
    ∃ nd, net.nodes[e.1]? = some nd ∧ e.2 ∈ nd.r.buffer.take nd.pushed ∧ e ∈ ap e.1 := by
  have hlt : e.1 < net.nodes.length := by rw [I.len]; exact I.log_auth e h
  refine ⟨net.nodes[e.1], List.getElem?_eq_getElem hlt, ?_⟩
  have N := I.node e.1 _ (List.getElem?_eq_getElem hlt)
  obtain ⟨a, o⟩ := e
  have h1 := N.log_take h
  exact ⟨h1, N.buf_mem (List.mem_of_mem_take h1)⟩

/-- **causal delivery, derived**: the operation a node is about to consume is an operation of the datatype, has what it
    needs among the operations the node has applied, and is new there -/
theorem deliver (I : Inv typ cuid n net ap) {j : Nat} {nd : Node} {a : Nat} {o : Op} (hj : net.nodes[j]? = some nd)
    (hl : net.log[nd.pulled]? = some (a, o)) (ha : a ≠ j) :
    Needs typ o (opsOf (ap j)) ∧ (∀ e ∈ ap j, lkey e ≠ lkey (a, o)) ∧ EntOK typ cuid n (a, o) := by
  have hmem : (a, o) ∈ net.log := List.mem_of_getElem? hl
  obtain ⟨nda, hna, hbuf, hapa⟩ := I.log_mem hmem
  simp only at hna hbuf hapa
  have Na := I.node a nda hna
  have Nj := I.node j nd hj
  have hent := Na.ent_ok _ hapa
  obtain ⟨han, hcu, hok⟩ := hent
  simp only at han hcu hok
  obtain ⟨P, S, hsplit⟩ := List.append_of_mem hapa
  have hc := Na.causal P o S hsplit nd.pulled hl
  have hsubset : P ⊆ ap j := fun e he => Nj.mem_of_log (hc e he)
  have hneeds : Needs typ o (opsOf P) := by
    apply Na.causal_ops (opsOf P) o (opsOf S)
    rw [hsplit]; simp [opsOf]
  refine ⟨needs_mono hneeds (List.map_subset _ hsubset), ?_, ⟨han, hcu, hok⟩⟩
  intro e he
  by_cases hej : e.1 = j
  · have := (Nj.ent_ok e he).2.1
    intro e0
    simp only [lkey, Prod.mk.injEq] at e0
    rw [this, hcu, hej] at e0
    have hjn : j < n := by
      have := (List.getElem?_eq_some_iff.mp hj).1
      rw [I.len] at this; exact this
    exact ha (I.distinct j a hjn han e0.2).symm
  · have h1 : e ∈ oth j (ap j) := mem_oth.mpr ⟨he, hej⟩
    rw [Nj.oth_eq] at h1
    obtain ⟨k', hk', hek⟩ := List.mem_take_iff_getElem.mp (mem_oth.mp h1).1
    obtain ⟨hp, hpe⟩ := List.getElem?_eq_some_iff.mp hl
    have := List.pairwise_iff_getElem.mp I.log_keys k' nd.pulled (by omega) hp (by omega)
    rw [hek, hpe] at this
    exact this

end Inv

/-! ## 4. the steps keep the invariant -/

namespace NodeInv
variable {typ : DtType} {cuid : Nat → String} {n : Nat} {log : List LEnt} {i : Nat} {nd : Node} {A : List LEnt}

/-- a call at node `i` -/
theorem call (N : NodeInv typ cuid n log i nd A) (hf : Flat typ) (hi : i < n) (c : Call) :
    ∃ A', NodeInv typ cuid n log i { nd with r := (nd.r.call c).1 } A' := by
  rcases call_cases hf nd.r (opsOf A) N.st N.causal_ops c with h | ⟨o, hbuf, hid, hop, hst, hok, hneeds⟩
  · refine ⟨A, ?_⟩
    rw [h]
    exact N
  · refine ⟨A ++ [(i, o)], ?_⟩
    have hops : opsOf (A ++ [(i, o)]) = opsOf A ++ [o] := by rw [opsOf_append]; rfl
    have hlam : o.id.lamport = nd.r.opId.lamport + 1 := by rw [hid]; rfl
    have hnotlog : (i, o) ∉ log := by
      intro hm
      have := N.buf_lam (List.mem_of_mem_take (N.log_take hm))
      omega
    exact {
      st := by
        show (nd.r.call c).1.state = _
        rw [hst, hops]
      causal_ops := by
        rw [hops]
        exact causal_snoc N.causal_ops hneeds
      pushed_le := by
        show nd.pushed ≤ (nd.r.call c).1.buffer.length
        rw [hbuf]; simp; exact Nat.le_succ_of_le N.pushed_le
      pulled_le := N.pulled_le
      own_eq := by
        show own i (A ++ [(i, o)]) = (nd.r.call c).1.buffer.map _
        rw [hbuf, own_append, own_single_self, N.own_eq]; simp
      oth_eq := by
        show oth i (A ++ [(i, o)]) = _
        rw [oth_append, oth_single_self, List.append_nil]; exact N.oth_eq
      log_own := by
        show own i log = ((nd.r.call c).1.buffer.take nd.pushed).map _
        rw [hbuf, List.take_append_of_le_length N.pushed_le]; exact N.log_own
      clock_cuid := by
        show (nd.r.call c).1.opId.cuid = _
        rw [hop]; exact N.clock_cuid
      lam_le := by
        intro e he
        show _ ≤ (nd.r.call c).1.opId.lamport
        rw [hop]
        show _ ≤ nd.r.opId.lamport + 1
        rcases List.mem_append.mp he with h | h
        · exact Nat.le_succ_of_le (N.lam_le e h)
        · simp only [List.mem_singleton] at h
          subst h
          exact Nat.le_of_eq hlam
      ent_ok := by
        intro e he
        rcases List.mem_append.mp he with h | h
        · exact N.ent_ok e h
        · simp only [List.mem_singleton] at h
          subst h
          refine ⟨hi, ?_, hok⟩
          show o.id.cuid = cuid i
          rw [hid]; exact N.clock_cuid
      buf_sorted := by
        show (nd.r.call c).1.buffer.Pairwise _
        rw [hbuf]
        refine List.pairwise_append.mpr ⟨N.buf_sorted, List.pairwise_singleton _ _, ?_⟩
        intro o' ho' o'' ho''
        simp only [List.mem_singleton] at ho''
        subst ho''
        have := N.buf_lam ho'
        omega
      keys := by
        refine List.pairwise_append.mpr ⟨N.keys, List.pairwise_singleton _ _, ?_⟩
        intro e he e' he'
        simp only [List.mem_singleton] at he'
        subst he'
        intro e0
        have := N.lam_le e he
        simp only [lkey, Prod.mk.injEq] at e0
        omega
      causal := by
        intro P o' S hsplit k hk e he
        rcases snoc_split hsplit with ⟨_, _, h3⟩ | ⟨S', _, h2⟩
        · simp only [Prod.mk.injEq, true_and] at h3
          subst h3
          exact absurd (List.mem_of_getElem? hk) hnotlog
        · exact N.causal P o' S' h2 k hk e he }

/-- node `i` pushes its next operation -/
theorem push_self (N : NodeInv typ cuid n log i nd A) {o : Op} (ho : nd.r.buffer[nd.pushed]? = some o) :
    NodeInv typ cuid n (log ++ [(i, o)]) i { nd with pushed := nd.pushed + 1 } A := by
  obtain ⟨hp, hpo⟩ := List.getElem?_eq_some_iff.mp ho
  exact {
    st := N.st
    causal_ops := N.causal_ops
    pushed_le := hp
    pulled_le := by
      show nd.pulled ≤ (log ++ [(i, o)]).length
      simp; exact Nat.le_succ_of_le N.pulled_le
    own_eq := N.own_eq
    oth_eq := by
      show oth i A = oth i ((log ++ [(i, o)]).take nd.pulled)
      rw [List.take_append_of_le_length N.pulled_le]; exact N.oth_eq
    log_own := by
      show own i (log ++ [(i, o)]) = (nd.r.buffer.take (nd.pushed + 1)).map _
      rw [own_append, own_single_self, N.log_own, ← List.take_append_getElem hp, hpo]; simp
    clock_cuid := N.clock_cuid
    lam_le := N.lam_le
    ent_ok := N.ent_ok
    buf_sorted := N.buf_sorted
    keys := N.keys
    causal := by
      intro P o' S hsplit k hk e he
      have hlen : k < (log ++ [(i, o)]).length := (List.getElem?_eq_some_iff.mp hk).1
      by_cases hk' : k < log.length
      · rw [List.getElem?_append_left hk'] at hk
        rw [List.take_append_of_le_length (Nat.le_of_lt hk')]
        exact N.causal P o' S hsplit k hk e he
      · have hk'' : k = log.length := by
          simp only [List.length_append, List.length_cons, List.length_nil] at hlen; omega
        subst hk''
        rw [List.getElem?_append_right (Nat.le_refl _)] at hk
        simp only [Nat.sub_self, List.getElem?_cons_zero, Option.some.injEq, Prod.mk.injEq, true_and] at hk
        subst hk
        rw [List.take_append_of_le_length (Nat.le_refl _), List.take_length]
        have heA : e ∈ A := by rw [hsplit]; simp [he]
        by_cases hei : e.1 = i
        · obtain ⟨a, oe⟩ := e
          simp only at hei
          subst hei
          -- own entries are in lamport order
          have hso : (own a A).Pairwise (fun e e' => e.2.id.lamport < e'.2.id.lamport) := by
            rw [N.own_eq, List.pairwise_map]; exact N.buf_sorted
          rw [hsplit, own_append, own_cons_self] at hso
          have hlt : oe.id.lamport < o.id.lamport :=
            (List.pairwise_append.mp hso).2.2 (a, oe) (mem_own.mpr ⟨he, rfl⟩) (a, o) (by simp)
          have hb := N.mem_buf heA
          obtain ⟨q, hq, hqe⟩ := List.getElem_of_mem hb
          have hqp : q < nd.pushed := by
            apply Classical.byContradiction
            intro hge
            by_cases hqe' : q = nd.pushed
            · subst hqe'
              rw [hpo] at hqe
              subst hqe
              omega
            · have := List.pairwise_iff_getElem.mp N.buf_sorted nd.pushed q hp hq (by omega)
              rw [hpo, hqe] at this
              omega
          have : (a, oe) ∈ own a log := by
            rw [N.log_own]
            exact List.mem_map.mpr ⟨oe, List.mem_take_iff_getElem.mpr ⟨q, by omega, hqe⟩, rfl⟩
          exact (mem_own.mp this).1
        · have : e ∈ oth i A := mem_oth.mpr ⟨heA, hei⟩
          rw [N.oth_eq] at this
          exact List.mem_of_mem_take (mem_oth.mp this).1 }

/-- another node pushes -/
theorem push_other (N : NodeInv typ cuid n log i nd A) {a : Nat} (ha : a ≠ i) (o : Op) :
    NodeInv typ cuid n (log ++ [(a, o)]) i nd A := by
  exact {
    st := N.st
    causal_ops := N.causal_ops
    pushed_le := N.pushed_le
    pulled_le := by simp; exact Nat.le_succ_of_le N.pulled_le
    own_eq := N.own_eq
    oth_eq := by rw [List.take_append_of_le_length N.pulled_le]; exact N.oth_eq
    log_own := by rw [own_append, own_single_ne ha, List.append_nil]; exact N.log_own
    clock_cuid := N.clock_cuid
    lam_le := N.lam_le
    ent_ok := N.ent_ok
    buf_sorted := N.buf_sorted
    keys := N.keys
    causal := by
      intro P o' S hsplit k hk e he
      have hlen : k < (log ++ [(a, o)]).length := (List.getElem?_eq_some_iff.mp hk).1
      by_cases hk' : k < log.length
      · rw [List.getElem?_append_left hk'] at hk
        rw [List.take_append_of_le_length (Nat.le_of_lt hk')]
        exact N.causal P o' S hsplit k hk e he
      · have hk'' : k = log.length := by
          simp only [List.length_append, List.length_cons, List.length_nil] at hlen; omega
        subst hk''
        rw [List.getElem?_append_right (Nat.le_refl _)] at hk
        simp only [Nat.sub_self, List.getElem?_cons_zero, Option.some.injEq, Prod.mk.injEq] at hk
        exact absurd hk.1 ha }

/-- node `i` skips its own log entry -/
theorem pull_own (N : NodeInv typ cuid n log i nd A) {o : Op} (hl : log[nd.pulled]? = some (i, o)) :
    NodeInv typ cuid n log i { nd with pulled := nd.pulled + 1 } A := by
  obtain ⟨hp, hpo⟩ := List.getElem?_eq_some_iff.mp hl
  exact {
    st := N.st
    causal_ops := N.causal_ops
    pushed_le := N.pushed_le
    pulled_le := hp
    own_eq := N.own_eq
    oth_eq := by
      show oth i A = oth i (log.take (nd.pulled + 1))
      rw [← List.take_append_getElem hp, hpo, oth_append, oth_single_self, List.append_nil]; exact N.oth_eq
    log_own := N.log_own
    clock_cuid := N.clock_cuid
    lam_le := N.lam_le
    ent_ok := N.ent_ok
    buf_sorted := N.buf_sorted
    keys := N.keys
    causal := N.causal }

/-- node `i` applies the next log entry, written by another node -/
theorem pull_other (N : NodeInv typ cuid n log i nd A) (hf : Flat typ) {a : Nat} {o : Op}
    (hl : log[nd.pulled]? = some (a, o)) (ha : a ≠ i) (hneeds : Needs typ o (opsOf A))
    (hk : ∀ e ∈ A, lkey e ≠ lkey (a, o)) (hent : EntOK typ cuid n (a, o)) :
    NodeInv typ cuid n log i { nd with r := (nd.r.execRemoteBase o).1, pulled := nd.pulled + 1 } (A ++ [(a, o)]) := by
  obtain ⟨hp, hpo⟩ := List.getElem?_eq_some_iff.mp hl
  have hops : opsOf (A ++ [(a, o)]) = opsOf A ++ [o] := by rw [opsOf_append]; rfl
  exact {
    st := by
      show (nd.r.execRemoteBase o).1.state = _
      rw [hops]
      exact (remote_cases hf nd.r (opsOf A) N.st o hent.2.2).1
    causal_ops := by
      rw [hops]
      exact causal_snoc N.causal_ops hneeds
    pushed_le := by
      show nd.pushed ≤ (nd.r.execRemoteBase o).1.buffer.length
      rw [execRemoteBase_buffer]; exact N.pushed_le
    pulled_le := hp
    own_eq := by
      show own i (A ++ [(a, o)]) = (nd.r.execRemoteBase o).1.buffer.map _
      rw [execRemoteBase_buffer, own_append, own_single_ne ha, List.append_nil]; exact N.own_eq
    oth_eq := by
      show oth i (A ++ [(a, o)]) = oth i (log.take (nd.pulled + 1))
      rw [← List.take_append_getElem hp, hpo, oth_append, oth_append, N.oth_eq]
    log_own := by
      show own i log = ((nd.r.execRemoteBase o).1.buffer.take nd.pushed).map _
      rw [execRemoteBase_buffer]; exact N.log_own
    clock_cuid := by
      show (nd.r.execRemoteBase o).1.opId.cuid = _
      rw [execRemoteBase_opId, sync_cuid]; exact N.clock_cuid
    lam_le := by
      intro e he
      show _ ≤ (nd.r.execRemoteBase o).1.opId.lamport
      rw [execRemoteBase_opId]
      have := sync_lam nd.r.opId o.id.lamport
      rcases List.mem_append.mp he with h | h
      · exact Nat.le_trans (N.lam_le e h) this.1
      · simp only [List.mem_singleton] at h
        subst h
        exact this.2
    ent_ok := by
      intro e he
      rcases List.mem_append.mp he with h | h
      · exact N.ent_ok e h
      · simp only [List.mem_singleton] at h
        subst h
        exact hent
    buf_sorted := by
      show (nd.r.execRemoteBase o).1.buffer.Pairwise _
      rw [execRemoteBase_buffer]; exact N.buf_sorted
    keys := by
      refine List.pairwise_append.mpr ⟨N.keys, List.pairwise_singleton _ _, ?_⟩
      intro e he e' he'
      simp only [List.mem_singleton] at he'
      subst he'
      exact hk e he
    causal := by
      intro P o' S hsplit k hk e he
      rcases snoc_split hsplit with ⟨_, _, h3⟩ | ⟨S', _, h2⟩
      · simp only [Prod.mk.injEq] at h3
        exact absurd h3.1.symm ha
      · exact N.causal P o' S' h2 k hk e he }

end NodeInv

theorem getElem?_set_some {α : Type} {l : List α} {i j : Nat} {a b : α} (h : (l.set i a)[j]? = some b) :
    (j = i ∧ b = a) ∨ (j ≠ i ∧ l[j]? = some b) := by
  rw [List.getElem?_set] at h
  by_cases hij : i = j
  · subst hij
    rw [if_pos rfl] at h
    split at h
    · simp only [Option.some.injEq] at h
      exact Or.inl ⟨rfl, h.symm⟩
    · cases h
  · rw [if_neg hij] at h
    exact Or.inr ⟨fun e => hij e.symm, h⟩

/-- the ghost state after node `i` has applied one more operation -/
def upd (ap : Nat → List LEnt) (i : Nat) (A : List LEnt) : Nat → List LEnt := fun j => if j = i then A else ap j
theorem upd_self (ap : Nat → List LEnt) (i : Nat) (A : List LEnt) : upd ap i A i = A := by simp [upd]
theorem upd_of_ne {ap : Nat → List LEnt} {i j : Nat} (h : j ≠ i) (A : List LEnt) : upd ap i A j = ap j := by
  simp [upd, h]

theorem sem_nil {typ : DtType} (hf : Flat typ) : sem typ [] = DState.fresh typ := by
  rcases hf with rfl | rfl <;> rfl

theorem inv_init {typ : DtType} {cuid : Nat → String} {n : Nat} (hf : Flat typ) (hc : CuidsDistinct cuid n) :
    Inv typ cuid n (Net.init typ cuid n) (fun _ => []) := by
  refine ⟨hf, hc, by simp [Net.init], ?_, by simp [Net.init], by simp [Net.init]⟩
  intro i nd hi
  simp only [Net.init, List.getElem?_map] at hi
  cases hr : (List.range n)[i]? with
  | none => rw [hr] at hi; cases hi
  | some k =>
    rw [hr] at hi
    obtain ⟨hlt, hk⟩ := List.getElem?_eq_some_iff.mp hr
    simp only [List.getElem_range] at hk
    subst hk
    simp only [Option.map_some, Option.some.injEq] at hi
    subst hi
    exact {
      st := (sem_nil hf).symm
      causal_ops := causal_nil typ
      pushed_le := Nat.le_refl _
      pulled_le := Nat.le_refl _
      own_eq := rfl
      oth_eq := rfl
      log_own := rfl
      clock_cuid := rfl
      lam_le := by intro e he; cases he
      ent_ok := by intro e he; cases he
      buf_sorted := List.Pairwise.nil
      keys := List.Pairwise.nil
      causal := by
        intro P o S h
        exact absurd h (by simp) }

namespace Inv
variable {typ : DtType} {cuid : Nat → String} {n : Nat} {net : Net} {ap : Nat → List LEnt}

theorem lt_of_node (I : Inv typ cuid n net ap) {i : Nat} {nd : Node} (hi : net.nodes[i]? = some nd) : i < n := by
  have := (List.getElem?_eq_some_iff.mp hi).1
  rw [I.len] at this; exact this

theorem call (I : Inv typ cuid n net ap) {i : Nat} {nd : Node} (c : Call) (hi : net.nodes[i]? = some nd) :
    ∃ ap', Inv typ cuid n ⟨net.nodes.set i { nd with r := (nd.r.call c).1 }, net.log⟩ ap' := by
  obtain ⟨A', hA'⟩ := (I.node i nd hi).call I.flat (I.lt_of_node hi) c
  refine ⟨upd ap i A', I.flat, I.distinct, by simp [I.len], ?_, I.log_auth, I.log_keys⟩
  intro j nd' hj
  rcases getElem?_set_some hj with ⟨rfl, rfl⟩ | ⟨hne, hj'⟩
  · rw [upd_self]; exact hA'
  · rw [upd_of_ne hne]; exact I.node j nd' hj'

theorem push (I : Inv typ cuid n net ap) {i : Nat} {nd : Node} {o : Op} (hi : net.nodes[i]? = some nd)
    (ho : nd.r.buffer[nd.pushed]? = some o) :
    Inv typ cuid n ⟨net.nodes.set i { nd with pushed := nd.pushed + 1 }, net.log ++ [(i, o)]⟩ ap := by
  have Ni := I.node i nd hi
  have hin := I.lt_of_node hi
  obtain ⟨hp, hpo⟩ := List.getElem?_eq_some_iff.mp ho
  have hob : o ∈ nd.r.buffer := List.mem_of_getElem? ho
  refine ⟨I.flat, I.distinct, by simp [I.len], ?_, ?_, ?_⟩
  · intro j nd' hj
    rcases getElem?_set_some hj with ⟨rfl, rfl⟩ | ⟨hne, hj'⟩
    · exact Ni.push_self ho
    · exact (I.node j nd' hj').push_other (fun e => hne e.symm) o
  · intro e he
    rcases List.mem_append.mp he with h | h
    · exact I.log_auth e h
    · simp only [List.mem_singleton] at h
      subst h
      exact hin
  · refine List.pairwise_append.mpr ⟨I.log_keys, List.pairwise_singleton _ _, ?_⟩
    intro e he e' he'
    simp only [List.mem_singleton] at he'
    subst he'
    obtain ⟨nde, hne, hbe, hae⟩ := I.log_mem he
    intro e0
    simp only [lkey, Prod.mk.injEq] at e0
    by_cases hei : e.1 = i
    · obtain ⟨a, oe⟩ := e
      simp only at hei
      subst hei
      have h1 := Ni.log_take he
      obtain ⟨q, hq, hqe⟩ := List.mem_take_iff_getElem.mp h1
      have := List.pairwise_iff_getElem.mp Ni.buf_sorted q nd.pushed (by omega) hp (by omega)
      rw [hqe, hpo] at this
      simp only at e0
      omega
    · have h1 := ((I.node e.1 nde hne).ent_ok e hae).2.1
      have h2 := (Ni.ent_ok _ (Ni.buf_mem hob)).2.1
      simp only at h2
      rw [h1, h2] at e0
      exact hei (I.distinct e.1 i (I.log_auth e he) hin e0.2)

theorem pull (I : Inv typ cuid n net ap) {i : Nat} {nd : Node} {a : Nat} {o : Op} (hi : net.nodes[i]? = some nd)
    (hl : net.log[nd.pulled]? = some (a, o)) :
    ∃ ap', Inv typ cuid n ⟨net.nodes.set i { nd with r := if a = i then nd.r else (nd.r.execRemoteBase o).1,
                                                      pulled := nd.pulled + 1 }, net.log⟩ ap' := by
  have Ni := I.node i nd hi
  by_cases ha : a = i
  · subst ha
    refine ⟨ap, I.flat, I.distinct, by simp [I.len], ?_, I.log_auth, I.log_keys⟩
    intro j nd' hj
    rcases getElem?_set_some hj with ⟨rfl, rfl⟩ | ⟨hne, hj'⟩
    · simp only [if_true]
      exact Ni.pull_own hl
    · exact I.node j nd' hj'
  · obtain ⟨hneeds, hk, hent⟩ := I.deliver hi hl ha
    refine ⟨upd ap i (ap i ++ [(a, o)]), I.flat, I.distinct, by simp [I.len], ?_, I.log_auth, I.log_keys⟩
    intro j nd' hj
    rcases getElem?_set_some hj with ⟨rfl, rfl⟩ | ⟨hne, hj'⟩
    · rw [upd_self]
      simp only [if_neg ha]
      exact Ni.pull_other I.flat hl ha hneeds hk hent
    · rw [upd_of_ne hne]; exact I.node j nd' hj'

theorem step (I : Inv typ cuid n net ap) {net' : Net} (h : Step net net') : ∃ ap', Inv typ cuid n net' ap' := by
  cases h with
  | call i nd c hi => exact I.call c hi
  | push i nd o hi ho => exact ⟨ap, I.push hi ho⟩
  | pull i nd a o hi hl => exact I.pull hi hl

/-- the ghost sequence of a node is a permutation of the operations it has applied -/
theorem ops_perm (I : Inv typ cuid n net ap) {i : Nat} {nd : Node} (hi : net.nodes[i]? = some nd) :
    (opsOf (ap i)).Perm (appliedOps net.log i nd) := by
  have N := I.node i nd hi
  have h1 : (ap i).Perm (own i (ap i) ++ oth i (ap i)) := (List.filter_append_perm _ _).symm
  rw [N.own_eq, N.oth_eq] at h1
  have h2 := h1.map (·.2)
  have e2 : (nd.r.buffer.map (fun o => (i, o)) ++ oth i (net.log.take nd.pulled)).map (·.2) =
      appliedOps net.log i nd := by
    simp [appliedOps, List.map_append, List.map_map, Function.comp_def]
  rw [e2] at h2
  exact h2

end Inv

/-- **the invariant holds in every reachable state** -/
theorem inv_reach {typ : DtType} {cuid : Nat → String} {n : Nat} {net : Net} (hf : Flat typ)
    (h : Reach typ cuid n net) : ∃ ap, Inv typ cuid n net ap := by
  induction h with
  | init hc => exact ⟨_, inv_init hf hc⟩
  | step _ hs ih =>
    obtain ⟨ap, I⟩ := ih
    exact I.step hs

/-! ## 5. the theorems -/

theorem flat_map : Flat .map := Or.inl rfl
theorem flat_counter : Flat .counter := Or.inr rfl

/-! ### the LWW map -/

/-- priority 1 (map): in every reachable state the map of every node IS (plain equality) what the remote application of
    the operations it has applied gives, from the empty map; that sequence is `MapCausal` (every remove comes after a put
    of its key), its timestamps are pairwise `DistinctTs`, and it is a permutation of `appliedOps` (the node's buffer and
    the consumed log entries of the others) -/
theorem mnet_nodes_applied {cuid : Nat → String} {n : Nat} : ∀ net, Reach .map cuid n net →
    ∃ applied : Nat → List Op, ∀ i nd, net.nodes[i]? = some nd →
      nd.r.state = .map (mapApplyAll LwwMap.empty (applied i)) ∧ MapCausal (applied i) ∧ DistinctTs (applied i) ∧
      (applied i).Perm (appliedOps net.log i nd) := by
  intro net h
  obtain ⟨ap, I⟩ := inv_reach flat_map h
  refine ⟨fun i => opsOf (ap i), ?_⟩
  intro i nd hi
  have N := I.node i nd hi
  exact ⟨N.st, mapCausal_of_causal N.causal_ops, distinctTs_of_keys N.keys, I.ops_perm hi⟩

/-- the live bindings of a map: no key twice -/
theorem live_keys_nodup {m : LwwMap} (h : m.WF) : (m.live.map (·.1)).Nodup := by
  have hsub : (m.live.map (·.1)).Sublist (m.entries.map (·.1)) := by
    unfold LwwMap.live
    generalize m.entries = l
    induction l with
    | nil => simp
    | cons x xs ih =>
      obtain ⟨k, e⟩ := x
      simp only [List.filterMap_cons, List.map_cons]
      cases hv : e.v with
      | none => simp only [Option.map_none]; exact ih.cons _
      | some w => simp only [Option.map_some, List.map_cons]; exact ih.cons_cons _
  exact hsub.nodup h.1

theorem mem_live_iff {m : LwwMap} (h : m.WF) (k : String) (v : JVal) : (k, v) ∈ m.live ↔ m.get k = some v := by
  rw [← live_lookup m h k]
  constructor
  · exact alFind_of_mem k v m.live (live_keys_nodup h)
  · exact alFind_some_mem k v m.live

theorem live_nodup {m : LwwMap} (h : m.WF) : m.live.Nodup := by
  have := live_keys_nodup h
  unfold List.Nodup at this ⊢
  rw [List.pairwise_map] at this
  exact this.imp (fun hne e0 => hne (by rw [e0]))

/-- insertion by key -/
def insKV (a : String × JVal) : List (String × JVal) → List (String × JVal)
  | [] => [a]
  | b :: l => if a.1 ≤ b.1 then a :: b :: l else b :: insKV a l

/-- the JSON view of a map with the keys in order: the live bindings, sorted by key (values untouched) -/
def sortedView (m : LwwMap) : List (String × JVal) := m.live.foldr insKV []

/-- the JSON view of a map as a canonical JSON value (keys sorted, recursively: `JVal.canon` of Model/Patch.lean, the
    form in which `net_same_operations_same_document` compares documents) -/
def jsonView (m : LwwMap) : JVal := (JVal.obj m.live).canon

theorem insKV_perm (a : String × JVal) : ∀ l, (insKV a l).Perm (a :: l)
  | [] => List.Perm.refl _
  | b :: l => by
    unfold insKV
    split
    · exact List.Perm.refl _
    · exact ((insKV_perm a l).cons b).trans (List.Perm.swap a b l)

theorem sortKV_perm : ∀ l : List (String × JVal), (l.foldr insKV []).Perm l
  | [] => List.Perm.refl _
  | a :: l => by
    rw [List.foldr_cons]
    exact (insKV_perm a _).trans ((sortKV_perm l).cons a)

theorem insKV_sorted (a : String × JVal) : ∀ l : List (String × JVal), l.Pairwise (fun x y => x.1 ≤ y.1) →
    (insKV a l).Pairwise (fun x y => x.1 ≤ y.1)
  | [], _ => List.pairwise_singleton _ _
  | b :: l, h => by
    unfold insKV
    rw [List.pairwise_cons] at h
    split
    · rename_i hab
      refine List.pairwise_cons.mpr ⟨?_, List.pairwise_cons.mpr h⟩
      intro c hc
      rcases List.mem_cons.mp hc with rfl | hc
      · exact hab
      · exact String.le_trans hab (h.1 c hc)
    · rename_i hab
      have hba : b.1 ≤ a.1 := (String.le_total a.1 b.1).resolve_left hab
      refine List.pairwise_cons.mpr ⟨?_, insKV_sorted a l h.2⟩
      intro c hc
      rcases List.mem_cons.mp ((insKV_perm a l).mem_iff.mp hc) with rfl | hc
      · exact hba
      · exact h.1 c hc

theorem sortKV_sorted : ∀ l : List (String × JVal), (l.foldr insKV []).Pairwise (fun x y => x.1 ≤ y.1)
  | [] => List.Pairwise.nil
  | a :: l => by
    rw [List.foldr_cons]
    exact insKV_sorted a _ (sortKV_sorted l)

theorem sortedView_perm (m : LwwMap) : (sortedView m).Perm m.live := sortKV_perm _
theorem sortedView_sorted (m : LwwMap) : (sortedView m).Pairwise (fun a b => a.1 ≤ b.1) := sortKV_sorted _

/-- two well-formed maps with the same `get` show the same JSON view: pointwise lookup in `live`, `live` up to the order
    of the association list, EQUAL key-sorted views, EQUAL canonical JSON values -/
theorem views_of_get_eq {mi mj : LwwMap} (hi : mi.WF) (hj : mj.WF) (hget : ∀ k, mi.get k = mj.get k) :
    (∀ k, alFind k mi.live = alFind k mj.live) ∧ mi.live.Perm mj.live ∧ sortedView mi = sortedView mj ∧
    jsonView mi = jsonView mj := by
  have hperm : mi.live.Perm mj.live := by
    apply (List.perm_ext_iff_of_nodup (live_nodup hi) (live_nodup hj)).mpr
    intro a
    obtain ⟨k, v⟩ := a
    rw [mem_live_iff hi, mem_live_iff hj, hget]
  have hlook : ∀ k, alFind k mi.live = alFind k mj.live := fun k => by
    rw [live_lookup mi hi, live_lookup mj hj, hget]
  refine ⟨hlook, hperm, ?_, ?_⟩
  · apply List.Perm.eq_of_pairwise (le := fun a b => a.1 ≤ b.1)
    · intro a b ha hb h1 h2
      have hk : a.1 = b.1 := String.le_antisymm h1 h2
      have ha' : a ∈ mi.live := (sortedView_perm mi).mem_iff.mp ha
      have hb' : b ∈ mi.live := hperm.mem_iff.mpr ((sortedView_perm mj).mem_iff.mp hb)
      obtain ⟨ka, va⟩ := a
      obtain ⟨kb, vb⟩ := b
      simp only at hk
      subst hk
      have e1 := (mem_live_iff hi _ _).mp ha'
      have e2 := (mem_live_iff hi _ _).mp hb'
      rw [e1] at e2
      simp only [Option.some.injEq] at e2
      rw [e2]
    · exact sortedView_sorted mi
    · exact sortedView_sorted mj
    · exact (sortedView_perm mi).trans (hperm.trans (sortedView_perm mj).symm)
  · unfold jsonView
    simp only [JVal.canon]
    rw [DC.canonKvs_ext (l := mi.live) (l' := mj.live) (fun k => by rw [hlook k])]

/-- the state of every node of a map system is a well-formed map (the hypotheses `… .r.state = .map m` of the theorems
    below can always be met) -/
theorem mnet_state_is_map {cuid : Nat → String} {n : Nat} : ∀ net, Reach .map cuid n net →
    ∀ nd ∈ net.nodes, ∃ m, nd.r.state = .map m ∧ m.WF := by
  intro net h nd hnd
  obtain ⟨ap, I⟩ := inv_reach flat_map h
  obtain ⟨i, hi⟩ := List.mem_iff_getElem?.mp hnd
  exact ⟨_, (I.node i nd hi).st, wf_mapApplyAll _ _ wf_empty⟩

/-- THE theorem (map): two nodes that have applied the same operations answer every read alike — `get` of every key,
    `Size`, and the JSON view (`live`): pointwise lookup, equality up to the order of the association list, and plain
    equality of the key-sorted views.  (Plain equality of the `LwwMap` states is false in general: the order of the
    association list is the order of first arrival.) -/
theorem mnet_same_operations_same_reads {cuid : Nat → String} {n : Nat} : ∀ net, Reach .map cuid n net →
    ∀ i j (hi : i < net.nodes.length) (hj : j < net.nodes.length) mi mj,
    net.nodes[i].r.state = .map mi → net.nodes[j].r.state = .map mj → SameOps net i j →
    (∀ k, mi.get k = mj.get k) ∧ mi.size = mj.size ∧
    (∀ k, alFind k mi.live = alFind k mj.live) ∧ mi.live.Perm mj.live ∧ sortedView mi = sortedView mj ∧
    jsonView mi = jsonView mj := by
  intro net h i j hi hj mi mj hmi hmj hsame
  obtain ⟨ap, I⟩ := inv_reach flat_map h
  have hi' := List.getElem?_eq_getElem hi
  have hj' := List.getElem?_eq_getElem hj
  obtain ⟨ni, nj, hni, hnj, hperm⟩ := hsame
  rw [hi'] at hni
  rw [hj'] at hnj
  simp only [Option.some.injEq] at hni hnj
  subst hni hnj
  have Ni := I.node i _ hi'
  have Nj := I.node j _ hj'
  have hp : (opsOf (ap i)).Perm (opsOf (ap j)) := ((I.ops_perm hi').trans hperm).trans (I.ops_perm hj').symm
  have e1 := Ni.st
  have e2 := Nj.st
  rw [hmi] at e1
  rw [hmj] at e2
  simp only [sem, DState.map.injEq] at e1 e2
  obtain ⟨hget, hsize⟩ := map_converge _ _ hp (mapCausal_of_causal Ni.causal_ops) (mapCausal_of_causal Nj.causal_ops)
    (distinctTs_of_keys Ni.keys)
  rw [← e1, ← e2] at hget hsize
  have wi : mi.WF := e1 ▸ wf_mapApplyAll _ _ wf_empty
  have wj : mj.WF := e2 ▸ wf_mapApplyAll _ _ wf_empty
  exact ⟨hget, hsize, views_of_get_eq wi wj hget⟩

/-- C02 for the map, end to end: what a node answers is a function of the operations it has applied (`appliedOps`: its
    buffer and the consumed log entries of the others) alone — every key holds what the timestamp rule `Spec.mapGet`
    says, `Size` is the number of live keys -/
theorem mnet_reads_are_spec {cuid : Nat → String} {n : Nat} : ∀ net, Reach .map cuid n net →
    ∀ (i : Nat) (nd : Node) (m : LwwMap), net.nodes[i]? = some nd → nd.r.state = .map m →
    (∀ k, m.get k = Spec.mapGet (appliedOps net.log i nd) k) ∧
    m.size = ((Spec.mapView (appliedOps net.log i nd)).length : Int) := by
  intro net h i nd m hi hm
  obtain ⟨ap, I⟩ := inv_reach flat_map h
  have N := I.node i nd hi
  have e1 := N.st
  rw [hm] at e1
  simp only [sem, DState.map.injEq] at e1
  have hd := distinctTs_of_keys N.keys
  have hget : ∀ k, m.get k = Spec.mapGet (appliedOps net.log i nd) k := by
    intro k
    rw [e1, map_denote _ (mapCausal_of_causal N.causal_ops) hd k, spec_mapGet_perm _ _ (I.ops_perm hi) hd k]
  exact ⟨hget, size_eq_of_get m _ (e1 ▸ wf_mapApplyAll _ _ wf_empty) hget⟩

/-- every delivery that the system performs (map) is a put or a remove; a remove finds its key in the map (never
    `DatatypeNoTarget`: CAUSALITY, derived); no error, no panic; the new state IS the remote application -/
theorem mnet_deliveries_exact {cuid : Nat → String} {n : Nat} : ∀ net, Reach .map cuid n net →
    ∀ (i : Nat) (nd : Node) (a : Nat) (o : Op) (m : LwwMap), net.nodes[i]? = some nd →
      net.log[nd.pulled]? = some (a, o) → a ≠ i → nd.r.state = .map m →
      isMapOp o = true ∧ (∀ k, o.body = .remove k → ∃ e, m.find k = some e) ∧
      (nd.r.execRemoteBase o).2 = none ∧ (nd.r.execRemoteBase o).1.state = .map (mapApply m o) := by
  intro net h i nd a o m hi hl ha hm
  obtain ⟨ap, I⟩ := inv_reach flat_map h
  have N := I.node i nd hi
  obtain ⟨hneeds, _, hent⟩ := I.deliver hi hl ha
  have e1 := N.st
  rw [hm] at e1
  simp only [sem, DState.map.injEq] at e1
  obtain ⟨r1, r2⟩ := remote_cases flat_map nd.r _ N.st o hent.2.2
  refine ⟨hent.2.2, ?_, r2, ?_⟩
  · intro k hk
    obtain ⟨o', ho', v, hv⟩ := hneeds k hk
    have hinv := mapInv_all _ (mapCausal_of_causal N.causal_ops) k
    rw [← e1] at hinv
    cases hmax : Spec.maxBy (fun (o : Op) => o.id.ts) (Spec.mapKeyOps k (opsOf (ap i))) with
    | none =>
      have hmem : o' ∈ Spec.mapKeyOps k (opsOf (ap i)) := by
        unfold Spec.mapKeyOps
        simp [List.mem_filter, ho', hv]
      rw [(maxBy_eq_none _ _).mp hmax] at hmem
      cases hmem
    | some y =>
      rw [hmax] at hinv
      exact ⟨_, hinv⟩
  · rw [r1]
    simp only [sem, mapApplyAll_snoc, e1]

/-- the ghost-free form of "caught up": a node that has pushed its whole buffer and consumed the whole log has applied
    exactly the operations of the log -/
theorem appliedOps_caught_up {typ : DtType} {cuid : Nat → String} {n : Nat} {net : Net} (hf : Flat typ)
    (h : Reach typ cuid n net) {k : Nat}
    (hk : k < net.nodes.length) (q1 : net.nodes[k].pushed = net.nodes[k].r.buffer.length)
    (q2 : net.nodes[k].pulled = net.log.length) : (appliedOps net.log k net.nodes[k]).Perm (net.log.map (·.2)) := by
  obtain ⟨ap, I⟩ := inv_reach hf h
  have hk' := List.getElem?_eq_getElem hk
  have N := I.node k _ hk'
  have h1 : (own k net.log ++ oth k net.log).Perm net.log := List.filter_append_perm _ _
  have h2 := h1.map (·.2)
  rw [N.log_own, q1, List.take_length] at h2
  have e : appliedOps net.log k net.nodes[k] =
      (net.nodes[k].r.buffer.map (fun o => (k, o)) ++ oth k net.log).map (·.2) := by
    simp [appliedOps, q2, List.map_append, List.map_map, Function.comp_def]
  rw [e]
  exact h2

/-- two nodes that have pushed everything they issued and consumed the whole log have the same operations (whatever the
    other nodes still hold back) -/
theorem sameOps_of_caught_up {typ : DtType} {cuid : Nat → String} {n : Nat} {net : Net} (hf : Flat typ)
    (h : Reach typ cuid n net) {i j : Nat}
    (hi : i < net.nodes.length) (hj : j < net.nodes.length)
    (pi : net.nodes[i].pushed = net.nodes[i].r.buffer.length) (li : net.nodes[i].pulled = net.log.length)
    (pj : net.nodes[j].pushed = net.nodes[j].r.buffer.length) (lj : net.nodes[j].pulled = net.log.length) :
    SameOps net i j :=
  ⟨_, _, List.getElem?_eq_getElem hi, List.getElem?_eq_getElem hj,
    (appliedOps_caught_up hf h hi pi li).trans (appliedOps_caught_up hf h hj pj lj).symm⟩

/-- at quiescence every node has applied the whole log -/
theorem sameOps_of_quiescent {typ : DtType} {cuid : Nat → String} {n : Nat} {net : Net} (hf : Flat typ)
    (h : Reach typ cuid n net) (hq : Quiescent net)
    {i j : Nat} (hi : i < net.nodes.length) (hj : j < net.nodes.length) : SameOps net i j := by
  obtain ⟨a1, a2⟩ := hq _ (List.getElem_mem hi)
  obtain ⟨b1, b2⟩ := hq _ (List.getElem_mem hj)
  exact sameOps_of_caught_up hf h hi hj a1 a2 b1 b2

/-- corollary (map): at quiescence (every buffer completely pushed, every node has consumed the whole log) all nodes
    answer every read alike -/
theorem mnet_quiescent_converged {cuid : Nat → String} {n : Nat} : ∀ net, Reach .map cuid n net → Quiescent net →
    ∀ i j (hi : i < net.nodes.length) (hj : j < net.nodes.length) mi mj,
    net.nodes[i].r.state = .map mi → net.nodes[j].r.state = .map mj →
    (∀ k, mi.get k = mj.get k) ∧ mi.size = mj.size ∧
    (∀ k, alFind k mi.live = alFind k mj.live) ∧ mi.live.Perm mj.live ∧ sortedView mi = sortedView mj ∧
    jsonView mi = jsonView mj := by
  intro net h hq i j hi hj mi mj hmi hmj
  exact mnet_same_operations_same_reads net h i j hi hj mi mj hmi hmj (sameOps_of_quiescent flat_map h hq hi hj)

/-! ### the counter -/

/-- priority 1 (counter): the value of every node IS the fold of the remote application over the operations it has
    applied (a permutation of `appliedOps`) -/
theorem cnet_nodes_applied {cuid : Nat → String} {n : Nat} : ∀ net, Reach .counter cuid n net →
    ∃ applied : Nat → List Op, ∀ i nd, net.nodes[i]? = some nd →
      nd.r.state = .counter ((applied i).foldl counterApply 0) ∧ (applied i).Perm (appliedOps net.log i nd) := by
  intro net h
  obtain ⟨ap, I⟩ := inv_reach flat_counter h
  refine ⟨fun i => opsOf (ap i), ?_⟩
  intro i nd hi
  exact ⟨(I.node i nd hi).st, I.ops_perm hi⟩

/-- the value of a counter node is a function of `appliedOps` alone: the sum of the increments, with 32-bit wrap -/
theorem cnet_value_is_spec {cuid : Nat → String} {n : Nat} : ∀ net, Reach .counter cuid n net →
    ∀ (i : Nat) (nd : Node), net.nodes[i]? = some nd →
      nd.r.state = DState.counter (Spec.counter (appliedOps net.log i nd)) := by
  intro net h i nd hi
  obtain ⟨ap, I⟩ := inv_reach flat_counter h
  rw [(I.node i nd hi).st]
  simp only [sem]
  rw [counter_converge _ _ (I.ops_perm hi), counter_denote]

/-- every delivery that the system performs (counter) is an increase; no error, no panic -/
theorem cnet_deliveries_exact {cuid : Nat → String} {n : Nat} : ∀ net, Reach .counter cuid n net →
    ∀ (i : Nat) (nd : Node) (a : Nat) (o : Op) (v : Int), net.nodes[i]? = some nd →
      net.log[nd.pulled]? = some (a, o) → a ≠ i → nd.r.state = .counter v →
      ∃ d, o.body = .increase d ∧ (nd.r.execRemoteBase o).2 = none ∧
        (nd.r.execRemoteBase o).1.state = .counter (counterIncrease v d) := by
  intro net h i nd a o v hi hl ha hv
  obtain ⟨ap, I⟩ := inv_reach flat_counter h
  have N := I.node i nd hi
  obtain ⟨_, _, hent⟩ := I.deliver hi hl ha
  have e1 := N.st
  rw [hv] at e1
  simp only [sem, DState.counter.injEq] at e1
  obtain ⟨r1, r2⟩ := remote_cases flat_counter nd.r _ N.st o hent.2.2
  obtain ⟨d, hd⟩ := hent.2.2
  simp only at hd
  refine ⟨d, hd, r2, ?_⟩
  rw [r1]
  simp only [sem, List.foldl_append, List.foldl_cons, List.foldl_nil, ← e1, counterApply, hd]

/-- THE theorem (counter): two nodes that have applied the same operations hold the SAME state (plain equality) -/
theorem cnet_same_operations_same_state {cuid : Nat → String} {n : Nat} : ∀ net, Reach .counter cuid n net →
    ∀ i j (hi : i < net.nodes.length) (hj : j < net.nodes.length),
    SameOps net i j → net.nodes[i].r.state = net.nodes[j].r.state := by
  intro net h i j hi hj hsame
  have hi' := List.getElem?_eq_getElem hi
  have hj' := List.getElem?_eq_getElem hj
  obtain ⟨ni, nj, hni, hnj, hperm⟩ := hsame
  rw [hi'] at hni
  rw [hj'] at hnj
  simp only [Option.some.injEq] at hni hnj
  subst hni hnj
  rw [cnet_value_is_spec net h i _ hi', cnet_value_is_spec net h j _ hj']
  have := counter_converge _ _ hperm
  rw [counter_denote, counter_denote] at this
  rw [this]

theorem cnet_quiescent_converged {cuid : Nat → String} {n : Nat} : ∀ net, Reach .counter cuid n net → Quiescent net →
    ∀ i j (hi : i < net.nodes.length) (hj : j < net.nodes.length),
    net.nodes[i].r.state = net.nodes[j].r.state := by
  intro net h hq i j hi hj
  exact cnet_same_operations_same_state net h i j hi hj (sameOps_of_quiescent flat_counter h hq hi hj)

/-! ## 6. non-vacuity

### map: three nodes, thirteen calls (four refused), a complete run to quiescence

Node 0 puts `x` and `y`; nodes 1 and 2 pull both.  Then, CONCURRENTLY: node 1 removes `x` (a key put by ANOTHER node)
while node 2 puts `x` again (same lamport 3, larger client: the put wins); node 0 removes `y` while node 1 puts `y` again
(same lamport 4, larger client: the put beats that remove) and node 2 removes `y` too (same lamport, largest client: this
remove wins); nodes 0 and 1 create the new keys `z` and `w` concurrently (so their association lists end in different
orders).  REFUSED calls (they change nothing and queue nothing): node 2 removes the unknown key `zz`
(`DatatypeNoOp`), node 1 puts with the empty key (`IllegalParameters`), node 2 calls the counter's `inc` and the list's
`linsert` (`IllegalOperation`).  Everything is pushed (node 2 first), every node pulls the whole log. -/
namespace ExMap

def cu : Nat → String
  | 0 => "a" | 1 => "b" | _ => "c"

def acts : List Act := [
  .call 0 (.mput "x" (.num 1)),
  .call 0 (.mput "y" (.num 2)),
  .push 0, .push 0,
  .pull 1, .pull 1, .pull 2, .pull 2,
  .call 1 (.mremove "x"),
  .call 2 (.mput "x" (.num 5)),
  .call 2 (.mremove "zz"),
  .call 0 (.mput "z" (.str "s")),
  .call 0 (.mremove "y"),
  .call 1 (.mput "y" (.num 7)),
  .call 2 (.inc 1),
  .call 2 (.mremove "y"),
  .call 1 (.mput "" (.num 1)),
  .call 1 (.mput "w" (.obj [("q", .num 0), ("p", .null)])),
  .call 2 (.linsert 0 [.num 1]),
  .push 2, .push 1, .push 0, .push 1, .push 0, .push 2, .push 1,
  .pull 0, .pull 0, .pull 0, .pull 0, .pull 0, .pull 0, .pull 0, .pull 0, .pull 0,
  .pull 1, .pull 1, .pull 1, .pull 1, .pull 1, .pull 1, .pull 1,
  .pull 2, .pull 2, .pull 2, .pull 2, .pull 2, .pull 2, .pull 2]

def mapOf (r : Replica) : LwwMap := match r.state with | .map m => m | _ => LwwMap.empty
def finalNet : Net := ((Net.init .map cu 3).run acts).getD ⟨[], []⟩

theorem run_isSome : ((Net.init .map cu 3).run acts).isSome = true := by decide

theorem run_final : (Net.init .map cu 3).run acts = some finalNet := by
  have h := run_isSome
  unfold finalNet
  cases hr : (Net.init .map cu 3).run acts with
  | none => rw [hr] at h; cases h
  | some x => rfl

theorem cu_distinct : CuidsDistinct cu 3 := by
  intro i j hi hj h
  have h1 : i = 0 ∨ i = 1 ∨ i = 2 := by omega
  have h2 : j = 0 ∨ j = 1 ∨ j = 2 := by omega
  rcases h1 with rfl | rfl | rfl <;> rcases h2 with rfl | rfl | rfl <;> first | rfl | (exact absurd h (by decide))

theorem reach_final : Reach .map cu 3 finalNet := reach_run acts (.init cu_distinct) run_final

theorem quiescent_final : Quiescent finalNet := by
  unfold Quiescent
  decide

theorem len_final : finalNet.nodes.length = 3 := by decide
def n0 : Node := finalNet.nodes[0]'(by rw [len_final]; decide)
def n1 : Node := finalNet.nodes[1]'(by rw [len_final]; decide)
def n2 : Node := finalNet.nodes[2]'(by rw [len_final]; decide)
def m0 : LwwMap := mapOf n0.r
def m1 : LwwMap := mapOf n1.r
def m2 : LwwMap := mapOf n2.r
theorem st0 : n0.r.state = .map m0 := rfl
theorem st1 : n1.r.state = .map m1 := rfl
theorem st2 : n2.r.state = .map m2 := rfl

/-- nine operations went through the log; the four refused calls queued nothing -/
example : finalNet.log.length = 9 ∧ finalNet.log.map (·.1) = [0, 0, 2, 1, 0, 1, 0, 2, 1] ∧
    finalNet.nodes.map (·.r.buffer.length) = [4, 3, 2] := by decide

/-- `mnet_quiescent_converged` instantiated -/
example : (∀ k, m0.get k = m1.get k) ∧ m0.size = m1.size ∧ (∀ k, alFind k m0.live = alFind k m1.live) ∧
    m0.live.Perm m1.live ∧ sortedView m0 = sortedView m1 ∧ jsonView m0 = jsonView m1 :=
  mnet_quiescent_converged finalNet reach_final quiescent_final 0 1 (by decide) (by decide) m0 m1 st0 st1
example : (∀ k, m1.get k = m2.get k) ∧ m1.size = m2.size ∧ (∀ k, alFind k m1.live = alFind k m2.live) ∧
    m1.live.Perm m2.live ∧ sortedView m1 = sortedView m2 ∧ jsonView m1 = jsonView m2 :=
  mnet_quiescent_converged finalNet reach_final quiescent_final 1 2 (by decide) (by decide) m1 m2 st1 st2

/-- … and the common view -/
example : (sortedView m0 == [("w", .obj [("q", .num 0), ("p", .null)]), ("x", .num 5), ("z", .str "s")]) = true ∧
    (sortedView m1 == sortedView m0) = true ∧ (sortedView m2 == sortedView m0) = true ∧
    (jsonView m0 == .obj [("w", .obj [("p", .null), ("q", .num 0)]), ("x", .num 5), ("z", .str "s")]) = true ∧
    m0.size = 3 ∧ m1.size = 3 ∧ m2.size = 3 ∧ (m0.get "y" == none) = true ∧ (m1.get "x" == some (.num 5)) = true := by
  decide

/-- plain equality of the states is FALSE in this very run: the association lists of nodes 0 and 1 differ in order -/
example : m0.entries.map (·.1) = ["x", "y", "z", "w"] ∧ m1.entries.map (·.1) = ["x", "y", "w", "z"] := by decide
example : n0.r.state ≠ n1.r.state := by
  rw [st0, st1]
  intro h
  have : m0.entries.map (·.1) = m1.entries.map (·.1) := by rw [DState.map.inj h]
  exact absurd this (by decide)

/-- a state in the middle of the run: node 0 is about to receive node 1's remove of `x` -/
def midNet : Net := ((Net.init .map cu 3).run (acts.take 29)).getD ⟨[], []⟩
theorem mid_isSome : ((Net.init .map cu 3).run (acts.take 29)).isSome = true := by decide
theorem run_mid : (Net.init .map cu 3).run (acts.take 29) = some midNet := by
  have h := mid_isSome
  unfold midNet
  cases hr : (Net.init .map cu 3).run (acts.take 29) with
  | none => rw [hr] at h; cases h
  | some x => rfl
theorem reach_mid : Reach .map cu 3 midNet := reach_run (acts.take 29) (.init cu_distinct) run_mid
theorem len_mid : midNet.nodes.length = 3 := by decide
def nd0 : Node := midNet.nodes[0]'(by rw [len_mid]; decide)
def oRem : Op := ⟨⟨0, 3, "b", 1⟩, .remove "x"⟩
example : nd0.pulled = 3 ∧ nd0.pushed = 4 := by decide

/-- `mnet_deliveries_exact` instantiated: the enabled delivery finds its key -/
example : isMapOp oRem = true ∧ (∀ k, oRem.body = .remove k → ∃ e, (mapOf nd0.r).find k = some e) ∧
    (nd0.r.execRemoteBase oRem).2 = none ∧
    (nd0.r.execRemoteBase oRem).1.state = .map (mapApply (mapOf nd0.r) oRem) :=
  mnet_deliveries_exact midNet reach_mid 0 nd0 1 oRem (mapOf nd0.r) rfl rfl (by decide) rfl

/-- `mnet_same_operations_same_reads` instantiated in a NON-quiescent state: nodes 0 and 1 have pushed everything and
    consumed the whole log, node 2 has not -/
def lateNet : Net := ((Net.init .map cu 3).run (acts.take 42)).getD ⟨[], []⟩
theorem late_isSome : ((Net.init .map cu 3).run (acts.take 42)).isSome = true := by decide
theorem run_late : (Net.init .map cu 3).run (acts.take 42) = some lateNet := by
  have h := late_isSome
  unfold lateNet
  cases hr : (Net.init .map cu 3).run (acts.take 42) with
  | none => rw [hr] at h; cases h
  | some x => rfl
theorem reach_late : Reach .map cu 3 lateNet := reach_run (acts.take 42) (.init cu_distinct) run_late
theorem len_late : lateNet.nodes.length = 3 := by decide
example : ¬ Quiescent lateNet := by
  unfold Quiescent
  decide
def l0 : LwwMap := mapOf (lateNet.nodes[0]'(by rw [len_late]; decide)).r
def l1 : LwwMap := mapOf (lateNet.nodes[1]'(by rw [len_late]; decide)).r
example : (∀ k, l0.get k = l1.get k) ∧ l0.size = l1.size ∧ (∀ k, alFind k l0.live = alFind k l1.live) ∧
    l0.live.Perm l1.live ∧ sortedView l0 = sortedView l1 ∧ jsonView l0 = jsonView l1 :=
  mnet_same_operations_same_reads lateNet reach_late 0 1 (by decide) (by decide) l0 l1 rfl rfl
    (sameOps_of_caught_up flat_map reach_late (by decide) (by decide) (by decide) (by decide) (by decide) (by decide))

end ExMap

/-! ### counter: three nodes, eight calls (three refused), a complete run to quiescence

All increases are concurrent (node 0 sees node 1's first one before its second); one of them overflows int32; refused
calls: a map put, `msize`, a map remove (`IllegalOperation`). -/
namespace ExCounter
open ExMap (cu cu_distinct)

def acts : List Act := [
  .call 0 (.inc 5),
  .call 1 (.inc (-3)),
  .call 2 (.inc 2147483647),
  .call 0 (.mput "k" (.num 1)),
  .push 1, .pull 0,
  .call 1 (.inc 7),
  .call 2 .msize,
  .call 0 (.inc 1),
  .call 2 (.mremove "k"),
  .push 0, .push 2, .push 1, .push 0,
  .pull 0, .pull 0, .pull 0, .pull 0,
  .pull 1, .pull 1, .pull 1, .pull 1, .pull 1,
  .pull 2, .pull 2, .pull 2, .pull 2, .pull 2]

def valOf (r : Replica) : Int := match r.state with | .counter v => v | _ => 0
def finalNet : Net := ((Net.init .counter cu 3).run acts).getD ⟨[], []⟩
theorem run_isSome : ((Net.init .counter cu 3).run acts).isSome = true := by decide
theorem run_final : (Net.init .counter cu 3).run acts = some finalNet := by
  have h := run_isSome
  unfold finalNet
  cases hr : (Net.init .counter cu 3).run acts with
  | none => rw [hr] at h; cases h
  | some x => rfl
theorem reach_final : Reach .counter cu 3 finalNet := reach_run acts (.init cu_distinct) run_final
theorem quiescent_final : Quiescent finalNet := by
  unfold Quiescent
  decide
theorem len_final : finalNet.nodes.length = 3 := by decide

/-- five operations went through the log -/
example : finalNet.log.length = 5 ∧ finalNet.log.map (·.1) = [1, 0, 2, 1, 0] := by decide

/-- `cnet_quiescent_converged` instantiated -/
example : (finalNet.nodes[0]'(by rw [len_final]; decide)).r.state =
    (finalNet.nodes[1]'(by rw [len_final]; decide)).r.state :=
  cnet_quiescent_converged finalNet reach_final quiescent_final 0 1 (by decide) (by decide)
example : (finalNet.nodes[1]'(by rw [len_final]; decide)).r.state =
    (finalNet.nodes[2]'(by rw [len_final]; decide)).r.state :=
  cnet_quiescent_converged finalNet reach_final quiescent_final 1 2 (by decide) (by decide)

/-- … and the common value: 5 − 3 + 2147483647 + 7 + 1, wrapped to int32 -/
example : finalNet.nodes.map (fun nd => valOf nd.r) = [-2147483639, -2147483639, -2147483639] := by decide

/-- in the middle of the run (after node 0 has consumed node 1's first increase) the values differ -/
example : (((Net.init .counter cu 3).run (acts.take 6)).getD ⟨[], []⟩).nodes.map (fun nd => valOf nd.r) =
    [2, -3, 2147483647] := by decide

end ExCounter

end Orda.MNet
