/-
C13 (Create / Subscribe / SubscribeOrCreate contract), C17 (collections and datatypes are isolated),
C18 (every committed push is announced) for the server model `Model/Server`.

Helper definitions and lemmas live in `Orda.SC`: `SC.processPack_eq` is the normal form of `processPack`
(the two validation refusals, then the dispatch decision `SC.dsp`, then `SC.finish` = push error or the
success shape `SC.okR`), and `SC.processPack_cases` is the corresponding case principle.

One requested statement is false as given: `frame_other_collections` needs `DuidUnique st`
(see `frame_other_collections_counterexample` and `frame_other_collections_partial`).
-/
import Orda.Model.Server
namespace Orda

namespace SC

/-- the response skeleton -/
def resp0 (p : Pack) : Pack :=
  { p with create := false, subscribe := false, unsubscribe := false, delete := false,
           snapshot := false, error := false, readOnly := false, ops := [] }

def refuseR (st : Store) (p : Pack) (code : Nat) : PPResult := ⟨st, errorPack (resp0 p) code, none, 0⟩

/-- the final dispatch decision of `processPack` -/
def dsp (st : Store) (cl : ClientDoc) (col : CollectionDoc) (p : Pack) : Dispatch :=
  let ec := evalCase st col cl.cuid p
  let sameDuid : Bool := match ec.2 with | some d => d.duid = p.duid | none => true
  let d0 := dispatch ec.1 p.create p.subscribe sameDuid
  let d1 : Dispatch :=
    if d0 ≠ .create && ec.2.isNone then (match d0 with | .refuse x => .refuse x | _ => .refuse 301) else d0
  if d1 = .normal && !sameDuid then (if p.create then .refuse 302 else .refuse 301) else d1

def docOf (col : CollectionDoc) (p : Pack) (d : Dispatch) (doc? : Option DatatypeDoc) : DatatypeDoc :=
  match d, doc? with
  | .create, _ => { duid := p.duid, key := p.key, colNum := col.num, typ := p.typ }
  | _, some x => x
  | _, none => { duid := p.duid, key := p.key, colNum := col.num, typ := p.typ }

def opDuid (p : Pack) (d : Dispatch) (doc : DatatypeDoc) : String := if d = .subscribe then doc.duid else p.duid

def resp1 (p : Pack) (d : Dispatch) (doc : DatatypeDoc) : Pack :=
  { resp0 p with duid := (if d = .subscribe then doc.duid else (resp0 p).duid),
                 create := d = .create, subscribe := d = .subscribe }

def cp0 (cl : ClientDoc) (p : Pack) (doc : DatatypeDoc) : CheckPoint :=
  match doc.sub cl.cuid p.readOnly with | some s => s.cp | none => ⟨0, 0⟩

def cp1 (cl : ClientDoc) (p : Pack) (doc : DatatypeDoc) : CheckPoint :=
  if p.readOnly then cp0 cl p doc else ⟨doc.sseqEnd, (cp0 cl p doc).cseq⟩

def pushRes (cl : ClientDoc) (col : CollectionDoc) (p : Pack) (d : Dispatch) (doc : DatatypeDoc) :
    Except Nat (CheckPoint × List OpDoc) :=
  if p.readOnly then Except.ok (cp1 cl p doc, [])
  else pushOps (opDuid p d doc) col.num (cp1 cl p doc) (if d = .subscribe then [] else p.ops) []

def pulled (st : Store) (cl : ClientDoc) (p : Pack) (d : Dispatch) (doc : DatatypeDoc) : List OpDoc :=
  if cl.typ = 2 then []
  else if doc.sseqBegin ≤ p.cp.sseq + 1 && !p.snapshot then st.getOperations (opDuid p d doc) (p.cp.sseq + 1) else []

def cp3 (st : Store) (cl : ClientDoc) (p : Pack) (d : Dispatch) (doc : DatatypeDoc)
    (cp2 : CheckPoint) (newDocs : List OpDoc) : CheckPoint :=
  match (pulled st cl p d doc).getLast? with
  | some last => ⟨last.sseq + newDocs.length, cp2.cseq⟩
  | none => cp2

def doc2 (st : Store) (cl : ClientDoc) (p : Pack) (d : Dispatch) (doc : DatatypeDoc)
    (cp2 : CheckPoint) (newDocs : List OpDoc) : DatatypeDoc :=
  let c3 := cp3 st cl p d doc cp2 newDocs
  let doc' := { doc with sseqEnd := if p.readOnly then doc.sseqEnd else c3.sseq }
  if cl.typ = 2 then doc' else doc'.setSub cl.cuid p.readOnly ⟨c3, cl.typ⟩

def okR (st : Store) (cl : ClientDoc) (col : CollectionDoc) (p : Pack) (d : Dispatch) (doc : DatatypeDoc)
    (cp2 : CheckPoint) (newDocs : List OpDoc) : PPResult :=
  ⟨{ st with operations := st.operations ++ newDocs,
             datatypes := upsertDatatype (doc2 st cl p d doc cp2 newDocs) st.datatypes },
   { resp1 p d doc with cp := cp3 st cl p d doc cp2 newDocs, ops := (pulled st cl p d doc).map (·.op) },
   if newDocs.isEmpty then none
   else some ⟨col.name ++ "/" ++ doc.key, cl.cuid, doc.duid, (cp3 st cl p d doc cp2 newDocs).sseq⟩,
   newDocs.length⟩

def pushErrR (st : Store) (p : Pack) (d : Dispatch) (doc : DatatypeDoc) (code : Nat) : PPResult :=
  ⟨st, { errorPack (resp0 p) code with create := (resp1 p d doc).create, subscribe := (resp1 p d doc).subscribe,
                                        duid := (resp1 p d doc).duid }, none, 0⟩

def finish (st : Store) (cl : ClientDoc) (col : CollectionDoc) (p : Pack) (d : Dispatch) (doc : DatatypeDoc) :
    PPResult :=
  match pushRes cl col p d doc with
  | .error code => pushErrR st p d doc code
  | .ok (cp2, newDocs) => okR st cl col p d doc cp2 newDocs

theorem processPack_eq (st : Store) (cl : ClientDoc) (col : CollectionDoc) (p : Pack) :
    processPack st cl col p =
      if p.readOnly && p.create then refuseR st p 301
      else if p.readOnly && !p.ops.isEmpty then refuseR st p 301
      else match dsp st cl col p with
        | .refuse code => refuseR st p code
        | d => finish st cl col p d (docOf col p d (evalCase st col cl.cuid p).2) := by
  rfl

/-! ### list helpers -/

theorem mem_upsert {d y : DatatypeDoc} {l : List DatatypeDoc} (h : y ∈ upsertDatatype d l) : y = d ∨ y ∈ l := by
  induction l with
  | nil => simp [upsertDatatype] at h; exact Or.inl h
  | cons x xs ih =>
    unfold upsertDatatype at h
    split at h
    · rcases List.mem_cons.1 h with h | h
      · exact Or.inl h
      · exact Or.inr (List.mem_cons_of_mem _ h)
    · rcases List.mem_cons.1 h with h | h
      · exact Or.inr (h ▸ List.mem_cons_self)
      · rcases ih h with h | h
        · exact Or.inl h
        · exact Or.inr (List.mem_cons_of_mem _ h)

theorem self_mem_upsert (d : DatatypeDoc) (l : List DatatypeDoc) : d ∈ upsertDatatype d l := by
  induction l with
  | nil => simp [upsertDatatype]
  | cons x xs ih => unfold upsertDatatype; split <;> simp [ih]

theorem upsert_filter_duid (d : DatatypeDoc) (l : List DatatypeDoc) :
    (upsertDatatype d l).filter (fun y => y.duid ≠ d.duid) = l.filter (fun y => y.duid ≠ d.duid) := by
  induction l with
  | nil => simp [upsertDatatype]
  | cons x xs ih =>
    unfold upsertDatatype
    split
    · next h => simp [h]
    · next h => simp [h]; simpa using ih

theorem upsert_append {d : DatatypeDoc} {l : List DatatypeDoc} (h : ∀ y ∈ l, y.duid ≠ d.duid) :
    upsertDatatype d l = l ++ [d] := by
  induction l with
  | nil => simp [upsertDatatype]
  | cons x xs ih =>
    unfold upsertDatatype
    have hx := h x List.mem_cons_self
    simp [hx]
    exact ih (fun y hy => h y (List.mem_cons_of_mem _ hy))

theorem upsert_map_duid {d x : DatatypeDoc} {l : List DatatypeDoc} (hx : x ∈ l) (hd : d.duid = x.duid) :
    (upsertDatatype d l).map (·.duid) = l.map (·.duid) := by
  induction l with
  | nil => simp at hx
  | cons y ys ih =>
    unfold upsertDatatype
    split
    · next h => simp [h]
    · next h =>
      rcases List.mem_cons.1 hx with hx | hx
      · exact absurd (hx ▸ hd.symm) h
      · simp [ih hx]

theorem upsert_filter_mem {d x : DatatypeDoc} {l : List DatatypeDoc} (q : DatatypeDoc → Bool)
    (hx : x ∈ l) (hnd : (l.map (·.duid)).Nodup) (hd : d.duid = x.duid) (hqd : q d = false) (hqx : q x = false) :
    (upsertDatatype d l).filter q = l.filter q := by
  induction l with
  | nil => simp at hx
  | cons y ys ih =>
    simp only [List.map_cons, List.nodup_cons] at hnd
    unfold upsertDatatype
    split
    · next h =>
      rcases List.mem_cons.1 hx with hx | hx
      · subst hx; simp [hqd, hqx]
      · exfalso; apply hnd.1
        rw [h, hd]; exact List.mem_map.2 ⟨x, hx, rfl⟩
    · next h =>
      rcases List.mem_cons.1 hx with hx | hx
      · exact absurd (hx ▸ hd.symm) h
      · simp [List.filter_cons, ih hx hnd.2]

theorem pushOps_spec (duid : String) (colNum : Nat) (ops : List Op) :
    ∀ (cp : CheckPoint) (acc : List OpDoc) (cp2 : CheckPoint) (nd : List OpDoc),
      pushOps duid colNum cp ops acc = .ok (cp2, nd) →
      ∃ add, nd = acc ++ add ∧ ∀ o ∈ add, o.duid = duid ∧ o.colNum = colNum := by
  induction ops with
  | nil => intro cp acc cp2 nd h; simp [pushOps] at h; exact ⟨[], by simp [h.2]⟩
  | cons o os ih =>
    intro cp acc cp2 nd h
    unfold pushOps at h
    split at h
    · obtain ⟨add, h1, h2⟩ := ih _ _ _ _ h
      refine ⟨_ :: add, by simpa using h1, ?_⟩
      intro x hx
      rcases List.mem_cons.1 hx with hx | hx
      · subst hx; exact ⟨rfl, rfl⟩
      · exact h2 x hx
    · split at h
      · exact ih _ _ _ _ h
      · cases h

/-! ### evalCase / dispatch facts -/

theorem find?_mem' {α} {q : α → Bool} {l : List α} {x : α} (h : l.find? q = some x) : x ∈ l ∧ q x = true :=
  ⟨List.mem_of_find?_eq_some h, List.find?_some h⟩

theorem evalCase_some {st : Store} {col : CollectionDoc} {cuid : String} {p : Pack} {x : DatatypeDoc}
    (h : (evalCase st col cuid p).2 = some x) :
    x ∈ st.datatypes ∧ x.colNum = col.num ∧ x.key = p.key ∧
    (((p.create || p.subscribe) = true ∧ st.getDatatypeByKey col.num p.key = some x) ∨
     (st.getDatatype p.duid = some x ∧ x.duid = p.duid)) := by
  unfold evalCase at h
  by_cases hb : (p.create || p.subscribe) = true
  · simp only [hb, if_true] at h
    cases hk : st.getDatatypeByKey col.num p.key with
    | none =>
      simp only [hk] at h
      cases hg : st.getDatatype p.duid with
      | none => simp [hg] at h
      | some d =>
        simp only [hg] at h
        split at h
        · next hc =>
          simp at h; subst h
          have := find?_mem' (by simpa [Store.getDatatype] using hg)
          simp at this
          exact ⟨this.1, hc.1, hc.2, Or.inr ⟨rfl, this.2⟩⟩
        · simp at h
    | some d =>
      simp only [hk] at h
      have hx : d = x := by
        split at h
        · split at h
          · split at h <;> simpa using h
          · simpa using h
        · simpa using h
      subst hx
      have := find?_mem' (by simpa [Store.getDatatypeByKey] using hk)
      simp at this
      exact ⟨this.1, this.2.1, this.2.2, Or.inl ⟨hb, rfl⟩⟩
  · simp only [hb, Bool.false_eq_true, if_false] at h
    cases hg : st.getDatatype p.duid with
    | none => simp [hg] at h
    | some d =>
      simp only [hg] at h
      split at h
      · next hc =>
        simp at h; subst h
        have := find?_mem' (by simpa [Store.getDatatype] using hg)
        simp at this
        exact ⟨this.1, hc.1, hc.2, Or.inr ⟨rfl, this.2⟩⟩
      · simp at h

theorem evalCase_matchNothing {st : Store} {col : CollectionDoc} {cuid : String} {p : Pack}
    (h : (evalCase st col cuid p).1 = .matchNothing) :
    st.getDatatype p.duid = none ∧ ((p.create || p.subscribe) = true → st.getDatatypeByKey col.num p.key = none) := by
  unfold evalCase at h
  by_cases hb : (p.create || p.subscribe) = true
  · simp only [hb, if_true] at h
    cases hk : st.getDatatypeByKey col.num p.key with
    | none =>
      simp only [hk] at h
      cases hg : st.getDatatype p.duid with
      | none => simp
      | some d => simp only [hg] at h; split at h <;> simp at h
    | some d =>
      simp only [hk] at h
      split at h
      · split at h
        · split at h <;> simp at h
        · simp at h
      · simp at h
  · simp only [hb, Bool.false_eq_true, if_false] at h
    cases hg : st.getDatatype p.duid with
    | none => simp [hb]
    | some d => simp only [hg] at h; split at h <;> simp at h

/-! ### normal form of `processPack` -/

theorem dsp_cases (st : Store) (cl : ClientDoc) (col : CollectionDoc) (p : Pack) :
    (∃ code, dsp st cl col p = .refuse code) ∨
    (dsp st cl col p = .create ∧ p.create = true ∧ (evalCase st col cl.cuid p).1 = .matchNothing) ∨
    (dsp st cl col p = .subscribe ∧ ∃ x, (evalCase st col cl.cuid p).2 = some x) ∨
    (dsp st cl col p = .normal ∧ ∃ x, (evalCase st col cl.cuid p).2 = some x ∧ x.duid = p.duid) := by
  unfold dsp dispatch
  generalize evalCase st col cl.cuid p = ec
  rcases ec with ⟨c, doc?⟩
  cases doc? with
  | none =>
    cases c <;> cases p.create <;> cases p.subscribe <;> simp
  | some x =>
    by_cases hx : x.duid = p.duid
    · cases c <;> cases p.create <;> cases p.subscribe <;> simp [hx]
    · cases c <;> cases p.create <;> cases p.subscribe <;> simp [hx]

structure OkFacts (st : Store) (cl : ClientDoc) (col : CollectionDoc) (p : Pack) (d : Dispatch) (doc : DatatypeDoc)
    (cp2 : CheckPoint) (newDocs : List OpDoc) : Prop where
  hd : d = .create ∨ d = .subscribe ∨ d = .normal
  hdsp : dsp st cl col p = d
  hcol : doc.colNum = col.num
  hkey : doc.key = p.key
  hcreate : d = .create → st.getDatatype p.duid = none ∧ st.getDatatypeByKey col.num p.key = none
  hmem : d ≠ .create → doc ∈ st.datatypes ∧ (evalCase st col cl.cuid p).2 = some doc
  hduid : opDuid p d doc = doc.duid
  hrduid : (resp1 p d doc).duid = doc.duid
  hnew : ∀ o ∈ newDocs, o.duid = doc.duid ∧ o.colNum = col.num
  hro : p.readOnly = true → newDocs = []
  hsub : d = .subscribe → newDocs = []
  hnops : p.ops = [] → newDocs = []
  hpush : pushRes cl col p d doc = .ok (cp2, newDocs)

theorem pushRes_facts {cl : ClientDoc} {col : CollectionDoc} {p : Pack} {d : Dispatch} {doc : DatatypeDoc}
    {cp2 : CheckPoint} {nd : List OpDoc} (h : pushRes cl col p d doc = .ok (cp2, nd)) :
    (∀ o ∈ nd, o.duid = opDuid p d doc ∧ o.colNum = col.num) ∧ (p.readOnly = true → nd = []) ∧
    (d = .subscribe → nd = []) ∧ (p.ops = [] → nd = []) := by
  unfold pushRes at h
  by_cases hr : p.readOnly = true
  · simp [hr] at h
    simp [h.2]
  · simp only [hr, if_false, Bool.false_eq_true] at h
    obtain ⟨add, h1, h2⟩ := pushOps_spec _ _ _ _ _ _ _ h
    simp at h1; subst h1
    refine ⟨h2, fun h' => absurd h' hr, ?_, ?_⟩
    · intro hs; simp [hs, pushOps] at h; exact h.2
    · intro hs; simp [hs, pushOps] at h; exact h.2

theorem processPack_cases (st : Store) (cl : ClientDoc) (col : CollectionDoc) (p : Pack) (motive : PPResult → Prop)
    (h1 : ∀ code, motive (refuseR st p code))
    (h2 : ∀ d doc code, motive (pushErrR st p d doc code))
    (h3 : ∀ d doc cp2 nd, OkFacts st cl col p d doc cp2 nd → motive (okR st cl col p d doc cp2 nd)) :
    motive (processPack st cl col p) := by
  rw [processPack_eq]
  split
  · exact h1 _
  split
  · exact h1 _
  rcases dsp_cases st cl col p with ⟨code, h⟩ | ⟨h, hc, hm⟩ | ⟨h, x, hx⟩ | ⟨h, x, hx, hxd⟩
  · rw [h]; exact h1 _
  · rw [h]
    show motive (finish _ _ _ _ _ _)
    unfold finish
    cases hp : pushRes cl col p .create (docOf col p .create (evalCase st col cl.cuid p).2) with
    | error code => exact h2 _ _ _
    | ok r =>
      obtain ⟨cp2, nd⟩ := r
      have hf := pushRes_facts hp
      have hm' := evalCase_matchNothing hm
      refine h3 _ _ _ _ ⟨Or.inl rfl, h, rfl, rfl, fun _ => ⟨hm'.1, hm'.2 (by simp [hc])⟩, fun h' => absurd rfl h', rfl, rfl,
        hf.1, hf.2.1, hf.2.2.1, hf.2.2.2, hp⟩
  · rw [h]
    show motive (finish _ _ _ _ _ _)
    unfold finish
    have hdoc : docOf col p .subscribe (evalCase st col cl.cuid p).2 = x := by simp [docOf, hx]
    rw [hdoc]
    have he := evalCase_some hx
    cases hp : pushRes cl col p .subscribe x with
    | error code => exact h2 _ _ _
    | ok r =>
      obtain ⟨cp2, nd⟩ := r
      have hf := pushRes_facts hp
      refine h3 _ _ _ _ ⟨Or.inr (Or.inl rfl), h, he.2.1, he.2.2.1, (fun h' => by cases h'), fun _ => ⟨he.1, hx⟩, rfl, rfl,
        hf.1, hf.2.1, hf.2.2.1, hf.2.2.2, hp⟩
  · rw [h]
    show motive (finish _ _ _ _ _ _)
    unfold finish
    have hdoc : docOf col p .normal (evalCase st col cl.cuid p).2 = x := by simp [docOf, hx]
    rw [hdoc]
    have he := evalCase_some hx
    cases hp : pushRes cl col p .normal x with
    | error code => exact h2 _ _ _
    | ok r =>
      obtain ⟨cp2, nd⟩ := r
      have hf := pushRes_facts hp
      have hdu : opDuid p .normal x = x.duid := by simp [opDuid, hxd]
      refine h3 _ _ _ _ ⟨Or.inr (Or.inr rfl), h, he.2.1, he.2.2.1, (fun h' => by cases h'), fun _ => ⟨he.1, hx⟩, hdu,
        (by simp [resp1, resp0, hxd]), (by rw [← hdu]; exact hf.1), hf.2.1, hf.2.2.1, hf.2.2.2, hp⟩


/-! ### small facts used by the contract theorems -/

theorem evalCase_byKey {st : Store} {col : CollectionDoc} {cuid : String} {p : Pack} {d : DatatypeDoc}
    (hb : (p.create || p.subscribe) = true) (hk : st.getDatatypeByKey col.num p.key = some d) :
    evalCase st col cuid p =
      (if d.typ = p.typ then
        if d.visible then
          (if (d.sub cuid p.readOnly).isSome then (.allMatchedSubscribed, some d) else (.allMatchedNotSubscribed, some d))
        else (.allMatchedNotVisible, some d)
      else (.matchKeyNotType, some d)) := by
  unfold evalCase; simp only [hb, if_true, hk]

theorem processPack_refused {st : Store} {cl : ClientDoc} {col : CollectionDoc} {p : Pack} {code : Nat}
    (hro : p.readOnly = false) (hd : dsp st cl col p = .refuse code) :
    processPack st cl col p = refuseR st p code := by
  rw [processPack_eq, hd]; simp [hro]

theorem doc2_facts (st : Store) (cl : ClientDoc) (p : Pack) (d : Dispatch) (doc : DatatypeDoc)
    (cp2 : CheckPoint) (nd : List OpDoc) :
    (doc2 st cl p d doc cp2 nd).duid = doc.duid ∧ (doc2 st cl p d doc cp2 nd).key = doc.key ∧
    (doc2 st cl p d doc cp2 nd).colNum = doc.colNum ∧
    (doc2 st cl p d doc cp2 nd).sseqEnd = (if p.readOnly then doc.sseqEnd else (cp3 st cl p d doc cp2 nd).sseq) := by
  unfold doc2 DatatypeDoc.setSub
  by_cases h1 : cl.typ = 2 <;> by_cases h2 : p.readOnly = true <;> simp [h1, h2]

theorem byKey_none {st : Store} {c : Nat} {k : String} (h : st.getDatatypeByKey c k = none) :
    ∀ x ∈ st.datatypes, x.colNum = c → x.key ≠ k := by
  simpa [Store.getDatatypeByKey] using h
theorem byId_none {st : Store} {u : String} (h : st.getDatatype u = none) : ∀ x ∈ st.datatypes, x.duid ≠ u := by
  simpa [Store.getDatatype] using h

theorem okR_duid (st : Store) (cl : ClientDoc) (col : CollectionDoc) (p : Pack) (d : Dispatch) (doc : DatatypeDoc)
    (cp2 : CheckPoint) (nd : List OpDoc) : (okR st cl col p d doc cp2 nd).resp.duid = (resp1 p d doc).duid := rfl

theorem getCollection_none {st : Store} {name : String} (h : st.getCollection name = none) :
    ∀ c ∈ st.collections, c.name ≠ name := by
  simpa [Store.getCollection] using h

end SC

def isErr (r : PPResult) (code : Nat) : Prop :=
  r.resp.error = true ∧ r.resp.ops = [⟨OpId.nil, .error code⟩] ∧ r.notif = none ∧ r.pushed = 0

namespace SC
theorem isErr_refuseR (st : Store) (p : Pack) (code : Nat) : isErr (refuseR st p code) code := by
  simp [isErr, refuseR, errorPack]
end SC

/-! ## C13 — Create, Subscribe and SubscribeOrCreate honour their contract -/

/-- creating a key that already exists (same or another type, this client not subscribed) is refused
    with "duplicate key" and changes nothing stored -/
theorem create_existing_refused (st : Store) (cl : ClientDoc) (col : CollectionDoc) (p : Pack) (d : DatatypeDoc)
    (hc : p.create = true) (hs : p.subscribe = false) (hro : p.readOnly = false)
    (hk : st.getDatatypeByKey col.num p.key = some d) (hv : d.visible = true)
    (hn : d.sub cl.cuid false = none) :
    isErr (processPack st cl col p) 302 ∧ (processPack st cl col p).store = st := by
  have hb : (p.create || p.subscribe) = true := by simp [hc]
  have hd : SC.dsp st cl col p = .refuse 302 := by
    unfold SC.dsp dispatch
    rw [SC.evalCase_byKey hb hk]
    by_cases ht : d.typ = p.typ <;> simp [ht, hv, hro, hn, hc, hs]
  rw [SC.processPack_refused hro hd]
  exact ⟨SC.isErr_refuseR _ _ _, rfl⟩

/-- subscribing to a key that does not exist is refused and changes nothing stored -/
theorem subscribe_missing_refused (st : Store) (cl : ClientDoc) (col : CollectionDoc) (p : Pack)
    (hc : p.create = false) (hs : p.subscribe = true) (hro : p.readOnly = false)
    (hk : st.getDatatypeByKey col.num p.key = none) :
    (isErr (processPack st cl col p) 304 ∨ isErr (processPack st cl col p) 301) ∧ (processPack st cl col p).store = st := by
  have hd : SC.dsp st cl col p = .refuse 304 ∨ SC.dsp st cl col p = .refuse 301 := by
    unfold SC.dsp dispatch evalCase
    simp only [hc, hs, hk, Bool.or_true, if_true]
    cases hg : st.getDatatype p.duid with
    | none => simp
    | some x => by_cases hx : x.colNum = col.num ∧ x.key = p.key <;> simp [hx]
  rcases hd with hd | hd
  · rw [SC.processPack_refused hro hd]; exact ⟨Or.inl (SC.isErr_refuseR _ _ _), rfl⟩
  · rw [SC.processPack_refused hro hd]; exact ⟨Or.inr (SC.isErr_refuseR _ _ _), rfl⟩

/-- using a key with a different datatype type is refused (create, subscribe or both) and changes nothing -/
theorem type_mismatch_refused (st : Store) (cl : ClientDoc) (col : CollectionDoc) (p : Pack) (d : DatatypeDoc)
    (hb : p.create = true ∨ p.subscribe = true) (hro : p.readOnly = false)
    (hk : st.getDatatypeByKey col.num p.key = some d) (ht : d.typ ≠ p.typ) :
    (isErr (processPack st cl col p) 302 ∨ isErr (processPack st cl col p) 304) ∧ (processPack st cl col p).store = st := by
  have hb' : (p.create || p.subscribe) = true := by rcases hb with h | h <;> simp [h]
  have hd : SC.dsp st cl col p = .refuse (if p.create then 302 else 304) := by
    unfold SC.dsp dispatch
    rw [SC.evalCase_byKey hb' hk]
    simp [ht, hb']
  rw [SC.processPack_refused hro hd]
  refine ⟨?_, rfl⟩
  cases hcr : p.create
  · exact Or.inr (by simpa [hcr] using SC.isErr_refuseR st p 304)
  · exact Or.inl (by simpa [hcr] using SC.isErr_refuseR st p 302)

/-- at most one datatype per (collection, key) -/
def KeyUnique (st : Store) : Prop :=
  ∀ d1 ∈ st.datatypes, ∀ d2 ∈ st.datatypes, d1.colNum = d2.colNum → d1.key = d2.key → d1.duid = d2.duid
def DuidUnique (st : Store) : Prop := (st.datatypes.map (·.duid)).Nodup

/-- SubscribeOrCreate (and every other request) never yields a second datatype for a key: the
    invariant survives any pack, hence any number of racing requests served one at a time -/
theorem keyUnique_processPack (st : Store) (cl : ClientDoc) (col : CollectionDoc) (p : Pack)
    (h : KeyUnique st) (hd : DuidUnique st) :
    KeyUnique (processPack st cl col p).store ∧ DuidUnique (processPack st cl col p).store := by
  refine SC.processPack_cases st cl col p (fun r => KeyUnique r.store ∧ DuidUnique r.store)
    (fun _ => ⟨h, hd⟩) (fun _ _ _ => ⟨h, hd⟩) ?_
  intro d doc cp2 nd f
  obtain ⟨hdu, hkey, hcol, -⟩ := SC.doc2_facts st cl p d doc cp2 nd
  -- every (colNum,key)-companion of the written document already has its duid
  have hcomp : ∀ y ∈ st.datatypes, y.colNum = doc.colNum → y.key = doc.key → y.duid = doc.duid := by
    intro y hy h1 h2
    by_cases hcr : d = .create
    · have hnone := (f.hcreate hcr).2
      exact absurd (h2.trans f.hkey) (SC.byKey_none hnone y hy (h1.trans f.hcol))
    · exact h y hy doc (f.hmem hcr).1 h1 h2
  constructor
  · intro d1 h1 d2 h2 hc hk
    simp only [SC.okR] at h1 h2
    rcases SC.mem_upsert h1 with e1 | m1 <;> rcases SC.mem_upsert h2 with e2 | m2
    · rw [e1, e2]
    · rw [e1, hdu]; rw [e1, hcol] at hc; rw [e1, hkey] at hk
      exact (hcomp d2 m2 hc.symm hk.symm).symm
    · rw [e2, hdu]; rw [e2, hcol] at hc; rw [e2, hkey] at hk
      exact hcomp d1 m1 hc hk
    · exact h d1 m1 d2 m2 hc hk
  · show ((upsertDatatype _ st.datatypes).map (·.duid)).Nodup
    by_cases hcr : d = .create
    · have hnone := (f.hcreate hcr).1
      have hall := SC.byId_none hnone
      have hopd : doc.duid = p.duid := by rw [← f.hduid]; simp [SC.opDuid, hcr]
      rw [SC.upsert_append (by
        intro y hy; rw [hdu, hopd]; exact hall y hy)]
      rw [List.map_append, List.nodup_append]
      refine ⟨hd, by simp, ?_⟩
      intro a ha b hb
      simp at hb; subst hb
      obtain ⟨y, hy, rfl⟩ := List.mem_map.1 ha
      rw [hdu, hopd]; exact hall y hy
    · rw [SC.upsert_map_duid (f.hmem hcr).1 hdu]; exact hd

/-- a fresh subscriber is answered with the subscribe bit, the datatype's id, the WHOLE log after its
    checkpoint, and the end of the log as its new checkpoint -/
theorem subscribe_gets_log (st : Store) (cl : ClientDoc) (col : CollectionDoc) (p : Pack) (d : DatatypeDoc)
    (hc : p.create = false) (hs : p.subscribe = true) (hro : p.readOnly = false) (hsn : p.snapshot = false)
    (hvol : cl.typ ≠ 2)
    (hk : st.getDatatypeByKey col.num p.key = some d) (ht : d.typ = p.typ) (hv : d.visible = true)
    (hn : d.sub cl.cuid false = none) (hb : d.sseqBegin ≤ p.cp.sseq + 1) :
    let r := processPack st cl col p
    r.resp.error = false ∧ r.resp.subscribe = true ∧ r.resp.duid = d.duid ∧
    r.resp.ops = (st.getOperations d.duid (p.cp.sseq + 1)).map (·.op) ∧ r.pushed = 0 ∧
    r.store.operations = st.operations := by
  have hb' : (p.create || p.subscribe) = true := by simp [hs]
  have he : evalCase st col cl.cuid p = (.allMatchedNotSubscribed, some d) := by
    rw [SC.evalCase_byKey hb' hk]; simp [ht, hv, hro, hn]
  have hd : SC.dsp st cl col p = .subscribe := by
    unfold SC.dsp dispatch
    rw [he]; simp [hc, hs]
  have hp : SC.pushRes cl col p .subscribe d = .ok (SC.cp1 cl p d, []) := by
    simp [SC.pushRes, hro, pushOps]
  have : processPack st cl col p = SC.okR st cl col p .subscribe d (SC.cp1 cl p d) [] := by
    rw [SC.processPack_eq, hd, he]
    simp only [hro, Bool.false_and, Bool.false_eq_true, if_false]
    show SC.finish _ _ _ _ _ _ = _
    unfold SC.finish
    simp only [SC.docOf, hp]
  rw [this]
  simp [SC.okR, SC.resp1, SC.resp0, SC.pulled, SC.opDuid, hvol, hb, hsn]

/-! ## C17 — collections are isolated -/

/-- a client registered in one collection cannot act in another: RPC error, nothing changes -/
theorem foreign_collection_refused (st : Store) (colName cuid : String) (packs : List Pack)
    (col : CollectionDoc) (cl : ClientDoc)
    (hcol : st.getCollection colName = some col) (hcl : st.getClient cuid = some cl) (hne : cl.colNum ≠ col.num) :
    st.processPushPull colName cuid packs = (st, .rpcErr 16, [], []) := by
  unfold Store.processPushPull
  simp [hcol, hcl, hne]

/-! `frame_other_collections` as requested (arbitrary `st`) is FALSE: `upsertDatatype` replaces the FIRST
document carrying the written document's duid.  In a store where two collections hold a document with the same
duid, a subscription served in collection 1 overwrites the document of collection 2. -/

namespace SC
def cexStore : Store :=
  { datatypes := [{ duid := "a", key := "k", colNum := 2, typ := .counter },
                  { duid := "a", key := "k", colNum := 1, typ := .counter }] }
def cexClient : ClientDoc := ⟨"c", "c", 1, 0, 0⟩
def cexCol : CollectionDoc := ⟨"one", 1⟩
def cexPack : Pack := { key := "k", duid := "b", subscribe := true, cp := ⟨0, 0⟩, typ := .counter, ops := [] }
end SC

/-- counterexample to the first clause of `frame_other_collections` without `DuidUnique` -/
theorem frame_other_collections_counterexample :
    ¬ ∀ (st : Store) (cl : ClientDoc) (col : CollectionDoc) (p : Pack),
        (processPack st cl col p).store.datatypes.filter (fun d => d.colNum ≠ col.num) =
          st.datatypes.filter (fun d => d.colNum ≠ col.num) := by
  intro h
  have h1 := congrArg List.length (h SC.cexStore SC.cexClient SC.cexCol SC.cexPack)
  revert h1
  decide

/-- frame (under unique datatype ids): a pack handled for collection `col` leaves every datatype document
    and every operation document of the OTHER collections untouched, adds none to them, and returns no
    operation stored under another collection -/
theorem frame_other_collections_partial (st : Store) (cl : ClientDoc) (col : CollectionDoc) (p : Pack)
    (hdu : DuidUnique st) :
    let st' := (processPack st cl col p).store
    st'.datatypes.filter (fun d => d.colNum ≠ col.num) = st.datatypes.filter (fun d => d.colNum ≠ col.num) ∧
    st'.operations.filter (fun o => o.colNum ≠ col.num) = st.operations.filter (fun o => o.colNum ≠ col.num) ∧
    st'.clients = st.clients ∧ st'.collections = st.collections ∧ st'.snapshots = st.snapshots ∧ st'.userDocs = st.userDocs := by
  refine SC.processPack_cases st cl col p (fun r =>
    r.store.datatypes.filter (fun d => d.colNum ≠ col.num) = st.datatypes.filter (fun d => d.colNum ≠ col.num) ∧
    r.store.operations.filter (fun o => o.colNum ≠ col.num) = st.operations.filter (fun o => o.colNum ≠ col.num) ∧
    r.store.clients = st.clients ∧ r.store.collections = st.collections ∧ r.store.snapshots = st.snapshots ∧
    r.store.userDocs = st.userDocs)
    (fun _ => ⟨rfl, rfl, rfl, rfl, rfl, rfl⟩) (fun _ _ _ => ⟨rfl, rfl, rfl, rfl, rfl, rfl⟩) ?_
  intro d doc cp2 nd f
  obtain ⟨h2du, -, h2col, -⟩ := SC.doc2_facts st cl p d doc cp2 nd
  refine ⟨?_, ?_, rfl, rfl, rfl, rfl⟩
  · show (upsertDatatype _ st.datatypes).filter _ = _
    by_cases hcr : d = .create
    · have hopd : doc.duid = p.duid := by rw [← f.hduid]; simp [SC.opDuid, hcr]
      rw [SC.upsert_append (by
        intro y hy; rw [h2du, hopd]; exact SC.byId_none (f.hcreate hcr).1 y hy)]
      simp [List.filter_append, h2col, f.hcol]
    · exact SC.upsert_filter_mem _ (f.hmem hcr).1 hdu h2du (by simp [h2col, f.hcol]) (by simp [f.hcol])
  · show (st.operations ++ nd).filter _ = _
    rw [List.filter_append]
    have : nd.filter (fun o => o.colNum ≠ col.num) = [] := by
      rw [List.filter_eq_nil_iff]; intro o ho; simp [(f.hnew o ho).2]
    rw [this, List.append_nil]

/-- operations on one datatype never change another: documents and operations of every datatype id
    other than the one the response names are untouched -/
theorem frame_other_datatypes (st : Store) (cl : ClientDoc) (col : CollectionDoc) (p : Pack) :
    let r := processPack st cl col p
    r.store.datatypes.filter (fun d => d.duid ≠ r.resp.duid) = st.datatypes.filter (fun d => d.duid ≠ r.resp.duid) ∧
    r.store.operations.filter (fun o => o.duid ≠ r.resp.duid) = st.operations.filter (fun o => o.duid ≠ r.resp.duid) := by
  refine SC.processPack_cases st cl col p (fun r =>
    r.store.datatypes.filter (fun d => d.duid ≠ r.resp.duid) = st.datatypes.filter (fun d => d.duid ≠ r.resp.duid) ∧
    r.store.operations.filter (fun o => o.duid ≠ r.resp.duid) = st.operations.filter (fun o => o.duid ≠ r.resp.duid))
    (fun _ => ⟨rfl, rfl⟩) (fun _ _ _ => ⟨rfl, rfl⟩) ?_
  intro d doc cp2 nd f
  obtain ⟨h2du, -, -, -⟩ := SC.doc2_facts st cl p d doc cp2 nd
  simp only [SC.okR_duid, f.hrduid]
  constructor
  · show (upsertDatatype _ st.datatypes).filter _ = _
    rw [← h2du]; exact SC.upsert_filter_duid _ _
  · show (st.operations ++ nd).filter _ = _
    rw [List.filter_append]
    have : nd.filter (fun o => o.duid ≠ doc.duid) = [] := by
      rw [List.filter_eq_nil_iff]; intro o ho; simp [(f.hnew o ho).1]
    rw [this, List.append_nil]

/-- resetting a collection removes exactly that collection's datatypes, operations, snapshots and
    clients (and its user documents) and nothing else -/
theorem reset_exact (st : Store) (name : String) (c : CollectionDoc) (h : st.getCollection name = some c) :
    let st' := st.resetCollection name
    st'.datatypes = st.datatypes.filter (fun d => d.colNum ≠ c.num) ∧
    st'.operations = st.operations.filter (fun o => o.colNum ≠ c.num) ∧
    st'.snapshots = st.snapshots.filter (fun s => s.colNum ≠ c.num) ∧
    st'.clients = st.clients.filter (fun x => x.colNum ≠ c.num) ∧
    st'.userDocs = st.userDocs.filter (fun u => u.col ≠ name) ∧
    st'.collections = st.collections := by
  unfold Store.resetCollection
  simp [h]

/-- collection numbers are never re-issued -/
def ColNumInv (st : Store) : Prop :=
  (∀ c ∈ st.collections, c.num ≤ st.counter.getD 0) ∧ (st.collections.map (·.num)).Nodup ∧
  (st.collections.map (·.name)).Nodup
theorem colNumInv_empty : ColNumInv {} := by
  simp [ColNumInv]

theorem colNumInv_makeCollection (st : Store) (name : String) (h : ColNumInv st) : ColNumInv (st.makeCollection name).1 := by
  unfold Store.makeCollection
  cases hg : st.getCollection name with
  | some c => exact h
  | none =>
    obtain ⟨h1, h2, h3⟩ := h
    have hn := SC.getCollection_none hg
    refine ⟨?_, ?_, ?_⟩
    · intro c hc
      simp only [List.mem_append, List.mem_singleton] at hc
      rcases hc with hc | hc
      · have := h1 c hc; simp; omega
      · subst hc; simp
    · simp only [List.map_append, List.map_cons, List.map_nil]
      rw [List.nodup_append]
      refine ⟨h2, by simp, ?_⟩
      intro a ha b hb
      simp at hb; subst hb
      obtain ⟨c, hc, rfl⟩ := List.mem_map.1 ha
      have := h1 c hc; omega
    · simp only [List.map_append, List.map_cons, List.map_nil]
      rw [List.nodup_append]
      refine ⟨h3, by simp, ?_⟩
      intro a ha b hb
      simp at hb; subst hb
      obtain ⟨c, hc, rfl⟩ := List.mem_map.1 ha
      exact hn c hc

theorem makeCollection_fresh (st : Store) (name : String) (h : ColNumInv st) (hnew : st.getCollection name = none) :
    ∀ c ∈ st.collections, c.num ≠ (st.makeCollection name).2 := by
  intro c hc
  have := h.1 c hc
  unfold Store.makeCollection
  simp [hnew]; omega

/-! ## C18 — every committed push is announced -/

/-- a notification is emitted exactly when at least one operation was stored; it names the topic of
    that collection and key, the pusher, the datatype and the new end of the log -/
theorem notify_iff_stored (st : Store) (cl : ClientDoc) (col : CollectionDoc) (p : Pack) :
    let r := processPack st cl col p
    (r.notif.isSome = true ↔ 0 < r.pushed) ∧
    (∀ n, r.notif = some n → n.cuid = cl.cuid ∧ n.duid = r.resp.duid ∧ n.sseq = r.resp.cp.sseq ∧
        ∃ d ∈ r.store.datatypes, d.duid = n.duid ∧ d.sseqEnd = n.sseq ∧ n.topic = col.name ++ "/" ++ d.key) := by
  refine SC.processPack_cases st cl col p (fun r =>
    (r.notif.isSome = true ↔ 0 < r.pushed) ∧
    (∀ n, r.notif = some n → n.cuid = cl.cuid ∧ n.duid = r.resp.duid ∧ n.sseq = r.resp.cp.sseq ∧
        ∃ d ∈ r.store.datatypes, d.duid = n.duid ∧ d.sseqEnd = n.sseq ∧ n.topic = col.name ++ "/" ++ d.key))
    (fun _ => by simp [SC.refuseR]) (fun _ _ _ => by simp [SC.pushErrR]) ?_
  intro d doc cp2 nd f
  obtain ⟨h2du, h2key, -, h2end⟩ := SC.doc2_facts st cl p d doc cp2 nd
  by_cases he : nd = []
  · subst he; simp [SC.okR]
  · have hne : nd.isEmpty = false := by cases nd <;> simp_all
    have hlen : 0 < nd.length := by cases nd <;> simp_all
    have hro : p.readOnly = false := by
      cases h : p.readOnly
      · rfl
      · exact absurd (f.hro h) he
    refine ⟨by simp [SC.okR, hne, hlen], ?_⟩
    intro n hn
    simp only [SC.okR, hne, Bool.false_eq_true, if_false, Option.some.injEq] at hn
    subst hn
    refine ⟨rfl, ?_, rfl, _, SC.self_mem_upsert _ _, h2du, ?_, ?_⟩
    · rw [SC.okR_duid, f.hrduid]
    · rw [h2end]; simp [hro]
    · rw [h2key]

/-- pull-only syncs (no operations in the request) publish nothing -/
theorem pull_only_silent (st : Store) (cl : ClientDoc) (col : CollectionDoc) (p : Pack) (h : p.ops = []) :
    (processPack st cl col p).notif = none := by
  refine SC.processPack_cases st cl col p (fun r => r.notif = none) (fun _ => rfl) (fun _ _ _ => rfl) ?_
  intro d doc cp2 nd f
  simp [SC.okR, f.hnops h]
end Orda
