/-
The ENTRY phase, store level.  `processPack` (Model/Server) on a CREATE pack for an absent key, on a
SUBSCRIBE pack of a late joiner, and on ordinary packs refines the abstract system `JSys` of
Proofs/ProtocolJoin under the abstraction `absLog` / `absCps` of Proofs/ServerRefine.

What `JSys` assumes, and how creation fits it: `JSys.init` has `log = []`, `cps = []`, and clients flagged
`true` "start subscribed on the empty log (the creator …)"; there is no create constructor — the creator's
first request is a NORMAL request served by `JStep.serve` from ⟨0, recorded cseq 0⟩ (`JEx.reqA0`).  At
the store level the abstraction of "the target does not exist" (no document with its id, hence by
`LogInv.noOrphan` no operation) IS that empty state (`absent_abs`), and the create pack is exactly
`JStep.serve` (kind `.normal`) on it — or `JStep.refuse` when `pushOps` finds a gap (`processPack_is_create`,
`processPack_create_refused`).  So nothing is missing in `JSys`; only the response's create bit is not
modelled there (`IsServeJ.respBits` records it).

One-step theorems: `pushing_is_serve` / `pushing_is_refuse` (any dispatch path that pushes: `.create` on
a fresh document, `.normal` on an ordinary pack, `.normal` on the creator's create pack served again),
instantiated by `CreateReq.pushing`, `ordinary_pushing`, `createAgain_pushing`; the subscribe step is
`SRef.processPack_is_serveSub` = `JStep.serveSub`.

Runs: `SSysJ` / `SStepJ` (localOp, send, create, createAgain, serve, subscribe, subscribeOrCreate, deliver,
deliverSub, other, frame), invariant `GoodJ` (LogInv, KeyUnique, `Phase`: target absent or present), `store_step_simulates_join`
(each store step is a `JStep` or invisible), `store_run_simulates_join`, `store_run_from_scratch`; transferred:
`store_log_with_late_joiners`, `store_never_refuses_join`.  Ordinary and subscribe packs arriving BEFORE the
datatype exists are refused by the server without a trace (invisible steps).
A pack with BOTH bits (subscribe-or-create) on the existing key is handled as the same pack without the
create bit (`subOrCreate_eq`), hence `JStep.serveSub` too (`SStepJ.subscribeOrCreate`).
NOT covered: a create-only pack of an unrecorded client on an existing key is refused 302
(`create_existing_refused`) and is not a step either; read-only / volatile clients.  Core Lean only.
-/
import Orda.Proofs.ServerRefine
import Orda.Proofs.ProtocolJoin
namespace Orda.SRefJ
open Orda Orda.SRef

/-! ## A served request on ANY dispatch path that pushes: the abstract `serve` -/

theorem doc2_fields (st : Store) (cl : ClientDoc) (p : Pack) (dd : Dispatch) (doc : DatatypeDoc) (cp2 : CheckPoint)
    (nd : List OpDoc) :
    (SL.doc2 st cl p dd doc cp2 nd).key = doc.key ∧ (SL.doc2 st cl p dd doc cp2 nd).colNum = doc.colNum ∧
    (SL.doc2 st cl p dd doc cp2 nd).sseqBegin = doc.sseqBegin ∧ (SL.doc2 st cl p dd doc cp2 nd).typ = doc.typ ∧
    (SL.doc2 st cl p dd doc cp2 nd).visible = doc.visible := by
  unfold SL.doc2 DatatypeDoc.setSub; simp only []; split
  · exact ⟨rfl, rfl, rfl, rfl, rfl⟩
  · split <;> exact ⟨rfl, rfl, rfl, rfl, rfl⟩

/-- `r` is the abstract `serve` step on datatype `doc.duid` for client `cuid`, request sseq `s`, with
    `pushOps` result `(cp2, docs)`; `doc` is the document the request worked on -/
structure IsServeJ (st : Store) (cuid : String) (dd : Dispatch) (doc : DatatypeDoc) (s : Nat) (cp2 : CheckPoint) (docs : List OpDoc)
    (r : PPResult) : Prop where
  log : absLog r.store doc.duid = absLog st doc.duid ++ docs.map (·.op)
  cps : absCps r.store doc.duid = alSet cuid cp2 (absCps st doc.duid)
  respOps : r.resp.ops = (absLog st doc.duid).drop s
  respCp : r.resp.cp = cp2
  respOk : r.resp.error = false
  respBits : r.resp.create = decide (dd = .create) ∧ r.resp.subscribe = decide (dd = .subscribe)
  pushed : r.pushed = docs.length
  other : ∀ u, u ≠ doc.duid → r.store.getDatatype u = st.getDatatype u ∧ absLog r.store u = absLog st u ∧
    absCps r.store u = absCps st u
  docAfter : ∃ d', r.store.getDatatype doc.duid = some d' ∧ d'.key = doc.key ∧ d'.colNum = doc.colNum ∧
    d'.sseqBegin = doc.sseqBegin ∧ d'.typ = doc.typ ∧ d'.visible = doc.visible
  inv : LogInv r.store

section core
variable {st : Store} {cl : ClientDoc} {col : CollectionDoc} {p : Pack} {dd : Dispatch} {doc : DatatypeDoc}

/-- the hypotheses common to every pushing path -/
structure Pushing (st : Store) (cl : ClientDoc) (col : CollectionDoc) (p : Pack) (dd : Dispatch) (doc : DatatypeDoc) : Prop where
  served : SL.Served st col p dd doc
  notSub : dd ≠ .subscribe
  eq_finish : processPack st cl col p = SL.finish st cl col p dd doc
  cpsAbs : absCps st doc.duid = doc.rw.map (fun e => (e.1, e.2.cp))
  readWrite : p.readOnly = false
  noSnapshot : p.snapshot = false
  notVolatile : cl.typ ≠ 2
  logKept : doc.sseqBegin ≤ p.cp.sseq + 1

theorem Pushing.cp0_eq (h : Pushing st cl col p dd doc) : SL.cp0 cl p doc = absRec st doc.duid cl.cuid := by
  unfold SL.cp0 absRec DatatypeDoc.sub
  rw [h.cpsAbs]
  simp only [h.readWrite, Bool.false_eq_true, if_false]
  rw [alFind_map (fun s : SubClient => s.cp)]
  cases alFind cl.cuid doc.rw <;> rfl

theorem Pushing.pushRes_eq (h : Pushing st cl col p dd doc) :
    SL.pushRes cl col p dd doc = pushOps doc.duid col.num ⟨doc.sseqEnd, (absRec st doc.duid cl.cuid).cseq⟩ p.ops [] := by
  unfold SL.pushRes SL.cp1
  simp [h.readWrite, h.served.duid, h.cp0_eq, h.notSub]

theorem pushing_is_serve (inv : LogInv st) (h : Pushing st cl col p dd doc) {cp2 : CheckPoint} {docs : List OpDoc}
    (hpush : pushOps pDuid pCol ⟨(absLog st doc.duid).length, (absRec st doc.duid cl.cuid).cseq⟩ p.ops [] = .ok (cp2, docs)) :
    IsServeJ st cl.cuid dd doc p.cp.sseq cp2 docs (processPack st cl col p) := by
  have hs := h.served
  have hlog := SL.served_log inv hs
  rw [absLog_length hlog] at hpush
  obtain ⟨nd, hnd, hndop⟩ := pushOps_ok_transfer (d' := doc.duid) (c' := col.num) hpush
  have hpr : SL.pushRes cl col p dd doc = .ok (cp2, nd) := by rw [h.pushRes_eq]; exact hnd
  have heq : processPack st cl col p = SL.okR st cl col p dd doc cp2 nd := by
    rw [h.eq_finish]; unfold SL.finish; rw [hpr]
  obtain ⟨hn1, hn2, _, hn4, _, _⟩ := SL.pushRes_spec hs hpr
  have hndu : ∀ o ∈ nd, o.duid = doc.duid := fun o ho => (hn1 o ho).1
  have hc3 : SL.cp3 st cl p dd doc cp2 nd = cp2 := by
    obtain ⟨ha, hb⟩ := SL.cp3_spec (cl := cl) (cp2 := cp2) (nd := nd) inv hs
    rcases hb with hb | hb
    · have h4 := hn4 h.readWrite
      generalize SL.cp3 st cl p dd doc cp2 nd = c3 at ha hb
      cases c3; cases cp2
      simp only [] at ha hb h4
      rw [ha, hb, h4]
    · exact hb
  have inv' : LogInv (SL.okR st cl col p dd doc cp2 nd).store := SL.logInv_okR inv hs hpr
  have h2du : (SL.doc2 st cl p dd doc cp2 nd).duid = doc.duid := SL.doc2_duid ..
  have hget : (SL.okR st cl col p dd doc cp2 nd).store.getDatatype doc.duid = some (SL.doc2 st cl p dd doc cp2 nd) := by
    show (upsertDatatype _ st.datatypes).find? _ = _
    exact getDatatype_upsert_of_duid _ _ h2du
  have hrw : (SL.doc2 st cl p dd doc cp2 nd).rw = alSet cl.cuid ⟨cp2, cl.typ⟩ doc.rw := by
    unfold SL.doc2 DatatypeDoc.setSub
    simp [h.notVolatile, h.readWrite, hc3]
  have hcps : absCps (SL.okR st cl col p dd doc cp2 nd).store doc.duid = alSet cl.cuid cp2 (absCps st doc.duid) := by
    rw [h.cpsAbs]
    unfold absCps
    rw [hget]
    simp only [hrw]
    exact alSet_map (fun s : SubClient => s.cp) cl.cuid ⟨cp2, cl.typ⟩ doc.rw
  rw [heq]
  obtain ⟨f1, f2, f3, f4, f5⟩ := doc2_fields st cl p dd doc cp2 nd
  refine ⟨?_, hcps, ?_, hc3, rfl, ⟨rfl, rfl⟩, ?_, ?_, ⟨_, hget, f1, f2, f3, f4, f5⟩, inv'⟩
  · have hmem : SL.doc2 st cl p dd doc cp2 nd ∈ (SL.okR st cl col p dd doc cp2 nd).store.datatypes :=
      SL.self_mem_upsert _ _
    have hlog' := inv'.gapless _ hmem
    rw [h2du] at hlog'
    rw [absLog_eq hlog', absLog_eq hlog, ← hndop]
    show ((st.operations ++ nd).filter _).map _ = _
    rw [List.filter_append, List.map_append]
    have : nd.filter (fun o => decide (o.duid = doc.duid)) = nd :=
      List.filter_eq_self.2 (fun o ho => by simp [hndu o ho])
    rw [this]; rfl
  · show (SL.pulled st cl p dd doc).map (·.op) = _
    have : SL.pulled st cl p dd doc = st.getOperations doc.duid (p.cp.sseq + 1) := by
      unfold SL.pulled
      simp [h.notVolatile, h.logKept, h.noSnapshot, hs.duid]
    rw [this, getOperations_drop hlog, absLog_eq hlog, List.map_drop]
  · show nd.length = docs.length
    have := congrArg List.length hndop
    simpa using this
  · intro u hu
    have h1 : (SL.okR st cl col p dd doc cp2 nd).store.getDatatype u = st.getDatatype u := by
      show (upsertDatatype _ st.datatypes).find? _ = _
      exact getDatatype_upsert_ne _ _ (by rw [h2du]; exact hu)
    refine ⟨h1, ?_, ?_⟩
    · unfold absLog
      have : (SL.okR st cl col p dd doc cp2 nd).store.getOperations u 1 = st.getOperations u 1 :=
        getOperations_other hndu hu 1
      rw [this]
    · unfold absCps; rw [h1]

theorem pushing_is_refuse (inv : LogInv st) (h : Pushing st cl col p dd doc) {code : Nat}
    (hpush : pushOps pDuid pCol ⟨(absLog st doc.duid).length, (absRec st doc.duid cl.cuid).cseq⟩ p.ops [] = .error code) :
    (processPack st cl col p).store = st ∧ (processPack st cl col p).resp.error = true ∧
    (processPack st cl col p).resp.ops = [⟨OpId.nil, .error code⟩] := by
  have hlog := SL.served_log inv h.served
  rw [absLog_length hlog] at hpush
  have hpr : SL.pushRes cl col p dd doc = .error code := by
    rw [h.pushRes_eq]; exact pushOps_err_transfer hpush
  have heq : processPack st cl col p = SL.pushErrR st p dd doc code := by
    rw [h.eq_finish]; unfold SL.finish; rw [hpr]
  rw [heq]; exact ⟨rfl, rfl, rfl⟩

end core

/-! ## The CREATE pack on an absent key -/

/-- a CREATE (or subscribe-or-create) pack of a non-volatile client for a key that does not exist in its
    collection, carrying a datatype id that is not in use: the first request on the key -/
structure CreateReq (st : Store) (cl : ClientDoc) (col : CollectionDoc) (p : Pack) : Prop where
  create : p.create = true
  readWrite : p.readOnly = false
  noSnapshot : p.snapshot = false
  notVolatile : cl.typ ≠ 2
  absentKey : st.getDatatypeByKey col.num p.key = none
  absentId : st.getDatatype p.duid = none

/-- the document `processPack` creates -/
def freshDoc (col : CollectionDoc) (p : Pack) : DatatypeDoc :=
  { duid := p.duid, key := p.key, colNum := col.num, typ := p.typ }

section create
variable {st : Store} {cl : ClientDoc} {col : CollectionDoc} {p : Pack}

/-- for the protocol, a datatype that does not exist yet is the empty log with no record: `JSys.init` -/
theorem absent_abs (inv : LogInv st) {u : String} (h : st.getDatatype u = none) : absLog st u = [] ∧ absCps st u = [] := by
  have h0 : st.opsOf u = [] := SL.opsOf_nil_of_fresh inv (SL.getDatatype_none h)
  have hlog : (st.opsOf u).map (·.sseq) = List.range' 1 0 := by rw [h0]; rfl
  refine ⟨by rw [absLog_eq hlog, h0]; rfl, ?_⟩
  unfold absCps; rw [h]

theorem CreateReq.pushing (h : CreateReq st cl col p) : Pushing st cl col p .create (freshDoc col p) := by
  have hev : evalCase st col cl.cuid p = (.matchNothing, none) := by
    unfold evalCase
    simp [h.create, h.absentKey, h.absentId]
  have hdsp : SL.dsp st cl col p = .create := by
    unfold SL.dsp
    rw [hev]
    have e : ∀ s, dispatch .matchNothing true s true = .create := by decide
    simp [SL.sameDuid, h.create, e]
  have hs := SL.served_of_dsp hdsp (by intro c; simp)
  rw [hev] at hs
  refine ⟨hs, by simp, ?_, ?_, h.readWrite, h.noSnapshot, h.notVolatile, Nat.zero_le _⟩
  · rw [SL.processPack_eq, hdsp, hev]
    simp [h.readWrite, h.create, SL.docOf, freshDoc]
  · show absCps st p.duid = _
    unfold absCps; rw [h.absentId]; rfl

/-- **The create pack on an absent key is the abstract `serve` of a NORMAL request on the empty protocol
    state** (`JStep.serve` from log `[]`, record ⟨0,0⟩ — `JSys` lets the creator start joined on the empty
    log): the datatype document is created under the pack's id with the pack's key and type, visible, in
    the client's collection; the log becomes exactly the operations `pushOps` accepts from ⟨0,0⟩; the
    client is recorded with `cp2`; the answer carries no operations, checkpoint `cp2`, and the create bit. -/
theorem processPack_is_create (inv : LogInv st) (h : CreateReq st cl col p) {cp2 : CheckPoint} {docs : List OpDoc}
    (hpush : pushOps pDuid pCol ⟨0, 0⟩ p.ops [] = .ok (cp2, docs)) :
    let r := processPack st cl col p
    (absLog st p.duid = [] ∧ absCps st p.duid = []) ∧
    IsServeJ st cl.cuid .create (freshDoc col p) p.cp.sseq cp2 docs r ∧
    absLog r.store p.duid = docs.map (·.op) ∧ absCps r.store p.duid = [(cl.cuid, cp2)] ∧
    r.resp.ops = [] ∧ r.resp.cp = cp2 ∧ r.resp.error = false ∧ r.resp.create = true ∧
    ∃ d', r.store.getDatatype p.duid = some d' ∧ d'.key = p.key ∧ d'.colNum = col.num ∧ d'.typ = p.typ ∧
      d'.visible = true ∧ d'.sseqBegin = 0 := by
  obtain ⟨a1, a2⟩ := absent_abs inv h.absentId
  have hpush' : pushOps pDuid pCol ⟨(absLog st (freshDoc col p).duid).length, (absRec st (freshDoc col p).duid cl.cuid).cseq⟩
      p.ops [] = .ok (cp2, docs) := by
    show pushOps pDuid pCol ⟨(absLog st p.duid).length, (absRec st p.duid cl.cuid).cseq⟩ p.ops [] = _
    unfold absRec
    rw [a1, a2]; exact hpush
  have hs := pushing_is_serve inv h.pushing hpush'
  intro r
  obtain ⟨d', g0, g1, g2, g3, g4, g5⟩ := hs.docAfter
  refine ⟨⟨a1, a2⟩, hs, ?_, ?_, ?_, hs.respCp, hs.respOk, by simpa using hs.respBits.1, d', g0, g1, g2, g4, g5, g3⟩
  · have := hs.log; rw [show (freshDoc col p).duid = p.duid from rfl, a1] at this; simpa using this
  · have := hs.cps; rw [show (freshDoc col p).duid = p.duid from rfl, a2] at this; exact this
  · have := hs.respOps; rw [show (freshDoc col p).duid = p.duid from rfl, a1] at this; simpa using this

theorem processPack_create_refused (inv : LogInv st) (h : CreateReq st cl col p) {code : Nat}
    (hpush : pushOps pDuid pCol ⟨0, 0⟩ p.ops [] = .error code) :
    (processPack st cl col p).store = st ∧ (processPack st cl col p).resp.error = true := by
  obtain ⟨a1, a2⟩ := absent_abs inv h.absentId
  have hpush' : pushOps pDuid pCol ⟨(absLog st (freshDoc col p).duid).length, (absRec st (freshDoc col p).duid cl.cuid).cseq⟩
      p.ops [] = .error code := by
    show pushOps pDuid pCol ⟨(absLog st p.duid).length, (absRec st p.duid cl.cuid).cseq⟩ p.ops [] = _
    unfold absRec
    rw [a1, a2]; exact hpush
  have := pushing_is_refuse inv h.pushing hpush'
  exact ⟨this.1, this.2.1⟩

end create

/-- an ordinary request (Proofs/ServerRefine) is a pushing path too -/
theorem ordinary_pushing {st : Store} {cl : ClientDoc} {col : CollectionDoc} {p : Pack} {d : DatatypeDoc}
    (h : Ordinary st cl col p d) : Pushing st cl col p .normal d := by
  refine ⟨h.served, by simp, h.eq_finish, ?_, h.readWrite, h.noSnapshot, h.notVolatile, h.logKept⟩
  rw [h.duid]; unfold absCps; rw [h.found]


/-- the creator's CREATE pack served AGAIN after the datatype exists (a retry, a duplicate): the key is found,
    id and type match, the client is recorded: it is served on the normal path -/
structure CreateAgain (st : Store) (cl : ClientDoc) (col : CollectionDoc) (p : Pack) (d : DatatypeDoc) : Prop where
  create : p.create = true
  readWrite : p.readOnly = false
  noSnapshot : p.snapshot = false
  notVolatile : cl.typ ≠ 2
  byKey : st.getDatatypeByKey col.num p.key = some d
  sameId : d.duid = p.duid
  sameType : d.typ = p.typ
  visible : d.visible = true
  recorded : (d.sub cl.cuid false).isSome = true
  logKept : d.sseqBegin ≤ p.cp.sseq + 1

theorem createAgain_pushing {st : Store} {cl : ClientDoc} {col : CollectionDoc} {p : Pack} {d : DatatypeDoc}
    (inv : LogInv st) (h : CreateAgain st cl col p d) : Pushing st cl col p .normal d := by
  obtain ⟨hm, hcol⟩ := SL.getDatatypeByKey_some h.byKey
  have hev : evalCase st col cl.cuid p = (.allMatchedSubscribed, some d) := by
    rw [SC.evalCase_byKey (by simp [h.create]) h.byKey]
    simp [h.sameType, h.visible, h.readWrite, h.recorded]
  have hdsp : SL.dsp st cl col p = .normal := by
    unfold SL.dsp
    rw [hev]
    have e : ∀ s, dispatch .allMatchedSubscribed true s true = .normal := by decide
    simp [SL.sameDuid, h.sameId, h.create, e]
  refine ⟨⟨by simp [SL.opDuid, h.sameId], hcol, Or.inr hm⟩, by simp, ?_, ?_, h.readWrite, h.noSnapshot,
    h.notVolatile, h.logKept⟩
  · rw [SL.processPack_eq, hdsp, hev]
    simp [h.readWrite, SL.docOf]
  · unfold absCps; rw [getDatatype_of_mem inv hm]


/-- a SUBSCRIBE-OR-CREATE pack (both bits) on an EXISTING key stored under another id is handled exactly as
    the same pack without the create bit: as a subscription -/
theorem subOrCreate_eq {st : Store} {cl : ClientDoc} {col : CollectionDoc} {p : Pack} {d : DatatypeDoc}
    (hs : p.subscribe = true) (hro : p.readOnly = false)
    (hk : st.getDatatypeByKey col.num p.key = some d) (ht : d.typ = p.typ) (hv : d.visible = true)
    (hd : d.duid ≠ p.duid) :
    processPack st cl col p = processPack st cl col { p with create := false } := by
  have key : ∀ q : Pack, q.subscribe = true → q.readOnly = false → q.key = p.key → q.typ = p.typ → q.duid = p.duid →
      processPack st cl col q = SL.finish st cl col q .subscribe d := by
    intro q qs qro qk qt qd
    have hk' : st.getDatatypeByKey col.num q.key = some d := by rw [qk]; exact hk
    have hev : evalCase st col cl.cuid q =
        (if (d.sub cl.cuid q.readOnly).isSome then .allMatchedSubscribed else .allMatchedNotSubscribed, some d) := by
      rw [SC.evalCase_byKey (by simp [qs]) hk']
      simp only [ht, qt, hv, if_true]
      split <;> rfl
    have hdsp : SL.dsp st cl col q = .subscribe := by
      unfold SL.dsp
      rw [hev]
      have e1 : ∀ c, dispatch .allMatchedSubscribed c true false = .subscribe := by decide
      have e2 : ∀ c, dispatch .allMatchedNotSubscribed c true false = .subscribe := by decide
      have hd' : d.duid ≠ q.duid := by rw [qd]; exact hd
      by_cases hr : (d.sub cl.cuid q.readOnly).isSome = true
      · simp [hr, qs, SL.sameDuid, hd', e1]
      · simp [hr, qs, SL.sameDuid, hd', e2]
    rw [SL.processPack_eq, hdsp, hev]
    simp [qro, SL.docOf]
  rw [key p hs hro rfl rfl rfl, key { p with create := false } hs hro rfl rfl rfl]
  rfl

/-! ## The store-level system with the entry phase -/

/-- the datatype observed: collection, stored id (= the id the creator's datatype object carries), key, type -/
structure TargetJ where
  col : CollectionDoc
  duid : String
  key : String
  typ : DtType

/-- the REAL store with `JSys`'s clients (joined or due to subscribe) and its adversarial network -/
structure SSysJ where
  st : Store
  clients : List JClient
  reqs : List JReq
  resps : List JResp

def SSysJ.abs (T : SSysJ) (tg : TargetJ) : JSys :=
  ⟨T.clients, absLog T.st tg.duid, absCps T.st tg.duid, T.reqs, T.resps⟩

/-- an ordinary pack carrying request `r` (as `SRef.PackOf`) -/
structure PackOfJ (tg : TargetJ) (r : JReq) (p : Pack) : Prop where
  key : p.key = tg.key
  duid : p.duid = tg.duid
  noCreate : p.create = false
  noSubscribe : p.subscribe = false
  readWrite : p.readOnly = false
  noSnapshot : p.snapshot = false
  ops : p.ops = r.ops
  sseq : p.cp.sseq = r.s

/-- a CREATE (or subscribe-or-create: the subscribe bit is free) pack carrying request `r`: the creator's
    datatype object has the id that will be stored -/
structure CreatePackOf (tg : TargetJ) (r : JReq) (p : Pack) : Prop where
  key : p.key = tg.key
  duid : p.duid = tg.duid
  typ : p.typ = tg.typ
  create : p.create = true
  readWrite : p.readOnly = false
  noSnapshot : p.snapshot = false
  ops : p.ops = r.ops
  sseq : p.cp.sseq = r.s

/-- a SUBSCRIBE pack of a late joiner carrying request `r`: its own datatype id (another one than the
    stored id), the key and the type; whatever operations it carries are dropped by the server -/
structure SubPackOf (tg : TargetJ) (r : JReq) (p : Pack) : Prop where
  key : p.key = tg.key
  otherId : p.duid ≠ tg.duid
  typ : p.typ = tg.typ
  subscribe : p.subscribe = true
  noCreate : p.create = false
  readWrite : p.readOnly = false
  noSnapshot : p.snapshot = false
  sseq : p.cp.sseq = r.s

/-- a SUBSCRIBE-OR-CREATE pack (both bits) of a late joiner carrying request `r` -/
structure SubCreatePackOf (tg : TargetJ) (r : JReq) (p : Pack) : Prop where
  key : p.key = tg.key
  otherId : p.duid ≠ tg.duid
  typ : p.typ = tg.typ
  subscribe : p.subscribe = true
  create : p.create = true
  readWrite : p.readOnly = false
  noSnapshot : p.snapshot = false
  sseq : p.cp.sseq = r.s

/-- the response the network carries back, of the kind of the exchange; an error pack carries nothing -/
def respOfJ (k : JMsgKind) (i : Nat) (r : PPResult) : List JResp :=
  if r.resp.error then [] else [⟨k, i, r.resp.ops, r.resp.cp⟩]

inductive SStepJ (tg : TargetJ) : SSysJ → SSysJ → Prop
  | localOp (T : SSysJ) (i : Nat) (cl : JClient) (o : Op) :
      T.clients[i]? = some cl → o.id.cuid = cl.base.cuid → o.id.seq = cl.base.buf.length + 1 →
      SStepJ tg T { T with clients := T.clients.set i { cl with base := { cl.base with buf := cl.base.buf ++ [o] } } }
  | send (T : SSysJ) (i : Nat) (cl : JClient) :
      T.clients[i]? = some cl →
      SStepJ tg T { T with reqs := T.reqs ++ [⟨if cl.joined then .normal else .sub, i, cl.base.cp.sseq,
                                               cl.base.buf.drop cl.base.cp.cseq⟩] }
  /-- (a) CREATE: a normal request of a (joined = creator) client, carried as a create pack, handled by
      `processPack` while neither the key nor the id exists: the first request on the key -/
  | create (T : SSysJ) (r : JReq) (cl : JClient) (cd : ClientDoc) (p : Pack) :
      r ∈ T.reqs → r.kind = .normal → T.clients[r.i]? = some cl → cd.cuid = cl.base.cuid → cd.typ ≠ 2 →
      CreatePackOf tg r p → T.st.getDatatype tg.duid = none → T.st.getDatatypeByKey tg.col.num tg.key = none →
      SStepJ tg T { T with st := (processPack T.st cd tg.col p).store,
                           resps := T.resps ++ respOfJ .normal r.i (processPack T.st cd tg.col p) }
  /-- any normal request ever sent, carried as an ordinary pack (refused, invisibly, while the datatype
      does not exist) -/
  | serve (T : SSysJ) (r : JReq) (cl : JClient) (cd : ClientDoc) (p : Pack) :
      r ∈ T.reqs → r.kind = .normal → T.clients[r.i]? = some cl → cd.cuid = cl.base.cuid → cd.typ ≠ 2 →
      PackOfJ tg r p →
      SStepJ tg T { T with st := (processPack T.st cd tg.col p).store,
                           resps := T.resps ++ respOfJ .normal r.i (processPack T.st cd tg.col p) }
  /-- the creator's create pack handled AGAIN (retry, duplicate) once the creator is recorded -/
  | createAgain (T : SSysJ) (r : JReq) (cl : JClient) (cd : ClientDoc) (p : Pack) :
      r ∈ T.reqs → r.kind = .normal → T.clients[r.i]? = some cl → cd.cuid = cl.base.cuid → cd.typ ≠ 2 →
      CreatePackOf tg r p → (alFind cd.cuid (absCps T.st tg.duid)).isSome = true →
      SStepJ tg T { T with st := (processPack T.st cd tg.col p).store,
                           resps := T.resps ++ respOfJ .normal r.i (processPack T.st cd tg.col p) }
  /-- (b) SUBSCRIBE: any subscribe request ever sent, any number of times, at any time (refused,
      invisibly, while the datatype does not exist) -/
  | subscribe (T : SSysJ) (r : JReq) (cl : JClient) (cd : ClientDoc) (p : Pack) :
      r ∈ T.reqs → r.kind = .sub → T.clients[r.i]? = some cl → cd.cuid = cl.base.cuid → cd.typ ≠ 2 →
      SubPackOf tg r p →
      SStepJ tg T { T with st := (processPack T.st cd tg.col p).store,
                           resps := T.resps ++ respOfJ .sub r.i (processPack T.st cd tg.col p) }
  /-- … also carried as a SUBSCRIBE-OR-CREATE pack, once the datatype exists (while it does not, such a pack
      of another id would create the key under THAT id: it is then the `create` step of that target) -/
  | subscribeOrCreate (T : SSysJ) (r : JReq) (cl : JClient) (cd : ClientDoc) (p : Pack) :
      r ∈ T.reqs → r.kind = .sub → T.clients[r.i]? = some cl → cd.cuid = cl.base.cuid → cd.typ ≠ 2 →
      SubCreatePackOf tg r p → (T.st.getDatatype tg.duid).isSome = true →
      SStepJ tg T { T with st := (processPack T.st cd tg.col p).store,
                           resps := T.resps ++ respOfJ .sub r.i (processPack T.st cd tg.col p) }
  | deliver (T : SSysJ) (q : JResp) (cl : JClient) :
      q ∈ T.resps → q.kind = .normal → T.clients[q.i]? = some cl → cl.joined = true →
      SStepJ tg T { T with clients := T.clients.set q.i { cl with base := cl.base.receive ⟨q.i, q.ops, q.cp⟩ } }
  | deliverSub (T : SSysJ) (q : JResp) (cl : JClient) :
      q ∈ T.resps → q.kind = .sub → T.clients[q.i]? = some cl →
      SStepJ tg T { T with clients := T.clients.set q.i (cl.deliverSub q) }
  /-- any pack of any client in any collection answered for another datatype id that, while the target
      does not exist yet, does not take the target's key -/
  | other (T : SSysJ) (cd : ClientDoc) (col : CollectionDoc) (p : Pack) :
      (processPack T.st cd col p).resp.duid ≠ tg.duid →
      ((T.st.getDatatype tg.duid).isSome ∨
        (processPack T.st cd col p).store.getDatatypeByKey tg.col.num tg.key = none) →
      SStepJ tg T { T with st := (processPack T.st cd col p).store }
  | frame (T : SSysJ) (st' : Store) :
      st'.datatypes = T.st.datatypes → st'.operations = T.st.operations → SStepJ tg T { T with st := st' }

/-- the target does not exist yet (neither its id nor its key), or it exists under its id, in its
    collection, under its key, with its type, visible, with an uncut log -/
inductive Phase (tg : TargetJ) (st : Store) : Prop
  | absent : st.getDatatype tg.duid = none → st.getDatatypeByKey tg.col.num tg.key = none → Phase tg st
  | present (d : DatatypeDoc) : st.getDatatype tg.duid = some d → d.colNum = tg.col.num → d.key = tg.key →
      d.typ = tg.typ → d.visible = true → d.sseqBegin ≤ 1 → Phase tg st

structure GoodJ (tg : TargetJ) (T : SSysJ) : Prop where
  inv : LogInv T.st
  keys : KeyUnique T.st
  phase : Phase tg T.st

inductive SRunJ (tg : TargetJ) : SSysJ → SSysJ → Prop
  | refl (T : SSysJ) : SRunJ tg T T
  | step {T T' T'' : SSysJ} : SRunJ tg T T' → SStepJ tg T' T'' → SRunJ tg T T''

/-! ### lookups -/

theorem byKey_of_mem {st : Store} (ku : KeyUnique st) (inv : LogInv st) {d : DatatypeDoc} (hm : d ∈ st.datatypes) :
    st.getDatatypeByKey d.colNum d.key = some d := by
  cases hg : st.getDatatypeByKey d.colNum d.key with
  | none => exact absurd rfl (SC.byKey_none hg d hm rfl)
  | some x =>
    unfold Store.getDatatypeByKey at hg
    have hx := List.mem_of_find?_eq_some hg
    have hq := List.find?_some hg
    simp only [decide_eq_true_eq] at hq
    rw [SL.eq_of_nodup_duid inv.duidNodup hx hm (ku x hx d hm hq.1 hq.2)]

/-- an ordinary pack for an id that names no datatype is refused: store untouched, error pack -/
theorem ordinary_absent_refused {st : Store} {cl : ClientDoc} {col : CollectionDoc} {p : Pack}
    (hc : p.create = false) (hs : p.subscribe = false) (hro : p.readOnly = false) (hn : st.getDatatype p.duid = none) :
    processPack st cl col p = SL.refuseR st p 301 := by
  have hev : evalCase st col cl.cuid p = (.matchNothing, none) := by
    unfold evalCase; simp [hc, hs, hn]
  have hdsp : SL.dsp st cl col p = .refuse 301 := by
    unfold SL.dsp
    rw [hev]
    have e : dispatch .matchNothing false false true = .refuse 301 := by decide
    simp [SL.sameDuid, hc, hs, e]
  rw [SL.processPack_eq, hdsp]
  simp [hro]

theorem phase_of_same {tg : TargetJ} {st st' : Store} (h1 : st'.getDatatype tg.duid = st.getDatatype tg.duid)
    (h2 : st'.getDatatypeByKey tg.col.num tg.key = none ∨ (st.getDatatype tg.duid).isSome) (ph : Phase tg st) :
    Phase tg st' := by
  cases ph with
  | absent a b =>
    rcases h2 with h2 | h2
    · exact .absent (by rw [h1]; exact a) h2
    · rw [a] at h2; cases h2
  | present d a b c e f g => exact .present d (by rw [h1]; exact a) b c e f g

/-! ### the steps that push: create and ordinary serve are `JStep.serve` / `JStep.refuse` -/

theorem pushing_sim {tg : TargetJ} {T : SSysJ} (inv : LogInv T.st) (ph : Phase tg T.st)
    {r : JReq} {cl : JClient} {cd : ClientDoc} {p : Pack} {dd : Dispatch} {doc : DatatypeDoc}
    (h : Pushing T.st cd tg.col p dd doc)
    (hdu : doc.duid = tg.duid) (hcol : doc.colNum = tg.col.num) (hkey : doc.key = tg.key) (htyp : doc.typ = tg.typ)
    (hvis : doc.visible = true) (hb : doc.sseqBegin ≤ 1)
    (hr : r ∈ T.reqs) (hk : r.kind = .normal) (hi : T.clients[r.i]? = some cl) (hcu : cd.cuid = cl.base.cuid)
    (hops : p.ops = r.ops) (hsq : p.cp.sseq = r.s) :
    Phase tg (processPack T.st cd tg.col p).store ∧
    JStep (T.abs tg) (SSysJ.abs { T with st := (processPack T.st cd tg.col p).store,
                                         resps := T.resps ++ respOfJ JMsgKind.normal r.i (processPack T.st cd tg.col p) } tg) := by
  cases hpush : pushOps pDuid pCol ⟨(absLog T.st doc.duid).length, (absRec T.st doc.duid cd.cuid).cseq⟩ p.ops [] with
  | ok res =>
    obtain ⟨cp2, docs⟩ := res
    have hs := pushing_is_serve inv h hpush
    have e1 : absLog (processPack T.st cd tg.col p).store tg.duid = absLog T.st tg.duid ++ docs.map (·.op) := by
      have := hs.log; rwa [hdu] at this
    have e2 : absCps (processPack T.st cd tg.col p).store tg.duid = alSet cl.base.cuid cp2 (absCps T.st tg.duid) := by
      have := hs.cps; rwa [hdu, hcu] at this
    have e3 : respOfJ JMsgKind.normal r.i (processPack T.st cd tg.col p) = [⟨.normal, r.i, (absLog T.st tg.duid).drop r.s, cp2⟩] := by
      unfold respOfJ
      rw [hs.respOk, hs.respOps, hs.respCp, hdu, hsq]
      rfl
    rw [hdu, hcu, hops] at hpush
    have hstep := JStep.serve (T.abs tg) r cl cp2 docs hr hk hi hpush
    constructor
    · obtain ⟨d', g0, g1, g2, g3, g4, g5⟩ := hs.docAfter
      exact .present d' (by rw [← hdu]; exact g0) (g2.trans hcol) (g1.trans hkey) (g4.trans htyp) (g5.trans hvis)
        (by rw [g3]; exact hb)
    · show JStep (T.abs tg) ⟨T.clients, absLog (processPack T.st cd tg.col p).store tg.duid,
        absCps (processPack T.st cd tg.col p).store tg.duid, T.reqs,
        T.resps ++ respOfJ JMsgKind.normal r.i (processPack T.st cd tg.col p)⟩
      rw [e1, e2, e3]
      exact hstep
  | error code =>
    obtain ⟨h1, h2, _⟩ := pushing_is_refuse inv h hpush
    have e3 : respOfJ JMsgKind.normal r.i (processPack T.st cd tg.col p) = [] := by
      unfold respOfJ; rw [h2]; rfl
    rw [hdu, hcu, hops] at hpush
    have hstep := JStep.refuse (T.abs tg) r cl code hr hk hi hpush
    constructor
    · rw [h1]; exact ph
    · show JStep (T.abs tg) ⟨T.clients, absLog (processPack T.st cd tg.col p).store tg.duid,
        absCps (processPack T.st cd tg.col p).store tg.duid, T.reqs,
        T.resps ++ respOfJ JMsgKind.normal r.i (processPack T.st cd tg.col p)⟩
      rw [e3, h1, List.append_nil]
      exact hstep

/-! ### the subscribe step is `JStep.serveSub` -/

theorem subscribe_sim {tg : TargetJ} {T : SSysJ} (inv : LogInv T.st) (ku : KeyUnique T.st)
    {r : JReq} {cl : JClient} {cd : ClientDoc} {p : Pack} {d : DatatypeDoc}
    (hd : T.st.getDatatype tg.duid = some d) (hcol : d.colNum = tg.col.num) (hkey : d.key = tg.key)
    (htyp : d.typ = tg.typ) (hvis : d.visible = true) (hb : d.sseqBegin ≤ 1)
    (hr : r ∈ T.reqs) (hk : r.kind = .sub) (hi : T.clients[r.i]? = some cl) (hcu : cd.cuid = cl.base.cuid)
    (hv : cd.typ ≠ 2) (hp : SubPackOf tg r p) :
    Phase tg (processPack T.st cd tg.col p).store ∧
    JStep (T.abs tg) (SSysJ.abs { T with st := (processPack T.st cd tg.col p).store,
                                         resps := T.resps ++ respOfJ JMsgKind.sub r.i (processPack T.st cd tg.col p) } tg) := by
  obtain ⟨hm, hdu⟩ := SL.getDatatype_some hd
  have hbk : T.st.getDatatypeByKey tg.col.num p.key = some d := by
    rw [hp.key, ← hkey, ← hcol]; exact byKey_of_mem ku inv hm
  have hne : d.duid ≠ p.duid := by rw [hdu]; exact fun e => hp.otherId e.symm
  have hsr : SubscribeReq T.st cd tg.col p d :=
    ⟨hp.subscribe, hp.noCreate, hp.readWrite, hp.noSnapshot, hbk, by rw [htyp, hp.typ], hvis, hne, hv, by omega⟩
  obtain ⟨e1, e2, e3, e4, e5, _, _, _, _, _, _, _⟩ := processPack_is_serveSub inv hsr
  rw [hdu] at e1 e2 e3 e4
  rw [hcu] at e2 e4
  rw [hp.sseq] at e3
  have e6 : respOfJ JMsgKind.sub r.i (processPack T.st cd tg.col p)
      = [⟨.sub, r.i, (absLog T.st tg.duid).drop r.s,
          ⟨(absLog T.st tg.duid).length, (absRec T.st tg.duid cl.base.cuid).cseq⟩⟩] := by
    unfold respOfJ
    rw [e5, e3, e4]
    rfl
  have hstep := JStep.serveSub (T.abs tg) r cl hr hk hi
  constructor
  · have heq := PJ.processPack_subscribe T.st cd tg.col p d hp.subscribe hp.noCreate hp.readWrite hbk
      (by rw [htyp, hp.typ]) hvis hne
    rw [heq]
    obtain ⟨f1, f2, f3, f4, f5⟩ := doc2_fields T.st cd p .subscribe d ⟨d.sseqEnd, (SL.cp0 cd p d).cseq⟩ []
    refine .present _ ?_ (f2.trans hcol) (f1.trans hkey) (f4.trans htyp) (f5.trans hvis) (by rw [f3]; exact hb)
    show (upsertDatatype _ T.st.datatypes).find? _ = _
    exact getDatatype_upsert_of_duid _ _ ((SL.doc2_duid ..).trans hdu)
  · show JStep (T.abs tg) ⟨T.clients, absLog (processPack T.st cd tg.col p).store tg.duid,
      absCps (processPack T.st cd tg.col p).store tg.duid, T.reqs,
      T.resps ++ respOfJ JMsgKind.sub r.i (processPack T.st cd tg.col p)⟩
    rw [e1, e2, e6]
    exact hstep

/-! ### every store step is a `JStep` or invisible -/

theorem stutter_of_refused {tg : TargetJ} {T : SSysJ} {res : PPResult} (k : JMsgKind) (i : Nat)
    (h1 : res.store = T.st) (h2 : res.resp.error = true) :
    SSysJ.abs { T with st := res.store, resps := T.resps ++ respOfJ k i res } tg = T.abs tg := by
  show JSys.mk _ (absLog res.store tg.duid) (absCps res.store tg.duid) _ (T.resps ++ respOfJ k i res) = JSys.mk _ _ _ _ _
  have : respOfJ k i res = [] := by unfold respOfJ; rw [h2]; rfl
  rw [h1, this, List.append_nil]

theorem store_step_simulates_join {tg : TargetJ} {T T' : SSysJ} (g : GoodJ tg T) (s : SStepJ tg T T') :
    GoodJ tg T' ∧ (JStep (T.abs tg) (T'.abs tg) ∨ T'.abs tg = T.abs tg) := by
  have hgood : ∀ (cd : ClientDoc) (col : CollectionDoc) (p : Pack), LogInv (processPack T.st cd col p).store ∧
      KeyUnique (processPack T.st cd col p).store :=
    fun cd col p => ⟨logInv_processPack _ _ _ _ g.inv, (keyUnique_processPack _ _ _ _ g.keys g.inv.duidNodup).1⟩
  cases s with
  | localOp i cl o hi hu hs => exact ⟨⟨g.inv, g.keys, g.phase⟩, Or.inl (JStep.localOp (T.abs tg) i cl o hi hu hs)⟩
  | send i cl hi => exact ⟨⟨g.inv, g.keys, g.phase⟩, Or.inl (JStep.send (T.abs tg) i cl hi)⟩
  | deliver q cl hq hk hi hj => exact ⟨⟨g.inv, g.keys, g.phase⟩, Or.inl (JStep.deliver (T.abs tg) q cl hq hk hi hj)⟩
  | deliverSub q cl hq hk hi => exact ⟨⟨g.inv, g.keys, g.phase⟩, Or.inl (JStep.deliverSub (T.abs tg) q cl hq hk hi)⟩
  | create r cl cd p hr hk hi hcu hv hp hnd hnk =>
    have hc : CreateReq T.st cd tg.col p :=
      ⟨hp.create, hp.readWrite, hp.noSnapshot, hv, by rw [hp.key]; exact hnk, by rw [hp.duid]; exact hnd⟩
    obtain ⟨ph, st⟩ := pushing_sim g.inv g.phase hc.pushing (doc := freshDoc tg.col p) hp.duid rfl hp.key hp.typ rfl
      (Nat.zero_le _) hr hk hi hcu hp.ops hp.sseq
    exact ⟨⟨(hgood _ _ _).1, (hgood _ _ _).2, ph⟩, Or.inl st⟩
  | serve r cl cd p hr hk hi hcu hv hp =>
    cases g.phase with
    | present d a b c e f h =>
      have hord : Ordinary T.st cd tg.col p d :=
        ⟨hp.noCreate, hp.noSubscribe, hp.readWrite, hp.noSnapshot, by rw [hp.duid]; exact a, b, by rw [c, hp.key], hv,
         by omega⟩
      obtain ⟨ph, st⟩ := pushing_sim g.inv g.phase (ordinary_pushing hord) (hord.duid.trans hp.duid) b c e f h
        hr hk hi hcu hp.ops hp.sseq
      exact ⟨⟨(hgood _ _ _).1, (hgood _ _ _).2, ph⟩, Or.inl st⟩
    | absent a b =>
      have heq := ordinary_absent_refused (cl := cd) (col := tg.col) hp.noCreate hp.noSubscribe hp.readWrite
        (by rw [hp.duid]; exact a)
      have h1 : (processPack T.st cd tg.col p).store = T.st := by rw [heq]; rfl
      have h2 : (processPack T.st cd tg.col p).resp.error = true := by rw [heq]; rfl
      refine ⟨⟨(hgood _ _ _).1, (hgood _ _ _).2, ?_⟩, Or.inr (stutter_of_refused _ _ h1 h2)⟩
      show Phase tg (processPack T.st cd tg.col p).store
      rw [h1]; exact g.phase
  | createAgain r cl cd p hr hk hi hcu hv hp hrec =>
    cases g.phase with
    | absent a _ =>
      rw [(absent_abs g.inv a).2] at hrec
      simp [alFind] at hrec
    | present d a b c e f h =>
      obtain ⟨hm, hdu⟩ := SL.getDatatype_some a
      have hbk : T.st.getDatatypeByKey tg.col.num p.key = some d := by
        rw [hp.key, ← c, ← b]; exact byKey_of_mem g.keys g.inv hm
      have hrec' : (d.sub cd.cuid false).isSome = true := by
        unfold absCps at hrec
        rw [a] at hrec
        simp only [] at hrec
        rw [alFind_map (fun s : SubClient => s.cp)] at hrec
        simpa [DatatypeDoc.sub] using hrec
      have hca : CreateAgain T.st cd tg.col p d :=
        ⟨hp.create, hp.readWrite, hp.noSnapshot, hv, hbk, by rw [hdu, hp.duid], by rw [e, hp.typ], f, hrec', by omega⟩
      obtain ⟨ph, st⟩ := pushing_sim g.inv g.phase (createAgain_pushing g.inv hca) hdu b c e f h
        hr hk hi hcu hp.ops hp.sseq
      exact ⟨⟨(hgood _ _ _).1, (hgood _ _ _).2, ph⟩, Or.inl st⟩
  | subscribe r cl cd p hr hk hi hcu hv hp =>
    cases g.phase with
    | present d a b c e f h =>
      obtain ⟨ph, st⟩ := subscribe_sim g.inv g.keys a b c e f h hr hk hi hcu hv hp
      exact ⟨⟨(hgood _ _ _).1, (hgood _ _ _).2, ph⟩, Or.inl st⟩
    | absent a b =>
      obtain ⟨he, h1⟩ := subscribe_missing_refused T.st cd tg.col p hp.noCreate hp.subscribe hp.readWrite
        (by rw [hp.key]; exact b)
      have h2 : (processPack T.st cd tg.col p).resp.error = true := by
        rcases he with he | he <;> exact he.1
      refine ⟨⟨(hgood _ _ _).1, (hgood _ _ _).2, ?_⟩, Or.inr (stutter_of_refused _ _ h1 h2)⟩
      show Phase tg (processPack T.st cd tg.col p).store
      rw [h1]; exact g.phase
  | subscribeOrCreate r cl cd p hr hk hi hcu hv hp hex =>
    cases g.phase with
    | absent a _ => rw [a] at hex; cases hex
    | present d a b c e f h =>
      obtain ⟨hm, hdu⟩ := SL.getDatatype_some a
      have hbk : T.st.getDatatypeByKey tg.col.num p.key = some d := by
        rw [hp.key, ← c, ← b]; exact byKey_of_mem g.keys g.inv hm
      have heq := subOrCreate_eq (cl := cd) hp.subscribe hp.readWrite hbk (by rw [e, hp.typ]) f
        (by rw [hdu]; exact fun x => hp.otherId x.symm)
      have hp' : SubPackOf tg r { p with create := false } :=
        ⟨hp.key, hp.otherId, hp.typ, hp.subscribe, rfl, hp.readWrite, hp.noSnapshot, hp.sseq⟩
      obtain ⟨ph, st⟩ := subscribe_sim g.inv g.keys a b c e f h hr hk hi hcu hv hp'
      rw [heq]
      exact ⟨⟨(hgood _ _ _).1, (hgood _ _ _).2, ph⟩, Or.inl st⟩
  | other cd col p hne hkey =>
    obtain ⟨hd, ho⟩ := frame_other_datatypes T.st cd col p
    obtain ⟨h1, h2, h3⟩ := abs_of_frame (u := tg.duid) (fun e => hne e.symm) hd ho
    refine ⟨⟨(hgood _ _ _).1, (hgood _ _ _).2, phase_of_same h1 hkey.symm g.phase⟩, Or.inr ?_⟩
    show JSys.mk _ _ _ _ _ = JSys.mk _ _ _ _ _
    rw [h2, h3]
  | frame st' hd ho =>
    obtain ⟨h1, h2, h3⟩ := abs_of_same hd ho tg.duid
    have hbk : st'.getDatatypeByKey tg.col.num tg.key = T.st.getDatatypeByKey tg.col.num tg.key := by
      unfold Store.getDatatypeByKey; rw [hd]
    refine ⟨⟨SL.logInv_congr hd ho g.inv, ?_, ?_⟩, Or.inr ?_⟩
    · show KeyUnique st'
      unfold KeyUnique; rw [hd]; exact g.keys
    · show Phase tg st'
      cases g.phase with
      | absent a b => exact .absent (by rw [h1]; exact a) (by rw [hbk]; exact b)
      | present d a b c e f h => exact .present d (by rw [h1]; exact a) b c e f h
    · show JSys.mk _ _ _ _ _ = JSys.mk _ _ _ _ _
      rw [h2, h3]

/-- **Runs with the entry phase.**  Every run of the store-level system — creation of the target by a create
    pack, late subscriptions (served any number of times, at any time), ordinary pushes and pulls, local
    operations, deliveries of normal and subscribe responses in any order, other datatypes' traffic,
    administrative changes — is matched step by step by `JStep`s of `ProtocolJoin`'s system (or is
    invisible) under the abstraction `SSysJ.abs`. -/
theorem store_run_simulates_join {tg : TargetJ} {cuids : List (String × Bool)} {T0 T : SSysJ}
    (g0 : GoodJ tg T0) (h0 : JReach cuids (T0.abs tg)) (run : SRunJ tg T0 T) :
    GoodJ tg T ∧ JReach cuids (T.abs tg) := by
  induction run with
  | refl => exact ⟨g0, h0⟩
  | step _ s ih =>
    obtain ⟨g, h⟩ := ih
    obtain ⟨g', hs⟩ := store_step_simulates_join g s
    refine ⟨g', ?_⟩
    rcases hs with hs | hs
    · exact JReach.step h hs
    · rw [hs]; exact h

/-! ### late-joiner invariants, as theorems about the STORE -/

theorem GoodJ.absLog_eq {tg : TargetJ} {T : SSysJ} (g : GoodJ tg T) :
    absLog T.st tg.duid = (T.st.opsOf tg.duid).map (·.op) := by
  cases g.phase with
  | absent a _ =>
    have h0 : T.st.opsOf tg.duid = [] := SL.opsOf_nil_of_fresh g.inv (SL.getDatatype_none a)
    rw [(absent_abs g.inv a).1, h0]; rfl
  | present d a _ _ _ _ _ =>
    obtain ⟨hm, hdu⟩ := SL.getDatatype_some a
    have := g.inv.gapless d hm
    rw [hdu] at this
    exact SRef.absLog_eq this

/-- **The stored log is exactly what was issued and acknowledged, late joiners included.**  In every state
    of a run (from before the datatype exists on), the operation documents stored for the target, in store
    order (= what `getOperations` returns): are exactly the operations issued by JOINED clients after their
    join and acknowledged by the server's record; carry no (client, seq) pair twice; per client are its
    acknowledged operations in issue order — and nothing of a client that has not joined (in particular
    none of the operations it issued while due to subscribe, which its subscribe pack carried along) is
    stored; every client has applied exactly the foreign operations of the log prefix it has seen (the
    prefix received at its join included), once each, in log order. -/
theorem store_log_with_late_joiners {tg : TargetJ} {cuids : List (String × Bool)} {T0 T : SSysJ}
    (g0 : GoodJ tg T0) (h0 : JReach cuids (T0.abs tg)) (run : SRunJ tg T0 T) :
    let log := (T.st.opsOf tg.duid).map (·.op)
    (T.st.getOperations tg.duid 1).map (·.op) = log ∧
    (∀ o, o ∈ log ↔ ∃ cl ∈ T.clients, cl.joined = true ∧
      o ∈ cl.base.buf.take (absRec T.st tg.duid cl.base.cuid).cseq) ∧
    (log.map (fun o => (o.id.cuid, o.id.seq))).Nodup ∧
    (∀ cl ∈ T.clients, log.filter (fun o => o.id.cuid = cl.base.cuid) =
      if cl.joined then cl.base.buf.take (absRec T.st tg.duid cl.base.cuid).cseq else []) ∧
    (∀ cl ∈ T.clients, cl.base.applied = (log.take cl.base.cp.sseq).filter (fun o => o.id.cuid ≠ cl.base.cuid)) := by
  obtain ⟨g, h⟩ := store_run_simulates_join g0 h0 run
  intro log
  have e : absLog T.st tg.duid = log := g.absLog_eq
  obtain ⟨a, b, c⟩ := join_log_is_exactly_issued h
  refine ⟨e, ?_, ?_, ?_, ?_⟩
  · rw [← e]; exact a
  · rw [← e]; exact b
  · rw [← e]; exact c
  · intro cl hcl
    have := (join_inv_client h cl hcl).2.2.2.2.2.1
    rw [← e]; exact this

/-- **No spurious refusal once the datatype exists**: `processPack` answers any NORMAL request ever sent,
    carried as an ordinary pack, without an error -/
theorem store_never_refuses_join {tg : TargetJ} {cuids : List (String × Bool)} {T0 T : SSysJ}
    (g0 : GoodJ tg T0) (h0 : JReach cuids (T0.abs tg)) (run : SRunJ tg T0 T)
    {r : JReq} {cl : JClient} {cd : ClientDoc} {p : Pack} {d : DatatypeDoc} (hex : T.st.getDatatype tg.duid = some d)
    (hr : r ∈ T.reqs) (hk : r.kind = .normal) (hi : T.clients[r.i]? = some cl) (hcu : cd.cuid = cl.base.cuid)
    (hv : cd.typ ≠ 2) (hp : PackOfJ tg r p) :
    (processPack T.st cd tg.col p).resp.error = false := by
  obtain ⟨g, h⟩ := store_run_simulates_join g0 h0 run
  cases g.phase with
  | absent a _ => rw [a] at hex; cases hex
  | present d' a b c e f hb =>
    have hord : Ordinary T.st cd tg.col p d' :=
      ⟨hp.noCreate, hp.noSubscribe, hp.readWrite, hp.noSnapshot, by rw [hp.duid]; exact a, b, by rw [c, hp.key], hv,
       by omega⟩
    obtain ⟨cp2, docs, hpush⟩ := join_never_refused h (r := r) (cl := cl) hr hk hi
    have hpush' : pushOps pDuid pCol ⟨(absLog T.st p.duid).length, (absRec T.st p.duid cd.cuid).cseq⟩ p.ops []
        = .ok (cp2, docs) := by
      rw [hp.duid, hcu, hp.ops]; exact hpush
    exact (processPack_is_serve g.inv hord hpush').respOk.1

/-- the initial state: a good store in which the target does not exist; clients flagged `true` (the
    creator) count as joined on the empty log, the others are due to subscribe — `JSys.init` -/
def SSysJ.init (st0 : Store) (cs : List (String × Bool)) : SSysJ :=
  ⟨st0, cs.map (fun c => ⟨⟨c.1, [], ⟨0, 0⟩, []⟩, c.2⟩), [], []⟩

theorem store_run_from_scratch {tg : TargetJ} {cs : List (String × Bool)} {st0 : Store} {T : SSysJ}
    (hnd : (cs.map (·.1)).Nodup) (inv : LogInv st0) (ku : KeyUnique st0)
    (hid : st0.getDatatype tg.duid = none) (hkey : st0.getDatatypeByKey tg.col.num tg.key = none)
    (run : SRunJ tg (SSysJ.init st0 cs) T) : GoodJ tg T ∧ JReach cs (T.abs tg) := by
  apply store_run_simulates_join ⟨inv, ku, .absent hid hkey⟩ _ run
  obtain ⟨a1, a2⟩ := absent_abs inv hid
  have : (SSysJ.init st0 cs).abs tg = JSys.init cs := by
    show JSys.mk _ (absLog st0 tg.duid) (absCps st0 tg.duid) _ _ = JSys.mk _ _ _ _ _
    rw [a1, a2]; rfl
  rw [this]; exact JReach.init hnd

/-! ## Non-vacuity: the store of `SRef.Ex`, built from scratch THROUGH the steps

From `s2` (collection "c" made, clients "a", "b" registered, no datatype): a issues its snapshot operation
and sends; the request is handled as a CREATE pack (`s3`); a receives the answer; b (due to subscribe)
sends a subscribe request, handled as a SUBSCRIBE pack with b's own id "d2" (`s4`); b receives the
subscribe response and joins; b issues `b1`, sends, the request is handled as an ordinary pack (`s5`), b
receives the answer. -/
namespace ExJ
open Orda.SRef.Ex

def tg : TargetJ := ⟨col, "d1", "k", .counter⟩
def cs : List (String × Bool) := [("a", true), ("b", false)]

def A (buf : List Op) (cp : CheckPoint) : JClient := ⟨⟨"a", buf, cp, []⟩, true⟩
def Bn : JClient := ⟨⟨"b", [], ⟨0, 0⟩, []⟩, false⟩
def B (buf : List Op) (cp : CheckPoint) : JClient := ⟨⟨"b", buf, cp, [a1]⟩, true⟩
def rA : JReq := ⟨.normal, 0, 0, [a1]⟩
def rB0 : JReq := ⟨.sub, 1, 0, []⟩
def rB1 : JReq := ⟨.normal, 1, 1, [b1]⟩
def qA : JResp := ⟨.normal, 0, [], ⟨1, 1⟩⟩
def qB0 : JResp := ⟨.sub, 1, [a1], ⟨1, 0⟩⟩
def qB1 : JResp := ⟨.normal, 1, [], ⟨2, 1⟩⟩

def U1 : SSysJ := ⟨s2, [A [a1] ⟨0, 0⟩, Bn], [], []⟩
def U2 : SSysJ := ⟨s2, [A [a1] ⟨0, 0⟩, Bn], [rA], []⟩
def U3 : SSysJ := ⟨s3, [A [a1] ⟨0, 0⟩, Bn], [rA], [qA]⟩
def U4 : SSysJ := ⟨s3, [A [a1] ⟨1, 1⟩, Bn], [rA], [qA]⟩
def U5 : SSysJ := ⟨s3, [A [a1] ⟨1, 1⟩, Bn], [rA, rB0], [qA]⟩
def U6 : SSysJ := ⟨s4, [A [a1] ⟨1, 1⟩, Bn], [rA, rB0], [qA, qB0]⟩
def U7 : SSysJ := ⟨s4, [A [a1] ⟨1, 1⟩, B [] ⟨1, 0⟩], [rA, rB0], [qA, qB0]⟩
def U8 : SSysJ := ⟨s4, [A [a1] ⟨1, 1⟩, B [b1] ⟨1, 0⟩], [rA, rB0], [qA, qB0]⟩
def U9 : SSysJ := ⟨s4, [A [a1] ⟨1, 1⟩, B [b1] ⟨1, 0⟩], [rA, rB0, rB1], [qA, qB0]⟩
def U10 : SSysJ := ⟨s5, [A [a1] ⟨1, 1⟩, B [b1] ⟨1, 0⟩], [rA, rB0, rB1], [qA, qB0, qB1]⟩
def U11 : SSysJ := ⟨s5, [A [a1] ⟨1, 1⟩, B [b1] ⟨2, 1⟩], [rA, rB0, rB1], [qA, qB0, qB1]⟩

example : SSysJ.init s2 cs = ⟨s2, [A [] ⟨0, 0⟩, Bn], [], []⟩ := rfl

theorem run : SRunJ tg (SSysJ.init s2 cs) U11 := by
  have r1 : SRunJ tg (SSysJ.init s2 cs) U1 := .step (.refl _) (.localOp _ 0 (A [] ⟨0, 0⟩) a1 rfl rfl rfl)
  have r2 : SRunJ tg (SSysJ.init s2 cs) U2 := .step r1 (.send _ 0 (A [a1] ⟨0, 0⟩) rfl)
  -- (a) the create pack
  have r3 : SRunJ tg (SSysJ.init s2 cs) U3 := .step r2 (.create _ rA (A [a1] ⟨0, 0⟩) cA packCreate (by simp [U2]) rfl rfl rfl
    (by decide) ⟨rfl, rfl, rfl, rfl, rfl, rfl, rfl, rfl⟩ rfl rfl)
  have r4 : SRunJ tg (SSysJ.init s2 cs) U4 := .step r3 (.deliver _ qA (A [a1] ⟨0, 0⟩) (by simp [U3]) rfl rfl rfl)
  -- (b) the late joiner
  have r5 : SRunJ tg (SSysJ.init s2 cs) U5 := .step r4 (.send _ 1 Bn rfl)
  have r6 : SRunJ tg (SSysJ.init s2 cs) U6 := .step r5 (.subscribe _ rB0 Bn cB packSub (by simp [U5]) rfl rfl rfl
    (by decide) ⟨rfl, by decide, rfl, rfl, rfl, rfl, rfl, rfl⟩)
  have r7 : SRunJ tg (SSysJ.init s2 cs) U7 := .step r6 (.deliverSub _ qB0 Bn (by simp [U6]) rfl rfl)
  -- an ordinary push-pull of the late joiner
  have r8 : SRunJ tg (SSysJ.init s2 cs) U8 := .step r7 (.localOp _ 1 (B [] ⟨1, 0⟩) b1 rfl rfl rfl)
  have r9 : SRunJ tg (SSysJ.init s2 cs) U9 := .step r8 (.send _ 1 (B [b1] ⟨1, 0⟩) rfl)
  have r10 : SRunJ tg (SSysJ.init s2 cs) U10 := .step r9 (.serve _ rB1 (B [b1] ⟨1, 0⟩) cB packB (by simp [U9]) rfl rfl rfl
    (by decide) ⟨rfl, rfl, rfl, rfl, rfl, rfl, rfl, rfl⟩)
  exact .step r10 (.deliver _ qB1 (B [b1] ⟨1, 0⟩) (by simp [U10]) rfl rfl rfl)

/-- … and the creator's create pack is delivered to the server ONCE MORE (a duplicate): served on the normal
    path, `a1` skipped as a duplicate, nothing stored, a's record moves to ⟨2,1⟩, the answer is the whole log -/
def s6 : Store := (processPack s5 cA col packCreate).store
def qA2 : JResp := ⟨.normal, 0, [a1, b1], ⟨2, 1⟩⟩
def U12 : SSysJ := ⟨s6, [A [a1] ⟨1, 1⟩, B [b1] ⟨2, 1⟩], [rA, rB0, rB1], [qA, qB0, qB1, qA2]⟩

theorem run12 : SRunJ tg (SSysJ.init s2 cs) U12 :=
  .step run (.createAgain _ rA (A [a1] ⟨1, 1⟩) cA packCreate (by simp [U11]) rfl rfl rfl (by decide)
    ⟨rfl, rfl, rfl, rfl, rfl, rfl, rfl, rfl⟩ rfl)

example : s6.operations = s5.operations ∧ absCps s6 "d1" = [("a", ⟨2, 1⟩), ("b", ⟨2, 1⟩)] := ⟨rfl, rfl⟩

theorem inv2 : LogInv s2 :=
  logInv_processClient _ _ _ _ (logInv_processClient _ _ _ _ (logInv_makeCollection _ _ logInv_empty))

theorem keys2 : KeyUnique s2 := fun _ h1 => absurd h1 List.not_mem_nil

/-- the run ends in a state whose abstraction is `JReach`able -/
theorem reach : GoodJ tg U11 ∧ JReach cs (U11.abs tg) :=
  store_run_from_scratch (by decide) inv2 keys2 rfl rfl run

theorem reach12 : GoodJ tg U12 ∧ JReach cs (U12.abs tg) :=
  store_run_from_scratch (by decide) inv2 keys2 rfl rfl run12

/-- the one-step create theorem instantiated: hypotheses by `rfl`/`decide`, abstract log shown -/
example : absLog s3 "d1" = [a1] ∧ absCps s3 "d1" = [("a", ⟨1, 1⟩)] :=
  have h := processPack_is_create (st := s2) (cl := cA) (col := col) (p := packCreate) inv2
    ⟨rfl, rfl, rfl, by decide, rfl, rfl⟩ (cp2 := ⟨1, 1⟩) (docs := [⟨pDuid, pCol, 1, a1⟩]) rfl
  ⟨h.2.2.1, h.2.2.2.1⟩

/-- the late-joiner invariant read off the store `s5`, from the theorem and by evaluation -/
example : ((s5.opsOf "d1").map (·.op)).filter (fun o => o.id.cuid = "b") = [b1] :=
  (store_log_with_late_joiners ⟨inv2, keys2, .absent rfl rfl⟩
    (by show JReach cs (JSys.init cs); exact JReach.init (by decide)) run).2.2.2.1 (B [b1] ⟨2, 1⟩) (by simp [U11])
example : (s5.opsOf "d1").map (·.op) = [a1, b1] := rfl

end ExJ

end Orda.SRefJ
