/-
The ENTRY phase, store level: `processPack` on a CREATE pack for an absent key, on a SUBSCRIBE pack of a late
joiner, and on ordinary packs, refines the abstract system `JSys` of Proofs/ProtocolJoin under the
abstraction `absLog` / `absCps` of Proofs/ServerRefine.  Core Lean only.
-/
import Orda.Proofs.ServerRefine
import Orda.Proofs.ProtocolJoin
namespace Orda.SRefJ
open Orda Orda.SRef

/-! ## A served request on ANY dispatch path that pushes: the abstract `serve` -/

theorem doc2_fields (st : Store) (cl : ClientDoc) (p : Pack) (dd : Dispatch) (doc : DatatypeDoc) (cp2 : CheckPoint)
    (nd : List OpDoc) :
    (SL.doc2 st cl p dd doc cp2 nd).key = doc.key ∧ (SL.doc2 st cl p dd doc cp2 nd).colNum = doc.colNum ∧
    (SL.doc2 st cl p dd doc cp2 nd).sseqBegin = doc.sseqBegin ∧ (SL.doc2 st cl p dd doc cp2 nd).typ = doc.typ ∧
    (SL.doc2 st cl p dd doc cp2 nd).visible = doc.visible := by
  unfold SL.doc2 DatatypeDoc.setSub; simp only []; split
  · exact ⟨rfl, rfl, rfl, rfl, rfl⟩
  · split <;> exact ⟨rfl, rfl, rfl, rfl, rfl⟩

/-- `r` is the abstract `serve` step on datatype `doc.duid` for client `cuid`, request sseq `s`, with
    `pushOps` result `(cp2, docs)`; `doc` is the document the request worked on -/
structure IsServeJ (st : Store) (cuid : String) (dd : Dispatch) (doc : DatatypeDoc) (s : Nat) (cp2 : CheckPoint) (docs : List OpDoc)
    (r : PPResult) : Prop where
  log : absLog r.store doc.duid = absLog st doc.duid ++ docs.map (·.op)
  cps : absCps r.store doc.duid = alSet cuid cp2 (absCps st doc.duid)
  respOps : r.resp.ops = (absLog st doc.duid).drop s
  respCp : r.resp.cp = cp2
  respOk : r.resp.error = false
  respBits : r.resp.create = decide (dd = .create) ∧ r.resp.subscribe = decide (dd = .subscribe)
  pushed : r.pushed = docs.length
  other : ∀ u, u ≠ doc.duid → r.store.getDatatype u = st.getDatatype u ∧ absLog r.store u = absLog st u ∧
    absCps r.store u = absCps st u
  docAfter : ∃ d', r.store.getDatatype doc.duid = some d' ∧ d'.key = doc.key ∧ d'.colNum = doc.colNum ∧
    d'.sseqBegin = doc.sseqBegin ∧ d'.typ = doc.typ ∧ d'.visible = doc.visible
  inv : LogInv r.store

section core
variable {st : Store} {cl : ClientDoc} {col : CollectionDoc} {p : Pack} {dd : Dispatch} {doc : DatatypeDoc}

/-- the hypotheses common to every pushing path -/
structure Pushing (st : Store) (cl : ClientDoc) (col : CollectionDoc) (p : Pack) (dd : Dispatch) (doc : DatatypeDoc) : Prop where
  served : SL.Served st col p dd doc
  notSub : dd ≠ .subscribe
  eq_finish : processPack st cl col p = SL.finish st cl col p dd doc
  cpsAbs : absCps st doc.duid = doc.rw.map (fun e => (e.1, e.2.cp))
  readWrite : p.readOnly = false
  noSnapshot : p.snapshot = false
  notVolatile : cl.typ ≠ 2
  logKept : doc.sseqBegin ≤ p.cp.sseq + 1

theorem Pushing.cp0_eq (h : Pushing st cl col p dd doc) : SL.cp0 cl p doc = absRec st doc.duid cl.cuid := by
  unfold SL.cp0 absRec DatatypeDoc.sub
  rw [h.cpsAbs]
  simp only [h.readWrite, Bool.false_eq_true, if_false]
  rw [alFind_map (fun s : SubClient => s.cp)]
  cases alFind cl.cuid doc.rw <;> rfl

theorem Pushing.pushRes_eq (h : Pushing st cl col p dd doc) :
    SL.pushRes cl col p dd doc = pushOps doc.duid col.num ⟨doc.sseqEnd, (absRec st doc.duid cl.cuid).cseq⟩ p.ops [] := by
  unfold SL.pushRes SL.cp1
  simp [h.readWrite, h.served.duid, h.cp0_eq, h.notSub]

theorem pushing_is_serve (inv : LogInv st) (h : Pushing st cl col p dd doc) {cp2 : CheckPoint} {docs : List OpDoc}
    (hpush : pushOps pDuid pCol ⟨(absLog st doc.duid).length, (absRec st doc.duid cl.cuid).cseq⟩ p.ops [] = .ok (cp2, docs)) :
    IsServeJ st cl.cuid dd doc p.cp.sseq cp2 docs (processPack st cl col p) := by
  have hs := h.served
  have hlog := SL.served_log inv hs
  rw [absLog_length hlog] at hpush
  obtain ⟨nd, hnd, hndop⟩ := pushOps_ok_transfer (d' := doc.duid) (c' := col.num) hpush
  have hpr : SL.pushRes cl col p dd doc = .ok (cp2, nd) := by rw [h.pushRes_eq]; exact hnd
  have heq : processPack st cl col p = SL.okR st cl col p dd doc cp2 nd := by
    rw [h.eq_finish]; unfold SL.finish; rw [hpr]
  obtain ⟨hn1, hn2, _, hn4, _, _⟩ := SL.pushRes_spec hs hpr
  have hndu : ∀ o ∈ nd, o.duid = doc.duid := fun o ho => (hn1 o ho).1
  have hc3 : SL.cp3 st cl p dd doc cp2 nd = cp2 := by
    obtain ⟨ha, hb⟩ := SL.cp3_spec (cl := cl) (cp2 := cp2) (nd := nd) inv hs
    rcases hb with hb | hb
    · have h4 := hn4 h.readWrite
      generalize SL.cp3 st cl p dd doc cp2 nd = c3 at ha hb
      cases c3; cases cp2
      simp only [] at ha hb h4
      rw [ha, hb, h4]
    · exact hb
  have inv' : LogInv (SL.okR st cl col p dd doc cp2 nd).store := SL.logInv_okR inv hs hpr
  have h2du : (SL.doc2 st cl p dd doc cp2 nd).duid = doc.duid := SL.doc2_duid ..
  have hget : (SL.okR st cl col p dd doc cp2 nd).store.getDatatype doc.duid = some (SL.doc2 st cl p dd doc cp2 nd) := by
    show (upsertDatatype _ st.datatypes).find? _ = _
    exact getDatatype_upsert_of_duid _ _ h2du
  have hrw : (SL.doc2 st cl p dd doc cp2 nd).rw = alSet cl.cuid ⟨cp2, cl.typ⟩ doc.rw := by
    unfold SL.doc2 DatatypeDoc.setSub
    simp [h.notVolatile, h.readWrite, hc3]
  have hcps : absCps (SL.okR st cl col p dd doc cp2 nd).store doc.duid = alSet cl.cuid cp2 (absCps st doc.duid) := by
    rw [h.cpsAbs]
    unfold absCps
    rw [hget]
    simp only [hrw]
    exact alSet_map (fun s : SubClient => s.cp) cl.cuid ⟨cp2, cl.typ⟩ doc.rw
  rw [heq]
  obtain ⟨f1, f2, f3, f4, f5⟩ := doc2_fields st cl p dd doc cp2 nd
  refine ⟨?_, hcps, ?_, hc3, rfl, ⟨rfl, rfl⟩, ?_, ?_, ⟨_, hget, f1, f2, f3, f4, f5⟩, inv'⟩
  · have hmem : SL.doc2 st cl p dd doc cp2 nd ∈ (SL.okR st cl col p dd doc cp2 nd).store.datatypes :=
      SL.self_mem_upsert _ _
    have hlog' := inv'.gapless _ hmem
    rw [h2du] at hlog'
    rw [absLog_eq hlog', absLog_eq hlog, ← hndop]
    show ((st.operations ++ nd).filter _).map _ = _
    rw [List.filter_append, List.map_append]
    have : nd.filter (fun o => decide (o.duid = doc.duid)) = nd :=
      List.filter_eq_self.2 (fun o ho => by simp [hndu o ho])
    rw [this]; rfl
  · show (SL.pulled st cl p dd doc).map (·.op) = _
    have : SL.pulled st cl p dd doc = st.getOperations doc.duid (p.cp.sseq + 1) := by
      unfold SL.pulled
      simp [h.notVolatile, h.logKept, h.noSnapshot, hs.duid]
    rw [this, getOperations_drop hlog, absLog_eq hlog, List.map_drop]
  · show nd.length = docs.length
    have := congrArg List.length hndop
    simpa using this
  · intro u hu
    have h1 : (SL.okR st cl col p dd doc cp2 nd).store.getDatatype u = st.getDatatype u := by
      show (upsertDatatype _ st.datatypes).find? _ = _
      exact getDatatype_upsert_ne _ _ (by rw [h2du]; exact hu)
    refine ⟨h1, ?_, ?_⟩
    · unfold absLog
      have : (SL.okR st cl col p dd doc cp2 nd).store.getOperations u 1 = st.getOperations u 1 :=
        getOperations_other hndu hu 1
      rw [this]
    · unfold absCps; rw [h1]

theorem pushing_is_refuse (inv : LogInv st) (h : Pushing st cl col p dd doc) {code : Nat}
    (hpush : pushOps pDuid pCol ⟨(absLog st doc.duid).length, (absRec st doc.duid cl.cuid).cseq⟩ p.ops [] = .error code) :
    (processPack st cl col p).store = st ∧ (processPack st cl col p).resp.error = true ∧
    (processPack st cl col p).resp.ops = [⟨OpId.nil, .error code⟩] := by
  have hlog := SL.served_log inv h.served
  rw [absLog_length hlog] at hpush
  have hpr : SL.pushRes cl col p dd doc = .error code := by
    rw [h.pushRes_eq]; exact pushOps_err_transfer hpush
  have heq : processPack st cl col p = SL.pushErrR st p dd doc code := by
    rw [h.eq_finish]; unfold SL.finish; rw [hpr]
  rw [heq]; exact ⟨rfl, rfl, rfl⟩

end core

/-! ## The CREATE pack on an absent key -/

/-- a CREATE (or subscribe-or-create) pack of a non-volatile client for a key that does not exist in its
    collection, carrying a datatype id that is not in use: the first request on the key -/
structure CreateReq (st : Store) (cl : ClientDoc) (col : CollectionDoc) (p : Pack) : Prop where
  create : p.create = true
  readWrite : p.readOnly = false
  noSnapshot : p.snapshot = false
  notVolatile : cl.typ ≠ 2
  absentKey : st.getDatatypeByKey col.num p.key = none
  absentId : st.getDatatype p.duid = none

/-- the document `processPack` creates -/
def freshDoc (col : CollectionDoc) (p : Pack) : DatatypeDoc :=
  { duid := p.duid, key := p.key, colNum := col.num, typ := p.typ }

section create
variable {st : Store} {cl : ClientDoc} {col : CollectionDoc} {p : Pack}

/-- for the protocol, a datatype that does not exist yet is the empty log with no record: `JSys.init` -/
theorem absent_abs (inv : LogInv st) {u : String} (h : st.getDatatype u = none) : absLog st u = [] ∧ absCps st u = [] := by
  have h0 : st.opsOf u = [] := SL.opsOf_nil_of_fresh inv (SL.getDatatype_none h)
  have hlog : (st.opsOf u).map (·.sseq) = List.range' 1 0 := by rw [h0]; rfl
  refine ⟨by rw [absLog_eq hlog, h0]; rfl, ?_⟩
  unfold absCps; rw [h]

theorem CreateReq.pushing (h : CreateReq st cl col p) : Pushing st cl col p .create (freshDoc col p) := by
  have hev : evalCase st col cl.cuid p = (.matchNothing, none) := by
    unfold evalCase
    simp [h.create, h.absentKey, h.absentId]
  have hdsp : SL.dsp st cl col p = .create := by
    unfold SL.dsp
    rw [hev]
    have e : ∀ s, dispatch .matchNothing true s true = .create := by decide
    simp [SL.sameDuid, h.create, e]
  have hs := SL.served_of_dsp hdsp (by intro c; simp)
  rw [hev] at hs
  refine ⟨hs, by simp, ?_, ?_, h.readWrite, h.noSnapshot, h.notVolatile, Nat.zero_le _⟩
  · rw [SL.processPack_eq, hdsp, hev]
    simp [h.readWrite, h.create, SL.docOf, freshDoc]
  · show absCps st p.duid = _
    unfold absCps; rw [h.absentId]; rfl

/-- **The create pack on an absent key is the abstract `serve` of a NORMAL request on the empty protocol
    state** (`JStep.serve` from log `[]`, record ⟨0,0⟩ — `JSys` lets the creator start joined on the empty
    log): the datatype document is created under the pack's id with the pack's key and type, visible, in
    the client's collection; the log becomes exactly the operations `pushOps` accepts from ⟨0,0⟩; the
    client is recorded with `cp2`; the answer carries no operations, checkpoint `cp2`, and the create bit. -/
theorem processPack_is_create (inv : LogInv st) (h : CreateReq st cl col p) {cp2 : CheckPoint} {docs : List OpDoc}
    (hpush : pushOps pDuid pCol ⟨0, 0⟩ p.ops [] = .ok (cp2, docs)) :
    let r := processPack st cl col p
    (absLog st p.duid = [] ∧ absCps st p.duid = []) ∧
    IsServeJ st cl.cuid .create (freshDoc col p) p.cp.sseq cp2 docs r ∧
    absLog r.store p.duid = docs.map (·.op) ∧ absCps r.store p.duid = [(cl.cuid, cp2)] ∧
    r.resp.ops = [] ∧ r.resp.cp = cp2 ∧ r.resp.error = false ∧ r.resp.create = true ∧
    ∃ d', r.store.getDatatype p.duid = some d' ∧ d'.key = p.key ∧ d'.colNum = col.num ∧ d'.typ = p.typ ∧
      d'.visible = true ∧ d'.sseqBegin = 0 := by
  obtain ⟨a1, a2⟩ := absent_abs inv h.absentId
  have hpush' : pushOps pDuid pCol ⟨(absLog st (freshDoc col p).duid).length, (absRec st (freshDoc col p).duid cl.cuid).cseq⟩
      p.ops [] = .ok (cp2, docs) := by
    show pushOps pDuid pCol ⟨(absLog st p.duid).length, (absRec st p.duid cl.cuid).cseq⟩ p.ops [] = _
    unfold absRec
    rw [a1, a2]; exact hpush
  have hs := pushing_is_serve inv h.pushing hpush'
  intro r
  obtain ⟨d', g0, g1, g2, g3, g4, g5⟩ := hs.docAfter
  refine ⟨⟨a1, a2⟩, hs, ?_, ?_, ?_, hs.respCp, hs.respOk, by simpa using hs.respBits.1, d', g0, g1, g2, g4, g5, g3⟩
  · have := hs.log; rw [show (freshDoc col p).duid = p.duid from rfl, a1] at this; simpa using this
  · have := hs.cps; rw [show (freshDoc col p).duid = p.duid from rfl, a2] at this; exact this
  · have := hs.respOps; rw [show (freshDoc col p).duid = p.duid from rfl, a1] at this; simpa using this

theorem processPack_create_refused (inv : LogInv st) (h : CreateReq st cl col p) {code : Nat}
    (hpush : pushOps pDuid pCol ⟨0, 0⟩ p.ops [] = .error code) :
    (processPack st cl col p).store = st ∧ (processPack st cl col p).resp.error = true := by
  obtain ⟨a1, a2⟩ := absent_abs inv h.absentId
  have hpush' : pushOps pDuid pCol ⟨(absLog st (freshDoc col p).duid).length, (absRec st (freshDoc col p).duid cl.cuid).cseq⟩
      p.ops [] = .error code := by
    show pushOps pDuid pCol ⟨(absLog st p.duid).length, (absRec st p.duid cl.cuid).cseq⟩ p.ops [] = _
    unfold absRec
    rw [a1, a2]; exact hpush
  have := pushing_is_refuse inv h.pushing hpush'
  exact ⟨this.1, this.2.1⟩

end create

/-- an ordinary request (Proofs/ServerRefine) is a pushing path too -/
theorem ordinary_pushing {st : Store} {cl : ClientDoc} {col : CollectionDoc} {p : Pack} {d : DatatypeDoc}
    (h : Ordinary st cl col p d) : Pushing st cl col p .normal d := by
  refine ⟨h.served, by simp, h.eq_finish, ?_, h.readWrite, h.noSnapshot, h.notVolatile, h.logKept⟩
  rw [h.duid]; unfold absCps; rw [h.found]

/-! ## The store-level system with the entry phase -/

/-- the datatype observed: collection, stored id (= the id the creator's datatype object carries), key, type -/
structure TargetJ where
  col : CollectionDoc
  duid : String
  key : String
  typ : DtType

/-- the REAL store with `JSys`'s clients (joined or due to subscribe) and its adversarial network -/
structure SSysJ where
  st : Store
  clients : List JClient
  reqs : List JReq
  resps : List JResp

def SSysJ.abs (T : SSysJ) (tg : TargetJ) : JSys :=
  ⟨T.clients, absLog T.st tg.duid, absCps T.st tg.duid, T.reqs, T.resps⟩

/-- an ordinary pack carrying request `r` (as `SRef.PackOf`) -/
structure PackOfJ (tg : TargetJ) (r : JReq) (p : Pack) : Prop where
  key : p.key = tg.key
  duid : p.duid = tg.duid
  noCreate : p.create = false
  noSubscribe : p.subscribe = false
  readWrite : p.readOnly = false
  noSnapshot : p.snapshot = false
  ops : p.ops = r.ops
  sseq : p.cp.sseq = r.s

/-- a CREATE (or subscribe-or-create: the subscribe bit is free) pack carrying request `r`: the creator's
    datatype object has the id that will be stored -/
structure CreatePackOf (tg : TargetJ) (r : JReq) (p : Pack) : Prop where
  key : p.key = tg.key
  duid : p.duid = tg.duid
  typ : p.typ = tg.typ
  create : p.create = true
  readWrite : p.readOnly = false
  noSnapshot : p.snapshot = false
  ops : p.ops = r.ops
  sseq : p.cp.sseq = r.s

/-- a SUBSCRIBE pack of a late joiner carrying request `r`: its own datatype id (another one than the
    stored id), the key and the type; whatever operations it carries are dropped by the server -/
structure SubPackOf (tg : TargetJ) (r : JReq) (p : Pack) : Prop where
  key : p.key = tg.key
  otherId : p.duid ≠ tg.duid
  typ : p.typ = tg.typ
  subscribe : p.subscribe = true
  noCreate : p.create = false
  readWrite : p.readOnly = false
  noSnapshot : p.snapshot = false
  sseq : p.cp.sseq = r.s

/-- the response the network carries back, of the kind of the exchange; an error pack carries nothing -/
def respOfJ (k : JMsgKind) (i : Nat) (r : PPResult) : List JResp :=
  if r.resp.error then [] else [⟨k, i, r.resp.ops, r.resp.cp⟩]

inductive SStepJ (tg : TargetJ) : SSysJ → SSysJ → Prop
  | localOp (T : SSysJ) (i : Nat) (cl : JClient) (o : Op) :
      T.clients[i]? = some cl → o.id.cuid = cl.base.cuid → o.id.seq = cl.base.buf.length + 1 →
      SStepJ tg T { T with clients := T.clients.set i { cl with base := { cl.base with buf := cl.base.buf ++ [o] } } }
  | send (T : SSysJ) (i : Nat) (cl : JClient) :
      T.clients[i]? = some cl →
      SStepJ tg T { T with reqs := T.reqs ++ [⟨if cl.joined then .normal else .sub, i, cl.base.cp.sseq,
                                               cl.base.buf.drop cl.base.cp.cseq⟩] }
  /-- (a) CREATE: a normal request of a (joined = creator) client, carried as a create pack, handled by
      `processPack` while neither the key nor the id exists: the first request on the key -/
  | create (T : SSysJ) (r : JReq) (cl : JClient) (cd : ClientDoc) (p : Pack) :
      r ∈ T.reqs → r.kind = .normal → T.clients[r.i]? = some cl → cd.cuid = cl.base.cuid → cd.typ ≠ 2 →
      CreatePackOf tg r p → T.st.getDatatype tg.duid = none → T.st.getDatatypeByKey tg.col.num tg.key = none →
      SStepJ tg T { T with st := (processPack T.st cd tg.col p).store,
                           resps := T.resps ++ respOfJ .normal r.i (processPack T.st cd tg.col p) }
  /-- any normal request ever sent, carried as an ordinary pack (refused, invisibly, while the datatype
      does not exist) -/
  | serve (T : SSysJ) (r : JReq) (cl : JClient) (cd : ClientDoc) (p : Pack) :
      r ∈ T.reqs → r.kind = .normal → T.clients[r.i]? = some cl → cd.cuid = cl.base.cuid → cd.typ ≠ 2 →
      PackOfJ tg r p →
      SStepJ tg T { T with st := (processPack T.st cd tg.col p).store,
                           resps := T.resps ++ respOfJ .normal r.i (processPack T.st cd tg.col p) }
  /-- (b) SUBSCRIBE: any subscribe request ever sent, any number of times, at any time (refused,
      invisibly, while the datatype does not exist) -/
  | subscribe (T : SSysJ) (r : JReq) (cl : JClient) (cd : ClientDoc) (p : Pack) :
      r ∈ T.reqs → r.kind = .sub → T.clients[r.i]? = some cl → cd.cuid = cl.base.cuid → cd.typ ≠ 2 →
      SubPackOf tg r p →
      SStepJ tg T { T with st := (processPack T.st cd tg.col p).store,
                           resps := T.resps ++ respOfJ .sub r.i (processPack T.st cd tg.col p) }
  | deliver (T : SSysJ) (q : JResp) (cl : JClient) :
      q ∈ T.resps → q.kind = .normal → T.clients[q.i]? = some cl → cl.joined = true →
      SStepJ tg T { T with clients := T.clients.set q.i { cl with base := cl.base.receive ⟨q.i, q.ops, q.cp⟩ } }
  | deliverSub (T : SSysJ) (q : JResp) (cl : JClient) :
      q ∈ T.resps → q.kind = .sub → T.clients[q.i]? = some cl →
      SStepJ tg T { T with clients := T.clients.set q.i (cl.deliverSub q) }
  /-- any pack of any client in any collection answered for another datatype id that, while the target
      does not exist yet, does not take the target's key -/
  | other (T : SSysJ) (cd : ClientDoc) (col : CollectionDoc) (p : Pack) :
      (processPack T.st cd col p).resp.duid ≠ tg.duid →
      ((T.st.getDatatype tg.duid).isSome ∨
        (processPack T.st cd col p).store.getDatatypeByKey tg.col.num tg.key = none) →
      SStepJ tg T { T with st := (processPack T.st cd col p).store }
  | frame (T : SSysJ) (st' : Store) :
      st'.datatypes = T.st.datatypes → st'.operations = T.st.operations → SStepJ tg T { T with st := st' }

/-- the target does not exist yet (neither its id nor its key), or it exists under its id, in its
    collection, under its key, with its type, visible, with an uncut log -/
inductive Phase (tg : TargetJ) (st : Store) : Prop
  | absent : st.getDatatype tg.duid = none → st.getDatatypeByKey tg.col.num tg.key = none → Phase tg st
  | present (d : DatatypeDoc) : st.getDatatype tg.duid = some d → d.colNum = tg.col.num → d.key = tg.key →
      d.typ = tg.typ → d.visible = true → d.sseqBegin ≤ 1 → Phase tg st

structure GoodJ (tg : TargetJ) (T : SSysJ) : Prop where
  inv : LogInv T.st
  keys : KeyUnique T.st
  phase : Phase tg T.st

inductive SRunJ (tg : TargetJ) : SSysJ → SSysJ → Prop
  | refl (T : SSysJ) : SRunJ tg T T
  | step {T T' T'' : SSysJ} : SRunJ tg T T' → SStepJ tg T' T'' → SRunJ tg T T''

/-! ### lookups -/

theorem byKey_of_mem {st : Store} (ku : KeyUnique st) (inv : LogInv st) {d : DatatypeDoc} (hm : d ∈ st.datatypes) :
    st.getDatatypeByKey d.colNum d.key = some d := by
  cases hg : st.getDatatypeByKey d.colNum d.key with
  | none => exact absurd rfl (SC.byKey_none hg d hm rfl)
  | some x =>
    unfold Store.getDatatypeByKey at hg
    have hx := List.mem_of_find?_eq_some hg
    have hq := List.find?_some hg
    simp only [decide_eq_true_eq] at hq
    rw [SL.eq_of_nodup_duid inv.duidNodup hx hm (ku x hx d hm hq.1 hq.2)]

/-- an ordinary pack for an id that names no datatype is refused: store untouched, error pack -/
theorem ordinary_absent_refused {st : Store} {cl : ClientDoc} {col : CollectionDoc} {p : Pack}
    (hc : p.create = false) (hs : p.subscribe = false) (hro : p.readOnly = false) (hn : st.getDatatype p.duid = none) :
    processPack st cl col p = SL.refuseR st p 301 := by
  have hev : evalCase st col cl.cuid p = (.matchNothing, none) := by
    unfold evalCase; simp [hc, hs, hn]
  have hdsp : SL.dsp st cl col p = .refuse 301 := by
    unfold SL.dsp
    rw [hev]
    have e : dispatch .matchNothing false false true = .refuse 301 := by decide
    simp [SL.sameDuid, hc, hs, e]
  rw [SL.processPack_eq, hdsp]
  simp [hro]

theorem phase_of_same {tg : TargetJ} {st st' : Store} (h1 : st'.getDatatype tg.duid = st.getDatatype tg.duid)
    (h2 : st'.getDatatypeByKey tg.col.num tg.key = none ∨ (st.getDatatype tg.duid).isSome) (ph : Phase tg st) :
    Phase tg st' := by
  cases ph with
  | absent a b =>
    rcases h2 with h2 | h2
    · exact .absent (by rw [h1]; exact a) h2
    · rw [a] at h2; cases h2
  | present d a b c e f g => exact .present d (by rw [h1]; exact a) b c e f g

/-! ### the steps that push: create and ordinary serve are `JStep.serve` / `JStep.refuse` -/

theorem pushing_sim {tg : TargetJ} {T : SSysJ} (inv : LogInv T.st) (ph : Phase tg T.st)
    {r : JReq} {cl : JClient} {cd : ClientDoc} {p : Pack} {dd : Dispatch} {doc : DatatypeDoc}
    (h : Pushing T.st cd tg.col p dd doc)
    (hdu : doc.duid = tg.duid) (hcol : doc.colNum = tg.col.num) (hkey : doc.key = tg.key) (htyp : doc.typ = tg.typ)
    (hvis : doc.visible = true) (hb : doc.sseqBegin ≤ 1)
    (hr : r ∈ T.reqs) (hk : r.kind = .normal) (hi : T.clients[r.i]? = some cl) (hcu : cd.cuid = cl.base.cuid)
    (hops : p.ops = r.ops) (hsq : p.cp.sseq = r.s) :
    Phase tg (processPack T.st cd tg.col p).store ∧
    JStep (T.abs tg) (SSysJ.abs { T with st := (processPack T.st cd tg.col p).store,
                                        resps := T.resps ++ respOfJ JMsgKind.normal r.i (processPack T.st cd tg.col p) } tg) := by
  cases hpush : pushOps pDuid pCol ⟨(absLog T.st doc.duid).length, (absRec T.st doc.duid cd.cuid).cseq⟩ p.ops [] with
  | ok res =>
    obtain ⟨cp2, docs⟩ := res
    have hs := pushing_is_serve inv h hpush
    have e1 : absLog (processPack T.st cd tg.col p).store tg.duid = absLog T.st tg.duid ++ docs.map (·.op) := by
      have := hs.log; rwa [hdu] at this
    have e2 : absCps (processPack T.st cd tg.col p).store tg.duid = alSet cl.base.cuid cp2 (absCps T.st tg.duid) := by
      have := hs.cps; rwa [hdu, hcu] at this
    have e3 : respOfJ JMsgKind.normal r.i (processPack T.st cd tg.col p) = [⟨.normal, r.i, (absLog T.st tg.duid).drop r.s, cp2⟩] := by
      unfold respOfJ
      rw [hs.respOk, hs.respOps, hs.respCp, hdu, hsq]
      rfl
    rw [hdu, hcu, hops] at hpush
    have hstep := JStep.serve (T.abs tg) r cl cp2 docs hr hk hi hpush
    constructor
    · obtain ⟨d', g0, g1, g2, g3, g4, g5⟩ := hs.docAfter
      exact .present d' (by rw [← hdu]; exact g0) (g2.trans hcol) (g1.trans hkey) (g4.trans htyp) (g5.trans hvis)
        (by rw [g3]; exact hb)
    · show JStep (T.abs tg) ⟨T.clients, absLog (processPack T.st cd tg.col p).store tg.duid,
        absCps (processPack T.st cd tg.col p).store tg.duid, T.reqs,
        T.resps ++ respOfJ JMsgKind.normal r.i (processPack T.st cd tg.col p)⟩
      rw [e1, e2, e3]
      exact hstep
  | error code =>
    obtain ⟨h1, h2, _⟩ := pushing_is_refuse inv h hpush
    have e3 : respOfJ JMsgKind.normal r.i (processPack T.st cd tg.col p) = [] := by
      unfold respOfJ; rw [h2]; rfl
    rw [hdu, hcu, hops] at hpush
    have hstep := JStep.refuse (T.abs tg) r cl code hr hk hi hpush
    constructor
    · rw [h1]; exact ph
    · show JStep (T.abs tg) ⟨T.clients, absLog (processPack T.st cd tg.col p).store tg.duid,
        absCps (processPack T.st cd tg.col p).store tg.duid, T.reqs,
        T.resps ++ respOfJ JMsgKind.normal r.i (processPack T.st cd tg.col p)⟩
      rw [e3, h1, List.append_nil]
      exact hstep

/-! ### the subscribe step is `JStep.serveSub` -/

theorem subscribe_sim {tg : TargetJ} {T : SSysJ} (inv : LogInv T.st) (ku : KeyUnique T.st)
    {r : JReq} {cl : JClient} {cd : ClientDoc} {p : Pack} {d : DatatypeDoc}
    (hd : T.st.getDatatype tg.duid = some d) (hcol : d.colNum = tg.col.num) (hkey : d.key = tg.key)
    (htyp : d.typ = tg.typ) (hvis : d.visible = true) (hb : d.sseqBegin ≤ 1)
    (hr : r ∈ T.reqs) (hk : r.kind = .sub) (hi : T.clients[r.i]? = some cl) (hcu : cd.cuid = cl.base.cuid)
    (hv : cd.typ ≠ 2) (hp : SubPackOf tg r p) :
    Phase tg (processPack T.st cd tg.col p).store ∧
    JStep (T.abs tg) (SSysJ.abs { T with st := (processPack T.st cd tg.col p).store,
                                        resps := T.resps ++ respOfJ JMsgKind.sub r.i (processPack T.st cd tg.col p) } tg) := by
  obtain ⟨hm, hdu⟩ := SL.getDatatype_some hd
  have hbk : T.st.getDatatypeByKey tg.col.num p.key = some d := by
    rw [hp.key, ← hkey, ← hcol]; exact byKey_of_mem ku inv hm
  have hne : d.duid ≠ p.duid := by rw [hdu]; exact fun e => hp.otherId e.symm
  have hsr : SubscribeReq T.st cd tg.col p d :=
    ⟨hp.subscribe, hp.noCreate, hp.readWrite, hp.noSnapshot, hbk, by rw [htyp, hp.typ], hvis, hne, hv, by omega⟩
  obtain ⟨e1, e2, e3, e4, e5, _, _, _, _, _, _, _⟩ := processPack_is_serveSub inv hsr
  rw [hdu] at e1 e2 e3 e4
  rw [hcu, hp.sseq] at e2 e3 e4
  rw [hcu] at e4
  have e6 : respOfJ JMsgKind.sub r.i (processPack T.st cd tg.col p)
      = [⟨.sub, r.i, (absLog T.st tg.duid).drop r.s,
          ⟨(absLog T.st tg.duid).length, (absRec T.st tg.duid cl.base.cuid).cseq⟩⟩] := by
    unfold respOfJ
    rw [e5, e3, e4]
    rfl
  have hstep := JStep.serveSub (T.abs tg) r cl hr hk hi
  constructor
  · have heq := PJ.processPack_subscribe T.st cd tg.col p d hp.subscribe hp.noCreate hp.readWrite hbk
      (by rw [htyp, hp.typ]) hvis hne
    rw [heq]
    obtain ⟨f1, f2, f3, f4, f5⟩ := doc2_fields T.st cd p .subscribe d ⟨d.sseqEnd, (SL.cp0 cd p d).cseq⟩ []
    refine .present _ ?_ (f2.trans hcol) (f1.trans hkey) (f4.trans htyp) (f5.trans hvis) (by rw [f3]; exact hb)
    show (upsertDatatype _ T.st.datatypes).find? _ = _
    exact getDatatype_upsert_of_duid _ _ ((SL.doc2_duid ..).trans hdu)
  · show JStep (T.abs tg) ⟨T.clients, absLog (processPack T.st cd tg.col p).store tg.duid,
      absCps (processPack T.st cd tg.col p).store tg.duid, T.reqs,
      T.resps ++ respOfJ JMsgKind.sub r.i (processPack T.st cd tg.col p)⟩
    rw [e1, e2, e6]
    exact hstep

end Orda.SRefJ
