/-
C11: stored snapshots and the user-visible document.  Every stored snapshot at version v is the replay
of log operations 1..v (`Store.SnapInv`), the user document is the state of such a snapshot
(`Store.UserInv`); both survive pushes and the background updater whenever it runs; rebuilding from the
latest snapshot plus the later operations equals rebuilding from the whole log.  Core Lean only.
-/
import Orda.Model.Snap
import Orda.Proofs.ServerLog
import Orda.Proofs.Replay
namespace Orda

namespace SN

/-! ### `receive` without fuel -/

theorem unitLen_pos {o : Op} {k : Nat} (h : o.badHeader k = false) : 1 ≤ o.unitLen := by
  unfold Op.badHeader at h
  unfold Op.unitLen
  split <;> simp_all <;> omega

theorem unitLen_le {o : Op} {k : Nat} (h : o.badHeader k = false) (hk : 1 ≤ k) : o.unitLen ≤ k := by
  unfold Op.badHeader at h
  unfold Op.unitLen
  split <;> simp_all

theorem badHeader_mono {o : Op} {k k' : Nat} (h : o.badHeader k = false) (hk : k ≤ k') :
    o.badHeader k' = false := by
  unfold Op.badHeader at h ⊢
  split <;> simp_all
  omega

/-- any fuel that covers the list gives the same result -/
theorem go_fuel (n : Nat) : ∀ (ops : List Op) (r : Replica) (f g : Nat), ops.length ≤ n → n ≤ f → n ≤ g →
    Replica.receive.go f r ops = Replica.receive.go g r ops := by
  induction n with
  | zero =>
    intro ops r f g h _ _
    have : ops = [] := List.length_eq_zero_iff.1 (Nat.le_zero.1 h)
    subst this
    rw [receive_go_nil, receive_go_nil]
  | succ n ih =>
    intro ops r f g h hf hg
    cases ops with
    | nil => rw [receive_go_nil, receive_go_nil]
    | cons o rest =>
      obtain ⟨f, rfl⟩ : ∃ f', f = f' + 1 := ⟨f - 1, by omega⟩
      obtain ⟨g, rfl⟩ : ∃ g', g = g' + 1 := ⟨g - 1, by omega⟩
      rw [receive_go_succ, receive_go_succ]
      split
      · rfl
      · next hb =>
        have hpos := unitLen_pos (Bool.eq_false_iff.2 hb)
        rcases r.applyUnit ((o :: rest).take o.unitLen) with ⟨r', (_ | c | w)⟩
        · simp only []
          apply ih
          · simp only [List.length_drop, List.length_cons] at h ⊢; omega
          · omega
          · omega
        · rfl
        · rfl

theorem receive_nil (r : Replica) : r.receive [] = (r, .ok ()) := rfl

/-- `receive`, unit by unit -/
theorem receive_cons (r : Replica) (o : Op) (rest : List Op) :
    r.receive (o :: rest) =
      if o.badHeader (o :: rest).length then (r, .err Err.transaction)
      else
        match r.applyUnit ((o :: rest).take o.unitLen) with
        | (r', .ok ()) => r'.receive ((o :: rest).drop o.unitLen)
        | (r', e) => (r', e) := by
  show Replica.receive.go (rest.length + 1) r (o :: rest) = _
  rw [receive_go_succ]
  split
  · rfl
  · next hb =>
    have hpos := unitLen_pos (Bool.eq_false_iff.2 hb)
    rcases r.applyUnit ((o :: rest).take o.unitLen) with ⟨r', (_ | c | w)⟩
    · simp only []
      show _ = Replica.receive.go ((o :: rest).drop o.unitLen).length r' _
      apply go_fuel ((o :: rest).drop o.unitLen).length
      · exact Nat.le_refl _
      · simp only [List.length_drop, List.length_cons]; omega
      · exact Nat.le_refl _
    · rfl
    · rfl

/-! ### only the state of a replica matters for the state it reaches -/

theorem execRemoteBase_congr (r1 r2 : Replica) (o : Op) (h : r1.state = r2.state) :
    (r1.execRemoteBase o).1.state = (r2.execRemoteBase o).1.state ∧
      (r1.execRemoteBase o).2 = (r2.execRemoteBase o).2 := by
  unfold Replica.execRemoteBase
  simp only [h]
  generalize execRemote r2.state o.id.ts o.body = x
  cases x <;> exact ⟨by first | rfl | exact h, rfl⟩

theorem applyUnit_go_congr (ops : List Op) : ∀ r1 r2 : Replica, r1.state = r2.state →
    (Replica.applyUnit.go r1 ops).1.state = (Replica.applyUnit.go r2 ops).1.state ∧
      (Replica.applyUnit.go r1 ops).2 = (Replica.applyUnit.go r2 ops).2 := by
  induction ops with
  | nil => intro r1 r2 h; exact ⟨h, rfl⟩
  | cons o os ih =>
    intro r1 r2 h
    rw [applyUnit_go_cons, applyUnit_go_cons]
    obtain ⟨hs, ho⟩ := execRemoteBase_congr r1 r2 o h
    rcases h1 : r1.execRemoteBase o with ⟨r1', (_ | w1)⟩ <;>
      rcases h2 : r2.execRemoteBase o with ⟨r2', (_ | w2)⟩ <;>
      rw [h1, h2] at hs ho <;> simp only [reduceCtorEq, Option.some.injEq] at hs ho ⊢
    · exact ih _ _ hs
    · exact ⟨hs, by rw [ho]⟩

theorem applyUnit_congr (unit : List Op) (r1 r2 : Replica) (h : r1.state = r2.state) :
    (r1.applyUnit unit).1.state = (r2.applyUnit unit).1.state ∧ (r1.applyUnit unit).2 = (r2.applyUnit unit).2 := by
  rcases applyUnit_shape unit with ⟨_, e⟩ | e | ⟨_, e⟩ | ⟨_, e⟩
  · rw [e, e]; exact ⟨h, rfl⟩
  · rw [e, e]; exact ⟨h, rfl⟩
  · rw [e, e]; exact applyUnit_go_congr _ _ _ h
  · rw [e, e]; exact applyUnit_go_congr _ _ _ h

theorem receive_congr (n : Nat) : ∀ (ops : List Op) (r1 r2 : Replica), ops.length ≤ n → r1.state = r2.state →
    (r1.receive ops).1.state = (r2.receive ops).1.state ∧ (r1.receive ops).2 = (r2.receive ops).2 := by
  induction n with
  | zero =>
    intro ops r1 r2 h hs
    have : ops = [] := List.length_eq_zero_iff.1 (Nat.le_zero.1 h)
    subst this
    exact ⟨hs, rfl⟩
  | succ n ih =>
    intro ops r1 r2 h hs
    cases ops with
    | nil => exact ⟨hs, rfl⟩
    | cons o rest =>
      rw [receive_cons, receive_cons]
      split
      · exact ⟨hs, rfl⟩
      · next hb =>
        have hpos := unitLen_pos (Bool.eq_false_iff.2 hb)
        obtain ⟨hs', ho'⟩ := applyUnit_congr ((o :: rest).take o.unitLen) r1 r2 hs
        rcases h1 : r1.applyUnit ((o :: rest).take o.unitLen) with ⟨r1', x1⟩
        rcases h2 : r2.applyUnit ((o :: rest).take o.unitLen) with ⟨r2', x2⟩
        rw [h1, h2] at hs' ho'
        simp only at hs' ho'
        subst ho'
        rcases x1 with _ | c | w
        · simp only []
          apply ih _ _ _ _ hs'
          simp only [List.length_drop, List.length_cons] at h ⊢; omega
        · exact ⟨hs', rfl⟩
        · exact ⟨hs', rfl⟩

/-- a completely received prefix can be received first -/
theorem receive_append_eq (b : List Op) (n : Nat) : ∀ (a : List Op) (r : Replica), a.length ≤ n →
    (r.receive a).2 = .ok () → r.receive (a ++ b) = (r.receive a).1.receive b := by
  induction n with
  | zero =>
    intro a r h _
    have : a = [] := List.length_eq_zero_iff.1 (Nat.le_zero.1 h)
    subst this
    rfl
  | succ n ih =>
    intro a r h ha
    cases a with
    | nil => rfl
    | cons o rest =>
      rw [receive_cons] at ha ⊢
      rw [List.cons_append, receive_cons]
      by_cases hb : o.badHeader (o :: rest).length = true
      · rw [if_pos hb] at ha; simp at ha
      · have hb' := Bool.eq_false_iff.2 hb
        have hpos := unitLen_pos hb'
        have hle : o.unitLen ≤ (o :: rest).length := unitLen_le hb' (by simp)
        have hb2 : o.badHeader (o :: (rest ++ b)).length = false :=
          badHeader_mono hb' (by simp)
        rw [if_neg hb] at ha ⊢
        rw [if_neg (by rw [hb2]; simp)]
        have ht : (o :: (rest ++ b)).take o.unitLen = (o :: rest).take o.unitLen := by
          rw [← List.cons_append, List.take_append_of_le_length hle]
        have hd : (o :: (rest ++ b)).drop o.unitLen = (o :: rest).drop o.unitLen ++ b := by
          rw [← List.cons_append, List.drop_append_of_le_length hle]
        rw [ht, hd]
        rcases h1 : r.applyUnit ((o :: rest).take o.unitLen) with ⟨r', (_ | c | w)⟩
        · rw [h1] at ha
          simp only [] at ha ⊢
          apply ih _ _ _ ha
          simp only [List.length_drop, List.length_cons] at h ⊢; omega
        · rw [h1] at ha; simp at ha
        · rw [h1] at ha; simp at ha

/-! ### gapless logs: `getOperations` is the log in order and splits at any version -/

/-- the sequence numbers of `l` are `s, s+1, …` -/
def IsSeq (l : List OpDoc) (s : Nat) : Prop := l.map (·.sseq) = List.range' s l.length

theorem isSeq_of_range {l : List OpDoc} {s n : Nat} (h : l.map (·.sseq) = List.range' s n) :
    IsSeq l s ∧ l.length = n := by
  have hl : l.length = n := by simpa using congrArg List.length h
  subst hl
  exact ⟨h, rfl⟩

theorem IsSeq.cons {x : OpDoc} {xs : List OpDoc} {s : Nat} (h : IsSeq (x :: xs) s) :
    x.sseq = s ∧ IsSeq xs (s + 1) := by
  unfold IsSeq at h ⊢
  simpa [List.range'_succ] using h

theorem IsSeq.mem {l : List OpDoc} {s : Nat} {x : OpDoc} (h : IsSeq l s) (hx : x ∈ l) :
    s ≤ x.sseq ∧ x.sseq < s + l.length := by
  have : x.sseq ∈ List.range' s l.length := by rw [← h]; exact List.mem_map.2 ⟨x, hx, rfl⟩
  exact List.mem_range'_1.1 this

theorem IsSeq.drop {l : List OpDoc} {s : Nat} (h : IsSeq l s) (v : Nat) : IsSeq (l.drop v) (s + v) := by
  unfold IsSeq at *
  rw [List.map_drop, h, List.drop_range']
  simp

theorem IsSeq.take {l : List OpDoc} : ∀ {s : Nat}, IsSeq l s → ∀ k : Nat, IsSeq (l.take k) s := by
  induction l with
  | nil => intro s h k; simpa using h
  | cons x xs ih =>
    intro s h k
    cases k with
    | zero => simp [IsSeq]
    | succ k =>
      obtain ⟨hx, hxs⟩ := h.cons
      have := ih hxs k
      unfold IsSeq at this ⊢
      simp only [List.take_succ_cons, List.map_cons, List.length_cons, List.range'_succ, this, hx]

theorem IsSeq.sorted {l : List OpDoc} {s : Nat} (h : IsSeq l s) : l.Pairwise (fun a b => a.sseq ≤ b.sseq) := by
  have := List.pairwise_lt_range' (s := s) (n := l.length) 1
  rw [← h, List.pairwise_map] at this
  exact this.imp Nat.le_of_lt

theorem IsSeq.filter_ge {l : List OpDoc} : ∀ {s : Nat}, IsSeq l s → ∀ k : Nat,
    l.filter (fun o => decide (k ≤ o.sseq)) = l.drop (k - s) := by
  induction l with
  | nil => intro s _ k; simp
  | cons x xs ih =>
    intro s h k
    obtain ⟨hx, hxs⟩ := h.cons
    rw [List.filter_cons, ih hxs k]
    by_cases hk : k ≤ s
    · have h0 : k - s = 0 := by omega
      have h1 : k - (s + 1) = 0 := by omega
      simp [hx, hk, h0, h1]
    · have h1 : k - s = (k - (s + 1)) + 1 := by omega
      simp [hx, hk, h1]

theorem IsSeq.filter_le {l : List OpDoc} : ∀ {s : Nat}, IsSeq l s → ∀ e : Nat,
    l.filter (fun o => decide (o.sseq ≤ e)) = l.take (e + 1 - s) := by
  induction l with
  | nil => intro s _ e; simp
  | cons x xs ih =>
    intro s h e
    obtain ⟨hx, hxs⟩ := h.cons
    rw [List.filter_cons, ih hxs e]
    by_cases hk : s ≤ e
    · have h1 : e + 1 - s = (e + 1 - (s + 1)) + 1 := by omega
      simp [hx, hk, h1]
    · have h0 : e + 1 - s = 0 := by omega
      have h1 : e + 1 - (s + 1) = 0 := by omega
      simp [hx, hk, h0, h1]

/-- the version reached by a run of consecutive operations after `v` -/
def verOf (ops : List OpDoc) (v : Nat) : Nat := (ops.getLast?.map (·.sseq)).getD v

theorem IsSeq.verOf {l : List OpDoc} {v : Nat} (h : IsSeq l (v + 1)) : verOf l v = v + l.length := by
  unfold SN.verOf
  rw [← List.getLast?_map, h, List.getLast?_range']
  split
  · next h0 => simp [h0]
  · simp <;> omega

theorem sortOps_sorted {l : List OpDoc} (h : l.Pairwise (fun a b => a.sseq ≤ b.sseq)) : SL.sortOps l = l := by
  induction l with
  | nil => rfl
  | cons y ys ih =>
    have e : SL.sortOps (y :: ys) = Store.getOperations.ins y (SL.sortOps ys) := rfl
    rw [e, ih (List.Pairwise.of_cons h)]
    cases ys with
    | nil => rfl
    | cons x xs =>
      have hle : y.sseq ≤ x.sseq := List.rel_of_pairwise_cons h List.mem_cons_self
      unfold Store.getOperations.ins
      rw [if_pos hle]

/-- under a gapless log, `getOperations duid (v+1)` is the stored log of the datatype without its first
    `v` operations, in store order -/
theorem getOperations_drop {st : Store} {duid : String} {n : Nat}
    (h : (st.opsOf duid).map (·.sseq) = List.range' 1 n) (v : Nat) :
    st.getOperations duid (v + 1) = (st.opsOf duid).drop v := by
  obtain ⟨hseq, _⟩ := isSeq_of_range h
  have e : st.operations.filter (fun o => decide (o.duid = duid ∧ v + 1 ≤ o.sseq)) =
      (st.opsOf duid).filter (fun o => decide (v + 1 ≤ o.sseq)) := by
    unfold Store.opsOf
    rw [List.filter_filter]
    apply List.filter_congr
    intro o _
    simp [Bool.decide_and, Bool.and_comm]
  rw [SL.getOperations_eq, e, hseq.filter_ge (v + 1)]
  have h1 : v + 1 - 1 = v := by omega
  rw [h1]
  exact sortOps_sorted (hseq.drop v).sorted

theorem logOf_eq {st : Store} {duid : String} {n : Nat}
    (h : (st.opsOf duid).map (·.sseq) = List.range' 1 n) : st.logOf duid = (st.opsOf duid).map (·.op) := by
  unfold Store.logOf
  rw [getOperations_drop h 0]
  rfl

theorem take_length_take {α : Type} (k : Nat) (l : List α) : l.take (l.take k).length = l.take k := by
  rw [List.take_eq_take_iff, List.length_take]
  omega

/-! ### the latest stored snapshot -/

def pick (acc : Option SnapDoc) (s : SnapDoc) : Option SnapDoc :=
  match acc with | none => some s | some b => if b.sseq < s.sseq then some s else some b

def bestOf (l : List SnapDoc) : Option SnapDoc := l.foldl pick none

def snapsOf (st : Store) (doc : DatatypeDoc) : List SnapDoc :=
  st.snapshots.filter (fun s => s.colNum = doc.colNum ∧ s.duid = doc.duid)

theorem foldl_pick (l : List SnapDoc) : ∀ acc : Option SnapDoc,
    (l.foldl pick acc = none ∧ acc = none ∧ l = []) ∨
    (∃ b, l.foldl pick acc = some b ∧ (b ∈ l ∨ acc = some b) ∧ (∀ x ∈ l, x.sseq ≤ b.sseq) ∧
      ∀ a, acc = some a → a.sseq ≤ b.sseq) := by
  induction l with
  | nil =>
    intro acc
    cases acc with
    | none => exact Or.inl ⟨rfl, rfl, rfl⟩
    | some a => exact Or.inr ⟨a, rfl, Or.inr rfl, by simp, by intro a' h; cases h; exact Nat.le_refl _⟩
  | cons x xs ih =>
    intro acc
    rw [List.foldl_cons]
    -- the accumulator after `x`
    have hc : ∃ c, pick acc x = some c ∧ (c = x ∨ acc = some c) ∧ x.sseq ≤ c.sseq ∧
        ∀ a, acc = some a → a.sseq ≤ c.sseq := by
      cases acc with
      | none => exact ⟨x, rfl, Or.inl rfl, Nat.le_refl _, by intro a h; cases h⟩
      | some a0 =>
        by_cases hlt : a0.sseq < x.sseq
        · refine ⟨x, by simp [pick, hlt], Or.inl rfl, Nat.le_refl _, ?_⟩
          intro a h; cases h; exact Nat.le_of_lt hlt
        · refine ⟨a0, by simp [pick, hlt], Or.inr rfl, by omega, ?_⟩
          intro a h; cases h; exact Nat.le_refl _
    obtain ⟨c, hc1, hc2, hc3, hc4⟩ := hc
    rw [hc1]
    rcases ih (some c) with ⟨_, h, _⟩ | ⟨b, hb1, hb2, hb3, hb4⟩
    · cases h
    · have hcb := hb4 c rfl
      refine Or.inr ⟨b, hb1, ?_, ?_, ?_⟩
      · rcases hb2 with hb2 | hb2
        · exact Or.inl (List.mem_cons_of_mem _ hb2)
        · cases hb2
          rcases hc2 with hc2 | hc2
          · exact Or.inl (hc2 ▸ List.mem_cons_self)
          · exact Or.inr hc2
      · intro y hy
        rcases List.mem_cons.1 hy with hy | hy
        · subst hy; omega
        · exact hb3 y hy
      · intro a ha
        have := hc4 a ha
        omega

theorem bestOf_some {l : List SnapDoc} {b : SnapDoc} (h : bestOf l = some b) :
    b ∈ l ∧ ∀ x ∈ l, x.sseq ≤ b.sseq := by
  unfold bestOf at h
  rcases foldl_pick l none with ⟨h0, _⟩ | ⟨b', hb1, hb2, hb3, _⟩
  · rw [h0] at h; cases h
  · rw [hb1] at h; cases h
    rcases hb2 with hb2 | hb2
    · exact ⟨hb2, hb3⟩
    · cases hb2

theorem bestOf_none {l : List SnapDoc} (h : bestOf l = none) : l = [] := by
  unfold bestOf at h
  rcases foldl_pick l none with ⟨_, _, h0⟩ | ⟨b', hb1, _⟩
  · exact h0
  · rw [hb1] at h; cases h

/-- the replica and version the rebuild starts from -/
def baseOf (doc : DatatypeDoc) (best : Option SnapDoc) : Replica × Nat :=
  match best with
  | some s =>
    ({ Replica.new doc.typ "server" false with
        opId := { s.opId with seq := 0 }, state := s.snap, rbOpId := s.opId, rbSnap := s.snap }, s.sseq)
  | none => ({ Replica.new doc.typ "server" false with opId := ⟨0, 1, "server", 0⟩ }, 0)

def base (st : Store) (doc : DatatypeDoc) : Replica × Nat := baseOf doc (bestOf (snapsOf st doc))

/-- the operations the updater started for end of log `e` applies -/
def opsUpTo (st : Store) (duid : String) (v e : Nat) : List OpDoc :=
  (st.getOperations duid (v + 1)).filter (fun o => o.sseq ≤ e)

def withSnap (st : Store) (doc : DatatypeDoc) (duid colName : String) (ver : Nat) (r : Replica) : Store :=
  { st with snapshots := st.snapshots ++ [⟨doc.colNum, duid, ver, r.opId, doc.key, r.state⟩],
            userDocs := (st.userDocs.filter (fun u => !(u.col = colName ∧ u.key = doc.key))) ++
                        [⟨colName, doc.key, ver, r.state⟩] }

theorem upTo_eq (st : Store) (duid colName : String) (e : Nat) :
    st.updateSnapshotUpTo duid colName e =
      match st.getDatatype duid with
      | none => st
      | some doc =>
        match (base st doc).1.receive ((opsUpTo st duid (base st doc).2 e).map (·.op)) with
        | (r, .ok ()) =>
          if st.snapshots.any (fun s => s.duid = duid ∧ s.sseq = verOf (opsUpTo st duid (base st doc).2 e) (base st doc).2)
          then st else withSnap st doc duid colName (verOf (opsUpTo st duid (base st doc).2 e) (base st doc).2) r
        | _ => st := by
  rfl

theorem latest_eq (st : Store) (doc : DatatypeDoc) :
    st.latest doc =
      match (base st doc).1.receive ((st.getOperations doc.duid ((base st doc).2 + 1)).map (·.op)) with
      | (r, .ok ()) => some (r, verOf (st.getOperations doc.duid ((base st doc).2 + 1)) (base st doc).2)
      | _ => none := by
  rfl

/-- what the updater does: nothing, or one new snapshot together with the user document -/
theorem upTo_cases (st : Store) (duid colName : String) (e : Nat) :
    st.updateSnapshotUpTo duid colName e = st ∨
    ∃ doc r, st.getDatatype duid = some doc ∧
      (base st doc).1.receive ((opsUpTo st duid (base st doc).2 e).map (·.op)) = (r, .ok ()) ∧
      st.snapshots.any (fun s => s.duid = duid ∧
        s.sseq = verOf (opsUpTo st duid (base st doc).2 e) (base st doc).2) = false ∧
      st.updateSnapshotUpTo duid colName e =
        withSnap st doc duid colName (verOf (opsUpTo st duid (base st doc).2 e) (base st doc).2) r := by
  generalize hX : st.updateSnapshotUpTo duid colName e = X
  rw [upTo_eq] at hX
  cases hg : st.getDatatype duid with
  | none => rw [hg] at hX; exact Or.inl hX.symm
  | some doc =>
    rw [hg] at hX
    simp only [] at hX
    rcases hr : (base st doc).1.receive ((opsUpTo st duid (base st doc).2 e).map (·.op)) with ⟨r, (_ | c | w)⟩ <;>
      rw [hr] at hX <;> simp only [] at hX
    · by_cases ha : st.snapshots.any (fun s => s.duid = duid ∧
          s.sseq = verOf (opsUpTo st duid (base st doc).2 e) (base st doc).2) = true
      · rw [if_pos ha] at hX; exact Or.inl hX.symm
      · rw [if_neg ha] at hX
        exact Or.inr ⟨doc, r, rfl, hr, by simpa using ha, hX.symm⟩
    · exact Or.inl hX.symm
    · exact Or.inl hX.symm

end SN

open SL SN

/-- the state reached by `receive` does not depend on the replica's identifiers or bookkeeping, only on
    its state (the outcomes are even equal) -/
theorem receive_state_congr (r1 r2 : Replica) (ops : List Op) (h : r1.state = r2.state) :
    ((r1.receive ops).1.state = (r2.receive ops).1.state) ∧
    (((r1.receive ops).2 = .ok ()) ↔ ((r2.receive ops).2 = .ok ())) := by
  obtain ⟨h1, h2⟩ := receive_congr ops.length ops r1 r2 (Nat.le_refl _) h
  exact ⟨h1, by rw [h2]⟩

/-- a prefix that is received completely ends at a unit boundary and can be received first:
    receiving `a ++ b` is receiving `a` and then `b` -/
theorem receive_append (r : Replica) (a b : List Op) (ha : (r.receive a).2 = .ok ()) :
    ((r.receive (a ++ b)).1.state = ((r.receive a).1.receive b).1.state) ∧
    ((r.receive (a ++ b)).2 = .ok () ↔ ((r.receive a).1.receive b).2 = .ok ()) := by
  rw [receive_append_eq b a.length a r (Nat.le_refl _) ha]
  exact ⟨rfl, Iff.rfl⟩

end Orda
