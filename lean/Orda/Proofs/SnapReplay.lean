/-
C11: stored snapshots and the user-visible document.  Every stored snapshot at version v is the replay
of log operations 1..v (`Store.SnapInv`), the user document is the state of such a snapshot
(`Store.UserInv`); both survive pushes and the background updater whenever it runs; rebuilding from the
latest snapshot plus the later operations equals rebuilding from the whole log.  Core Lean only.
-/
import Orda.Model.Snap
import Orda.Proofs.ServerLog
import Orda.Proofs.Replay
namespace Orda

namespace SN

/-! ### `receive` without fuel -/

theorem unitLen_pos {o : Op} {k : Nat} (h : o.badHeader k = false) : 1 ≤ o.unitLen := by
  unfold Op.badHeader at h
  unfold Op.unitLen
  split <;> simp_all <;> omega

theorem unitLen_le {o : Op} {k : Nat} (h : o.badHeader k = false) (hk : 1 ≤ k) : o.unitLen ≤ k := by
  unfold Op.badHeader at h
  unfold Op.unitLen
  split <;> simp_all

theorem badHeader_mono {o : Op} {k k' : Nat} (h : o.badHeader k = false) (hk : k ≤ k') :
    o.badHeader k' = false := by
  unfold Op.badHeader at h ⊢
  split <;> simp_all
  omega

/-- any fuel that covers the list gives the same result -/
theorem go_fuel (n : Nat) : ∀ (ops : List Op) (r : Replica) (f g : Nat), ops.length ≤ n → n ≤ f → n ≤ g →
    Replica.receive.go f r ops = Replica.receive.go g r ops := by
  induction n with
  | zero =>
    intro ops r f g h _ _
    have : ops = [] := List.length_eq_zero_iff.1 (Nat.le_zero.1 h)
    subst this
    rw [receive_go_nil, receive_go_nil]
  | succ n ih =>
    intro ops r f g h hf hg
    cases ops with
    | nil => rw [receive_go_nil, receive_go_nil]
    | cons o rest =>
      obtain ⟨f, rfl⟩ : ∃ f', f = f' + 1 := ⟨f - 1, by omega⟩
      obtain ⟨g, rfl⟩ : ∃ g', g = g' + 1 := ⟨g - 1, by omega⟩
      rw [receive_go_succ, receive_go_succ]
      split
      · rfl
      · next hb =>
        have hpos := unitLen_pos (Bool.eq_false_iff.2 hb)
        rcases r.applyUnit ((o :: rest).take o.unitLen) with ⟨r', (_ | c | w)⟩
        · simp only []
          apply ih
          · simp only [List.length_drop, List.length_cons] at h ⊢; omega
          · omega
          · omega
        · rfl
        · rfl

theorem receive_nil (r : Replica) : r.receive [] = (r, .ok ()) := rfl

/-- `receive`, unit by unit -/
theorem receive_cons (r : Replica) (o : Op) (rest : List Op) :
    r.receive (o :: rest) =
      if o.badHeader (o :: rest).length then (r, .err Err.transaction)
      else
        match r.applyUnit ((o :: rest).take o.unitLen) with
        | (r', .ok ()) => r'.receive ((o :: rest).drop o.unitLen)
        | (r', e) => (r', e) := by
  show Replica.receive.go (rest.length + 1) r (o :: rest) = _
  rw [receive_go_succ]
  split
  · rfl
  · next hb =>
    have hpos := unitLen_pos (Bool.eq_false_iff.2 hb)
    rcases r.applyUnit ((o :: rest).take o.unitLen) with ⟨r', (_ | c | w)⟩
    · simp only []
      show _ = Replica.receive.go ((o :: rest).drop o.unitLen).length r' _
      apply go_fuel ((o :: rest).drop o.unitLen).length
      · exact Nat.le_refl _
      · simp only [List.length_drop, List.length_cons]; omega
      · exact Nat.le_refl _
    · rfl
    · rfl

/-! ### only the state of a replica matters for the state it reaches -/

theorem execRemoteBase_congr (r1 r2 : Replica) (o : Op) (h : r1.state = r2.state) :
    (r1.execRemoteBase o).1.state = (r2.execRemoteBase o).1.state ∧
      (r1.execRemoteBase o).2 = (r2.execRemoteBase o).2 := by
  unfold Replica.execRemoteBase
  simp only [h]
  generalize execRemote r2.state o.id.ts o.body = x
  cases x <;> exact ⟨by first | rfl | exact h, rfl⟩

theorem applyUnit_go_congr (ops : List Op) : ∀ r1 r2 : Replica, r1.state = r2.state →
    (Replica.applyUnit.go r1 ops).1.state = (Replica.applyUnit.go r2 ops).1.state ∧
      (Replica.applyUnit.go r1 ops).2 = (Replica.applyUnit.go r2 ops).2 := by
  induction ops with
  | nil => intro r1 r2 h; exact ⟨h, rfl⟩
  | cons o os ih =>
    intro r1 r2 h
    rw [applyUnit_go_cons, applyUnit_go_cons]
    obtain ⟨hs, ho⟩ := execRemoteBase_congr r1 r2 o h
    rcases h1 : r1.execRemoteBase o with ⟨r1', (_ | w1)⟩ <;>
      rcases h2 : r2.execRemoteBase o with ⟨r2', (_ | w2)⟩ <;>
      rw [h1, h2] at hs ho <;> simp only [reduceCtorEq, Option.some.injEq] at hs ho ⊢
    · exact ih _ _ hs
    · exact ⟨hs, by rw [ho]⟩

theorem applyUnit_congr (unit : List Op) (r1 r2 : Replica) (h : r1.state = r2.state) :
    (r1.applyUnit unit).1.state = (r2.applyUnit unit).1.state ∧ (r1.applyUnit unit).2 = (r2.applyUnit unit).2 := by
  rcases applyUnit_shape unit with ⟨_, e⟩ | e | ⟨_, e⟩ | ⟨_, e⟩
  · rw [e, e]; exact ⟨h, rfl⟩
  · rw [e, e]; exact ⟨h, rfl⟩
  · rw [e, e]; exact applyUnit_go_congr _ _ _ h
  · rw [e, e]; exact applyUnit_go_congr _ _ _ h

theorem receive_congr (n : Nat) : ∀ (ops : List Op) (r1 r2 : Replica), ops.length ≤ n → r1.state = r2.state →
    (r1.receive ops).1.state = (r2.receive ops).1.state ∧ (r1.receive ops).2 = (r2.receive ops).2 := by
  induction n with
  | zero =>
    intro ops r1 r2 h hs
    have : ops = [] := List.length_eq_zero_iff.1 (Nat.le_zero.1 h)
    subst this
    exact ⟨hs, rfl⟩
  | succ n ih =>
    intro ops r1 r2 h hs
    cases ops with
    | nil => exact ⟨hs, rfl⟩
    | cons o rest =>
      rw [receive_cons, receive_cons]
      split
      · exact ⟨hs, rfl⟩
      · next hb =>
        have hpos := unitLen_pos (Bool.eq_false_iff.2 hb)
        obtain ⟨hs', ho'⟩ := applyUnit_congr ((o :: rest).take o.unitLen) r1 r2 hs
        rcases h1 : r1.applyUnit ((o :: rest).take o.unitLen) with ⟨r1', x1⟩
        rcases h2 : r2.applyUnit ((o :: rest).take o.unitLen) with ⟨r2', x2⟩
        rw [h1, h2] at hs' ho'
        simp only at hs' ho'
        subst ho'
        rcases x1 with _ | c | w
        · simp only []
          apply ih _ _ _ _ hs'
          simp only [List.length_drop, List.length_cons] at h ⊢; omega
        · exact ⟨hs', rfl⟩
        · exact ⟨hs', rfl⟩

/-- a completely received prefix can be received first -/
theorem receive_append_eq (b : List Op) (n : Nat) : ∀ (a : List Op) (r : Replica), a.length ≤ n →
    (r.receive a).2 = .ok () → r.receive (a ++ b) = (r.receive a).1.receive b := by
  induction n with
  | zero =>
    intro a r h _
    have : a = [] := List.length_eq_zero_iff.1 (Nat.le_zero.1 h)
    subst this
    rfl
  | succ n ih =>
    intro a r h ha
    cases a with
    | nil => rfl
    | cons o rest =>
      rw [receive_cons] at ha ⊢
      rw [List.cons_append, receive_cons]
      by_cases hb : o.badHeader (o :: rest).length = true
      · rw [if_pos hb] at ha; simp at ha
      · have hb' := Bool.eq_false_iff.2 hb
        have hpos := unitLen_pos hb'
        have hle : o.unitLen ≤ (o :: rest).length := unitLen_le hb' (by simp)
        have hb2 : o.badHeader (o :: (rest ++ b)).length = false :=
          badHeader_mono hb' (by simp)
        rw [if_neg hb] at ha ⊢
        rw [if_neg (by rw [hb2]; simp)]
        have ht : (o :: (rest ++ b)).take o.unitLen = (o :: rest).take o.unitLen := by
          rw [← List.cons_append, List.take_append_of_le_length hle]
        have hd : (o :: (rest ++ b)).drop o.unitLen = (o :: rest).drop o.unitLen ++ b := by
          rw [← List.cons_append, List.drop_append_of_le_length hle]
        rw [ht, hd]
        rcases h1 : r.applyUnit ((o :: rest).take o.unitLen) with ⟨r', (_ | c | w)⟩
        · rw [h1] at ha
          simp only [] at ha ⊢
          apply ih _ _ _ ha
          simp only [List.length_drop, List.length_cons] at h ⊢; omega
        · rw [h1] at ha; simp at ha
        · rw [h1] at ha; simp at ha

/-! ### gapless logs: `getOperations` is the log in order and splits at any version -/

/-- the sequence numbers of `l` are `s, s+1, …` -/
def IsSeq (l : List OpDoc) (s : Nat) : Prop := l.map (·.sseq) = List.range' s l.length

theorem isSeq_of_range {l : List OpDoc} {s n : Nat} (h : l.map (·.sseq) = List.range' s n) :
    IsSeq l s ∧ l.length = n := by
  have hl : l.length = n := by simpa using congrArg List.length h
  subst hl
  exact ⟨h, rfl⟩

theorem IsSeq.cons {x : OpDoc} {xs : List OpDoc} {s : Nat} (h : IsSeq (x :: xs) s) :
    x.sseq = s ∧ IsSeq xs (s + 1) := by
  unfold IsSeq at h ⊢
  simpa [List.range'_succ] using h

theorem IsSeq.mem {l : List OpDoc} {s : Nat} {x : OpDoc} (h : IsSeq l s) (hx : x ∈ l) :
    s ≤ x.sseq ∧ x.sseq < s + l.length := by
  have : x.sseq ∈ List.range' s l.length := by rw [← h]; exact List.mem_map.2 ⟨x, hx, rfl⟩
  exact List.mem_range'_1.1 this

theorem IsSeq.drop {l : List OpDoc} {s : Nat} (h : IsSeq l s) (v : Nat) : IsSeq (l.drop v) (s + v) := by
  unfold IsSeq at *
  rw [List.map_drop, h, List.drop_range']
  simp

theorem IsSeq.take {l : List OpDoc} : ∀ {s : Nat}, IsSeq l s → ∀ k : Nat, IsSeq (l.take k) s := by
  induction l with
  | nil => intro s h k; simpa using h
  | cons x xs ih =>
    intro s h k
    cases k with
    | zero => simp [IsSeq]
    | succ k =>
      obtain ⟨hx, hxs⟩ := h.cons
      have := ih hxs k
      unfold IsSeq at this ⊢
      simp only [List.take_succ_cons, List.map_cons, List.length_cons, List.range'_succ, this, hx]

theorem IsSeq.sorted {l : List OpDoc} {s : Nat} (h : IsSeq l s) : l.Pairwise (fun a b => a.sseq ≤ b.sseq) := by
  have := List.pairwise_lt_range' (s := s) (n := l.length) 1
  rw [← h, List.pairwise_map] at this
  exact this.imp Nat.le_of_lt

theorem IsSeq.filter_ge {l : List OpDoc} : ∀ {s : Nat}, IsSeq l s → ∀ k : Nat,
    l.filter (fun o => decide (k ≤ o.sseq)) = l.drop (k - s) := by
  induction l with
  | nil => intro s _ k; simp
  | cons x xs ih =>
    intro s h k
    obtain ⟨hx, hxs⟩ := h.cons
    rw [List.filter_cons, ih hxs k]
    by_cases hk : k ≤ s
    · have h0 : k - s = 0 := by omega
      have h1 : k - (s + 1) = 0 := by omega
      simp [hx, hk, h0, h1]
    · have h1 : k - s = (k - (s + 1)) + 1 := by omega
      simp [hx, hk, h1]

theorem IsSeq.filter_le {l : List OpDoc} : ∀ {s : Nat}, IsSeq l s → ∀ e : Nat,
    l.filter (fun o => decide (o.sseq ≤ e)) = l.take (e + 1 - s) := by
  induction l with
  | nil => intro s _ e; simp
  | cons x xs ih =>
    intro s h e
    obtain ⟨hx, hxs⟩ := h.cons
    rw [List.filter_cons, ih hxs e]
    by_cases hk : s ≤ e
    · have h1 : e + 1 - s = (e + 1 - (s + 1)) + 1 := by omega
      simp [hx, hk, h1]
    · have h0 : e + 1 - s = 0 := by omega
      have h1 : e + 1 - (s + 1) = 0 := by omega
      simp [hx, hk, h0, h1]

/-- the version reached by a run of consecutive operations after `v` -/
def verOf (ops : List OpDoc) (v : Nat) : Nat := (ops.getLast?.map (·.sseq)).getD v

theorem IsSeq.verOf {l : List OpDoc} {v : Nat} (h : IsSeq l (v + 1)) : verOf l v = v + l.length := by
  unfold SN.verOf
  rw [← List.getLast?_map, h, List.getLast?_range']
  split
  · next h0 => simp [h0]
  · simp <;> omega

theorem sortOps_sorted {l : List OpDoc} (h : l.Pairwise (fun a b => a.sseq ≤ b.sseq)) : SL.sortOps l = l := by
  induction l with
  | nil => rfl
  | cons y ys ih =>
    have e : SL.sortOps (y :: ys) = Store.getOperations.ins y (SL.sortOps ys) := rfl
    rw [e, ih (List.Pairwise.of_cons h)]
    cases ys with
    | nil => rfl
    | cons x xs =>
      have hle : y.sseq ≤ x.sseq := List.rel_of_pairwise_cons h List.mem_cons_self
      unfold Store.getOperations.ins
      rw [if_pos hle]

/-- under a gapless log, `getOperations duid (v+1)` is the stored log of the datatype without its first
    `v` operations, in store order -/
theorem getOperations_drop {st : Store} {duid : String} {n : Nat}
    (h : (st.opsOf duid).map (·.sseq) = List.range' 1 n) (v : Nat) :
    st.getOperations duid (v + 1) = (st.opsOf duid).drop v := by
  obtain ⟨hseq, _⟩ := isSeq_of_range h
  have e : st.operations.filter (fun o => decide (o.duid = duid ∧ v + 1 ≤ o.sseq)) =
      (st.opsOf duid).filter (fun o => decide (v + 1 ≤ o.sseq)) := by
    unfold Store.opsOf
    rw [List.filter_filter]
    apply List.filter_congr
    intro o _
    simp [Bool.decide_and, Bool.and_comm]
  rw [SL.getOperations_eq, e, hseq.filter_ge (v + 1)]
  have h1 : v + 1 - 1 = v := by omega
  rw [h1]
  exact sortOps_sorted (hseq.drop v).sorted

theorem logOf_eq {st : Store} {duid : String} {n : Nat}
    (h : (st.opsOf duid).map (·.sseq) = List.range' 1 n) : st.logOf duid = (st.opsOf duid).map (·.op) := by
  unfold Store.logOf
  rw [getOperations_drop h 0]
  rfl

theorem take_length_take {α : Type} (k : Nat) (l : List α) : l.take (l.take k).length = l.take k := by
  rw [List.take_eq_take_iff, List.length_take]
  omega

/-! ### the latest stored snapshot -/

def pick (acc : Option SnapDoc) (s : SnapDoc) : Option SnapDoc :=
  match acc with | none => some s | some b => if b.sseq < s.sseq then some s else some b

def bestOf (l : List SnapDoc) : Option SnapDoc := l.foldl pick none

def snapsOf (st : Store) (doc : DatatypeDoc) : List SnapDoc :=
  st.snapshots.filter (fun s => s.colNum = doc.colNum ∧ s.duid = doc.duid)

theorem foldl_pick (l : List SnapDoc) : ∀ acc : Option SnapDoc,
    (l.foldl pick acc = none ∧ acc = none ∧ l = []) ∨
    (∃ b, l.foldl pick acc = some b ∧ (b ∈ l ∨ acc = some b) ∧ (∀ x ∈ l, x.sseq ≤ b.sseq) ∧
      ∀ a, acc = some a → a.sseq ≤ b.sseq) := by
  induction l with
  | nil =>
    intro acc
    cases acc with
    | none => exact Or.inl ⟨rfl, rfl, rfl⟩
    | some a => exact Or.inr ⟨a, rfl, Or.inr rfl, by simp, by intro a' h; cases h; exact Nat.le_refl _⟩
  | cons x xs ih =>
    intro acc
    rw [List.foldl_cons]
    -- the accumulator after `x`
    have hc : ∃ c, pick acc x = some c ∧ (c = x ∨ acc = some c) ∧ x.sseq ≤ c.sseq ∧
        ∀ a, acc = some a → a.sseq ≤ c.sseq := by
      cases acc with
      | none => exact ⟨x, rfl, Or.inl rfl, Nat.le_refl _, by intro a h; cases h⟩
      | some a0 =>
        by_cases hlt : a0.sseq < x.sseq
        · refine ⟨x, by simp [pick, hlt], Or.inl rfl, Nat.le_refl _, ?_⟩
          intro a h; cases h; exact Nat.le_of_lt hlt
        · refine ⟨a0, by simp [pick, hlt], Or.inr rfl, by omega, ?_⟩
          intro a h; cases h; exact Nat.le_refl _
    obtain ⟨c, hc1, hc2, hc3, hc4⟩ := hc
    rw [hc1]
    rcases ih (some c) with ⟨_, h, _⟩ | ⟨b, hb1, hb2, hb3, hb4⟩
    · cases h
    · have hcb := hb4 c rfl
      refine Or.inr ⟨b, hb1, ?_, ?_, ?_⟩
      · rcases hb2 with hb2 | hb2
        · exact Or.inl (List.mem_cons_of_mem _ hb2)
        · cases hb2
          rcases hc2 with hc2 | hc2
          · exact Or.inl (hc2 ▸ List.mem_cons_self)
          · exact Or.inr hc2
      · intro y hy
        rcases List.mem_cons.1 hy with hy | hy
        · subst hy; omega
        · exact hb3 y hy
      · intro a ha
        have := hc4 a ha
        omega

theorem bestOf_some {l : List SnapDoc} {b : SnapDoc} (h : bestOf l = some b) :
    b ∈ l ∧ ∀ x ∈ l, x.sseq ≤ b.sseq := by
  unfold bestOf at h
  rcases foldl_pick l none with ⟨h0, _⟩ | ⟨b', hb1, hb2, hb3, _⟩
  · rw [h0] at h; cases h
  · rw [hb1] at h; cases h
    rcases hb2 with hb2 | hb2
    · exact ⟨hb2, hb3⟩
    · cases hb2

theorem bestOf_none {l : List SnapDoc} (h : bestOf l = none) : l = [] := by
  unfold bestOf at h
  rcases foldl_pick l none with ⟨_, _, h0⟩ | ⟨b', hb1, _⟩
  · exact h0
  · rw [hb1] at h; cases h

/-- the replica and version the rebuild starts from -/
def baseOf (doc : DatatypeDoc) (best : Option SnapDoc) : Replica × Nat :=
  match best with
  | some s =>
    ({ Replica.new doc.typ "server" false with
        opId := { s.opId with seq := 0 }, state := s.snap, rbOpId := s.opId, rbSnap := s.snap }, s.sseq)
  | none => ({ Replica.new doc.typ "server" false with opId := ⟨0, 1, "server", 0⟩ }, 0)

def base (st : Store) (doc : DatatypeDoc) : Replica × Nat := baseOf doc (bestOf (snapsOf st doc))

/-- the operations the updater started for end of log `e` applies -/
def opsUpTo (st : Store) (duid : String) (v e : Nat) : List OpDoc :=
  (st.getOperations duid (v + 1)).filter (fun o => o.sseq ≤ e)

def withSnap (st : Store) (doc : DatatypeDoc) (duid colName : String) (ver : Nat) (r : Replica) : Store :=
  { st with snapshots := st.snapshots ++ [⟨doc.colNum, duid, ver, r.opId, doc.key, r.state⟩],
            userDocs := (st.userDocs.filter (fun u => !(u.col = colName ∧ u.key = doc.key))) ++
                        [⟨colName, doc.key, ver, r.state⟩] }

theorem upTo_eq (st : Store) (duid colName : String) (e : Nat) :
    st.updateSnapshotUpTo duid colName e =
      match st.getDatatype duid with
      | none => st
      | some doc =>
        match (base st doc).1.receive ((opsUpTo st duid (base st doc).2 e).map (·.op)) with
        | (r, .ok ()) =>
          if st.snapshots.any (fun s => s.duid = duid ∧ s.sseq = verOf (opsUpTo st duid (base st doc).2 e) (base st doc).2)
          then st else withSnap st doc duid colName (verOf (opsUpTo st duid (base st doc).2 e) (base st doc).2) r
        | _ => st := by
  rfl

theorem latest_eq (st : Store) (doc : DatatypeDoc) :
    st.latest doc =
      match (base st doc).1.receive ((st.getOperations doc.duid ((base st doc).2 + 1)).map (·.op)) with
      | (r, .ok ()) => some (r, verOf (st.getOperations doc.duid ((base st doc).2 + 1)) (base st doc).2)
      | _ => none := by
  rfl

/-- what the updater does: nothing, or one new snapshot together with the user document -/
theorem upTo_cases (st : Store) (duid colName : String) (e : Nat) :
    st.updateSnapshotUpTo duid colName e = st ∨
    ∃ doc r, st.getDatatype duid = some doc ∧
      (base st doc).1.receive ((opsUpTo st duid (base st doc).2 e).map (·.op)) = (r, .ok ()) ∧
      st.snapshots.any (fun s => s.duid = duid ∧
        s.sseq = verOf (opsUpTo st duid (base st doc).2 e) (base st doc).2) = false ∧
      st.updateSnapshotUpTo duid colName e =
        withSnap st doc duid colName (verOf (opsUpTo st duid (base st doc).2 e) (base st doc).2) r := by
  generalize hX : st.updateSnapshotUpTo duid colName e = X
  rw [upTo_eq] at hX
  cases hg : st.getDatatype duid with
  | none => rw [hg] at hX; exact Or.inl hX.symm
  | some doc =>
    rw [hg] at hX
    simp only [] at hX
    rcases hr : (base st doc).1.receive ((opsUpTo st duid (base st doc).2 e).map (·.op)) with ⟨r, (_ | c | w)⟩ <;>
      rw [hr] at hX <;> simp only [] at hX
    · by_cases ha : st.snapshots.any (fun s => s.duid = duid ∧
          s.sseq = verOf (opsUpTo st duid (base st doc).2 e) (base st doc).2) = true
      · rw [if_pos ha] at hX; exact Or.inl hX.symm
      · rw [if_neg ha] at hX
        exact Or.inr ⟨doc, r, rfl, hr, by simpa using ha, hX.symm⟩
    · exact Or.inl hX.symm
    · exact Or.inl hX.symm

/-! ### replay from a snapshot -/

def replayOf (x : Replica × Outcome Unit) : Option DState :=
  match x with
  | (r, .ok ()) => some r.state
  | _ => none

theorem replayState_eq (typ : DtType) (ops : List Op) :
    replayState typ ops = replayOf ((Replica.new typ "server" false).receive ops) := rfl

theorem replayOf_some {x : Replica × Outcome Unit} {s : DState} :
    replayOf x = some s ↔ x.2 = .ok () ∧ x.1.state = s := by
  rcases x with ⟨r, (_ | c | w)⟩ <;> simp [replayOf]

theorem replayOf_congr {x y : Replica × Outcome Unit} (h1 : x.1.state = y.1.state) (h2 : x.2 = y.2) :
    replayOf x = replayOf y := by
  rcases x with ⟨r, ox⟩
  rcases y with ⟨r', oy⟩
  simp only at h1 h2
  subst h2
  rcases ox with _ | c | w <;> simp [replayOf, h1]

/-- replaying `A ++ B` from the empty datatype is receiving `B` on any replica that carries the state
    reached by `A` -/
theorem replay_extend (typ : DtType) (A B : List Op) (rb : Replica) (hA : replayState typ A = some rb.state) :
    replayState typ (A ++ B) = replayOf (rb.receive B) := by
  rw [replayState_eq, replayOf_some] at hA
  obtain ⟨h1, h2⟩ := hA
  rw [replayState_eq, receive_append_eq B A.length A _ (Nat.le_refl _) h1]
  obtain ⟨c1, c2⟩ := receive_congr B.length B _ rb (Nat.le_refl _) h2
  exact replayOf_congr c1 c2

/-- no stored snapshot of the datatype is newer than the one the rebuild starts from -/
theorem base_max (st : Store) (doc : DatatypeDoc) :
    ∀ s ∈ st.snapshots, s.colNum = doc.colNum → s.duid = doc.duid → s.sseq ≤ (base st doc).2 := by
  intro x hx1 hx2 hx3
  have hx : x ∈ snapsOf st doc := by simp [snapsOf, hx1, hx2, hx3]
  unfold base
  cases hb : bestOf (snapsOf st doc) with
  | none => rw [bestOf_none hb] at hx; cases hx
  | some s => exact (bestOf_some hb).2 x hx

/-- the rebuild starts from a replica that carries the replay of the first `v` log operations -/
theorem base_spec {st : Store} {doc : DatatypeDoc} (hd : doc ∈ st.datatypes) (hs : st.SnapInv) :
    (base st doc).2 ≤ doc.sseqEnd ∧
      replayState doc.typ ((st.logOf doc.duid).take (base st doc).2) = some (base st doc).1.state := by
  unfold base
  cases hb : bestOf (snapsOf st doc) with
  | none =>
    refine ⟨Nat.zero_le _, ?_⟩
    show replayState doc.typ ((st.logOf doc.duid).take 0) = _
    rw [List.take_zero]
    rfl
  | some s =>
    have hm : s ∈ st.snapshots ∧ s.colNum = doc.colNum ∧ s.duid = doc.duid := by
      simpa [snapsOf] using (bestOf_some hb).1
    obtain ⟨h1, h2⟩ := hs s hm.1 doc hd hm.2.2.symm
    rw [hm.2.2] at h2
    exact ⟨h1, h2⟩

/-- from the latest snapshot (version `v`) through the next `k` operations: the version reached is
    `v + (number applied)` and what is computed is the replay of the log up to there -/
theorem reach {st : Store} {doc : DatatypeDoc} (hd : doc ∈ st.datatypes) (hi : LogInv st) (hs : st.SnapInv)
    (k : Nat) :
    IsSeq (((st.opsOf doc.duid).drop (base st doc).2).take k) ((base st doc).2 + 1) ∧
    (base st doc).2 + (((st.opsOf doc.duid).drop (base st doc).2).take k).length ≤ doc.sseqEnd ∧
    replayState doc.typ ((st.logOf doc.duid).take
        ((base st doc).2 + (((st.opsOf doc.duid).drop (base st doc).2).take k).length)) =
      replayOf ((base st doc).1.receive ((((st.opsOf doc.duid).drop (base st doc).2).take k).map (·.op))) := by
  have gap := hi.gapless doc hd
  obtain ⟨hseq, hlen⟩ := isSeq_of_range gap
  obtain ⟨hv, hrep⟩ := base_spec hd hs
  rw [logOf_eq gap] at hrep ⊢
  refine ⟨?_, ?_, ?_⟩
  · have := (hseq.drop (base st doc).2).take k
    rwa [Nat.add_comm] at this
  · have h1 := List.length_take_le' k ((st.opsOf doc.duid).drop (base st doc).2)
    rw [List.length_drop] at h1
    omega
  · rw [← List.map_take] at hrep
    rw [List.take_add, ← List.map_drop, ← List.map_take, ← List.map_take, take_length_take]
    exact replay_extend _ _ _ _ hrep

theorem verOf_ge {ops : List OpDoc} {v : Nat} (h : ∀ o ∈ ops, v ≤ o.sseq) : v ≤ verOf ops v := by
  unfold verOf
  cases hl : ops.getLast? with
  | none => simp
  | some last => simpa using h last (List.mem_of_getLast? hl)

/-! ### pushes -/

open SL

/-- every stored snapshot belongs to a datatype document -/
def SnapNoOrphan (st : Store) : Prop := ∀ s ∈ st.snapshots, ∃ d ∈ st.datatypes, d.duid = s.duid

theorem doc2_typ (st : Store) (cl : ClientDoc) (p : Pack) (d : Dispatch) (doc : DatatypeDoc) (cp2 : CheckPoint)
    (nd : List OpDoc) : (doc2 st cl p d doc cp2 nd).typ = doc.typ := by
  unfold doc2 DatatypeDoc.setSub; simp only []; split
  · rfl
  · split <;> rfl

/-- what a push does to the store, as far as snapshots are concerned -/
theorem processPack_store (st : Store) (cl : ClientDoc) (col : CollectionDoc) (p : Pack) (hi : LogInv st) :
    (processPack st cl col p).store.snapshots = st.snapshots ∧
    (processPack st cl col p).store.userDocs = st.userDocs ∧
    (∃ nd, (processPack st cl col p).store.operations = st.operations ++ nd) ∧
    (∀ d ∈ st.datatypes, ∃ d' ∈ (processPack st cl col p).store.datatypes, d'.duid = d.duid) ∧
    (∀ d ∈ st.datatypes, ∀ d' ∈ (processPack st cl col p).store.datatypes, d'.duid = d.duid →
      d'.typ = d.typ ∧ d.sseqEnd ≤ d'.sseqEnd) := by
  rcases processPack_shape st cl col p with ⟨resp, he, _⟩ | ⟨dsp, doc, cp2, nd, he, hp, hsv⟩
  · rw [he]
    refine ⟨rfl, rfl, ⟨[], by simp⟩, fun d hd => ⟨d, hd, rfl⟩, ?_⟩
    intro d hd d' hd' hid
    have := eq_of_nodup_duid hi.duidNodup hd' hd hid
    subst this
    exact ⟨rfl, Nat.le_refl _⟩
  · rw [he]
    refine ⟨rfl, rfl, ⟨nd, rfl⟩, fun d hd => upsert_covers hd, ?_⟩
    intro d hd d' hd' hid
    rcases mem_upsert_nodup hi.duidNodup hd' with hd2 | ⟨hm, _⟩
    · have hdoc : doc = d := by
        rcases hsv.src with ⟨hf, _⟩ | hm
        · exact absurd (by rw [← hid, hd2, doc2_duid]) (hf d hd)
        · exact eq_of_nodup_duid hi.duidNodup hm hd (by rw [← hid, hd2, doc2_duid])
      subst hdoc
      obtain ⟨_, _, hn3, hn4, _, _⟩ := pushRes_spec hsv hp
      obtain ⟨_, hc3⟩ := cp3_spec (cl := cl) (cp2 := cp2) (nd := nd) hi hsv
      rw [hd2, doc2_typ, doc2_sseqEnd]
      refine ⟨rfl, ?_⟩
      cases hro : p.readOnly with
      | true => simp
      | false =>
        simp only [Bool.false_eq_true, if_false]
        rcases hc3 with h3 | h3
        · rw [h3]; exact Nat.le_add_right _ _
        · rw [h3, hn4 hro]; exact Nat.le_add_right _ _
    · have := eq_of_nodup_duid hi.duidNodup hm hd hid
      subst this
      exact ⟨rfl, Nat.le_refl _⟩

/-- appending operation documents leaves every prefix of a gapless log alone -/
theorem logOf_take_append {st st' : Store} {duid : String} {nd : List OpDoc}
    (ho : st'.operations = st.operations ++ nd) {n n' : Nat}
    (h : (st.opsOf duid).map (·.sseq) = List.range' 1 n)
    (h' : (st'.opsOf duid).map (·.sseq) = List.range' 1 n') {k : Nat} (hk : k ≤ n) :
    (st'.logOf duid).take k = (st.logOf duid).take k := by
  rw [logOf_eq h, logOf_eq h']
  have : st'.opsOf duid = st.opsOf duid ++ nd.filter (fun o => o.duid = duid) := by
    unfold Store.opsOf; rw [ho, List.filter_append]
  rw [this, List.map_append, List.take_append_of_le_length]
  rw [List.length_map, (isSeq_of_range h).2]
  exact hk

end SN

open SL SN

/-- the state reached by `receive` does not depend on the replica's identifiers or bookkeeping, only on
    its state (the outcomes are even equal) -/
theorem receive_state_congr (r1 r2 : Replica) (ops : List Op) (h : r1.state = r2.state) :
    ((r1.receive ops).1.state = (r2.receive ops).1.state) ∧
    (((r1.receive ops).2 = .ok ()) ↔ ((r2.receive ops).2 = .ok ())) := by
  obtain ⟨h1, h2⟩ := receive_congr ops.length ops r1 r2 (Nat.le_refl _) h
  exact ⟨h1, by rw [h2]⟩

/-- a prefix that is received completely ends at a unit boundary and can be received first:
    receiving `a ++ b` is receiving `a` and then `b` -/
theorem receive_append (r : Replica) (a b : List Op) (ha : (r.receive a).2 = .ok ()) :
    ((r.receive (a ++ b)).1.state = ((r.receive a).1.receive b).1.state) ∧
    ((r.receive (a ++ b)).2 = .ok () ↔ ((r.receive a).1.receive b).2 = .ok ()) := by
  rw [receive_append_eq b a.length a r (Nat.le_refl _) ha]
  exact ⟨rfl, Iff.rfl⟩

/-- C11: rebuilding from the latest stored snapshot plus the later operations gives the same state as
    rebuilding from the whole log (and the version reached is the end of the log) -/
theorem latest_is_full_replay (st : Store) (doc : DatatypeDoc) (hd : doc ∈ st.datatypes)
    (hi : LogInv st) (hs : st.SnapInv) (hdu : (st.datatypes.map (·.duid)).Nodup)
    (hfull : (replayState doc.typ (st.logOf doc.duid)).isSome = true) :
    ∃ r ver, st.latest doc = some (r, ver) ∧ some r.state = replayState doc.typ (st.logOf doc.duid) ∧
      (ver = doc.sseqEnd ∨ (st.logOf doc.duid = [] ∧ ver = 0)) := by
  have gap := hi.gapless doc hd
  obtain ⟨hseq, hlen⟩ := isSeq_of_range gap
  obtain ⟨hv, _⟩ := base_spec hd hs
  obtain ⟨r1, r2, r3⟩ := reach hd hi hs ((st.opsOf doc.duid).drop (base st doc).2).length
  rw [List.take_length] at r1 r2 r3
  have hget := getOperations_drop gap (base st doc).2
  have hall : (st.logOf doc.duid).take ((base st doc).2 + ((st.opsOf doc.duid).drop (base st doc).2).length)
      = st.logOf doc.duid := by
    apply List.take_of_length_le
    rw [logOf_eq gap, List.length_map, List.length_drop]
    omega
  rw [hall] at r3
  rw [latest_eq, hget]
  rw [r3] at hfull
  rcases hr : (base st doc).1.receive (((st.opsOf doc.duid).drop (base st doc).2).map (·.op)) with ⟨r, (_ | c | w)⟩ <;>
    rw [hr] at hfull r3
  · refine ⟨r, _, by rw [hr], r3.symm, Or.inl ?_⟩
    rw [r1.verOf, List.length_drop]
    omega
  · simp [replayOf] at hfull
  · simp [replayOf] at hfull

/-- C11: the updater — whenever it runs, for whatever end of log `e` it was started — keeps
    "every stored snapshot at version v is the replay of operations 1..v" … -/
theorem snapInv_updateSnapshotUpTo (st : Store) (duid colName : String) (e : Nat)
    (hi : LogInv st) (hs : st.SnapInv) :
    (st.updateSnapshotUpTo duid colName e).SnapInv := by
  rcases upTo_cases st duid colName e with h | ⟨doc, r, hg, hr, _, h⟩
  · rw [h]; exact hs
  · rw [h]
    obtain ⟨hd, hdu⟩ := getDatatype_some hg
    subst hdu
    have gap := hi.gapless doc hd
    obtain ⟨hseq, hlen⟩ := isSeq_of_range gap
    have hops : opsUpTo st doc.duid (base st doc).2 e =
        ((st.opsOf doc.duid).drop (base st doc).2).take (e + 1 - (1 + (base st doc).2)) := by
      unfold opsUpTo
      rw [getOperations_drop gap, (hseq.drop _).filter_le e]
    obtain ⟨r1, r2, r3⟩ := reach hd hi hs (e + 1 - (1 + (base st doc).2))
    rw [← hops] at r1 r2 r3
    rw [hr] at r3
    intro s hsm d hdm hds
    rcases List.mem_append.1 hsm with hsm | hsm
    · exact hs s hsm d hdm hds
    · simp only [List.mem_singleton] at hsm
      subst hsm
      have : d = doc := eq_of_nodup_duid hi.duidNodup hdm hd hds
      subst this
      show verOf _ _ ≤ d.sseqEnd ∧ replayState d.typ ((st.logOf d.duid).take (verOf _ _)) = some r.state
      rw [r1.verOf]
      exact ⟨r2, r3⟩

/-- … and "the user document is the state of a stored snapshot with its version recorded" -/
theorem userInv_updateSnapshotUpTo (st : Store) (duid colName : String) (e : Nat)
    (hs : st.SnapInv) (hu : st.UserInv) : (st.updateSnapshotUpTo duid colName e).UserInv := by
  rcases upTo_cases st duid colName e with h | ⟨doc, r, hg, hr, _, h⟩
  · rw [h]; exact hu
  · rw [h]
    intro u hum
    rcases List.mem_append.1 hum with hum | hum
    · obtain ⟨s, hsm, h1⟩ := hu u (List.mem_filter.1 hum).1
      exact ⟨s, List.mem_append_left _ hsm, h1⟩
    · simp only [List.mem_singleton] at hum
      subst hum
      exact ⟨_, List.mem_append_right _ (List.mem_singleton.2 rfl), rfl, rfl, rfl⟩

/-- no push and no updater run leaves a snapshot without its datatype document -/
theorem snapNoOrphan_updateSnapshotUpTo (st : Store) (duid colName : String) (e : Nat)
    (hn : SnapNoOrphan st) : SnapNoOrphan (st.updateSnapshotUpTo duid colName e) := by
  rcases upTo_cases st duid colName e with h | ⟨doc, r, hg, hr, _, h⟩
  · rw [h]; exact hn
  · rw [h]
    intro s hsm
    rcases List.mem_append.1 hsm with hsm | hsm
    · exact hn s hsm
    · simp only [List.mem_singleton] at hsm
      subst hsm
      exact ⟨doc, (getDatatype_some hg).1, (getDatatype_some hg).2⟩

theorem snapNoOrphan_processPack (st : Store) (cl : ClientDoc) (col : CollectionDoc) (p : Pack)
    (hi : LogInv st) (hn : SnapNoOrphan st) : SnapNoOrphan (processPack st cl col p).store := by
  obtain ⟨h1, _, _, h4, _⟩ := processPack_store st cl col p hi
  intro s hsm
  rw [h1] at hsm
  obtain ⟨d, hd, hds⟩ := hn s hsm
  obtain ⟨d', hd', hdd⟩ := h4 d hd
  exact ⟨d', hd', hdd.trans hds⟩

theorem snapNoOrphan_empty : SnapNoOrphan {} := by
  intro s hs; cases hs

/-- pushes only append to the log, so they keep the snapshot invariant (prefixes 1..v are unchanged).
    The extra hypothesis `SnapNoOrphan` (every stored snapshot belongs to a datatype document) is needed:
    `SnapInv` says nothing about a snapshot whose datatype document does not exist, and a push can
    create that document. -/
theorem snapInv_processPack_partial (st : Store) (cl : ClientDoc) (col : CollectionDoc) (p : Pack)
    (hi : LogInv st) (hs : st.SnapInv) (hn : SnapNoOrphan st) : (processPack st cl col p).store.SnapInv := by
  have hi' := logInv_processPack st cl col p hi
  obtain ⟨h1, _, ⟨nd, h3⟩, _, h5⟩ := processPack_store st cl col p hi
  intro s hsm d' hd' hds
  rw [h1] at hsm
  obtain ⟨d, hd, hdd⟩ := hn s hsm
  obtain ⟨ht, hle⟩ := h5 d hd d' hd' (hds.trans hdd.symm)
  obtain ⟨hs1, hs2⟩ := hs s hsm d hd hdd
  have g := hi.gapless d hd
  have g' := hi'.gapless d' hd'
  rw [hdd] at g
  rw [hds] at g'
  rw [ht, logOf_take_append h3 g g' hs1]
  exact ⟨Nat.le_trans hs1 hle, hs2⟩

theorem userInv_processPack (st : Store) (cl : ClientDoc) (col : CollectionDoc) (p : Pack)
    (hu : st.UserInv) : (processPack st cl col p).store.UserInv := by
  have h : (processPack st cl col p).store.snapshots = st.snapshots ∧
      (processPack st cl col p).store.userDocs = st.userDocs := by
    rcases processPack_shape st cl col p with ⟨resp, he, _⟩ | ⟨dsp, doc, cp2, nd, he, _, _⟩ <;> rw [he] <;> exact ⟨rfl, rfl⟩
  intro u hum
  rw [h.2] at hum
  rw [h.1]
  exact hu u hum

/-- C11: the recorded version of the user document never decreases: the updater writes a user document only
    together with a NEW snapshot whose version is greater than every stored snapshot version of that datatype -/
theorem version_monotone (st : Store) (duid colName : String) (e : Nat) (doc : DatatypeDoc)
    (hd : st.getDatatype duid = some doc) :
    let st' := st.updateSnapshotUpTo duid colName e
    st'.userDocs = st.userDocs ∨
    (∃ u ∈ st'.userDocs, u.key = doc.key ∧ u.col = colName ∧
       ∀ s ∈ st.snapshots, s.colNum = doc.colNum → s.duid = duid → s.sseq < u.ver) := by
  intro st'
  rcases upTo_cases st duid colName e with h | ⟨doc', r, hg, hr, hany, h⟩
  · left; show (st.updateSnapshotUpTo duid colName e).userDocs = _; rw [h]
  · right
    rw [hd] at hg
    cases hg
    have hdu := (getDatatype_some hd).2
    refine ⟨⟨colName, doc.key, verOf (opsUpTo st duid (base st doc).2 e) (base st doc).2, r.state⟩, ?_, rfl, rfl, ?_⟩
    · show _ ∈ (st.updateSnapshotUpTo duid colName e).userDocs
      rw [h]
      exact List.mem_append_right _ (List.mem_singleton.2 rfl)
    · intro s hsm hc hsd
      have hmax := base_max st doc s hsm hc (hsd.trans hdu.symm)
      have hge : (base st doc).2 ≤ verOf (opsUpTo st duid (base st doc).2 e) (base st doc).2 := by
        apply verOf_ge
        intro o ho
        have := (mem_getOperations.1 (List.mem_filter.1 ho).1).2
        omega
      have hne := List.any_eq_false.1 hany s hsm
      simp only [decide_eq_true_eq, not_and] at hne
      have := hne hsd
      show s.sseq < verOf (opsUpTo st duid (base st doc).2 e) (base st doc).2
      omega

/-- the atomic updater of Model/Server (run right after its push) is the bounded one started for the current end of log -/
theorem updateSnapshot_eq_upTo (st : Store) (duid colName : String) (doc : DatatypeDoc)
    (hd : st.getDatatype duid = some doc) (hi : LogInv st) :
    st.updateSnapshot duid colName = st.updateSnapshotUpTo duid colName doc.sseqEnd := by
  obtain ⟨hm, hdu⟩ := getDatatype_some hd
  subst hdu
  have gap := hi.gapless doc hm
  obtain ⟨hseq, hlen⟩ := isSeq_of_range gap
  have hf : opsUpTo st doc.duid (base st doc).2 doc.sseqEnd = st.getOperations doc.duid ((base st doc).2 + 1) := by
    unfold opsUpTo
    apply List.filter_eq_self.2
    intro o ho
    have := hseq.mem (mem_getOperations.1 ho).1
    simp only [decide_eq_true_eq]
    omega
  rw [upTo_eq, hd]
  unfold Store.updateSnapshot
  rw [hd]
  simp only []
  rw [latest_eq, hf]
  generalize (base st doc).1.receive ((st.getOperations doc.duid ((base st doc).2 + 1)).map (·.op)) = x
  rcases x with ⟨r, (_ | c | w)⟩ <;> rfl

/-! ### `snapInv_processPack` without `SnapNoOrphan` is false -/

namespace SN
def cexStore : Store := { snapshots := [⟨0, "d", 5, OpId.nil, "k", .counter 42⟩] }
def cexCl : ClientDoc := ⟨"c1", "a", 0, 0, 0⟩
def cexCol : CollectionDoc := ⟨"col", 0⟩
def cexPack : Pack := { key := "k", duid := "d", create := true, cp := ⟨0, 0⟩, typ := .counter, ops := [] }
end SN

/-- counterexample to `snapInv_processPack` as first stated (hypotheses `LogInv` and `SnapInv` only): a
    store holding a snapshot (version 5) of a datatype id that has no datatype document satisfies both
    vacuously; a push that creates a datatype with that id (end of log 0) breaks `SnapInv` -/
theorem snapInv_processPack_counterexample :
    ∃ (st : Store) (cl : ClientDoc) (col : CollectionDoc) (p : Pack),
      LogInv st ∧ st.SnapInv ∧ ¬ (processPack st cl col p).store.SnapInv := by
  have hi : LogInv cexStore := logInv_congr (st := {}) rfl rfl logInv_empty
  refine ⟨cexStore, cexCl, cexCol, cexPack, hi, ?_, ?_⟩
  · intro s _ d hd; cases hd
  · intro h
    have hany : (processPack cexStore cexCl cexCol cexPack).store.datatypes.any
        (fun d => d.duid = "d" ∧ d.sseqEnd = 0) = true := by decide
    obtain ⟨d, hd, hp⟩ := List.any_eq_true.1 hany
    simp only [decide_eq_true_eq] at hp
    have hsn := (processPack_store cexStore cexCl cexCol cexPack hi).1
    have := (h ⟨0, "d", 5, OpId.nil, "k", .counter 42⟩ (by rw [hsn]; exact List.mem_singleton.2 rfl) d hd hp.1).1
    rw [hp.2] at this
    exact absurd this (by decide)

theorem snapInv_empty : ({} : Store).SnapInv := by
  intro s hs; cases hs

theorem userInv_empty : ({} : Store).UserInv := by
  intro u hu; cases hu

/-- `receive_append` as an equation of results -/
theorem receive_append_full (r : Replica) (a b : List Op) (ha : (r.receive a).2 = .ok ()) :
    r.receive (a ++ b) = (r.receive a).1.receive b :=
  SN.receive_append_eq b a.length a r (Nat.le_refl _) ha

end Orda
